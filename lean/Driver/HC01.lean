import Driver.Util
import Clem.Model.C01Turn
import Clem.Gen.Determinism

open Lean Clem.C01

namespace Driver.HC01

def optInt (j : Json) (k : String) : R (Option Int) :=
  match j.getObjVal? k with
  | .ok Json.null => pure none
  | .ok v => do pure (some (← v.getInt?))
  | .error _ => pure none

def intList (j : Json) (k : String) : R (List Int) := do
  let a ← fldArr j k
  a.toList.mapM (fun x => x.getInt?)

def streamOf : String → R Stream
  | "t1" => pure .t1 | "t2" => pure .t2 | "t3" => pure .t3 | "t3_plan" => pure .t3plan
  | "t3_dialogue" => pure .t3dlg | "t4" => pure .t4 | "apply" => pure .apply
  | "scheduler" => pure .sched | "turn" => pure .turn
  | s => throw s!"unknown stream {s}"

def streamName : Stream → String
  | .t1 => "t1" | .t2 => "t2" | .t3 => "t3" | .t3plan => "t3_plan" | .t3dlg => "t3_dialogue"
  | .t4 => "t4" | .apply => "apply" | .sched => "scheduler" | .turn => "turn"

def jOptInt : Option Int → Json
  | none => Json.null
  | some x => jInt x

def recJ (r : Rec) : Json :=
  jObj [("s", jStr (streamName r.stream)), ("id", jArr (r.ident.map jInt)), ("ms", jOptInt r.ms),
        ("now", match r.now with | none => Json.null | some n => jNat n),
        ("durs", match r.durs with | none => Json.null | some l => jArr (l.map jInt)),
        ("y", match r.yielded with | none => Json.null | some b => jBool b),
        ("sl", jOptInt r.sliceIdx), ("cms", jOptInt r.consumedMs)]

def recOf (j : Json) : R Rec := do
  let s ← streamOf (← fldStr j "s")
  let ident ← intList j "id"
  let ms ← optInt j "ms"
  let now ← match j.getObjVal? "now" with
    | .ok Json.null => pure none
    | .ok v => do pure (some (← v.getNat?))
    | .error _ => pure none
  let durs ← match j.getObjVal? "durs" with
    | .ok Json.null => pure none
    | .ok (Json.arr a) => do pure (some (← a.toList.mapM (fun x => x.getInt?)))
    | _ => pure none
  let y ← match j.getObjVal? "y" with
    | .ok (Json.bool b) => pure (some b)
    | _ => pure none
  pure { stream := s, ident := ident, ms := ms, now := now, durs := durs, yielded := y,
         sliceIdx := ← optInt j "sl", consumedMs := ← optInt j "cms" }

def cfgOf (j : Json) : R Cfg := do
  pure { ci := ← fldBool j "ci", schedOn := ← fldBool j "schedOn", wallMs := ← optInt j "wallMs",
         quantumMs := ← fldInt j "quantumMs", bIters := ← optInt j "bIters", bPops := ← optInt j "bPops",
         bK := ← optInt j "bK", bOps := ← optInt j "bOps", t3On := ← fldBool j "t3On", t4On := ← fldBool j "t4On",
         cacheOn := ← fldBool j "cacheOn", ttl := ← fldInt j "ttl", hasNow := ← fldBool j "hasNow" }

def turnInOf (j : Json) : R TurnIn := do
  pure { turn := ← fldInt j "turn", agent := ← fldInt j "agent", text := ← fldNat j "text", ver := ← fldNat j "ver",
         slice := ← fldInt j "slice", t1Iters := ← optInt j "t1Iters", t1Pops := ← optInt j "t1Pops",
         t1Tok := ← fldInt j "t1Tok", t2K := ← optInt j "t2K", t2Tok := ← fldInt j "t2Tok", ops := ← fldInt j "ops",
         utter := ← fldInt j "utter", t4Tok := ← fldInt j "t4Tok", applyTok := ← fldInt j "applyTok",
         now := ← fldNat j "now" }

def decOf (j : Json) : R Dec := do
  pure { el := ← intList j "el", age := ← fldInt j "age", vol := ← intList j "vol" }

def outJ (cfg : Cfg) (o : Out) : Json :=
  jObj [("recs", jArr ((o.recs.map (normalize cfg.ci)).map recJ)), ("line", jInt o.line),
        ("cache_n", jNat o.cache.length)]

def outOf (j : Json) : R Out := do
  let a ← fldArr j "recs"
  let recs ← a.toList.mapM recOf
  pure ⟨recs, ← fldInt j "line", []⟩

/-- `{"c":"c01.turns","cfg":{..},"turns":[{"dec":{..},"in":{..}},..]}` → per-turn normalised records, line, cache size -/
def handleTurns (j : Json) : R Json := do
  let cfg ← cfgOf (← fld j "cfg")
  let ts ← fldArr j "turns"
  let xs ← ts.toList.mapM (fun x => do pure ((← decOf (← fld x "dec")), (← turnInOf (← fld x "in"))))
  pure (jArr ((run cfg xs []).map (outJ cfg)))

/-- `{"c":"c01.norm","ci":b,"rec":{..}}` → `normalize ci rec` -/
def handleNorm (j : Json) : R Json := do
  pure (recJ (normalize (← fldBool j "ci") (← recOf (← fld j "rec"))))

/-- `{"c":"c01.norm_ok","ci":b,"inp":{..},"out":{..}}` → `normOkB ci inp out`, `out` being what the REAL
`normalize_for_identity` returned -/
def handleNormOk (j : Json) : R Json := do
  pure (jBool (normOkB (← fldBool j "ci") (← recOf (← fld j "inp")) (← recOf (← fld j "out"))))

/-- monitor, evaluated on IMPLEMENTATION outputs of two executions of the same logical turn list:
`(∀ i, decEquivB cfg dᵢ d'ᵢ) → canon outsᵢ = canon outs'ᵢ` (utterance and canonical records) -/
def handleSameCanon (j : Json) : R Json := do
  let cfg ← cfgOf (← fld j "cfg")
  let da ← (← fldArr j "decsA").toList.mapM decOf
  let db ← (← fldArr j "decsB").toList.mapM decOf
  let oa ← (← fldArr j "outsA").toList.mapM outOf
  let ob ← (← fldArr j "outsB").toList.mapM outOf
  let equiv := da.length == db.length && (da.zip db).all (fun p => decEquivB cfg p.1 p.2)
  let same := oa.length == ob.length && (oa.zip ob).all (fun p => sameCanonImplB p.1 p.2)
  pure (jBool (!equiv || same))

/-- `{"c":"c01.equiv","cfg":..,"decsA":..,"decsB":..}` → are the two clock contributions indistinguishable? -/
def handleEquiv (j : Json) : R Json := do
  let cfg ← cfgOf (← fld j "cfg")
  let da ← (← fldArr j "decsA").toList.mapM decOf
  let db ← (← fldArr j "decsB").toList.mapM decOf
  pure (jBool (da.length == db.length && (da.zip db).all (fun p => decEquivB cfg p.1 p.2)))

/-- generated tables as seen by the compiled driver (row counts, for the evidence file) -/
def handleTables (_ : Json) : R Json :=
  pure (jObj [("hash_sites", jNat Clem.Gen.Determinism.hashSites.length),
              ("hash_sites_ok", jBool (Clem.Gen.Determinism.hashSites.all (·.ok))),
              ("clock_reads", jNat Clem.Gen.Determinism.clockReads.length),
              ("clock_reads_ok", jBool (Clem.Gen.Determinism.clockReads.all (·.ok))),
              ("core_ok", jBool (Clem.Gen.Determinism.clockReads.all (·.coreOk)))])

def routes : List (String × (Json → R Json)) :=
  [("c01.turns", handleTurns), ("c01.norm", handleNorm), ("c01.norm_ok", handleNormOk), ("c01.same_canon", handleSameCanon),
   ("c01.equiv", handleEquiv), ("c01.tables", handleTables)]

end Driver.HC01
