import Driver.Util
import Clem.Model.LogJson
import Clem.Model.LogFrame
import Clem.Model.LogStager
import Clem.Model.LogRotate

open Lean

namespace Driver.HLogs
open Clem.LogJson

def cps (s : String) : List Nat := s.toList.map Char.toNat
def ofCps (l : List Nat) : String := String.ofList (l.map Char.ofNat)
def fldCps (j : Json) (k : String) : R (List Nat) := do pure (cps (← fldStr j k))

/-! ### values -/
def decV (j : Json) : R V := do
  let t ← fldStr j "t"
  match t with
  | "flt0" => pure .flt0
  | "tru" => pure .tru
  | "int" => pure (.int (← fldInt j "n"))
  | "zeros" =>
    let ks ← fldArr j "keys"
    let ks ← ks.toList.mapM (fun k => do pure (cps (← k.getStr?)))
    pure (.zeros ks)
  | "opq" =>
    let asInt ← (match (fldD j "asInt" Json.null) with
      | Json.null => pure none
      | x => do pure (some (← x.getInt?)))
    let dkeys ← (match (fldD j "dkeys" Json.null) with
      | Json.null => pure none
      | x => do
        let a ← x.getArr?
        pure (some (← a.toList.mapM (fun k => do pure (cps (← k.getStr?))))))
    pure (.opq (← fldNat j "id") (← fldBool j "truthy") asInt dkeys (← fldNat j "slen"))
  | _ => throw s!"bad value tag {t}"

def encV : V → Json
  | .flt0 => jObj [("t", jStr "flt0")]
  | .tru => jObj [("t", jStr "tru")]
  | .int n => jObj [("t", jStr "int"), ("n", jInt n)]
  | .zeros ks => jObj [("t", jStr "zeros"), ("keys", jArr (ks.map (fun k => jStr (ofCps k))))]
  | .opq id _ _ _ _ => jObj [("t", jStr "opq"), ("id", jNat id)]

def decRec (j : Json) : R Rec := do
  let a ← j.getArr?
  a.toList.mapM (fun e => do
    let p ← e.getArr?
    pure (cps (← strAt p 0), ← decV (← arrAt p 1)))

def encRec (r : Rec) : Json := jArr (r.map (fun e => jArr [jStr (ofCps e.1), encV e.2]))

/-! ### normalize -/
def handleNormalize (j : Json) : R Json := do
  let ci := ciOn (← fldCps j "ci_env")
  let name ← fldCps j "name"
  let r ← decRec (← fld j "rec")
  let out := normalize ci name r
  pure (jObj [("out", encRec out), ("twice", encRec (normalize ci name out)), ("ci", jBool ci)])

/-- Monitor: `normOkB` on an implementation output. -/
def handleNormOk (j : Json) : R Json := do
  let ci := ciOn (← fldCps j "ci_env")
  let name ← fldCps j "name"
  let inp ← decRec (← fld j "inp")
  let out ← decRec (← fld j "out")
  pure (jBool (normOkB ci name inp out))

/-! ### framing -/
def bytesOf (s : String) : List Nat := s.toUTF8.toList.map UInt8.toNat
def strOf (b : List Nat) : String :=
  match String.fromUTF8? (ByteArray.mk (b.map UInt8.ofNat).toArray) with
  | some s => s
  | none => "<invalid utf-8>"

/-- ASCII-safe transport of arbitrary text (the harness splits driver output with
`str.splitlines`, which also splits at U+0085/U+2028/…): printable ASCII except `%` stays,
everything else becomes `%<decimal code point>;`. -/
def escS (s : String) : String :=
  s.foldl (fun acc c =>
    if c.toNat ≥ 32 ∧ c.toNat < 127 ∧ c ≠ '%' then acc.push c
    else (acc ++ "%" ++ toString c.toNat).push ';') ""

def jEsc (b : List Nat) : Json := jStr (escS (strOf b))

def handleParse (j : Json) : R Json := do
  let p := Clem.LogFrame.parseLines (bytesOf (← fldStr j "file"))
  pure (jObj [("lines", jArr (p.1.map jEsc)), ("rest", jEsc p.2)])

def handleWellFramed (j : Json) : R Json := do
  let ls ← fldArr j "lines"
  let ls ← ls.toList.mapM (fun l => do pure (bytesOf (← l.getStr?)))
  pure (jBool (Clem.LogFrame.wellFramedB (bytesOf (← fldStr j "file")) ls))

def handleInterleave (j : Json) : R Json := do
  let qs ← fldArr j "qs"
  let qs ← qs.toList.mapM (fun q => do
    let a ← q.getArr?
    a.toList.mapM (fun l => do pure (bytesOf (← l.getStr?))))
  let sched ← fldArr j "sched"
  let sched ← sched.toList.mapM (fun x => x.getNat?)
  let r := Clem.LogFrame.exec qs sched
  pure (jObj [("file", jEsc r.file),
              ("trace", jArr (r.trace.map (fun e => jArr [jNat e.1, jEsc e.2]))),
              ("pending", jArr (r.pending.map (fun q => jNat q.length)))])

def handleRewrite (j : Json) : R Json := do
  let ls ← fldArr j "lines"
  let ls ← ls.toList.mapM (fun l => do pure (bytesOf (← l.getStr?)))
  pure (jEsc (Clem.LogFrame.rewritePayload ls))

/- Raw-write monitor.  Bytes travel as latin-1 text (one code point per byte: chunks may end
   inside a UTF-8 sequence).  `groups[i]` = raw writes of the i-th opened handle, `expect[i]` =
   the bytes that handle must have produced; with `merge`, every interleaving of the first two
   groups' chunks must parse into exactly their lines. -/
def handleRawWrites (j : Json) : R Json := do
  let groups ← (← fldArr j "groups").toList.mapM (fun g => do
    (← g.getArr?).toList.mapM (fun c => do pure (cps (← c.getStr?))))
  let expect ← (← fldArr j "expect").toList.mapM (fun c => do pure (cps (← c.getStr?)))
  let merge ← fldBool j "merge"
  let each := groups.length == expect.length &&
    (groups.zip expect).all (fun ge => Clem.LogFrame.rawWritesOkB ge.1 ge.2)
  let mergeOk := match groups, expect with
    | g1 :: g2 :: _, e1 :: e2 :: _ =>
      !merge || Clem.LogFrame.allMergesFramedB g1 g2
        ((Clem.LogFrame.parseLines e1).1 ++ (Clem.LogFrame.parseLines e2).1)
    | _, _ => true
  pure (jObj [("each", jBool each), ("merges", jBool mergeOk), ("all", jBool (each && mergeOk))])

/-! ### stager -/
open Clem.LogStager in
def decArrival (j : Json) : R Arrival := do
  pure ⟨← fldCps j "path", ← fldInt j "turn", ← fldInt j "slice", ← decRec (← fld j "rec")⟩

open Clem.LogStager in
def encSRec (r : SRec) : Json :=
  jObj [("path", jStr (ofCps r.path)), ("turn", jInt r.key.turn), ("ord", jNat r.key.ord),
        ("slice", jInt r.key.slice), ("seq", jNat r.key.seq), ("est", jNat r.est),
        ("payload", encRec r.payload)]

open Clem.LogStager in
def handleStager (j : Json) : R Json := do
  let ci := ciOn (← fldCps j "ci_env")
  let limit ← fldInt j "limit"
  let as ← (← fldArr j "arrivals").toList.mapM decArrival
  let r := runBatch ci limit as
  pure (jObj [("ok", jBool r.2), ("written", jArr (r.1.map encSRec)),
              ("mono", jBool (monoPerFileB as))])

open Clem.LogStager in
def decKeyRec (j : Json) : R SRec := do
  pure ⟨← fldCps j "path", ⟨← fldInt j "turn", ← fldNat j "ord", ← fldInt j "slice", ← fldNat j "seq"⟩, [], 0⟩

/- Monitor on an implementation run: every flush sorted by the full key; when the loop
finished: nothing lost/duplicated (the written sequence numbers are exactly 1..n); when the
arrivals are key-monotone per file (or `strict`): each file's sequence is its arrival sequence. -/
open Clem.LogStager in
def handleStagerMon (j : Json) : R Json := do
  let flushes ← (← fldArr j "flushes").toList.mapM (fun f => do (← f.getArr?).toList.mapM decKeyRec)
  let as ← (← fldArr j "arrivals").toList.mapM decArrival
  let ok ← fldBool j "ok"
  let strict ← fldBool j "strict"
  let w := flushes.flatten
  let sortedOk := flushes.all sortedB
  let seqs := w.map (·.key.seq)
  let permOk := !ok || (Clem.Py.isort (fun a b => decide (a ≤ b)) seqs == (List.range as.length).map (· + 1))
  let recs := mkRecs false 0 as
  let paths := (as.map (·.path)).eraseDups
  let fileOk := !(ok && (strict || monoPerFileB as)) ||
    paths.all (fun p => (fileSeq p w).map (·.key.seq) == (fileSeq p recs).map (·.key.seq))
  let keysOk := w.all (fun r => recs.any (fun x => x.key == r.key && x.path == r.path))
  pure (jObj [("sorted", jBool sortedOk), ("lossless", jBool permOk), ("perfile", jBool fileOk),
              ("keys", jBool keysOk), ("all", jBool (sortedOk && permOk && fileOk && keysOk))])

/-! ### rotation -/
open Clem.LogRotate in
def decFS (j : Json) : R FS := do
  let a ← j.getArr?
  let l ← a.toList.mapM (fun e => do
    let p ← e.getArr?
    pure (← natAt p 0, ← natAt p 1))
  pure (fun i => l.lookup i)

open Clem.LogRotate in
def encState (fs : FS) (hi : Nat) : Json :=
  jArr ((List.range (hi + 1)).map (fun i => jOptNat (fs i)))

open Clem.LogRotate in
def encStep : Step → Json
  | .rm k => jArr [jStr "rm", jNat k]
  | .mv s d => jArr [jStr "mv", jNat s, jNat d]

open Clem.LogRotate in
def handleRotate (j : Json) : R Json := do
  let fs ← decFS (← fld j "gens")
  let b ← fldInt j "backups"
  let hi ← fldNat j "hi"
  let st := steps fs b
  pure (jObj [("steps", jArr (st.map encStep)), ("rotated", jBool (rotated fs b)),
              ("states", jArr ((List.range (st.length + 1)).map (fun k => encState (crashState fs b k) hi))),
              ("fails", jArr ((List.range st.length).map (fun k => encState (failState fs b k) hi)))])

open Clem.LogRotate in
def handleRotateMon (j : Json) : R Json := do
  let before ← decFS (← fld j "before")
  let after ← decFS (← fld j "after")
  let b ← fldInt j "backups"
  let hi ← fldNat j "hi"
  -- `backups < 1`: rotate_one must not touch anything
  let same := (List.range (hi + 2)).all (fun i => after i == before i)
  let legal := if b < 1 then same else legalStateB before after b.toNat hi
  let kept := if b < 1 then same else nothingLostB before after b.toNat hi
  pure (jObj [("legal", jBool legal), ("nothing_lost", jBool kept), ("all", jBool (legal && kept))])

def allTrue (h : Json → R Json) (j : Json) : R Json := do
  let r ← h j
  fld r "all"

def routes : List (String × (Json → R Json)) :=
  [("c16.normalize", handleNormalize), ("c16.normok", handleNormOk),
   ("c16.parse", handleParse), ("c16.wellframed", handleWellFramed),
   ("c16.interleave", handleInterleave), ("c16.rawwrites", allTrue handleRawWrites),
   ("c16.rawwrites.detail", handleRawWrites), ("c16.rewrite", handleRewrite),
   ("c16.stager", handleStager), ("c16.stager.mon", allTrue handleStagerMon),
   ("c16.stager.mon.detail", handleStagerMon),
   ("c16.rotate", handleRotate), ("c16.rotate.mon", allTrue handleRotateMon),
   ("c16.rotate.mon.detail", handleRotateMon)]

end Driver.HLogs
