import Driver.Util
import Clem.Model.Gates

open Lean Clem.Gates Clem.Gen.Gates Clem.Py

namespace Driver.HGates

def idxOfStr (l : List String) (s : String) : Option Nat :=
  let rec go : List String → Nat → Option Nat
    | [], _ => none
    | x :: xs, i => if x == s then some i else go xs (i + 1)
  go l 0

/-- {"leaf name": int} → Cfg (unknown names are rejected, absent leaves are 0). -/
def cfgOf (j : Json) : R Cfg := do
  let obj ← j.getObj?
  let mut pairs : List (Nat × Int) := []
  for ⟨k, v⟩ in obj.toList do
    match idxOfStr leafNames k with
    | some i => pairs := (i, ← v.getInt?) :: pairs
    | none => pure ()          -- leaves the table does not know are irrelevant to the tabled predicates
  let ps := pairs
  pure (fun i => (ps.lookup i).getD 0)

def extOf (j : Json) : R (Nat → Option Bool) := do
  let obj ← j.getObj?
  let mut pairs : List (Nat × Bool) := []
  for ⟨k, v⟩ in obj.toList do
    match idxOfStr extNames k with
    | some i => pairs := (i, ← v.getBool?) :: pairs
    | none => pure ()
  let ps := pairs
  pure (fun i => ps.lookup i)

def featOf (name : String) : R Feat :=
  match idxOfStr featNames name with
  | some i => match feats[i]? with
    | some f => pure f
    | none => throw s!"feature index {i}"
  | none => throw s!"unknown gate {name}"

def handlePredict (j : Json) : R Json := do
  let c ← cfgOf (← fld j "cfg")
  let x ← extOf (← fld j "ext")
  let arts := (List.range artefactNames.length).zip artefactNames |>.map
    (fun (i, n) => (n, jNat (predict c x allSites i)))
  let fired := (allSites.zip siteNames).filter (fun (s, _) => eval3 c x s.guard == some true) |>.map (fun (_, n) => jStr n)
  let never := (allSites.zip siteNames).filter (fun (s, _) => eval3 c x s.guard == some false) |>.map (fun (_, n) => jStr n)
  pure (jObj [("arts", jObj arts), ("fired", jArr fired), ("never", jArr never)])

def handleNoArtifact (j : Json) : R Json := do
  let g ← featOf (← fldStr j "gate")
  let pres ← fldArr j "present"
  let mut ids : List Nat := []
  for p in pres do
    match idxOfStr artefactNames (← p.getStr?) with
    | some i => ids := i :: ids
    | none => throw "unknown artefact"
  pure (jBool (noArtifactB g.arts ids))

/-- Hypotheses of `C02_inert` evaluated on a concrete pair of configurations, plus the conclusion at the
level of site predicates (every tabled predicate evaluates alike, unknown atoms left unknown). -/
def handlePair (j : Json) : R Json := do
  let g ← featOf (← fldStr j "gate")
  let a ← cfgOf (← fld j "a")
  let b ← cfgOf (← fld j "b")
  let x ← extOf (← fld j "ext")
  let ids := List.range leafNames.length
  let agree := ids.all (fun i => g.sub.contains i || a i == b i)
  let off := a g.flag == 0 && b g.flag == 0
  let same := sites.all (fun s => eval3 a x s.guard == eval3 b x s.guard)
  let reads := sites.all (fun s => eval3 a x s.guard == some false || s.reads.map a == s.reads.map b)
  pure (jObj [("hyp", jBool (agree && off)), ("guards_equal", jBool same), ("reads_equal", jBool reads),
              ("table_ok", jBool (tableOK g.flag g.sub sites))])

def handleStatus (_ : Json) : R Json := do
  let t := (feats.zip featNames).map (fun (f, n) => (n, jBool (tableOK f.flag f.sub sites)))
  pure (jObj [("tableOK", jObj t), ("consistent", jBool (consistentB allSites documentedGates)),
              ("parallel_master", jBool (consistentB allSites parallelMaster)),
              ("agents_master", jBool (consistentB allSites agentsMaster)),
              ("sites", jNat allSites.length), ("leaves", jNat leafNames.length),
              ("ext", jArr (extNames.map jStr))])

def routes : List (String × (Json → R Json)) :=
  [("gates.predict", handlePredict), ("gates.noartifact", handleNoArtifact),
   ("gates.pair", handlePair), ("gates.status", handleStatus)]

end Driver.HGates
