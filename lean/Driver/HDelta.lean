import Driver.Util
import Clem.Model.Delta

open Lean Clem.Py Clem.Delta

namespace Driver.HDelta

/-! Wire form of `Clem.Py.J` (see `harness/lib/jwire.py`):
`null`/`true`/`false` as such, int `{"i": n}`, float `{"f": "<bits>"}`, str as a JSON string,
arr as a JSON array, obj `{"o": [[key, value], …]}` (order preserved). -/

def strOf (s : String) : Str := s.toList.map Char.toNat
def ofStr (s : Str) : String := String.ofList (s.map Char.ofNat)

partial def decJ (j : Json) : R J :=
  match j with
  | .null => pure .null
  | .bool b => pure (.bool b)
  | .str s => pure (.str (strOf s))
  | .arr a => do
      let xs ← a.toList.mapM decJ
      pure (.arr xs)
  | .num _ => throw "bare number on the wire"
  | .obj _ => do
      if let .ok v := j.getObjVal? "i" then
        return .int (← v.getInt?)
      if let .ok v := j.getObjVal? "f" then
        match (← v.getStr?).toNat? with
        | some n => return .flt n
        | none => throw "bad float bits"
      if let .ok v := j.getObjVal? "o" then
        let es ← (← v.getArr?).toList.mapM (fun e => do
          let a ← e.getArr?
          let k ← strAt a 0
          let x ← decJ (← arrAt a 1)
          pure (strOf k, x))
        return .obj es
      throw "bad wire object"

partial def encJ : J → Json
  | .null => Json.null
  | .bool b => Json.bool b
  | .int n => jObj [("i", jInt n)]
  | .flt b => jObj [("f", jStr (toString b))]
  | .str s => jStr (ofStr s)
  | .arr xs => jArr (xs.map encJ)
  | .obj es => jObj [("o", jArr (es.map (fun e => jArr [jStr (ofStr e.1), encJ e.2])))]

def fldJ (j : Json) (k : String) : R J := do decJ (← fld j k)

/-- `{"base", "cur"}` ↦ delta, reconstruction and the round-trip monitor. -/
def handleRoundtrip (j : Json) : R Json := do
  let base ← fldJ j "base"
  let cur ← fldJ j "cur"
  let d := computeDelta base cur
  let out := J.obj (applyDelta base d)
  pure (jObj [("delta", encJ d.toJ), ("out", encJ out),
              ("ok", jBool (J.eqv out (J.obj (J.entries cur))))])

/-- `{"base", "delta"}` ↦ `apply_delta` on an arbitrary delta blob. -/
def handleApply (j : Json) : R Json := do
  let base ← fldJ j "base"
  let d ← fldJ j "delta"
  pure (encJ (J.obj (applyDelta base (Delta.ofJ (orEmpty d)))))

/-- monitor: `eqv a b` (JSON equality, key order ignored, strict leaves). -/
def handleEqv (j : Json) : R Json := do
  pure (jBool (J.eqv (← fldJ j "a") (← fldJ j "b")))

def handleSplit (j : Json) : R Json := do
  let p ← fldStr j "path"
  pure (jArr ((splitPath (strOf p)).map (fun s => jStr (ofStr s))))

def handleJoin (j : Json) : R Json := do
  let a ← fldArr j "segs"
  let segs ← a.toList.mapM (fun x => do pure (strOf (← x.getStr?)))
  let p := joinPath segs
  pure (jObj [("path", jStr (ofStr p)),
              ("back", jArr ((splitPath p).map (fun s => jStr (ofStr s)))),
              ("ok", jBool (segs.isEmpty || splitPath p == segs))])

/-! file level: a scenario is a list of steps over a directory that starts empty.
`["corrupt", "full"|"delta", etag]`, `["rm", "full"|"delta", etag]`,
`["auto", etag_from|null, etag_to, payload, delta_mode]`, `["read", etag]` (etag branch),
`["readp", "full"|"delta", etag]` (path branch), `["load", etag]` (delta branch of
`load_latest_snapshot` when the picked file is the delta file of `etag`). -/

def stemOf (kind : String) (e : Str) : Stem := if kind == "delta" then .delta e else .full e

def optStr (j : Json) : R (Option Str) :=
  match j with
  | .null => pure none
  | .str s => pure (some (strOf s))
  | _ => throw "expected string or null"

def jRead : ReadRes → Json
  | .raised => jObj [("raised", jBool true)]
  | .payload p => jObj [("payload", encJ p)]

def handleAuto (j : Json) : R Json := do
  let steps ← fldArr j "steps"
  let mut d : Dir := fun _ => .missing
  let mut out : Array Json := #[]
  for st in steps do
    let a ← st.getArr?
    let tag ← strAt a 0
    match tag with
    | "corrupt" =>
        d := d.put (stemOf (← strAt a 1) (strOf (← strAt a 2))) .corrupt
        out := out.push Json.null
    | "rm" =>
        d := d.put (stemOf (← strAt a 1) (strOf (← strAt a 2))) .missing
        out := out.push Json.null
    | "auto" =>
        let ef ← optStr (← arrAt a 1)
        let et := strOf (← strAt a 2)
        let p ← decJ (← arrAt a 3)
        let dm ← (← arrAt a 4).getBool?
        match writeAuto d ef et p dm with
        | none => out := out.push (jObj [("raised", jBool true)])
        | some (d', m) =>
            d := d'
            out := out.push (jObj [("mode", jStr (if m == .delta then "delta" else "full"))])
    | "read" =>
        out := out.push (jRead (readSnapshot d (strOf (← strAt a 1))))
    | "readp" =>
        out := out.push (jRead (readPath d (stemOf (← strAt a 1) (strOf (← strAt a 2)))))
    | "load" =>
        out := out.push (match loadLatestDelta d (strOf (← strAt a 1)) with
          | .reconstructed p => jObj [("src", jStr "reconstructed"), ("payload", encJ p)]
          | .sibling p => jObj [("src", jStr "sibling"), ("payload", encJ p)]
          | .notLoaded => jObj [("src", jStr "notLoaded")])
    | _ => throw s!"bad step {tag}"
  pure (Json.arr out)

def routes : List (String × (Json → R Json)) :=
  [("delta.roundtrip", handleRoundtrip), ("delta.apply", handleApply), ("delta.eqv", handleEqv),
   ("delta.split", handleSplit), ("delta.join", handleJoin), ("delta.auto", handleAuto)]

end Driver.HDelta
