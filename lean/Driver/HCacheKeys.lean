import Driver.Util
import Clem.Model.CacheKeys

open Lean Clem.CacheKeys Clem.KeySuff

namespace Driver.HCacheKeys

def optInt (j : Json) (k : String) : R (Option Int) := do
  let v := fldD j k Json.null
  if v.isNull then pure none else pure (some (← v.getInt?))

def optNat (j : Json) (k : String) : R (Option Nat) := do
  let v := fldD j k Json.null
  if v.isNull then pure none else pure (some (← v.getNat?))

def natList (a : Array Json) : R (List Nat) := do
  let mut out : List Nat := []
  for x in a do
    out := out ++ [← x.getNat?]
  pure out

def fldNatList (j : Json) (k : String) : R (List Nat) := do natList (← fldArr j k)

def jOptInt : Option Int → Json
  | none => Json.null
  | some n => jInt n

def jNatList (l : List Nat) : Json := jArr (l.map jNat)

def t1RawOf (j : Json) : R T1Raw := do
  pure { gid := ← fldNat j "gid", graph := ← fldNat j "graph", text := ← fldNat j "text",
         decay := ← fldNat j "decay", edgeMult := ← fldNat j "mult", radiusCap := ← fldInt j "radius",
         iterCap := ← fldInt j "iter", iterCapLayers := ← fldInt j "layers", queueBudget := ← fldInt j "queue",
         relaxCap := ← optInt j "relax", nodeBudget := ← fldNat j "nb", sliceIters := ← optInt j "sIters",
         slicePops := ← optInt j "sPops", frontierCap := ← fldInt j "fr", visitedCap := ← fldInt j "vis",
         dedupeWindow := ← fldInt j "ded", perfEnabled := ← fldBool j "perf" }

/-- the fields of `policy_caps` as the code names them -/
def jEff (e : T1Eff) : Json :=
  jObj [("radius_cap", jInt e.radiusCap), ("iter_cap", jInt e.iterCap), ("iter_cap_layers", jInt e.effLayers),
        ("relax_cap", jOptInt e.relaxCap), ("queue_budget", jInt e.effQueue), ("node_budget", jNat e.nodeBudget),
        ("frontier_cap", jInt e.frontierCap), ("visited_cap", jInt e.visitedCap),
        ("dedupe_window", jInt e.dedupeWindow), ("perf_enabled", jBool e.perfEnabled),
        ("decay", jNat e.decay), ("mult", jNat e.edgeMult)]

def handleT1Eff (j : Json) : R Json := do pure (jEff (t1Eff (← t1RawOf j)))

def labelsOf (j : Json) (k : String) : R (List (List Nat)) := do
  let mut out : List (List Nat) := []
  for x in (← fldArr j k) do
    out := out ++ [← natList (← x.getArr?)]
  pure out

def handleT2Q (j : Json) : R Json := do
  pure (jNatList (t2QText (← fldNatList j "text") (← labelsOf j "labels")))

def t2RawOf (j : Json) : R T2Raw := do
  let rk ← fldNatList j "rank"
  pure { tiers := ← fldNatList j "tiers", text := ← fldNatList j "text", labels := ← labelsOf j "labels",
         recentDays := ← fldInt j "days", simThr := ← fldNat j "thr", topM := ← fldInt j "topM",
         quality := ← optNat j "quality", sliceK := ← optNat j "sliceK", ownerScope := ← fldNat j "scope",
         owner := ← fldNat j "owner", kRetrieval := ← fldInt j "k", now := ← fldNat j "now",
         rank := (rk.getD 0 0, rk.getD 1 0, rk.getD 2 0), residualCap := ← fldInt j "rcap",
         kSurface := ← fldInt j "ksurf", indexVer := ← fldInt j "ver", indexTok := ← fldNat j "tok",
         labelMap := ← fldNat j "labelMap", hybrid := ← fldNat j "hybrid", index := ← fldNat j "index",
         rest := ← fldNat j "rest" }

def handleTurnKey (j : Json) : R Json := do
  let v := fldD j "version" Json.null
  let ver : Option (List Nat) ← (if v.isNull then pure none else do pure (some (← natList (← v.getArr?))))
  let r : TurnRaw := { version := ver, text := ← fldNatList j "text", sliceK := ← optNat j "sliceK",
                       agent := 0, now := 0, config := 0, t1Sig := 0, graphs := 0, indexVer := 0, gel := 0,
                       t1Labels := 0, labelMap := 0, memory := 0 }
  let k := turnKey r
  pure (jObj [("ver", jNatList k.ver), ("text", jNatList k.text), ("sliceK", jOptNat k.sliceK)])

/-- all pairs of a list satisfy `p` -/
def allPairs {α : Type} (p : α → α → Bool) : List α → Bool
  | [] => true
  | x :: xs => xs.all (p x) && allPairs p xs

/-- Monitor (T1): two real calls with equal MODEL keys returned equal fresh results.
The etag is the content code itself (a faithful etag). -/
def handleMonT1 (j : Json) : R Json := do
  let mut calls : List (T1Key Nat × Nat) := []
  for c in (← fldArr j "calls") do
    let r ← t1RawOf c
    calls := calls ++ [(⟨r.gid, r.graph, t1Eff r, ← fldNatList c "seeds"⟩, ← fldNat c "res")]
  pure (jBool (allPairs (fun a b => keyEqImpliesSameB a.1 b.1 (a.2 == b.2)) calls))

/-- Monitor (T2): two real calls with equal effective inputs (`t2Eff`: key + index + label map + rest)
returned equal fresh results. -/
def handleMonT2 (j : Json) : R Json := do
  let mut calls : List (T2Eff × Nat) := []
  for c in (← fldArr j "calls") do
    calls := calls ++ [(t2Eff (← t2RawOf c), ← fldNat c "res")]
  pure (jBool (allPairs (fun a b => keyEqImpliesSameB a.1 b.1 (a.2 == b.2)) calls))

/-! `runOps` on the concrete containers with a tabulated key function and stage -/

def evOf (a : Json) : R (Ev Nat) := do
  let arr ← a.getArr?
  match ← strAt arr 0 with
  | "req" => pure (.req (← natAt arr 1))
  | _ => pure (.other (← natAt arr 1))

def jOuts (l : List (Option Nat)) : Json := jArr (l.map jOptNat)

def handleRun (j : Json) : R Json := do
  let keyTab ← fldNatList j "key"
  let fTab ← fldNatList j "f"
  let key : Nat → Nat := fun x => keyTab.getD x 0
  let f : Nat → Nat := fun x => fTab.getD x 0
  let mut evs : List (Ev Nat) := []
  for e in (← fldArr j "events") do
    evs := evs ++ [← evOf e]
  let kind ← fldStr j "kind"
  let cached ← (match kind with
    | "ttl" => do
      pure (runOps ttlOps key f ⟨Clem.TtlLru.Ns.init (← fldInt j "max") (← fldInt j "ttl"), ← fldInt j "now"⟩ evs)
    | "bytes" => do
      let costTab ← fldNatList j "cost"
      pure (runOps (bytesOps (fun _ v => (costTab.getD v 1 : Nat))) key f
              (Clem.LruBytes.init (← fldNat j "maxE") (← fldNat j "maxB")) evs)
    | _ => pure (runOps offOps key f () evs))
  let idx := List.range keyTab.length
  let suff := idx.all (fun a => idx.all (fun b => !(key a == key b) || f a == f b))
  pure (jObj [("cached", jOuts cached), ("uncached", jOuts (runUncached f evs)), ("sufficient", jBool suff)])

def routes : List (String × (Json → R Json)) :=
  [("c05.t1eff", handleT1Eff), ("c05.t2q", handleT2Q), ("c05.turnkey", handleTurnKey),
   ("c05.mon.t1", handleMonT1), ("c05.mon.t2", handleMonT2), ("c05.run", handleRun)]

end Driver.HCacheKeys
