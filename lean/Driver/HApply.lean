import Driver.Util
import Clem.Model.Apply

open Lean Clem.Apply

namespace Driver.HApply

def isNull (j : Json) : Bool := match j with | .null => true | _ => false

def optInt (j : Json) : R (Option Int) := if isNull j then pure none else do pure (some (← j.getInt?))
def optNat (j : Json) : R (Option Nat) := if isNull j then pure none else do pure (some (← j.getNat?))

def natList (j : Json) : R (List Nat) := do
  let a ← j.getArr?
  let mut out : List Nat := []
  for x in a do out := out ++ [← x.getNat?]
  pure out

def optNatList (j : Json) : R (Option (List Nat)) :=
  if isNull j then pure none else do pure (some (← natList j))

def parseCache (j : Json) : R Cache := do
  let a ← j.getArr?
  let mut out : Cache := []
  for x in a do
    let p ← x.getArr?
    out := out ++ [(← natAt p 0, ← natAt p 1)]
  pure out

def optCache (j : Json) : R (Option Cache) :=
  if isNull j then pure none else do pure (some (← parseCache j))

def parseCnt (j : Json) : R Cnt := if isNull j then pure .bad else do pure (.ok (← j.getInt?))

def parseOutcome (j : Json) : R Outcome := do
  let a ← j.getArr?
  match ← strAt a 0 with
  | "raise" => pure .raise
  | "ret" => pure (.ret (← parseCnt (← arrAt a 1)) (← parseCnt (← arrAt a 2)))
  | t => throw s!"bad outcome {t}"

def parseScript (j : Json) : R (List Outcome) := do
  let a ← j.getArr?
  let mut out : List Outcome := []
  for x in a do out := out ++ [← parseOutcome x]
  pure out

def parseStore (s : String) : R StoreKind :=
  match s with
  | "fn" => pure .fn
  | "none" => pure .none
  | "noFn" => pure .noFn
  | "attrRaises" => pure .attrRaises
  | _ => throw s!"bad store kind {s}"

def parseExport (j : Json) : R ExportMode :=
  match (fldD j "exportMode" (Json.str "absent")).getStr? with
  | .ok "absent" => pure .absent
  | .ok "ok" => pure .ok
  | .ok "raises" => pure .raises
  | .ok "garbage" => pure .garbage
  | .ok "attrRaises" => pure .attrRaises
  | _ => throw "bad exportMode"

def parseW (j : Json) : R WMode :=
  match (fldD j "wMode" (Json.str "absent")).getStr? with
  | .ok "absent" => pure .absent
  | .ok "ok" => pure .ok
  | .ok "badKey" => pure .badKey
  | .ok "badValue" => pure .badValue
  | .ok "attrRaises" => pure .attrRaises
  | _ => throw "bad wMode"

def jSection : Option Section → Json
  | none => Json.null
  | some .empty => jStr "empty"
  | some .state => jStr "state"
  | some .weights => jStr "weights"

def parseSection (j : Json) : R (Option Section) :=
  if isNull j then pure none else
  match j.getStr? with
  | .ok "empty" => pure (some .empty)
  | .ok "state" => pure (some .state)
  | .ok "weights" => pure (some .weights)
  | _ => throw "bad section"

def parseVer (j : Json) : R Ver := do
  match ← fldStr j "k" with
  | "absent" => pure .absent
  | "junk" => pure .junk
  | "num" => pure (.num (← fldInt j "n"))
  | t => throw s!"bad ver {t}"

def parseIn (j : Json) : R In := do
  pure { store := ← parseStore (← fldStr j "store"), ver := ← parseVer (← fld j "ver"),
         turn := ← optInt (← fld j "turn"), every := ← fldInt j "every", bust := ← fldBool j "bust",
         namespaces := ← optNatList (← fld j "namespaces"), cm := ← optCache (← fld j "cm"),
         cmFault := ← optNat (← fld j "cmFault"), snapFault := ← fldBool j "snapFault",
         deltas := ← natList (← fld j "deltas"), script := ← parseScript (← fld j "script"),
         exportMode := ← parseExport j, wMode := ← parseW j }

def jNatList (l : List Nat) : Json := jArr (l.map jNat)
def jCalls (l : List (List Nat)) : Json := jArr (l.map jNatList)
def jCache (c : Cache) : Json := jArr (c.map (fun p => jArr [jNat p.1, jNat p.2]))
def jOptCache : Option Cache → Json | none => Json.null | some c => jCache c
def jSnap : Option SnapRec → Json
  | none => Json.null
  | some s => jObj [("version", jStr (toString s.version)), ("applied", jInt s.applied),
                    ("deltas", jNatList s.deltas)]

def jOut (o : Out) : Json :=
  jObj [("calls", jCalls o.calls), ("applied", jInt o.applied), ("clamps", jInt o.clamps),
        ("version", jStr (toString o.version)), ("invalidated", jNat o.invalidated),
        ("cm", jOptCache o.cm), ("snap", jSnap o.snap), ("raised", jBool o.raised),
        ("snapStore", jSection o.snapStore)]

def strInt (s : String) : R Int :=
  match s.toInt? with
  | some n => pure n
  | none => throw s!"not an integer string: {s}"

def parseCalls (j : Json) : R (List (List Nat)) := do
  let a ← j.getArr?
  let mut out : List (List Nat) := []
  for x in a do out := out ++ [← natList x]
  pure out

def parseSnap (j : Json) : R (Option SnapRec) :=
  if isNull j then pure none else do
    pure (some ⟨← strInt (← fldStr j "version"), ← fldInt j "applied", ← natList (← fld j "deltas")⟩)

def parseOut (j : Json) : R Out := do
  pure { calls := ← parseCalls (← fld j "calls"), applied := ← fldInt j "applied",
         clamps := ← fldInt j "clamps", version := ← strInt (← fldStr j "version"),
         invalidated := ← fldNat j "invalidated", cm := ← optCache (← fld j "cm"),
         snap := ← parseSnap (← fld j "snap"), raised := ← fldBool j "raised",
         snapStore := ← parseSection (fldD j "snapStore" Json.null) }

/-- Model run. -/
def handle (j : Json) : R Json := do pure (jOut (apply (← parseIn j)))

/-- Legacy store phase (pinned tree before the fix) – diagnostic only. -/
def handleLegacy (j : Json) : R Json := do
  let a := storePhaseLegacy (← natList (← fld j "deltas")) (← parseScript (← fld j "script"))
  pure (jObj [("calls", jCalls a.calls), ("applied", jInt a.applied), ("clamps", jInt a.clamps)])

/-- Monitor: `spec` on the implementation's observed output. -/
def handleSpec (j : Json) : R Json := do
  let i ← parseIn j
  let o ← parseOut (← fld j "out")
  match ← fldStr j "clause" with
  | "handoff" => pure (jBool (specHandoff i o))
  | "at_most_once" => pure (jBool (specOnce i o))
  | "version" => pure (jBool (specVersion i o))
  | "cadence" => pure (jBool (specCadence i o))
  | "total" => pure (jBool (specTotal i o))
  | "invalidate" => pure (jBool (specInvalidate i o))
  | "all" => pure (jBool (spec i o))
  | c => throw s!"unknown clause {c}"

/-! history level -/

def parseTurn (j : Json) : R TurnIn := do
  pure { enabled := ← fldBool j "enabled", store := ← parseStore (← fldStr j "store"),
         turn := ← optInt (← fld j "turn"), every := ← fldInt j "every", bust := ← fldBool j "bust",
         namespaces := ← optNatList (← fld j "namespaces"), cmFault := ← optNat (← fld j "cmFault"),
         deltas := ← natList (← fld j "deltas"), script := ← parseScript (← fld j "script"),
         exportMode := ← parseExport j, wMode := ← parseW j }

def parseRec (j : Json) : R ApplyRec := do
  pure ⟨← strInt (← fldStr j "version"), ← fldInt j "applied", ← fldInt j "clamps",
        ← fldNat j "invalidated", ← fldBool j "snapshot"⟩

def parseHState (j : Json) : R HState := do
  let recs ← fldArr j "applyRecs"
  let mut rs : List ApplyRec := []
  for r in recs do rs := rs ++ [← parseRec r]
  pure { ver := ← parseVer (← fld j "ver"), cm := ← optCache (← fld j "cm"),
         snap := ← parseSnap (← fld j "snap"), calls := ← parseCalls (← fld j "calls"),
         t4recs := ← fldNat j "t4recs", applyRecs := rs }

def jVer : Ver → Json
  | .absent => jObj [("k", jStr "absent")]
  | .junk => jObj [("k", jStr "junk")]
  | .num n => jObj [("k", jStr "num"), ("n", jInt n)]

def jRec (r : ApplyRec) : Json :=
  jObj [("version", jStr (toString r.version)), ("applied", jInt r.applied), ("clamps", jInt r.clamps),
        ("invalidated", jNat r.invalidated), ("snapshot", jBool r.snapshot)]

def jHState (s : HState) : Json :=
  jObj [("ver", jVer s.ver), ("cm", jOptCache s.cm), ("snap", jSnap s.snap), ("calls", jCalls s.calls),
        ("t4recs", jNat s.t4recs), ("applyRecs", jArr (s.applyRecs.map jRec))]

/-- Model history: states after each turn. -/
def handleHist (j : Json) : R Json := do
  let mut s ← parseHState (← fld j "init")
  let mut out : Array Json := #[]
  for tj in ← fldArr j "turns" do
    s := runTurn s (← parseTurn tj)
    out := out.push (jHState s)
  pure (Json.arr out)

/-- Monitor: `turnSpec` on every observed step of an implementation history; also the
history-level version law `version = v₀ + committed turns` on the final state. -/
def handleHistSpec (j : Json) : R Json := do
  let init ← parseHState (← fld j "init")
  let mut s := init
  let turns ← fldArr j "turns"
  let states ← fldArr j "states"
  if turns.size != states.size then throw "turns/states length mismatch"
  let mut ok := true
  let mut ts : List TurnIn := []
  for k in [0:turns.size] do
    let t ← parseTurn turns[k]!
    let s' ← parseHState states[k]!
    ok := ok && turnSpec s t s'
    s := s'
    ts := ts ++ [t]
  let m := committedTurns ts
  let law := match init.ver with
    | .num v => s.ver == .num (v + m)
    | _ => if m == 0 then s.ver == init.ver else s.ver == .num m
  match ← fldStr j "clause" with
  | "turns" => pure (jBool ok)
  | "version_history" => pure (jBool law)
  | c => throw s!"unknown clause {c}"

/-! T4 → Apply composition: keys cross as strings. -/
def keyOf (j : Json) : R (List Nat) := do pure ((← j.getStr?).toList.map Char.toNat)

def keyList (j : Json) : R (List (List Nat)) := do
  let mut out : List (List Nat) := []
  for x in ← j.getArr? do out := out ++ [← keyOf x]
  pure out

/-- Monitor: `canonHandoffB approved calls`. -/
def handleCanon (j : Json) : R Json := do
  let approved ← keyList (← fld j "approved")
  let mut calls : List (List (List Nat)) := []
  for c in ← fldArr j "calls" do calls := calls ++ [← keyList c]
  pure (jBool (canonHandoffB approved calls))

def routes : List (String × (Json → R Json)) :=
  [("apply", handle), ("apply.legacy", handleLegacy), ("apply.spec", handleSpec),
   ("apply.hist", handleHist), ("apply.histspec", handleHistSpec), ("apply.canon", handleCanon)]

end Driver.HApply
