import Driver.Util
import Driver.HT1
import Driver.HT2
import Driver.HT4
import Driver.HGel
import Driver.HRefl
import Driver.HSnap
import Clem.Model.Compose
import Clem.Model.ComposeLog
import Clem.Model.T2Mon

/-!
Driver routes for the composed turn model (`Clem/Model/Compose.lean`), instantiated at `Float`.

* `compose.turn` / `compose.hist` : `{world, cfg, state, echo, turns:[{…, orc}]}` → per turn the canonical
  `t1/t2/t4/apply/turn` records (the record ASSEMBLY — which keys, in which stream — lives here, the values come
  from the model), plan ops, approved list, store calls, line, state; and the final state.
* `compose.mon` : the same request + `obs` (what the REAL turn handed from stage to stage) + `which` + `turn`
  → Bool: link monitors of the glue and the per-stage monitors of C03/C04/C11/C12/C13 evaluated on the real turn.

Strings cross as JSON strings, floats as IEEE bit strings; floats inside records are `{"f": bits}`.
-/
open Lean Clem.Compose

namespace Driver.HCompose

open Driver.HT2 (toStr ofStr jS fldS arrMapM fldOptInt)

abbrev Str := List Nat

def jF (x : Float) : Json := jObj [("f", jFloatBits x)]

def strL (j : Json) (k : String) : R (List Str) := Driver.HT2.fldStrList j k

def optIntJ (j : Json) : R (Option Int) :=
  match j with
  | Json.null => pure none
  | _ => do pure (some (← j.getInt?))

/-! ### parsing -/

def parseGraph (j : Json) : R (CGraph Float) := do
  let nodes ← arrMapM (← fldArr j "nodes") (fun n => do
    let a ← n.getArr?
    let lab ← match ← arrAt a 1 with
      | Json.null => pure []
      | v => do pure (toStr (← v.getStr?))
    pure (⟨toStr (← strAt a 0), lab⟩ : CNode))
  let edges ← arrMapM (← fldArr j "edges") (fun e => do
    let a ← e.getArr?
    pure (⟨toStr (← strAt a 0), toStr (← strAt a 1), ← floatAt a 2, ← natAt a 3⟩ : CEdge Float))
  pure ⟨← fldS j "gid", nodes, edges⟩

def parseWorld (j : Json) : R (World Float) := do
  let gs ← arrMapM (← fldArr j "graphs") parseGraph
  let eps ← arrMapM (← fldArr j "eps") Driver.HT2.parseEp
  let last ← arrMapM (← fldArr j "last") (fun p => do
    let a ← p.getArr?
    pure (toStr (← strAt a 0), ← optIntJ (← arrAt a 1)))
  pure ⟨gs, eps, last, ← fldS j "agent", (fldD j "reflFlag" (Json.bool false)) == Json.bool true⟩

def ownerOf (n : Nat) : Clem.T3.Owner :=
  match n with | 0 => .agent | 1 => .world | 2 => .any | _ => .other

/-- `null` = scheduler off; else the budgets `_derive_budgets` produced (missing key = `null`) -/
def parseSched (j : Json) : R (Option Clem.Sched.Budgets) :=
  match j with
  | Json.null => pure none
  | b => do
    pure (some { wall := ← fldOptInt b "wall_ms", t1Iters := ← fldOptInt b "t1_iters", t1Pops := ← fldOptInt b "t1_pops",
                 t2K := ← fldOptInt b "t2_k", t3Ops := ← fldOptInt b "t3_ops", quantum := ← fldOptInt b "quantum_ms" })

def parseCfg (j : Json) : R (Cfg Float) := do
  let cds ← arrMapM (← fldArr j "cooldowns") (fun p => do
    let a ← p.getArr?
    pure (toStr (← strAt a 0), ← intAt a 1))
  pure { t1 := ← Driver.HT1.parseCfg (← fld j "t1"), scope := ← fldNat j "scope",
         ownerRaw := ownerOf (← fldNat j "ownerRaw"), k := ← fldInt j "k", θ := ← fldFloat j "theta",
         days := ← fldInt j "days", topM := ← fldInt j "topM", tiers := ← Driver.HT2.fldNatList j "tiers",
         alpha := ← fldFloat j "alpha", beta := ← fldFloat j "beta", gamma := ← fldFloat j "gamma",
         residualCap := ← fldInt j "residualCap", t3Enabled := ← fldBool j "t3Enabled",
         maxOps := ← fldInt j "maxOps", tokens := ← fldInt j "tokens", maxRagLoops := ← fldInt j "maxRagLoops",
         tauHigh := ← fldFloat j "tauHigh", tauLow := ← fldFloat j "tauLow", epsEdit := ← fldFloat j "epsEdit",
         t4Enabled := ← fldBool j "t4Enabled", capL2 := ← fldFloat j "capL2", capNov := ← fldFloat j "capNov",
         churn := ← fldInt j "churn", cooldowns := cds, every := ← fldInt j "every",
         sqrt := Float.sqrt, thr := Driver.HT4.thr, wmin := ← fldFloat j "wmin", wmax := ← fldFloat j "wmax",
         t2CacheOn := ← fldBool j "t2CacheOn", orchCacheOn := ← fldBool j "orchCacheOn", bust := ← fldBool j "bust",
         gel := ← Driver.HGel.cfgOf (← fld j "gel"), pw := Driver.HGel.pw,
         doMerge := ← fldBool j "doMerge", doSplit := ← fldBool j "doSplit", doPromo := ← fldBool j "doPromo",
         capMerge := ← fldInt j "capMerge", capSplit := ← fldInt j "capSplit", capPromo := ← fldInt j "capPromo",
         hyb := ← Driver.HT2.parseH (← fld j "hyb"), qual := ← Driver.HT2.parseQ (← fld j "qual"),
         refl := ← Driver.HRefl.parseCfg (← fld j "refl"),
         wops := Clem.SnapFloat.fops, cv := Clem.SnapFloat.fcv, snapB := ← Driver.HSnap.decBounds j,
         sched := ← parseSched (fldD j "sched" Json.null) }

def parseDelta (j : Json) : R (Clem.T4.Delta Float) := do
  let a ← j.getArr?
  pure { kind := toStr (← strAt a 0), id := toStr (← strAt a 1), attr := toStr (← strAt a 2),
         delta := ← floatAt a 3, opIdx := ← optIntJ (← arrAt a 4), idx := ← optIntJ (← arrAt a 5) }

def intentOf (s : String) : Clem.T3.Intent :=
  match s with
  | "summary" => .summary | "assertion" => .assertion | "ack" => .ack | _ => .question

def parseOp (j : Json) : R Clem.T3.Op := do
  match ← fldStr j "kind" with
  | "Speak" => pure (.speak (intentOf (← fldStr j "intent")) (← strL j "topic_labels") (← fldInt j "max_tokens"))
  | "EditGraph" => pure (.edit (← strL j "ids") (← fldInt j "cap"))
  | "RequestRetrieve" =>
    let ow := match ← fldStr j "owner" with
      | "agent" => Clem.T3.Owner.agent | "world" => .world | "any" => .any | _ => .other
    pure (.retrieve ow (← fldInt j "k"))
  | _ => pure .other

def parseOrc (j : Json) : R (Oracles Float) := do
  let qs ← arrMapM (← fldArr j "queries") (fun q => do
    let cos ← arrMapM (← fldArr q "cos") (fun x => do floatOfBits (← x.getStr?))
    let lex ← match fldD q "lex" Json.null with
      | Json.null => pure []
      | _ => Driver.HT2.parseScoreTbl q "lex"
    pure (⟨← fldS q "q", cos, ← Driver.HT2.parseScoreTbl q "cscore", lex⟩ : QOracle Float))
  let merges ← match fldD j "merges" Json.null with
    | Json.null => pure []
    | m => arrMapM (← m.getArr?) Driver.HGel.mergeOf
  let splits ← match fldD j "splits" Json.null with
    | Json.null => pure []
    | m => arrMapM (← m.getArr?) Driver.HGel.splitOf
  let memEps ← match fldD j "memEps" Json.null with
    | Json.null => pure []
    | m => arrMapM (← m.getArr?) Driver.HT2.parseEp
  pure ⟨qs, ← fldInt j "nowUs", merges, splits, memEps⟩

def parseTurn (j : Json) : R (TurnIn Float × Oracles Float) := do
  let t : TurnIn Float :=
    { text := ← fldS j "text", turnId := ← fldInt j "turnId", dryRun := ← fldBool j "dryRun",
      ctxText := ← fldS j "ctxText", hook := ← fldBool j "hook",
      hookOps := ← arrMapM (← fldArr j "hookOps") parseOp,
      hookDeltas := ← arrMapM (← fldArr j "hookDeltas") parseDelta,
      agent := ← (match fldD j "agent" Json.null with
        | Json.null => pure none
        | a => do pure (some (toStr (← a.getStr?)))) }
  pure (t, ← parseOrc (← fld j "orc"))

def parseVer (j : Json) : R Clem.Apply.Ver :=
  match j with
  | Json.null => pure .absent
  | Json.str _ => pure .junk
  | v => do pure (.num (← v.getInt?))

def parseState (j : Json) : R (State Float) := do
  let w ← arrMapM (← fldArr j "w") (fun p => do
    let a ← p.getArr?
    pure ((toStr (← strAt a 0), toStr (← strAt a 1), toStr (← strAt a 2)), ← floatAt a 3))
  pure ⟨w, ← parseVer (fldD j "ver" Json.null), [], [], [], none, 0, false, none, []⟩

/-- the measured clock values of a turn (`clock` of the turn's request entry; absent: all zero) -/
def parseClock (j : Json) : R (Clock Float) := do
  let c := fldD j "clock" (jObj [])
  let f (k : String) : R Float := match fldD c k Json.null with
    | Json.null => pure 0.0
    | v => do floatOfBits (← v.getStr?)
  pure { t1 := ← f "t1", t2 := ← f "t2", t4 := ← f "t4", apply := ← f "apply", total := ← f "total",
         plan := ← f "plan", rag := ← f "rag", speak := ← f "speak", gelObs := ← f "gelObs",
         gelTick := ← f "gelTick", gelMaint := ← f "gelMaint",
         consumedMs := (match fldD c "consumedMs" Json.null with | Json.null => 0 | v => (v.getInt?.toOption.getD 0)),
         refl := ← f "refl" }

def optStrOf (j : Json) : Option Str :=
  match j with
  | Json.str x => some (Driver.HT2.toStr x)
  | _ => none

/-- the printed constants (`echo` of the request) -/
def parseLogEnv (echo : Json) : LogEnv :=
  let sD (k : String) (d : Str) : Str := (optStrOf (fldD echo k Json.null)).getD d
  { now := optStrOf (fldD echo "logNow" Json.null), nowIsoApply := optStrOf (fldD echo "nowIso" Json.null),
    ownerScope := sD "owner_scope" (Driver.HT2.toStr "any"), gelMode := sD "gelMode" (Driver.HT2.toStr "additive"),
    policy := sD "policy" (Driver.HT2.toStr "round_robin"), degreeNorm := sD "degreeNorm" (Driver.HT2.toStr "none"),
    policyBackend := sD "policyBackend" (Driver.HT2.toStr "rulebased"),
    dlgTopK := (fldD echo "dlgTopK" (jInt 2)).getInt?.toOption.getD 2,
    ci := (fldD echo "ci" (Json.bool true)) == Json.bool true }

structure Req where
  w : World Float
  c : Cfg Float
  s : State Float
  ts : List (TurnIn Float × Oracles Float)
  echo : Json
  ks : List (Clock Float) := []

def parseReq (j : Json) : R Req := do
  pure ⟨← parseWorld (← fld j "world"), ← parseCfg (← fld j "cfg"), ← parseState (← fld j "state"),
        ← arrMapM (← fldArr j "turns") parseTurn, fldD j "echo" (jObj []),
        ← arrMapM (← fldArr j "turns") parseClock⟩

/-! ### output -/

def jOptInt : Option Int → Json
  | none => Json.null
  | some i => jInt i

def jDelta (d : Clem.T4.Delta Float) : Json :=
  jArr [jS d.kind, jS d.id, jS d.attr, jFloatBits d.delta, jOptInt d.opIdx, jOptInt d.idx]

def ownerStr : Clem.T3.Owner → String
  | .agent => "agent" | .world => "world" | .any => "any" | .other => "other"

def jOp : Clem.T3.Op → Json
  | .speak i ls m => jObj [("kind", jStr "Speak"), ("intent", jS (intentStr i)),
                           ("topic_labels", jArr (ls.map jS)), ("max_tokens", jInt m)]
  | .edit ids cap => jObj [("kind", jStr "EditGraph"), ("ids", jArr (ids.map jS)), ("cap", jInt cap)]
  | .retrieve o k => jObj [("kind", jStr "RequestRetrieve"), ("owner", jStr (ownerStr o)), ("k", jInt k)]
  | .other => jObj [("kind", jStr "")]

def reasonStr : Clem.Sched.YReason → String
  | .wall => "WALL_MS" | .t1Iters => "BUDGET_T1_ITERS" | .t1Pops => "BUDGET_T1_POPS" | .t2K => "BUDGET_T2_K"
  | .t3Ops => "BUDGET_T3_OPS" | .quantum => "QUANTUM_EXCEEDED"

def stageStr : Clem.Sched.Stage → String
  | .T1 => "T1" | .T2 => "T2" | .T3 => "T3" | .T4 => "T4" | .Apply => "Apply"

def jW (w : List ((Str × Str × Str) × Float)) : Json :=
  jArr (w.map (fun p => jArr [jArr [jS p.1.1, jS p.1.2.1, jS p.1.2.2], jF p.2]))

def jVer : Clem.Apply.Ver → Json
  | .absent => Json.null
  | .num n => jStr (toString n)
  | .junk => jStr "junk"

/-- `emitted`: every record of the turn as it reaches the log files (file name, payload in the ordered wire encoding of
`Driver.HSnap.encJ`), from `Clem.Compose.emitted` — the model's log stream, not driver code -/
def jTurn (echo : Json) (w : World Float) (c : Cfg Float) (s : State Float) (t : TurnIn Float) (orc : Oracles Float)
    (k : Clock Float) (o : TurnOut Float) : Json :=
  jObj [
    ("emitted", jArr ((emitted (fun x => x == 0.0) w c (parseLogEnv echo) s t orc k).map
      (fun p => jArr [jS p.1, Driver.HSnap.encJ p.2]))),
    ("gel", Driver.HGel.jState o.state.gel),
    ("line", jS o.line),
    ("qText", jS o.qText),
    ("touched", jArr (o.touched.map jS)),
    ("oracleMiss", jBool o.oracleMiss),
    ("orchHit", jBool o.orchHit),
    ("t2Ran", jBool o.t2Ran),
    ("reflCalled", jBool o.refl.called), ("reflWritten", jArr (o.refl.written.map (fun x => jStr (Driver.HRefl.ofStr x.text)))),
    ("memN", jNat o.state.memN),
    ("mem", jArr (o.state.mem.map (fun x => jObj [("agent", jStr (Driver.HRefl.ofStr x.agent)),
      ("turn", jStr (Driver.HRefl.ofStr x.turn)), ("slot", jNat x.slot), ("text", jStr (Driver.HRefl.ofStr x.text)),
      ("vec", jBool x.vec)]))),
    ("snapBody", match o.snapBody with | some b => Driver.HSnap.encJ b | none => Json.null),
    ("gelV11", jBool o.state.gelV11),
    ("yielded", match o.yielded with | some (st, r) => jArr [jStr (stageStr st), jStr (reasonStr r)] | none => Json.null),
    ("t3Ran", jBool o.t3Ran),
    ("ops", jArr (o.ops.map jOp)),
    ("requestedRetrieve", jBool o.requestedRetrieve),
    ("ragUsed", jBool o.ragUsed),
    ("t2Calls", jNat o.t2Calls),
    ("hits", jArr (o.t2.retrieved.map Driver.HT2.jHit)),
    ("residual", jArr (o.t2.residual.map jS)),
    ("approved", jArr (match o.t4 with | some r => r.approved.map jDelta | none => [])),
    ("rejected", jArr (match o.t4 with
      | some r => r.rejected.map (fun p => jArr [jS p.1, jNat p.2]) | none => [])),
    ("storeCalls", jArr (o.storeCalls.map (fun b => jArr (b.map jDelta)))),
    ("state", jObj [("w", jW o.state.w), ("version", jVer o.state.ver)])]

/-- the records of a turn carry that turn's agent -/
def echoFor (echo : Json) (t : TurnIn Float) : Json :=
  match t.agent with
  | some a => (echo.setObjVal! "agent" (jStr (Driver.HT2.ofStr a))).setObjVal! "snapName"
      (jStr ("state_" ++ Driver.HT2.ofStr a ++ ".json"))
  | none => echo

/-- `boot` absent / null: the state is handed over already booted (`_boot_loaded` pre-set).  `{"body": b}`: a fresh
process whose boot hook finds the snapshot body `b` (`null`: an empty directory).  `restartAt: k`: after turn `k` the
process is thrown away; a fresh state boots from the snapshot file the first `k` turns left (`State.lastSnap`). -/
def handle (j : Json) : R Json := do
  let r ← parseReq j
  let s0 ← match fldD j "boot" Json.null with
    | Json.null => pure r.s
    | b => do
      let body ← match fldD b "body" Json.null with
        | Json.null => pure none
        | x => do pure (some (← Driver.HSnap.decJ x))
      pure (bootOf r.c r.s body)
  let pre (s0 : State Float) (outs : List (TurnOut Float)) : List (State Float) :=
    (s0 :: outs.map (·.state)).take outs.length
  let (outs, pres, fin) ← match fldD j "restartAt" Json.null with
    | Json.null => do
      -- (turns naming their own agent: several agents on one state; `runTurnsMA = runTurns` when none does)
      let h := runTurnsMA r.w r.c s0 r.ts
      pure (h.outs, pre s0 h.outs, h.state)
    | kj => do
      let k ← kj.getNat?
      let h1 := runTurns r.w r.c s0 (r.ts.take k)
      let s1 := bootOf r.c r.s h1.state.lastSnap
      let h2 := runTurns r.w r.c s1 (r.ts.drop k)
      pure (h1.outs ++ h2.outs, pre s0 h1.outs ++ pre s1 h2.outs, h2.state)
  let ks := r.ks ++ List.replicate (r.ts.length - r.ks.length) (⟨0.0, 0.0, 0.0, 0.0, 0.0, 0.0, 0.0, 0.0, 0.0, 0.0, 0.0, 0, 0.0⟩ : Clock Float)
  pure (jObj [
    ("turns", jArr (((r.ts.zip ks).zip (pres.zip outs)).map (fun p =>
      jTurn (echoFor r.echo p.1.1.1) (wFor r.w p.1.1.1) r.c p.2.1 p.1.1.1 p.1.1.2 p.1.2 p.2.2))),
    ("final", jObj [("w", jW fin.w), ("version", jVer fin.ver)])])

/-! ### monitors on the REAL turn -/

def imax (a b : Int) : Int := if a < b then b else a

/-- T1 totals of a turn within the summed per-graph budgets (C12_budgets, summed over the active graphs) -/
def t1BudgetOk (c : Clem.T1.Cfg Float) (n : Nat) (pops : Nat) (iters : Int) (props : Nat) : Bool :=
  decide ((pops : Int) ≤ (n : Int) * imax 0 (Clem.T1.effQueue c)) &&
  decide (iters ≤ (n : Int) * imax 0 (Clem.T1.effLayers c)) &&
  (match c.relaxCap with
   | some r => decide ((props : Int) ≤ (n : Int) * imax r 0)
   | none => true)

def keyStr (d : Clem.T4.Delta Float) : Str := Clem.T4.ckey d

def t4MonAll (inp : Clem.T4.Input Float) (ap : List (Clem.T4.Delta Float)) (rj : List (Str × Nat)) : Bool :=
  let capsOk := decide (0 < inp.capL2)
  let kOk := decide (0 ≤ inp.k)
  Clem.T4.monUnique ap && Clem.T4.monSorted ap && (!capsOk || Clem.T4.monNovelty inp.capNov ap) &&
  (!capsOk || Clem.T4.monL2 Driver.HT4.l2Slack inp.capL2 ap) && (!kOk || Clem.T4.monChurn inp.k ap) &&
  Clem.T4.monCooldown inp ap && Clem.T4.monSubset inp ap && Clem.T4.monRejected inp rj &&
  Clem.T4.monTopK (Clem.T4.scaled Float.sqrt inp) ap &&
  (!capsOk || Clem.T4.monPipeline 1e-9 (Clem.T4.approved Float.sqrt inp) ap)

/-- `snap.fields`: the body the REAL turn wrote, against the REAL turn's own records — key order of C06_payload_keys,
turn / agent, `version_etag` = the version after the bump as a string, `applied` = the apply record's count, `deltas`
= T4's approved list in order, `store.weights` = the store's `.w` map after the apply, in insertion order. -/
def monSnapFields (turnId : Int) (agent : Str) (verAfter : Int) (applied : Int)
    (ap : List (Clem.T4.Delta Float)) (storeW : List ((Str × Str × Str) × Float)) (bnd : Clem.Snap.Bounds Float)
    (gelRaw : Clem.Py.JV.J Float) (body : Clem.Py.JV.J Float) : Bool :=
  let same (a b : Clem.Py.JV.J Float) : Bool := (Driver.HSnap.encJ a).compress == (Driver.HSnap.encJ b).compress
  -- C06's writer on the REAL `state.graph` the turn left behind (`gel`/`graph` sections: sanitised edges, summary)
  let exp := Clem.Snap.payloadKV Clem.SnapFloat.fops Clem.SnapFloat.fcv bnd
    { turn := .int turnId, agent := .str agent, version := .null, applied := applied, deltas := .arr [],
      store := .absent, graph := gelRaw, gel := gelRaw }
  match body with
  | .obj kv =>
    kv.map (·.1) == [Clem.Snap.kTurn, Clem.Snap.kAgent, Clem.Snap.kVersionEtag, Clem.Snap.kApplied, Clem.Snap.kDeltas,
                     Clem.Snap.kSchemaVersion, Clem.Snap.kStore, Clem.Snap.kGraphSchemaVersion, Clem.Snap.kGel,
                     Clem.Snap.kGraph] &&
    same (Clem.Py.JV.getD Clem.Snap.kTurn .null kv) (.int turnId) &&
    same (Clem.Py.JV.getD Clem.Snap.kAgent .null kv) (.str agent) &&
    same (Clem.Py.JV.getD Clem.Snap.kVersionEtag .null kv) (.str (decStr verAfter)) &&
    same (Clem.Py.JV.getD Clem.Snap.kApplied .null kv) (.int applied) &&
    same (Clem.Py.JV.getD Clem.Snap.kDeltas .null kv) (.arr (ap.map deltaJ)) &&
    same (Clem.Py.JV.getD Clem.Snap.kStore .null kv) (Clem.Snap.exportStore (wToStore storeW)) &&
    same (Clem.Py.JV.getD Clem.Snap.kGel .null kv) (Clem.Py.JV.getD Clem.Snap.kGel .null exp) &&
    same (Clem.Py.JV.getD Clem.Snap.kGraph .null kv) (Clem.Py.JV.getD Clem.Snap.kGraph .null exp)
  | _ => false

def parseW (j : Json) : R (List ((Str × Str × Str) × Float)) := do
  arrMapM (← j.getArr?) (fun p => do
    let a ← p.getArr?
    let k ← (← arrAt a 0).getArr?
    pure ((toStr (← strAt k 0), toStr (← strAt k 1), toStr (← strAt k 2)), ← floatAt a 1))

def handleMon (j : Json) : R Json := do
  let r ← parseReq j
  let which ← fldStr j "which"
  let ti ← fldNat j "turn"
  let ob ← fld j "obs"
  let (t, orc) ← match r.ts[ti]? with
    | some x => pure x
    | none => throw "turn index out of range"
  let r : Req := { r with w := wFor r.w t, echo := echoFor r.echo t }
  let deltaIds ← strL ob "deltaIds"
  let labels := changedLabels r.w.graphs deltaIds
  match which with
  | "link.t1" => pure (jBool (monT1 r.w r.c t.text deltaIds))
  | "link.query" =>
    let qs ← strL ob "q"
    let exp1 := queryText t.text labels
    let exp2 := queryText (ragQuery t) labels
    let orchHit := (fldD ob "orchHit" (Json.bool false)) == Json.bool true
    pure (jBool (if orchHit then qs.all (fun q => q == exp2) else match qs with
      | [] => false
      | q1 :: rest => q1 == exp1 && rest.all (fun q => q == exp2)))
  | "link.bundle" =>
    let nodeIds ← strL ob "nodeIds"
    let scores ← arrMapM (← fldArr ob "scores") (fun x => do floatOfBits (← x.getStr?))
    let sMax ← fldFloat ob "sMax"
    pure (jBool (monBundleNodes (α := Float) deltaIds nodeIds && (npMax scores).toBits == sMax.toBits))
  | "link.t2stats" =>
    -- sim_stats of the t2 record are numpy's mean / max over the scores of `retrieved` in T2's final order
    let scores ← arrMapM (← fldArr ob "scores") (fun x => do floatOfBits (← x.getStr?))
    let mean ← fldFloat ob "simMeanRec"
    let mx ← fldFloat ob "simMaxRec"
    pure (jBool ((npMean scores).toBits == mean.toBits && (npMax scores).toBits == mx.toBits))
  | "link.handoff" =>
    let committed ← fldBool ob "committed"
    let keys ← strL ob "approvedKeys"
    let calls ← arrMapM (← fldArr ob "calls") (fun b => do
      arrMapM (← b.getArr?) (fun x => do pure (toStr (← x.getStr?))))
    pure (jBool (if committed then monHandoff keys calls else calls.isEmpty))
  | "link.version" =>
    let committed ← fldBool ob "committed"
    let vb ← fldInt ob "verBefore"
    let va ← fldInt ob "verAfter"
    -- C04: one bump per committed turn, none otherwise; snapshot exactly on the cadence
    let snapOk ← match fldD ob "snapshot" Json.null with
      | Json.null => pure true
      | sj => do pure ((← sj.getBool?) == Clem.Apply.shouldSnapshot (some t.turnId) r.c.every)
    pure (jBool (if committed then va == Clem.Apply.bump (.num vb) && snapOk else va == vb))
  | "snap.fields" =>
    -- written iff the turn committed on the cadence; the fields restate the turn's own records
    let committed ← fldBool ob "committed"
    let due := committed && Clem.Apply.shouldSnapshot (some t.turnId) r.c.every
    match fldD ob "snapBody" Json.null with
    | Json.null => pure (jBool (!due))
    | bj =>
      let body ← Driver.HSnap.decJ bj
      let ap ← arrMapM (← fldArr ob "approved") parseDelta
      let sw ← parseW (← fld ob "storeW")
      let gelRaw ← match fldD ob "gelRaw" Json.null with
        | Json.null => pure Clem.Py.JV.J.null
        | x => Driver.HSnap.decJ x
      pure (jBool (due && monSnapFields t.turnId r.w.agent (← fldInt ob "verAfter") (← fldInt ob "applied") ap sw
        r.c.snapB gelRaw body))
  | "boot.load" =>
    -- state after the boot hook = the model's load of the body that was in the directory (none: empty directory)
    let body ← match fldD ob "bootBody" Json.null with
      | Json.null => pure none
      | x => do pure (some (← Driver.HSnap.decJ x))
    let s1 := bootOf r.c r.s body
    let sw ← parseW (← fld ob "bootW")
    let es ← arrMapM (← fldArr ob "bootEdges") (fun p => do
      let a ← p.getArr?
      pure (toStr (← strAt a 0), ← floatAt a 1))
    let mine := (Clem.Gel.edgesOf s1.gel).map (fun e => (e.key, e.w))
    let sameE (a b : Str × Float) : Bool := a.1 == b.1 && a.2.toBits == b.2.toBits
    let nodes : List Str ← strL ob "bootNodes"
    let myNodes : List Str := (match s1.gel with | some g => g.nodes.map (fun n => n.id) | none => [])
    pure (jBool (jVer s1.ver == fldD ob "bootVer" Json.null &&
      s1.w.length == sw.length && (s1.w.zip sw).all (fun p => p.1.1 == p.2.1 && p.1.2.toBits == p.2.2.toBits) &&
      mine.length == es.length && mine.all (fun a => es.any (sameE a)) && es.all (fun a => mine.any (sameE a)) &&
      myNodes.length == nodes.length && myNodes.all (nodes.contains ·) && s1.gelV11))
  | "log.normalized" | "log.rollup" | "log.order" | "log.t3" =>
    -- the REAL lines of the turn (file name, ordered wire payload), against the log model's monitors
    let recs ← arrMapM (← fldArr ob "rawLog") (fun p => do
      let a ← p.getArr?
      pure (Driver.HT2.toStr (← strAt a 0), ← Driver.HSnap.decJ (← arrAt a 1)))
    let weq (a b : Float) : Bool := a.toBits == b.toBits
    let kindsFinal : List Str ← match fldD ob "kindsFinal" Json.null with
      | Json.null => pure []
      | _ => strL ob "kindsFinal"
    let kinds0 : List Str ← match fldD ob "kinds0" Json.null with
      | Json.null => pure []
      | _ => strL ob "kinds0"
    pure (jBool (match which with
      | "log.normalized" => monNormalized weq (fun x => x == 0.0) recs
      | "log.rollup" => monRollup weq recs
      | "log.t3" => monT3 weq kindsFinal kinds0 r.w.reflFlag recs
      | _ => monOrder (recs.map (·.1))))
  | "c03.envelope" =>
    match fldD ob "t4" Json.null with
    | Json.null => pure (jBool true)
    | t4j =>
      let ds ← arrMapM (← fldArr t4j "deltas") parseDelta
      let ops ← strL t4j "ops"
      let ap ← arrMapM (← fldArr t4j "approved") parseDelta
      let rj ← arrMapM (← fldArr t4j "rejected") (fun p => do
        let a ← p.getArr?
        pure (toStr (← strAt a 0), ← natAt a 1))
      let inp : Clem.T4.Input Float :=
        { deltas := ds, ops := ops, cooldowns := r.c.cooldowns, last := r.w.last, turns := [some t.turnId],
          capL2 := r.c.capL2, capNov := r.c.capNov, k := r.c.churn }
      pure (jBool (t4MonAll inp ap rj))
  | "c11.hits" =>
    let qs ← strL ob "q"
    match qs.head? >>= lookupQ orc with
    | none => pure (jBool true)
    | some qo =>
      let hits ← Driver.HT2.fldHits ob "hits"
      let cfg := t2Cfg r.w r.c orc qo
      -- C11's model on the REAL index of this turn: the initial episodes and the written ones as the index holds them
      let eps := withCos (r.w.eps ++ orc.memEps) qo.cos
      let kUsed ← fldNat ob "kUsed"
      let res ← strL ob "residual"
      pure (jBool (Clem.T2.monCount cfg hits && Clem.T2.monScope cfg hits && Clem.T2.monThreshold cfg hits &&
        Clem.T2.monTier cfg r.c.tiers eps hits && Clem.T2.monComplete cfg r.c.tiers eps hits &&
        Clem.T2.monUsed (t2K r.c) hits kUsed && Clem.T2.monResidual (t2K r.c) r.c.residualCap (gnodes r.w) hits res))
  | "c12.budget" =>
    let m ← fld ob "t1"
    pure (jBool (t1BudgetOk (t1Cfg r.c) r.w.graphs.length (← fldNat m "pops") (← fldInt m "iters") (← fldNat m "props")))
  | "link.plan" =>
    -- the plan the real planner produced is `deliberate` of the bundle the glue builds from the real T1/T2 results
    match fldD ob "ops0" Json.null with
    | Json.null => pure (jBool true)
    | oj =>
      let ops ← arrMapM (← oj.getArr?) parseOp
      let b := mkBundle r.c deltaIds (← fldFloat ob "sMax")
      pure (jBool (ops == Clem.T3.deliberate b))
  | "link.rag" =>
    -- the plan that reached speak / T4 is the (possibly refined) plan: rag_once on the real second retrieval
    match fldD ob "ops0" Json.null, fldD ob "opsFinal" Json.null with
    | Json.null, _ => pure (jBool true)
    | _, Json.null => pure (jBool true)
    | oj, fj =>
      let ops0 ← arrMapM (← oj.getArr?) parseOp
      let opsF ← arrMapM (← fj.getArr?) parseOp
      let b := mkBundle r.c deltaIds (← fldFloat ob "sMax")
      let p0 : PlanSt Float := if t.hook then ⟨ops0 ++ t.hookOps, t.hookDeltas⟩ else ⟨ops0, []⟩
      let hits2 : List (Clem.T3.Hit Float) ← match fldD ob "hits2" Json.null with
        | Json.null => pure []
        | hj => arrMapM (← hj.getArr?) (fun h => do pure ⟨← fldS h "id", ← fldFloat h "score"⟩)
      let exp : PlanSt Float × Bool :=
        if p0.ops.any Clem.T3.Op.isRetrieve && decide (1 ≤ r.c.maxRagLoops) then
          let rr := Clem.T3.ragOnce b p0.ops (fun _ => hits2.filter (fun h => !h.id.isEmpty)) false
          (⟨rr.ops, if rr.ragUsed then [] else p0.deltas⟩, rr.ragUsed)
        else (p0, false)
      let dsOk ← match fldD ob "t4" Json.null with
        | Json.null => pure true
        | t4j => do
          let ds ← arrMapM (← fldArr t4j "deltas") parseDelta
          let kinds ← strL t4j "ops"
          pure ((jArr (ds.map jDelta)).compress == (jArr (exp.1.deltas.map jDelta)).compress &&
                kinds == exp.1.ops.map opKind)
      pure (jBool (opsF == exp.1.ops && dsOk))
  | "link.line" =>
    match fldD ob "line" Json.null with
    | Json.null => pure (jBool true)
    | lj =>
      let line := toStr (← lj.getStr?)
      let t3 := r.c.t3Enabled && !t.dryRun
      let opsF ← match fldD ob "opsFinal" Json.null with
        | Json.null => pure []
        | fj => arrMapM (← fj.getArr?) parseOp
      let utter := if t3 then utterOf r.c opsF else []
      let yielded := (fldD ob "yielded" Json.null) != Json.null
      pure (jBool (line == (if yielded then (match fldD ob "opsFinal" Json.null with | Json.null => [] | _ => utter)
                            else if t.dryRun && r.c.t4Enabled then utter else finalLine utter t.text)))
  | "c17.yield" =>
    -- C17 on the real turn: the boundary the turn returned at (and the reason) is the first boundary whose decision
    -- fires on the counters the REAL stages reported (logical clock: elapsed 0), and it satisfies the precedence table
    match r.c.sched with
    | none => pure (jBool ((fldD ob "yielded" Json.null) == Json.null))
    | some b =>
      let m ← fld ob "t1"
      let c1 : Clem.Sched.Consumed := ⟨some 0, some (← fldInt m "iters"), some (← fldInt m "pops"), none, none⟩
      let bl2 ← match fldD ob "kUsedStage" Json.null with
        | Json.null => pure []
        | k => do pure [(Clem.Sched.Stage.T2, (⟨some 0, none, none, some (← k.getInt?), none⟩ : Clem.Sched.Consumed))]
      let bl3 ← match fldD ob "ops0" Json.null with
        | Json.null => pure []
        | oj => do
          -- `len(plan.ops)` of the plan the planner (stock, or the hook: deliberate + appended ops) returned
          let n : Int := ((← oj.getArr?).size : Int) + (if t.hook then (t.hookOps.length : Int) else 0)
          pure [(Clem.Sched.Stage.T3, (⟨some 0, none, none, none, some n⟩ : Clem.Sched.Consumed))]
      let bl4 := if r.c.t4Enabled && !t.dryRun then
          [(Clem.Sched.Stage.T4, (⟨some 0, none, none, none, none⟩ : Clem.Sched.Consumed)),
           (Clem.Sched.Stage.Apply, ⟨some 0, none, none, none, none⟩)] else []
      let bl := [(Clem.Sched.Stage.T1, c1)] ++ bl2 ++ bl3 ++ bl4
      let exp := Clem.Sched.firstYield b bl
      let got : Option (String × String) ← match fldD ob "yielded" Json.null with
        | Json.null => pure none
        | y => do
          let a ← y.getArr?
          pure (some (← strAt a 0, ← strAt a 1))
      let specOk := match exp with
        | some (st, rs) => (match bl.find? (fun p => p.1 == st) with
            | some p => Clem.Sched.yieldSpecB b p.2 (some rs) | none => false)
        | none => true
      pure (jBool (specOk && got == exp.map (fun p => (stageStr p.1, reasonStr p.2))))
  | "c13.plan" =>
    let qs ← strL ob "q"
    let okCalls := decide (qs.length ≤ 2)
    match fldD ob "ops0" Json.null with
    | Json.null => pure (jBool okCalls)
    | oj =>
      let ops ← arrMapM (← oj.getArr?) parseOp
      let sMax ← fldFloat ob "sMax"
      let b := mkBundle r.c deltaIds sMax
      pure (jBool (okCalls && Clem.T3.planOk b ops))
  | w => throw s!"unknown monitor {w}"

def routes : List (String × (Json → R Json)) :=
  [("compose.turn", handle), ("compose.hist", handle), ("compose.mon", handleMon)]

end Driver.HCompose
