import Driver.Util
import Clem.Model.T3
import Clem.Model.Sanitize
import Clem.Model.T3Assemble

open Lean Clem.T3

namespace Driver.HT3

/-! JSON codecs.  Strings are arrays of code points; floats are IEEE bit strings. -/

def getStrCps (j : Json) : R Str := do
  let a ← j.getArr?
  a.toList.mapM (fun x => x.getNat?)

def jCps (s : Str) : Json := jArr (s.map jNat)

def optField (j : Json) (k : String) : Option Json :=
  match j.getObjVal? k with
  | .ok Json.null => none
  | .ok v => some v
  | .error _ => none

def floatOr (j : Json) (k : String) (dflt : Float) : R Float :=
  match optField j k with
  | none => pure dflt
  | some v => do floatOfBits (← v.getStr?)

def intOr (j : Json) (k : String) (dflt : Int) : R Int :=
  match optField j k with
  | none => pure dflt
  | some v => v.getInt?

def getOwner (s : String) : Owner :=
  match s with
  | "agent" => .agent | "world" => .world | "any" => .any | _ => .other

def ownerStr : Owner → String
  | .agent => "agent" | .world => "world" | .any => "any" | .other => "other"

def getIntent (s : String) : R Intent :=
  match s with
  | "summary" => pure .summary | "assertion" => pure .assertion | "ack" => pure .ack
  | "question" => pure .question | _ => throw s!"bad intent {s}"

def intentStr : Intent → String
  | .summary => "summary" | .assertion => "assertion" | .ack => "ack" | .question => "question"

def getNode (j : Json) : R (Node Float) := do
  let id ← getStrCps (← fld j "id")
  let label ← match optField j "label" with
    | none => pure none
    | some v => do pure (some (← getStrCps v))
  let delta ← match optField j "delta" with
    | none => pure none
    | some v => do pure (some (← floatOfBits (← v.getStr?)))
  pure ⟨id, label, delta⟩

def getBundle (j : Json) : R (Bundle Float) := do
  let slice ← match optField j "slice" with
    | none => pure SliceV.missing
    | some (Json.str _) => pure SliceV.bad
    | some v => do pure (SliceV.int (← v.getInt?))
  let labels ← (← fldArr j "labels").toList.mapM getStrCps
  let nodes ← (← fldArr j "nodes").toList.mapM getNode
  pure {
    baseOps := ← intOr j "baseOps" Clem.Gen.T3Consts.defaultOps
    slice := slice
    tokens := ← intOr j "tokens" Clem.Gen.T3Consts.defaultTokens
    tauHigh := ← floatOr j "tauHigh" (Float.ofBits Clem.Gen.T3Consts.defaultTauHighBits.toUInt64)
    tauLow := ← floatOr j "tauLow" (Float.ofBits Clem.Gen.T3Consts.defaultTauLowBits.toUInt64)
    epsEdit := ← floatOr j "epsEdit" (Float.ofBits Clem.Gen.T3Consts.defaultEpsEditBits.toUInt64)
    sMax := ← floatOr j "sMax" 0.0
    labelsT1 := labels
    nodes := nodes
    owner := getOwner (← fldStr j "owner")
    kRetrieval := ← intOr j "kRetrieval" Clem.Gen.T3Consts.defaultKRetrieval }

def getOp (j : Json) : R Op := do
  let a ← j.getArr?
  match ← strAt a 0 with
  | "speak" =>
    let labels ← (← (← arrAt a 2).getArr?).toList.mapM getStrCps
    pure (Op.speak (← getIntent (← strAt a 1)) labels (← intAt a 3))
  | "edit" =>
    let ids ← (← (← arrAt a 1).getArr?).toList.mapM getStrCps
    pure (Op.edit ids (← intAt a 2))
  | "retrieve" => pure (Op.retrieve (getOwner (← strAt a 1)) (← intAt a 2))
  | _ => pure Op.other

def jOp : Op → Json
  | .speak i ls m => jArr [jStr "speak", jStr (intentStr i), jArr (ls.map jCps), jInt m]
  | .edit ids c => jArr [jStr "edit", jArr (ids.map jCps), jInt c]
  | .retrieve o k => jArr [jStr "retrieve", jStr (ownerStr o), jInt k]
  | .other => jArr [jStr "other"]

def getOps (j : Json) (k : String) : R (List Op) := do
  (← fldArr j k).toList.mapM getOp

def getHits (j : Json) (k : String) : R (List (Hit Float)) := do
  (← fldArr j k).toList.mapM (fun h => do
    pure ⟨← getStrCps (← fld h "id"), ← fldFloat h "score"⟩)

/-! routes -/

/-- monitor routes answer one Boolean: the field named by the request's `"m"` -/
def pick (j : Json) (o : Json) : R Json := do
  fld o (← fldStr j "m")

/-- a request carries a short *sequence* of bundles (the function is pure: each is planned on its own) -/
def hDelib (j : Json) : R Json := do
  let bs ← (← fldArr j "bundles").toList.mapM getBundle
  pure (jArr (bs.map (fun b => jArr ((deliberate b).map jOp))))

def hDelibMon (j : Json) : R Json := do
  let b ← getBundle (← fld j "bundle")
  pure (jBool (planOk b (← getOps j "ops")))

def jRag (r : RagOut Float) : Json :=
  jObj [("ops", jArr (r.ops.map jOp)),
        ("calls", jArr (r.calls.map (fun c => jArr [jStr (ownerStr c.1), jInt c.2]))),
        ("rag_used", jBool r.ragUsed), ("rag_blocked", jBool r.ragBlocked),
        ("post_s_max", jFloatBits r.postSMax),
        ("retrieved_ids", jArr (r.retrievedIds.map jCps))]

def hRag (j : Json) : R Json := do
  let b ← getBundle (← fld j "bundle")
  let plan ← getOps j "plan"
  let hits ← getHits j "hits"
  pure (jRag (ragOnce b plan (fun _ => hits) (← fldBool j "alreadyUsed")))

/-- monitor on the implementation's refined plan: op cap (for caps ≥ 0 or a plan that is within the cap),
Speak stays first, head intent follows the thresholds at the reported `post_s_max` when refined,
and the number of `retrieve_fn` calls is ≤ 1 (0 when already used). -/
def hRagMon (j : Json) : R Json := do
  let b ← getBundle (← fld j "bundle")
  let plan ← getOps j "plan"
  let ops ← getOps j "ops"
  let ncalls ← fldNat j "ncalls"
  let used ← fldBool j "alreadyUsed"
  let ragUsed ← fldBool j "rag_used"
  let post ← fldFloat j "post_s_max"
  let capOk := decide (capsOps b < 0) || withinCap b ops || !ragUsed
  let headOk := !headIsSpeak plan || headIsSpeak ops
  let intentOk := !ragUsed || !headIsSpeak plan || headIntentOk b post ops
  let callsOk := decide (ncalls ≤ 1) && (!used || ncalls == 0) && (ragUsed == (ncalls == 1))
  pick j (jObj [("cap", jBool capOk), ("head", jBool headOk), ("intent", jBool intentOk), ("calls", jBool callsOk)])

def getTokV (j : Json) (k : String) : R (Option TokV) :=
  match optField j k with
  | none => pure none
  | some (Json.str "falsy") => pure (some .falsy)
  | some (Json.str "raises") => pure (some .raises)
  | some v => do pure (some (.int (← v.getInt?)))

def getOptInt (j : Json) (k : String) : R (Option Int) :=
  match optField j k with
  | none => pure none
  | some v => do pure (some (← v.getInt?))

def jTrunc (t : Trunc) : Json :=
  jObj [("text", jCps t.text), ("truncated", jBool t.truncated), ("tokens", jNat t.tokens)]

def hSpeak (j : Json) : R Json := do
  let core ← getStrCps (← fld j "core")
  let style ← getStrCps (← fld j "style")
  let opTok ← getTokV j "opTok"
  let agentTok ← getOptInt j "agentTok"
  let llm ← fldBool j "llm"
  let ths ← fldBool j "templHasStyle"
  let t := if llm then llmSpeak core style opTok agentTok else speak core ths style opTok agentTok
  pure (jObj [("out", jTrunc t), ("budget", jInt (speakBudget opTok agentTok))])

def hSpeakMon (j : Json) : R Json := do
  let opTok ← getTokV j "opTok"
  let agentTok ← getOptInt j "agentTok"
  pure (jBool (withinBudget (← getStrCps (← fld j "utter")) (speakBudget opTok agentTok)))

def hTrunc (j : Json) : R Json := do
  pure (jTrunc (truncate (← getStrCps (← fld j "s")) (← fldInt j "m")))

def hTokCount (j : Json) : R Json := do
  pure (jNat (tokenize (← getStrCps (← fld j "s"))).length)

def hIsSpace (_ : Json) : R Json := do
  pure (jArr (((List.range 0x110000).filter isSpace).map jNat))

/-- the `LawfulPyOrd` laws evaluated at `Float` on every triple of the given values (NaN := `x != x`) -/
def hFloatLaws (j : Json) : R Json := do
  let vals ← (← fldArr j "vals").toList.mapM (fun v => do floatOfBits (← v.getStr?))
  let nan (x : Float) : Bool := x != x
  let ge (a b : Float) : Bool := PyOrd.ge a b
  let lt (a b : Float) : Bool := PyOrd.lt a b
  let ok := vals.all (fun a => vals.all (fun b =>
    (!(nan a || nan b) || (!ge a b && !lt a b)) &&
    ((nan a || nan b) || (lt a b == !ge a b)) &&
    vals.all (fun c => !(ge a b && ge b c) || ge a c)))
  pure (jBool ok)

def getSliceBudgets (j : Json) : R SliceBudgets :=
  match optField j "sb" with
  | none => pure .absent
  | some (Json.str "absent") => pure .absent
  | some (Json.str "notDict") => pure .notDict
  | some (Json.str "noKey") => pure .noKey
  | some o =>
    match optField o "v" with
    | none => pure (.key .none)
    | some (Json.str _) => pure (.key .bad)
    | some v => do pure (.key (.int (← v.getInt?)))

/-- plan from a ctx: `deliberate` / `rag_once` on the bundle `assemble_bundle` builds (per-turn cap and slice budget
taken from the ctx, everything else from the assembled bundle) -/
def hAssemble (j : Json) : R Json := do
  let rest ← getBundle (← fld j "bundle")
  let perTurn ← intOr j "perTurn" Clem.Gen.T3Consts.bundleDefaultMaxOps
  let sb ← getSliceBudgets j
  let hits ← getHits j "hits"
  let b := assembled perTurn sb rest
  let plan := deliberate b
  let slice := match forwardSlice sb with
    | .int i => jInt i
    | _ => Json.null
  pure (jObj [("slice", slice), ("ops", jArr (plan.map jOp)),
              ("rag", jArr ((ragOnce b plan (fun _ => hits) false).ops.map jOp))])

def hAssembleMon (j : Json) : R Json := do
  let perTurn ← intOr j "perTurn" Clem.Gen.T3Consts.bundleDefaultMaxOps
  let sb ← getSliceBudgets j
  pure (jBool (withinRequestedCap perTurn sb (← getOps j "ops")))

def hTurn (j : Json) : R Json := do
  let b ← getBundle (← fld j "bundle")
  let plan ← getOps j "plan"
  let hits ← getHits j "hits"
  let t : TurnIn := ⟨← fldBool j "cacheHit", ← fldBool j "t3Enabled", ← fldBool j "dryRun",
                     ← fldBool j "yielded", ← fldInt j "maxRagLoops"⟩
  pure (jNat (turnT2Calls t b plan (fun _ => hits)))

/-! sanitiser -/

open Clem.Sanitize in
partial def getJ (j : Json) : R J :=
  match j with
  | Json.null => pure J.null
  | Json.bool b => pure (J.bool b)
  | _ =>
    match optField j "i", optField j "f", optField j "s", optField j "a", optField j "o" with
    | some v, _, _, _, _ => do
      match (← v.getStr?).toInt? with
      | some i => pure (J.int i)
      | none => throw "bad int"
    | _, some _, _, _, _ => pure J.float
    | _, _, some v, _, _ => do pure (J.str (← getStrCps v))
    | _, _, _, some v, _ => do pure (J.arr (← (← v.getArr?).toList.mapM getJ))
    | _, _, _, _, some v => do
      let kvs ← (← v.getArr?).toList.mapM (fun kv => do
        let a ← kv.getArr?
        pure (← getStrCps (← arrAt a 0), ← getJ (← arrAt a 1)))
      pure (J.obj kvs)
    | _, _, _, _, _ => throw "bad J"

open Clem.Sanitize in
def jReason : Reason → Json
  | .nonString => jStr "nonString" | .rawTooLarge => jStr "rawTooLarge" | .badFence => jStr "badFence"
  | .blockTooLarge => jStr "blockTooLarge" | .nonJson => jStr "nonJson" | .notObject => jStr "notObject"
  | .missingKey k => jArr [jStr "missingKey", jCps k] | .unknownKey k => jArr [jStr "unknownKey", jCps k]
  | .planNotArray => jStr "planNotArray" | .planTooLong => jStr "planTooLong" | .planItem => jStr "planItem"
  | .rationale => jStr "rationale" | .reflection => jStr "reflection"

open Clem.Sanitize in
def hSanitize (j : Json) : R Json := do
  let text ← match optField j "text" with
    | none => pure none
    | some v => do pure (some (← getStrCps v))
  let parsed ← match optField j "parsed" with
    | none => pure none
    | some w => do pure (some (← getJ (fldD w "v" Json.null)))
  let cand := match text with
    | some t => (stripFences t).1
    | none => []
  let res := parseAndValidate (fun _ => parsed) text
  let r := match res with
    | .ok a => jObj [("ok", jBool true), ("plan", jArr (a.plan.map jCps)), ("rationale", jCps a.rationale),
                     ("reflection", jBool a.reflection)]
    | .rejected r => jObj [("ok", jBool false), ("reason", jReason r)]
    | .raised => jObj [("raised", jBool true)]
  pure (jObj [("res", r), ("candidate", jCps cand)])

open Clem.Sanitize in
/-- monitors on an accepted implementation output: the parsed input was acceptable, and the returned
normalised object is within the limits. -/
def hSanitizeMon (j : Json) : R Json := do
  let parsed ← getJ (fldD (← fld j "parsed") "v" Json.null)
  let plan ← (← fldArr j "plan").toList.mapM getStrCps
  let rat ← getStrCps (← fld j "rationale")
  let rawLen ← fldNat j "rawLen"
  pick j (jObj [("acceptable", jBool (acceptable parsed)),
               ("within", jBool (acceptedWithin ⟨plan, rat, false⟩)),
               ("raw", jBool (decide (rawLen ≤ Clem.Gen.T3Consts.MAX_RAW_LEN)))])

def routes : List (String × (Json → R Json)) :=
  [("c13.delib", hDelib), ("c13.delib.mon", hDelibMon), ("c13.rag", hRag), ("c13.rag.mon", hRagMon),
   ("c13.speak", hSpeak), ("c13.speak.mon", hSpeakMon), ("c13.trunc", hTrunc), ("c13.isspace", hIsSpace), ("c13.assemble", hAssemble), ("c13.assemble.mon", hAssembleMon), ("c13.tokcount", hTokCount), ("c13.floatlaws", hFloatLaws),
   ("c13.turn", hTurn), ("c13.sanitize", hSanitize), ("c13.sanitize.mon", hSanitizeMon)]

end Driver.HT3
