import Driver.Util
import Driver.HLruBytes
import Driver.HTtlLru
import Clem.Model.CacheMerge

open Lean Clem.CacheMerge

namespace Driver.HCacheMerge

def parseWorkers (a : Array Json) : R (List Worker) := do
  let mut ws : List Worker := []
  for w in a do
    let mut items : List Item := []
    for it in (← fldArr w "items") do
      let x ← it.getArr?
      items := items ++ [⟨← intAt x 0, ← natAt x 1, ← natAt x 2⟩]
    ws := ws ++ [⟨← fldInt w "ord", items⟩]
  pure ws

/-- `LRUCache` as a merge target, read at the fixed clock reading `now`. -/
def lruOps (now : Int) : TargetOps Clem.TtlLru.Lru where
  contains := fun c k => c.contains now k
  get := fun c k => c.get now k
  put := fun c k v => (c.set now k v).1

def handle (j : Json) : R Json := do
  let ws ← parseWorkers (← fldArr j "workers")
  let assertEq := (← fldStr j "mode") == "assert_equal"
  let seq := jArr ((mergeSeq ws).map (fun it => jArr [jNat it.key, jNat it.val]))
  match (← fldStr j "target") with
  | "dict" =>
    let mut d : List (Nat × Nat) := []
    for p in (← fldArr j "pre") do
      let x ← p.getArr?
      d := dictOps.put d (← natAt x 0) (← natAt x 1)
    let r := merge dictOps assertEq d ws
    pure (jObj [("raised", jBool r.2), ("seq", seq),
                ("items", jArr (r.1.map (fun p => jArr [jNat p.1, jNat p.2])))])
  | "lru" =>
    let now ← fldInt j "now"
    let mut c := Clem.TtlLru.Lru.init (← fldInt j "max") (← fldInt j "ttl")
    for p in (← fldArr j "pre") do
      let x ← p.getArr?
      c := (c.set (← intAt x 0) (← natAt x 1) (← natAt x 2)).1
    let r := merge (lruOps now) assertEq c ws
    pure (jObj [("raised", jBool r.2), ("seq", seq), ("s", Driver.HTtlLru.obs r.1)])
  | t => throw s!"bad target {t}"

/-- Wrappers: run the threads' operation lists in the given schedule on the wrapped model. -/
def handleSched (j : Json) : R Json := do
  let mut ps : List (List Json) := []
  for t in (← fldArr j "threads") do
    ps := ps ++ [(← t.getArr?).toList]
  let mut sched : List Nat := []
  for i in (← fldArr j "sched") do
    sched := sched ++ [← i.getNat?]
  let merged := Clem.Sched.applySchedule ps sched
  let left := (Clem.Sched.remaining ps sched).all List.isEmpty
  let mut out : Array Json := #[]
  match (← fldStr j "inner") with
  | "lrubytes" =>
    let mut s := Clem.LruBytes.init (← fldNat j "maxE") (← fldNat j "maxB")
    for op in merged do
      let (s', o) ← Driver.HLruBytes.stepJ s op
      s := s'
      out := out.push o
  | "ttllru" =>
    let mut c := Clem.TtlLru.Lru.init (← fldInt j "max") (← fldInt j "ttl")
    for op in merged do
      let (c', o) ← Driver.HTtlLru.stepJ c op
      c := c'
      out := out.push o
  | t => throw s!"bad inner {t}"
  pure (jObj [("complete", jBool left), ("out", Json.arr out)])

def routes : List (String × (Json → R Json)) :=
  [("merge", handle), ("wrapsched", handleSched)]

end Driver.HCacheMerge
