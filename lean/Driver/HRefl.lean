import Driver.Util
import Clem.Model.Refl

open Lean Clem.Refl

namespace Driver.HRefl

def toStr (s : String) : Str := s.toList.map Char.toNat
def ofStr (l : Str) : String := String.ofList (l.map Char.ofNat)
/-- Strings go out as code-point arrays (the line protocol splits on some unicode line separators). -/
def jS (l : Str) : Json := jArr (l.map jNat)

def fldS (j : Json) (k : String) : R Str := do pure (toStr (← fldStr j k))

def fldOptInt (j : Json) (k : String) : R (Option Int) := do
  match j.getObjVal? k with
  | .ok Json.null => pure none
  | .ok v => pure (some (← v.getInt?))
  | .error _ => pure none

def strList (a : Array Json) : R (List Str) := do
  let mut out : List Str := []
  for x in a do
    out := out ++ [toStr (← x.getStr?)]
  pure out

def boolList (a : Array Json) : R (List Bool) := do
  let mut out : List Bool := []
  for x in a do
    out := out ++ [← x.getBool?]
  pure out

def parseCfg (j : Json) : R Cfg := do
  pure { allow := ← fldBool j "allow", backend := ← fldS j "backend", topk := ← fldInt j "topk",
         limit := ← fldInt j "limit", embed := ← fldBool j "embed", opsCap := ← fldOptInt j "opsCap",
         wallMs := ← fldOptInt j "wallMs", fxEnabled := ← fldBool j "fxEnabled",
         fxPathOk := ← fldBool j "fxPathOk" }

def parseEntries (a : Array Json) : R (List Entry) := do
  let mut out : List Entry := []
  for x in a do
    out := out ++ [{ text := ← fldS x "text", vec := ← fldBool x "vec" }]
  pure out

def parseOracles (j : Json) : R Oracles := do
  let m ← fldStr j "mode"
  let mode ← match m with
    | "real" => pure ReflectMode.real
    | "raise" => do pure (ReflectMode.raise (← fldS j "exc"))
    | "stub" => do
      let st ← fld j "stub"
      pure (ReflectMode.stub (← fldS st "summary") (← parseEntries (← fldArr st "entries")))
    | _ => throw s!"bad mode {m}"
  let adj := fldD j "adapter" Json.null
  let adapter ← match adj with
    | Json.str "initfail" => pure Adapter.initFail
    | Json.str "missing" => pure Adapter.missing
    | Json.null => pure Adapter.missing
    | v => do pure (Adapter.text (← fldS v "text"))
  pure { mode := mode, adapter := adapter, elapsedUs := ← fldNat j "elapsedUs",
         runFault := ← fldBool j "runFault", indexMissing := ← fldBool j "indexMissing",
         writeFault := ← fldBool j "writeFault", addFail := ← boolList (← fldArr j "addFail"),
         logFault := ← fldBool j "logFault" }

def parseIso (j : Json) : R (Option IsoAttr) := do
  match j with
  | Json.null => pure none
  | Json.str "nonstr" => pure (some IsoAttr.nonstr)
  | v => do pure (some (IsoAttr.lit (← fldS v "lit")))

def jTs : Ts → Json
  | .iso ms => jObj [("k", jStr "iso"), ("ms", jInt ms)]
  | .lit s => jObj [("k", jStr "lit"), ("s", jS s)]
  | .fallback ms => jObj [("k", jStr "fallback"), ("ms", jInt ms)]

def parseTurn (j : Json) : R TurnIn := do
  pure { agent := ← fldS j "agent", turn := ← fldS j "turn", nowMs := ← fldOptInt j "nowMs", isoPreset := ← parseIso (fldD j "iso" Json.null),
         dry := ← fldBool j "dry", t4on := ← fldBool j "t4on", planFlag := ← fldBool j "plan",
         stateFlag := ← fldBool j "sflag", cfg := ← parseCfg (← fld j "cfg"),
         utter := ← fldS j "utter", items := ← strList (← fldArr j "items"),
         arts := ← strList (← fldArr j "arts") }

def errName : ErrTy → String
  | .valueError => "ValueError"
  | .fixtureMissing => "FixtureMissingError"
  | .injected n => ofStr n

def jReason : Option Reason → Json
  | none => Json.null
  | some (.err e) => jStr ("reflect_error:" ++ errName e)
  | some .timeout => jStr "reflection_timeout"

def jWritten (w : Written) : Json :=
  jObj [("agent", jS w.agent), ("turn", jS w.turn), ("slot", jNat w.slot), ("idText", jS w.idText),
        ("text", jS w.text), ("ts", jTs w.ts), ("vec", jBool w.vec)]

def jLog : Option LogRec → Json
  | none => Json.null
  | some l => jObj [("summary_len", jNat l.summaryLen), ("ops_written", jNat l.opsWritten),
                    ("embed", jBool l.embed), ("backend", jS l.backend), ("reason", jReason l.reason),
                    ("fk", jBool l.fk)]

def jOut (t : TurnIn) (o : TurnOut) : Json :=
  jObj [("reached", jBool o.reached), ("called", jBool o.called),
        ("written", jArr (o.written.map jWritten)), ("log", jLog o.log),
        ("prompt", jObj [("utter", jS (normalize true t.utter)),
                         ("snips", jArr ((pyTake t.cfg.topk (gatherSnippets t)).map (fun s => jS (normalize true s))))])]

def parsePlanner (j : Json) : R (Option PlannerOut) := do
  match j with
  | Json.null => pure none
  | Json.str "fallback" => pure (some PlannerOut.fallback)
  | v => do pure (some (PlannerOut.answer (← fldBool v "answer")))

/-- A whole history: `{"clear":b,"reuse":b,"turns":[{"t":…,"o":…},…]}`.  With `"planner":true` every turn
also carries `"p"` (null | "fallback" | {"answer":b}) and the state flag is threaded by the model
(`runHistP`) instead of being given per turn. -/
def handleHist (j : Json) : R Json := do
  let clear ← fldBool j "clear"
  let reuse ← fldBool j "reuse"
  let planner := (fldD j "planner" (Json.bool false)) == Json.bool true
  let mut h : List (TurnIn × Oracles) := []
  let mut hp : List (Option PlannerOut × TurnIn × Oracles) := []
  for x in (← fldArr j "turns") do
    let t ← parseTurn (← fld x "t")
    let o ← parseOracles (← fld x "o")
    h := h ++ [(t, o)]
    hp := hp ++ [(← parsePlanner (fldD x "p" Json.null), t, o)]
  let outs := if planner then runHistP clear reuse false CtxSt.fresh hp else runHist clear reuse CtxSt.fresh h
  pure (jArr ((h.zip outs).map (fun p => jOut p.1.1 p.2)))

/-- Gate monitor over a planner history, on implementation observations:
`{"turns":[{"t":…,"p":…,"called":b,"nWritten":n,"logged":b},…]}` → every turn passes `monGate` with the
state flag the model threads (`flagsP`). -/
def handleMonPlanner (j : Json) : R Json := do
  let mut ts : List TurnIn := []
  let mut ps : List (Option PlannerOut) := []
  let mut obs : List (Bool × Nat × Bool) := []
  for x in (← fldArr j "turns") do
    ts := ts ++ [← parseTurn (← fld x "t")]
    ps := ps ++ [← parsePlanner (fldD x "p" Json.null)]
    obs := obs ++ [(← fldBool x "called", ← fldNat x "nWritten", ← fldBool x "logged")]
  let fl := flagsP false ps
  pure (jBool (((ts.zip fl).zip obs).all
    (fun q => monGate { q.1.1 with stateFlag := q.1.2 } q.2.1 q.2.2.1 q.2.2.2)))

/-- Text primitives (exact unit-level correspondence). -/
def handleText (j : Json) : R Json := do
  let op ← fldStr j "op"
  match op with
  | "normalize" => pure (jS (normalize (← fldBool j "keep") (← fldS j "s")))
  | "truncate" => pure (jS (truncateTokens (← fldS j "s") (← fldInt j "n")))
  | "tokens" => pure (jNat (tokenCount (← fldS j "s")))
  | "strip" => pure (jS (strip (← fldS j "s")))
  | "clip" => pure (jS (adapterClip (← fldS j "s") (← fldInt j "n")))
  | "rule" =>
    let k ← fldInt j "k"
    let s := ruleSummary (← fldS j "utter") (← strList (← fldArr j "snips")) k (← fldInt j "n")
    pure (jObj [("summary", jS s), ("len", jNat (tokenCount s))])
  | _ => throw s!"bad op {op}"

/-- Property monitors evaluated on what the *implementation* did in one turn:
`{"t":…,"o":…,"called":b,"nWritten":n,"logged":b,"texts":[…],"real":b}`. -/
def handleMon (j : Json) : R Json := do
  let t ← parseTurn (← fld j "t")
  let o ← parseOracles (← fld j "o")
  let called ← fldBool j "called"
  let n ← fldNat j "nWritten"
  let logged ← fldBool j "logged"
  let texts ← strList (← fldArr j "texts")
  let real ← fldBool j "real"
  pure (jObj [("gate", jBool (monGate t called n logged)),
              ("cap", jBool (monCap t n)),
              ("failsoft", jBool (monFailsoft t o n)),
              ("len", jBool (!real || texts.all (monLen t.cfg.limit))),
              ("gateOpen", jBool (gateOpen t)), ("failed", jBool (failed t o))])

def monField (k : String) (j : Json) : R Json := do fld (← handleMon j) k

/-- `{"limit":n,"s":text}` → the summary-length monitor on one implementation summary. -/
def handleMonLen (j : Json) : R Json := do
  pure (jBool (monLen (← fldInt j "limit") (← fldS j "s")))

def routes : List (String × (Json → R Json)) :=
  [("refl.hist", handleHist), ("refl.text", handleText), ("refl.mon", handleMon),
   ("refl.mon.gate", monField "gate"), ("refl.mon.cap", monField "cap"),
   ("refl.mon.failsoft", monField "failsoft"), ("refl.mon.len", monField "len"),
   ("refl.mon.textlen", handleMonLen), ("refl.mon.planner", handleMonPlanner)]

end Driver.HRefl
