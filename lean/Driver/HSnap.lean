/-
Driver routes for the snapshot model (C06).

Wire form of a JSON-shaped value (key order and float bits preserved):
`null`, `true/false`, `["i","<int>"]`, `["f","<u64 bits>"]`, `["s",[code points]]`,
`["a",[v…]]`, `["o",[[[code points],v]…]]`.
-/
import Driver.Util
import Clem.Model.SnapFloat

open Lean Clem.Snap Clem.SnapFloat Clem.Py.JV

namespace Driver.HSnap

def cpsOf (j : Json) : R Str := do
  let a ← j.getArr?
  a.toList.mapM (fun x => x.getNat?)

def jCps (s : Str) : Json := jArr (s.map jNat)

partial def decJ (j : Json) : R (J Float) :=
  match j with
  | .null => pure .null
  | .bool b => pure (.bool b)
  | .arr a => do
    let tag ← strAt a 0
    let x ← arrAt a 1
    match tag with
    | "i" => match (← x.getStr?).toInt? with
      | some n => pure (.int n)
      | none => throw "bad int"
    | "f" => do pure (.num (← floatOfBits (← x.getStr?)))
    | "s" => do pure (.str (← cpsOf x))
    | "a" => do pure (.arr (← (← x.getArr?).toList.mapM decJ))
    | "o" => do
      let kvs ← (← x.getArr?).toList.mapM (fun p => do
        let pa ← p.getArr?
        pure ((← cpsOf (← arrAt pa 0)), (← decJ (← arrAt pa 1))))
      pure (.obj kvs)
    | _ => throw s!"bad tag {tag}"
  | _ => throw "bad wire value"

partial def encJ : J Float → Json
  | .null => Json.null
  | .bool b => jBool b
  | .int n => jArr [jStr "i", jStr (toString n)]
  | .num x => jArr [jStr "f", jFloatBits x]
  | .str s => jArr [jStr "s", jCps s]
  | .arr xs => jArr [jStr "a", jArr (xs.map encJ)]
  | .obj kv => jArr [jStr "o", jArr (kv.map (fun p => jArr [jCps p.1, encJ p.2]))]

def optFloat (j : Json) (k : String) : R (Option Float) :=
  match j.getObjVal? k with
  | .ok (.str s) => do pure (some (← floatOfBits s))
  | _ => pure none

/-- `{"gmin","tmin","gmax","tmax","eps"}` (bit strings, absent = key missing) -/
def decBounds (j : Json) : R (Bounds Float) := do
  let b ← fld j "bounds"
  pure (mkBounds fops (← optFloat b "gmin") (← optFloat b "tmin") (← optFloat b "gmax")
    (← optFloat b "tmax") (← optFloat b "eps"))

def decStore (j : Json) : R (Store Float) := do
  let k ← fldStr j "kind"
  match k with
  | "absent" => pure .absent
  | "other" => pure .other
  | "opaque" => do pure (.opaque (← decJ (← fld j "st")))
  | "wmap" => do
    let es ← fldArr j "w"
    let w ← es.toList.mapM (fun e => do
      let a ← e.getArr?
      let ks ← (← (← arrAt a 0).getArr?).toList.mapM cpsOf
      pure (ks, ← floatOfBits (← strAt a 1)))
    pure (.wmap w)
  | _ => throw s!"bad store kind {k}"

def encStore : Store Float → Json
  | .absent => jObj [("kind", jStr "absent")]
  | .other => jObj [("kind", jStr "other")]
  | .opaque st => jObj [("kind", jStr "opaque"), ("st", encJ st)]
  | .wmap w => jObj [("kind", jStr "wmap"),
      ("w", jArr (w.map (fun p => jArr [jArr (p.1.map jCps), jFloatBits p.2])))]

def decWriteIn (j : Json) : R (WriteIn Float) := do
  pure { turn := ← decJ (← fld j "turn"), agent := ← decJ (← fld j "agent"),
         version := ← decJ (← fld j "version"), applied := ← fldInt j "applied",
         deltas := ← decJ (← fld j "deltas"), store := ← decStore (← fld j "store"),
         graph := ← decJ (← fld j "graph"), gel := ← decJ (← fld j "gel") }

def encLoaded (l : Loaded Float) : Json :=
  jObj [("version", match l.version with | some v => jCps v | none => Json.null),
        ("store", encStore l.store), ("graph", encJ l.graph.toJ),
        ("loaded", jBool l.loaded), ("ver", encJ l.ver)]

/-- write → load (fresh state) → write → load → write, everything observable. -/
def handleChain (j : Json) : R Json := do
  let b ← decBounds j
  let i ← decWriteIn (← fld j "in")
  let fresh ← decStore (← fld j "fresh")
  let p1 := payloadOf fops fcv b i
  match loadFrom fops fcv b p1 fresh with
  | none => pure (jObj [("p1", encJ p1), ("l1", Json.null)])
  | some l1 =>
    let i2 := rewriteIn i l1
    let p2 := payloadOf fops fcv b i2
    match loadFrom fops fcv b p2 fresh with
    | none => pure (jObj [("p1", encJ p1), ("l1", encLoaded l1), ("p2", encJ p2), ("l2", Json.null)])
    | some l2 =>
      let p3 := payloadOf fops fcv b (rewriteIn i2 l2)
      pure (jObj [("p1", encJ p1), ("l1", encLoaded l1), ("p2", encJ p2),
                  ("l2", encLoaded l2), ("p3", encJ p3),
                  ("wmin", jFloatBits b.wmin), ("wmax", jFloatBits b.wmax), ("eps", jFloatBits b.eps)])

/-- load of an arbitrary body (legacy / foreign / hand-made). -/
def handleLoad (j : Json) : R Json := do
  let b ← decBounds j
  let data ← decJ (← fld j "data")
  let fresh ← decStore (← fld j "fresh")
  match loadFrom fops fcv b data fresh with
  | none => pure Json.null
  | some l => pure (encLoaded l)

/-- `_sanitize_gel_for_write` / `_sanitize_gel_for_load` called directly. -/
def handleSanitize (j : Json) : R Json := do
  let b ← decBounds j
  let g ← decJ (← fld j "gel")
  let enc (x : Option (Gel Float)) : Json := match x with | some g => encJ g.toJ | none => Json.null
  pure (jObj [("w", enc (sanitizeW fops fcv b g)), ("l", enc (sanitizeL fops fcv b g))])

def decListing (j : Json) : R (List Ent) := do
  (← fldArr j "listing").toList.mapM (fun e => do
    let a ← e.getArr?
    pure { name := ← cpsOf (← arrAt a 0), mtime := ← intAt a 1 })

def handlePick (j : Json) : R Json := do
  match pickLatest (← decListing j) with
  | some n => pure (jCps n)
  | none => pure Json.null

def handleRound6 (j : Json) : R Json := do
  let xs ← fldArr j "xs"
  let out ← xs.toList.mapM (fun x => do
    let f ← floatOfBits (← x.getStr?)
    pure (jFloatBits (round6 fops f)))
  pure (jArr out)

/-- per-weight pipeline: `sw`, `sw ∘ sw`, and the unrepaired `swOld`, `swOld ∘ swOld` -/
def handleSw (j : Json) : R Json := do
  let b ← decBounds j
  let xs ← fldArr j "xs"
  let out ← xs.toList.mapM (fun x => do
    let f ← floatOfBits (← x.getStr?)
    let s := sw fops b f
    pure (jArr [jFloatBits s, jFloatBits (sw fops b s)]))
  pure (jArr out)

/-- Monitors on implementation outputs. -/
def handleMon (j : Json) : R Json := do
  let k ← fldStr j "k"
  match k with
  | "marker" => do pure (jBool (hasMarker (← decJ (← fld j "p"))))
  | "pick" => do
    let l ← decListing j
    let r ← fld j "picked"
    let p ← match r with
      | .null => pure none
      | x => do pure (some (← cpsOf x))
    pure (jBool (pickOk l p))
  | "tempshape" => do
    -- the hypothesis of `C06_pick_never_temp` decided on names the real `_make_tmp` produced
    let ns ← (← fldArr j "names").toList.mapM cpsOf
    pure (jBool (ns.all isAtomicTemp))
  | "fixpoint" => do
    let b ← decBounds j
    let i ← decWriteIn (← fld j "in")
    let fresh ← decStore (← fld j "fresh")
    pure (jBool (fixpointOk weq fops fcv b i (← decJ (← fld j "p")) fresh))
  | "swfix" => do
    -- every edge weight of an implementation-written body is a fixed point of `sw`
    let b ← decBounds j
    let xs ← fldArr j "xs"
    let ok ← xs.toList.mapM (fun x => do
      let f ← floatOfBits (← x.getStr?)
      pure (weq (sw fops b f) f))
    pure (jBool (ok.all id))
  | "swmap" => do
    -- the documented per-weight pipeline (clamp, NaN ↦ in-bounds value nearest 0.0, round6, ε-prune)
    -- applied by Lean to the *input* weight must give the weight the implementation wrote / restored
    let b ← decBounds j
    let ps ← fldArr j "pairs"
    let ok ← ps.toList.mapM (fun p => do
      let a ← p.getArr?
      let x ← floatOfBits (← strAt a 0)
      let y ← floatOfBits (← strAt a 1)
      pure (weq (sw fops b x) y))
    pure (jBool (ok.all id))
  | _ => throw s!"bad monitor {k}"

/-- the `.meta` sidecar of a write whose clock reads `created` (one per entry) -/
def handleSidecar (j : Json) : R Json := do
  let cs ← (← fldArr j "created").toList.mapM cpsOf
  pure (jArr (cs.map (fun c => encJ (sidecarOf (W := Float) c))))

def routes : List (String × (Json → R Json)) :=
  [("snap.chain", handleChain), ("snap.load", handleLoad), ("snap.sanitize", handleSanitize),
   ("snap.pick", handlePick), ("snap.round6", handleRound6), ("snap.sw", handleSw),
   ("snap.mon", handleMon), ("snap.sidecar", handleSidecar)]

end Driver.HSnap
