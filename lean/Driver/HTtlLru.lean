import Driver.Util
import Clem.Model.TtlLru

open Lean Clem.TtlLru

namespace Driver.HTtlLru

def obsNs (s : Ns) : List (String × Json) :=
  [("keys", jArr (s.items.map (fun e => jNat e.key))),
   ("ts", jArr (s.items.map (fun e => jInt e.ts))),
   ("vals", jArr (s.items.map (fun e => jNat e.val))),
   ("n", jNat s.items.length)]

def obs (c : Lru) : Json :=
  jObj (obsNs c.ns ++ [("hits", jNat c.hits), ("misses", jNat c.misses), ("evicted", jNat c.evicted),
                      ("inv", jBool c.ns.invB)])

def stepJ (c : Lru) (op : Json) : R (Lru × Json) := do
  let a ← op.getArr?
  let tag ← strAt a 0
  match tag with
  | "get" =>
    let r := c.get (← intAt a 1) (← natAt a 2)
    pure (r.1, jObj [("r", jOptNat r.2), ("s", obs r.1)])
  | "get2" =>
    let r := c.get (← intAt a 1) (← natAt a 2)
    pure (r.1, jObj [("r", jArr [jBool r.2.isSome, jOptNat r.2]), ("s", obs r.1)])
  | "set" =>
    let r := c.set (← intAt a 1) (← natAt a 2) (← natAt a 3)
    pure (r.1, jObj [("r", if r.2.isSome then Json.null else jStr "KeyError"), ("s", obs r.1)])
  | "contains" =>
    let r := c.contains (← intAt a 1) (← natAt a 2)
    pure (r.1, jObj [("r", jBool r.2), ("s", obs r.1)])
  | "items" =>
    let r := c.items (← intAt a 1)
    pure (r.1, jObj [("r", jArr (r.2.map (fun e => jArr [jNat e.key, jNat e.val]))), ("s", obs r.1)])
  | "invalidate" =>
    let r := c.invalidate
    pure (r.1, jObj [("r", jNat r.2), ("s", obs r.1)])
  | _ => throw s!"bad op {tag}"

def optInt (j : Json) (k : String) : R (Option Int) :=
  match j.getObjVal? k with
  | .ok Json.null => pure none
  | .ok v => do pure (some (← v.getInt?))
  | .error _ => pure none

def handle (j : Json) : R Json := do
  let ops ← fldArr j "ops"
  let mx := Lru.effMax (← optInt j "capacity") ((← optInt j "max_entries").getD 1024)
  let tt := Lru.effTtl (← optInt j "ttl") (← optInt j "ttl_sec") (← optInt j "ttl_s")
  let mut c := Lru.init mx tt
  let mut out : Array Json := #[]
  for op in ops do
    let (c', o) ← stepJ c op
    c := c'
    out := out.push o
  pure (Json.arr out)

def parseNs (max ttl : Int) (its : Array Json) : R Ns := do
  let mut items : List Entry := []
  for it in its do
    let a ← it.getArr?
    items := items ++ [⟨← natAt a 0, ← intAt a 1, ← natAt a 2⟩]
  pure ⟨max, ttl, items⟩

/-- Monitor: the namespace invariant evaluated on an *implementation* state. -/
def handleInv (j : Json) : R Json := do
  let s ← parseNs (← fldInt j "max") (← fldInt j "ttl") (← fldArr j "items")
  pure (jBool s.invB)

/-! Manager -/

def obsM (m : Mgr) : Json :=
  jObj [("ns", jArr (m.nss.map (fun p => jObj ([("id", jNat p.1)] ++ obsNs p.2)))),
        ("hits", jNat m.hits), ("misses", jNat m.misses), ("evicted", jNat m.evicted),
        ("size", jNat m.size), ("inv", jBool m.invB)]

def stepM (m : Mgr) (op : Json) : R (Mgr × Json) := do
  let a ← op.getArr?
  let tag ← strAt a 0
  match tag with
  | "get" =>
    let r := m.get (← natAt a 1) (← intAt a 2) (← natAt a 3)
    pure (r.1, jObj [("r", jArr [jBool r.2.isSome, jOptNat r.2]), ("s", obsM r.1)])
  | "set" =>
    let r := m.set (← natAt a 1) (← intAt a 2) (← natAt a 3) (← natAt a 4)
    pure (r.1, jObj [("r", if r.2.isSome then Json.null else jStr "KeyError"), ("s", obsM r.1)])
  | "inv_ns" =>
    let r := m.invalidateNs (← natAt a 1)
    pure (r.1, jObj [("r", jNat r.2), ("s", obsM r.1)])
  | "inv_all" =>
    let r := m.invalidateAll
    pure (r.1, jObj [("r", jNat r.2), ("s", obsM r.1)])
  | _ => throw s!"bad op {tag}"

def handleM (j : Json) : R Json := do
  let ops ← fldArr j "ops"
  let mut m := Mgr.init (← fldInt j "max") (← fldInt j "ttl")
  let mut out : Array Json := #[]
  for op in ops do
    let (m', o) ← stepM m op
    m := m'
    out := out.push o
  pure (Json.arr out)

/-- Monitor: manager invariant on an implementation state
(`{"max","ttl","ns":[{"id","max","ttl","items":[[k,ts,v],…]},…]}`). -/
def handleMInv (j : Json) : R Json := do
  let max ← fldInt j "max"
  let ttl ← fldInt j "ttl"
  let mut nss : List (Nat × Ns) := []
  for n in (← fldArr j "ns") do
    let s ← parseNs (← fldInt n "max") (← fldInt n "ttl") (← fldArr n "items")
    nss := nss ++ [(← fldNat n "id", s)]
  let m : Mgr := ⟨max, ttl, nss, 0, 0, 0⟩
  pure (jBool m.invB)

def routes : List (String × (Json → R Json)) :=
  [("ttllru", handle), ("ttllru.inv", handleInv), ("ttlmgr", handleM), ("ttlmgr.inv", handleMInv)]

end Driver.HTtlLru
