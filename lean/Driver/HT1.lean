import Driver.Util
import Clem.Model.T1

open Lean Clem.T1

namespace Driver.HT1

abbrev Str := List Nat

def jStrCp (s : Str) : Json := jArr (s.map jNat)

def cpOf (j : Json) : R Str := do
  let a ← j.getArr?
  a.toList.mapM (fun x => x.getNat?)

def optInt (j : Json) (k : String) : R (Option Int) :=
  match (j.getObjVal? k).toOption with
  | none => pure none
  | some Json.null => pure none
  | some v => do pure (some (← v.getInt?))

def optFloat (j : Json) (k : String) : R (Option Float) :=
  match (j.getObjVal? k).toOption with
  | none => pure none
  | some Json.null => pure none
  | some v => do pure (some (← floatOfBits (← v.getStr?)))

/-- rank of a string id among all ids under code-point order (CPython `str.__lt__`). -/
def dedupSorted : List Str → List Str
  | [] => []
  | [a] => [a]
  | a :: b :: r => if a == b then dedupSorted (b :: r) else a :: dedupSorted (b :: r)

def rankTable (ids : List Str) : List Str := dedupSorted (Clem.Py.isort Clem.Py.lexLe ids)

def rankOf (tbl : List Str) (s : Str) : Nat := tbl.idxOf s

def parseCfg (j : Json) : R (Cfg Float) := do
  let decay : Option (DecayCfg Float) ←
    match (j.getObjVal? "decay").toOption with
    | none => pure none
    | some Json.null => pure none
    | some d => do
      pure (some { attnQuad := (← fldBool d "attn_quad"), rate := (← optFloat d "rate"),
                   floor := (← optFloat d "floor"), alpha := (← optFloat d "alpha") })
  let edgeMult : List (Nat × Float) ←
    match (j.getObjVal? "edge_mult").toOption with
    | none => pure [(0, 1.0), (1, 0.6), (2, 0.8)]
    | some Json.null => pure [(0, 1.0), (1, 0.6), (2, 0.8)]
    | some m => do
      let a ← m.getArr?
      a.toList.mapM (fun p => do
        let q ← p.getArr?
        pure ((← natAt q 0), (← floatAt q 1)))
  pure {
    queueBudget := (← optInt j "queue_budget").getD 10000
    nodeBudget := (← optFloat j "node_budget").getD 1.5
    radiusCap := (← optInt j "radius_cap").getD 4
    iterCap := (← optInt j "iter_cap").getD 50
    iterCapLayers := (← optInt j "iter_cap_layers").getD 50
    relaxCap := ← optInt j "relax_cap"
    sliceIters := ← optInt j "slice_iters"
    slicePops := ← optInt j "slice_pops"
    perfEnabled := ← fldBool j "perf_enabled"
    metricsEnabled := ← fldBool j "metrics_enabled"
    frontierCap := ← fldInt j "frontier"
    visitedCap := ← fldInt j "visited"
    dedupeWindow := ← fldInt j "dedupe"
    decay := decay
    edgeMult := edgeMult
    eps := ← fldFloat j "eps"
    cacheOn := ← fldBool j "cache_on" }

structure RawGraph where
  nodes : List (Str × Str × List Str)
  edges : List (Str × Str × Float × Nat)

def parseGraph (j : Json) : R RawGraph := do
  let ns ← fldArr j "nodes"
  let nodes ← ns.toList.mapM (fun n => do
    let id ← cpOf (← fld n "id")
    let label ← match (n.getObjVal? "label").toOption with
      | none => pure []
      | some Json.null => pure []
      | some l => cpOf l
    let tags ← (← fldArr n "tags").toList.mapM cpOf
    pure (id, label, tags))
  let es ← fldArr j "edges"
  let edges ← es.toList.mapM (fun e => do
    pure ((← cpOf (← fld e "src")), (← cpOf (← fld e "dst")), (← fldFloat e "w"), (← fldNat e "rel")))
  pure ⟨nodes, edges⟩

def idsOf (g : RawGraph) : List Str :=
  g.nodes.map (·.1) ++ g.edges.flatMap (fun e => [e.1, e.2.1])

def mkGraph (tbl : List Str) (gid : Nat) (g : RawGraph) : Graph Float :=
  { gid := gid
    nodes := g.nodes.map (fun n => ⟨rankOf tbl n.1, n.2.1, n.2.2⟩)
    edges := g.edges.map (fun e => ⟨rankOf tbl e.1, rankOf tbl e.2.1, e.2.2.1, e.2.2.2⟩) }

def unrank (tbl : List Str) (n : Nat) : Json := jStrCp (tbl.getD n [])

def heapTrace (evs : List (Ev Float)) : List (Bool × Nat × Float) := heapTraceOf evs

def decayTrace (evs : List (Ev Float)) : List Nat :=
  evs.reverse.filterMap (fun e => match e with
    | .relax l => some l.d
    | .epsSkip _ _ d _ => some d
    | _ => none)

def jTrace (tbl : List Str) (r : GRes Float) : Json :=
  if r.cached || r.seeds.isEmpty then Json.null else
  jObj [
    ("seeds", jArr (r.seeds.map (unrank tbl))),
    ("heap", jArr ((heapTrace r.final.evs).map (fun t =>
        jArr [jBool t.1, unrank tbl t.2.1, jFloatBits t.2.2]))),
    ("decays", jArr ((decayTrace r.final.evs).map jNat)),
    ("acc", jArr (r.final.acc.map (fun kv => jArr [unrank tbl kv.1, jFloatBits kv.2]))),
    ("pops", jNat r.pops), ("iters", jInt r.iters), ("props", jNat r.props)]

def parseAll (j : Json) : R (Cfg Float × List RawGraph × List Nat × Str) := do
  let cfg ← parseCfg (← fld j "cfg")
  let gs ← (← fldArr j "graphs").toList.mapM parseGraph
  let active ← (← fldArr j "active").toList.mapM (fun x => x.getNat?)
  let text ← cpOf (← fld j "text")
  pure (cfg, gs, active, text)

def handle (j : Json) : R Json := do
  let (cfg, raws, active, text) ← parseAll j
  let tbl := rankTable (raws.flatMap idsOf)
  let gs := active.map (fun i => mkGraph tbl i (raws.getD i ⟨[], []⟩))
  let t := t1 cfg gs text
  if t.err then
    pure (jObj [("raised", jStr "KeyError")])
  else
    pure (jObj [
      ("deltas", jArr (t.deltas.map (fun p => jArr [jNat p.1, unrank tbl p.2]))),
      ("metrics", jObj [
        ("pops", jNat t.pops), ("iters", jInt t.iters), ("propagations", jNat t.props),
        ("radius_cap_hits", jNat t.radiusHits), ("layer_cap_hits", jNat t.layerHits),
        ("node_budget_hits", jNat t.nodeHits), ("max_delta", jFloatBits t.maxDelta),
        ("cache_hits", jNat t.cacheHits), ("cache_misses", jNat t.cacheMisses),
        ("t1_frontier_evicted", jInt t.frontierEv), ("t1_dedup_hits", jNat t.dedupHits),
        ("t1_visited_evicted", jNat t.visitedEv)]),
      ("trace", jArr (t.per.map (jTrace tbl)))])

/-! monitors on implementation outputs -/

def parsePairs (tbl : List Str) (a : Array Json) : R (List (Nat × Float)) :=
  a.toList.mapM (fun p => do
    let q ← p.getArr?
    pure (rankOf tbl (← cpOf (← arrAt q 0)), (← floatAt q 1)))

/-- `{"cfg", "graph", "acc": [[id,bits]], "deltas": [id]}` -/
def handleOutput (j : Json) : R Json := do
  let cfg ← parseCfg (← fld j "cfg")
  let raw ← parseGraph (← fld j "graph")
  let accJ ← fldArr j "acc"
  let dJ ← (← fldArr j "deltas").toList.mapM cpOf
  let accIds ← accJ.toList.mapM (fun p => do cpOf (← arrAt (← p.getArr?) 0))
  let tbl := rankTable (idsOf raw ++ accIds ++ dJ)
  let acc ← parsePairs tbl accJ
  pure (jBool (outputOk cfg acc (dJ.map (rankOf tbl))))

def handleBudget (j : Json) : R Json := do
  let cfg ← parseCfg (← fld j "cfg")
  pure (jBool (budgetOk cfg (← fldNat j "pops") (← fldInt j "iters") (← fldNat j "props")))

/-- `{"cfg", "graph", "heap": [[isPop, id, bits]]}` -/
def handleRule (j : Json) : R Json := do
  let cfg ← parseCfg (← fld j "cfg")
  let raw ← parseGraph (← fld j "graph")
  let hJ ← fldArr j "heap"
  let hIds ← hJ.toList.mapM (fun p => do cpOf (← arrAt (← p.getArr?) 1))
  let known := idsOf raw
  let tbl := rankTable (known ++ (hIds.filter (fun i => !known.contains i)).eraseDups)
  let g := mkGraph tbl 0 raw
  let tr ← hJ.toList.mapM (fun p => do
    let q ← p.getArr?
    pure ((← (← arrAt q 0).getBool?), rankOf tbl (← cpOf (← arrAt q 1)), (← floatAt q 2)))
  pure (jBool (traceRuleOk cfg g none tr))

/-- seeds characterisation evaluated on the implementation's first heap pushes:
`{"graph", "text", "seeds": [id]}` — the set of seeds equals `{n | some keyword of n occurs in text}`. -/
def handleSeeds (j : Json) : R Json := do
  let raw ← parseGraph (← fld j "graph")
  let text ← cpOf (← fld j "text")
  let sJ ← (← fldArr j "seeds").toList.mapM cpOf
  let tbl := rankTable (idsOf raw ++ sJ)
  let g := mkGraph tbl 0 raw
  let seeds := sJ.map (rankOf tbl)
  pure (jBool (seedsOk g text seeds))

/-- full trace monitor: `{"cfg", "graph", "events": [["pop",id,bits] | ["push",id,bits] | ["decay",d] | ["acc",id,bits]]}`
→ `true` or the index of the first offending event. -/
def handleTrace (j : Json) : R Json := do
  let cfg ← parseCfg (← fld j "cfg")
  let raw ← parseGraph (← fld j "graph")
  let eJ ← fldArr j "events"
  let ids ← eJ.toList.filterMapM (fun p => do
    let q ← p.getArr?
    let tag ← strAt q 0
    if tag == "decay" then pure none else pure (some (← cpOf (← arrAt q 1))))
  let known := idsOf raw
  let tbl := rankTable (known ++ (ids.filter (fun i => !known.contains i)).eraseDups)
  let g := mkGraph tbl 0 raw
  let evs ← eJ.toList.mapM (fun p => do
    let q ← p.getArr?
    let tag ← strAt q 0
    match tag with
    | "pop" => pure (TEv.pop (rankOf tbl (← cpOf (← arrAt q 1))) (← floatAt q 2))
    | "push" => pure (TEv.push (rankOf tbl (← cpOf (← arrAt q 1))) (← floatAt q 2))
    | "acc" => pure (TEv.acc (rankOf tbl (← cpOf (← arrAt q 1))) (← floatAt q 2))
    | "decay" => pure (TEv.decay (← natAt q 1))
    | _ => throw s!"bad event {tag}")
  match traceBad cfg g tst0 evs 0 with
  | none => pure (jBool true)
  | some i => pure (jObj [("bad_event_index", jNat i)])

/-- a history: several self-contained `t1` requests in one line → array of results -/
def handleBatch (j : Json) : R Json := do
  let rs ← (← fldArr j "reqs").toList.mapM handle
  pure (jArr rs)

def routes : List (String × (Json → R Json)) :=
  [("t1", handle), ("t1.output", handleOutput), ("t1.budget", handleBudget),
   ("t1.rule", handleRule), ("t1.seeds", handleSeeds), ("t1.trace", handleTrace), ("t1.batch", handleBatch)]

end Driver.HT1
