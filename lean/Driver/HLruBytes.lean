import Driver.Util
import Clem.Model.LruBytes

open Lean Clem.LruBytes

namespace Driver.HLruBytes

def jEntry (e : Entry) : Json := jArr [jNat e.key, jNat e.val, jNat e.cost]

def obs (s : State) : Json :=
  jObj [("keys", jArr (s.items.map (fun e => jNat e.key))),
        ("bytes", jInt s.bytes), ("n", jNat s.items.length),
        ("inv", jBool (invB s))]

def stepJ (s : State) (op : Json) : R (State × Json) := do
  let a ← op.getArr?
  let tag ← strAt a 0
  match tag with
  | "get" =>
    let (s', r) := get s (← natAt a 1)
    pure (s', jObj [("r", jOptNat r), ("s", obs s')])
  | "put" =>
    let (s', ev) := put s (← natAt a 1) (← natAt a 2) (← intAt a 3)
    pure (s', jObj [("r", jArr [jNat ev.length, jNat (sumCost ev)]),
                    ("ev", jArr (ev.map jEntry)), ("s", obs s')])
  | "contains" =>
    pure (s, jObj [("r", jBool (contains s (← natAt a 1))), ("s", obs s)])
  | "clear" =>
    let s' := clear s
    pure (s', jObj [("r", Json.null), ("s", obs s')])
  | _ => throw s!"bad op {tag}"

def handle (j : Json) : R Json := do
  let maxE ← fldNat j "maxE"
  let maxB ← fldNat j "maxB"
  let ops ← fldArr j "ops"
  let mut s := init maxE maxB
  let mut out : Array Json := #[]
  for op in ops do
    let (s', o) ← stepJ s op
    s := s'
    out := out.push o
  pure (Json.arr out)

/-- Monitor: the invariant evaluated on an *implementation* state. -/
def handleInv (j : Json) : R Json := do
  let maxE ← fldNat j "maxE"
  let maxB ← fldNat j "maxB"
  let its ← fldArr j "items"
  let mut items : List Entry := []
  for it in its do
    let a ← it.getArr?
    items := items ++ [⟨← natAt a 0, ← natAt a 1, ← natAt a 2⟩]
  pure (jBool (invB ⟨maxE, maxB, items, ← fldInt j "bytes"⟩))

def routes : List (String × (Json → R Json)) :=
  [("lrubytes", handle), ("lrubytes.inv", handleInv)]

end Driver.HLruBytes
