import Driver.Util
import Clem.Model.T4

/-!
Driver routes for the T4 meta-filter model, instantiated at `Float`.
* `t4`      : input → the model's `T4Result` (exact correspondence with `t4_filter`).
* `t4.mon`  : input + the IMPLEMENTATION's approved/rejected lists + monitor name → Bool
              (the envelope predicates of `Clem/Model/T4.lean`, the ones `Props/C03` proves).
* `t4.gap`  : input + implementation output → the exact (slack 0) L2 predicate at `Float` and the
              float sum of squares, for the float-gap probe.
Strings cross the wire as code-point arrays, floats as IEEE bit strings.
-/
open Lean Clem.T4

namespace Driver.HT4

def strOf (j : Json) : R (List Nat) := do
  let a ← j.getArr?
  a.toList.mapM (fun x => x.getNat?)

def jStrL (s : List Nat) : Json := jArr (s.map jNat)

def optInt (j : Json) : R (Option Int) :=
  match j with
  | Json.null => pure none
  | _ => do pure (some (← j.getInt?))

def jOptInt : Option Int → Json
  | none => Json.null
  | some i => jInt i

def deltaOf (j : Json) : R (Delta Float) := do
  let a ← j.getArr?
  pure { kind := ← strOf (← arrAt a 0), id := ← strOf (← arrAt a 1), attr := ← strOf (← arrAt a 2),
         delta := ← floatAt a 3, opIdx := ← optInt (← arrAt a 4), idx := ← optInt (← arrAt a 5) }

def jDelta (d : Delta Float) : Json :=
  jArr [jStrL d.kind, jStrL d.id, jStrL d.attr, jFloatBits d.delta, jOptInt d.opIdx, jOptInt d.idx]

def inputOf (j : Json) : R (Input Float) := do
  let ds ← (← fldArr j "deltas").toList.mapM deltaOf
  let ops ← (← fldArr j "ops").toList.mapM strOf
  let cds ← (← fldArr j "cooldowns").toList.mapM (fun p => do
    let a ← p.getArr?
    pure (← strOf (← arrAt a 0), ← intAt a 1))
  let last ← (← fldArr j "last").toList.mapM (fun p => do
    let a ← p.getArr?
    pure (← strOf (← arrAt a 0), ← optInt (← arrAt a 1)))
  let turns ← (← fldArr j "turns").toList.mapM optInt
  pure { deltas := ds, ops := ops, cooldowns := cds, last := last, turns := turns,
         capL2 := ← fldFloat j "capL2", capNov := ← fldFloat j "capNov", k := ← fldInt j "k" }

/-- the literal in `if scale < 0.999999` -/
def thr : Float := 0.999999

/-- relative slack of the L2 monitor at `Float` (rounding of `cap/norm` and of each product) -/
def l2Slack : Float := 1e-9

def handle (j : Json) : R Json := do
  let inp ← inputOf j
  let r := t4 Float.sqrt thr inp
  let reasons :=
    (if r.rCooldown then ["COOLDOWN_BLOCKED"] else []) ++ (if r.rNovelty then ["NOVELTY_SPIKE"] else []) ++
    (if r.rNorm then ["DELTA_NORM_HIGH"] else []) ++ (if r.rChurn then ["CHURN_CAP_HIT"] else [])
  pure (jObj [
    ("approved", jArr (r.approved.map jDelta)),
    ("rejected", jArr (r.rejected.map (fun p => jArr [jStrL p.1, jNat p.2]))),
    ("reasons", jArr (reasons.map jStr)),
    ("counts", jObj [("input", jNat r.nInput), ("after_cooldown", jNat r.nAfterCd),
                     ("after_novelty", jNat r.nAfterNov), ("after_l2", jNat r.nAfterL2),
                     ("approved", jNat r.nApproved), ("dropped_tail", jInt r.droppedTail)]),
    ("novelty_clamped", jNat r.noveltyClamped),
    ("l2_scale", jFloatBits r.scale),
    ("blocked_ops", jNat r.nBlocked)])

def outOf (j : Json) : R (List (Delta Float) × List (List Nat × Nat)) := do
  let o ← fld j "out"
  let ap ← (← fldArr o "approved").toList.mapM deltaOf
  let rj ← (← fldArr o "rejected").toList.mapM (fun p => do
    let a ← p.getArr?
    pure (← strOf (← arrAt a 0), ← natAt a 1))
  pure (ap, rj)

/-- `monL2` is invariant under a common positive factor (`C03_monL2_scale_invariant`).  At `Float` the squares
of magnitudes below ~1e-154 underflow, so for tiny caps the predicate is evaluated on the cap and the deltas
multiplied by `2^600` — an exact operation (a delta that is far above a tiny cap overflows to `inf` and fails,
as it should).  Same tolerance as the exact-rational Python monitor `l2.exact`. -/
def monL2F (cap : Float) (ap : List (Delta Float)) : Bool :=
  if cap < Float.scaleB 1.0 (-400) then
    -- one denormal unit (2^-1074) per delta of absolute slack: a product that lands in the denormal range is
    -- quantised to whole units (the predicate is monotone in the cap, so this only weakens it by rounding noise)
    let capEff := cap + ap.length.toFloat * Float.scaleB 1.0 (-1074)
    monL2 l2Slack (capEff * Float.scaleB 1.0 600) (ap.map (scaleBy (Float.scaleB 1.0 600)))
  else monL2 l2Slack cap ap

def handleMon (j : Json) : R Json := do
  let inp ← inputOf j
  let (ap, rj) ← outOf j
  let m ← fldStr j "m"
  match m with
  | "unique" => pure (jBool (monUnique ap))
  | "sorted" => pure (jBool (monSorted ap))
  | "novelty" => pure (jBool (monNovelty inp.capNov ap))
  | "l2" => pure (jBool (monL2F inp.capL2 ap))
  | "churn" => pure (jBool (monChurn inp.k ap))
  | "cooldown" => pure (jBool (monCooldown inp ap))
  | "subset" => pure (jBool (monSubset inp ap))
  | "rejected" => pure (jBool (monRejected inp rj))
  | "topk" => pure (jBool (monTopK (scaled Float.sqrt inp) ap))
  | "pipeline" => pure (jBool (monPipeline 1e-9 (approved Float.sqrt inp) ap))
  | _ => throw s!"unknown monitor {m}"

/-- all monitors at once → names of the failing ones.  `capsOk` gates the monitors whose theorem
assumes `0 < capL2`; `kOk` the one assuming `0 ≤ k` (both are the validator's ranges). -/
def handleMonAll (j : Json) : R Json := do
  let inp ← inputOf j
  let (ap, rj) ← outOf j
  let capsOk ← fldBool j "capsOk"
  let kOk ← fldBool j "kOk"
  let res : List (String × Bool) :=
    [("unique", monUnique ap), ("sorted", monSorted ap),
     ("novelty", !capsOk || monNovelty inp.capNov ap),
     ("l2", !capsOk || monL2F inp.capL2 ap),
     ("churn", !kOk || monChurn inp.k ap),
     ("cooldown", monCooldown inp ap), ("subset", monSubset inp ap),
     ("rejected", monRejected inp rj),
     ("topk", monTopK (scaled Float.sqrt inp) ap),
     ("pipeline", !capsOk || monPipeline 1e-9 (approved Float.sqrt inp) ap)]
  pure (jArr ((res.filter (fun p => !p.2)).map (fun p => jStr p.1)))

def handleGap (j : Json) : R Json := do
  let inp ← inputOf j
  let (ap, _) ← outOf j
  pure (jObj [("l2_exact", jBool (monL2 0.0 inp.capL2 ap)),
              ("l2_slack", jBool (monL2 l2Slack inp.capL2 ap)),
              ("novelty", jBool (monNovelty inp.capNov ap)),
              ("sumsq", jFloatBits (sumSq ap))])

def routes : List (String × (Json → R Json)) :=
  [("t4", handle), ("t4.mon", handleMon), ("t4.monall", handleMonAll), ("t4.gap", handleGap)]

end Driver.HT4
