import Driver.Util
import Clem.Model.Par
import Clem.Model.ParT1
import Clem.Model.ParT2

open Lean

namespace Driver.HPar

open Clem.Par

def cps (s : String) : List Nat := s.toList.map Char.toNat
def ofCps (l : List Nat) : String := String.ofList (l.map Char.ofNat)

/-! ### run_parallel -/

/-- order_key enum used by the harness.  An order key is an int, a `str`, or a tuple `(int, str)`;
all three are represented as an integer list compared lexicographically (a `str` is its code points,
a tuple `(i, s)` is `i :: code points of s`), which is CPython's comparison for these shapes. -/
def strKey (k : Int) : List Int := (toString k).toList.map (fun c => (c.toNat : Int))

def okey (name : String) (k : Int) : List Int :=
  match name with
  | "neg" => [-k]
  | "mod2" => [k % 2]
  | "const" => [0]
  | "div2" => [k / 2]
  | "str" => strKey k                       -- str(k): "10" < "2"
  | "tup" => (k % 3) :: strKey k            -- (k % 3, str(k))
  | "postup" => k :: strKey k               -- (k, str(k)): positional first
  | _ => [k]

def lexLeI : List Int → List Int → Bool
  | [], _ => true
  | _ :: _, [] => false
  | a :: as, b :: bs => if a < b then true else if b < a then false else lexLeI as bs

def kleOf (name : String) (a b : Int) : Bool := lexLeI (okey name a) (okey name b)

abbrev Err := String × String

def parseTasks (arr : Array Json) : R (List (Int × Except Err Int)) := do
  let mut out : List (Int × Except Err Int) := []
  for t in arr do
    let a ← t.getArr?
    let k ← intAt a 0
    let tag ← strAt a 1
    if tag == "ok" then out := out ++ [(k, .ok (← intAt a 2))]
    else out := out ++ [(k, .error (← strAt a 2, ← strAt a 3))]
  pure out

def natList (arr : Array Json) : R (List Nat) := arr.toList.mapM (fun j => j.getNat?)

def jOut (o : Out Int Err (List (Int × Int))) : Json :=
  match o with
  | .ok l => jObj [("ok", jArr (l.map (fun p => jArr [jInt p.1, jInt p.2])))]
  | .parErr l => jObj [("err", jArr (l.map (fun p => jArr [jInt p.1, jStr p.2.1, jStr p.2.2])))]

def handleRun (j : Json) : R Json := do
  let tasks ← parseTasks (← fldArr j "tasks")
  let π ← natList (← fldArr j "pi")
  pure (jOut (runParallel (kleOf (← fldStr j "okey")) id (← fldInt j "w") tasks π))

/-- monitor: the implementation's observable equals the schedule-free `spec`. -/
def handleMon (j : Json) : R Json := do
  let tasks ← parseTasks (← fldArr j "tasks")
  let sp := jOut (spec (kleOf (← fldStr j "okey")) id (← fldInt j "w") tasks)
  pure (jBool (sp == (← fld j "out")))

/-! ### T1 fan-out -/

open Clem.ParT1 in
def parseGraph (g : Json) : R (List Nat × (List (List Nat) × GM Float)) := do
  let name ← fldStr g "name"
  let ds ← (← fldArr g "deltas").toList.mapM (fun d => do pure (cps (← d.getStr?)))
  let m ← fldArr g "m"
  let gm : GM Float := {
    pops := ← natAt m 0, iters := ← natAt m 1, propagations := ← natAt m 2,
    radiusCapHits := ← natAt m 3, layerCapHits := ← natAt m 4, nodeBudgetHits := ← natAt m 5,
    maxDeltaLocal := ← fldFloat g "maxd",
    cacheHit := ← natAt m 6, cacheMiss := ← natAt m 7,
    frontierEvicted := ← natAt m 8, dedupHits := ← natAt m 9, visitedEvicted := ← natAt m 10,
    cacheEvicted := ← natAt m 11, cacheBytes := ← natAt m 12 }
  pure (cps name, (ds, gm))

open Clem.ParT1 in
def jAgg (a : Agg Float (List Nat)) : Json :=
  jObj [("deltas", jArr (a.deltas.map (fun d => jStr (ofCps d)))),
        ("c", jArr [jNat a.pops, jNat a.iters, jNat a.propagations, jNat a.radiusHits, jNat a.layerHits,
                    jNat a.nodeHits, jNat a.cacheHits, jNat a.cacheMisses, jNat a.frontierEvicted,
                    jNat a.dedupHits, jNat a.visitedEvicted, jNat a.cacheEvicted, jNat a.cacheBytes]),
        ("maxd", jFloatBits a.maxDelta)]

open Clem.ParT1 in
def handleT1 (j : Json) : R Json := do
  let gs ← (← fldArr j "graphs").toList.mapM parseGraph
  let active ← natList (← fldArr j "active")
  let gate ← fldBool j "gate"
  let dflt : List Nat × (List (List Nat) × GM Float) := ([], ([], ⟨0,0,0,0,0,0,0.0,0,0,0,0,0,0,0⟩))
  let look (i : Nat) := (gs[i]?).getD dflt
  let gt (a b : Float) : Bool := a > b
  if ← fldBool j "par" then
    let π ← natList (← fldArr j "pi")
    match t1Par (E := Err) gt 0.0 gate (fun i => (look i).1) (fun i => .ok (look i).2) active (← fldInt j "w") π with
    | .ok a => pure (jAgg a)
    | .parErr _ => throw "parErr"
  else
    pure (jAgg (t1Seq gt 0.0 gate (fun i => (look i).2) active))

/-! ### T2: shards, qscore, merge -/

open Clem.ParT2

def sugg (j : Json) : Option Int :=
  match j.getObjVal? "suggested" with
  | .ok v => v.getInt?.toOption
  | .error _ => none

def handleShards (j : Json) : R Json := do
  let n ← fldNat j "n"
  pure (jArr ((iterShards (List.range n) (sugg j)).map (fun s => jArr (s.map jNat))))

def handleShardsMon (j : Json) : R Json := do
  let n ← fldNat j "n"
  let sh ← (← fldArr j "shards").toList.mapM (fun s => do natList (← s.getArr?))
  pure (jBool (partitionB (List.range n) sh))

def handleQscore (j : Json) : R Json := do
  pure (jInt (qscoreF (← fldFloat j "s")))

def parseHit (h : Json) : R (Hit Float) := do
  let a ← h.getArr?
  pure ⟨cps (← strAt a 0), ← floatAt a 1⟩

def parseShards (arr : Array Json) : R (List (ShardHits Float)) :=
  arr.toList.mapM (fun d => do
    (← d.getArr?).toList.mapM (fun kv => do
      let a ← kv.getArr?
      let hs ← (← (← arrAt a 1).getArr?).toList.mapM parseHit
      pure (cps (← strAt a 0), hs)))

def jHit (h : Hit Float) : Json := jArr [jStr (ofCps h.id), jFloatBits h.score]

/-- `_raw_score`: NaN ↦ 0.0; strict `<` on the result. -/
def rawF (s : Float) : Float := if s != s then 0.0 else s
def rawLt (a b : Float) : Bool := rawF a < rawF b

/-- `InMemoryIndex._rank_by_cosine` on candidates whose cosine is given: threshold filter, sort by
`(-score, id)`, one entry per id, cut to `k`. -/
def handleRank (j : Json) : R Json := do
  let hs ← (← fldArr j "hits").toList.mapM parseHit
  let thr ← fldFloat j "thr"
  let cands := hs.filter (fun h => h.score >= thr)
  pure (jArr ((rankU (rawLe (fun a b : Float => a < b)) (← fldNat j "k") cands).map jHit))

def handleMerge (j : Json) : R Json := do
  let shards ← parseShards (← fldArr j "shards")
  let tiers ← (← fldArr j "tiers").toList.mapM (fun t => do pure (cps (← t.getStr?)))
  let r := mergeTierHits (hitLeQR qscoreF rawLt) (← fldInt j "k") shards tiers
  pure (jObj [("hits", jArr (r.1.map jHit)), ("used", jArr (r.2.map (fun t => jStr (ofCps t))))])

/-- monitor on an implementation merge result (scores compared as bit patterns). -/
def parseHitBits (h : Json) : R (Hit Nat) := do
  let a ← h.getArr?
  match (← strAt a 1).toNat? with
  | some n => pure ⟨cps (← strAt a 0), n⟩
  | none => throw "bad bits"

def parseShardsBits (arr : Array Json) : R (List (ShardHits Nat)) :=
  arr.toList.mapM (fun d => do
    (← d.getArr?).toList.mapM (fun kv => do
      let a ← kv.getArr?
      let hs ← (← (← arrAt a 1).getArr?).toList.mapM parseHitBits
      pure (cps (← strAt a 0), hs)))

def handleMergeMon (j : Json) : R Json := do
  let shards ← parseShardsBits (← fldArr j "shards")
  let tiers ← (← fldArr j "tiers").toList.mapM (fun t => do pure (cps (← t.getStr?)))
  let hits ← (← fldArr j "hits").toList.mapM parseHitBits
  let used ← (← fldArr j "used").toList.mapM (fun t => do pure (cps (← t.getStr?)))
  pure (jBool (mergeOkB (← fldInt j "k") shards tiers (hits, used)))

/-- the sequential tier walk on the hits the real index returned per tier. -/
def handleWalk (j : Json) : R Json := do
  let tiers ← (← fldArr j "tiers").toList.mapM (fun t => do pure (cps (← t.getStr?)))
  let tbl ← (← fldArr j "hits").toList.mapM (fun kv => do
    let a ← kv.getArr?
    let hs ← (← (← arrAt a 1).getArr?).toList.mapM parseHit
    pure (cps (← strAt a 0), hs))
  let r := seqWalk (← fldInt j "k") (fun t => (tbl.lookup t).getD []) tiers [] [] []
  pure (jObj [("hits", jArr (r.1.map jHit)), ("used", jArr (r.2.map (fun t => jStr (ofCps t))))])

def routes : List (String × (Json → R Json)) :=
  [("par.run", handleRun), ("par.mon", handleMon), ("par.t1", handleT1),
   ("par.shards", handleShards), ("par.shards.mon", handleShardsMon),
   ("par.qscore", handleQscore), ("par.merge", handleMerge), ("par.merge.mon", handleMergeMon), ("par.walk", handleWalk), ("par.rank", handleRank)]

end Driver.HPar
