import Driver.Util
import Clem.Model.Valid
import Clem.Gen.ValidRules
import Clem.Model.ValidTop

open Lean Clem.Valid

namespace Driver.HValid

def parseStr (j : Json) : R Str := do
  let a ← j.getArr?
  a.toList.mapM (fun x => x.getNat?)

def parseIntS (j : Json) : R Int := do
  let s ← j.getStr?
  match s.toInt? with
  | some i => pure i
  | none => throw s!"bad int {s}"

def parseNum (t : String) (j : Json) : R Num := do
  match t with
  | "i" => pure (.int (← parseIntS (← fld j "v")))
  | "f" => pure (.flt (← parseIntS (← fld j "fl")) (← fldBool j "fr"))
  | "nan" => pure .nan
  | "pinf" => pure .pinf
  | "ninf" => pure .ninf
  | _ => throw s!"bad num tag {t}"

def parseKey (j : Json) : R K := do
  match j.getObjVal? "s" with
  | .ok s => pure (.str (← parseStr s))
  | .error _ => pure (.other (← parseStr (← fld j "o")))

partial def parseJ (j : Json) : R J := do
  let t ← fldStr j "t"
  match t with
  | "n" => pure .null
  | "b" => pure (.bool (← fldBool j "v"))
  | "s" =>
    let s ← parseStr (← fld j "s")
    let l ← parseStr (← fld j "l")
    let i ← match j.getObjVal? "i" with
      | .ok x => do pure (some (← parseIntS x))
      | .error _ => pure none
    let f ← match j.getObjVal? "f" with
      | .ok x => do
        let tt ← fldStr x "t"
        pure (some (← parseNum tt x))
      | .error _ => pure none
    pure (.str s l i f)
  | "l" =>
    let a ← fldArr j "v"
    pure (.list (← a.toList.mapM parseJ))
  | "d" =>
    let a ← fldArr j "v"
    let kvs ← a.toList.mapM (fun kv => do
      let p ← kv.getArr?
      let k ← parseKey (← arrAt p 0)
      let v ← parseJ (← arrAt p 1)
      pure (k, v))
    pure (.dict kvs)
  | _ => pure (.num (← parseNum t j))

def jS (s : Str) : Json := jArr (s.map jNat)

def jNum : Num → Json
  | .int i => jObj [("t", jStr "i"), ("v", jStr (toString i))]
  | .flt fl fr => jObj [("t", jStr "f"), ("fl", jStr (toString fl)), ("fr", jBool fr)]
  | .nan => jObj [("t", jStr "nan")]
  | .pinf => jObj [("t", jStr "pinf")]
  | .ninf => jObj [("t", jStr "ninf")]

/-- Messages of the typed rules + outcome class. -/
def handleMsgs (j : Json) : R Json := do
  let cfg ← parseJ (← fld j "cfg")
  let e := env cfg
  let rules := Clem.Gen.ValidRules.rules
  let msgs := messages cfg
  let esc := escapesNow cfg
  -- over-rejection: a fired numeric rule whose value lies inside the documented range
  let over := (numRules rules).filter (fun r => !(r.rejectOk e))
  let under := (numRules rules).filter (fun r => !(r.rangeOk e))
  pure (jObj [("msgs", jArr (msgs.map jS)), ("escape", jBool esc),
              ("over", jArr (over.map (fun r => jS r.path))),
              ("under", jArr (under.map (fun r => jS r.path)))])

/-- Output monitors on the configuration the implementation returned. -/
def handleOut (j : Json) : R Json := do
  let cfg ← parseJ (← fld j "cfg")
  let out ← parseJ (← fld j "out")
  let e := env cfg
  let rules := Clem.Gen.ValidRules.rules
  let o := ensureDict out
  let badN := (numRules rules).filter (fun r => !(r.outOk e o))
  let badE := allEnum.filter (fun r => !(r.outOk e o))
  let seen := (numRules rules).filter (fun r => !r.out.isEmpty && r.active e && (outAt o r.out).isSome)
  pure (jObj [("bad_num", jArr (badN.map (fun r => jS r.path))),
              ("bad_enum", jArr (badE.map (fun r => jS r.path))),
              ("checked", jNat seen.length)])

/-- `_lev` / `_suggest_key` on explicit arguments (hand-modelled helpers, tied directly). -/
def handleSuggest (j : Json) : R Json := do
  let bad ← parseStr (← fld j "bad")
  let al ← (← fldArr j "allowed").toList.mapM parseStr
  pure (jObj [("sug", match suggestKey bad al with | some s => jS s | none => Json.null),
              ("lev", jArr (al.map (fun k => jNat (lev bad k))))])

/-- `_coerce_*` on one value. -/
def handleCoerce (j : Json) : R Json := do
  let v ← parseJ (← fld j "v")
  let d ← fldInt j "d"
  pure (jObj [("int", jNum (coerce .int (some v) d)), ("float", jNum (coerce .float (some v) d)),
              ("bool", jBool (coerceBool (some v)))])

def handleUnderOk (j : Json) : R Json := do pure (jBool (allRangeOk (← parseJ (← fld j "cfg"))))
def handleOverOk (j : Json) : R Json := do pure (jBool (allRejectOk (← parseJ (← fld j "cfg"))))
def handleOutOk (j : Json) : R Json := do
  pure (jBool (allOutOk (← parseJ (← fld j "cfg")) (← parseJ (← fld j "out"))))

def routes : List (String × (Json → R Json)) :=
  [("valid.msgs", handleMsgs), ("valid.out", handleOut), ("valid.suggest", handleSuggest),
   ("valid.coerce", handleCoerce), ("valid.under.ok", handleUnderOk), ("valid.over.ok", handleOverOk),
   ("valid.out.ok", handleOutOk)]

end Driver.HValid
