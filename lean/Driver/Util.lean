/-
JSON helpers for the model driver (`clemdrv`).  Mathlib-free.
-/
import Lean.Data.Json

open Lean

namespace Driver

abbrev R := Except String

def fld (j : Json) (k : String) : R Json := j.getObjVal? k
def fldNat (j : Json) (k : String) : R Nat := do (← fld j k).getNat?
def fldInt (j : Json) (k : String) : R Int := do (← fld j k).getInt?
def fldStr (j : Json) (k : String) : R String := do (← fld j k).getStr?
def fldBool (j : Json) (k : String) : R Bool := do (← fld j k).getBool?
def fldArr (j : Json) (k : String) : R (Array Json) := do (← fld j k).getArr?
def fldD (j : Json) (k : String) (d : Json) : Json := (j.getObjVal? k).toOption.getD d

def arrAt (a : Array Json) (i : Nat) : R Json :=
  match a[i]? with
  | some x => pure x
  | none => throw s!"index {i} out of range"

def natAt (a : Array Json) (i : Nat) : R Nat := do (← arrAt a i).getNat?
def intAt (a : Array Json) (i : Nat) : R Int := do (← arrAt a i).getInt?
def strAt (a : Array Json) (i : Nat) : R String := do (← arrAt a i).getStr?

def jNat (n : Nat) : Json := toJson n
def jInt (n : Int) : Json := toJson n
def jStr (s : String) : Json := Json.str s
def jBool (b : Bool) : Json := Json.bool b
def jArr (l : List Json) : Json := Json.arr l.toArray
def jObj (l : List (String × Json)) : Json := Json.mkObj l
def jOptNat : Option Nat → Json
  | none => Json.null
  | some n => jNat n

/-- Floats cross the wire as decimal strings of their IEEE-754 bit pattern. -/
def floatOfBits (s : String) : R Float :=
  match s.toNat? with
  | some n => pure (Float.ofBits n.toUInt64)
  | none => throw s!"bad float bits {s}"
def jFloatBits (f : Float) : Json := Json.str (toString f.toBits.toNat)
def fldFloat (j : Json) (k : String) : R Float := do floatOfBits (← fldStr j k)
def floatAt (a : Array Json) (i : Nat) : R Float := do floatOfBits (← strAt a i)

end Driver
