import Driver.Util
import Clem.Model.Atomic
import Clem.Gen.AtomicCallers

open Lean Clem.Atomic

namespace Driver.HAtomic

def toCodes (s : String) : List Nat := s.toList.map Char.toNat
def ofCodes (l : List Nat) : String := String.ofList (l.map Char.ofNat)

def jCodes (l : List Nat) : Json := jStr (ofCodes l)
def jOptCodes : Option (List Nat) → Json
  | none => Json.null
  | some l => jCodes l

def optCodes (j : Json) : R (Option (List Nat)) :=
  match j with
  | Json.null => pure none
  | _ => do pure (some (toCodes (← j.getStr?)))

def parseOutcome (s : String) : R Outcome :=
  if s == "ok" then pure .ok
  else if s == "crash" then pure .crash
  else if s.startsWith "err:" then
    match (s.drop 4).toNat? with
    | some n => pure (.err n)
    | none => throw s!"bad outcome {s}"
  else if s.startsWith "short:" then
    match (s.drop 6).toNat? with
    | some n => pure (.short n)
    | none => throw s!"bad outcome {s}"
  else throw s!"bad outcome {s}"

def outcomeStr : Outcome → String
  | .ok => "ok"
  | .crash => "crash"
  | .err c => s!"err:{c}"
  | .short k => s!"short:{k}"

def stepStr : Step → String
  | .mkdir => "mkdir" | .mktemp => "mktemp" | .openw => "openw" | .write => "write"
  | .flush => "flush" | .fsync => "fsync" | .close => "close" | .stat => "stat"
  | .chmod => "chmod" | .replace => "replace" | .opent => "opent" | .fsynct => "fsynct"
  | .closet => "closet" | .opend => "opend" | .fsyncd => "fsyncd" | .closed => "closed"
  | .exists => "exists" | .unlink => "unlink"

def parseStep (s : String) : R Step :=
  match s with
  | "mkdir" => pure .mkdir | "mktemp" => pure .mktemp | "openw" => pure .openw
  | "write" => pure .write | "flush" => pure .flush | "fsync" => pure .fsync
  | "close" => pure .close | "stat" => pure .stat | "chmod" => pure .chmod
  | "replace" => pure .replace | "opent" => pure .opent | "fsynct" => pure .fsynct
  | "closet" => pure .closet | "opend" => pure .opend | "fsyncd" => pure .fsyncd
  | "closed" => pure .closed | "exists" => pure .exists | "unlink" => pure .unlink
  | _ => throw s!"bad step {s}"

def statusStr : Status → String
  | .returned => "returned" | .raised => "raised" | .crashed => "crashed"

def parseStatus (s : String) : R Status :=
  match s with
  | "returned" => pure .returned | "raised" => pure .raised | "crashed" => pure .crashed
  | _ => throw s!"bad status {s}"

def parseDir (a : Array Json) : R Dir := do
  let mut d : Dir := []
  for e in a do
    let p ← e.getArr?
    d := d ++ [(toCodes (← strAt p 0), toCodes (← strAt p 1))]
  pure d

def parseScript (a : Array Json) : R (List Outcome) := do
  let mut l : List Outcome := []
  for e in a do
    l := l ++ [← parseOutcome (← e.getStr?)]
  pure l

def parseTrace (a : Array Json) : R (List (Step × Outcome)) := do
  let mut l : List (Step × Outcome) := []
  for e in a do
    let p ← e.getArr?
    l := l ++ [(← parseStep (← strAt p 0), ← parseOutcome (← strAt p 1))]
  pure l

def parseNames (a : Array Json) : R (List Clem.Atomic.Name) := do
  let mut l : List Clem.Atomic.Name := []
  for e in a do
    l := l ++ [toCodes (← e.getStr?)]
  pure l

def jDir (d : Dir) : Json := jArr (d.map (fun e => jArr [jCodes e.1, jCodes e.2]))

def jRes (dest : Clem.Atomic.Name) (r : Res) : Json :=
  jObj [("status", jStr (statusStr r.status)),
        ("fs", jDir r.fs),
        ("hist", jArr (r.hist.map (fun d => jArr [jOptCodes (getF d dest), jArr (d.map (fun e => jCodes e.1))]))),
        ("trace", jArr (r.trace.map (fun e => jArr [jStr (stepStr e.1), jStr (outcomeStr e.2)])))]

/-- `atomic_write_bytes` -/
def handleAwb (j : Json) : R Json := do
  let dest := toCodes (← fldStr j "dest")
  let r := toCodes (← fldStr j "r")
  let data := toCodes (← fldStr j "data")
  let fs ← parseDir (← fldArr j "fs")
  let σ ← parseScript (← fldArr j "script")
  let loopW ← fldBool j "loop"
  let retries ← fldNat j "retries"
  pure (jRes dest (awb loopW retries dest r data fs σ))

/-- hist entries for callers: both the body and the sidecar are watched -/
def jRes2 (dest : Clem.Atomic.Name) (r : Res) : Json :=
  jObj [("status", jStr (statusStr r.status)),
        ("fs", jDir r.fs),
        ("hist", jArr (r.hist.map (fun d => jArr [jOptCodes (getF d dest), jOptCodes (getF d (dest ++ metaSuffix)),
                                                  jArr (d.map (fun e => jCodes e.1))]))),
        ("trace", jArr (r.trace.map (fun e => jArr [jStr (stepStr e.1), jStr (outcomeStr e.2)])))]

/-- callers: kind = plain | swallow | sidecar -/
def handleCaller (j : Json) : R Json := do
  let kind ← fldStr j "kind"
  let dest := toCodes (← fldStr j "dest")
  let r1 := toCodes (← fldStr j "r1")
  let r2 := toCodes (← fldStr j "r2")
  let data := toCodes (← fldStr j "data")
  let mdata := toCodes (← fldStr j "meta")
  let fs ← parseDir (← fldArr j "fs")
  let σ ← parseScript (← fldArr j "script")
  let retries ← fldNat j "retries"
  let loopW ← fldBool j "loop"
  match kind with
  | "plain" => pure (jRes2 dest (awb loopW retries dest r1 data fs σ))
  | "swallow" => pure (jRes2 dest (swallow (awb loopW retries dest r1 data fs σ)))
  | "sidecar" => pure (jRes2 dest (withSidecarL loopW retries dest r1 r2 data mdata fs σ))
  | "iterfail" => pure (jRes2 dest (fin .raised fs))  -- the record source raised: no FS call is made at all
  | "contentfail" => pure (jRes2 dest (writeSerialised loopW retries dest r1 (.contentFail 0) fs σ))
  | "contentfail_swallowed" => pure (jRes2 dest (swallow (writeSerialised loopW retries dest r1 (.contentFail 0) fs σ)))
  | _ => throw s!"bad kind {kind}"

/-- text/json wrappers: `ser` = {"done": "<bytes>"} | {"fail": k} -/
def handleWrap (j : Json) : R Json := do
  let dest := toCodes (← fldStr j "dest")
  let r := toCodes (← fldStr j "r")
  let fs ← parseDir (← fldArr j "fs")
  let σ ← parseScript (← fldArr j "script")
  let loopW ← fldBool j "loop"
  let retries ← fldNat j "retries"
  let sj ← fld j "ser"
  let ser : Ser ← match sj.getObjVal? "done" with
    | .ok d => do pure (Ser.done (toCodes (← d.getStr?)))
    | .error _ => do pure (Ser.contentFail (← fldNat sj "fail"))
  pure (jRes dest (writeSerialised loopW retries dest r ser fs σ))

/-- stand-alone `atomic_replace` -/
def handleReplace (j : Json) : R Json := do
  let src := toCodes (← fldStr j "src")
  let dst := toCodes (← fldStr j "dst")
  let fs ← parseDir (← fldArr j "fs")
  let σ ← parseScript (← fldArr j "script")
  let retries ← fldNat j "retries"
  pure (jRes dst (atomicReplaceAlone retries src dst fs σ))

/-- property monitors evaluated on *implementation* outputs -/
def handleMon (j : Json) : R Json := do
  let m ← fldStr j "m"
  match m with
  | "aon" =>
    pure (jBool (aonB (← optCodes (← fld j "old")) (toCodes (← fldStr j "new")) (← optCodes (← fld j "cur"))))
  | "reader" =>
    let mut seen : List (Option Bytes) := []
    for e in (← fldArr j "seen") do
      seen := seen ++ [← optCodes e]
    pure (jBool (readerB (← optCodes (← fld j "old")) (toCodes (← fldStr j "new")) seen))
  | "returned_new" =>
    pure (jBool (returnedNewB (← parseStatus (← fldStr j "status")) (toCodes (← fldStr j "new"))
                  (← optCodes (← fld j "cur"))))
  | "no_temp" =>
    pure (jBool (noTempB (← parseStatus (← fldStr j "status")) (← parseTrace (← fldArr j "trace"))
                  (← parseNames (← fldArr j "before")) (toCodes (← fldStr j "dest"))
                  (← parseNames (← fldArr j "after"))))
  | "harmless" =>
    let dest := toCodes (← fldStr j "dest")
    let names ← parseNames (← fldArr j "names")
    pure (jBool (names.all (harmlessB Clem.Gen.AtomicCallers.discoverySuffixes dest)))
  | "retry" =>
    pure (jBool (retryB (← fldNat j "retries") (← parseTrace (← fldArr j "trace"))))
  | _ => throw s!"bad monitor {m}"

def routes : List (String × (Json → R Json)) :=
  [("atomic.awb", handleAwb), ("atomic.wrap", handleWrap), ("atomic.replace", handleReplace), ("atomic.caller", handleCaller),
   ("atomic.mon", handleMon)]

end Driver.HAtomic
