import Driver.Util
import Clem.Model.Sched

open Lean Clem.Sched

namespace Driver.HSched

def agentOf (j : Json) : R Agent := do
  let a ← j.getArr?
  let mut out : List Nat := []
  for x in a do
    out := out ++ [← x.getNat?]
  pure out

def agentsOf (j : Json) : R (List Agent) := do
  let a ← j.getArr?
  let mut out : List Agent := []
  for x in a do
    out := out ++ [← agentOf x]
  pure out

def dictOf (j : Json) : R Dict := do
  let a ← j.getArr?
  let mut out : Dict := []
  for x in a do
    let p ← x.getArr?
    out := out ++ [(← agentOf (← arrAt p 0), ← intAt p 1)]
  pure out

def jAgent (a : Agent) : Json := jArr (a.map jNat)
def jDict (d : Dict) : Json := jArr (d.map (fun p => jArr [jAgent p.1, jInt p.2]))

def jReason : Reason → Json
  | .roundRobin => jStr "ROUND_ROBIN"
  | .agingBoost => jStr "AGING_BOOST"
  | .resetConsec => jStr "RESET_CONSEC"

def reasonOf (s : String) : R Reason :=
  match s with
  | "ROUND_ROBIN" => pure .roundRobin
  | "AGING_BOOST" => pure .agingBoost
  | "RESET_CONSEC" => pure .resetConsec
  | _ => throw s!"bad reason {s}"

def cfgOf (j : Json) : R CfgVal :=
  match j with
  | Json.null => pure .absent
  | Json.str _ => pure .bad
  | _ => do pure (.int (← j.getInt?))

def stateOf (j : Json) : R State := do
  pure { queue := ← agentsOf (← fld j "queue"), lastRan := ← dictOf (← fld j "last"),
         consec := ← dictOf (← fld j "consec") }

def jState (s : State) : Json :=
  jObj [("queue", jArr (s.queue.map jAgent)), ("last", jDict s.lastRan), ("consec", jDict s.consec)]

def startOf (j : Json) : R State := do
  match j.getObjVal? "state" with
  | .ok st => stateOf st
  | .error _ =>
    let i ← fld j "init"
    pure (initState (← agentsOf (← fld i "ids")) (← fldInt i "now"))

/-- ops: ["next", fq, aging, now] | ["yield", agent, now, reset] | ["rot", agent]
        | ["tick", fq, aging, nowPick, nowYield, rot]  -/
def stepJ (mctV : CfgVal) (s : State) (op : Json) : R (State × Json) := do
  let a ← op.getArr?
  let tag ← strAt a 0
  match tag with
  | "next" =>
    let fq ← (← arrAt a 1).getBool?
    let ag ← cfgOf (← arrAt a 2)
    let now ← intAt a 3
    match nextTurnCfg fq ag mctV now s with
    | .error _ => pure (s, jObj [("raised", jBool true)])
    | .ok (x, r) => pure (s, jObj [("a", jAgent x), ("r", jReason r)])
  | "yield" =>
    let x ← agentOf (← arrAt a 1)
    let now ← intAt a 2
    let reset ← (← arrAt a 3).getBool?
    let s' := onYield s x now reset
    pure (s', jObj [("s", jState s')])
  | "rot" =>
    let x ← agentOf (← arrAt a 1)
    let s' := { s with queue := rotate s.queue x }
    pure (s', jObj [("s", jState s')])
  | "tick" =>
    let fq ← (← arrAt a 1).getBool?
    let ag ← cfgOf (← arrAt a 2)
    let np ← intAt a 3
    let ny ← intAt a 4
    let rot ← (← arrAt a 5).getBool?
    match (do let g ← cfgInt ag 200; let m ← cfgInt mctV 1000000000; pure (g, m) : Except Unit (Int × Int)) with
    | .error _ => pure (s, jObj [("raised", jBool true)])
    | .ok (g, m) =>
      let r := stepT m s ⟨np, ny, fq, g, rot⟩
      pure (r.1, jObj [("a", jAgent r.2.1), ("r", jReason r.2.2), ("s", jState r.1)])
  | _ => throw s!"bad op {tag}"

def handleHist (j : Json) : R Json := do
  let mctV ← cfgOf (fldD j "mct" Json.null)
  let ops ← fldArr j "ops"
  let mut s ← startOf j
  let mut out : Array Json := #[jObj [("s", jState s)]]
  for op in ops do
    let (s', o) ← stepJ mctV s op
    s := s'
    out := out.push o
  pure (Json.arr out)

/-- Lean monitor: `Pick` (and lexicographic-least on reset) on an implementation output. -/
def handlePick (j : Json) : R Json := do
  let s ← stateOf (← fld j "state")
  let m ← fldInt j "mct"
  let a ← agentOf (← fld j "a")
  let r ← reasonOf (← fldStr j "r")
  let ok := s.queue.isEmpty || (pickB s m a r && (!(r == .resetConsec) || isLeastB s.queue a))
  pure (jBool ok)

/-- Lean monitor: waiting times within the bound on an implementation trace. -/
def handleGaps (j : Json) : R Json := do
  let q ← agentsOf (← fld j "queue")
  let m ← fldNat j "m"
  let tr ← agentsOf (← fld j "trace")
  pure (jBool (gapsOkB q m tr))

def handleConsec (j : Json) : R Json := do
  let s ← stateOf (← fld j "state")
  let m ← fldInt j "mct"
  pure (jBool (consecOkB s m))

/-! exhaustive exploration of all histories over a clock-advance alphabet -/

def P : Nat := 2305843009213693951

def idxOf (q : List Agent) (a : Agent) : Nat := (q.findIdx? (· == a)).getD 99

structure Acc where
  count : Nat
  hash : Nat
  maxgap : Nat
  pickOk : Bool
  consOk : Bool

/-- DFS; `gaps` = current wait per agent (in `ids` order). -/
def dfs (ids : List Agent) (m : Int) (fq : Bool) (aging : Int) (rot : Bool) (alpha : List Int) :
    Nat → State → Int → List Nat → Acc → Acc
  | 0, _, _, _, acc => { acc with count := acc.count + 1 }
  | depth + 1, s, now, gaps, acc =>
    alpha.foldl (fun acc d =>
      let np := now + d
      let p := nextTurn fq aging m np s
      let ok := pickB s m p.1 p.2 && (!(p.2 == .resetConsec) || isLeastB s.queue p.1)
      let r := stepT m s ⟨np, np, fq, aging, rot⟩
      let code := idxOf ids r.2.1 * 3 + (match r.2.2 with | .roundRobin => 0 | .agingBoost => 1 | .resetConsec => 2)
      let gaps' := (ids.zip gaps).map (fun (x, g) => if x = r.2.1 then 0 else g + 1)
      let mg := gaps'.foldl max acc.maxgap
      let acc := { acc with hash := (acc.hash * 1000003 + code + 1) % P, maxgap := mg,
                            pickOk := acc.pickOk && ok, consOk := acc.consOk && consecOkB r.1 m }
      dfs ids m fq aging rot alpha depth r.1 np gaps' acc) acc

def handleExhaust (j : Json) : R Json := do
  let ids ← agentsOf (← fld j "ids")
  let m ← fldInt j "mct"
  let fq ← fldBool j "fq"
  let aging ← fldInt j "aging"
  let rot ← fldBool j "rot"
  let alphaJ ← fldArr j "alpha"
  let mut alpha : List Int := []
  for x in alphaJ do
    alpha := alpha ++ [← x.getInt?]
  let depth ← fldNat j "depth"
  let s := initState ids 0
  let acc := dfs s.queue m fq aging rot alpha depth s 0 (s.queue.map (fun _ => 0)) ⟨0, 0, 0, true, true⟩
  pure (jObj [("count", jNat acc.count), ("hash", jStr (toString acc.hash)), ("maxgap", jNat acc.maxgap),
              ("pickOk", jBool acc.pickOk), ("consOk", jBool acc.consOk),
              ("bound", jNat (bound s.queue.length m.toNat))])

/-! yield decision -/

def optInt (j : Json) (k : String) : R (Option Int) :=
  match j.getObjVal? k with
  | .ok Json.null => pure none
  | .ok v => do pure (some (← v.getInt?))
  | .error _ => pure none

def budgetsOf (j : Json) : R Budgets := do
  pure { wall := ← optInt j "wall_ms", t1Iters := ← optInt j "t1_iters", t1Pops := ← optInt j "t1_pops",
         t2K := ← optInt j "t2_k", t3Ops := ← optInt j "t3_ops", quantum := ← optInt j "quantum_ms" }

def consumedOf (j : Json) : R Consumed := do
  pure { ms := ← optInt j "ms", t1Iters := ← optInt j "t1_iters", t1Pops := ← optInt j "t1_pops",
         t2K := ← optInt j "t2_k", t3Ops := ← optInt j "t3_ops" }

def jYReason : Option YReason → Json
  | none => Json.null
  | some .wall => jStr "WALL_MS"
  | some .t1Iters => jStr "BUDGET_T1_ITERS"
  | some .t1Pops => jStr "BUDGET_T1_POPS"
  | some .t2K => jStr "BUDGET_T2_K"
  | some .t3Ops => jStr "BUDGET_T3_OPS"
  | some .quantum => jStr "QUANTUM_EXCEEDED"

def yReasonOf (j : Json) : R (Option YReason) :=
  match j with
  | Json.null => pure none
  | Json.str "WALL_MS" => pure (some .wall)
  | Json.str "BUDGET_T1_ITERS" => pure (some .t1Iters)
  | Json.str "BUDGET_T1_POPS" => pure (some .t1Pops)
  | Json.str "BUDGET_T2_K" => pure (some .t2K)
  | Json.str "BUDGET_T3_OPS" => pure (some .t3Ops)
  | Json.str "QUANTUM_EXCEEDED" => pure (some .quantum)
  | _ => throw "bad yield reason"

def jOptInt : Option Int → Json
  | none => Json.null
  | some i => jInt i

def jBudgets (b : Budgets) : Json :=
  jObj ([("wall_ms", b.wall), ("t1_iters", b.t1Iters), ("t1_pops", b.t1Pops), ("t2_k", b.t2K),
         ("t3_ops", b.t3Ops), ("quantum_ms", b.quantum)].filterMap
        (fun (k, v) => match v with | none => none | some i => some (k, jInt i)))

def handleYield (j : Json) : R Json := do
  let b ← budgetsOf (← fld j "budgets")
  let c ← consumedOf (← fld j "consumed")
  pure (jYReason (shouldYield b c))

/-- Lean monitor: the implementation's answer satisfies the precedence table. -/
def handleYieldSpec (j : Json) : R Json := do
  let b ← budgetsOf (← fld j "budgets")
  let c ← consumedOf (← fld j "consumed")
  let r ← yReasonOf (← fld j "r")
  pure (jBool (yieldSpecB b c r))

def handleDerive (j : Json) : R Json := do
  let g (k : String) : R CfgVal := cfgOf (fldD j k Json.null)
  match deriveBudgets (← g "t1_pops") (← g "t1_iters") (← g "t2_k") (← g "t3_ops") (← g "wall_ms")
          (← cfgOf (fldD j "quantum_ms" Json.null)) with
  | .error _ => pure (jObj [("raised", jBool true)])
  | .ok b => pure (jObj [("budgets", jBudgets b)])

def stageOf (s : String) : R Stage :=
  match s with
  | "T1" => pure .T1 | "T2" => pure .T2 | "T3" => pure .T3 | "T4" => pure .T4 | "Apply" => pure .Apply
  | _ => throw s!"bad stage {s}"

/-- Lean monitor: the turn's yield (stage, reason) — or none — is what the skeleton prescribes. -/
def handleSkeleton (j : Json) : R Json := do
  let b ← budgetsOf (← fld j "budgets")
  let bs ← fldArr j "boundaries"
  let mut l : List (Stage × Consumed) := []
  for x in bs do
    let a ← x.getArr?
    l := l ++ [(← stageOf (← strAt a 0), ← consumedOf (← arrAt a 1))]
  let got : Option (Stage × YReason) ← (match fldD j "got" Json.null with
    | Json.null => pure none
    | g => do
      let a ← g.getArr?
      match ← yReasonOf (← arrAt a 1) with
      | some r => pure (some (← stageOf (← strAt a 0), r))
      | none => throw "yield without reason")
  pure (jBool (decide (firstYield b l = got)))

def routes : List (String × (Json → R Json)) :=
  [("sched.hist", handleHist), ("sched.pick", handlePick), ("sched.gaps", handleGaps),
   ("sched.consec", handleConsec), ("sched.exhaust", handleExhaust),
   ("yield.decide", handleYield), ("yield.spec", handleYieldSpec), ("yield.derive", handleDerive), ("turn.skeleton", handleSkeleton)]

end Driver.HSched
