import Driver.Util
import Clem.Model.DetLru

open Lean Clem.DetLru

namespace Driver.HDetLru

def jNats (l : List Nat) : Json := jArr (l.map jNat)
def jPair (p : Nat × Nat) : Json := jArr [jNat p.1, jNat p.2]

def natList (a : Array Json) : R (List Nat) := do
  let mut out : List Nat := []
  for x in a do
    out := out ++ [← x.getNat?]
  pure out

/-! LSet -/

def obsS (s : LSet) : Json :=
  jObj [("q", jNats s.q), ("n", jNat s.size), ("inv", jBool s.invB)]

def stepS (s : LSet) (op : Json) : R (LSet × Json) := do
  let a ← op.getArr?
  match (← strAt a 0) with
  | "add" =>
    let r := s.add (← natAt a 1)
    pure (r.1, jObj [("r", jBool r.2), ("s", obsS r.1)])
  | "contains" => pure (s, jObj [("r", jBool (s.contains (← natAt a 1))), ("s", obsS s)])
  | "clear" => pure (s.clear, jObj [("r", Json.null), ("s", obsS s.clear)])
  | t => throw s!"bad op {t}"

def handleS (j : Json) : R Json := do
  let mut s := LSet.init (← fldInt j "cap")
  let mut out : Array Json := #[]
  for op in (← fldArr j "ops") do
    let (s', o) ← stepS s op
    s := s'
    out := out.push o
  pure (Json.arr out)

def handleSInv (j : Json) : R Json := do
  let s : LSet := ⟨(← fldInt j "cap").toNat, ← natList (← fldArr j "q")⟩
  pure (jBool s.invB)

/-! LMap -/

def obsM (s : LMap) : Json :=
  jObj [("items", jArr (s.itemsOf.map jPair)), ("q", jNats (s.items.map (·.1))), ("n", jNat s.len),
        ("inv", jBool s.invB)]

def jOptPair : Option (Nat × Nat) → Json
  | none => Json.null
  | some p => jPair p

def stepM (s : LMap) (op : Json) : R (LMap × Json) := do
  let a ← op.getArr?
  match (← strAt a 0) with
  | "get" =>
    let r := s.get (← natAt a 1)
    pure (r.1, jObj [("r", jOptNat r.2), ("ev", jArr []), ("s", obsM r.1)])
  | "put" =>
    let r := s.put (← natAt a 1) (← natAt a 2)
    pure (r.1, jObj [("r", jOptPair r.2.getLast?), ("ev", jArr (r.2.map jPair)), ("s", obsM r.1)])
  | "pop_lru" =>
    let r := s.popLru
    pure (r.1, jObj [("r", jOptPair r.2), ("ev", jArr (r.2.toList.map jPair)), ("s", obsM r.1)])
  | "contains" =>
    pure (s, jObj [("r", jBool (s.contains (← natAt a 1))), ("ev", jArr []), ("s", obsM s)])
  | "clear" => pure (s.clear, jObj [("r", Json.null), ("ev", jArr []), ("s", obsM s.clear)])
  | t => throw s!"bad op {t}"

def handleM (j : Json) : R Json := do
  let mut s := LMap.init (← fldInt j "cap") (← fldBool j "uog") (← fldBool j "uop")
  let mut out : Array Json := #[]
  for op in (← fldArr j "ops") do
    let (s', o) ← stepM s op
    s := s'
    out := out.push o
  pure (Json.arr out)

def handleMInv (j : Json) : R Json := do
  let mut items : List (Nat × Nat) := []
  for it in (← fldArr j "items") do
    let a ← it.getArr?
    items := items ++ [(← natAt a 0, ← natAt a 1)]
  let s : LMap := ⟨(← fldInt j "cap").toNat, true, true, items⟩
  pure (jBool s.invB)

/-! Ring -/

def obsR (nk : Nat) (s : Ring) : Json :=
  jObj [("q", jNats s.q), ("n", jNat s.q.length),
        ("ref", jNats ((List.range nk).map (fun x => s.ref.count x))),
        ("has", jArr ((List.range nk).map (fun x => jBool (s.contains x)))),
        ("inv", jBool s.invB)]

def stepR (nk : Nat) (s : Ring) (op : Json) : R (Ring × Json) := do
  let a ← op.getArr?
  match (← strAt a 0) with
  | "add" =>
    let s' := s.add (← natAt a 1)
    pure (s', jObj [("s", obsR nk s')])
  | "extend" =>
    let s' := s.extend (← natList (← (← arrAt a 1).getArr?))
    pure (s', jObj [("s", obsR nk s')])
  | "discard" =>
    let s' := s.discard (← natAt a 1)
    pure (s', jObj [("s", obsR nk s')])
  | "clear" => pure (s.clear, jObj [("s", obsR nk s.clear)])
  | t => throw s!"bad op {t}"

def handleR (j : Json) : R Json := do
  let nk ← fldNat j "nk"
  let mut s := Ring.init (← fldInt j "k")
  let mut out : Array Json := #[]
  for op in (← fldArr j "ops") do
    let (s', o) ← stepR nk s op
    s := s'
    out := out.push o
  pure (Json.arr out)

/-- `ref` arrives as per-key counts `[c₀, c₁, …]` and is expanded to a bag. -/
def handleRInv (j : Json) : R Json := do
  let counts ← natList (← fldArr j "ref")
  let ref := (List.range counts.length).flatMap (fun x => List.replicate (counts.getD x 0) x)
  let s : Ring := ⟨(← fldInt j "k").toNat, ← natList (← fldArr j "q"), ref⟩
  pure (jBool s.invB)

def routes : List (String × (Json → R Json)) :=
  [("lset", handleS), ("lset.inv", handleSInv), ("lmap", handleM), ("lmap.inv", handleMInv),
   ("ring", handleR), ("ring.inv", handleRInv)]

end Driver.HDetLru
