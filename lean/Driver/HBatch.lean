import Driver.Util
import Driver.HLogs
import Clem.Model.Batch

open Lean

namespace Driver.HBatch
open Clem.LogJson Clem.LogStager Clem.Batch Driver.HLogs

def decStrList (j : Json) : R (List Str) := do
  (← j.getArr?).toList.mapM (fun x => do pure (cps (← x.getStr?)))

def decOptStrList (j : Json) : R (Option (List Str)) :=
  match j with
  | Json.null => pure none
  | x => do pure (some (← decStrList x))

/-- `agents`: `[[aid, graphs|null], …]` (`state.agents[aid].graphs`), `gba`: `[[aid, graphs], …]`
(`state.graphs_by_agent[aid] or []`) → the resolver. -/
def decGs (j : Json) : R (Str → List Str) := do
  let ag ← (← fldArr j "agents").toList.mapM (fun e => do
    let p ← e.getArr?
    pure (cps (← strAt p 0), ← decOptStrList (← arrAt p 1)))
  let gba ← (← fldArr j "gba").toList.mapM (fun e => do
    let p ← e.getArr?
    pure (cps (← strAt p 0), ← decStrList (← arrAt p 1)))
  pure (fun a => resolveGraphs ((ag.lookup a).bind id) (gba.lookup a))

def jStrs (l : List Str) : Json := jArr (l.map (fun s => jStr (ofCps s)))

def handleSelect (j : Json) : R Json := do
  let gs ← decGs j
  let ids ← decStrList (← fld j "ids")
  let mw ← fldInt j "mw"
  pure (jObj [("picked", jStrs (selectIndependent gs mw ids)),
              ("graphs", jArr (ids.map (fun a => jStrs (gs a))))])

/-- monitor: the selection clauses on an observed `picked`. -/
def handleSelectMon (j : Json) : R Json := do
  let gs ← decGs j
  let ids ← decStrList (← fld j "ids")
  let mw ← fldInt j "mw"
  let picked ← decStrList (← fld j "picked")
  pure (jBool (selectOkB gs mw ids picked))

def decPairs (j : Json) : R (List (Str × Int)) := do
  (← j.getArr?).toList.mapM (fun e => do
    let p ← e.getArr?
    pure (cps (← strAt p 0), ← intAt p 1))

def decScript (j : Json) : R Script := do
  let logs ← (← fldArr j "logs").toList.mapM (fun e => do
    let p ← e.getArr?
    pure (cps (← strAt p 0), ← decRec (← arrAt p 1)))
  pure ⟨← decV (← fld j "agentV"), ← decV (← fld j "turnV"), ← fldInt j "turn", ← fldInt j "slice",
        ← decStrList (← fld j "reads"), logs, ← decPairs (← fld j "deltas"), cps (← fldStr j "line")⟩

def decWorld (j : Json) : R World := do
  pure ⟨← decPairs (← fld j "graphs"), ← fldNat j "version"⟩

def encWorld (w : World) : Json :=
  jObj [("graphs", jArr (w.graphs.map (fun e => jArr [jStr (ofCps e.1), jInt e.2]))), ("version", jNat w.version)]

def encOut (o : Out World) : Json :=
  jObj [("ok", jBool o.ok), ("state", encWorld o.state),
        ("lines", jArr (o.lines.map (fun l => jArr [jStr (ofCps l.1), jInt l.2]))),
        ("written", jArr (o.written.map (fun l => jArr [jStr (ofCps l.1), encRec l.2])))]

def decTasks (j : Json) : R (List (Str × Str)) := do
  (← j.getArr?).toList.mapM (fun e => do
    let p ← e.getArr?
    pure (cps (← strAt p 0), cps (← strAt p 1)))

/-- the whole driver on the scripted world. -/
def handleBatch (j : Json) : R Json := do
  let ci := ciOn (← fldCps j "ci_env")
  let limit ← fldInt j "limit"
  let gs ← decGs j
  let enabled ← fldBool j "enabled"
  let agents ← fldBool j "agents_flag"
  let mw ← fldInt j "mw"
  let T ← fldInt j "turn"
  let S ← fldInt j "slice"
  let w ← decWorld (← fld j "world")
  let tasks ← decTasks (← fld j "tasks")
  let scripts ← (← fldArr j "scripts").toList.mapM (fun e => do
    pure ((cps (← fldStr e "agent"), cps (← fldStr e "text")), ← decScript e))
  let P := worldParams T S scripts
  let o := runDriver ci limit P gs enabled agents mw w tasks
  let comp := if parallelOn enabled agents mw then computed gs mw tasks else tasks
  let used := scripts.filter (fun e => comp.contains e.1)
  let contract := scriptsOkB gs T S used && pairwiseDisjointB gs (comp.map (·.1))
  let q := seqRun ci P w comp
  let encDs := fun (ds : List (Str × Int)) => jArr (ds.map (fun d => jArr [jStr (ofCps d.1), jInt d.2]))
  let applied := if parallelOn enabled agents mw
    then jArr ((runParApplied ci limit P gs mw w tasks).map encDs) else Json.null
  pure (jObj [("out", encOut o), ("applied", applied), ("parallel", jBool (parallelOn enabled agents mw)),
              ("computed", jArr (comp.map (fun t => jArr [jStr (ofCps t.1), jStr (ofCps t.2)]))),
              ("contract", jBool contract), ("seq", encOut q)])

def decOut (j : Json) : R (Out World) := do
  let lines ← (← fldArr j "lines").toList.mapM (fun e => do
    let p ← e.getArr?
    pure (cps (← strAt p 0), ← intAt p 1))
  let written ← (← fldArr j "written").toList.mapM (fun e => do
    let p ← e.getArr?
    pure (cps (← strAt p 0), ← decRec (← arrAt p 1)))
  pure ⟨← fldBool j "ok", ← decWorld (← fld j "state"), lines, written⟩

/-- monitor: the conclusion of `C10_batch_eq_seq_contract` on two observed outcomes. -/
def handleSame (j : Json) : R Json := do
  let a ← decOut (← fld j "a")
  let b ← decOut (← fld j "b")
  let paths ← decStrList (← fld j "paths")
  pure (jBool (sameOutcomeB paths a b))

def routes : List (String × (Json → R Json)) :=
  [("c10.select", handleSelect), ("c10.select.mon", handleSelectMon),
   ("c10.batch", handleBatch), ("c10.same", handleSame)]

end Driver.HBatch
