import Driver.Util
import Clem.Model.Gel

open Lean Clem.Gel Clem.Py

namespace Driver.HGel

def toStr (s : String) : Str := s.toList.map Char.toNat
def ofStr (l : Str) : String := String.ofList (l.map Char.ofNat)
def jS (l : Str) : Json := Json.str (ofStr l)

def fldS (j : Json) (k : String) : R Str := do pure (toStr (← fldStr j k))
def strList (j : Json) : R (List Str) := do
  let a ← j.getArr?
  a.toList.mapM (fun x => do pure (toStr (← x.getStr?)))
def fldSL (j : Json) (k : String) : R (List Str) := do strList (← fld j k)

def optInt (j : Json) : R (Option Int) :=
  match j with
  | Json.null => pure none
  | _ => do pure (some (← j.getInt?))

def cfgOf (j : Json) : R (Cfg Float) := do
  pure { enabled := ← fldBool j "enabled", threshold := ← fldFloat j "threshold",
         topK := ← fldInt j "topK", pairCap := ← fldInt j "pairCap",
         proportional := ← fldBool j "proportional", alpha := ← fldFloat j "alpha",
         cmin := ← fldFloat j "cmin", cmax := ← fldFloat j "cmax", hl := ← fldFloat j "hl",
         floor := ← fldFloat j "floor", concatK := ← fldBool j "concatK",
         topkLabel := ← fldInt j "topkLabel", attachW := ← fldFloat j "attachW" }

def jLst : Lst → Json
  | .absent => Json.str "absent"
  | .null => Json.null
  | .at t => jInt t

def lstOf (j : Json) : R Lst :=
  match j with
  | Json.null => pure .null
  | Json.str _ => pure .absent
  | _ => do pure (.at (← j.getInt?))

def jEdge (e : Edge Float) : Json :=
  jObj [("k", jS e.key), ("src", jS e.src), ("dst", jS e.dst), ("w", jFloatBits e.w),
        ("concept", jBool e.concept), ("coact", jOptNat e.coact), ("lst", jLst e.lst)]

def edgeOf (j : Json) : R (Edge Float) := do
  let co ← match (← fld j "coact") with
    | Json.null => pure none
    | x => do pure (some (← x.getNat?))
  pure { key := ← fldS j "k", src := ← fldS j "src", dst := ← fldS j "dst", w := ← fldFloat j "w",
         concept := ← fldBool j "concept", coact := co, lst := ← lstOf (← fld j "lst") }

def edgesOfJ (j : Json) : R (List (Edge Float)) := do
  let a ← j.getArr?
  a.toList.mapM edgeOf

def jMerge (r : MergeRec Float) : Json :=
  jObj [("nodes", jArr (r.nodes.map jS)), ("size", jInt r.size), ("avg_w", jFloatBits r.avgW),
        ("diameter", jInt r.diameter), ("sig", jS r.sig)]

def mergeOf (j : Json) : R (MergeRec Float) := do
  pure ⟨← fldSL j "nodes", ← fldInt j "size", ← fldFloat j "avg_w", ← fldInt j "diameter", ← fldS j "sig"⟩

def jSplit (r : SplitRec) : Json :=
  jObj [("original", jArr (r.original.map jS)), ("parts", jArr (r.parts.map (fun p => jArr (p.map jS)))),
        ("removed", jInt r.removed), ("orig", jInt r.orig), ("sig", jS r.sig)]

def splitOf (j : Json) : R SplitRec := do
  let ps ← (← fldArr j "parts").toList.mapM strList
  pure ⟨← fldSL j "original", ps, ← fldInt j "removed", ← fldInt j "orig", ← fldS j "sig"⟩

def jPromo (p : Promo Float) : Json :=
  jObj [("cid", jS p.cid), ("label", jS p.label), ("members", jArr (p.members.map jS)),
        ("w", jFloatBits p.w)]

def promoOfJ (j : Json) : R (Promo Float) := do
  pure ⟨← fldS j "cid", ← fldS j "label", ← fldSL j "members", ← fldFloat j "w"⟩

def jState : State Float → Json
  | none => Json.null
  | some g =>
    jObj [("nodes", jArr (g.nodes.map (fun n => jArr [jS n.id, jS n.label]))),
          ("edges", jArr (g.edges.map jEdge)),
          ("merges", jArr (g.merges.map jMerge)),
          ("splits", jArr (g.splits.map jSplit)),
          ("cc", jNat g.conceptCount), ("ec", jOptNat g.edgesCount)]

def itemsOf (j : Json) : R (List (Str × Float)) := do
  let a ← j.getArr?
  a.toList.mapM (fun x => do
    let p ← x.getArr?
    pure (toStr (← strAt p 0), ← floatAt p 1))

def pw : Float → Float → Float := Float.pow

def stepJ (c : Cfg Float) (s : State Float) (op : Json) : R (State Float × Json) := do
  let a ← op.getArr?
  let tag ← strAt a 0
  match tag with
  | "gate" => pure (s, Json.null)
  | "cfg" => pure (s, Json.null)
  -- candidate passes are oracles: they must not touch the store
  | "noop" => pure (s, Json.null)
  -- a candidate pass on an enabled graph goes through `_ensure_graph_store` (creates the empty store when absent)
  | "cand" => pure (if c.enabled then some (ensure s) else s, Json.null)
  | "candpromote" =>
    let cl ← (← (← arrAt a 1).getArr?).toList.mapM strList
    let ps := promoteClusters c cl
    pure (ps.foldl (applyPromotion c) (if c.enabled then some (ensure s) else s), jArr (ps.map jPromo))
  -- a store as a loaded snapshot would install it (edges only; `_ensure_graph_store` fills the rest)
  | "seed" =>
    let es ← edgesOfJ (← arrAt a 1)
    pure (some { (emptyStore : Store Float) with edges := es }, Json.null)
  -- candidate pass + apply: the candidates (oracle) are applied in order
  | "merges" =>
    let rs ← (← (← arrAt a 1).getArr?).toList.mapM mergeOf
    pure (rs.foldl (applyMerge c) (if c.enabled then some (ensure s) else s), Json.null)
  | "splits" =>
    let rs ← (← (← arrAt a 1).getArr?).toList.mapM splitOf
    pure (rs.foldl (applySplit c) (if c.enabled then some (ensure s) else s), Json.null)
  | "obs" =>
    let r := observe c s (← itemsOf (← arrAt a 1)) (← optInt (← arrAt a 2))
    pure (r.1, jObj [("k_in", jNat r.2.kIn), ("k_used", jNat r.2.kUsed), ("pairs_updated", jNat r.2.pairsUpdated)])
  | "tick" =>
    let r := tick c pw s (← intAt a 1) (← optInt (← arrAt a 2))
    pure (r.1, jObj [("decayed", jNat r.2.decayed), ("dropped", jNat r.2.dropped)])
  | "merge" =>
    let r ← mergeOf (← arrAt a 1)
    pure (applyMerge c s r, Json.null)
  | "split" =>
    let r ← splitOf (← arrAt a 1)
    pure (applySplit c s r, Json.null)
  | "pc" =>
    let cl ← (← (← arrAt a 1).getArr?).toList.mapM strList
    pure (s, jArr ((promoteClusters c cl).map jPromo))
  | "ap" =>
    let p ← promoOfJ (← arrAt a 1)
    pure (applyPromotion c s p, Json.null)
  | "promote" =>
    let cl ← (← (← arrAt a 1).getArr?).toList.mapM strList
    let ps := promoteClusters c cl
    pure (ps.foldl (applyPromotion c) s, jArr (ps.map jPromo))
  | _ => throw s!"bad op {tag}"

def handle (j : Json) : R Json := do
  let c0 ← cfgOf (← fld j "cfg")
  let ops ← fldArr j "ops"
  let mut c := c0
  let mut s : State Float := none
  let mut out : Array Json := #[]
  for op in ops do
    -- ["gate", b]: graph.enabled is switched for the following operations
    if let some (Json.str "gate") := (op.getArrVal? 0).toOption then
      c := { c with enabled := ← (← op.getArrVal? 1).getBool? }
    -- ["cfg", {...}]: the settings object was edited in place; these are the current values
    if let some (Json.str "cfg") := (op.getArrVal? 0).toOption then
      c ← cfgOf (← op.getArrVal? 1)
    let (s', o) ← stepJ c s op
    s := s'
    out := out.push (jObj [("r", o), ("s", jState s')])
  pure (Json.arr out)

/-- bit-level record equality (so that a NaN weight equals itself) -/
def sameEdge (a b : Edge Float) : Bool :=
  a.key == b.key && a.src == b.src && a.dst == b.dst && a.w.toBits == b.w.toBits &&
  a.concept == b.concept && a.coact == b.coact && decide (a.lst = b.lst)

def firstFail (l : List Bool) : Json :=
  match l.findIdx? (fun b => !b) with
  | none => jBool true
  | some i => jObj [("failed_at", jNat i)]

/-- Monitors evaluated on *implementation* states. -/
def handleMon (j : Json) : R Json := do
  let kind ← fldStr j "kind"
  let c ← cfgOf (← fld j "cfg")
  match kind with
  | "bounded" =>
    let sts ← (← fldArr j "states").toList.mapM edgesOfJ
    pure (firstFail (sts.map (boundedB c)))
  | "bounded_coact" =>
    let sts ← (← fldArr j "states").toList.mapM edgesOfJ
    pure (firstFail (sts.map (boundedCoactB c)))
  | "canon" =>
    let sts ← (← fldArr j "states").toList.mapM edgesOfJ
    pure (firstFail (sts.map canonB))
  | "tick" =>
    let steps ← (← fldArr j "steps").toList.mapM (fun st => do
      let pre ← edgesOfJ (← fld st "pre")
      let post ← edgesOfJ (← fld st "post")
      let f := decayFactor c pw (← fldInt st "dt")
      pure (tickSpecB f c.floor pre post ⟨← fldNat st "decayed", ← fldNat st "dropped"⟩))
    pure (firstFail steps)
  | "obs" =>
    let steps ← (← fldArr j "steps").toList.mapM (fun st => do
      let pre ← edgesOfJ (← fld st "pre")
      let post ← edgesOfJ (← fld st "post")
      let items ← itemsOf (← fld st "items")
      pure (obsSpecB sameEdge c items pre post
              ⟨← fldNat st "k_in", ← fldNat st "k_used", ← fldNat st "pairs_updated"⟩))
    pure (firstFail steps)
  | "obstop" =>
    let steps ← (← fldArr j "steps").toList.mapM (fun st => do
      let pre ← edgesOfJ (← fld st "pre")
      let post ← edgesOfJ (← fld st "post")
      let items ← itemsOf (← fld st "items")
      pure (obsTopB sameEdge c items pre post))
    pure (firstFail steps)
  | _ => throw s!"bad monitor kind {kind}"

def routes : List (String × (Json → R Json)) :=
  [("gel", handle), ("gel.mon", handleMon)]

end Driver.HGel
