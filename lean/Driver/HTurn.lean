import Driver.Util
import Clem.Model.Turn

open Lean Clem.Turn

namespace Driver.HTurn

/-- `{"err": n}` → failure; anything else is decoded by `f` -/
def exc (j : Json) (f : Json → R α) : R (Except Exc α) := do
  match j.getObjVal? "err" with
  | .ok x => pure (.error (← x.getNat?))
  | .error _ => pure (.ok (← f j))

def optInt (j : Json) (k : String) : Option Int :=
  match j.getObjVal? k with
  | .ok v => (v.getInt?).toOption
  | .error _ => none

def natD (j : Json) (k : String) (d : Nat) : Nat :=
  match j.getObjVal? k with
  | .ok v => (v.getNat?).toOption.getD d
  | .error _ => d

def boolD (j : Json) (k : String) (d : Bool) : Bool :=
  match j.getObjVal? k with
  | .ok v => (v.getBool?).toOption.getD d
  | .error _ => d

def verOf (j : Json) : Ver :=
  match j with
  | .null => .none
  | .str _ => .junk
  | v => match v.getInt? with
    | .ok n => .num n
    | .error _ => .junk

def jVer : Ver → Json
  | .none => Json.null
  | .num n => jInt n
  | .junk => jStr "junk"

def unitOf (_ : Json) : R Unit := pure ()
def okNat (j : Json) : R Nat := pure (natD j "ok" 0)
def optTok (j : Json) : R (Option Nat) :=
  match j.getObjVal? "ok" with
  | .ok v => pure (v.getNat?).toOption
  | .error _ => pure none

def t1Of (j : Json) : R T1Out := pure ⟨natD j "tok" 0, optInt j "pops", optInt j "iters", optInt j "graphs"⟩
def t2Of (j : Json) : R T2Out := pure ⟨natD j "tok" 0, optInt j "kRet", optInt j "kUsed", natD j "n" 0⟩
def planOf (j : Json) : R Plan :=
  pure ⟨natD j "tok" 0, natD j "nOps" 0, boolD j "wantsRetrieve" false, boolD j "reflection" false⟩
def t4Of (j : Json) : R T4Out := do
  let a := (fldD j "approved" (Json.arr #[])).getArr?.toOption.getD #[]
  pure ⟨natD j "tok" 0, a.toList.map (fun x => (x.getNat?).toOption.getD 0), natD j "rejected" 0⟩
def pairOf (j : Json) : R (Int × Int) := do
  let a ← fldArr j "ok"
  pure (← intAt a 0, ← intAt a 1)

/-- `{"at": i, "exc": n}` → fails at index i -/
def failAt (j : Json) : Nat → Except Exc Unit :=
  match j.getObjVal? "at" with
  | .ok v =>
    let i := (v.getNat?).toOption.getD 0
    let x := natD j "exc" 0
    let all := boolD j "from" false
    fun k => if k = i || (all && i ≤ k) then .error x else .ok ()
  | .error _ => fun _ => .ok ()

def envOf (j : Json) : R Env := do
  let g (k : String) : Json := fldD j k (Json.mkObj [])
  let one := g "storeOne"
  let oneErr := fldD one "errs" (Json.mkObj [])
  let oneDefault : Int × Int := match pairOf one with | .ok p => p | .error _ => (1, 0)
  let rag := g "rag"
  let ragE ← exc rag planOf
  let ragIdentity := (rag.getObjVal? "tok").toOption.isNone && (rag.getObjVal? "err").toOption.isNone
  let speak ← exc (g "speak") optTok
  let t1 ← exc (g "t1") t1Of
  let t2 ← exc (g "t2") t2Of
  let delib ← exc (g "deliberate") planOf
  let t4 ← exc (g "t4") t4Of
  let sbErr : Option Nat := match (g "storeBatch").getObjVal? "err" with | .ok x => (x.getNat?).toOption | .error _ => none
  let sb : List Nat → Except Exc (Int × Int) := fun ds =>
    match sbErr with
    | some n => .error n
    | none => .ok ((ds.length : Int) * oneDefault.1, (ds.length : Int) * oneDefault.2)
  let yj := g "yieldAt"
  pure {
    bootLoad := ← exc (g "bootLoad") (fun b => pure (match b.getObjVal? "ver" with | .ok v => some (verOf v) | .error _ => none))
    t1 := fun _ => t1
    t2 := fun _ => t2
    gelObserve := ← exc (g "gelObserve") okNat
    deliberate := fun _ => delib
    rag := fun _ p => if ragIdentity then .ok p else ragE
    t3Trace := ← exc (g "t3Trace") unitOf
    adapterBuild := ← exc (g "adapterBuild") (fun b => pure (boolD b "ok" false))
    speak := fun _ _ => speak
    dialogue := fun _ => speak
    t4 := fun _ _ _ => t4
    gelTick := ← exc (g "gelTick") okNat
    mergeCand := ← exc (g "mergeCand") okNat
    applyMerge := failAt (g "applyMerge")
    splitCand := ← exc (g "splitCand") okNat
    applySplit := failAt (g "applySplit")
    promote := ← exc (g "promote") okNat
    applyPromo := failAt (g "applyPromo")
    storeBatch := sb
    storeOne := fun d =>
      match oneErr.getObjVal? (toString d) with
      | .ok v => .error ((v.getNat?).toOption.getD 0)
      | .error _ => .ok oneDefault
    invalidate := failAt (g "invalidate")
    snapBody := ← exc (g "snapBody") unitOf
    sidecar := ← exc (g "sidecar") unitOf
    reflectRun := match (g "reflectRun").getObjVal? "err" with | .ok v => (v.getNat?).toOption | .error _ => none
    reflect := ← exc (g "reflect") (fun r => pure ⟨natD r "entries" 0, natD r "summaryLen" 0⟩)
    reflectWrite := ← exc (g "reflectWrite") okNat
    reflectLog := ← exc (g "reflectLog") unitOf
    health := ← exc (g "health") unitOf
    yieldAt := fun p t1 t2 plan =>
      if boolD yj "wall0" false then some 1 else
      match p with
      | .T1 => if (optInt yj "t1_iters").isSome && optInt yj "t1_iters" == t1.iters then some 2
               else if (optInt yj "t1_pops").isSome && optInt yj "t1_pops" == t1.pops then some 3 else none
      | .T2 => if (optInt yj "t2_k").isSome && optInt yj "t2_k" == t2.kUsed then some 4 else none
      | .T3 => if (optInt yj "t3_ops").isSome && optInt yj "t3_ops" == some (plan.nOps : Int) then some 5 else none
      | _ => none }

def cfgOf (j : Json) : R Cfg := do
  let sk := match (fldD j "storeKind" (Json.str "ok")).getStr? with
    | .ok "none" => StoreKind.none
    | .ok "noFn" => StoreKind.noFn
    | _ => StoreKind.ok
  pure {
    dryRun := boolD j "dryRun" false, schedEnabled := boolD j "schedEnabled" false,
    cacheEnabled := boolD j "cacheEnabled" true, graphEnabled := boolD j "graphEnabled" false,
    t3Enabled := boolD j "t3Enabled" true, t4Enabled := boolD j "t4Enabled" true,
    doMerge := boolD j "doMerge" false, doSplit := boolD j "doSplit" false, doPromo := boolD j "doPromo" false,
    capMerge := natD j "capMerge" 4, capSplit := natD j "capSplit" 4, capPromo := natD j "capPromo" 2,
    ragAllowed := boolD j "ragAllowed" true, backendLlm := boolD j "backendLlm" false,
    dialoguePatched := boolD j "dialoguePatched" false, allowReflection := boolD j "allowReflection" false,
    bustOnApply := boolD j "bustOnApply" false, namespaces := natD j "namespaces" 1,
    snapshotDue := boolD j "snapshotDue" true, storeKind := sk, textId := natD j "textId" 0,
    inputBlank := boolD j "inputBlank" false }

def stOf (j : Json) : R St := do
  let cache : Option (List ((Ver × Nat) × T2Out)) ←
    match j.getObjVal? "cache" with
    | .ok (.arr a) => do
      let mut l : List ((Ver × Nat) × T2Out) := []
      for it in a do
        let t ← t2Of (fldD it "t2" (Json.mkObj []))
        l := l ++ [((verOf (fldD it "ver" Json.null), natD it "text" 0), t)]
      pure (some l)
    | _ => pure none
  pure ⟨verOf (fldD j "ver" Json.null), boolD j "bootLoaded" false, cache, boolD j "adapter" false,
        natD j "mem" 0, boolD j "plannerFlag" false⟩

def siteName (s : Site) : String := (reprStr s).replace "Clem.Turn.Site." ""

def jVal : Val → Json
  | .i n => jInt n
  | .n k => jNat k
  | .b v => jBool v
  | .none => Json.null
  | .ver v => jVer v

def jRec (r : Rec) : Json :=
  jArr [jStr ((reprStr r.stream).replace "Clem.Turn.Stream." ""),
        jObj (r.fields.map (fun (k, v) => ((reprStr k).replace "Clem.Turn.Key." "", jVal v)))]

def jLine : Line → Json
  | .empty => jStr "empty"
  | .utter u => jObj [("utter", jNat u)]
  | .input => jStr "input"
  | .ellipsis => jStr "ellipsis"

def jT2 (o : T2Out) : Json := jObj [("tok", jNat o.tok), ("n", jNat o.nRetrieved)]

def jSt (s : St) : Json :=
  jObj [("ver", jVer s.ver), ("bootLoaded", jBool s.bootLoaded),
        ("cache", match s.cache with
          | some l => jArr (l.map (fun ((v, t), o) => jObj [("ver", jVer v), ("text", jNat t), ("t2", jT2 o)]))
          | none => Json.null),
        ("adapter", jBool s.adapter), ("mem", jNat s.mem)]

def jOut (r : Except Exc Emit) : Json :=
  match r with
  | .error x => jObj [("raised", jNat x)]
  | .ok em => jObj [("line", match em.done with | some l => jLine l | none => Json.null),
                    ("logs", jArr (em.logs.map jRec)), ("calls", jArr (em.calls.map (fun s => jStr (siteName s)))),
                    ("state", jSt em.core.st)]

/-- guard function: the generated table, optionally overridden (`"guard": {"gelTick": true}`) -/
def guardWith (j : Json) : Site → Bool := fun s =>
  match j.getObjVal? (siteName s) with
  | .ok (.bool b) => b
  | _ => guardOf s

/-- run one modelled turn; also report the fail-soft monitors for this script -/
def handle (j : Json) : R Json := do
  let c ← cfgOf (fldD j "cfg" (Json.mkObj []))
  let e ← envOf (fldD j "env" (Json.mkObj []))
  let st ← stOf (fldD j "st" (Json.mkObj []))
  let g := guardWith (fldD j "guard" (Json.mkObj []))
  let r := runTurn g c e st
  let S : Site → Bool := fun s => decide (s ∈ declared)
  let ri := runTurn g c (idle S e) st
  pure (jObj [("out", jOut r), ("completes", jBool (isOk r)), ("idle_same", jBool (sameCanon r ri)),
              ("idle_out", jOut ri)])

/-- a turn sequence on one world: the state is threaded; stops after the first turn that raises -/
def handleSeq (j : Json) : R Json := do
  let mut st ← stOf (fldD j "st" (Json.mkObj []))
  let g := guardWith (fldD j "guard" (Json.mkObj []))
  let S : Site → Bool := fun s => decide (s ∈ declared)
  let mut outs : Array Json := #[]
  let mut go := true
  for tj in (← fldArr j "turns") do
    if go then
      let c ← cfgOf (fldD tj "cfg" (Json.mkObj []))
      let e ← envOf (fldD tj "env" (Json.mkObj []))
      let r := runTurn g c e st
      outs := outs.push (jObj [("out", jOut r), ("idle_same", jBool (sameCanon r (runTurn g c (idle S e) st)))])
      match r with
      | .ok em => st := em.core.st
      | .error _ => go := false
  pure (Json.arr outs)

def handleGuards (_ : Json) : R Json :=
  let all : List Site := [.bootLoad, .t1, .t2, .gelObserve, .deliberate, .rag, .t3Trace, .adapterBuild, .speak, .t4,
    .gelTick, .gelMergeCand, .gelApplyMerge, .gelSplitCand, .gelApplySplit, .gelPromote, .gelApplyPromo,
    .storeBatch, .storeOne, .cacheInvalidate, .snapshotBody, .sidecarWrite,
    .reflectRun, .reflectCompute, .reflectWrite, .reflectLog, .health]
  pure (jObj [("guards", jObj (all.map (fun s => (siteName s, jBool (guardOf s))))),
              ("declared", jArr (declared.map (fun s => jStr (siteName s))))])

def routes : List (String × (Json → R Json)) :=
  [("turn", handle), ("turn.seq", handleSeq), ("turn.guards", handleGuards)]

end Driver.HTurn
