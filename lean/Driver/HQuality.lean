import Driver.Util
import Clem.Model.Quality

open Lean Clem.Quality

namespace Driver.HQuality

def natList (j : Json) : List Nat :=
  match j.getArr? with
  | .ok a => a.toList.map (fun x => (x.getNat?).toOption.getD 0)
  | .error _ => []

def errOf (j : Json) : Option Nat :=
  match j.getObjVal? "err" with
  | .ok x => (x.getNat?).toOption
  | .error _ => none

def listOracle (j : Json) : List Nat → Except Exc (List Nat) := fun _ =>
  match errOf j with
  | some x => .error x
  | none => .ok (natList (fldD j "ok" (Json.arr #[])))

def unitOracle (j : Json) : Except Exc Unit :=
  match errOf j with
  | some x => .error x
  | none => .ok ()

def boolD (j : Json) (k : String) (d : Bool) : Bool :=
  match j.getObjVal? k with
  | .ok v => (v.getBool?).toOption.getD d
  | .error _ => d

def siteName (s : QSite) : String := (reprStr s).replace "Clem.Quality.QSite." ""

def handle (j : Json) : R Json := do
  let cj := fldD j "cfg" (Json.mkObj [])
  let ej := fldD j "env" (Json.mkObj [])
  let gj := fldD j "guard" (Json.mkObj [])
  let g : QSite → Bool := fun s =>
    match gj.getObjVal? (siteName s) with
    | .ok (.bool b) => b
    | _ => qGuardOf s
  let sub (k : String) : Json := fldD ej k (Json.mkObj [])
  let rr := sub "rerank"
  let e : QEnv := {
    rerank := fun _ => match errOf rr with
      | some x => .error x
      | none => .ok (natList (fldD rr "ok" (Json.arr #[])), boolD rr "used" false)
    fuse := listOracle (sub "fuse")
    mmr := listOracle (sub "mmr")
    mmrFallback := listOracle (sub "mmrFallback")
    cfgSnap := unitOracle (sub "cfgSnap")
    trace := unitOracle (sub "trace") }
  let c : QCfg := ⟨boolD cj "hybridOn" false, boolD cj "qualityOn" false, boolD cj "mmrOn" false, boolD cj "traceGate" false⟩
  let r := natList (fldD j "retrieved" (Json.arr #[]))
  match applyQuality g c e r with
  | .error x => pure (jObj [("raised", jNat x)])
  | .ok o => pure (jObj [("retrieved", jArr (o.retrieved.map jNat)), ("hybridUsed", jBool o.hybridUsed),
                         ("fusionUsed", jBool o.fusionUsed), ("mmrUsed", jBool o.mmrUsed), ("mmrN", jNat o.mmrN)])

def routes : List (String × (Json → R Json)) := [("quality", handle)]

end Driver.HQuality
