import Driver.Util
import Clem.Model.T2
import Clem.Model.T2Mon

open Lean Clem.T2

namespace Driver.HT2

instance : Num Float where
  zero := 0.0
  one := 1.0
  add := (· + ·)
  sub := (· - ·)
  mul := (· * ·)
  div := (· / ·)
  neg := fun x => -x
  abs := Float.abs
  lt := fun a b => decide (a < b)
  le := fun a b => decide (a ≤ b)
  beq := fun a b => a == b
  ofInt := Float.ofInt

def toStr (s : String) : Str := s.toList.map Char.toNat
def ofStr (s : Str) : String := String.ofList (s.map Char.ofNat)
def jS (s : Str) : Json := jStr (ofStr s)

def fldS (j : Json) (k : String) : R Str := do pure (toStr (← fldStr j k))
def fldOptS (j : Json) (k : String) : R (Option Str) := do
  match fldD j k Json.null with
  | Json.null => pure none
  | v => pure (some (toStr (← v.getStr?)))
def fldOptInt (j : Json) (k : String) : R (Option Int) := do
  match fldD j k Json.null with
  | Json.null => pure none
  | v => pure (some (← v.getInt?))

def arrMapM {β : Type} (a : Array Json) (f : Json → R β) : R (List β) := a.toList.mapM f

def fldStrList (j : Json) (k : String) : R (List Str) := do
  arrMapM (← fldArr j k) (fun x => do pure (toStr (← x.getStr?)))
def fldNatList (j : Json) (k : String) : R (List Nat) := do
  arrMapM (← fldArr j k) (fun x => x.getNat?)

def parseOwner (j : Json) (k : String) : R Owner := do
  match j.getObjVal? k with
  | .error _ => pure .absent
  | .ok Json.null => pure .null
  | .ok v => pure (.str (toStr (← v.getStr?)))

def parseTs (j : Json) : R Ts :=
  match j with
  | Json.null => pure .missing
  | Json.str _ => pure .garbage
  | v => do pure (.valid (← v.getInt?))

def parseScoreTbl (j : Json) (k : String) : R (List (Str × Float)) := do
  arrMapM (← fldArr j k) (fun x => do
    let a ← x.getArr?
    pure (toStr (← strAt a 0), ← floatAt a 1))

def parseEp (j : Json) : R (Ep Float) := do
  pure { id := ← fldS j "id", owner := ← parseOwner j "owner", hasVec := ← fldBool j "hasVec",
         cos := ← fldFloat j "cos", ts := ← parseTs (fldD j "ts" Json.null),
         quarter := ← fldNat j "quarter", cluster := ← fldS j "cluster",
         importance := ← fldFloat j "imp", text := ← fldS j "text", toks := ← fldNatList j "toks" }

def parseCfg (j : Json) : R (Cfg Float) := do
  pure { scope := ← fldNat j "scope", agent := ← fldOptS j "agent", k := ← fldInt j "k",
         θ := ← fldFloat j "theta", days := ← fldInt j "days", topM := ← fldInt j "topM",
         nowUs := ← fldInt j "nowUs", quarters := ← fldNatList j "quarters",
         cscore := ← parseScoreTbl j "cscore",
         alpha := ← fldFloat j "alpha", beta := ← fldFloat j "beta", gamma := ← fldFloat j "gamma" }

def parseEdge (j : Json) : R (GEdge Float) := do
  let a ← j.getArr?
  pure ⟨toStr (← strAt a 0), toStr (← strAt a 1), ← floatAt a 2⟩

def parseH (j : Json) : R (HCfg Float) := do
  pure { enabled := ← fldBool j "enabled", useGraph := ← fldBool j "useGraph",
         anchorTopM := ← fldInt j "anchorTopM", hops := ← fldInt j "hops",
         thresh := ← fldFloat j "thresh", lam := ← fldFloat j "lam", damping := ← fldFloat j "damping",
         invdeg := ← fldBool j "invdeg", maxBonus := ← fldFloat j "maxBonus", kMax := ← fldInt j "kMax",
         edges := ← arrMapM (← fldArr j "edges") parseEdge, fail := ← fldBool j "fail" }

def parseQ (j : Json) : R (QCfg Float) := do
  pure { enabled := ← fldBool j "enabled", modeInterp := ← fldBool j "modeInterp",
         alphaSem := ← fldFloat j "alphaSem", lex := ← parseScoreTbl j "lex",
         mmrEnabled := ← fldBool j "mmrEnabled", mmrLam := ← fldFloat j "mmrLam",
         mmrK := ← fldOptInt j "mmrK", failFuse := ← fldBool j "failFuse",
         failMmr1 := ← fldBool j "failMmr1", failMmr2 := ← fldBool j "failMmr2" }

def parseGraphs (j : Json) (k : String) : R (List (List GNode)) := do
  arrMapM (← fldArr j k) (fun g => do
    arrMapM (← g.getArr?) (fun n => do
      let a ← n.getArr?
      pure ⟨toStr (← strAt a 0), toStr (← strAt a 1)⟩))

structure Case where
  cfg : Cfg Float
  tiers : List Nat
  eps : List (Ep Float)
  h : HCfg Float
  q : QCfg Float
  t2k : Option Int
  cap : Int
  graphs : List (List GNode)

def parseCase (j : Json) : R Case := do
  pure { cfg := ← parseCfg (← fld j "cfg"), tiers := ← fldNatList j "tiers",
         eps := ← arrMapM (← fldArr j "eps") parseEp, h := ← parseH (← fld j "h"),
         q := ← parseQ (← fld j "q"), t2k := ← fldOptInt j "t2k", cap := ← fldInt j "cap",
         graphs := ← parseGraphs j "graphs" }

def jHit (e : Ep Float) : Json :=
  jObj [("id", jS e.id), ("owner", jS e.ownerStr), ("score", jFloatBits e.cos), ("text", jS e.text)]

def handle (j : Json) : R Json := do
  let c ← parseCase j
  let o := t2 c.cfg c.tiers c.eps c.h c.q c.t2k c.cap c.graphs
  pure (jObj [("hits", jArr (o.retrieved.map jHit)),
              ("pre", jArr (o.pre.map (fun p => jS p.1.id))),
              ("preComb", jArr (o.pre.map (fun p => jFloatBits p.2))),
              ("tierSeq", jArr (o.tierSeq.map jNat)),
              ("kUsed", jNat o.used.length),
              ("residual", jArr (o.residual.map jS)),
              ("hybridUsed", jBool o.hybridUsed)])

/-- A history: the stage is a function of the CURRENT memory / graph contents, so each call of a
multi-turn history is the model on that call's contents (`{"calls": [case, …]}`). -/
def handleHist (j : Json) : R Json := do
  let cs ← fldArr j "calls"
  let outs ← cs.toList.mapM handle
  pure (jArr outs)

/-- `_search_with_episodes` alone (index level, incl. the quarter filter). -/
def handleSearch (j : Json) : R Json := do
  let cfg ← parseCfg (← fld j "cfg")
  let eps ← arrMapM (← fldArr j "eps") parseEp
  let tier ← fldNat j "tier"
  pure (jArr ((searchTier cfg tier eps).map jHit))

def parseHit (j : Json) : R (Hit Float) := do
  pure ⟨← fldS j "id", ← fldS j "owner", ← fldFloat j "score", ← fldS j "text"⟩

def fldHits (j : Json) (k : String) : R (List (Hit Float)) := do
  arrMapM (← fldArr j k) parseHit

/-- Monitors on an implementation output: `{"c":"t2.mon","which":…,"case":…,"out":…}`. -/
def handleMon (j : Json) : R Json := do
  let which ← fldStr j "which"
  let c ← parseCase (← fld j "case")
  let o ← fld j "out"
  let hits ← fldHits o "hits"
  match which with
  | "count" => pure (jBool (monCount c.cfg hits))
  | "scope" => pure (jBool (monScope c.cfg hits))
  | "threshold" => pure (jBool (monThreshold c.cfg hits))
  | "tier" => pure (jBool (monTier c.cfg c.tiers c.eps hits))
  | "tier_par" => pure (jBool (monTierPar c.cfg c.tiers c.eps hits))
  | "order" => pure (jBool (monOrder c.cfg c.eps (← fldHits o "pre")))
  | "perm" =>
    pure (jBool (monPerm ((← fldHits o "pre").map (·.id)) (hits.map (·.id))))
  | "hybrid" =>
    pure (jBool (monHybrid c.h.kMax (← fldStrList o "hin") (← fldStrList o "hout")))
  | "complete" => pure (jBool (monComplete c.cfg c.tiers c.eps hits))
  | "residual_complete" =>
    pure (jBool (monResidualComplete c.t2k c.cap c.graphs hits (← fldStrList o "residual")))
  | "used" => pure (jBool (monUsed c.t2k hits (← fldNat o "kUsed")))
  | "residual" => pure (jBool (monResidual c.t2k c.cap c.graphs hits (← fldStrList o "residual")))
  | w => throw s!"unknown monitor {w}"

/-- Monitors on an index-level output. -/
def handleSearchMon (j : Json) : R Json := do
  let cfg ← parseCfg (← fld j "cfg")
  let eps ← arrMapM (← fldArr j "eps") parseEp
  let tier ← fldNat j "tier"
  let hits ← fldHits j "hits"
  pure (jBool (monCount cfg hits && monScope cfg hits && monThreshold cfg hits
    && monTier cfg [tier] eps hits && monSearch cfg tier eps hits))

def routes : List (String × (Json → R Json)) :=
  [("t2", handle), ("t2.hist", handleHist), ("t2.search", handleSearch), ("t2.mon", handleMon),
   ("t2.searchmon", handleSearchMon)]

end Driver.HT2
