/-
`#audit_module M` prints, for every (non-internal) theorem declared in module `M`,
one line `AUDIT <name> [<axioms>]` (sub-modules `M.*` included).  The harness runs it for `Clem.Props.Cxx` and
requires every axiom list ⊆ {propext, Classical.choice, Quot.sound}.
-/
import Lean
open Lean Elab Command

elab "#audit_module " m:ident : command => do
  let env ← getEnv
  -- the module itself and every sub-module `M.*`
  let pre := m.getId
  let mods := env.header.moduleNames
  let mut names : Array Name := #[]
  for (n, ci) in env.constants.map₁.toList do
    let inMod := match env.getModuleIdxFor? n with
      | some i => pre.isPrefixOf (mods[i.toNat]!)
      | none => false
    if inMod && !n.isInternalDetail then
      if let .thmInfo _ := ci then
        names := names.push n
  let sorted := names.qsort (fun a b => a.toString < b.toString)
  for n in sorted do
    let axs ← liftCoreM (collectAxioms n)
    let axs := axs.qsort (fun a b => a.toString < b.toString)
    logInfo m!"AUDIT {n} {axs.toList}"
  logInfo m!"AUDIT-COUNT {sorted.size}"
