/-
`#audit_module M` prints, for every (non-internal) theorem declared in module `M`,
one line `AUDIT <name> [<axioms>]`.  The harness runs it for `Clem.Props.Cxx` and
requires every axiom list ⊆ {propext, Classical.choice, Quot.sound}.
-/
import Lean
open Lean Elab Command

elab "#audit_module " m:ident : command => do
  let env ← getEnv
  let some idx := env.getModuleIdx? m.getId
    | throwError "unknown module {m.getId}"
  let mut names : Array Name := #[]
  for (n, ci) in env.constants.map₁.toList do
    if env.getModuleIdxFor? n == some idx && !n.isInternalDetail then
      if let .thmInfo _ := ci then
        names := names.push n
  let sorted := names.qsort (fun a b => a.toString < b.toString)
  for n in sorted do
    let axs ← liftCoreM (collectAxioms n)
    let axs := axs.qsort (fun a b => a.toString < b.toString)
    logInfo m!"AUDIT {n} {axs.toList}"
  logInfo m!"AUDIT-COUNT {sorted.size}"
