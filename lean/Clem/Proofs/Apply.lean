import Clem.Model.Apply

/-!
Helper lemmas for `Clem/Props/C04.lean` (core Lean only).
-/
namespace Clem.Apply

/-! ### store phase -/

theorem stepDelta_calls (a : Acc) (d : Delta) (o : Outcome) :
    (stepDelta a d o).calls = a.calls ++ [[d]] := by
  cases o <;> rfl

theorem perDelta_calls (ds : List Delta) (sc : List Outcome) (a : Acc) :
    (perDelta ds sc a).calls = a.calls ++ singles ds := by
  induction ds generalizing sc a with
  | nil => simp [perDelta, singles]
  | cons d ds ih =>
    simp only [perDelta, ih, stepDelta_calls, singles, List.map_cons, List.append_assoc,
      List.cons_append, List.nil_append]

theorem flatten_singles (ds : List Delta) : (singles ds).flatten = ds := by
  induction ds with
  | nil => rfl
  | cons d ds ih => simp only [singles, List.map_cons, List.flatten_cons] at ih ⊢; rw [ih]; rfl

theorem storePhase_calls (ds : List Delta) (sc : List Outcome) :
    (storePhase ds sc).calls =
      if (headO sc).isRet then [ds] else [ds] ++ singles ds := by
  unfold storePhase
  cases h : headO sc with
  | ret e c => simp [Outcome.isRet]
  | raise => simp [Outcome.isRet, perDelta_calls]

theorem committed_singles_sublist (ds : List Delta) (sc : List Outcome) :
    (committed (singles ds) sc).Sublist ds := by
  induction ds generalizing sc with
  | nil => simp [singles, committed]
  | cons d ds ih =>
    simp only [singles, List.map_cons, committed]
    by_cases h : (headO sc).isRet
    · simp only [h, if_true, List.cons_append, List.nil_append]
      exact List.Sublist.cons_cons _ (ih _)
    · simp only [h]
      exact List.Sublist.cons _ (ih _)

theorem committed_storePhase_sublist (ds : List Delta) (sc : List Outcome) :
    (committed (storePhase ds sc).calls sc).Sublist ds := by
  rw [storePhase_calls]
  by_cases h : (headO sc).isRet
  · simp [h, committed]
  · simp only [h, List.cons_append, List.nil_append]
    show ((if (headO sc).isRet then ds else []) ++ committed (singles ds) sc.tail).Sublist ds
    simpa [h] using committed_singles_sublist ds sc.tail

theorem committed_storePhase_ok (ds : List Delta) (sc : List Outcome) (h : (headO sc).isRet = true) :
    committed (storePhase ds sc).calls sc = ds := by
  rw [storePhase_calls]; simp [h, committed]

theorem atMostOnceB_of_sublist {ds com : List Delta} (h : com.Sublist ds) : atMostOnceB ds com = true := by
  simp only [atMostOnceB, List.all_eq_true, decide_eq_true_eq]
  intro d _
  exact h.count_le d

/-! ### legacy vs repaired store phase -/

theorem headO_wellFormed {sc : List Outcome} (h : ∀ o ∈ sc, o.wellFormed = true) :
    (headO sc).wellFormed = true := by
  cases sc with
  | nil => rfl
  | cons o r => exact h o (by simp)

theorem stepDeltaLegacy_eq (a : Acc) (d : Delta) (o : Outcome) (h : o.wellFormed = true) :
    stepDeltaLegacy a d o = stepDelta a d o := by
  cases o with
  | raise => rfl
  | ret e c => cases e <;> cases c <;> simp_all [Outcome.wellFormed, stepDeltaLegacy, stepDelta, Cnt.val]

theorem perDeltaLegacy_eq (ds : List Delta) (sc : List Outcome) (a : Acc)
    (h : ∀ o ∈ sc, o.wellFormed = true) : perDeltaLegacy ds sc a = perDelta ds sc a := by
  induction ds generalizing sc a with
  | nil => rfl
  | cons d ds ih =>
    simp only [perDeltaLegacy, perDelta]
    rw [stepDeltaLegacy_eq _ _ _ (headO_wellFormed h)]
    exact ih _ _ (fun o ho => h o (List.mem_of_mem_tail ho))

/-! ### version over histories -/

/-- Version after `m` committed turns starting from `v`. -/
def verAfter : Ver → Nat → Ver
  | v, 0 => v
  | v, m + 1 => .num (bump v + m)

theorem verAfter_step (v : Ver) (m : Nat) : verAfter (.num (bump v)) m = verAfter v (m + 1) := by
  cases m with
  | zero => simp [verAfter]
  | succ k =>
    simp only [verAfter, bump, Ver.num.injEq]
    omega

/-! ### cache -/

theorem Cache.size_nil (ns : Nat) : Cache.size [] ns = 0 := rfl
theorem Cache.total_nil : Cache.total [] = 0 := rfl
theorem Cache.clear_nil (ns : Nat) : Cache.clear [] ns = [] := rfl

theorem Cache.size_cons (p : Nat × Nat) (c : Cache) (ns : Nat) :
    Cache.size (p :: c) ns = (if p.1 == ns then p.2 else 0) + Cache.size c ns := by
  by_cases h : p.1 == ns <;> simp [Cache.size, h]

theorem Cache.total_cons (p : Nat × Nat) (c : Cache) :
    Cache.total (p :: c) = p.2 + Cache.total c := by
  simp [Cache.total]

theorem Cache.clear_cons (p : Nat × Nat) (c : Cache) (ns : Nat) :
    Cache.clear (p :: c) ns = (if p.1 == ns then (p.1, 0) else p) :: Cache.clear c ns := by
  simp [Cache.clear]

theorem Cache.clear_total (c : Cache) (ns : Nat) : (c.clear ns).total + c.size ns = c.total := by
  induction c with
  | nil => rfl
  | cons p c ih =>
    rw [Cache.clear_cons, Cache.total_cons, Cache.size_cons, Cache.total_cons]
    by_cases h : p.1 == ns <;> simp only [h, if_true] <;> simp <;> omega

theorem Cache.size_clear_self (c : Cache) (ns : Nat) : (c.clear ns).size ns = 0 := by
  induction c with
  | nil => rfl
  | cons p c ih =>
    rw [Cache.clear_cons, Cache.size_cons, ih]
    by_cases h : p.1 == ns <;> simp [h]

theorem Cache.size_clear_le (c : Cache) (a b : Nat) : (c.clear a).size b ≤ c.size b := by
  induction c with
  | nil => exact Nat.le_refl _
  | cons p c ih =>
    rw [Cache.clear_cons, Cache.size_cons, Cache.size_cons]
    by_cases h : p.1 == a <;> by_cases hb : p.1 == b <;> simp [h, hb] <;> omega

theorem Cache.size_clear_ne (c : Cache) {a b : Nat} (hab : a ≠ b) : (c.clear a).size b = c.size b := by
  induction c with
  | nil => rfl
  | cons p c ih =>
    rw [Cache.clear_cons, Cache.size_cons, Cache.size_cons, ih]
    by_cases h : p.1 == a
    · have hb : (p.1 == b) = false := by
        simp only [beq_iff_eq] at h; simp [h, hab]
      simp [h, hb]
    · simp [h]

theorem invLoop_count (f : Option Nat) (i : Nat) (nss : List Nat) (c : Cache) (acc : Nat) :
    (invLoop f i nss c acc).2 + (invLoop f i nss c acc).1.total = acc + c.total := by
  induction nss generalizing i c acc with
  | nil => simp [invLoop]
  | cons ns rest ih =>
    simp only [invLoop]
    split
    · rfl
    · rw [ih]; have := Cache.clear_total c ns; omega

theorem invLoop_size_le (f : Option Nat) (i : Nat) (nss : List Nat) (c : Cache) (acc b : Nat) :
    (invLoop f i nss c acc).1.size b ≤ c.size b := by
  induction nss generalizing i c acc with
  | nil => simp [invLoop]
  | cons ns rest ih =>
    simp only [invLoop]
    split
    · exact Nat.le_refl _
    · exact Nat.le_trans (ih _ _ _) (Cache.size_clear_le c ns b)

theorem invLoop_none_empties (i : Nat) (nss : List Nat) (c : Cache) (acc b : Nat) (hb : b ∈ nss) :
    (invLoop none i nss c acc).1.size b = 0 := by
  induction nss generalizing i c acc with
  | nil => simp at hb
  | cons ns rest ih =>
    simp only [invLoop]
    have hne : ((none : Option Nat) == some i) = false := by simp
    simp only [hne, Bool.false_eq_true, if_false]
    by_cases h : b = ns
    · subst h
      have := invLoop_size_le none (i + 1) rest (c.clear b) (acc + c.size b) b
      rw [Cache.size_clear_self] at this
      omega
    · have : b ∈ rest := by simpa [h] using hb
      exact ih _ _ _ this

theorem invLoop_untouched (f : Option Nat) (i : Nat) (nss : List Nat) (c : Cache) (acc b : Nat)
    (hb : b ∉ nss) : (invLoop f i nss c acc).1.size b = c.size b := by
  induction nss generalizing i c acc with
  | nil => simp [invLoop]
  | cons ns rest ih =>
    simp only [invLoop]
    split
    · rfl
    · have h1 : ns ≠ b := by intro h; apply hb; simp [h]
      have h2 : b ∉ rest := by intro h; apply hb; simp [h]
      rw [ih _ _ _ h2, Cache.size_clear_ne c h1]

/-! ### invalidation phase -/

theorem invPhase_active (i : In) (c : Cache) (ha : invActive i = true) (h : i.cm = some c) :
    invPhase i = (some (invOn i c).1, (invOn i c).2) := by
  simp [invPhase, ha, h]

theorem invPhase_inactive (i : In) (ha : invActive i = false) : invPhase i = (i.cm, 0) := by
  simp [invPhase, ha]

theorem invPhase_none (i : In) (h : i.cm = none) : invPhase i = (none, 0) := by
  unfold invPhase; split <;> simp [h]

theorem apply_cm (i : In) : (apply i).cm = (invPhase i).1 := rfl
theorem apply_invalidated (i : In) : (apply i).invalidated = (invPhase i).2 := rfl

theorem specInvalidate_congr (i : In) (o o' : Out) (h1 : o.cm = o'.cm) (h2 : o.invalidated = o'.invalidated) :
    specInvalidate i o = specInvalidate i o' := by
  unfold specInvalidate; rw [h1, h2]

end Clem.Apply
