import Clem.Proofs.Refl

/-!
Helper lemmas for C19 about the write path and the reflection tail of `run_turn`
(`Clem/Model/Refl.lean`: `runReflection`, `gateCall`, `tail`, `addLoop`, `writeEntries`, `reflectReal`).
-/

namespace Clem.Refl

/-! ## helper facts about the tail -/

theorem runReflection_eq (t : TurnIn) (o : Oracles) :
    runReflection t o = if gateOpen t then some (afterGate t o) else none := by
  unfold runReflection gateOpen
  cases t.dry <;> cases t.cfg.allow <;> cases t.planFlag <;> cases t.stateFlag <;> simp

theorem gateCall_closed (t : TurnIn) (o : Oracles) (h : gateOpen t = false) : gateCall t o = none := by
  unfold gateCall
  rw [runReflection_eq, h]
  simp

/-- What the repaired tail hands to the index. -/
theorem tail_true_written (c : CtxSt) (t : TurnIn) (o : Oracles) :
    (tail true c t o).2.written =
      if t.dry && t.t4on then []
      else match gateCall t o with
        | none => []
        | some res => writeEntriesAt t o (tsOf (headIso c t) t.nowMs) res := by
  unfold tail stashAfter
  split
  · rfl
  · cases gateCall t o <;> simp [tailOut]

theorem addLoop_length (a tu : Str) (ts : Ts) (i : Nat) (es : List Entry) (fs : List Bool) :
    (addLoop a tu ts i es fs).length ≤ es.length := by
  induction es generalizing i fs with
  | nil => simp [addLoop]
  | cons e es ih =>
    simp only [addLoop]
    split
    · have := ih (i + 1) fs.tail; simp; omega
    · have := ih (i + 1) fs.tail; simp; omega

theorem addLoop_mem (a tu : Str) (ts : Ts) (i : Nat) (es : List Entry) (fs : List Bool) :
    ∀ w ∈ addLoop a tu ts i es fs,
      w.agent = a ∧ w.turn = tu ∧ w.ts = ts ∧ i ≤ w.slot ∧ w.slot < i + es.length ∧
      ∃ e, es[w.slot - i]? = some e ∧ w.idText = e.text ∧ w.text = strip e.text ∧ w.vec = e.vec := by
  induction es generalizing i fs with
  | nil => intro w hw; simp [addLoop] at hw
  | cons e es ih =>
    intro w hw
    simp only [addLoop] at hw
    have rest : ∀ w ∈ addLoop a tu ts (i + 1) es fs.tail,
        w.agent = a ∧ w.turn = tu ∧ w.ts = ts ∧ i ≤ w.slot ∧ w.slot < i + (e :: es).length ∧
        ∃ e', (e :: es)[w.slot - i]? = some e' ∧ w.idText = e'.text ∧ w.text = strip e'.text ∧
          w.vec = e'.vec := by
      intro w hw
      obtain ⟨h1, h2, h3, h4, h5, e', h6, h7⟩ := ih (i + 1) fs.tail w hw
      refine ⟨h1, h2, h3, by omega, by simp; omega, e', ?_, h7⟩
      have : w.slot - i = (w.slot - (i + 1)) + 1 := by omega
      rw [this]; simpa using h6
    split at hw
    · exact rest w hw
    · rcases List.mem_cons.mp hw with h | h
      · subst h
        exact ⟨rfl, rfl, rfl, Nat.le_refl _, by simp, e, by simp, rfl, rfl, rfl⟩
      · exact rest w h

theorem writeEntries_length (t : TurnIn) (o : Oracles) (ts : Ts) (res : RResult) :
    (writeEntries t o ts res).length ≤ min (capNat t.cfg.opsCap) res.entries.length := by
  unfold writeEntries
  split
  · simp
  · split
    · simp
    · split
      · simp
      · rename_i cap hcap
        split
        · simp
        · split
          · simp
          · have := addLoop_length t.agent t.turn ts 0 (res.entries.take cap.toNat) o.addFail
            rw [List.length_take] at this
            simp only [capNat, hcap]
            exact this


theorem writeEntriesAt_length (t : TurnIn) (o : Oracles) (ts : Option Ts) (res : RResult) :
    (writeEntriesAt t o ts res).length ≤ min (capNat t.cfg.opsCap) res.entries.length := by
  cases ts with
  | none => simp [writeEntriesAt]
  | some x => exact writeEntries_length t o x res

theorem writeEntriesAt_mem (t : TurnIn) (o : Oracles) (ts : Option Ts) (res : RResult) (w : Written)
    (h : w ∈ writeEntriesAt t o ts res) : ∃ x, ts = some x ∧ w ∈ writeEntries t o x res := by
  cases ts with
  | none => simp [writeEntriesAt] at h
  | some x => exact ⟨x, rfl, h⟩

/-- The real `reflect` produces at most one entry, and its text is the summary. -/
theorem reflectReal_entries (t : TurnIn) (snips : List Str) (ad : Adapter) (res : RResult)
    (h : reflectReal t snips ad = .ok res) :
    res.entries.length ≤ 1 ∧ ∀ e ∈ res.entries, e.text = res.summary := by
  have mk : ∀ s e cap fk, (mkResult s e cap fk).entries.length ≤ 1 ∧
      ∀ x ∈ (mkResult s e cap fk).entries, x.text = (mkResult s e cap fk).summary := by
    intro s e cap fk
    unfold mkResult
    split <;> simp
  unfold reflectReal at h
  simp only at h
  split at h
  · unfold reflectLlm at h
    split at h
    · cases h
    · split at h
      · cases h
      · split at h
        · cases h
        · injection h with h; subst h; exact mk _ _ _ _
  · split at h
    · injection h with h; subst h; exact mk _ _ _ _
    · cases h


theorem nonReflection_append {ρ : Type} (a b : List (Emitted ρ)) :
    nonReflection (a ++ b) = nonReflection a ++ nonReflection b := by
  induction a with
  | nil => rfl
  | cons x a ih => cases x <;> simp [nonReflection, ih]

theorem nonReflection_other {ρ : Type} (l : List ρ) : nonReflection (l.map Emitted.other) = l := by
  induction l with
  | nil => rfl
  | cons x l ih => simp [nonReflection, ih]


end Clem.Refl
