import Clem.Model.DetLru

/-! Helper lemmas for the deterministic containers (`LSet`, `LMap`, `Ring`). -/
namespace Clem.DetLru

def LSet.Inv (s : LSet) : Prop := s.q.Nodup ∧ s.q.length ≤ s.cap

def LMap.Inv (s : LMap) : Prop := (s.items.map (·.1)).Nodup ∧ s.items.length ≤ s.cap

/-- Window bound, and the reference counts never over-count the window. -/
def Ring.Inv (s : Ring) : Prop := s.q.length ≤ s.k ∧ ∀ x, s.ref.count x ≤ s.q.count x

/-! ### `evictFront` -/

theorem evictFront_spec {α : Type} (cap : Nat) (l : List α) :
    l = (evictFront cap l).2 ++ (evictFront cap l).1 ∧ (evictFront cap l).1.length ≤ cap := by
  induction l with
  | nil => simp [evictFront]
  | cons a as ih =>
    simp only [evictFront]
    split
    · exact ⟨by simp; exact ih.1, ih.2⟩
    · rename_i h; exact ⟨by simp, by simpa using h⟩

theorem evictFront_fits {α : Type} (cap : Nat) (l : List α) (h : l.length ≤ cap) :
    evictFront cap l = (l, []) := by
  cases l with
  | nil => rfl
  | cons a as => simp only [evictFront]; rw [if_neg (by omega)]

/-- One element over the cap: exactly the head goes. -/
theorem evictFront_one {α : Type} (cap : Nat) (a : α) (as : List α) (h : as.length = cap) :
    evictFront cap (a :: as) = (as, [a]) := by
  simp only [evictFront]
  rw [if_pos (by simp; omega), evictFront_fits cap as (by omega)]

theorem evictFront_sublist {α : Type} (cap : Nat) (l : List α) : (evictFront cap l).1.Sublist l := by
  have h := (evictFront_spec cap l).1
  have h2 : (evictFront cap l).1.Sublist ((evictFront cap l).2 ++ (evictFront cap l).1) :=
    List.sublist_append_right _ _
  rw [← h] at h2; exact h2

/-! ### `LMap` plumbing -/

namespace LMap

theorem lookup_none_iff {k : Nat} {l : List (Nat × Nat)} : lookup k l = none ↔ k ∉ l.map (·.1) := by
  unfold lookup
  simp only [Option.map_eq_none_iff, List.find?_eq_none, List.mem_map, not_exists, not_and]
  constructor
  · intro h x hx hk; exact h x hx (by simp [hk])
  · intro h x hx hk; exact h x hx (by simpa using hk)

theorem lookup_some_mem {k v : Nat} {l : List (Nat × Nat)} (h : lookup k l = some v) : (k, v) ∈ l := by
  unfold lookup at h
  cases hf : l.find? (fun e => e.1 == k) with
  | none => simp [hf] at h
  | some p =>
    simp [hf] at h
    have hm := List.mem_of_find?_eq_some hf
    have hk : p.1 = k := by simpa using List.find?_some hf
    have : p = (k, v) := by cases p; simp_all
    exact this ▸ hm

theorem without_keys_nodup {l : List (Nat × Nat)} (k : Nat) (h : (l.map (·.1)).Nodup) :
    ((without k l).map (·.1)).Nodup :=
  List.Nodup.sublist (List.Sublist.map _ List.filter_sublist) h

theorem not_mem_without (k : Nat) (l : List (Nat × Nat)) : k ∉ (without k l).map (·.1) := by
  simp [without]

theorem length_without_lt {k v : Nat} {l : List (Nat × Nat)} (h : lookup k l = some v) :
    (without k l).length < l.length := by
  unfold without
  apply List.length_filter_lt_length_iff_exists.mpr
  exact ⟨(k, v), lookup_some_mem h, by simp⟩

theorem nodup_reinsert {l : List (Nat × Nat)} (k v : Nat) (h : (l.map (·.1)).Nodup) :
    ((without k l ++ [(k, v)]).map (·.1)).Nodup := by
  simp only [List.map_append, List.map_cons, List.map_nil]
  rw [List.nodup_append]
  refine ⟨without_keys_nodup _ h, by simp, ?_⟩
  intro a ha b hb
  simp at hb; subst hb
  intro hab; subst hab
  exact not_mem_without _ _ ha

theorem nodup_append_new {l : List (Nat × Nat)} (k v : Nat) (h : (l.map (·.1)).Nodup)
    (hk : lookup k l = none) : ((l ++ [(k, v)]).map (·.1)).Nodup := by
  simp only [List.map_append, List.map_cons, List.map_nil]
  rw [List.nodup_append]
  refine ⟨h, by simp, ?_⟩
  intro a ha b hb
  simp at hb; subst hb
  intro hab; subst hab
  exact lookup_none_iff.mp hk ha

theorem replace_keys (k v : Nat) (l : List (Nat × Nat)) : (replace k v l).map (·.1) = l.map (·.1) := by
  unfold replace
  induction l with
  | nil => rfl
  | cons e es ih =>
    simp only [List.map_cons, List.cons.injEq]
    refine ⟨?_, ih⟩
    split
    · rename_i h; have h' : e.1 = k := by simpa using h
      exact h'.symm
    · rfl

theorem lookup_append_new (k v : Nat) (l : List (Nat × Nat)) (h : lookup k l = none) :
    lookup k (l ++ [(k, v)]) = some v := by
  unfold lookup at h ⊢
  rw [List.find?_append]
  simp only [Option.map_eq_none_iff] at h
  simp [h]

theorem lookup_replace (k v : Nat) (l : List (Nat × Nat)) (w : Nat) (h : lookup k l = some w) :
    lookup k (replace k v l) = some v := by
  unfold lookup replace at *
  induction l with
  | nil => simp at h
  | cons e es ih =>
    by_cases he : e.1 = k
    · simp [he]
    · simp only [List.find?_cons, List.map_cons] at h ⊢
      have : (e.1 == k) = false := by simpa using he
      simp only [this] at h ⊢
      simp only [Bool.false_eq_true, if_false] at h ⊢
      simp only [this]
      exact ih h

end LMap

/-! ### `Ring` plumbing -/

namespace Ring

theorem evict_lt (k : Nat) (q ref : List Nat) (h : q.length < k) : evict k q ref = (q, ref) := by
  cases q with
  | nil => rfl
  | cons a t => simp only [evict]; rw [if_neg (by omega)]

theorem evict_full (k : Nat) (a : Nat) (t ref : List Nat) (h : (a :: t).length = k) :
    evict k (a :: t) ref = (t, ref.erase a) := by
  simp only [evict]
  rw [if_pos (by omega), evict_lt]
  simp only [List.length_cons] at h; omega

/-- The eviction loop keeps "refcounts ≤ window multiplicities" and leaves room for one more. -/
theorem evict_inv (k : Nat) (hk : 0 < k) (q ref : List Nat) (h : ∀ x, ref.count x ≤ q.count x) :
    (∀ x, (evict k q ref).2.count x ≤ (evict k q ref).1.count x) ∧ (evict k q ref).1.length < k := by
  induction q generalizing ref with
  | nil => exact ⟨h, by simpa [evict] using hk⟩
  | cons old q ih =>
    simp only [evict]
    split
    · apply ih
      intro x
      have hx := h x
      by_cases hxo : x = old
      · subst hxo
        rw [List.count_erase_self]
        simp only [List.count_cons_self] at hx
        omega
      · rw [List.count_erase_of_ne hxo]
        rw [List.count_cons_of_ne (fun h => hxo h.symm)] at hx
        exact hx
    · rename_i hc
      exact ⟨h, by simp only [List.length_cons] at hc ⊢; omega⟩

/-- In a history without `discard` the refcount bag is a permutation of the window. -/
theorem evict_perm (k : Nat) (q ref : List Nat) (h : ref.Perm q) :
    (evict k q ref).2.Perm (evict k q ref).1 := by
  induction q generalizing ref with
  | nil => exact h
  | cons old q ih =>
    simp only [evict]
    split
    · apply ih
      have := h.erase old
      simpa using this
    · exact h

end Ring

end Clem.DetLru
