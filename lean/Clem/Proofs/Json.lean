/-
Lemmas about `Clem.Py.J`: dict primitives under `lookup`, JSON-document equality `J.Equiv`
(lookup-based: same keys at every level, equal leaves, key order ignored) and soundness of the
Boolean `J.eqvG` / `J.eqv` with respect to it.
-/
import Clem.Py.Json

namespace Clem.Py.J

/-! ### lookup / dset / derase -/

@[simp] theorem lookup_nil (k : Str) : lookup k [] = none := rfl

theorem lookup_cons (k k' : Str) (v : J) (es : List (Str × J)) :
    lookup k ((k', v) :: es) = if k = k' then some v else lookup k es := rfl

theorem lookup_dset (k k' : Str) (v : J) (es : List (Str × J)) :
    lookup k (dset k' v es) = if k = k' then some v else lookup k es := by
  induction es with
  | nil => simp [dset, lookup_cons]
  | cons e es ih =>
    obtain ⟨k2, v2⟩ := e
    simp only [dset]
    by_cases h : k' = k2
    · subst h; simp only [if_true, lookup_cons]; split <;> rfl
    · simp only [if_neg h, lookup_cons, ih]
      by_cases h2 : k = k2
      · have : k ≠ k' := fun e => h (e ▸ h2); simp [h2, Ne.symm h]
      · simp [h2]

theorem lookup_derase (k k' : Str) (es : List (Str × J)) :
    lookup k (derase k' es) = if k = k' then none else lookup k es := by
  induction es with
  | nil => simp [derase]
  | cons e es ih =>
    obtain ⟨k2, v2⟩ := e
    simp only [derase, List.filter] at ih ⊢
    by_cases h : k2 = k'
    · subst h; simp only [beq_self_eq_true, Bool.not_true, ih, lookup_cons]
      split <;> simp_all
    · have hb : (k2 == k') = false := by simpa using h
      simp only [hb, Bool.not_false, lookup_cons, ih]
      by_cases h2 : k = k2
      · have : k ≠ k' := fun e => h (h2 ▸ e); simp [h2, h]
      · simp [h2]

theorem mem_of_lookup {k : Str} {v : J} {es : List (Str × J)} (h : lookup k es = some v) :
    (k, v) ∈ es := by
  induction es with
  | nil => simp at h
  | cons e es ih =>
    obtain ⟨k2, v2⟩ := e
    rw [lookup_cons] at h
    by_cases h2 : k = k2
    · simp only [h2, if_true, Option.some.injEq] at h; subst h; subst h2; simp
    · simp only [h2, if_false] at h; exact List.mem_cons_of_mem _ (ih h)

theorem hasKey_iff_mem_keys (k : Str) (es : List (Str × J)) : hasKey k es = true ↔ k ∈ keys es := by
  induction es with
  | nil => simp [hasKey, keys]
  | cons e es ih =>
    obtain ⟨k2, v2⟩ := e
    simp only [hasKey, keys, lookup_cons, List.map_cons, List.mem_cons] at ih ⊢
    by_cases h2 : k = k2
    · simp [h2]
    · simp [h2, ih]

theorem hasKey_false_iff (k : Str) (es : List (Str × J)) : hasKey k es = false ↔ lookup k es = none := by
  simp [hasKey]

theorem hasKey_of_lookup {k : Str} {v : J} {es : List (Str × J)} (h : lookup k es = some v) :
    hasKey k es = true := by simp [hasKey, h]

theorem hasKey_of_mem {k : Str} {v : J} {es : List (Str × J)} (h : (k, v) ∈ es) : hasKey k es = true :=
  (hasKey_iff_mem_keys k es).2 (List.mem_map.2 ⟨(k, v), h, rfl⟩)

theorem lookup_of_mem_nodup {k : Str} {v : J} {es : List (Str × J)} (hn : nodupKeys es = true)
    (h : (k, v) ∈ es) : lookup k es = some v := by
  induction es with
  | nil => simp at h
  | cons e es ih =>
    obtain ⟨k2, v2⟩ := e
    simp only [nodupKeys, Bool.and_eq_true, Bool.not_eq_true'] at hn
    rw [lookup_cons]
    rcases List.mem_cons.1 h with h1 | h1
    · cases h1; simp
    · have hne : k ≠ k2 := by
        intro e
        have hk := hasKey_of_mem h1
        rw [e, hn.1] at hk; cases hk
      simp [hne, ih hn.2 h1]

/-! ### size -/

theorem size_pos (a : J) : 0 < size a := by cases a <;> simp [size] <;> omega

theorem size_of_mem {k : Str} {v : J} {es : List (Str × J)} (h : (k, v) ∈ es) : size v ≤ sizeO es := by
  induction es with
  | nil => simp at h
  | cons e es ih =>
    obtain ⟨k2, v2⟩ := e
    simp only [sizeO]
    rcases List.mem_cons.1 h with h | h
    · cases h; omega
    · have := ih h; omega

/-! ### well-formedness -/

theorem wf_of_mem {k : Str} {v : J} {es : List (Str × J)} (hw : wfO es = true) (h : (k, v) ∈ es) :
    wf v = true := by
  induction es with
  | nil => simp at h
  | cons e es ih =>
    obtain ⟨k2, v2⟩ := e
    simp only [wfO, Bool.and_eq_true] at hw
    rcases List.mem_cons.1 h with h | h
    · cases h; exact hw.1
    · exact ih hw.2 h

/-! ### equality of JSON documents -/

/-- Same JSON document: identical leaves (type and value), arrays element-wise, objects with the
    same key set and equivalent values under every key — key order ignored, like Python `==` on
    dicts and like the canonical (`sort_keys=True`) writer. -/
inductive Equiv : J → J → Prop
  | null : Equiv .null .null
  | bool (b : Bool) : Equiv (.bool b) (.bool b)
  | int (n : Int) : Equiv (.int n) (.int n)
  | flt (b : Nat) : Equiv (.flt b) (.flt b)
  | str (s : Str) : Equiv (.str s) (.str s)
  | anil : Equiv (.arr []) (.arr [])
  | acons {x y : J} {xs ys : List J} : Equiv x y → Equiv (.arr xs) (.arr ys) →
      Equiv (.arr (x :: xs)) (.arr (y :: ys))
  | obj {a b : List (Str × J)} : (∀ k, lookup k a = none ↔ lookup k b = none) →
      (∀ k x y, lookup k a = some x → lookup k b = some y → Equiv x y) → Equiv (.obj a) (.obj b)

mutual
theorem Equiv.refl : ∀ a : J, Equiv a a
  | .null => .null
  | .bool b => .bool b
  | .int n => .int n
  | .flt b => .flt b
  | .str s => .str s
  | .arr xs => Equiv.reflL xs
  | .obj es => .obj (fun _ => Iff.rfl) (fun k x y hx hy => by
      rw [hx] at hy; cases hy; exact Equiv.reflO es k x hx)
theorem Equiv.reflL : ∀ xs : List J, Equiv (.arr xs) (.arr xs)
  | [] => .anil
  | x :: xs => .acons (Equiv.refl x) (Equiv.reflL xs)
theorem Equiv.reflO : ∀ (es : List (Str × J)) (k : Str) (x : J), lookup k es = some x → Equiv x x
  | [], _, _, h => by simp at h
  | (k', v) :: es, k, x, h => by
      rw [lookup_cons] at h
      by_cases hk : k = k'
      · simp only [hk, if_true, Option.some.injEq] at h; subst h; exact Equiv.refl v
      · simp only [hk, if_false] at h; exact Equiv.reflO es k x h
end

theorem Equiv.symm {a b : J} (h : Equiv a b) : Equiv b a := by
  induction h with
  | null => exact .null
  | bool b => exact .bool b
  | int n => exact .int n
  | flt b => exact .flt b
  | str s => exact .str s
  | anil => exact .anil
  | acons _ _ ih1 ih2 => exact .acons ih1 ih2
  | obj h1 _ ih => exact .obj (fun k => (h1 k).symm) (fun k x y hx hy => ih k y x hy hx)

theorem Equiv.trans {a b c : J} (h1 : Equiv a b) (h2 : Equiv b c) : Equiv a c := by
  induction h1 generalizing c with
  | null => exact h2
  | bool b => exact h2
  | int n => exact h2
  | flt b => exact h2
  | str s => exact h2
  | anil => exact h2
  | acons _ _ ih1 ih2 =>
    cases h2 with
    | acons g1 g2 => exact .acons (ih1 g1) (ih2 g2)
  | obj f1 _ ih =>
    cases h2 with
    | obj g1 g2 =>
      refine .obj (fun k => (f1 k).trans (g1 k)) (fun k x z hx hz => ?_)
      rename_i b' _ _
      cases hy : lookup k b' with
      | none => have := (f1 k).2 hy; rw [hx] at this; cases this
      | some y => exact ih k x y hx hy (g2 k y z hy hz)

mutual
theorem eqvG_sound (nan : Bool) : ∀ a b : J, eqvG nan a b = true → Equiv a b
  | .null, b, h => by cases b <;> simp [eqvG] at h; exact .null
  | .bool a, b, h => by cases b <;> simp [eqvG] at h; subst h; exact .bool _
  | .int a, b, h => by cases b <;> simp [eqvG] at h; subst h; exact .int _
  | .flt a, b, h => by cases b <;> simp [eqvG] at h; obtain ⟨h, _⟩ := h; subst h; exact .flt _
  | .str a, b, h => by cases b <;> simp [eqvG] at h; subst h; exact .str _
  | .arr a, b, h => by
      cases b <;> simp [eqvG] at h
      exact eqvL_sound nan a _ h
  | .obj a, b, h => by
      cases b with
      | obj b => ?_
      | _ => simp [eqvG] at h
      simp only [eqvG, Bool.and_eq_true, List.all_eq_true] at h
      obtain ⟨h1, h2⟩ := h
      have key := eqvO_sound nan a b h1
      refine .obj (fun k => ⟨fun ha => ?_, fun hb => ?_⟩) (fun k x y hx hy => ?_)
      · cases hb : lookup k b with
        | none => rfl
        | some y =>
          have := h2 k ((hasKey_iff_mem_keys k b).1 (hasKey_of_lookup hb))
          simp [hasKey, ha] at this
      · cases ha : lookup k a with
        | none => rfl
        | some x =>
          obtain ⟨y, hy, _⟩ := key k x ha
          rw [hb] at hy; cases hy
      · obtain ⟨y', hy', e⟩ := key k x hx
        rw [hy] at hy'; cases hy'; exact e
theorem eqvL_sound (nan : Bool) : ∀ a b : List J, eqvL nan a b = true → Equiv (.arr a) (.arr b)
  | [], b, h => by cases b <;> simp [eqvL] at h; exact .anil
  | x :: xs, b, h => by
      cases b with
      | nil => simp [eqvL] at h
      | cons y ys =>
        simp only [eqvL, Bool.and_eq_true] at h
        exact .acons (eqvG_sound nan x y h.1) (eqvL_sound nan xs ys h.2)
theorem eqvO_sound (nan : Bool) : ∀ a b : List (Str × J), eqvO nan a b = true →
    ∀ k x, lookup k a = some x → ∃ y, lookup k b = some y ∧ Equiv x y
  | [], _, _, _, _, h => by simp at h
  | (k', v) :: es, b, h, k, x, hx => by
      simp only [eqvO, Bool.and_eq_true] at h
      rw [lookup_cons] at hx
      by_cases hk : k = k'
      · simp only [hk, if_true, Option.some.injEq] at hx; subst hx; subst hk
        cases hb : lookup k b with
        | none => simp [hb] at h
        | some y => simp only [hb] at h; exact ⟨y, rfl, eqvG_sound nan v y h.1⟩
      · simp only [hk, if_false] at hx
        exact eqvO_sound nan es b h.2 k x hx
end

/-- the Boolean monitor `J.eqv` only accepts equal JSON documents. -/
theorem eqv_sound {a b : J} (h : eqv a b = true) : Equiv a b := eqvG_sound true a b h

end Clem.Py.J
