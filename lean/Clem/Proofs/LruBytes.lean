import Clem.Model.LruBytes

/-! Helper lemmas for the `LRUBytes` model. -/
namespace Clem.LruBytes

def Inv (s : State) : Prop :=
  (s.items.map Entry.key).Nodup ∧
  s.bytes = (sumCost s.items : Int) ∧
  (0 < s.maxE → s.items.length ≤ s.maxE) ∧
  (0 < s.maxB → s.bytes ≤ (s.maxB : Int)) ∧
  (s.maxE = 0 ∧ s.maxB = 0 → s.items = [])

@[simp] theorem sumCost_nil : sumCost [] = 0 := rfl
@[simp] theorem sumCost_cons (e : Entry) (l : List Entry) :
    sumCost (e :: l) = e.cost + sumCost l := by simp [sumCost]
@[simp] theorem sumCost_append (l₁ l₂ : List Entry) :
    sumCost (l₁ ++ l₂) = sumCost l₁ + sumCost l₂ := by simp [sumCost]

theorem without_keys_nodup {l : List Entry} (k : Nat) (h : (l.map Entry.key).Nodup) :
    ((without k l).map Entry.key).Nodup := by
  unfold without
  exact (List.Nodup.sublist (List.Sublist.map _ List.filter_sublist) h)

theorem not_mem_without (k : Nat) (l : List Entry) : k ∉ (without k l).map Entry.key := by
  simp [without]

theorem lookup_none_without {k : Nat} {l : List Entry} (h : lookup k l = none) :
    without k l = l := by
  unfold lookup at h; unfold without
  rw [List.find?_eq_none] at h
  apply List.filter_eq_self.mpr
  intro a ha; have := h a ha; simpa using this

/-- Removing a present key from a duplicate-free list lowers the cost sum by its cost. -/
theorem sumCost_without_some {k : Nat} {l : List Entry} {e : Entry}
    (hn : (l.map Entry.key).Nodup) (h : lookup k l = some e) :
    sumCost l = e.cost + sumCost (without k l) := by
  induction l with
  | nil => simp [lookup] at h
  | cons a t ih =>
    simp only [List.map_cons, List.nodup_cons] at hn
    by_cases hk : a.key = k
    · have : e = a := by simp [lookup, hk] at h; exact h.symm
      subst this
      have hnot : lookup k t = none := by
        unfold lookup; rw [List.find?_eq_none]
        intro x hx hxk
        have : x.key = k := by simpa using hxk
        exact hn.1 (by rw [hk, ← this]; exact List.mem_map_of_mem hx)
      simp [without, hk]
      have := lookup_none_without hnot
      unfold without at this; rw [this]
    · have h' : lookup k t = some e := by
        simpa [lookup, List.find?_cons, hk] using h
      have := ih hn.2 h'
      simp [without, hk] at this ⊢
      omega

theorem bytesWithout_add {s : State} (k v c : Nat) (h1 : (s.items.map Entry.key).Nodup)
    (h2 : s.bytes = (sumCost s.items : Int)) :
    bytesWithout s k + (c : Int)
      = ((sumCost (without k s.items ++ [⟨k, v, c⟩]) : Nat) : Int) := by
  unfold bytesWithout
  cases hl : lookup k s.items with
  | none =>
    simp only [sumCost_append, sumCost_cons, sumCost_nil, lookup_none_without hl]
    omega
  | some e =>
    have := sumCost_without_some h1 hl
    simp only [sumCost_append, sumCost_cons, sumCost_nil]
    omega

theorem length_without_le (k : Nat) (l : List Entry) : (without k l).length ≤ l.length :=
  List.length_filter_le _ _

theorem length_without_some {k : Nat} {l : List Entry} {e : Entry}
    (h : lookup k l = some e) : (without k l).length < l.length := by
  unfold without lookup at *
  have hm := List.mem_of_find?_eq_some h
  have hp := List.find?_some h
  apply List.length_filter_lt_length_iff_exists.mpr
  exact ⟨e, hm, by simpa using hp⟩

/-- What the eviction loop does: it removes a prefix, accounts for it exactly, and
stops within both caps (when the remaining list is non-empty or the total fits). -/
theorem evictLoop_spec (maxE maxB : Nat) (l : List Entry) (t : Int) :
    let r := evictLoop maxE maxB l t
    l = r.2.2 ++ r.1 ∧ r.2.1 = t - (sumCost r.2.2 : Int) ∧
    (r.1 ≠ [] → (0 < maxE → r.1.length ≤ maxE) ∧ (0 < maxB → r.2.1 ≤ (maxB : Int))) := by
  induction l generalizing t with
  | nil => simp [evictLoop]
  | cons e es ih =>
    simp only [evictLoop]
    split
    · have := ih (t - e.cost)
      simp only at this ⊢
      obtain ⟨h1, h2, h3⟩ := this
      refine ⟨?_, ?_, h3⟩
      · simp; exact h1
      · rw [h2]; simp; omega
    · rename_i hc
      simp only [not_or, not_and, Int.not_lt, Nat.not_lt] at hc
      refine ⟨by simp, by simp, ?_⟩
      intro _
      exact ⟨fun h => hc.1 h, fun h => hc.2 h⟩

end Clem.LruBytes
