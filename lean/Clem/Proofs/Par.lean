import Clem.Proofs.Sort
import Clem.Model.Par

/-! Helper lemmas for `run_parallel` (C09). -/
namespace Clem.Par

open Clem.Py

variable {K E R A X : Type}

/-! ### enumerate -/

theorem enumerate_idx_ge (i : Nat) (l : List (K × X)) : ∀ it ∈ enumerate i l, i ≤ it.idx := by
  induction l generalizing i with
  | nil => simp [enumerate]
  | cons a l ih =>
    obtain ⟨k, x⟩ := a
    intro it hit
    simp only [enumerate, List.mem_cons] at hit
    rcases hit with rfl | h
    · exact Nat.le_refl _
    · have := ih (i + 1) it h; omega

theorem enumerate_idx_lt (i : Nat) (l : List (K × X)) :
    ∀ it ∈ enumerate i l, it.idx < i + l.length := by
  induction l generalizing i with
  | nil => simp [enumerate]
  | cons a l ih =>
    obtain ⟨k, x⟩ := a
    intro it hit
    simp only [enumerate, List.mem_cons] at hit
    rcases hit with rfl | h
    · simp
    · have := ih (i + 1) it h; simp; omega

theorem enumerate_pairwise (i : Nat) (l : List (K × X)) :
    (enumerate i l).Pairwise (fun a b => a.idx < b.idx) := by
  induction l generalizing i with
  | nil => simp [enumerate]
  | cons a l ih =>
    obtain ⟨k, x⟩ := a
    simp only [enumerate, List.pairwise_cons]
    refine ⟨?_, ih (i + 1)⟩
    intro b hb
    have := enumerate_idx_ge (i + 1) l b hb
    show i < b.idx
    omega

/-! ### the executor: `Future.result()` returns the task's own outcome -/

theorem find_idx_of_mem {its : List (Item K X)}
    (hp : its.Pairwise (fun a b => a.idx < b.idx)) {it : Item K X} (hm : it ∈ its) :
    its.find? (fun t => t.idx == it.idx) = some it := by
  induction its with
  | nil => cases hm
  | cons a l ih =>
    rw [List.pairwise_cons] at hp
    rcases List.mem_cons.mp hm with rfl | h
    · simp
    · have hlt := hp.1 it h
      have hne : (a.idx == it.idx) = false := by simp; omega
      simp only [List.find?_cons, hne]
      exact ih hp.2 h

theorem futResult_complete {its : List (Item K (Except E R))}
    (hp : its.Pairwise (fun a b => a.idx < b.idx)) {it : Item K (Except E R)} (hm : it ∈ its)
    (π : List Nat) (hc : it.idx ∈ π) :
    futResult (complete its π) it.idx = some it.val := by
  induction π with
  | nil => cases hc
  | cons j π ih =>
    unfold futResult complete
    by_cases hj : j = it.idx
    · subst hj
      simp [find_idx_of_mem hp hm]
    · have hc' : it.idx ∈ π := by
        rcases List.mem_cons.mp hc with h | h
        · exact absurd h.symm hj
        · exact h
      have ih' := ih hc'
      unfold futResult complete at ih'
      rw [List.filterMap_cons]
      cases hf : (its.find? (fun t => t.idx == j)).map (fun t => (j, t.val)) with
      | none => simpa using ih'
      | some p =>
        have hp1 : p.1 = j := by
          cases hq : its.find? (fun t => t.idx == j) with
          | none => simp [hq] at hf
          | some t => simp [hq] at hf; rw [← hf]
        have hne : (it.idx == p.1) = false := by
          rw [hp1]; simp; exact fun h => hj h.symm
        obtain ⟨p1, p2⟩ := p
        simp only [List.lookup, hne] at *
        exact ih'

/-- schedule-free collection: what `collect` yields once every future has completed. -/
def collectDirect : List (Item K (Except E R)) → Coll K E R
  | [] => ⟨[], []⟩
  | it :: rest =>
    let c := collectDirect rest
    match it.val with
    | .ok r => ⟨⟨it.idx, it.key, r⟩ :: c.results, c.errors⟩
    | .error e => ⟨c.results, ⟨it.idx, it.key, e⟩ :: c.errors⟩

theorem collect_eq_direct {its : List (Item K (Except E R))}
    (hp : its.Pairwise (fun a b => a.idx < b.idx)) (π : List Nat)
    (hc : ∀ it ∈ its, it.idx ∈ π) :
    ∀ sub : List (Item K (Except E R)), (∀ it ∈ sub, it ∈ its) →
      collect (complete its π) sub = collectDirect sub := by
  intro sub
  induction sub with
  | nil => intro _; rfl
  | cons a l ih =>
    intro hsub
    have ha : a ∈ its := hsub a (by simp)
    have hl := ih (fun it h => hsub it (by simp [h]))
    have hr := futResult_complete hp ha π (hc a ha)
    simp only [collect, collectDirect, hr, hl]
    cases a.val <;> rfl

/-! ### results / errors of `collectDirect` on an enumeration -/

theorem collectDirect_results_idx (l : List (Item K (Except E R))) :
    ∀ x ∈ (collectDirect l).results, ∃ it ∈ l, it.idx = x.idx := by
  induction l with
  | nil => simp [collectDirect]
  | cons a l ih =>
    intro x hx
    simp only [collectDirect] at hx
    cases hv : a.val with
    | ok r =>
      simp only [hv, List.mem_cons] at hx
      rcases hx with rfl | h
      · exact ⟨a, by simp, rfl⟩
      · obtain ⟨it, hit, e⟩ := ih x h; exact ⟨it, by simp [hit], e⟩
    | error e =>
      simp only [hv] at hx
      obtain ⟨it, hit, e⟩ := ih x hx; exact ⟨it, by simp [hit], e⟩

theorem collectDirect_errors_idx (l : List (Item K (Except E R))) :
    ∀ x ∈ (collectDirect l).errors, ∃ it ∈ l, it.idx = x.idx := by
  induction l with
  | nil => simp [collectDirect]
  | cons a l ih =>
    intro x hx
    simp only [collectDirect] at hx
    cases hv : a.val with
    | ok r =>
      simp only [hv] at hx
      obtain ⟨it, hit, e⟩ := ih x hx; exact ⟨it, by simp [hit], e⟩
    | error e =>
      simp only [hv, List.mem_cons] at hx
      rcases hx with rfl | h
      · exact ⟨a, by simp, rfl⟩
      · obtain ⟨it, hit, e⟩ := ih x h; exact ⟨it, by simp [hit], e⟩

theorem collectDirect_results_pairwise {l : List (Item K (Except E R))}
    (hp : l.Pairwise (fun a b => a.idx < b.idx)) :
    (collectDirect l).results.Pairwise (fun a b => a.idx < b.idx) := by
  induction l with
  | nil => simp [collectDirect]
  | cons a l ih =>
    rw [List.pairwise_cons] at hp
    simp only [collectDirect]
    cases hv : a.val with
    | ok r =>
      simp only [List.pairwise_cons]
      refine ⟨?_, ih hp.2⟩
      intro b hb
      obtain ⟨it, hit, e⟩ := collectDirect_results_idx l b hb
      have := hp.1 it hit
      show a.idx < b.idx
      omega
    | error e => exact ih hp.2

theorem collectDirect_errors_pairwise {l : List (Item K (Except E R))}
    (hp : l.Pairwise (fun a b => a.idx < b.idx)) :
    (collectDirect l).errors.Pairwise (fun a b => a.idx < b.idx) := by
  induction l with
  | nil => simp [collectDirect]
  | cons a l ih =>
    rw [List.pairwise_cons] at hp
    simp only [collectDirect]
    cases hv : a.val with
    | ok r => exact ih hp.2
    | error e =>
      simp only [List.pairwise_cons]
      refine ⟨?_, ih hp.2⟩
      intro b hb
      obtain ⟨it, hit, e⟩ := collectDirect_errors_idx l b hb
      have := hp.1 it hit
      show a.idx < b.idx
      omega

theorem strip_collectDirect_results (i : Nat) (tasks : List (K × Except E R)) :
    strip (collectDirect (enumerate i tasks)).results = okPairs tasks := by
  induction tasks generalizing i with
  | nil => rfl
  | cons a l ih =>
    obtain ⟨k, o⟩ := a
    cases o with
    | ok r => simp only [enumerate, collectDirect, okPairs, strip, List.map_cons]
              have := ih (i + 1); unfold strip at this; rw [this]
    | error e => simp only [enumerate, collectDirect, okPairs]; exact ih (i + 1)

theorem strip_collectDirect_errors (i : Nat) (tasks : List (K × Except E R)) :
    strip (collectDirect (enumerate i tasks)).errors = failPairs tasks := by
  induction tasks generalizing i with
  | nil => rfl
  | cons a l ih =>
    obtain ⟨k, o⟩ := a
    cases o with
    | ok r => simp only [enumerate, collectDirect, failPairs]; exact ih (i + 1)
    | error e => simp only [enumerate, collectDirect, failPairs, strip, List.map_cons]
                 have := ih (i + 1); unfold strip at this; rw [this]

/-! ### sorting by `(order_key, idx)` on a submit-ordered list is the stable sort by `order_key` -/

theorem orderedInsert_leKI_eq (kle : K → K → Bool) (a : Item K X) (s : List (Item K X))
    (h : ∀ b ∈ s, a.idx < b.idx) :
    orderedInsert (leKI kle) a s = orderedInsert (leK kle) a s := by
  induction s with
  | nil => rfl
  | cons b s ih =>
    have hb : a.idx < b.idx := h b (by simp)
    have hle : leKI kle a b = leK kle a b := by
      have : decide (a.idx ≤ b.idx) = true := by simp; omega
      simp [leKI, leK, this]
    simp only [orderedInsert, hle]
    rw [ih (fun c hc => h c (by simp [hc]))]

theorem isort_leKI_eq_leK (kle : K → K → Bool) (l : List (Item K X))
    (hp : l.Pairwise (fun a b => a.idx < b.idx)) :
    isort (leKI kle) l = isort (leK kle) l := by
  induction l with
  | nil => rfl
  | cons a l ih =>
    rw [List.pairwise_cons] at hp
    show orderedInsert (leKI kle) a (isort (leKI kle) l) = orderedInsert (leK kle) a (isort (leK kle) l)
    rw [ih hp.2]
    apply orderedInsert_leKI_eq
    intro b hb
    exact hp.1 b ((mem_isort _).mp hb)

/-- stripping commutes with the stable sort by key. -/
theorem strip_orderedInsert (kle : K → K → Bool) (a : Item K X) (s : List (Item K X)) :
    strip (orderedInsert (leK kle) a s)
      = orderedInsert (fun p q : K × X => kle p.1 q.1) (a.key, a.val) (strip s) := by
  induction s with
  | nil => rfl
  | cons b s ih =>
    by_cases hk : kle a.key b.key = true
    · simp [orderedInsert, strip, leK, hk]
    · have ih' := ih
      unfold strip at ih'
      simp [orderedInsert, strip, leK, hk, ih']

theorem strip_isort (kle : K → K → Bool) (l : List (Item K X)) :
    strip (isort (leK kle) l) = sortPairs kle (strip l) := by
  induction l with
  | nil => rfl
  | cons a l ih =>
    show strip (orderedInsert (leK kle) a (isort (leK kle) l)) = _
    rw [strip_orderedInsert, ih]; rfl

/-! ### the sequential loop -/

theorem seqLoop_ok (i : Nat) (tasks : List (K × Except E R)) (h : failPairs tasks = []) :
    ∃ l, seqLoop (enumerate i tasks) = .ok l ∧ strip l = okPairs tasks := by
  induction tasks generalizing i with
  | nil => exact ⟨[], rfl, rfl⟩
  | cons a t ih =>
    obtain ⟨k, o⟩ := a
    cases o with
    | error e => simp [failPairs] at h
    | ok r =>
      obtain ⟨l, hl, hs⟩ := ih (i + 1) (by simpa [failPairs] using h)
      refine ⟨⟨i, k, r⟩ :: l, ?_, ?_⟩
      · simp [enumerate, seqLoop, hl]
      · simp only [strip, List.map_cons, okPairs]; unfold strip at hs; rw [hs]

theorem seqLoop_err (i : Nat) (tasks : List (K × Except E R)) (f : K × E) (fs : List (K × E))
    (h : failPairs tasks = f :: fs) : seqLoop (enumerate i tasks) = .error f := by
  induction tasks generalizing i with
  | nil => simp [failPairs] at h
  | cons a t ih =>
    obtain ⟨k, o⟩ := a
    cases o with
    | error e =>
      simp only [failPairs, List.cons.injEq] at h
      simp [enumerate, seqLoop, h.1.symm]
    | ok r =>
      have := ih (i + 1) (by simpa [failPairs] using h)
      simp [enumerate, seqLoop, this]

end Clem.Par
