import Clem.Proofs.ParT2

/-! The dedupe loop in closed form, and: the cross-shard merge walk equals the sequential tier walk (C09). -/
namespace Clem.ParT2
open Clem.Py

variable {α : Type}

def unseen (seen : List (List Nat)) (h : Hit α) : Bool := !seen.contains h.id

theorem seqFill_eq_fill (k : Int) (L out : List (Hit α)) (seen : List (List Nat)) :
    seqFill k L out seen = ((fill k L out seen).1, (fill k L out seen).2.1) := by
  induction L generalizing out seen with
  | nil => rfl
  | cons h rest ih =>
    simp only [seqFill, fill]
    split
    · exact ih out seen
    · split
      · rfl
      · exact ih _ _

theorem filter_unseen_cons (h : Hit α) (rest : List (Hit α)) (seen : List (List Nat))
    (hn : h.id ∉ rest.map Hit.id) :
    rest.filter (unseen (h.id :: seen)) = rest.filter (unseen seen) := by
  apply List.filter_congr
  intro x hx
  have : x.id ≠ h.id := fun e => hn (e ▸ List.mem_map_of_mem hx)
  simp [unseen, this]

theorem fill_char (k : Nat) : ∀ (L out : List (Hit α)) (seen : List (List Nat)),
    (L.map Hit.id).Nodup → out.length < k →
    fill (k : Int) L out seen
      = (out ++ (L.filter (unseen seen)).take (k - out.length),
         (((L.filter (unseen seen)).take (k - out.length)).map Hit.id).reverse ++ seen,
         decide (k - out.length ≤ (L.filter (unseen seen)).length)) := by
  intro L
  induction L with
  | nil =>
    intro out seen _ hlt
    have : ¬ (k - out.length ≤ 0) := by omega
    simp [fill, this]
  | cons h rest ih =>
    intro out seen hnd hlt
    rw [List.map_cons, List.nodup_cons] at hnd
    by_cases hs : seen.contains h.id = true
    · have hu : unseen seen h = false := by unfold unseen; rw [hs]; rfl
      simp only [fill, hs, if_true, List.filter_cons, hu, Bool.false_eq_true, if_false]
      exact ih out seen hnd.2 hlt
    · have hs' : seen.contains h.id = false := by simpa using hs
      have hu : unseen seen h = true := by unfold unseen; rw [hs']; rfl
      simp only [fill, hs', Bool.false_eq_true, if_false, List.filter_cons, hu, if_true]
      by_cases hk : (((out ++ [h]).length : Nat) : Int) ≥ (k : Int)
      · have h1 : k - out.length = 1 := by simp at hk; omega
        rw [if_pos hk, h1]
        simp
      · rw [if_neg hk]
        have hlt' : (out ++ [h]).length < k := by simp at hk ⊢; omega
        rw [ih (out ++ [h]) (h.id :: seen) hnd.2 hlt', filter_unseen_cons h rest seen hnd.1]
        have e : k - out.length = (k - (out ++ [h]).length) + 1 := by simp at hlt' ⊢; omega
        rw [e, List.take_succ_cons]
        simp only [List.append_assoc, List.singleton_append, List.map_cons, List.reverse_cons,
          List.length_cons]
        refine Prod.ext rfl (Prod.ext (by simp) ?_)
        simp

theorem length_filter_seen_le (M : List (Hit α)) (seen : List (List Nat))
    (hnd : (M.map Hit.id).Nodup) :
    (M.filter (fun x => seen.contains x.id)).length ≤ seen.length := by
  have h1 : ((M.filter (fun x => seen.contains x.id)).map Hit.id).Nodup :=
    hnd.sublist ((List.filter_sublist).map Hit.id)
  have h2 : (M.filter (fun x => seen.contains x.id)).map Hit.id ⊆ seen := by
    intro a ha
    obtain ⟨x, hx, rfl⟩ := List.mem_map.mp ha
    have := (List.mem_filter.mp hx).2
    simpa using this
  have := h1.length_le_of_subset h2
  simpa using this

theorem length_filter_split (p : Hit α → Bool) (M : List (Hit α)) :
    (M.filter p).length + (M.filter (fun x => !p x)).length = M.length := by
  induction M with
  | nil => rfl
  | cons a M ih =>
    simp only [List.filter_cons]
    cases p a <;> simp <;> omega

/-- looking only at the first `k` elements of a duplicate-free sorted bucket does not change what
the dedupe loop appends, as long as fewer than `k` ids have been seen. -/
theorem take_filter_take (k : Nat) (S : List (Hit α)) (seen : List (List Nat)) (m : Nat)
    (hnd : (S.map Hit.id).Nodup) (hseen : seen.length + m ≤ k) :
    ((S.take k).filter (unseen seen)).take m = (S.filter (unseen seen)).take m
    ∧ (m ≤ ((S.take k).filter (unseen seen)).length ↔ m ≤ (S.filter (unseen seen)).length) := by
  by_cases hl : S.length ≤ k
  · rw [List.take_of_length_le hl]; exact ⟨rfl, Iff.rfl⟩
  · have hsplit : S.filter (unseen seen) = (S.take k).filter (unseen seen) ++ (S.drop k).filter (unseen seen) := by
      rw [← List.filter_append, List.take_append_drop]
    have hndk : ((S.take k).map Hit.id).Nodup := hnd.sublist ((List.take_sublist k S).map Hit.id)
    have h1 := length_filter_seen_le (S.take k) seen hndk
    have h2 := length_filter_split (unseen seen) (S.take k)
    have h3 : (S.take k).length = k := by simp [List.length_take]; omega
    have h4 : (S.take k).filter (fun x => !unseen seen x) = (S.take k).filter (fun x => seen.contains x.id) := by
      apply List.filter_congr; intro x _; simp [unseen]
    rw [h4] at h2
    have hge : m ≤ ((S.take k).filter (unseen seen)).length := by omega
    refine ⟨?_, ?_⟩
    · rw [hsplit, List.take_append_of_le_length hge]
    · rw [hsplit, List.length_append]; constructor <;> intro _ <;> omega

theorem lookup_shardDict {σ : Type} (le : Hit α → Hit α → Bool) (k : Nat) (allTiers : List (List Nat))
    (candSh : σ → List Nat → List (Hit α)) (sh : σ) (t : List Nat) (ht : t ∈ allTiers) :
    (shardDict le k allTiers candSh sh).lookup t = some (topk le k (candSh sh t)) := by
  unfold shardDict
  induction allTiers with
  | nil => cases ht
  | cons a l ih =>
    simp only [List.map_cons, List.lookup]
    by_cases e : t = a
    · subst e; simp
    · have : (t == a) = false := by simpa using e
      simp only [this]
      exact ih (by rcases List.mem_cons.mp ht with h | h; exact absurd h e; exact h)

theorem bucketOf_shardDict {σ : Type} (le : Hit α → Hit α → Bool) (k : Nat) (allTiers : List (List Nat))
    (candSh : σ → List Nat → List (Hit α)) (shards : List σ) (t : List Nat) (ht : t ∈ allTiers) :
    bucketOf t (shards.map (shardDict le k allTiers candSh))
      = ((shards.map (fun sh => candSh sh t)).map (topk le k)).flatten := by
  unfold bucketOf
  induction shards with
  | nil => rfl
  | cons s rest ih =>
    simp only [List.map_cons, List.flatMap_cons, List.flatten_cons, ih,
      lookup_shardDict le k allTiers candSh s t ht, Option.getD_some]

theorem walk_par_eq_seq {σ : Type} (le : Hit α → Hit α → Bool)
    (total : ∀ a b, le a b = true ∨ le b a = true)
    (trans : ∀ a b c, le a b = true → le b c = true → le a c = true)
    (antisymm : ∀ a b, le a b = true → le b a = true → a = b)
    (k : Nat) (allTiers : List (List Nat)) (shards : List σ)
    (candSh : σ → List Nat → List (Hit α))
    (hnd : ∀ t, ((shards.map (fun sh => candSh sh t)).flatten.map Hit.id).Nodup) :
    ∀ (tiers : List (List Nat)), (∀ t ∈ tiers, t ∈ allTiers) →
    ∀ (out : List (Hit α)) (seen used : List (List Nat)), out.length < k → seen.length ≤ out.length →
      mergeTiers le (k : Int) (shards.map (shardDict le k allTiers candSh)) tiers out seen used
        = seqWalk (k : Int) (fun t => topk le k (shards.map (fun sh => candSh sh t)).flatten)
            tiers out seen used := by
  intro tiers
  induction tiers with
  | nil => intro _ out seen used _ _; rfl
  | cons t ts ih =>
    intro hsub out seen used hlt hseen
    have ht : t ∈ allTiers := hsub t (by simp)
    have ih' := ih (fun x hx => hsub x (by simp [hx]))
    simp only [mergeTiers, seqWalk, bucketOf_shardDict le k allTiers candSh shards t ht]
    -- notation
    generalize hC : (shards.map (fun sh => candSh sh t)) = C at *
    have hB := nodup_ids_flatten_topk le k C (hC ▸ hnd t)
    have hS : ((isort le (C.map (topk le k)).flatten).map Hit.id).Nodup :=
      ((isort_perm le _).map Hit.id).nodup_iff.mpr hB
    have hT : topk le k C.flatten = (isort le (C.map (topk le k)).flatten).take k := by
      rw [← topk_flatten_map le total trans antisymm k C]; rfl
    rw [hT, seqFill_eq_fill]
    by_cases he : (C.map (topk le k)).flatten.isEmpty = true
    · have hnil : (C.map (topk le k)).flatten = [] := List.isEmpty_iff.mp he
      have hno : ¬ (((out.length : Nat) : Int) ≥ (k : Int)) := by omega
      simp only [he, if_true, hnil, isort, List.foldr_nil, List.take_nil, fill, hno, if_false]
      exact ih' out seen _ hlt hseen
    · have he' : (C.map (topk le k)).flatten.isEmpty = false := by simpa using he
      simp only [he', Bool.false_eq_true, if_false]
      generalize hSd : isort le (C.map (topk le k)).flatten = S at *
      have hSk : ((S.take k).map Hit.id).Nodup := hS.sublist ((List.take_sublist k S).map Hit.id)
      obtain ⟨hA, hF⟩ := take_filter_take k S seen (k - out.length) hS (by omega)
      rw [fill_char k S out seen hS hlt, fill_char k (S.take k) out seen hSk hlt, hA]
      simp only
      have hlenA : ((S.filter (unseen seen)).take (k - out.length)).length
          = min (k - out.length) (S.filter (unseen seen)).length := List.length_take
      by_cases hflag : k - out.length ≤ (S.filter (unseen seen)).length
      · have h1 : (((out ++ (S.filter (unseen seen)).take (k - out.length)).length : Nat) : Int) ≥ (k : Int) := by
          rw [List.length_append, hlenA]; omega
        simp only [hflag, decide_true, if_true, h1]
      · have h1 : ¬ ((((out ++ (S.filter (unseen seen)).take (k - out.length)).length : Nat) : Int) ≥ (k : Int)) := by
          rw [List.length_append, hlenA]; omega
        simp only [hflag, decide_false, Bool.false_eq_true, if_false, h1]
        apply ih'
        · rw [List.length_append, hlenA]; omega
        · simp only [List.length_append, List.length_reverse, List.length_map, hlenA]; omega

/-! ### the repaired merge key is the raw ranking key when `_qscore` is monotone -/

theorem hitLeQR_eq_rawLe (q : α → Int) (lt : α → α → Bool)
    (asym : ∀ x y, lt x y = true → lt y x = false)
    (qmono : ∀ x y, lt x y = false → q y ≤ q x) (a b : Hit α) :
    hitLeQR q lt a b = rawLe lt a b := by
  unfold hitLeQR rawLe
  cases hba : lt b.score a.score <;> cases hab : lt a.score b.score
  · -- neither is smaller: same quantum
    have h1 := qmono _ _ hba
    have h2 := qmono _ _ hab
    have : q a.score = q b.score := by omega
    simp [this]
  · -- a < b strictly
    have h1 := qmono _ _ hba
    by_cases hq : q a.score = q b.score
    · simp [hq]
    · have : ¬ (q b.score < q a.score) := by omega
      simp [this, hq]
  · -- b < a strictly
    have h2 := qmono _ _ hab
    by_cases hq : q a.score = q b.score
    · simp [hq]
    · have : q b.score < q a.score := by omega
      simp [this]
  · -- both strictly smaller: excluded by asymmetry
    have := asym _ _ hba
    rw [hab] at this
    cases this

end Clem.ParT2
