import Clem.Model.LogJson

/-! Helper lemmas for `normalize_for_identity`: `get` through `setIf`/`pop`, commutation. -/
namespace Clem.LogJson

theorem get_setIf (k k' : Str) (v : V) : ∀ r : Rec,
    get k' (setIf k v r) = if k' = k then (get k' r).map (fun _ => v) else get k' r
  | [] => by simp [get, setIf]
  | (ek, ev) :: r => by
    have ih := get_setIf k k' v r
    simp only [get, setIf] at ih ⊢
    by_cases h1 : ek = k
    · subst h1
      by_cases h2 : k' = ek
      · subst h2; simp
      · have hb : (k' == ek) = false := by simpa using h2
        simp only [List.map_cons, if_true, List.lookup_cons, hb, h2, if_false] at ih ⊢
        exact ih
    · by_cases h2 : k' = ek
      · subst h2; simp [h1]
      · have hb : (k' == ek) = false := by simpa using h2
        simp only [List.map_cons, h1, if_false, List.lookup_cons, hb]
        exact ih

theorem get_pop (k k' : Str) : ∀ r : Rec,
    get k' (pop k r) = if k' = k then none else get k' r
  | [] => by simp [get, pop]
  | (ek, ev) :: r => by
    have ih := get_pop k k' r
    simp only [get, pop] at ih ⊢
    by_cases h1 : ek = k
    · subst h1
      simp only [List.filter_cons, beq_self_eq_true, Bool.not_true, Bool.false_eq_true, if_false,
        List.lookup_cons]
      by_cases h2 : k' = ek
      · simpa [h2] using ih
      · have hb : (k' == ek) = false := by simpa using h2
        simp only [hb, h2, if_false] at ih ⊢
        exact ih
    · have hk : (ek == k) = false := by simpa using h1
      simp only [List.filter_cons, hk, Bool.not_false, if_true, List.lookup_cons]
      by_cases h2 : k' = ek
      · subst h2; simp [h1]
      · have hb : (k' == ek) = false := by simpa using h2
        simp only [hb]
        exact ih

theorem setIf_setIf_same (k : Str) (v w : V) (r : Rec) : setIf k v (setIf k w r) = setIf k v r := by
  simp only [setIf, List.map_map]
  apply List.map_congr_left
  intro e _
  by_cases h : e.1 = k <;> simp [h]

theorem setIf_comm (k k' : Str) (v v' : V) (h : k ≠ k') (r : Rec) :
    setIf k v (setIf k' v' r) = setIf k' v' (setIf k v r) := by
  simp only [setIf, List.map_map]
  apply List.map_congr_left
  intro e _
  obtain ⟨ek, ev⟩ := e
  by_cases h1 : ek = k
  · subst h1
    have : ¬ ek = k' := h
    simp [this]
  · by_cases h2 : ek = k'
    · subst h2; simp [h1]
    · simp [h1, h2]

theorem setF_fst (k : Str) (v : V) (e : Str × V) :
    (if e.1 = k then (e.1, v) else e).1 = e.1 := by
  by_cases h : e.1 = k <;> simp [h]

theorem setIf_pop (k k' : Str) (v : V) (r : Rec) : setIf k v (pop k' r) = pop k' (setIf k v r) := by
  simp only [setIf, pop, List.filter_map]
  congr 1
  apply List.filter_congr
  intro e _
  simp only [Function.comp, setF_fst]

theorem pop_comm (k k' : Str) (r : Rec) : pop k (pop k' r) = pop k' (pop k r) := by
  simp only [pop, List.filter_filter]
  congr 1; funext e; exact Bool.and_comm _ _

theorem pop_idem (k : Str) (r : Rec) : pop k (pop k r) = pop k r := by
  simp [pop, List.filter_filter]

/-- `setIf` never changes the key list. -/
theorem keys_setIf (k : Str) (v : V) (r : Rec) : keys (setIf k v r) = keys r := by
  simp only [keys, setIf, List.map_map]
  apply List.map_congr_left
  intro e _
  by_cases h : e.1 = k <;> simp [h]

theorem keys_pop (k : Str) (r : Rec) : keys (pop k r) = (keys r).filter (fun x => !(x == k)) := by
  induction r with
  | nil => rfl
  | cons e r ih =>
    simp only [keys, pop] at ih ⊢
    by_cases h : e.1 = k <;> simp [h, ih]

/-! ### the sub-record outside a key set is untouched -/

def outside (ks : List Str) (r : Rec) : Rec := r.filter (fun e => !ks.contains e.1)

theorem outside_setIf (ks : List Str) (k : Str) (v : V) (hk : ks.contains k = true) (r : Rec) :
    outside ks (setIf k v r) = outside ks r := by
  simp only [outside, setIf, List.filter_map]
  have e1 : List.filter ((fun e : Str × V => !ks.contains e.1) ∘ fun e => if e.1 = k then (e.1, v) else e) r
      = List.filter (fun e => !ks.contains e.1) r := by
    apply List.filter_congr
    intro e _
    simp only [Function.comp, setF_fst]
  rw [e1]
  conv => rhs; rw [← List.map_id (List.filter (fun e => !ks.contains e.1) r)]
  apply List.map_congr_left
  intro e he
  have hq := (List.mem_filter.mp he).2
  have : ¬ e.1 = k := by
    intro h; rw [h, hk] at hq; simp at hq
  simp [this]

theorem outside_pop (ks : List Str) (k : Str) (hk : ks.contains k = true) (r : Rec) :
    outside ks (pop k r) = outside ks r := by
  simp only [outside, pop, List.filter_filter]
  apply List.filter_congr
  intro e _
  by_cases h : e.1 = k
  · rw [h, hk]; simp
  · simp [h]

/-! ### sub-steps commute with operations on other keys -/

theorem normDur_setIf (k : Str) (v : V) (h : k ≠ kDur) (r : Rec) :
    normDur (setIf k v r) = setIf k v (normDur r) := by
  unfold normDur
  have hg : get kDur (setIf k v r) = get kDur r := by
    rw [get_setIf]; simp [Ne.symm h]
  rw [hg]
  cases (get kDur r).bind V.dkeys with
  | none => rfl
  | some ks => exact setIf_comm kDur k _ _ (Ne.symm h) r

theorem normDur_pop (k : Str) (h : k ≠ kDur) (r : Rec) : normDur (pop k r) = pop k (normDur r) := by
  unfold normDur
  have hg : get kDur (pop k r) = get kDur r := by
    rw [get_pop]; simp [Ne.symm h]
  rw [hg]
  cases (get kDur r).bind V.dkeys with
  | none => rfl
  | some ks => exact setIf_pop kDur k _ r

theorem coerceSlice_setIf (k : Str) (v : V) (h : k ≠ kSlice) (r : Rec) :
    coerceSlice (setIf k v r) = setIf k v (coerceSlice r) := by
  unfold coerceSlice
  have hg : get kSlice (setIf k v r) = get kSlice r := by
    rw [get_setIf]; simp [Ne.symm h]
  rw [hg]
  cases (get kSlice r).bind V.asInt with
  | none => rfl
  | some n => exact setIf_comm kSlice k _ _ (Ne.symm h) r

theorem coerceSlice_pop (k : Str) (h : k ≠ kSlice) (r : Rec) :
    coerceSlice (pop k r) = pop k (coerceSlice r) := by
  unfold coerceSlice
  have hg : get kSlice (pop k r) = get kSlice r := by
    rw [get_pop]; simp [Ne.symm h]
  rw [hg]
  cases (get kSlice r).bind V.asInt with
  | none => rfl
  | some n => exact setIf_pop kSlice k _ r

theorem yieldedTruthy_setIf (k : Str) (v : V) (h : k ≠ kYielded) (r : Rec) :
    yieldedTruthy (setIf k v r) = yieldedTruthy r := by
  unfold yieldedTruthy
  rw [get_setIf]; simp [Ne.symm h]

theorem yieldedTruthy_pop (k : Str) (h : k ≠ kYielded) (r : Rec) :
    yieldedTruthy (pop k r) = yieldedTruthy r := by
  unfold yieldedTruthy
  rw [get_pop]; simp [Ne.symm h]

theorem normDur_idem (r : Rec) : normDur (normDur r) = normDur r := by
  unfold normDur
  cases h : (get kDur r).bind V.dkeys with
  | none => simp only [h]
  | some ks =>
    simp only
    have hg : (get kDur (setIf kDur (.zeros ks) r)).bind V.dkeys = some ks := by
      rw [get_setIf]
      cases hgr : get kDur r with
      | none => rw [hgr] at h; simp at h
      | some v => simp [V.dkeys]
    rw [hg]
    exact setIf_setIf_same kDur _ _ r

theorem coerceSlice_idem (r : Rec) : coerceSlice (coerceSlice r) = coerceSlice r := by
  unfold coerceSlice
  cases h : (get kSlice r).bind V.asInt with
  | none => simp only [h]
  | some n =>
    simp only
    have hg : (get kSlice (setIf kSlice (.int n) r)).bind V.asInt = some n := by
      rw [get_setIf]
      cases hgr : get kSlice r with
      | none => rw [hgr] at h; simp at h
      | some v => simp [V.asInt]
    rw [hg]
    exact setIf_setIf_same kSlice _ _ r

theorem normDur_coerceSlice (r : Rec) : normDur (coerceSlice r) = coerceSlice (normDur r) := by
  have hne : kSlice ≠ kDur := by decide
  unfold coerceSlice
  have hg : get kSlice (normDur r) = get kSlice r := by
    unfold normDur
    cases (get kDur r).bind V.dkeys with
    | none => rfl
    | some ks => simp only; rw [get_setIf]; simp [hne]
  rw [hg]
  cases (get kSlice r).bind V.asInt with
  | none => rfl
  | some n => exact normDur_setIf kSlice _ hne r

theorem yieldedTruthy_normDur (r : Rec) : yieldedTruthy (normDur r) = yieldedTruthy r := by
  unfold normDur
  cases (get kDur r).bind V.dkeys with
  | none => rfl
  | some ks => exact yieldedTruthy_setIf kDur _ (by decide) r

theorem yieldedTruthy_coerceSlice (r : Rec) : yieldedTruthy (coerceSlice r) = yieldedTruthy r := by
  unfold coerceSlice
  cases (get kSlice r).bind V.asInt with
  | none => rfl
  | some n => exact yieldedTruthy_setIf kSlice _ (by decide) r

theorem yieldedTruthy_set_tru (r : Rec) (h : yieldedTruthy r = true) :
    yieldedTruthy (setIf kYielded .tru r) = true := by
  unfold yieldedTruthy at h ⊢
  rw [get_setIf]
  cases hg : get kYielded r with
  | none => rw [hg] at h; simp at h
  | some v => simp [V.truthy]

theorem yieldedTruthy_pop_self (r : Rec) : yieldedTruthy (pop kYielded r) = false := by
  unfold yieldedTruthy
  rw [get_pop]; simp

theorem normTurn_idem (r : Rec) : normTurn (normTurn r) = normTurn r := by
  unfold normTurn
  simp only
  cases hy : yieldedTruthy (normDur r) with
  | true =>
    simp only [if_true]
    have e1 : normDur (setIf kYielded .tru (coerceSlice (normDur r)))
        = setIf kYielded .tru (coerceSlice (normDur r)) := by
      rw [normDur_setIf _ _ (by decide), normDur_coerceSlice, normDur_idem]
    have e2 : yieldedTruthy (setIf kYielded .tru (coerceSlice (normDur r))) = true :=
      yieldedTruthy_set_tru _ (by rw [yieldedTruthy_coerceSlice]; exact hy)
    rw [e1, e2]
    simp only [if_true]
    rw [coerceSlice_setIf _ _ (by decide), coerceSlice_idem, setIf_setIf_same]
  | false =>
    simp only [Bool.false_eq_true, if_false]
    have e1 : normDur (pop kYielded (pop kSlice (normDur r))) = pop kYielded (pop kSlice (normDur r)) := by
      rw [normDur_pop _ (by decide), normDur_pop _ (by decide), normDur_idem]
    rw [e1, yieldedTruthy_pop_self]
    simp only [Bool.false_eq_true, if_false]
    rw [pop_comm kSlice kYielded, pop_idem kYielded, pop_idem kSlice]

/-! ### `normBase` and `normTurn` act on different keys -/

theorem normBase_idem (r : Rec) : normBase (normBase r) = normBase r := by
  unfold normBase
  rw [setIf_pop, pop_idem, setIf_setIf_same]

theorem setIf_normBase (k : Str) (v : V) (h : k ≠ kMs) (r : Rec) :
    setIf k v (normBase r) = normBase (setIf k v r) := by
  unfold normBase
  rw [setIf_pop, setIf_comm k kMs _ _ h]

theorem pop_normBase (k : Str) (r : Rec) : pop k (normBase r) = normBase (pop k r) := by
  unfold normBase
  rw [pop_comm, setIf_pop]

theorem get_normBase (k : Str) (h1 : k ≠ kMs) (h2 : k ≠ kNow) (r : Rec) :
    get k (normBase r) = get k r := by
  unfold normBase
  rw [get_pop, get_setIf]; simp [h1, h2]

theorem normDur_normBase (r : Rec) : normDur (normBase r) = normBase (normDur r) := by
  unfold normBase
  rw [normDur_pop _ (by decide), normDur_setIf _ _ (by decide)]

theorem coerceSlice_normBase (r : Rec) : coerceSlice (normBase r) = normBase (coerceSlice r) := by
  unfold normBase
  rw [coerceSlice_pop _ (by decide), coerceSlice_setIf _ _ (by decide)]

theorem yieldedTruthy_normBase (r : Rec) : yieldedTruthy (normBase r) = yieldedTruthy r := by
  unfold normBase
  rw [yieldedTruthy_pop _ (by decide), yieldedTruthy_setIf _ _ (by decide)]

theorem normTurn_normBase (r : Rec) : normTurn (normBase r) = normBase (normTurn r) := by
  unfold normTurn
  simp only
  rw [normDur_normBase, yieldedTruthy_normBase]
  cases yieldedTruthy (normDur r) with
  | true =>
    simp only [if_true]
    rw [coerceSlice_normBase, setIf_normBase _ _ (by decide)]
  | false =>
    simp only [Bool.false_eq_true, if_false]
    rw [pop_normBase, pop_normBase]

/-! ### only volatile fields are touched -/

theorem outside_normDur (ks : List Str) (h : ks.contains kDur = true) (r : Rec) :
    outside ks (normDur r) = outside ks r := by
  unfold normDur
  cases (get kDur r).bind V.dkeys with
  | none => rfl
  | some _ => exact outside_setIf ks kDur _ h r

theorem outside_coerceSlice (ks : List Str) (h : ks.contains kSlice = true) (r : Rec) :
    outside ks (coerceSlice r) = outside ks r := by
  unfold coerceSlice
  cases (get kSlice r).bind V.asInt with
  | none => rfl
  | some _ => exact outside_setIf ks kSlice _ h r

theorem outside_normBase (ks : List Str) (h1 : ks.contains kMs = true) (h2 : ks.contains kNow = true)
    (r : Rec) : outside ks (normBase r) = outside ks r := by
  unfold normBase
  rw [outside_pop ks kNow h2, outside_setIf ks kMs _ h1]

theorem outside_normTurn (ks : List Str) (h1 : ks.contains kDur = true)
    (h2 : ks.contains kYielded = true) (h3 : ks.contains kSlice = true) (r : Rec) :
    outside ks (normTurn r) = outside ks r := by
  unfold normTurn
  simp only
  cases yieldedTruthy (normDur r) with
  | true =>
    simp only [if_true]
    rw [outside_setIf ks _ _ h2, outside_coerceSlice ks h3, outside_normDur ks h1]
  | false =>
    simp only [Bool.false_eq_true, if_false]
    rw [outside_pop ks _ h2, outside_pop ks _ h3, outside_normDur ks h1]

/-! ### facts used by the monitor `normOkB` -/

/-- every `ms` entry holds `0.0`. -/
def msZero (r : Rec) : Bool := r.all (fun e => !(e.1 == kMs) || e.2 == .flt0)

theorem msZero_setIf_ms (r : Rec) : msZero (setIf kMs .flt0 r) = true := by
  simp only [msZero, setIf, List.all_map, List.all_eq_true]
  intro e _
  by_cases h : e.1 = kMs <;> simp [h]

theorem msZero_pop (k : Str) (r : Rec) (h : msZero r = true) : msZero (pop k r) = true := by
  simp only [msZero, pop, List.all_eq_true] at h ⊢
  intro e he
  exact h e (List.mem_filter.mp he).1

theorem msZero_setIf (k : Str) (v : V) (hk : k ≠ kMs) (r : Rec) (h : msZero r = true) :
    msZero (setIf k v r) = true := by
  simp only [msZero, setIf, List.all_map, List.all_eq_true] at h ⊢
  intro e he
  by_cases h1 : e.1 = k
  · have : ¬ e.1 = kMs := fun h2 => hk (h1.symm.trans h2)
    simp [h1, hk]
  · simpa [h1] using h e he

theorem msZero_normDur (r : Rec) (h : msZero r = true) : msZero (normDur r) = true := by
  unfold normDur
  cases (get kDur r).bind V.dkeys with
  | none => exact h
  | some ks => exact msZero_setIf _ _ (by decide) r h

theorem msZero_coerceSlice (r : Rec) (h : msZero r = true) : msZero (coerceSlice r) = true := by
  unfold coerceSlice
  cases (get kSlice r).bind V.asInt with
  | none => exact h
  | some n => exact msZero_setIf _ _ (by decide) r h

theorem msZero_normTurn (r : Rec) (h : msZero r = true) : msZero (normTurn r) = true := by
  unfold normTurn
  simp only
  cases yieldedTruthy (normDur r) with
  | true =>
    simp only [if_true]
    exact msZero_setIf _ _ (by decide) _ (msZero_coerceSlice _ (msZero_normDur r h))
  | false =>
    simp only [Bool.false_eq_true, if_false]
    exact msZero_pop _ _ (msZero_pop _ _ (msZero_normDur r h))

theorem msZero_normBase (r : Rec) : msZero (normBase r) = true :=
  msZero_pop _ _ (msZero_setIf_ms r)

/-- whether key `k` is present is not changed by operations on other keys. -/
theorem has_setIf (k k' : Str) (v : V) (r : Rec) :
    (keys (setIf k' v r)).contains k = (keys r).contains k := by rw [keys_setIf]

theorem has_pop (k k' : Str) (hk : k ≠ k') (r : Rec) :
    (keys (pop k' r)).contains k = (keys r).contains k := by
  rw [keys_pop, Bool.eq_iff_iff]
  simp [List.mem_filter, hk]

theorem hasnot_pop (k : Str) (r : Rec) : (keys (pop k r)).contains k = false := by
  rw [keys_pop]
  simp

theorem has_normDur (k : Str) (r : Rec) : (keys (normDur r)).contains k = (keys r).contains k := by
  unfold normDur
  cases (get kDur r).bind V.dkeys with
  | none => rfl
  | some ks => exact has_setIf k _ _ r

theorem has_coerceSlice (k : Str) (r : Rec) :
    (keys (coerceSlice r)).contains k = (keys r).contains k := by
  unfold coerceSlice
  cases (get kSlice r).bind V.asInt with
  | none => rfl
  | some n => exact has_setIf k _ _ r

theorem has_normTurn (k : Str) (h1 : k ≠ kYielded) (h2 : k ≠ kSlice) (r : Rec) :
    (keys (normTurn r)).contains k = (keys r).contains k := by
  unfold normTurn
  simp only
  cases yieldedTruthy (normDur r) with
  | true =>
    simp only [if_true]
    rw [has_setIf, has_coerceSlice, has_normDur]
  | false =>
    simp only [Bool.false_eq_true, if_false]
    rw [has_pop k _ h1, has_pop k _ h2, has_normDur]

end Clem.LogJson
