import Clem.Model.LogFrame

/-! Helper lemmas for JSONL framing and interleaved atomic appends. -/
namespace Clem.LogFrame

theorem parseAux_line (l : Bytes) : ∀ (acc rest : Bytes), LF ∉ l →
    parseAux acc (l ++ LF :: rest) =
      ((acc.reverse ++ l) :: (parseAux [] rest).1, (parseAux [] rest).2) := by
  induction l with
  | nil => intro acc rest _; simp [parseAux]
  | cons b l ih =>
    intro acc rest h
    have hb : b ≠ LF := fun e => h (by simp [e])
    have hl : LF ∉ l := fun e => h (by simp [e])
    simp only [List.cons_append, parseAux, hb, if_false]
    rw [ih (b :: acc) rest hl]
    simp

theorem parse_frames : ∀ (ls : List Bytes), (∀ l ∈ ls, LF ∉ l) →
    parseAux [] (ls.map frame).flatten = (ls, [])
  | [], _ => by simp [parseAux]
  | l :: ls, h => by
    have ih := parse_frames ls (fun x hx => h x (List.mem_cons_of_mem _ hx))
    simp only [List.map_cons, List.flatten_cons, frame, List.append_assoc, List.singleton_append]
    rw [parseAux_line l [] _ (h l List.mem_cons_self)]
    rw [ih]; simp

/-- converse: whatever `parseAux` accepts with an empty remainder is a concatenation of frames. -/
theorem parseAux_sound : ∀ (file acc : Bytes) (ls : List Bytes), LF ∉ acc →
    parseAux acc file = (ls, []) →
    acc.reverse ++ file = (ls.map frame).flatten ∧ ∀ l ∈ ls, LF ∉ l
  | [], acc, ls, _, h => by
    simp only [parseAux, Prod.mk.injEq] at h
    obtain ⟨h1, h2⟩ := h
    subst h1
    simp at h2
    simp [h2]
  | b :: bs, acc, ls, hacc, h => by
    simp only [parseAux] at h
    by_cases hb : b = LF
    · simp only [hb, if_true, Prod.mk.injEq] at h
      obtain ⟨h1, h2⟩ := h
      have ih := parseAux_sound bs [] (parseAux [] bs).1 (by simp) (Prod.ext rfl h2)
      subst h1
      subst hb
      refine ⟨?_, ?_⟩
      · simp only [List.map_cons, List.flatten_cons, frame]
        have := ih.1
        simp only [List.reverse_nil, List.nil_append] at this
        rw [← this]; simp
      · intro l hl
        rcases List.mem_cons.mp hl with rfl | hl
        · simpa using hacc
        · exact ih.2 l hl
    · simp only [hb, if_false] at h
      have hacc' : LF ∉ (b :: acc) := by
        intro hm
        rcases List.mem_cons.mp hm with e | e
        · exact hb e.symm
        · exact hacc e
      have ih := parseAux_sound bs (b :: acc) ls hacc' h
      refine ⟨?_, ih.2⟩
      rw [← ih.1]; simp

/-- frames followed by arbitrary bytes. -/
theorem parse_frames_append : ∀ (ls : List Bytes) (rest : Bytes), (∀ l ∈ ls, LF ∉ l) →
    parseAux [] ((ls.map frame).flatten ++ rest) = (ls ++ (parseAux [] rest).1, (parseAux [] rest).2)
  | [], rest, _ => by simp
  | l :: ls, rest, h => by
    have ih := parse_frames_append ls rest (fun x hx => h x (List.mem_cons_of_mem _ hx))
    simp only [List.map_cons, List.flatten_cons, frame, List.append_assoc, List.cons_append]
    rw [parseAux_line l [] _ (h l List.mem_cons_self)]
    simp only [List.nil_append, List.reverse_nil]
    rw [ih]

/-- a complete chunk followed by anything: the lines just concatenate. -/
theorem parse_complete_append (a b : Bytes) (h : (parseAux [] a).2 = []) :
    parseAux [] (a ++ b) = ((parseAux [] a).1 ++ (parseAux [] b).1, (parseAux [] b).2) := by
  have hs := parseAux_sound a [] (parseAux [] a).1 (by simp) (Prod.ext rfl h)
  have e : a = ((parseAux [] a).1.map frame).flatten := by simpa using hs.1
  conv => lhs; rw [e]
  exact parse_frames_append _ b hs.2

theorem parse_complete_chunks : ∀ (cs : List Bytes), (∀ c ∈ cs, (parseAux [] c).2 = []) →
    parseAux [] cs.flatten = ((cs.map (fun c => (parseAux [] c).1)).flatten, [])
  | [], _ => by simp [parseAux]
  | c :: cs, h => by
    have ih := parse_complete_chunks cs (fun x hx => h x (List.mem_cons_of_mem _ hx))
    rw [List.flatten_cons, parse_complete_append c _ (h c List.mem_cons_self), ih]
    simp

theorem mem_mergesAux {α : Type} (x : α) (xs : List α) (recx : List α → List (List α))
    (hrec : ∀ ys m, m ∈ recx ys → ∀ c ∈ m, c ∈ xs ∨ c ∈ ys) :
    ∀ (ys : List α) (m : List α), m ∈ mergesAux x xs recx ys → ∀ c ∈ m, c ∈ x :: xs ∨ c ∈ ys
  | [], m, h, c, hc => by
    simp only [mergesAux, List.mem_singleton] at h
    subst h; exact Or.inl hc
  | y :: ys, m, h, c, hc => by
    simp only [mergesAux, List.mem_append, List.mem_map] at h
    rcases h with ⟨m', hm', rfl⟩ | ⟨m', hm', rfl⟩
    · rcases List.mem_cons.mp hc with rfl | hc'
      · exact Or.inl List.mem_cons_self
      · rcases hrec _ m' hm' c hc' with h1 | h1
        · exact Or.inl (List.mem_cons_of_mem _ h1)
        · exact Or.inr h1
    · rcases List.mem_cons.mp hc with rfl | hc'
      · exact Or.inr List.mem_cons_self
      · rcases mem_mergesAux x xs recx hrec ys m' hm' c hc' with h1 | h1
        · exact Or.inl h1
        · exact Or.inr (List.mem_cons_of_mem _ h1)

theorem mem_merges {α : Type} : ∀ (xs ys m : List α), m ∈ merges xs ys → ∀ c ∈ m, c ∈ xs ∨ c ∈ ys
  | [], ys, m, h, c, hc => by
    simp only [merges, List.mem_singleton] at h
    subst h; exact Or.inr hc
  | x :: xs, ys, m, h, c, hc =>
    mem_mergesAux x xs (merges xs) (fun ys' m' => mem_merges xs ys' m') ys m h c hc

/-! ### popAt / step / exec -/

theorem popAt_some : ∀ (qs : List (List Bytes)) (w : Nat) (l : Bytes) (qs' : List (List Bytes)),
    popAt qs w = some (l, qs') →
    qs.getD w [] = l :: qs'.getD w [] ∧ (∀ w', w' ≠ w → qs'.getD w' [] = qs.getD w' []) ∧
    qs'.length = qs.length ∧
    (qs.map List.length).sum = (qs'.map List.length).sum + 1 ∧
    (∀ q' ∈ qs', ∀ x ∈ q', ∃ q ∈ qs, x ∈ q) ∧ (∃ q ∈ qs, l ∈ q)
  | [], _, _, _, h => by simp [popAt] at h
  | q :: qs, 0, l, qs', h => by
    cases q with
    | nil => simp [popAt] at h
    | cons x q' =>
      simp only [popAt, Option.some.injEq, Prod.mk.injEq] at h
      obtain ⟨h1, h2⟩ := h
      subst h1; subst h2
      refine ⟨by simp, ?_, by simp, by simp; omega, ?_, ⟨_, List.mem_cons_self, List.mem_cons_self⟩⟩
      · intro w' hw'
        cases w' with
        | zero => exact absurd rfl hw'
        | succ n => simp
      · intro q'' hq'' y hy
        rcases List.mem_cons.mp hq'' with rfl | hq''
        · exact ⟨_, List.mem_cons_self, List.mem_cons_of_mem _ hy⟩
        · exact ⟨q'', List.mem_cons_of_mem _ hq'', hy⟩
  | q :: qs, w + 1, l, qs', h => by
    simp only [popAt] at h
    cases hp : popAt qs w with
    | none => simp [hp] at h
    | some r =>
      obtain ⟨l0, qs0⟩ := r
      simp only [hp, Option.some.injEq, Prod.mk.injEq] at h
      obtain ⟨h1, h2⟩ := h
      subst h1; subst h2
      obtain ⟨a, b, c, d, e, f⟩ := popAt_some qs w l0 qs0 hp
      refine ⟨by simpa using a, ?_, by simp [c], by simp [d]; omega, ?_, ?_⟩
      · intro w' hw'
        cases w' with
        | zero => simp
        | succ n => simpa using b n (by omega)
      · intro q'' hq'' y hy
        rcases List.mem_cons.mp hq'' with rfl | hq''
        · exact ⟨_, List.mem_cons_self, hy⟩
        · obtain ⟨q0, hq0, hy0⟩ := e q'' hq'' y hy
          exact ⟨q0, List.mem_cons_of_mem _ hq0, hy0⟩
      · obtain ⟨q0, hq0, hl0⟩ := f
        exact ⟨q0, List.mem_cons_of_mem _ hq0, hl0⟩

theorem linesOf_append (w : Nat) (t1 t2 : List (Nat × Bytes)) :
    linesOf w (t1 ++ t2) = linesOf w t1 ++ linesOf w t2 := by
  simp [linesOf, List.filter_append]

/-- the invariants carried by a run, relative to the initial queues `qs0`. -/
structure Inv (qs0 : List (List Bytes)) (s : Run) : Prop where
  file : s.file = (s.trace.map (fun e => frame e.2)).flatten
  writer : ∀ w, linesOf w s.trace ++ s.pending.getD w [] = qs0.getD w []
  count : s.trace.length + (s.pending.map List.length).sum = (qs0.map List.length).sum
  sub : ∀ q' ∈ s.pending, ∀ x ∈ q', ∃ q ∈ qs0, x ∈ q
  tr : ∀ e ∈ s.trace, ∃ q ∈ qs0, e.2 ∈ q

theorem inv_init (qs : List (List Bytes)) : Inv qs ⟨[], [], qs⟩ :=
  ⟨by simp, by intro w; simp [linesOf], by simp, fun q' hq' x hx => ⟨q', hq', hx⟩, by simp⟩

theorem inv_step {qs0 : List (List Bytes)} {s : Run} (h : Inv qs0 s) (w : Nat) : Inv qs0 (step s w) := by
  unfold step
  cases hp : popAt s.pending w with
  | none => simpa using h
  | some r =>
    obtain ⟨l, qs'⟩ := r
    obtain ⟨a, b, _, d, e, f⟩ := popAt_some s.pending w l qs' hp
    simp only
    refine ⟨?_, ?_, ?_, ?_, ?_⟩
    · simp [h.file]
    · intro w'
      rw [linesOf_append]
      by_cases hw : w' = w
      · subst hw
        have := h.writer w'
        rw [a] at this
        simp only [linesOf, List.filter_cons, beq_self_eq_true, if_true, List.filter_nil,
          List.map_cons, List.map_nil] at this ⊢
        rw [← this]; simp
      · have := h.writer w'
        rw [b w' hw]
        have e0 : linesOf w' [(w, l)] = [] := by
          simp only [linesOf, List.filter_cons, List.filter_nil]
          have : (w == w') = false := by simpa using fun e => hw e.symm
          simp [this]
        rw [e0]; simpa using this
    · have := h.count
      simp only [List.length_append, List.length_cons, List.length_nil]
      omega
    · intro q' hq' x hx
      obtain ⟨q, hq, hxq⟩ := e q' hq' x hx
      exact h.sub q hq x hxq
    · intro e' he'
      rcases List.mem_append.mp he' with h1 | h1
      · exact h.tr e' h1
      · simp only [List.mem_singleton] at h1
        subst h1
        obtain ⟨q, hq, hl⟩ := f
        exact h.sub q hq l hl

theorem inv_foldl {qs0 : List (List Bytes)} : ∀ (sched : List Nat) (s : Run), Inv qs0 s →
    Inv qs0 (sched.foldl step s)
  | [], _, h => h
  | w :: sched, s, h => inv_foldl sched (step s w) (inv_step h w)

theorem inv_exec (qs : List (List Bytes)) (sched : List Nat) : Inv qs (exec qs sched) :=
  inv_foldl sched _ (inv_init qs)

/-! ### CRLF replacement is the identity on CR-free text -/
theorem replaceCRLF_id : ∀ (t : Bytes), CR ∉ t → replaceCRLF t = t
  | [], _ => rfl
  | [_], _ => rfl
  | a :: b :: rest, h => by
    have ha : a ≠ CR := fun e => h (by simp [e])
    have ih := replaceCRLF_id (b :: rest) (fun e => h (List.mem_cons_of_mem _ e))
    simp only [replaceCRLF, ha, false_and, if_false]
    rw [ih]

end Clem.LogFrame
