import Clem.Proofs.Par
import Clem.Model.ParT1

/-! Helper lemmas for the T1 fan-out (C09). -/
namespace Clem.ParT1

open Clem.Par Clem.Py

variable {α D G E : Type}

theorem mergeStep_eq_seqStep (gt : α → α → Bool) (gate : Bool) (a : Agg α D) (r : List D × GM α) :
    mergeStep gt gate a r = seqStep gt gate a r := rfl

/-- `(key, result)` pairs in submit order when `g` never raises. -/
def pairsFrom (name : G → List Nat) (g : G → List D × GM α) (i : Nat) :
    List G → List (Key × (List D × GM α))
  | [] => []
  | gid :: t => ((i, name gid), g gid) :: pairsFrom name g (i + 1) t

theorem failPairs_tasksFrom (name : G → List Nat) (g : G → List D × GM α) (i : Nat) (l : List G) :
    failPairs (tasksFrom (E := E) name (fun x => .ok (g x)) i l) = [] := by
  induction l generalizing i with
  | nil => rfl
  | cons a l ih => simp only [tasksFrom, failPairs]; exact ih (i + 1)

theorem okPairs_tasksFrom (name : G → List Nat) (g : G → List D × GM α) (i : Nat) (l : List G) :
    okPairs (tasksFrom (E := E) name (fun x => .ok (g x)) i l) = pairsFrom name g i l := by
  induction l generalizing i with
  | nil => rfl
  | cons a l ih => simp only [tasksFrom, okPairs, pairsFrom]; rw [ih (i + 1)]

theorem length_tasksFrom (name : G → List Nat) (g : G → Except E (List D × GM α)) (i : Nat) (l : List G) :
    (tasksFrom name g i l).length = l.length := by
  induction l generalizing i with
  | nil => rfl
  | cons a l ih => simp [tasksFrom, ih (i + 1)]

theorem pairsFrom_idx_ge (name : G → List Nat) (g : G → List D × GM α) (i : Nat) (l : List G) :
    ∀ p ∈ pairsFrom name g i l, i ≤ p.1.1 := by
  induction l generalizing i with
  | nil => simp [pairsFrom]
  | cons a l ih =>
    intro p hp
    simp only [pairsFrom, List.mem_cons] at hp
    rcases hp with rfl | h
    · exact Nat.le_refl _
    · have := ih (i + 1) p h; omega

/-- the submit-ordered pairs are already sorted by `(idx, gid)`: the sort is the identity. -/
theorem pairsFrom_sorted (name : G → List Nat) (g : G → List D × GM α) (i : Nat) (l : List G) :
    (pairsFrom name g i l).Pairwise (fun p q => keyLe p.1 q.1 = true) := by
  induction l generalizing i with
  | nil => simp [pairsFrom]
  | cons a l ih =>
    simp only [pairsFrom, List.pairwise_cons]
    refine ⟨?_, ih (i + 1)⟩
    intro b hb
    have := pairsFrom_idx_ge name g (i + 1) l b hb
    have hlt : i < b.1.1 := by omega
    simp [keyLe, hlt]

theorem sortPairs_pairsFrom (name : G → List Nat) (g : G → List D × GM α) (i : Nat) (l : List G) :
    sortPairs keyLe (pairsFrom name g i l) = pairsFrom name g i l :=
  isort_of_pairwise _ (pairsFrom_sorted name g i l)

theorem foldl_pairsFrom (gt : α → α → Bool) (gate : Bool) (name : G → List Nat)
    (g : G → List D × GM α) (i : Nat) (l : List G) (acc : Agg α D) :
    (pairsFrom name g i l).foldl (fun a p => mergeStep gt gate a p.2) acc
      = l.foldl (fun a gid => seqStep gt gate a (g gid)) acc := by
  induction l generalizing i acc with
  | nil => rfl
  | cons a l ih =>
    simp only [pairsFrom, List.foldl_cons, mergeStep_eq_seqStep]
    exact ih (i + 1) _

end Clem.ParT1
