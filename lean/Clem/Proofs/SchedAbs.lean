/-
C17 — the starvation bound for the abstract scheduling relation.
Core Lean only.  Agents are any type with decidable equality; the state is the
counter map `c : α → Nat`; the fixed list `q` (no duplicates) is the set of queued agents.
-/
namespace Clem.Sched.Abs

variable {α : Type} [DecidableEq α]

def upd (c : α → Nat) (a : α) (v : Nat) : α → Nat := fun b => if b = a then v else c b

/-- One selection followed by its bookkeeping.  `norm`: any agent with allowance left runs and
its counter goes up by one.  `reset`: only when nobody has allowance left; any agent runs and all
counters are zeroed. -/
inductive AStep (q : List α) (m : Nat) : (α → Nat) → α → (α → Nat) → Prop
  | norm {c : α → Nat} {a : α} : a ∈ q → c a < m → AStep q m c a (upd c a (c a + 1))
  | reset {c : α → Nat} {a : α} : (∀ b ∈ q, m ≤ c b) → a ∈ q → AStep q m c a (fun _ => 0)

/-- A history: the list of selected agents. -/
inductive ARun (q : List α) (m : Nat) : (α → Nat) → List α → (α → Nat) → Prop
  | nil {c : α → Nat} : ARun q m c [] c
  | cons {c c' c'' : α → Nat} {a : α} {tr : List α} :
      AStep q m c a c' → ARun q m c' tr c'' → ARun q m c (a :: tr) c''

/-- remaining allowance of everybody but `x` -/
def rem (m : Nat) (c : α → Nat) (x : α) : List α → Nat
  | [] => 0
  | b :: t => (if b = x then 0 else m - c b) + rem m c x t

theorem rem_upd_notin (m : Nat) (c : α → Nat) (x a : α) (v : Nat) (l : List α) (h : a ∉ l) :
    rem m (upd c a v) x l = rem m c x l := by
  induction l with
  | nil => rfl
  | cons b t ih =>
    have hb : b ≠ a := fun e => h (by simp [e])
    have ht : a ∉ t := fun e => h (by simp [e])
    simp only [rem, upd, if_neg hb]
    rw [← ih ht]

theorem rem_upd_dec (m : Nat) (c : α → Nat) (x a : α) (l : List α) (hn : l.Nodup) (ha : a ∈ l)
    (hax : a ≠ x) (hc : c a < m) :
    rem m (upd c a (c a + 1)) x l + 1 = rem m c x l := by
  induction l with
  | nil => cases ha
  | cons b t ih =>
    rw [List.nodup_cons] at hn
    by_cases hba : b = a
    · subst hba
      have := rem_upd_notin m c x b (c b + 1) t hn.1
      simp only [rem, if_neg hax]
      rw [this]
      simp only [upd, if_true]
      omega
    · have hat : a ∈ t := by
        cases ha with
        | head => exact absurd rfl hba
        | tail _ h => exact h
      have := ih hn.2 hat
      simp only [rem]
      have e : upd c a (c a + 1) b = c b := by simp [upd, hba]
      rw [e]; omega

theorem rem_le_len (m : Nat) (c : α → Nat) (x : α) (l : List α) : rem m c x l ≤ l.length * m := by
  induction l with
  | nil => simp [rem]
  | cons b t ih =>
    simp only [rem, List.length_cons, Nat.succ_mul]
    split <;> omega

theorem rem_le (m : Nat) (c : α → Nat) (x : α) (l : List α) (hx : x ∈ l) :
    rem m c x l ≤ (l.length - 1) * m := by
  induction l with
  | nil => cases hx
  | cons b t ih =>
    simp only [rem, List.length_cons, Nat.add_sub_cancel]
    by_cases hb : b = x
    · have := rem_le_len m c x t
      simp only [if_pos hb]; omega
    · have hxt : x ∈ t := by
        cases hx with
        | head => exact absurd rfl hb
        | tail _ h => exact h
      have := ih hxt
      have hl : 1 ≤ t.length := List.length_pos_of_mem hxt
      have e : t.length * m = (t.length - 1) * m + m := by
        rw [← Nat.succ_mul]; congr 1; omega
      simp only [if_neg hb]; omega

/-- upper bound on the number of further selections `x` can be kept waiting from `c` -/
def wait (q : List α) (m : Nat) (c : α → Nat) (x : α) : Nat :=
  if c x < m then rem m c x q else rem m c x q + 1 + (q.length - 1) * m

theorem wait_step {q : List α} {m : Nat} {c c' : α → Nat} {a x : α} (hq : q.Nodup) (hx : x ∈ q)
    (hm : 1 ≤ m) (hs : AStep q m c a c') (hax : a ≠ x) : wait q m c' x + 1 ≤ wait q m c x := by
  cases hs with
  | norm ha hc =>
    have hd := rem_upd_dec m c x a q hq ha hax hc
    have e : upd c a (c a + 1) x = c x := by
      have : x ≠ a := fun h => hax h.symm
      simp [upd, this]
    unfold wait
    rw [e]
    split <;> omega
  | reset hall ha =>
    have h1 := hall x hx
    have h2 := rem_le m (fun _ => 0) x q hx
    unfold wait
    have : ¬ c x < m := by omega
    rw [if_neg this, if_pos (by omega : (0 : Nat) < m)]
    omega

/-- the core measure lemma: a history in which `x` is never selected is no longer than `wait` -/
theorem xfree_len {q : List α} {m : Nat} {x : α} (hq : q.Nodup) (hx : x ∈ q) (hm : 1 ≤ m)
    {c c' : α → Nat} {tr : List α} (hr : ARun q m c tr c') (hfree : x ∉ tr) :
    tr.length ≤ wait q m c x := by
  induction hr with
  | nil => simp
  | @cons c0 c1 c2 a t hs _ ih =>
    have hax : a ≠ x := fun e => hfree (by simp [e])
    have ht : x ∉ t := fun e => hfree (by simp [e])
    have := wait_step hq hx hm hs hax
    have := ih ht
    simp only [List.length_cons]; omega

theorem wait_le (q : List α) (m : Nat) (c : α → Nat) (x : α) (hx : x ∈ q) :
    wait q m c x ≤ 2 * (q.length - 1) * m + 1 := by
  have := rem_le m c x q hx
  unfold wait
  rw [Nat.mul_assoc]
  split <;> omega

/-- **Starvation bound** for the relation: any `x`-free stretch of any history, from any
counter map whatsoever, has at most `2·(n−1)·m + 1` selections. -/
theorem starvation_bound {q : List α} {m : Nat} {x : α} (hq : q.Nodup) (hx : x ∈ q) (hm : 1 ≤ m)
    {c c' : α → Nat} {tr : List α} (hr : ARun q m c tr c') (hfree : x ∉ tr) :
    tr.length ≤ 2 * (q.length - 1) * m + 1 :=
  Nat.le_trans (xfree_len hq hx hm hr hfree) (wait_le q m c x hx)

/-- from a state where `x` still has allowance the wait is at most `(n−1)·m` -/
theorem first_selection_bound {q : List α} {m : Nat} {x : α} (hq : q.Nodup) (hx : x ∈ q) (hm : 1 ≤ m)
    {c c' : α → Nat} {tr : List α} (hc : c x < m) (hr : ARun q m c tr c') (hfree : x ∉ tr) :
    tr.length ≤ (q.length - 1) * m := by
  have h1 := xfree_len hq hx hm hr hfree
  have h2 := rem_le m c x q hx
  unfold wait at h1
  rw [if_pos hc] at h1
  omega

/-- runs split: every contiguous window of a history is itself a history -/
theorem ARun.split {q : List α} {m : Nat} {c c' : α → Nat} (t1 t2 : List α)
    (hr : ARun q m c (t1 ++ t2) c') : ∃ cm, ARun q m c t1 cm ∧ ARun q m cm t2 c' := by
  induction t1 generalizing c with
  | nil => exact ⟨c, .nil, hr⟩
  | cons a t ih =>
    cases hr with
    | cons hs hrest =>
      obtain ⟨cm, h1, h2⟩ := ih hrest
      exact ⟨cm, .cons hs h1, h2⟩

end Clem.Sched.Abs
