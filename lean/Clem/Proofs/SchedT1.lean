/-
C17 — the T1 slice budgets bind the TOTALS `t1_propagate` reports (the quantities `_should_yield`
tests), proved on the exact T1 model (`Clem.T1.t1`, the definitions the C12 driver routes execute):
every graph runs under the budget the earlier graphs left (`leftCfg`).
-/
import Clem.Proofs.T1Budget

namespace Clem.T1
open Num

variable {α : Type} [Num α]

/-- a per-graph result respects the caps it was computed under -/
def EOK (r : GRes α) : Prop := (r.pops : Int) ≤ imax r.capQ 0 ∧ r.iters ≤ imax r.capL 0

theorem oneGraph_EOK (c : Cfg α) (g : Graph α) (text : List Nat) : EOK (oneGraph c g text) := by
  unfold oneGraph EOK
  dsimp only
  split
  · dsimp only
    have h1 := imax_ge_right (effQueue c) 0
    have h2 := imax_ge_right (effLayers c) 0
    exact ⟨by simpa using h1, h2⟩
  · dsimp only
    have hp := final_pops_le c g text
    have h0 := imax_ge_right (effQueue c) 0
    have h1 := imax_ge_left (effQueue c) 0
    have h2 := imin_le_right ((finalSt c g text).layersProcessed : Int) (effLayers c)
    have h3 := imax_ge_left (effLayers c) 0
    constructor
    · have : ((effQueue c).toNat : Int) ≤ imax (effQueue c) 0 := by
        rw [Int.toNat_eq_max]; omega
      have hp' : ((finalSt c g text).pops : Int) ≤ ((effQueue c).toNat : Int) := by exact_mod_cast hp
      omega
    · omega

theorem oneGraph_caps (c : Cfg α) (g : Graph α) (text : List Nat) :
    (oneGraph c g text).capQ = effQueue c ∧ (oneGraph c g text).capL = effLayers c := by
  unfold oneGraph; dsimp only; split <;> exact ⟨rfl, rfl⟩

omit [Num α] in
theorem lookupGC_spec (l : List (Nat × GRes α)) (gid : Nat) (q lay : Int) (r : GRes α)
    (h : lookupGC l gid q lay = some r) : (∃ k, (k, r) ∈ l) ∧ r.capQ = q ∧ r.capL = lay := by
  induction l with
  | nil => simp [lookupGC] at h
  | cons e rest ih =>
    obtain ⟨k, r0⟩ := e
    simp only [lookupGC] at h
    split at h
    · rename_i hc
      simp only [Option.some.injEq] at h
      subst h
      simp only [Bool.and_eq_true, decide_eq_true_eq, beq_iff_eq] at hc
      exact ⟨⟨k, List.mem_cons_self⟩, hc.1.2, hc.2⟩
    · obtain ⟨⟨k', hk⟩, h2, h3⟩ := ih h
      exact ⟨⟨k', List.mem_cons_of_mem _ hk⟩, h2, h3⟩

omit [Num α] in
theorem effQueue_left (c : Cfg α) (t : Tot α) (s : Int) (h : c.slicePops = some s) :
    effQueue (leftCfg c t) ≤ s - (t.pops : Int) := by
  unfold effQueue leftCfg
  simp only [h, Option.map_some]
  exact imin_le_right _ _

omit [Num α] in
theorem effLayers_left (c : Cfg α) (t : Tot α) (s : Int) (h : c.sliceIters = some s) :
    effLayers (leftCfg c t) ≤ s - t.iters := by
  unfold effLayers leftCfg
  simp only [h, Option.map_some]
  exact imin_le_right _ _

/-- invariant of the running totals -/
structure TInv (c0 : Cfg α) (t : Tot α) : Prop where
  pops : ∀ s, c0.slicePops = some s → 0 ≤ s → (t.pops : Int) ≤ s
  iters : ∀ s, c0.sliceIters = some s → 0 ≤ s → t.iters ≤ s
  cache : ∀ e ∈ t.cache, EOK e.2

/-- the per-graph result `addGraph` adds: a cached one or the fresh one -/
def stepRes (c0 : Cfg α) (text : List Nat) (t : Tot α) (g : Graph α) : GRes α :=
  let c := leftCfg c0 t
  let fresh := oneGraph c g text
  let hit : Option (GRes α) :=
    if c.cacheOn && !fresh.seeds.isEmpty then lookupGC t.cache g.gid (effQueue c) (effLayers c) else none
  match hit with
  | some h => { h with maxDelta := zero, frontierEv := 0, dedupHits := 0, visitedEv := 0, cached := true }
  | none => fresh

theorem stepRes_ok (c0 : Cfg α) (text : List Nat) (t : Tot α) (g : Graph α) (hc : ∀ e ∈ t.cache, EOK e.2) :
    EOK (stepRes c0 text t g) ∧ (stepRes c0 text t g).capQ = effQueue (leftCfg c0 t) ∧
      (stepRes c0 text t g).capL = effLayers (leftCfg c0 t) := by
  unfold stepRes
  dsimp only
  split
  · rename_i h hh
    split at hh
    · obtain ⟨⟨k, hk⟩, h2, h3⟩ := lookupGC_spec _ _ _ _ _ hh
      have := hc (k, h) hk
      exact ⟨this, h2, h3⟩
    · cases hh
  · exact ⟨oneGraph_EOK _ _ _, (oneGraph_caps _ _ _).1, (oneGraph_caps _ _ _).2⟩

theorem mem_ite_append {β : Type} {b : Bool} {l : List β} {x e : β}
    (h : e ∈ (if b = true then l ++ [x] else l)) : e ∈ l ∨ e = x := by
  cases b
  · left; simpa using h
  · simp only [if_true, List.mem_append, List.mem_singleton] at h; exact h

theorem addGraph_fields (c0 : Cfg α) (text : List Nat) (t : Tot α) (g : Graph α) (ht : t.err = false) :
    (addGraph c0 text t g).pops = t.pops + (stepRes c0 text t g).pops ∧
    (addGraph c0 text t g).iters = t.iters + (stepRes c0 text t g).iters ∧
    (∀ e ∈ (addGraph c0 text t g).cache, e ∈ t.cache ∨ e.2 = stepRes c0 text t g) := by
  unfold addGraph stepRes
  simp only [ht, Bool.false_eq_true, if_false]
  refine ⟨rfl, rfl, ?_⟩
  intro e he
  rcases mem_ite_append he with h | h
  · left; exact h
  · right; rw [h]; rfl

theorem addGraph_inv (c0 : Cfg α) (text : List Nat) (t : Tot α) (g : Graph α) (hI : TInv c0 t) :
    TInv c0 (addGraph c0 text t g) := by
  by_cases ht : t.err = true
  · have : addGraph c0 text t g = t := by unfold addGraph; simp [ht]
    rw [this]; exact hI
  · have ht' : t.err = false := by simpa using ht
    obtain ⟨hp, hi, hcache⟩ := addGraph_fields c0 text t g ht'
    obtain ⟨hok, hq, hl⟩ := stepRes_ok c0 text t g hI.cache
    refine ⟨?_, ?_, ?_⟩
    · intro s hs h0
      have h1 := hI.pops s hs h0
      have h2 := effQueue_left c0 t s hs
      have h3 := hok.1
      rw [hq] at h3
      rw [hp]
      have : imax (effQueue (leftCfg c0 t)) 0 ≤ s - (t.pops : Int) := by unfold imax; split <;> omega
      push_cast
      omega
    · intro s hs h0
      have h1 := hI.iters s hs h0
      have h2 := effLayers_left c0 t s hs
      have h3 := hok.2
      rw [hl] at h3
      rw [hi]
      have : imax (effLayers (leftCfg c0 t)) 0 ≤ s - t.iters := by unfold imax; split <;> omega
      omega
    · intro e he
      rcases hcache e he with h | h
      · exact hI.cache e h
      · rw [h]; exact hok

theorem foldl_inv (c0 : Cfg α) (text : List Nat) (gs : List (Graph α)) (t : Tot α) (hI : TInv c0 t) :
    TInv c0 (gs.foldl (addGraph c0 text) t) := by
  induction gs generalizing t with
  | nil => exact hI
  | cons g gs ih => exact ih _ (addGraph_inv c0 text t g hI)

theorem tot0_inv (c0 : Cfg α) : TInv c0 (tot0 : Tot α) :=
  ⟨fun s _ h0 => by simpa [tot0] using h0, fun s _ h0 => by simpa [tot0] using h0, fun e he => by simp [tot0] at he⟩

end Clem.T1
