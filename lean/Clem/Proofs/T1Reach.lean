import Clem.Proofs.T1Cases

/-!
Reach invariant of the T1 model: every node with a distance entry is reachable from a seed by a walk of
exactly that many edges, within the radius and layer caps; every queued / touched node has a distance
entry (so `dist[u]` never raises); accumulator keys are unique.
-/

namespace Clem.T1
open Num

variable {α : Type} [Num α]
set_option linter.unusedSectionVars false
set_option linter.unusedSimpArgs false

/-- `Reach g seeds v d`: there is a walk of `d` edges of `g` from some seed to `v`. -/
inductive Reach (g : Graph α) (seeds : List Nat) : Nat → Nat → Prop
  | seed {s : Nat} : s ∈ seeds → Reach g seeds s 0
  | step {u d : Nat} (e : Edge α) : Reach g seeds u d → e ∈ g.edges → e.src = u →
      Reach g seeds e.dst (d + 1)

structure ReachInv (c : Cfg α) (g : Graph α) (seeds : List Nat) (st : St α) : Prop where
  dist : ∀ v d, st.dist.lookup v = some d →
    Reach g seeds v d ∧ (d = 0 ∨ ((d : Int) ≤ c.radiusCap ∧ (d : Int) ≤ effLayers c))
  pq : ∀ it ∈ st.pq, (st.dist.lookup it.id).isSome
  acc : ∀ k ∈ st.acc.map (·.1), (st.dist.lookup k).isSome
  nodup : (st.acc.map (·.1)).Nodup

def ReachQ (c : Cfg α) (g : Graph α) (seeds : List Nat) (u : Nat) (_w : α) (st : St α) : Prop :=
  ReachInv c g seeds st ∧ (st.dist.lookup u).isSome

theorem ReachInv_same {c : Cfg α} {g : Graph α} {seeds : List Nat} {st st' : St α}
    (hd : st'.dist = st.dist) (ha : st'.acc = st.acc) (hpq : ∀ it ∈ st'.pq, it ∈ st.pq)
    (h : ReachInv c g seeds st) : ReachInv c g seeds st' := by
  refine ⟨?_, ?_, ?_, ?_⟩
  · rw [hd]; exact h.dist
  · intro it hit; rw [hd]; exact h.pq it (hpq it hit)
  · rw [hd, ha]; exact h.acc
  · rw [ha]; exact h.nodup

theorem ReachInv_st0 (c : Cfg α) (g : Graph α) (seeds : List Nat) : ReachInv c g seeds (st0 c) := by
  refine ⟨?_, ?_, ?_, ?_⟩ <;> simp [st0, List.lookup]

theorem ReachInv_seedStep (c : Cfg α) (g : Graph α) (seeds : List Nat) (s : SeedSt α) (nid : Nat)
    (hn : nid ∈ seeds) (h : ReachInv c g seeds s.st) : ReachInv c g seeds (seedStep c s nid).st := by
  have hmono : ∀ v, (s.st.dist.lookup v).isSome → ((distSet s.st.dist nid 0).lookup v).isSome := by
    intro v hv; rw [lookup_distSet]; split <;> simp [hv]
  have hself : ((distSet s.st.dist nid 0).lookup nid).isSome := by rw [lookup_distSet]; simp
  have hdist : ∀ v d, (distSet s.st.dist nid 0).lookup v = some d →
      Reach g seeds v d ∧ (d = 0 ∨ ((d : Int) ≤ c.radiusCap ∧ (d : Int) ≤ effLayers c)) := by
    intro v d hv
    rw [lookup_distSet] at hv
    split at hv
    · rename_i e; subst e
      simp at hv; subst hv
      exact ⟨Reach.seed hn, Or.inl rfl⟩
    · exact h.dist v d hv
  have hacc : ∀ k ∈ (accAdd s.st.acc nid (one : α)).map (·.1),
      ((distSet s.st.dist nid 0).lookup k).isSome := by
    intro k hk
    rcases (mem_accAdd_keys _ _ _ _).mp hk with h1 | h1
    · exact hmono k (h.acc k h1)
    · subst h1; exact hself
  unfold seedStep
  dsimp only
  split
  · exact ⟨hdist, fun it hit => hmono _ (h.pq it hit), hacc, accAdd_nodup _ _ _ h.nodup⟩
  · refine ⟨hdist, ?_, hacc, accAdd_nodup _ _ _ h.nodup⟩
    intro it hit
    rcases mem_pushCap _ _ _ _ hit with h1 | h1
    · subst h1; exact hself
    · exact hmono _ (h.pq it h1)

theorem ReachInv_seedAll (c : Cfg α) (g : Graph α) (seeds : List Nat) :
    ReachInv c g seeds (seedAll c seeds) := by
  unfold seedAll
  have := seedFold_inv c seeds (fun s => ReachInv c g seeds s.st)
    (fun s nid hn h => ReachInv_seedStep c g seeds s nid hn h) seeds ⟨st0 c, none, none⟩
    (fun x hx => hx) (ReachInv_st0 c g seeds)
  exact ReachInv_same (st := (seeds.foldl (seedStep c) ⟨st0 c, none, none⟩).st) rfl rfl
    (fun it hit => hit) this

theorem sameCore_dist' {st st2 : St α} (h : sameCore st st2) : st2.dist = st.dist := by
  unfold sameCore at h; rw [h]
theorem sameCore_acc' {st st2 : St α} (h : sameCore st st2) : st2.acc = st.acc := by
  unfold sameCore at h; rw [h]
theorem sameCore_pq' {st st2 : St α} (h : sameCore st st2) : st2.pq = st.pq := by
  unfold sameCore at h; rw [h]

theorem Reach_pop (c : Cfg α) (g : Graph α) (seeds : List Nat) (st : St α) (it : Item α)
    (rest : List (Item α)) (h : ReachInv c g seeds st) (hp : popMin st.pq = some (it, rest)) :
    ((gate c (popped st it rest) it).2 = true →
        ReachQ c g seeds it.id it.w (gate c (popped st it rest) it).1) ∧
    ((gate c (popped st it rest) it).2 = false →
        ReachInv c g seeds (gate c (popped st it rest) it).1) := by
  have hm := popMin_mem hp
  have hsp : ReachInv c g seeds (popped st it rest) :=
    ReachInv_same (st := st) rfl rfl (fun x hx => hm.2 x hx) h
  have hid : ((popped st it rest).dist.lookup it.id).isSome := h.pq it hm.1
  rcases gate_cases c (popped st it rest) it with ⟨_, hg⟩ | ⟨st2, hsc, _, _, hg⟩
  · rw [hg]
    refine ⟨fun hf => by simp at hf, fun _ => ?_⟩
    exact ReachInv_same (st := popped st it rest) rfl rfl (fun x hx => hx) hsp
  · have h2 : ReachInv c g seeds st2 :=
      ReachInv_same (sameCore_dist' hsc) (sameCore_acc' hsc)
        (fun x hx => by rw [sameCore_pq' hsc] at hx; exact hx) hsp
    rcases hg with hg | ⟨_, hg⟩ | ⟨_, hg⟩
    · rw [hg]
      exact ⟨fun hf => by simp at hf, fun _ => ReachInv_same (st := st2) rfl rfl (fun x hx => hx) h2⟩
    · rw [hg]
      exact ⟨fun hf => by simp at hf, fun _ => ReachInv_same (st := st2) rfl rfl (fun x hx => hx) h2⟩
    · rw [hg]
      refine ⟨fun _ => ⟨ReachInv_same (st := st2) rfl rfl (fun x hx => hx) h2, ?_⟩,
        fun hf => by simp at hf⟩
      show (st2.dist.lookup it.id).isSome
      rw [sameCore_dist' hsc]; exact hid

theorem ReachQ_same {c : Cfg α} {g : Graph α} {seeds : List Nat} {u : Nat} {w : α} {st st' : St α}
    (hd : st'.dist = st.dist) (ha : st'.acc = st.acc) (hpq : ∀ it ∈ st'.pq, it ∈ st.pq)
    (h : ReachQ c g seeds u w st) : ReachQ c g seeds u w st' :=
  ⟨ReachInv_same hd ha hpq h.1, by rw [hd]; exact h.2⟩

theorem capCheck_dist (c : Cfg α) (st : St α) : (capCheck c st).dist = st.dist := by
  rcases capCheck_cases c st with h1 | h1 <;> rw [h1]
theorem capCheck_acc (c : Cfg α) (st : St α) : (capCheck c st).acc = st.acc := by
  rcases capCheck_cases c st with h1 | h1 <;> rw [h1]
theorem capCheck_pq (c : Cfg α) (st : St α) : (capCheck c st).pq = st.pq := by
  rcases capCheck_cases c st with h1 | h1 <;> rw [h1]

theorem pushOrHit_dist (c : Cfg α) (st : St α) (v : Nat) (x : α) :
    (pushOrHit c st v x).dist = st.dist := by
  unfold pushOrHit
  split
  · rcases pushMain_cases c st ⟨neg (abs x), v, x⟩ (accGet st.acc v) with ⟨_, hp⟩ | ⟨_, hp⟩ <;> rw [hp]
  · rfl

theorem pushOrHit_acc (c : Cfg α) (st : St α) (v : Nat) (x : α) :
    (pushOrHit c st v x).acc = st.acc := by
  unfold pushOrHit
  split
  · rcases pushMain_cases c st ⟨neg (abs x), v, x⟩ (accGet st.acc v) with ⟨_, hp⟩ | ⟨_, hp⟩ <;> rw [hp]
  · rfl

theorem pushOrHit_pq (c : Cfg α) (st : St α) (v : Nat) (x : α) :
    ∀ it ∈ (pushOrHit c st v x).pq, it ∈ st.pq ∨ it.id = v := by
  unfold pushOrHit
  split
  · rcases pushMain_cases c st ⟨neg (abs x), v, x⟩ (accGet st.acc v) with ⟨_, hp⟩ | ⟨_, hp⟩ <;> rw [hp]
    · intro it hit; exact Or.inl hit
    · intro it hit
      rcases mem_pushCap _ _ _ _ hit with h1 | h1
      · subst h1; exact Or.inr rfl
      · exact Or.inl h1
  · intro it hit; exact Or.inl hit

theorem Reach_edge (c : Cfg α) (g : Graph α) (seeds : List Nat) (u : Nat) (w : α) (st : St α)
    (e : Edge α) (he : e ∈ g.edges) (hs : e.src = u) (h : ReachQ c g seeds u w st) :
    ReachQ c g seeds u w (relaxEdge c u w st e) := by
  rcases relaxEdge_cases c u w st e with ⟨_, hr⟩ | ⟨_, ⟨_, hr⟩ | ⟨_, hr⟩ | ⟨_, hr⟩ | ⟨dec, _, _, hr⟩ |
      ⟨dec, _, h1, h2, _, hr⟩⟩
  · rw [hr]; exact ReachQ_same (st := st) rfl rfl (fun x hx => hx) h
  · rw [hr]; exact ReachQ_same (st := st) rfl rfl (fun x hx => hx) h
  · rw [hr]; exact ReachQ_same (st := st) rfl rfl (fun x hx => hx) h
  · rw [hr]; exact ReachQ_same (st := st) rfl rfl (fun x hx => hx) h
  · rw [hr]; exact ReachQ_same (st := st) rfl rfl (fun x hx => hx) h
  · rw [hr]
    obtain ⟨hi, hu⟩ := h
    -- the distance of `u`
    obtain ⟨du, hdu⟩ := Option.isSome_iff_exists.mp hu
    have hget : distGet st.dist u = du := by simp [distGet, hdu]
    have hru := (hi.dist u du hdu).1
    have hrv : Reach g seeds e.dst (du + 1) := Reach.step e hru he hs
    rw [hget] at h1 h2 ⊢
    generalize hx : mul (mul (mul w e.weight) (multOf c e.rel)) dec = x
    -- state after `relaxed`
    have hmono : ∀ v, (st.dist.lookup v).isSome →
        ((distRelax st.dist e.dst (du + 1)).lookup v).isSome :=
      fun v hv => lookup_distRelax_isSome _ _ _ _ hv
    have hself : ((distRelax st.dist e.dst (du + 1)).lookup e.dst).isSome := by
      rcases lookup_distRelax_self st.dist e.dst (du + 1) with h' | ⟨old, _, h'⟩ <;> simp [h']
    have hrel : ReachInv c g seeds (relaxed c st e u w du (du + 1) dec x) := by
      refine ⟨?_, ?_, ?_, ?_⟩
      · intro v d hv
        show Reach g seeds v d ∧ _
        change (distRelax st.dist e.dst (du + 1)).lookup v = some d at hv
        by_cases hve : v = e.dst
        · subst hve
          rcases lookup_distRelax_self st.dist e.dst (du + 1) with h' | ⟨old, ho, h'⟩
          · rw [h'] at hv; simp at hv; subst hv
            exact ⟨hrv, Or.inr ⟨Int.not_lt.mp h1, Int.not_lt.mp h2⟩⟩
          · rw [h'] at hv; simp at hv; subst hv
            exact hi.dist _ _ ho
        · rw [lookup_distRelax_ne _ _ _ _ hve] at hv
          exact hi.dist v d hv
      · intro it hit; exact hmono _ (hi.pq it hit)
      · intro k hk
        change k ∈ (accAdd st.acc e.dst x).map (·.1) at hk
        rcases (mem_accAdd_keys _ _ _ _).mp hk with h' | h'
        · exact hmono k (hi.acc k h')
        · subst h'; exact hself
      · exact accAdd_nodup _ _ _ hi.nodup
    have hu' : ((relaxed c st e u w du (du + 1) dec x).dist.lookup u).isSome := hmono u hu
    unfold applyContrib
    refine ⟨⟨?_, ?_, ?_, ?_⟩, ?_⟩
    · rw [capCheck_dist, pushOrHit_dist]; exact hrel.dist
    · intro it hit
      rw [capCheck_pq] at hit
      rw [capCheck_dist, pushOrHit_dist]
      rcases pushOrHit_pq _ _ _ _ it hit with h' | h'
      · exact hrel.pq it h'
      · rw [h']; exact hself
    · rw [capCheck_dist, pushOrHit_dist, capCheck_acc, pushOrHit_acc]; exact hrel.acc
    · rw [capCheck_acc, pushOrHit_acc]; exact hrel.nodup
    · rw [capCheck_dist, pushOrHit_dist]; exact hu'

theorem seedAll_stop (c : Cfg α) (seeds : List Nat) : (seedAll c seeds).stop = 0 := by
  have : ∀ (l : List Nat) (s : SeedSt α), s.st.stop = 0 → (l.foldl (seedStep c) s).st.stop = 0 := by
    intro l
    induction l with
    | nil => intro s h; simpa using h
    | cons a l ih =>
      intro s h
      simp only [List.foldl_cons]
      apply ih
      unfold seedStep
      dsimp only
      split <;> exact h
  exact this _ _ rfl

theorem ReachInv_final (c : Cfg α) (g : Graph α) (text : List Nat) :
    ReachInv c g (seedsOf g text) (finalSt c g text) := by
  unfold finalSt
  apply loop_inv c g (ReachInv c g (seedsOf g text)) (ReachQ c g (seedsOf g text))
  · intro st it rest h _ hp
    exact Reach_pop c g _ st it rest h hp
  · intro u w st e he hs _ h
    exact Reach_edge c g _ u w st e he hs h
  · intro u w st h; exact h.1
  · exact seedAll_stop c _
  · exact ReachInv_seedAll c g _

end Clem.T1
