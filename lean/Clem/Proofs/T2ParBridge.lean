import Clem.Model.T2
import Clem.Model.ParT2

/-! C11 ↔ C09 bridge: the id de-duplication inside `_rank_by_cosine` as modelled for the sequential
stage (`Clem.T2.dedupIds`, on episodes) and for the fan-out (`Clem.ParT2.dedupIds`, on `(id, score)`
hits) is the same function. -/

namespace Clem.T2

variable {α : Type}

/-- an episode seen as the fan-out's `(id, score)` hit -/
def Ep.toParHit (e : Ep α) : Clem.ParT2.Hit α := ⟨e.id, e.cos⟩

theorem dedupIdsAux_eq_par (seen : List Str) (l : List (Ep α)) :
    (dedupIdsAux seen l).map Ep.toParHit = Clem.ParT2.dedupAux seen (l.map Ep.toParHit) := by
  induction l generalizing seen with
  | nil => rfl
  | cons x t ih =>
    simp only [dedupIdsAux, List.map_cons, Clem.ParT2.dedupAux, Ep.toParHit]
    split
    · exact ih seen
    · rw [List.map_cons]
      congr 1
      exact ih _

theorem dedupIds_eq_par (l : List (Ep α)) :
    (dedupIds l).map Ep.toParHit = Clem.ParT2.dedupIds (l.map Ep.toParHit) :=
  dedupIdsAux_eq_par [] l

end Clem.T2
