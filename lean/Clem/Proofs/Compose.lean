/-
Lemmas about the composed turn model (`Clem/Model/Compose.lean`): the fold laws of `runTurns`, the shape of every
turn output of every history, and the bridges that let the per-stage theorems of C03 / C04 / C11 / C12 / C13 be
applied to the stage calls inside a turn.
-/
import Clem.Model.Compose
import Clem.Props.C03
import Clem.Props.C04
import Clem.Props.C11
import Clem.Props.C12
import Clem.Props.C13.Rag

set_option linter.unusedSectionVars false

namespace Clem.Compose

section
variable {α : Type} [Clem.T1.Num α] [Clem.T2.Num α] [Clem.T3.PyOrd α] [Clem.Py.Num α] [Clem.Py.NumGel α]
variable (w : World α) (c : Cfg α)

/-! ## fold laws -/

theorem foldl_stepHist (ts : List (TurnIn α × Oracles α)) (h : Hist α) :
    ts.foldl (stepHist w c) h =
      ⟨h.outs ++ (runTurns w c h.state ts).outs, (runTurns w c h.state ts).state⟩ := by
  induction ts generalizing h with
  | nil => simp [runTurns]
  | cons t ts ih =>
    simp only [List.foldl_cons, runTurns]
    rw [ih, ih (stepHist w c ⟨[], h.state⟩ t)]
    simp [stepHist, List.append_assoc]

theorem runTurns_nil (s : State α) : runTurns w c s [] = ⟨[], s⟩ := rfl

theorem runTurns_cons (s : State α) (t : TurnIn α × Oracles α) (ts : List (TurnIn α × Oracles α)) :
    runTurns w c s (t :: ts) =
      ⟨runTurn w c s t.1 t.2 :: (runTurns w c (runTurn w c s t.1 t.2).state ts).outs,
       (runTurns w c (runTurn w c s t.1 t.2).state ts).state⟩ := by
  show ts.foldl (stepHist w c) (stepHist w c ⟨[], s⟩ t) = _
  rw [foldl_stepHist]
  simp [stepHist]

theorem runTurns_append (s : State α) (ts₁ ts₂ : List (TurnIn α × Oracles α)) :
    runTurns w c s (ts₁ ++ ts₂) =
      ⟨(runTurns w c s ts₁).outs ++ (runTurns w c (runTurns w c s ts₁).state ts₂).outs,
       (runTurns w c (runTurns w c s ts₁).state ts₂).state⟩ := by
  show (ts₁ ++ ts₂).foldl (stepHist w c) ⟨[], s⟩ = _
  rw [List.foldl_append, foldl_stepHist]
  rfl

theorem outs_length (s : State α) (ts : List (TurnIn α × Oracles α)) :
    (runTurns w c s ts).outs.length = ts.length := by
  induction ts generalizing s with
  | nil => rfl
  | cons t ts ih => rw [runTurns_cons]; simp [ih]

/-- every output of every history is `runTurn` of some turn of the list on some state -/
theorem mem_outs {s : State α} {ts : List (TurnIn α × Oracles α)} {o : TurnOut α}
    (h : o ∈ (runTurns w c s ts).outs) : ∃ s' t, t ∈ ts ∧ o = runTurn w c s' t.1 t.2 := by
  induction ts generalizing s with
  | nil => simp [runTurns_nil] at h
  | cons t ts ih =>
    rw [runTurns_cons] at h
    rcases List.mem_cons.1 h with h | h
    · exact ⟨s, t, by simp, h⟩
    · obtain ⟨s', t', ht, he⟩ := ih h
      exact ⟨s', t', List.mem_cons_of_mem _ ht, he⟩

/-! ## the stage calls inside a turn (projections of `runTurn`) -/

variable (s : State α) (t : TurnIn α) (o : Oracles α)

theorem runTurn_t1 : (runTurn w c s t o).t1 = t1Run (t1Cfg c) (t1Graphs w) t.text s.t1c := rfl
theorem runTurn_t2 : (runTurn w c s t o).t2 = t2Of w c s t o := rfl
theorem runTurn_t4 : (runTurn w c s t o).t4 =
    if c.t4Enabled && reach w c s t o 2 then some (t4Of w c s t o) else none := rfl
theorem runTurn_t4in : (runTurn w c s t o).t4in =
    if c.t4Enabled && reach w c s t o 2 then some (t4InOf w c s t o) else none := rfl
theorem runTurn_state : (runTurn w c s t o).state = nextState w c s t o := rfl
theorem runTurn_deltas : (runTurn w c s t o).deltas = (t4InOf w c s t o).deltas := rfl
theorem runTurn_t2Calls : (runTurn w c s t o).t2Calls =
    (if reach w c s t o 0 && !(t2Stage w c s t o).hit then 1 else 0) +
    (if reach w c s t o 2 then (ragOf w c s t o).calls else 0) := rfl
theorem runTurn_apply : (runTurn w c s t o).apply =
    if commits w c s t o then some (applyOf w c s t o) else none := rfl
theorem runTurn_yielded : (runTurn w c s t o).yielded = yieldOf w c s t o := rfl
theorem runTurn_storeCalls : (runTurn w c s t o).storeCalls =
    if commits w c s t o then callsOf (t4Of w c s t o).approved (applyOf w c s t o).calls else [] := rfl

theorem t4Of_eq : t4Of w c s t o = Clem.T4.t4 c.sqrt c.thr (t4InOf w c s t o) := rfl
theorem t4InOf_k : (t4InOf w c s t o).k = c.churn := rfl
theorem t4InOf_capL2 : (t4InOf w c s t o).capL2 = c.capL2 := rfl
theorem t4InOf_capNov : (t4InOf w c s t o).capNov = c.capNov := rfl

/-- with an empty process cache (or the cache off) T1 of a turn is the plain stage -/
theorem t1Run_nil (c1 : Clem.T1.Cfg α) (gs : List (Clem.T1.Graph α)) (text : Str) :
    t1Run c1 gs text [] = Clem.T1.t1 c1 gs text := by
  unfold t1Run Clem.T1.t1 t1Pre
  have : (gs.flatMap fun g => (([] : List ((Nat × List Nat) × Clem.T1.GRes α)).filter
      (fun e => e.1 == (g.gid, seedKey g text))).map (fun e => (g.gid, e.2))) = [] := by
    induction gs with
    | nil => rfl
    | cons g gs ih => simp [List.flatMap_cons, ih]
  rw [this]
  split <;> rfl

/-! ### T2 results (fresh or served by the orchestrator's cache) are results of the T2 stage model -/

/-- `x` is the T2 model's answer for some oracle entry of this world and configuration, or the empty answer -/
def T2Good (x : Clem.T2.Out α) : Prop :=
  x = emptyT2 c ∨ ∃ (o : Oracles α) (qo : QOracle α) (h : Clem.T2.HCfg α) (q : Clem.T2.QCfg α)
      (mem : List Clem.Refl.Written),
    x = Clem.T2.t2 (t2Cfg w c o qo) c.tiers (withCos (epsAt w mem o) qo.cos) h q (t2K c) c.residualCap (gnodes w)

/-- every entry of the orchestrator's cache is such an answer (true of the empty cache, kept by every turn) -/
def GoodState (s : State α) : Prop := ∀ e ∈ s.orch, T2Good w c e.2

theorem fresh_good (g : Clem.Gel.State α) (q : Str) (mem : List Clem.Refl.Written) :
    T2Good w c ((t2Call w c o g q mem).getD (emptyT2 c)) := by
  unfold t2Call
  split
  · left; rfl
  · rename_i qo _
    right; exact ⟨o, qo, hybOf c g, qualOf c qo, mem, rfl⟩

theorem t2Stage_good (hs : GoodState w c s) :
    T2Good w c (t2Stage w c s t o).out ∧ ∀ e ∈ (t2Stage w c s t o).orch, T2Good w c e.2 := by
  unfold t2Stage
  dsimp only
  split
  · split
    · rename_i e he
      exact ⟨hs e (List.mem_of_find?_eq_some he), hs⟩
    · refine ⟨fresh_good w c o _ _ _, ?_⟩
      intro e he
      rcases List.mem_append.1 he with h | h
      · exact hs e h
      · rw [List.mem_singleton] at h
        rw [h]; exact fresh_good w c o _ _ _
  · exact ⟨fresh_good w c o _ _ _, hs⟩

theorem t2Of_good (hs : GoodState w c s) : T2Good w c (t2Of w c s t o) := (t2Stage_good w c s t o hs).1

theorem nextState_good (hs : GoodState w c s) : GoodState w c (nextState w c s t o) := by
  intro e he
  have he' : e ∈ orchNext w c s t o := he
  unfold orchNext at he'
  split at he'
  · exact hs e he'
  · split at he'
    · cases he'
    · exact (t2Stage_good w c s t o hs).2 e he'

/-- the deltas T4 sees are the planner hook's, or none (stock planner / refined plan / T3 skipped) -/
theorem t4_deltas_from_hook : (t4InOf w c s t o).deltas = t.hookDeltas ∨ (t4InOf w c s t o).deltas = [] := by
  show (ragOf w c s t o).plan.deltas = _ ∨ (ragOf w c s t o).plan.deltas = []
  have hp : (plan0Of w c s t o).deltas = t.hookDeltas ∨ (plan0Of w c s t o).deltas = [] := by
    unfold plan0Of planOf
    split
    · split <;> simp
    · simp
  unfold ragOf
  split
  · unfold ragStep
    split
    · dsimp only
      generalize Clem.T3.ragOnce (α := α) _ _ _ false = r
      cases r.ragUsed
      · simpa using hp
      · right; rfl
    · exact hp
  · exact hp

theorem rag_calls_le_one : (ragOf w c s t o).calls ≤ 1 := by
  unfold ragOf
  split
  · unfold ragStep
    split
    · exact Clem.Props.C13.C13_rag_calls_le_one _ _ _ _
    · simp
  · simp

/-! ## Apply on the store double -/

theorem filterMap_range_getElem? {β : Type} (l : List β) :
    (List.range l.length).filterMap (fun i => l[i]?) = l := by
  induction l with
  | nil => rfl
  | cons a l ih =>
    rw [List.length_cons, List.range_succ_eq_map, List.filterMap_cons]
    simp [List.filterMap_map, Function.comp_def, ih]

theorem applyIn_store (ap : List (Clem.T4.Delta α)) (n : Nat) : (applyIn c s t ap n).store = .fn := rfl
theorem applyIn_script_ret (ap : List (Clem.T4.Delta α)) (n : Nat) :
    (Clem.Apply.headO (applyIn c s t ap n).script).isRet = true := rfl

/-- the store double receives one batch: the approved list itself -/
theorem calls_once (ap : List (Clem.T4.Delta α)) (n : Nat) :
    callsOf ap (Clem.Apply.apply (applyIn c s t ap n)).calls = [ap] := by
  rw [Clem.Apply.C04_handoff_batch_ok _ (applyIn_store c s t ap n) (applyIn_script_ret c s t ap n)]
  show [(List.range ap.length).filterMap (fun i => ap[i]?)] = [ap]
  rw [filterMap_range_getElem?]

theorem nextState_ver : (nextState w c s t o).ver =
    if commits w c s t o then .num (Clem.Apply.bump s.ver) else s.ver := rfl

/-! ## versions over a history -/

/-- number of turns of the history that hand their approved list to Apply (gates open, no yield before Apply) -/
def commitCount : State α → List (TurnIn α × Oracles α) → Nat
  | _, [] => 0
  | s, t :: ts => (if commits w c s t.1 t.2 then 1 else 0) + commitCount (runTurn w c s t.1 t.2).state ts

theorem version_history (s : State α) (ts : List (TurnIn α × Oracles α)) (v : Int) (h : s.ver = .num v) :
    (runTurns w c s ts).state.ver = .num (v + commitCount w c s ts) := by
  induction ts generalizing s v with
  | nil => simp [runTurns_nil, commitCount, h]
  | cons t ts ih =>
    rw [runTurns_cons]
    dsimp only
    by_cases hc : commits w c s t.1 t.2 = true
    · have h1 : (runTurn w c s t.1 t.2).state.ver = .num (v + 1) := by
        rw [runTurn_state, nextState_ver, if_pos hc, h]; rfl
      rw [ih _ (v + 1) h1]
      simp only [commitCount, hc, if_true]
      congr 1; push_cast; ring
    · have h1 : (runTurn w c s t.1 t.2).state.ver = .num v := by
        rw [runTurn_state, nextState_ver, if_neg hc, h]
      rw [ih _ v h1]
      simp only [commitCount, hc]
      congr 1; push_cast; ring

/-- … which is the number of turn outputs with an apply record -/
theorem commitCount_eq_applies (s : State α) (ts : List (TurnIn α × Oracles α)) :
    commitCount w c s ts = ((runTurns w c s ts).outs.filter (fun o => o.apply.isSome)).length := by
  induction ts generalizing s with
  | nil => rfl
  | cons t ts ih =>
    rw [runTurns_cons]
    simp only [commitCount, List.filter_cons, runTurn_apply]
    rw [ih]
    by_cases hc : commits w c s t.1 t.2 = true
    · simp [hc]; omega
    · simp [hc]

/-- scheduler off: nothing yields, every boundary is passed -/
theorem yieldOf_sched_off (s : State α) (t : TurnIn α) (o : Oracles α) (h : c.sched = none) :
    yieldOf w c s t o = none := by
  unfold yieldOf; rw [h]

theorem reach_sched_off (s : State α) (t : TurnIn α) (o : Oracles α) (h : c.sched = none) (k : Nat) (hk : k < 5) :
    reach w c s t o k = true := by
  unfold reach yr
  rw [yieldOf_sched_off w c s t o h]
  simpa using hk

/-! ## GEL: the store after any turn is `Clem.Gel.run` of a list of C18's operations -/

theorem gel_run_append (g : Clem.Gel.State α) (a b : List (Clem.Gel.Op α)) :
    Clem.Gel.run c.gel c.pw g (a ++ b) = Clem.Gel.run c.gel c.pw (Clem.Gel.run c.gel c.pw g a) b := by
  unfold Clem.Gel.run; rw [List.foldl_append]

theorem nextState_gel (s : State α) (t : TurnIn α) (o : Oracles α) :
    (nextState w c s t o).gel = Clem.Gel.run c.gel c.pw s.gel (gelOps w c s t o) := rfl

/-- with promotions off the turn issues no `promote` operation -/
theorem gelOps_no_promote (s : State α) (t : TurnIn α) (o : Oracles α) (h : c.doPromo = false) :
    ∀ p, Clem.Gel.Op.promote p ∉ gelOps w c s t o := by
  intro p hp
  unfold gelOps gelObsOps gelTickOps gelMaintOps gelPromos at hp
  rw [h] at hp
  simp only [Bool.false_eq_true, if_false, Clem.Gel.pySlice, List.take_nil, List.map_nil, List.append_nil,
    ite_self] at hp
  rcases List.mem_append.1 hp with h1 | h1
  · rcases List.mem_append.1 h1 with h2 | h2
    · split at h2 <;> simp at h2
    · split at h2 <;> simp at h2
  · split at h1
    · rcases List.mem_append.1 h1 with h2 | h2 <;> simp at h2
    · cases h1

/-- every output of a history carries a GEL store reached from the initial one by C18 operations
(without `promote` when promotions are off) -/
theorem mem_outs_gel {s : State α} {ts : List (TurnIn α × Oracles α)} {o : TurnOut α}
    (h : o ∈ (runTurns w c s ts).outs) :
    ∃ ops, o.state.gel = Clem.Gel.run c.gel c.pw s.gel ops ∧
      (c.doPromo = false → ∀ p, Clem.Gel.Op.promote p ∉ ops) := by
  induction ts generalizing s with
  | nil => simp [runTurns_nil] at h
  | cons t ts ih =>
    rw [runTurns_cons] at h
    rcases List.mem_cons.1 h with h | h
    · exact ⟨gelOps w c s t.1 t.2, by rw [h, runTurn_state, nextState_gel], gelOps_no_promote w c s t.1 t.2⟩
    · obtain ⟨ops, he, hn⟩ := ih h
      refine ⟨gelOps w c s t.1 t.2 ++ ops, ?_, ?_⟩
      · rw [he, runTurn_state, nextState_gel, gel_run_append]
      · intro hp p hm
        rcases List.mem_append.1 hm with h1 | h1
        · exact gelOps_no_promote w c s t.1 t.2 hp p h1
        · exact hn hp p h1

/-- every output of a history started in a good state is `runTurn` of some turn on some GOOD state -/
theorem mem_outs_good {s : State α} {ts : List (TurnIn α × Oracles α)} {o : TurnOut α}
    (hs : GoodState w c s) (h : o ∈ (runTurns w c s ts).outs) :
    ∃ s' t, GoodState w c s' ∧ t ∈ ts ∧ o = runTurn w c s' t.1 t.2 := by
  induction ts generalizing s with
  | nil => simp [runTurns_nil] at h
  | cons t ts ih =>
    rw [runTurns_cons] at h
    rcases List.mem_cons.1 h with h | h
    · exact ⟨s, t, hs, by simp, h⟩
    · obtain ⟨s', t', hg, ht, he⟩ := ih (nextState_good w c s t.1 t.2 hs) h
      exact ⟨s', t', hg, List.mem_cons_of_mem _ ht, he⟩

theorem goodState_of_empty (s : State α) (h : s.orch = []) : GoodState w c s := by
  intro e he; rw [h] at he; cases he

end

end Clem.Compose
