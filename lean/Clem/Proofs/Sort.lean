import Mathlib.Data.List.Sort
import Clem.Py.Sort

/-! `isort` is Mathlib's `insertionSort`; permutation, sortedness, canonicity. -/
namespace Clem.Py

variable {α : Type}

theorem orderedInsert_eq (le : α → α → Bool) (a : α) (l : List α) :
    orderedInsert le a l = List.orderedInsert (fun x y => le x y = true) a l := by
  induction l with
  | nil => rfl
  | cons b l ih => simp [orderedInsert, List.orderedInsert_cons, ih]

theorem isort_eq (le : α → α → Bool) (l : List α) :
    isort le l = List.insertionSort (fun x y => le x y = true) l := by
  induction l with
  | nil => rfl
  | cons a l ih =>
    show orderedInsert le a (isort le l) = _
    rw [ih, orderedInsert_eq]; rfl

theorem isort_perm (le : α → α → Bool) (l : List α) : (isort le l).Perm l := by
  rw [isort_eq]; exact List.perm_insertionSort _ l

@[simp] theorem mem_isort (le : α → α → Bool) {l : List α} {x : α} : x ∈ isort le l ↔ x ∈ l :=
  (isort_perm le l).mem_iff

@[simp] theorem length_isort (le : α → α → Bool) (l : List α) : (isort le l).length = l.length :=
  (isort_perm le l).length_eq

/-- Sortedness, for a total and transitive key order. -/
theorem isort_pairwise (le : α → α → Bool)
    (total : ∀ a b, le a b = true ∨ le b a = true)
    (trans : ∀ a b c, le a b = true → le b c = true → le a c = true) (l : List α) :
    (isort le l).Pairwise (fun x y => le x y = true) := by
  rw [isort_eq]
  have : Std.Total (fun x y : α => le x y = true) := ⟨total⟩
  have : IsTrans α (fun x y : α => le x y = true) := ⟨trans⟩
  exact List.pairwise_insertionSort _ l

/-- Canonicity: when the key order is antisymmetric on the elements at hand, the sorted list
depends only on the multiset — permuting the input does not change the output. -/
theorem isort_perm_invariant (le : α → α → Bool)
    (total : ∀ a b, le a b = true ∨ le b a = true)
    (trans : ∀ a b c, le a b = true → le b c = true → le a c = true)
    {l l' : List α} (hp : l.Perm l')
    (antisymm : ∀ a ∈ l, ∀ b ∈ l, le a b = true → le b a = true → a = b) :
    isort le l = isort le l' := by
  have h1 := isort_pairwise le total trans l
  have h2 := isort_pairwise le total trans l'
  have hperm : (isort le l).Perm (isort le l') :=
    (isort_perm le l).trans (hp.trans (isort_perm le l').symm)
  apply List.Perm.eq_of_pairwise _ h1 h2 hperm
  intro a b ha hb hab hba
  exact antisymm a ((mem_isort le).mp ha) b (hp.mem_iff.mpr ((mem_isort le).mp hb)) hab hba

/-- A list that is already sorted is left unchanged (idempotence of sorting). -/
theorem isort_of_pairwise (le : α → α → Bool) {l : List α}
    (h : l.Pairwise (fun x y => le x y = true)) : isort le l = l := by
  induction l with
  | nil => rfl
  | cons a l ih =>
    rw [List.pairwise_cons] at h
    show orderedInsert le a (isort le l) = _
    rw [ih h.2]
    cases l with
    | nil => rfl
    | cons b t => simp [orderedInsert, h.1 b (by simp)]

end Clem.Py
