import Clem.Model.LogRotate

/-! Helper lemmas for `rotate_one`: every crash prefix of the step list is the initial state
or one of the `shifted` states. -/
namespace Clem.LogRotate

/-- the legal states of an (interrupted) rotation of `fs` with `n` backups. -/
def Legal (fs : FS) (n : Nat) (st : FS) : Prop := st = fs ∨ ∃ m, m ≤ n ∧ st = shifted fs n m

/-- every prefix of `l` run from `g` ends in a legal state. -/
def AllPre (fs : FS) (n : Nat) : FS → List Step → Prop
  | g, [] => Legal fs n g
  | g, s :: l => Legal fs n g ∧ AllPre fs n (apply g s) l

theorem exec_append (g : FS) (l1 l2 : List Step) : exec g (l1 ++ l2) = exec (exec g l1) l2 := by
  simp [exec, List.foldl_append]

theorem exec_cons (g : FS) (s : Step) (l : List Step) : exec g (s :: l) = exec (apply g s) l := rfl

theorem allPre_head {fs n g l} (h : AllPre fs n g l) : Legal fs n g := by
  cases l with
  | nil => exact h
  | cons s l => exact h.1

theorem allPre_append {fs n} : ∀ (l1 : List Step) (g : FS) (l2 : List Step),
    AllPre fs n g l1 → AllPre fs n (exec g l1) l2 → AllPre fs n g (l1 ++ l2)
  | [], _, _, _, h2 => h2
  | s :: l1, g, l2, h1, h2 => ⟨h1.1, allPre_append l1 (apply g s) l2 h1.2 h2⟩

theorem allPre_take {fs n} : ∀ (l : List Step) (g : FS) (j : Nat),
    AllPre fs n g l → Legal fs n (exec g (l.take j))
  | [], g, j, h => by
    have : Legal fs n g := h
    simpa [exec] using this
  | s :: l, g, 0, h => by simpa [exec] using h.1
  | s :: l, g, j + 1, h => by
    rw [List.take_succ_cons, exec_cons]
    exact allPre_take l (apply g s) j h.2

theorem allPre_exec {fs n} (l : List Step) (g : FS) (h : AllPre fs n g l) :
    Legal fs n (exec g l) := by
  have := allPre_take l g l.length h
  simpa using this

/-- moving generation `k+1` up from the state where `k+2 …` have moved. -/
theorem shifted_mv (fs : FS) (n k : Nat) (hk : k + 2 ≤ n) :
    apply (shifted fs n (k + 2)) (.mv (k + 1) (k + 2)) = shifted fs n (k + 1) := by
  funext i
  simp only [apply, shifted]
  grind

/-- an absent generation `k+1`: nothing to move, the two states coincide. -/
theorem shifted_skip (fs : FS) (n k : Nat) (_hk : k + 2 ≤ n) (h : fs (k + 1) = none) :
    shifted fs n (k + 2) = shifted fs n (k + 1) := by
  funext i
  simp only [shifted]
  grind

theorem none_of_not_isSome {o : Option Nat} (h : ¬ o.isSome = true) : o = none := by
  cases o <;> simp_all

theorem legal_shifted {fs : FS} {n m : Nat} (h : m ≤ n) : Legal fs n (shifted fs n m) :=
  Or.inr ⟨m, h, rfl⟩

theorem cascade_allPre (fs : FS) (n : Nat) : ∀ (k : Nat) (g : FS),
    g = shifted fs n (k + 1) → k + 1 ≤ n →
    AllPre fs n g (cascade g k) ∧ exec g (cascade g k) = shifted fs n 1
  | 0, g, hg, hn => by
    subst hg
    exact ⟨legal_shifted hn, rfl⟩
  | k + 1, g, hg, hn => by
    subst hg
    unfold cascade
    by_cases he : existsAt (shifted fs n (k + 2)) (k + 1) = true
    · rw [if_pos he]
      have ih := cascade_allPre fs n k (apply (shifted fs n (k + 2)) (.mv (k + 1) (k + 2)))
        (shifted_mv fs n k hn) (by omega)
      exact ⟨⟨legal_shifted hn, ih.1⟩, by rw [exec_cons]; exact ih.2⟩
    · rw [if_neg he]
      have e : shifted fs n (k + 2) (k + 1) = fs (k + 1) := by
        simp only [shifted]; grind
      have hnone : fs (k + 1) = none := by
        rw [existsAt, e] at he; exact none_of_not_isSome he
      rw [shifted_skip fs n k hn hnone]
      exact cascade_allPre fs n k _ rfl (by omega)

theorem rm_oldest (fs : FS) (n : Nat) : apply fs (.rm n) = shifted fs n n := by
  funext i
  simp only [apply, shifted]
  grind

theorem absent_oldest (fs : FS) (n : Nat) (h : fs n = none) : fs = shifted fs n n := by
  funext i
  simp only [shifted]
  grind

theorem last_mv (fs : FS) (n : Nat) (_hn : 1 ≤ n) :
    apply (shifted fs n 1) (.mv 0 1) = shifted fs n 0 := by
  funext i
  simp only [apply, shifted]
  grind

theorem last_skip (fs : FS) (n : Nat) (_hn : 1 ≤ n) (h : fs 0 = none) :
    shifted fs n 1 = shifted fs n 0 := by
  funext i
  simp only [shifted]
  grind

theorem preSteps_allPre (fs : FS) (n : Nat) (hn : 1 ≤ n) :
    AllPre fs n fs (preSteps fs n) ∧ exec fs (preSteps fs n) = shifted fs n 1 := by
  unfold preSteps
  have hn' : n - 1 + 1 = n := by omega
  by_cases he : existsAt fs n = true
  · simp only [he, if_true]
    have hg : exec fs [Step.rm n] = shifted fs n (n - 1 + 1) := by
      rw [hn']; exact rm_oldest fs n
    have c := cascade_allPre fs n (n - 1) _ hg (by omega)
    refine ⟨allPre_append [Step.rm n] fs _ ⟨Or.inl rfl, ?_⟩ c.1, by rw [exec_append]; exact c.2⟩
    show Legal fs n (apply fs (.rm n))
    rw [rm_oldest]; exact legal_shifted (Nat.le_refl n)
  · have hnone : fs n = none := none_of_not_isSome he
    simp only [he]
    have hg : exec fs [] = shifted fs n (n - 1 + 1) := by
      rw [hn']; exact absent_oldest fs n hnone
    have c := cascade_allPre fs n (n - 1) _ hg (by omega)
    exact ⟨allPre_append [] fs _ (Or.inl rfl) c.1, by rw [exec_append]; exact c.2⟩

theorem stepsPos_allPre (fs : FS) (n : Nat) (hn : 1 ≤ n) :
    AllPre fs n fs (stepsPos fs n) ∧ exec fs (stepsPos fs n) = shifted fs n 0 := by
  unfold stepsPos
  have p := preSteps_allPre fs n hn
  by_cases he : existsAt (exec fs (preSteps fs n)) 0 = true
  · simp only [he, if_true]
    refine ⟨allPre_append _ fs _ p.1 ?_, ?_⟩
    · rw [p.2]
      exact ⟨legal_shifted (by omega), by rw [last_mv fs n hn]; exact legal_shifted (by omega)⟩
    · rw [exec_append, p.2]; exact last_mv fs n hn
  · have e : shifted fs n 1 0 = fs 0 := by
      simp only [shifted]; grind
    have hnone : fs 0 = none := by
      rw [p.2, existsAt, e] at he; exact none_of_not_isSome he
    simp only [he]
    refine ⟨allPre_append _ fs _ p.1 ?_, ?_⟩
    · rw [p.2]; exact legal_shifted (by omega)
    · rw [exec_append, p.2]; exact last_skip fs n hn hnone

/-- what a legal state guarantees: position of the old generation `i` afterwards. -/
def posAfter (n m i : Nat) : Nat := if m ≤ i ∧ i < n then i + 1 else i

theorem shifted_pos (fs : FS) (n m i : Nat) (_hm : m ≤ n) (hi : i ≠ n) :
    shifted fs n m (posAfter n m i) = fs i := by
  simp only [shifted, posAfter]
  grind

theorem posAfter_strictMono (n m i i' : Nat) (_hm : m ≤ n) (h : i < i') (hi : i ≠ n) (hi' : i' ≠ n) :
    posAfter n m i < posAfter n m i' := by
  simp only [posAfter]
  grind

theorem shifted_origin (fs : FS) (n m i : Nat) (c : Nat) (hm : m ≤ n)
    (h : shifted fs n m i = some c) :
    ∃ i', i' ≠ n ∧ fs i' = some c ∧ (i = i' ∨ i = i' + 1) := by
  by_cases h1 : i > n
  · refine ⟨i, by omega, ?_, Or.inl rfl⟩
    simp only [shifted] at h; grind
  · by_cases h2 : i > m
    · refine ⟨i - 1, by omega, ?_, Or.inr (by omega)⟩
      simp only [shifted] at h; grind
    · by_cases h3 : i = m
      · exfalso; simp only [shifted] at h; grind
      · refine ⟨i, by omega, ?_, Or.inl rfl⟩
        simp only [shifted] at h; grind

end Clem.LogRotate
