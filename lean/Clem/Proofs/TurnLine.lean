/-
Token counting lemmas for the turn-line model: `tokenize` counts token starts, counting distributes over `++`,
and replacing a segment that starts with a non-space character by a text with no more tokens (itself starting and
ending with a non-space character) never increases the number of tokens; `strip` keeps the tokens.
-/
import Clem.Proofs.T3Speak
import Clem.Model.TurnLine

namespace Clem.T3

theorem tokAux_length (s : Str) : ∀ cur : Str,
    (tokAux cur s).length = (if cur.isEmpty then 0 else 1) + cnt cur.isEmpty s := by
  induction s with
  | nil => intro cur; cases cur <;> simp [tokAux, cnt]
  | cons c cs ih =>
    intro cur
    unfold tokAux cnt
    by_cases hc : isSpace c = true
    · rw [if_pos hc, if_pos hc]
      cases cur with
      | nil => simp [ih]
      | cons a t => simp [ih]; omega
    · rw [if_neg hc, if_neg hc, ih]
      cases cur <;> simp <;> omega

theorem tokenize_length (s : Str) : (tokenize s).length = cnt true s := by
  unfold tokenize; rw [tokAux_length]; simp

/-- whether the last character seen is a space, after reading `a` starting from state `p` -/
def endSpace (p : Bool) : Str → Bool
  | [] => p
  | c :: cs => endSpace (isSpace c) cs

theorem cnt_append (a b : Str) : ∀ p, cnt p (a ++ b) = cnt p a + cnt (endSpace p a) b := by
  induction a with
  | nil => intro p; simp [cnt, endSpace]
  | cons c cs ih =>
    intro p
    simp only [List.cons_append, cnt, endSpace]
    by_cases hc : isSpace c = true
    · simp [hc, ih]
    · have hc' : isSpace c = false := by simpa using hc
      simp [hc', ih]; omega

theorem cnt_false_le_true (s : Str) : cnt false s ≤ cnt true s := by
  cases s with
  | nil => simp [cnt]
  | cons c cs =>
    unfold cnt
    split
    · exact Nat.le_refl _
    · simp

theorem cnt_mono (s : Str) (p q : Bool) (h : p = true → q = true) : cnt p s ≤ cnt q s := by
  cases p <;> cases q <;> simp_all
  exact cnt_false_le_true s

theorem cnt_head (s : Str) (h : headNonSpace s = true) (p : Bool) :
    cnt p s + (if p then 0 else 1) = cnt true s := by
  cases s with
  | nil => simp [headNonSpace] at h
  | cons c cs =>
    have hc : isSpace c = false := by simpa [headNonSpace] using h
    cases p <;> simp [cnt, hc] <;> omega

theorem endSpace_append (a b : Str) (p : Bool) : endSpace p (a ++ b) = endSpace (endSpace p a) b := by
  induction a generalizing p with
  | nil => rfl
  | cons c cs ih => simp [endSpace, ih]

theorem endSpace_last (s : Str) (h : lastNonSpace s = true) (p : Bool) : endSpace p s = false := by
  have hne : s ≠ [] := by intro h0; subst h0; simp [lastNonSpace, headNonSpace] at h
  obtain ⟨init, c, hs⟩ : ∃ init c, s = init ++ [c] := ⟨s.dropLast, s.getLast hne, (List.dropLast_concat_getLast hne).symm⟩
  subst hs
  have hc : isSpace c = false := by simpa [lastNonSpace, headNonSpace] using h
  rw [endSpace_append]; simp [endSpace, hc]

/-- replacing `mid` by `repl` inside any context does not add tokens -/
theorem cnt_replace_le (left mid repl right : Str) (hm : headNonSpace mid = true) (hr : headNonSpace repl = true)
    (hl : lastNonSpace repl = true) (hle : cnt true repl ≤ cnt true mid) (p : Bool) :
    cnt p (left ++ repl ++ right) ≤ cnt p (left ++ mid ++ right) := by
  rw [List.append_assoc, List.append_assoc, cnt_append left, cnt_append left, cnt_append repl, cnt_append mid]
  have h1 := cnt_head mid hm (endSpace p left)
  have h2 := cnt_head repl hr (endSpace p left)
  have h3 : endSpace (endSpace p left) repl = false := endSpace_last repl hl _
  rw [h3]
  have h4 := cnt_mono right false (endSpace (endSpace p left) mid) (by simp)
  split at h1 <;> split at h2 <;> simp_all <;> omega

theorem cnt_dropWhile (s : Str) : cnt true (s.dropWhile isSpace) = cnt true s := by
  induction s with
  | nil => rfl
  | cons c cs ih =>
    by_cases hc : isSpace c = true
    · simp [List.dropWhile, hc, cnt, ih]
    · have hc' : isSpace c = false := by simpa using hc
      simp [List.dropWhile, hc']

theorem cnt_append_spaces (a w : Str) (hw : ∀ c ∈ w, isSpace c = true) (p : Bool) : cnt p (a ++ w) = cnt p a := by
  rw [cnt_append]
  suffices h : ∀ q, cnt q w = 0 by rw [h]; rfl
  induction w with
  | nil => intro q; rfl
  | cons c cs ih =>
    intro q
    have := hw c (by simp)
    simp [cnt, this, ih (fun x hx => hw x (by simp [hx]))]

theorem mem_takeWhile_sp : ∀ (l : Str) (c : Nat), c ∈ l.takeWhile isSpace → isSpace c = true
  | [], _, h => by simp at h
  | a :: l, c, h => by
    by_cases ha : isSpace a = true
    · simp only [List.takeWhile, ha, List.mem_cons] at h
      rcases h with h | h
      · subst h; exact ha
      · exact mem_takeWhile_sp l c h
    · have ha' : isSpace a = false := by simpa using ha
      simp [List.takeWhile, ha'] at h

/-- `.strip()` keeps the tokens -/
theorem cnt_strip (s : Str) : cnt true (strip s) = cnt true s := by
  unfold strip lstrip rstrip
  rw [← cnt_dropWhile s]
  generalize s.dropWhile isSpace = t
  have hsplit := List.takeWhile_append_dropWhile (p := isSpace) (l := t.reverse)
  have ht : t = (t.reverse.dropWhile isSpace).reverse ++ (t.reverse.takeWhile isSpace).reverse := by
    have h2 := congrArg List.reverse hsplit
    rw [List.reverse_append, List.reverse_reverse] at h2
    exact h2.symm
  conv => rhs; rw [ht]
  rw [cnt_append_spaces]
  intro c hc
  have hc' : c ∈ t.reverse.takeWhile isSpace := by simpa using hc
  exact mem_takeWhile_sp _ c hc'

end Clem.T3
