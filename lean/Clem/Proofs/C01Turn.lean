/-
C01 — lemmas about the clock skeleton (`Clem/Model/C01Turn.lean`).
-/
import Clem.Model.C01Turn

set_option linter.unusedSimpArgs false

namespace Clem.C01

theorem yieldReason_congr (cfg : Cfg) (ms ms' : Int) (i p k o : Option Int)
    (h1 : wallHit cfg ms = wallHit cfg ms') (h2 : quantumHit cfg ms = quantumHit cfg ms') :
    yieldReason cfg ms i p k o = yieldReason cfg ms' i p k o := by
  unfold yieldReason
  rw [h1, h2]

theorem timeHits_at {cfg : Cfg} {d d' : Dec} (h : timeHits cfg d = timeHits cfg d') (i : Nat) (hi : i < 5) :
    wallHit cfg (d.elAt i) = wallHit cfg (d'.elAt i) ∧ quantumHit cfg (d.elAt i) = quantumHit cfg (d'.elAt i) := by
  unfold timeHits at h
  have : List.range 5 = [0, 1, 2, 3, 4] := by decide
  rw [this] at h
  simp only [List.map_cons, List.map_nil, List.cons.injEq, Prod.mk.injEq, and_true] at h
  obtain ⟨⟨a0, b0⟩, ⟨a1, b1⟩, ⟨a2, b2⟩, ⟨a3, b3⟩, a4, b4⟩ := h
  match i, hi with
  | 0, _ => exact ⟨a0, b0⟩
  | 1, _ => exact ⟨a1, b1⟩
  | 2, _ => exact ⟨a2, b2⟩
  | 3, _ => exact ⟨a3, b3⟩
  | 4, _ => exact ⟨a4, b4⟩

theorem decEquivB_sched {cfg : Cfg} {d d' : Dec} (h : decEquivB cfg d d' = true) (hs : cfg.schedOn = true) :
    timeHits cfg d = timeHits cfg d' := by
  unfold decEquivB at h
  simp only [hs, Bool.not_true, Bool.false_or, Bool.and_eq_true, beq_iff_eq] at h
  exact h.1

theorem decEquivB_cache {cfg : Cfg} {d d' : Dec} (h : decEquivB cfg d d' = true) (hc : cfg.cacheOn = true) :
    expired cfg d = expired cfg d' := by
  unfold decEquivB at h
  simp only [hc, Bool.not_true, Bool.false_or, Bool.and_eq_true, beq_iff_eq] at h
  exact h.2

theorem t2Step_congr {cfg : Cfg} {d d' : Dec} (h : decEquivB cfg d d' = true) (t : TurnIn) (c : List CEntry) :
    t2Step cfg d t c = t2Step cfg d' t c := by
  unfold t2Step
  by_cases hc : cfg.cacheOn = true
  · have he := decEquivB_cache h hc
    unfold expired at he
    simp only [hc, Bool.not_true]
    split
    · rfl
    · rw [he]
  · simp [hc]

theorem ys_congr {cfg : Cfg} {d d' : Dec} (h : decEquivB cfg d d' = true) (t : TurnIn) (k2 : Option Int) :
    ys cfg d t k2 = ys cfg d' t k2 := by
  funext i
  by_cases hs : cfg.schedOn = true
  · have hh := decEquivB_sched h hs
    match i with
    | 0 => simp only [ys, hs, if_true]
           exact yieldReason_congr _ _ _ _ _ _ _ (timeHits_at hh 0 (by omega)).1 (timeHits_at hh 0 (by omega)).2
    | 1 => simp only [ys, hs, if_true]
           exact yieldReason_congr _ _ _ _ _ _ _ (timeHits_at hh 1 (by omega)).1 (timeHits_at hh 1 (by omega)).2
    | 2 => simp only [ys, hs, Bool.true_and]
           split
           · exact yieldReason_congr _ _ _ _ _ _ _ (timeHits_at hh 2 (by omega)).1 (timeHits_at hh 2 (by omega)).2
           · rfl
    | 3 => simp only [ys, hs, if_true]
           exact yieldReason_congr _ _ _ _ _ _ _ (timeHits_at hh 3 (by omega)).1 (timeHits_at hh 3 (by omega)).2
    | 4 => simp only [ys, hs, if_true]
           exact yieldReason_congr _ _ _ _ _ _ _ (timeHits_at hh 4 (by omega)).1 (timeHits_at hh 4 (by omega)).2
    | n + 5 => rfl
  · have hs' : cfg.schedOn = false := by simpa using hs
    match i with
    | 0 => simp [ys, hs']
    | 1 => simp [ys, hs']
    | 2 => simp [ys, hs']
    | 3 => simp [ys, hs']
    | 4 => simp [ys, hs']
    | n + 5 => rfl

theorem canon_append (ci : Bool) (a b : List Rec) : canon ci (a ++ b) = canon ci a ++ canon ci b := by
  simp [canon]

theorem canon_cons (ci : Bool) (r : Rec) (l : List Rec) :
    canon ci (r :: l) = (if r.stream.canonical then [canonRec ci r] else []) ++ canon ci l := by
  unfold canon
  by_cases h : r.stream.canonical = true <;> simp [List.filter_cons, h]

theorem canon_nil (ci : Bool) : canon ci [] = [] := rfl

@[simp] theorem t1Rec_stream (cfg : Cfg) (d : Dec) (t : TurnIn) : (t1Rec cfg d t).stream = .t1 := rfl
@[simp] theorem t2Rec_stream (cfg : Cfg) (r2 : T2Res) (d : Dec) (t : TurnIn) : (t2Rec cfg r2 d t).stream = .t2 := rfl
@[simp] theorem t4Rec_stream (cfg : Cfg) (d : Dec) (t : TurnIn) : (t4Rec cfg d t).stream = .t4 := rfl
@[simp] theorem apRec_stream (cfg : Cfg) (d : Dec) (t : TurnIn) : (apRec cfg d t).stream = .apply := rfl
@[simp] theorem turnRec_stream (cfg : Cfg) (t : TurnIn) (s l : List Int) : (turnRec cfg t s l).stream = .turn := rfl

theorem t1Rec_vol (cfg : Cfg) (d d' : Dec) (t : TurnIn) :
    canonRec true (t1Rec cfg d t) = canonRec true (t1Rec cfg d' t) := by
  simp [canonRec, normalize, t1Rec, Stream.identity]

theorem t2Rec_vol (cfg : Cfg) (r2 : T2Res) (d d' : Dec) (t : TurnIn) :
    canonRec true (t2Rec cfg r2 d t) = canonRec true (t2Rec cfg r2 d' t) := by
  simp [canonRec, normalize, t2Rec, Stream.identity]

theorem t4Rec_vol (cfg : Cfg) (d d' : Dec) (t : TurnIn) :
    canonRec true (t4Rec cfg d t) = canonRec true (t4Rec cfg d' t) := by
  simp [canonRec, normalize, t4Rec, Stream.identity]

theorem apRec_vol (cfg : Cfg) (d d' : Dec) (t : TurnIn) :
    canonRec true (apRec cfg d t) = canonRec true (apRec cfg d' t) := by
  simp [canonRec, normalize, apRec, Stream.identity]

theorem turnRec_vol (cfg : Cfg) (t : TurnIn) (s : List Int) (a0 a1 a2 a3 a4 b0 b1 b2 b3 b4 : Int) :
    canonRec true (turnRec cfg t s [a0, a1, a2, a3, a4]) = canonRec true (turnRec cfg t s [b0, b1, b2, b3, b4]) := by
  simp [canonRec, normalize, turnRec, Stream.identity]

theorem t3Recs_vol (cfg : Cfg) (d d' : Dec) (t : TurnIn) :
    canon true (t3Recs cfg d t) = canon true (t3Recs cfg d' t) := by
  unfold t3Recs
  by_cases h : cfg.t3On = true <;> simp [h, canon, Stream.canonical]

theorem yieldRecs_vol (cfg : Cfg) (t : TurnIn) (r s : Nat) (e e' : Int) (cons summ : List Int)
    (a0 a1 a2 a3 a4 b0 b1 b2 b3 b4 : Int) :
    canon true (yieldRecs cfg t r s e cons summ [a0, a1, a2, a3, a4])
      = canon true (yieldRecs cfg t r s e' cons summ [b0, b1, b2, b3, b4]) := by
  simp [canon, canonRec, normalize, yieldRecs, Stream.identity, Stream.canonical]

/-- With the decisions fixed, the clock contribution only reaches fields that the canonical form erases. -/
theorem turnCore_vol (cfg : Cfg) (hci : cfg.ci = true) (y : Nat → Nat) (r2 : T2Res) (d d' : Dec) (t : TurnIn)
    (c : List CEntry) :
    canonOut cfg (turnCore cfg y r2 d t c) = canonOut cfg (turnCore cfg y r2 d' t c) := by
  unfold turnCore canonOut
  rw [hci]
  have e1 := t1Rec_vol cfg d d' t
  have e2 := t2Rec_vol cfg r2 d d' t
  have e3 := t3Recs_vol cfg d d' t
  have e4 := t4Rec_vol cfg d d' t
  have e5 := apRec_vol cfg d d' t
  split
  · simp only [canon_append, canon_cons, canon_nil, t1Rec_stream, t2Rec_stream, t4Rec_stream, apRec_stream, turnRec_stream, e1, List.append_nil,
      yieldRecs_vol cfg t _ _ (d.elAt 0) (d'.elAt 0) _ _ (d.volAt 0) 0 0 0 (d.volAt 6) (d'.volAt 0) 0 0 0 (d'.volAt 6)]
    try rfl
  split
  · simp only [canon_append, canon_cons, canon_nil, t1Rec_stream, t2Rec_stream, t4Rec_stream, apRec_stream, turnRec_stream, e1, e2, List.append_nil,
      yieldRecs_vol cfg t _ _ (d.elAt 1) (d'.elAt 1) _ _ (d.volAt 0) (d.volAt 1) 0 0 (d.volAt 6) (d'.volAt 0) (d'.volAt 1) 0 0 (d'.volAt 6)]
    try rfl
  split
  · simp only [canon_append, canon_cons, canon_nil, t1Rec_stream, t2Rec_stream, t4Rec_stream, apRec_stream, turnRec_stream, e1, e2, List.append_nil,
      yieldRecs_vol cfg t _ _ (d.elAt 2) (d'.elAt 2) _ _ (d.volAt 0) (d.volAt 1) 0 0 (d.volAt 6) (d'.volAt 0) (d'.volAt 1) 0 0 (d'.volAt 6)]
    try rfl
  split
  · simp only [canon_append, canon_cons, canon_nil, t1Rec_stream, t2Rec_stream, t4Rec_stream, apRec_stream, turnRec_stream, e1, e2, e3, List.append_nil,
      turnRec_vol cfg t _ (d.volAt 0) (d.volAt 1) 0 0 (d.volAt 6) (d'.volAt 0) (d'.volAt 1) 0 0 (d'.volAt 6)]
    try rfl
  split
  · simp only [canon_append, canon_cons, canon_nil, t1Rec_stream, t2Rec_stream, t4Rec_stream, apRec_stream, turnRec_stream, e1, e2, e3, e4, List.append_nil,
      yieldRecs_vol cfg t _ _ (d.elAt 3) (d'.elAt 3) _ _ (d.volAt 0) (d.volAt 1) (d.volAt 4) 0 (d.volAt 6) (d'.volAt 0) (d'.volAt 1) (d'.volAt 4) 0 (d'.volAt 6)]
    try rfl
  split
  · simp only [canon_append, canon_cons, canon_nil, t1Rec_stream, t2Rec_stream, t4Rec_stream, apRec_stream, turnRec_stream, e1, e2, e3, e4, e5, List.append_nil,
      yieldRecs_vol cfg t _ _ (d.elAt 4) (d'.elAt 4) _ _ (d.volAt 0) (d.volAt 1) (d.volAt 4) (d.volAt 5) (d.volAt 6) (d'.volAt 0) (d'.volAt 1) (d'.volAt 4) (d'.volAt 5) (d'.volAt 6)]
    try rfl
  · simp only [canon_append, canon_cons, canon_nil, t1Rec_stream, t2Rec_stream, t4Rec_stream, apRec_stream, turnRec_stream, e1, e2, e3, e4, e5, List.append_nil,
      turnRec_vol cfg t _ (d.volAt 0) (d.volAt 1) (d.volAt 4) (d.volAt 5) (d.volAt 6) (d'.volAt 0) (d'.volAt 1) (d'.volAt 4) (d'.volAt 5) (d'.volAt 6)]
    try rfl

theorem turn_noninterference (cfg : Cfg) (hci : cfg.ci = true) (d d' : Dec) (t : TurnIn) (c : List CEntry)
    (h : decEquivB cfg d d' = true) :
    canonOut cfg (turn cfg d t c) = canonOut cfg (turn cfg d' t c) := by
  unfold turn
  simp only []
  rw [t2Step_congr h t c, ys_congr h t]
  exact turnCore_vol cfg hci _ _ d d' t c

theorem turn_cache_congr (cfg : Cfg) (hci : cfg.ci = true) (d d' : Dec) (t : TurnIn) (c : List CEntry)
    (h : decEquivB cfg d d' = true) : (turn cfg d t c).cache = (turn cfg d' t c).cache := by
  have := congrArg Out.cache (turn_noninterference cfg hci d d' t c h)
  simpa [canonOut] using this

end Clem.C01
