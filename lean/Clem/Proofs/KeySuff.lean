import Clem.Model.KeySuff
import Clem.Model.LruBytes
import Clem.Proofs.LruBytes

/-! Generic cache transparency + the `LRUBytes` instance. -/
namespace Clem.KeySuff

variable {σ K V X : Type}

theorem good_step (C : CacheSem σ K V) (key : X → K) (f : X → V) (s : σ) (e : Ev X)
    (hg : Good C key f s) : Good C key f (stepCached C key f s e).1 := by
  cases e with
  | other t =>
    intro k v h
    exact hg k v (C.other_mono s t k v h)
  | req x =>
    simp only [stepCached]
    cases hr : (C.get s (key x)).2 with
    | some v =>
      simp only
      intro k' v' h
      exact hg k' v' (C.get_mono s (key x) k' v' h)
    | none =>
      simp only
      intro k' v' h
      rcases C.put_mono _ _ _ _ _ h with h | ⟨hk, hv⟩
      · exact hg k' v' (C.get_mono s (key x) k' v' h)
      · exact ⟨x, hk.symm, hv.symm⟩

theorem out_step (C : CacheSem σ K V) (key : X → K) (f : X → V) (hs : Sufficient key f)
    (s : σ) (e : Ev X) (hg : Good C key f s) :
    (stepCached C key f s e).2 = stepUncached f e := by
  cases e with
  | other t => rfl
  | req x =>
    simp only [stepCached, stepUncached]
    cases hr : (C.get s (key x)).2 with
    | none => rfl
    | some v =>
      simp only
      obtain ⟨x', hk, hv⟩ := hg _ _ (C.get_hit s (key x) v hr)
      rw [← hv, hs x' x hk]

/-- **Transparency.** With a sufficient key, a cached run over ANY history (requests
interleaved with arbitrary other cache operations), from any state whose
contents were computed by `f`, returns exactly what the uncached run returns. -/
theorem transparent_of_sufficient (C : CacheSem σ K V) (key : X → K) (f : X → V)
    (hs : Sufficient key f) (es : List (Ev X)) (s : σ) (hg : Good C key f s) :
    runCached C key f s es = runUncached f es := by
  induction es generalizing s with
  | nil => rfl
  | cons e es ih =>
    simp only [runCached, runUncached, List.map_cons]
    rw [out_step C key f hs s e hg]
    congr 1
    exact ih _ (good_step C key f s e hg)

/-- An empty cache is `Good`. -/
theorem good_of_empty (C : CacheSem σ K V) (key : X → K) (f : X → V) (s : σ)
    (h : ∀ k v, ¬ C.holds s k v) : Good C key f s := fun k v hh => absurd hh (h k v)

/-- **Necessity.** If the key is not sufficient and the cache retains the entry it
was just given, the two-request history `[x, x']` is answered wrongly. -/
theorem not_transparent_of_insufficient (C : CacheSem σ K V) (key : X → K) (f : X → V)
    (x x' : X) (hk : key x = key x') (hf : f x ≠ f x') (s : σ)
    (hmiss : (C.get s (key x)).2 = none)
    (hret : (C.get (C.put (C.get s (key x)).1 (key x) (f x)) (key x)).2 = some (f x)) :
    runCached C key f s [.req x, .req x'] ≠ runUncached f [.req x, .req x'] := by
  simp only [runCached, runUncached, stepCached, stepUncached, List.map_cons, List.map_nil, hmiss]
  rw [← hk, hret]
  simp only [ne_eq, List.cons.injEq, Option.some.injEq, and_true, true_and]
  exact hf

end Clem.KeySuff

/-! ### `LRUBytes` is a cache semantics -/
namespace Clem.LruBytes
open Clem.KeySuff

def Holds (s : State) (k v : Nat) : Prop := ∃ e ∈ s.items, e.key = k ∧ e.val = v

theorem mem_without {k : Nat} {l : List Entry} {e : Entry} (h : e ∈ without k l) : e ∈ l :=
  (List.mem_filter.mp h).1

theorem lookup_some_mem {k : Nat} {l : List Entry} {e : Entry} (h : lookup k l = some e) :
    e ∈ l ∧ e.key = k := by
  unfold lookup at h
  exact ⟨List.mem_of_find?_eq_some h, by simpa using List.find?_some h⟩

theorem holds_get_hit (s : State) (k v : Nat) (h : (get s k).2 = some v) : Holds s k v := by
  unfold get at h
  split at h
  · simp at h
  · rename_i e he
    obtain ⟨hm, hk⟩ := lookup_some_mem he
    simp only [Option.some.injEq] at h
    exact ⟨e, hm, hk, h⟩

theorem holds_get_mono (s : State) (k k' v' : Nat) (h : Holds (get s k).1 k' v') : Holds s k' v' := by
  unfold get at h
  split at h
  · exact h
  · rename_i e he
    obtain ⟨e', hm, hk, hv⟩ := h
    simp only [List.mem_append, List.mem_singleton] at hm
    rcases hm with hm | rfl
    · exact ⟨e', mem_without hm, hk, hv⟩
    · exact ⟨e', (lookup_some_mem he).1, hk, hv⟩

theorem holds_put_mono (s : State) (k v : Nat) (c : Int) (k' v' : Nat)
    (h : Holds (put s k v c).1 k' v') : Holds s k' v' ∨ (k' = k ∧ v' = v) := by
  unfold put at h
  split at h
  · exact Or.inl h
  · simp only at h
    split at h
    · exact Or.inl h
    · obtain ⟨e', hm, hk, hv⟩ := h
      simp only at hm
      have hspec := (evictLoop_spec s.maxE s.maxB (without k s.items ++ [⟨k, v, c.toNat⟩])
        (bytesWithout s k + c.toNat)).1
      have : e' ∈ without k s.items ++ [⟨k, v, c.toNat⟩] := by
        rw [hspec]; exact List.mem_append_right _ hm
      simp only [List.mem_append, List.mem_singleton] at this
      rcases this with hm' | rfl
      · exact Or.inl ⟨e', mem_without hm', hk, hv⟩
      · exact Or.inr ⟨hk.symm, hv.symm⟩

/-- `LRUBytes` (any caps, any cost function, `clear` as the other operation) as a `CacheSem`. -/
def cacheSem (cost : Nat → Nat → Int) : CacheSem State Nat Nat where
  get := get
  put := fun s k v => (put s k v (cost k v)).1
  other := fun s _ => clear s
  holds := Holds
  get_hit := holds_get_hit
  get_mono := holds_get_mono
  put_mono := fun s k v k' v' h => holds_put_mono s k v (cost k v) k' v' h
  other_mono := by
    intro s t k' v' h
    obtain ⟨e, hm, _⟩ := h
    simp [clear] at hm

end Clem.LruBytes
