import Clem.Proofs.ParT2Walk

/-! `rankU` (sort, one entry per id, cut to k) as a streaming fold; top-k-unique of a union from the
per-shard top-k-unique lists; the merge walk over such lists (C09, re-added episode ids). -/
namespace Clem.ParT2
open Clem.Py

variable {α : Type}

/-! ### dedupAux basics -/

theorem dedupAux_sublist (acc : List (List Nat)) (l : List (Hit α)) : (dedupAux acc l).Sublist l := by
  induction l generalizing acc with
  | nil => exact List.Sublist.refl _
  | cons h t ih =>
    simp only [dedupAux]
    split
    · exact (ih acc).cons _
    · exact (ih _).cons₂ _

theorem dedupAux_ids (acc : List (List Nat)) (l : List (Hit α)) :
    ((dedupAux acc l).map Hit.id).Nodup ∧ ∀ x ∈ dedupAux acc l, x.id ∉ acc := by
  induction l generalizing acc with
  | nil => simp [dedupAux]
  | cons h t ih =>
    simp only [dedupAux]
    split
    · exact ih acc
    · rename_i hc
      have hc' : h.id ∉ acc := by simpa using hc
      obtain ⟨h1, h2⟩ := ih (h.id :: acc)
      refine ⟨?_, ?_⟩
      · rw [List.map_cons, List.nodup_cons]
        refine ⟨?_, h1⟩
        intro hm
        obtain ⟨x, hx, e⟩ := List.mem_map.mp hm
        exact h2 x hx (by simp [e])
      · intro x hx
        rcases List.mem_cons.mp hx with rfl | hx
        · exact hc'
        · intro hm; exact h2 x hx (by simp [hm])

/-- a list with unique ids none of which is in `acc` is left alone. -/
theorem dedupAux_of_nodup (acc : List (List Nat)) (l : List (Hit α))
    (hnd : (l.map Hit.id).Nodup) (hd : ∀ x ∈ l, x.id ∉ acc) : dedupAux acc l = l := by
  induction l generalizing acc with
  | nil => rfl
  | cons h t ih =>
    rw [List.map_cons, List.nodup_cons] at hnd
    have hc : acc.contains h.id = false := by simpa using hd h (by simp)
    simp only [dedupAux, hc, Bool.false_eq_true, if_false]
    rw [ih (h.id :: acc) hnd.2]
    intro x hx hm
    rcases List.mem_cons.mp hm with e | e
    · exact hnd.1 (e ▸ List.mem_map_of_mem hx)
    · exact hd x (by simp [hx]) e

/-- with one more id `c` seen, a unique-id list loses exactly its element with id `c`. -/
theorem dedupAux_cons_of_nodup (c : List Nat) (acc : List (List Nat)) (l : List (Hit α))
    (hnd : (l.map Hit.id).Nodup) (hd : ∀ x ∈ l, x.id ∉ acc) :
    dedupAux (c :: acc) l = l.filter (fun x => x.id != c) := by
  induction l generalizing acc with
  | nil => rfl
  | cons h t ih =>
    rw [List.map_cons, List.nodup_cons] at hnd
    have hacc : h.id ∉ acc := hd h (by simp)
    have htl : ∀ x ∈ t, x.id ∉ (h.id :: acc) := by
      intro x hx hm
      rcases List.mem_cons.mp hm with e | e
      · exact hnd.1 (e ▸ List.mem_map_of_mem hx)
      · exact hd x (by simp [hx]) e
    by_cases e : h.id = c
    · subst e
      have hc : (h.id :: acc).contains h.id = true := by simp
      simp only [dedupAux, hc, if_true, List.filter_cons, bne_self_eq_false, Bool.false_eq_true, if_false]
      exact ih acc hnd.2 (fun x hx => hd x (by simp [hx]))
    · have hc : (c :: acc).contains h.id = false := by
        simp only [List.contains_cons, Bool.or_eq_false_iff]
        exact ⟨by simpa using e, by simpa using hacc⟩
      have hb : (h.id != c) = true := by simpa using e
      simp only [dedupAux, hc, Bool.false_eq_true, if_false, List.filter_cons, hb, if_true]
      congr 1
      -- acc' = h.id :: c :: acc ; same as c :: (h.id :: acc) up to order: prove via the permuted statement
      have := ih (h.id :: acc) hnd.2 htl
      -- dedupAux only tests membership, so the order of the accumulator is irrelevant
      have hswap : ∀ (l : List (Hit α)) (a1 a2 : List (List Nat)), (∀ i, i ∈ a1 ↔ i ∈ a2) →
          dedupAux a1 l = dedupAux a2 l := by
        intro l
        induction l with
        | nil => intros; rfl
        | cons y ys ihy =>
          intro a1 a2 hiff
          have hcy : a1.contains y.id = a2.contains y.id := by
            have := hiff y.id
            by_cases h1 : y.id ∈ a1
            · have h2 := this.mp h1; simp [h1, h2]
            · have h2 : y.id ∉ a2 := fun h => h1 (this.mpr h); simp [h1, h2]
          simp only [dedupAux, hcy]
          split
          · exact ihy a1 a2 hiff
          · congr 1; exact ihy _ _ (fun i => by simp [hiff i])
      rw [hswap t (h.id :: c :: acc) (c :: h.id :: acc) (fun i => by simp; tauto)]
      exact this

/-- de-duplicating again with a larger accumulator. -/
theorem dedupAux_dedupAux (acc acc' : List (List Nat)) (l : List (Hit α)) (hsub : ∀ i ∈ acc, i ∈ acc') :
    dedupAux acc' (dedupAux acc l) = dedupAux acc' l := by
  induction l generalizing acc acc' with
  | nil => rfl
  | cons h t ih =>
    by_cases hc : acc.contains h.id = true
    · have hc' : acc'.contains h.id = true := by simpa using hsub _ (by simpa using hc)
      simp only [dedupAux, hc, if_true, hc']
      exact ih acc acc' hsub
    · have hcf : acc.contains h.id = false := by simpa using hc
      simp only [dedupAux, hcf, Bool.false_eq_true, if_false]
      by_cases hc' : acc'.contains h.id = true
      · simp only [hc', if_true]
        exact ih (h.id :: acc) acc' (fun i hi => by
          rcases List.mem_cons.mp hi with e | e
          · subst e; simpa using hc'
          · exact hsub i e)
      · have hcf' : acc'.contains h.id = false := by simpa using hc'
        simp only [hcf', Bool.false_eq_true, if_false]
        congr 1
        exact ih (h.id :: acc) (h.id :: acc') (fun i hi => by
          rcases List.mem_cons.mp hi with e | e
          · simp [e]
          · simp [hsub i e])

/-! ### inserting into a sorted list commutes with de-duplication -/

theorem dedupAux_cons (acc : List (List Nat)) (h : Hit α) (t : List (Hit α)) :
    dedupAux acc (h :: t) = if acc.contains h.id then dedupAux acc t else h :: dedupAux (h.id :: acc) t := rfl

theorem orderedInsert_of_le_all (le : Hit α → Hit α → Bool) (a : Hit α) (l : List (Hit α))
    (h : ∀ x ∈ l, le a x = true) : orderedInsert le a l = a :: l := by
  cases l with
  | nil => rfl
  | cons b t => simp [orderedInsert, h b (by simp)]

theorem dedupAux_orderedInsert (le : Hit α → Hit α → Bool)
    (trans : ∀ a b c, le a b = true → le b c = true → le a c = true) (a : Hit α) :
    ∀ (s : List (Hit α)) (acc : List (List Nat)), s.Pairwise (fun x y => le x y = true) →
      dedupAux acc (orderedInsert le a s) = dedupAux acc (orderedInsert le a (dedupAux acc s)) := by
  intro s
  induction s with
  | nil => intro acc _; rfl
  | cons b s' ih =>
    intro acc hp
    rw [List.pairwise_cons] at hp
    cases hab : le a b with
    | true =>
      have hall : ∀ x ∈ b :: s', le a x = true := by
        intro x hx
        rcases List.mem_cons.mp hx with rfl | hx
        · exact hab
        · exact trans _ _ _ hab (hp.1 x hx)
      have hall' : ∀ x ∈ dedupAux acc (b :: s'), le a x = true :=
        fun x hx => hall x ((dedupAux_sublist acc _).subset hx)
      rw [orderedInsert_of_le_all le a _ hall, orderedInsert_of_le_all le a _ hall',
        dedupAux_cons acc a (b :: s'), dedupAux_cons acc a (dedupAux acc (b :: s'))]
      split
      · exact (dedupAux_dedupAux acc acc _ (fun _ h => h)).symm
      · congr 1
        exact (dedupAux_dedupAux acc (a.id :: acc) _ (fun i h => by simp [h])).symm
    | false =>
      have e1 : orderedInsert le a (b :: s') = b :: orderedInsert le a s' := by simp [orderedInsert, hab]
      rw [e1]
      by_cases hc : acc.contains b.id = true
      · rw [dedupAux_cons acc b, dedupAux_cons acc b s']
        simp only [hc, if_true]
        exact ih acc hp.2
      · have hcf : acc.contains b.id = false := by simpa using hc
        have e2 : orderedInsert le a (b :: dedupAux (b.id :: acc) s')
            = b :: orderedInsert le a (dedupAux (b.id :: acc) s') := by simp [orderedInsert, hab]
        rw [dedupAux_cons acc b, dedupAux_cons acc b s']
        simp only [hcf, Bool.false_eq_true, if_false]
        rw [e2, dedupAux_cons acc b]
        simp only [hcf, Bool.false_eq_true, if_false]
        congr 1
        exact ih (b.id :: acc) hp.2

/-- removing the (at most one) element with id `c` from a unique-id list only needs one more element. -/
theorem take_filter_id (c : List Nat) : ∀ (D : List (Hit α)) (k : Nat), (D.map Hit.id).Nodup →
    (D.filter (fun x => x.id != c)).take k = ((D.take (k + 1)).filter (fun x => x.id != c)).take k := by
  intro D
  induction D with
  | nil => intro k _; simp
  | cons x D' ih =>
    intro k hnd
    rw [List.map_cons, List.nodup_cons] at hnd
    by_cases e : x.id = c
    · have hb : (x.id != c) = false := by simp [e]
      have hnone : ∀ y ∈ D', (y.id != c) = true := by
        intro y hy
        have : y.id ≠ c := fun ey => hnd.1 (by rw [e, ← ey]; exact List.mem_map_of_mem hy)
        simpa using this
      have f1 : D'.filter (fun x => x.id != c) = D' := List.filter_eq_self.mpr hnone
      have f2 : (D'.take k).filter (fun x => x.id != c) = D'.take k :=
        List.filter_eq_self.mpr (fun y hy => hnone y (List.mem_of_mem_take hy))
      simp only [List.filter_cons, hb, Bool.false_eq_true, if_false, List.take_succ_cons, f1, f2, List.take_take,
        Nat.min_self]
    · have hb : (x.id != c) = true := by simpa using e
      cases k with
      | zero => simp
      | succ k' =>
        simp only [List.filter_cons, hb, if_true, List.take_succ_cons]
        congr 1
        exact ih k' hnd.2

theorem take_dedupAux_orderedInsert (le : Hit α → Hit α → Bool) (a : Hit α) :
    ∀ (D : List (Hit α)) (k : Nat) (acc : List (List Nat)), (D.map Hit.id).Nodup → (∀ x ∈ D, x.id ∉ acc) →
      (dedupAux acc (orderedInsert le a D)).take k
        = (dedupAux acc (orderedInsert le a (D.take k))).take k := by
  intro D
  induction D with
  | nil => intro k acc _ _; simp
  | cons b D' ih =>
    intro k acc hnd hd
    cases k with
    | zero => simp
    | succ k' =>
      have hnd' := hnd
      rw [List.map_cons, List.nodup_cons] at hnd'
      have hbacc : acc.contains b.id = false := by simpa using hd b (by simp)
      have hndT : (((b :: D').take (k' + 1)).map Hit.id).Nodup :=
        hnd.sublist ((List.take_sublist _ _).map Hit.id)
      have hdT : ∀ x ∈ (b :: D').take (k' + 1), x.id ∉ acc := fun x hx => hd x (List.mem_of_mem_take hx)
      cases hab : le a b with
      | true =>
        have e1 : orderedInsert le a (b :: D') = a :: b :: D' := by simp [orderedInsert, hab]
        have e2 : orderedInsert le a ((b :: D').take (k' + 1)) = a :: (b :: D').take (k' + 1) := by
          simp [List.take_succ_cons, orderedInsert, hab]
        rw [e1, e2, dedupAux_cons acc a (b :: D'), dedupAux_cons acc a ((b :: D').take (k' + 1))]
        split
        · rw [dedupAux_of_nodup acc _ hnd hd, dedupAux_of_nodup acc _ hndT hdT, List.take_take, Nat.min_self]
        · rw [dedupAux_cons_of_nodup a.id acc _ hnd hd, dedupAux_cons_of_nodup a.id acc _ hndT hdT]
          simp only [List.take_succ_cons]
          congr 1
          rw [take_filter_id a.id (b :: D') k' hnd]
          simp [List.take_succ_cons]
      | false =>
        have e1 : orderedInsert le a (b :: D') = b :: orderedInsert le a D' := by simp [orderedInsert, hab]
        have e2 : orderedInsert le a ((b :: D').take (k' + 1)) = b :: orderedInsert le a (D'.take k') := by
          simp [List.take_succ_cons, orderedInsert, hab]
        rw [e1, e2, dedupAux_cons acc b, dedupAux_cons acc b]
        simp only [hbacc, Bool.false_eq_true, if_false, List.take_succ_cons]
        congr 1
        apply ih k' (b.id :: acc) hnd'.2
        intro x hx hm
        rcases List.mem_cons.mp hm with e | e
        · exact hnd'.1 (e ▸ List.mem_map_of_mem hx)
        · exact hd x (by simp [hx]) e

/-! ### `rankU` is a streaming fold -/

section linear
variable (le : Hit α → Hit α → Bool)
  (total : ∀ a b, le a b = true ∨ le b a = true)
  (trans : ∀ a b c, le a b = true → le b c = true → le a c = true)
  (antisymm : ∀ a b, le a b = true → le b a = true → a = b)
include total trans

theorem rankU_cons (k : Nat) (a : Hit α) (l : List (Hit α)) :
    rankU le k (a :: l) = (dedupIds (orderedInsert le a (rankU le k l))).take k := by
  unfold rankU dedupIds
  show (dedupAux [] (orderedInsert le a (isort le l))).take k = _
  rw [dedupAux_orderedInsert le trans a _ [] (isort_pairwise le total trans l)]
  obtain ⟨h1, _⟩ := dedupAux_ids [] (isort le l)
  exact take_dedupAux_orderedInsert le a _ k [] h1 (by simp)

theorem rankU_append (k : Nat) (a b : List (Hit α)) :
    rankU le k (a ++ b)
      = a.foldr (fun x acc => (dedupIds (orderedInsert le x acc)).take k) (rankU le k b) := by
  induction a with
  | nil => rfl
  | cons x a ih => rw [List.cons_append, rankU_cons le total trans, ih]; rfl

theorem rankU_sorted_nodup (k : Nat) (l : List (Hit α)) :
    (rankU le k l).Pairwise (fun x y => le x y = true) ∧ ((rankU le k l).map Hit.id).Nodup := by
  unfold rankU dedupIds
  refine ⟨?_, ?_⟩
  · exact ((isort_pairwise le total trans l).sublist (dedupAux_sublist [] _)).sublist (List.take_sublist _ _)
  · exact (dedupAux_ids [] (isort le l)).1.sublist ((List.take_sublist _ _).map Hit.id)

theorem rankU_idem (k : Nat) (l : List (Hit α)) : rankU le k (rankU le k l) = rankU le k l := by
  obtain ⟨hs, hn⟩ := rankU_sorted_nodup le total trans k l
  have : rankU le k (rankU le k l) = (rankU le k l).take k := by
    show (dedupAux [] (isort le (rankU le k l))).take k = _
    rw [isort_of_pairwise le hs, dedupAux_of_nodup [] _ hn (by simp)]
  rw [this]
  unfold rankU
  rw [List.take_take, Nat.min_self]

include antisymm

theorem rankU_perm {l l' : List (Hit α)} (k : Nat) (hp : l.Perm l') : rankU le k l = rankU le k l' := by
  unfold rankU
  rw [isort_perm_invariant le total trans hp (fun a _ b _ => antisymm a b)]

theorem rankU_rankU_append (k : Nat) (a b : List (Hit α)) :
    rankU le k (rankU le k a ++ b) = rankU le k (a ++ b) := by
  rw [rankU_perm le total trans antisymm k (List.perm_append_comm (l₁ := rankU le k a) (l₂ := b)),
      rankU_perm le total trans antisymm k (List.perm_append_comm (l₁ := a) (l₂ := b)),
      rankU_append le total trans, rankU_append le total trans, rankU_idem le total trans]

theorem rankU_append_congr (k : Nat) {x y : List (Hit α)} (s : List (Hit α))
    (h : rankU le k x = rankU le k y) : rankU le k (s ++ x) = rankU le k (s ++ y) := by
  rw [rankU_append le total trans, rankU_append le total trans, h]

/-- top-k-unique of the union from the per-shard top-k-unique lists (re-added ids allowed). -/
theorem rankU_flatten_map (k : Nat) (shards : List (List (Hit α))) :
    rankU le k (shards.map (rankU le k)).flatten = rankU le k shards.flatten := by
  induction shards with
  | nil => rfl
  | cons s rest ih =>
    simp only [List.map_cons, List.flatten_cons]
    rw [rankU_rankU_append le total trans antisymm]
    exact rankU_append_congr le total trans antisymm k s ih

end linear

/-! ### the merge walk on buckets with repeated ids -/

/-- the dedupe loop ignores repeated ids: walking a bucket or its de-duplicated form is the same. -/
theorem fill_dedupAux (k : Int) : ∀ (L : List (Hit α)) (acc : List (List Nat)) (out : List (Hit α))
    (seen : List (List Nat)), (∀ i ∈ acc, i ∈ seen) →
    fill k (dedupAux acc L) out seen = fill k L out seen := by
  intro L
  induction L with
  | nil => intros; rfl
  | cons h t ih =>
    intro acc out seen hsub
    rw [dedupAux_cons]
    by_cases hc : acc.contains h.id = true
    · have hs : seen.contains h.id = true := by simpa using hsub _ (by simpa using hc)
      simp only [hc, if_true, fill, hs]
      exact ih acc out seen hsub
    · have hcf : acc.contains h.id = false := by simpa using hc
      simp only [hcf, Bool.false_eq_true, if_false, fill]
      by_cases hs : seen.contains h.id = true
      · simp only [hs, if_true]
        exact ih (h.id :: acc) out seen (fun i hi => by
          rcases List.mem_cons.mp hi with e | e
          · subst e; simpa using hs
          · exact hsub i e)
      · have hsf : seen.contains h.id = false := by simpa using hs
        simp only [hsf, Bool.false_eq_true, if_false]
        split
        · rfl
        · exact ih (h.id :: acc) _ (h.id :: seen) (fun i hi => by
            rcases List.mem_cons.mp hi with e | e
            · simp [e]
            · simp [hsub i e])

theorem lookup_shardDictU {σ : Type} (le : Hit α → Hit α → Bool) (k : Nat) (allTiers : List (List Nat))
    (candSh : σ → List Nat → List (Hit α)) (sh : σ) (t : List Nat) (ht : t ∈ allTiers) :
    (shardDictU le k allTiers candSh sh).lookup t = some (rankU le k (candSh sh t)) := by
  unfold shardDictU
  induction allTiers with
  | nil => cases ht
  | cons a l ih =>
    simp only [List.map_cons, List.lookup]
    by_cases e : t = a
    · subst e; simp
    · have : (t == a) = false := by simpa using e
      simp only [this]
      exact ih (by rcases List.mem_cons.mp ht with h | h; exact absurd h e; exact h)

theorem bucketOf_shardDictU {σ : Type} (le : Hit α → Hit α → Bool) (k : Nat) (allTiers : List (List Nat))
    (candSh : σ → List Nat → List (Hit α)) (shards : List σ) (t : List Nat) (ht : t ∈ allTiers) :
    bucketOf t (shards.map (shardDictU le k allTiers candSh))
      = ((shards.map (fun sh => candSh sh t)).map (rankU le k)).flatten := by
  unfold bucketOf
  induction shards with
  | nil => rfl
  | cons s rest ih =>
    simp only [List.map_cons, List.flatMap_cons, List.flatten_cons, ih,
      lookup_shardDictU le k allTiers candSh s t ht, Option.getD_some]

/-- merge walk over per-shard top-k-unique dicts = sequential walk over the whole index's
top-k-unique hits; **no uniqueness assumption on episode ids**. -/
theorem walkU_par_eq_seq {σ : Type} (le : Hit α → Hit α → Bool)
    (total : ∀ a b, le a b = true ∨ le b a = true)
    (trans : ∀ a b c, le a b = true → le b c = true → le a c = true)
    (antisymm : ∀ a b, le a b = true → le b a = true → a = b)
    (k : Nat) (allTiers : List (List Nat)) (shards : List σ)
    (candSh : σ → List Nat → List (Hit α)) :
    ∀ (tiers : List (List Nat)), (∀ t ∈ tiers, t ∈ allTiers) →
    ∀ (out : List (Hit α)) (seen used : List (List Nat)), out.length < k → seen.length ≤ out.length →
      mergeTiers le (k : Int) (shards.map (shardDictU le k allTiers candSh)) tiers out seen used
        = seqWalk (k : Int) (fun t => rankU le k (shards.map (fun sh => candSh sh t)).flatten)
            tiers out seen used := by
  intro tiers
  induction tiers with
  | nil => intro _ out seen used _ _; rfl
  | cons t ts ih =>
    intro hsub out seen used hlt hseen
    have ht : t ∈ allTiers := hsub t (by simp)
    have ih' := ih (fun x hx => hsub x (by simp [hx]))
    simp only [mergeTiers, seqWalk, bucketOf_shardDictU le k allTiers candSh shards t ht]
    generalize hC : (shards.map (fun sh => candSh sh t)) = C at *
    have hT : rankU le k C.flatten = (dedupAux [] (isort le (C.map (rankU le k)).flatten)).take k := by
      rw [← rankU_flatten_map le total trans antisymm k C]; rfl
    rw [hT, seqFill_eq_fill]
    by_cases he : (C.map (rankU le k)).flatten.isEmpty = true
    · have hnil : (C.map (rankU le k)).flatten = [] := List.isEmpty_iff.mp he
      have hno : ¬ (((out.length : Nat) : Int) ≥ (k : Int)) := by omega
      simp only [he, if_true, hnil, isort, List.foldr_nil, dedupAux, List.take_nil, fill, hno, if_false]
      exact ih' out seen _ hlt hseen
    · have he' : (C.map (rankU le k)).flatten.isEmpty = false := by simpa using he
      simp only [he', Bool.false_eq_true, if_false]
      rw [← fill_dedupAux (k : Int) (isort le (C.map (rankU le k)).flatten) [] out seen (by simp)]
      have hS := (dedupAux_ids [] (isort le (C.map (rankU le k)).flatten)).1
      generalize hSd : dedupAux [] (isort le (C.map (rankU le k)).flatten) = S at *
      have hSk : ((S.take k).map Hit.id).Nodup := hS.sublist ((List.take_sublist k S).map Hit.id)
      obtain ⟨hA, hF⟩ := take_filter_take k S seen (k - out.length) hS (by omega)
      rw [fill_char k S out seen hS hlt, fill_char k (S.take k) out seen hSk hlt, hA]
      simp only
      have hlenA : ((S.filter (unseen seen)).take (k - out.length)).length
          = min (k - out.length) (S.filter (unseen seen)).length := List.length_take
      by_cases hflag : k - out.length ≤ (S.filter (unseen seen)).length
      · have h1 : (((out ++ (S.filter (unseen seen)).take (k - out.length)).length : Nat) : Int) ≥ (k : Int) := by
          rw [List.length_append, hlenA]; omega
        simp only [hflag, decide_true, if_true, h1]
      · have h1 : ¬ ((((out ++ (S.filter (unseen seen)).take (k - out.length)).length : Nat) : Int) ≥ (k : Int)) := by
          rw [List.length_append, hlenA]; omega
        simp only [hflag, decide_false, Bool.false_eq_true, if_false, h1]
        apply ih'
        · rw [List.length_append, hlenA]; omega
        · simp only [List.length_append, List.length_reverse, List.length_map, hlenA]; omega

end Clem.ParT2
