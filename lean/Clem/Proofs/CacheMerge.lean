import Clem.Model.CacheMerge
import Clem.Proofs.Sort

/-! Helper lemmas for `merge_caches_deterministic` and the interleaving semantics of the lock wrappers. -/

namespace Clem.CacheMerge

open Clem.Py

theorem workerLe_total (a b : Worker) : workerLe a b = true ∨ workerLe b a = true := by
  simp only [workerLe, decide_eq_true_eq]; omega

theorem workerLe_trans (a b c : Worker) (h1 : workerLe a b = true) (h2 : workerLe b c = true) :
    workerLe a c = true := by
  simp only [workerLe, decide_eq_true_eq] at *; omega

theorem itemLe_total (a b : Item) : itemLe a b = true ∨ itemLe b a = true := by
  simp only [itemLe, decide_eq_true_eq]; omega

theorem itemLe_trans (a b c : Item) (h1 : itemLe a b = true) (h2 : itemLe b c = true) :
    itemLe a c = true := by
  simp only [itemLe, decide_eq_true_eq] at *; omega

/-- Sorting commutes with a relabelling that keeps the order keys. -/
theorem orderedInsert_map (g : Worker → Worker) (hg : ∀ w, (g w).ord = w.ord) (a : Worker)
    (l : List Worker) :
    orderedInsert workerLe (g a) (l.map g) = (orderedInsert workerLe a l).map g := by
  induction l with
  | nil => rfl
  | cons b l ih =>
    have : workerLe (g a) (g b) = workerLe a b := by simp [workerLe, hg]
    simp only [List.map_cons, orderedInsert, this]
    split
    · rfl
    · simp only [List.map_cons, ih]

theorem isort_map (g : Worker → Worker) (hg : ∀ w, (g w).ord = w.ord) (l : List Worker) :
    isort workerLe (l.map g) = (isort workerLe l).map g := by
  induction l with
  | nil => rfl
  | cons a l ih =>
    show orderedInsert workerLe (g a) (isort workerLe (l.map g)) = _
    rw [ih, orderedInsert_map g hg]; rfl

/-- Sorted item list of a worker depends only on the multiset of its items (distinct order keys). -/
theorem isort_items_perm {l l' : List Item} (hp : l.Perm l')
    (hd : ∀ a ∈ l, ∀ b ∈ l, a.ord = b.ord → a = b) : isort itemLe l = isort itemLe l' := by
  apply isort_perm_invariant itemLe itemLe_total itemLe_trans hp
  intro a ha b hb hab hba
  simp only [itemLe, decide_eq_true_eq] at hab hba
  exact hd a ha b hb (by omega)

/-! dict target -/

theorem dlookup_append (k : Nat) (a b : List (Nat × Nat)) :
    dlookup k (a ++ b) = match dlookup k a with
      | some v => some v
      | none => dlookup k b := by
  unfold dlookup
  rw [List.find?_append]
  cases List.find? (fun e => e.1 == k) a <;> simp

theorem dlookup_none_of_not_any {k : Nat} {t : List (Nat × Nat)}
    (h : t.any (fun e => e.1 == k) = false) : dlookup k t = none := by
  unfold dlookup
  simp only [Option.map_eq_none_iff, List.find?_eq_none]
  intro x hx
  have := List.any_eq_false.mp h x hx
  simpa using this

/-- A later binding for a key the dict already holds is invisible. -/
theorem dlookup_skip_dup (k k' v' : Nat) (t r : List (Nat × Nat))
    (h : t.any (fun e => e.1 == k') = true) :
    dlookup k (t ++ (k', v') :: r) = dlookup k (t ++ r) := by
  rw [dlookup_append, dlookup_append]
  cases hk : dlookup k t with
  | some v => rfl
  | none =>
    simp only
    have hne : (k' == k) = false := by
      cases hkk : (k' == k) with
      | false => rfl
      | true =>
        exfalso
        have hkk' : k' = k := by simpa using hkk
        subst hkk'
        obtain ⟨x, hx, hxk⟩ := List.any_eq_true.mp h
        unfold dlookup at hk
        simp only [Option.map_eq_none_iff, List.find?_eq_none] at hk
        exact hk x hx hxk
    simp [dlookup, hne]

end Clem.CacheMerge

namespace Clem.Sched

theorem pop_flatten_perm {α : Type} {ps ps' : List (List α)} {i : Nat} {a : α}
    (h : pop ps i = some (a, ps')) : ps.flatten.Perm (a :: ps'.flatten) := by
  induction ps generalizing i ps' with
  | nil => simp [pop] at h
  | cons p ps ih =>
    cases i with
    | zero =>
      cases p with
      | nil => simp [pop] at h
      | cons b bs =>
        simp only [pop, Option.some.injEq, Prod.mk.injEq] at h
        obtain ⟨rfl, rfl⟩ := h
        simp
    | succ i =>
      simp only [pop] at h
      cases hp : pop ps i with
      | none => simp [hp] at h
      | some r =>
        obtain ⟨b, ps''⟩ := r
        simp only [hp, Option.some.injEq, Prod.mk.injEq] at h
        obtain ⟨rfl, rfl⟩ := h
        have := ih hp
        simp only [List.flatten_cons]
        exact (List.Perm.append_left p this).trans List.perm_middle

/-- After a pop every old thread list is either unchanged or lost exactly its head `a`. -/
theorem pop_threads {α : Type} {ps ps' : List (List α)} {i : Nat} {a : α}
    (h : pop ps i = some (a, ps')) : ∀ p ∈ ps, p ∈ ps' ∨ ∃ p' ∈ ps', p = a :: p' := by
  induction ps generalizing i ps' with
  | nil => simp [pop] at h
  | cons q ps ih =>
    cases i with
    | zero =>
      cases q with
      | nil => simp [pop] at h
      | cons b bs =>
        simp only [pop, Option.some.injEq, Prod.mk.injEq] at h
        obtain ⟨rfl, rfl⟩ := h
        intro p hp
        rcases List.mem_cons.mp hp with rfl | hp
        · exact Or.inr ⟨bs, by simp, rfl⟩
        · exact Or.inl (List.mem_cons_of_mem _ hp)
    | succ i =>
      simp only [pop] at h
      cases hp : pop ps i with
      | none => simp [hp] at h
      | some r =>
        obtain ⟨b, ps''⟩ := r
        simp only [hp, Option.some.injEq, Prod.mk.injEq] at h
        obtain ⟨rfl, rfl⟩ := h
        intro p hpm
        rcases List.mem_cons.mp hpm with rfl | hpm
        · exact Or.inl (by simp)
        · rcases ih hp p hpm with h1 | ⟨p', h1, h2⟩
          · exact Or.inl (List.mem_cons_of_mem _ h1)
          · exact Or.inr ⟨p', List.mem_cons_of_mem _ h1, h2⟩

theorem flatten_nil_of_done {α : Type} {ps : List (List α)} (h : ∀ p ∈ ps, p = []) :
    ps.flatten = [] := by
  induction ps with
  | nil => rfl
  | cons p ps ih =>
    have hp := h p (by simp)
    subst hp
    simpa using ih (fun q hq => h q (List.mem_cons_of_mem _ hq))

theorem pop_some_of_not_done {α : Type} (ps : List (List α)) (h : ¬ ∀ p ∈ ps, p = []) :
    ∃ i a ps', pop ps i = some (a, ps') := by
  induction ps with
  | nil => exact absurd (fun p hp => by simp at hp) h
  | cons p ps ih =>
    cases p with
    | cons a as => exact ⟨0, a, as :: ps, rfl⟩
    | nil =>
      have : ¬ ∀ q ∈ ps, q = [] := by
        intro hall; apply h
        intro q hq
        rcases List.mem_cons.mp hq with rfl | hq
        · rfl
        · exact hall q hq
      obtain ⟨i, a, ps', hi⟩ := ih this
      exact ⟨i + 1, a, [] :: ps', by simp [pop, hi]⟩

end Clem.Sched
