import Clem.Proofs.GelNum
import Clem.Proofs.Sort
import Mathlib.Data.Nat.Choose.Basic
import Mathlib.Data.List.Perm.Basic
import Mathlib.Tactic.Linarith

/-! Key order, edge keys, and the `used` / `pairs` combinatorics of `observe_retrieval`. -/
namespace Clem.Gel
open Clem.Py

/-! ### A. `lexLe` is a total order -/

theorem lexLe_refl (a : List Nat) : lexLe a a = true := by
  induction a with
  | nil => simp [lexLe]
  | cons x xs ih => simp [lexLe, ih]

theorem lexLe_total (a b : List Nat) : lexLe a b = true ∨ lexLe b a = true := by
  induction a generalizing b with
  | nil => left; simp [lexLe]
  | cons x xs ih =>
    cases b with
    | nil => right; simp [lexLe]
    | cons y ys =>
      simp only [lexLe]
      rcases Nat.lt_trichotomy x y with h | h | h
      · left; simp [h]
      · subst h; simpa using ih ys
      · right; simp [h]

theorem lexLe_antisymm {a b : List Nat} : lexLe a b = true → lexLe b a = true → a = b := by
  induction a generalizing b with
  | nil =>
    cases b with
    | nil => intros; rfl
    | cons y ys => simp [lexLe]
  | cons x xs ih =>
    cases b with
    | nil => simp [lexLe]
    | cons y ys =>
      simp only [lexLe]
      rcases Nat.lt_trichotomy x y with h | h | h
      · have h' : ¬ y < x := by omega
        simp [h, h']
      · subst h
        simp only [Nat.lt_irrefl, if_false]
        intro h1 h2
        rw [ih h1 h2]
      · have h' : ¬ x < y := by omega
        simp [h, h']

theorem lexLe_trans {a b c : List Nat} :
    lexLe a b = true → lexLe b c = true → lexLe a c = true := by
  induction a generalizing b c with
  | nil => intros; simp [lexLe]
  | cons x xs ih =>
    cases b with
    | nil => simp [lexLe]
    | cons y ys =>
      cases c with
      | nil => simp [lexLe]
      | cons z zs =>
        simp only [lexLe]
        intro h1 h2
        split at h1
        · split at h2
          · have : x < z := by omega
            simp [this]
          · split at h2
            · exact absurd h2 (by simp)
            · have : x < z := by omega
              simp [this]
        · split at h1
          · exact absurd h1 (by simp)
          · split at h2
            · have : x < z := by omega
              simp [this]
            · split at h2
              · exact absurd h2 (by simp)
              · have e1 : ¬ x < z := by omega
                have e2 : ¬ z < x := by omega
                simp only [e1, e2, if_false]
                exact ih h1 h2

theorem not_lexLt_iff (a b : List Nat) : lexLt b a = false ↔ lexLe a b = true := by
  unfold lexLt
  constructor
  · intro h
    rcases hba : lexLe b a with _ | _
    · rcases lexLe_total a b with h' | h'
      · exact h'
      · rw [hba] at h'; exact absurd h' (by simp)
    · rw [hba] at h
      have : b = a := by simpa using h
      subst this; exact lexLe_refl _
  · intro h
    rcases hba : lexLe b a with _ | _
    · simp
    · have : a = b := lexLe_antisymm h hba
      subst this; simp

/-! ### B. `edgeKey` -/

theorem edgeKey_comm (a b : Str) : edgeKey a b = edgeKey b a := by
  unfold edgeKey
  rcases hab : lexLe a b with _ | _ <;> rcases hba : lexLe b a with _ | _
  · rcases lexLe_total a b with h | h
    · rw [hab] at h; exact absurd h (by simp)
    · rw [hba] at h; exact absurd h (by simp)
  · simp
  · simp
  · have : a = b := lexLe_antisymm hab hba
    subst this; simp

theorem edgeKey_canon (a b : Str) :
    lexLe (edgeKey a b).src (edgeKey a b).dst = true ∧
    (edgeKey a b).key = (edgeKey a b).src ++ arrow :: (edgeKey a b).dst ∧
    (((edgeKey a b).src = a ∧ (edgeKey a b).dst = b) ∨
     ((edgeKey a b).src = b ∧ (edgeKey a b).dst = a)) := by
  unfold edgeKey
  rcases hab : lexLe a b with _ | _
  · have hba : lexLe b a = true := by
      rcases lexLe_total a b with h | h
      · rw [hab] at h; exact absurd h (by simp)
      · exact h
    simp [hba]
  · simp [hab]

theorem append_arrow_inj {s s' t t' : Str} (hs : arrow ∉ s) (hs' : arrow ∉ s') :
    s ++ arrow :: t = s' ++ arrow :: t' → s = s' ∧ t = t' := by
  induction s generalizing s' with
  | nil =>
    cases s' with
    | nil => intro h; simpa using h
    | cons y ys =>
      intro h
      simp only [List.nil_append, List.cons_append, List.cons.injEq] at h
      exact absurd (h.1 ▸ List.mem_cons_self : arrow ∈ y :: ys) hs'
  | cons x xs ih =>
    cases s' with
    | nil =>
      intro h
      simp only [List.nil_append, List.cons_append, List.cons.injEq] at h
      exact absurd (h.1 ▸ List.mem_cons_self : arrow ∈ x :: xs) hs
    | cons y ys =>
      intro h
      simp only [List.cons_append, List.cons.injEq] at h
      have hxs : arrow ∉ xs := fun hm => hs (List.mem_cons_of_mem _ hm)
      have hys : arrow ∉ ys := fun hm => hs' (List.mem_cons_of_mem _ hm)
      obtain ⟨e1, e2⟩ := ih hxs hys h.2
      exact ⟨by rw [h.1, e1], e2⟩

theorem edgeKey_key_inj {a b a' b' : Str} (ha : arrow ∉ a) (hb : arrow ∉ b)
    (ha' : arrow ∉ a') (hb' : arrow ∉ b') :
    (edgeKey a b).key = (edgeKey a' b').key → (a = a' ∧ b = b') ∨ (a = b' ∧ b = a') := by
  unfold edgeKey
  intro h
  split at h <;> split at h
  · exact Or.inl (append_arrow_inj ha ha' h)
  · exact Or.inr (append_arrow_inj ha hb' h)
  · obtain ⟨e1, e2⟩ := append_arrow_inj hb ha' h
    exact Or.inr ⟨e2, e1⟩
  · obtain ⟨e1, e2⟩ := append_arrow_inj hb hb' h
    exact Or.inl ⟨e2, e1⟩

theorem edgeKey_collision :
    (edgeKey [97, arrow, 98] [99]).key = (edgeKey [97] [98, arrow, 99]).key ∧
    (edgeKey [97, arrow, 98] [99]).src ≠ (edgeKey [97] [98, arrow, 99]).src := by decide

/-! ### C. the sort key `(-score, id)` and the `used` list -/

section
set_option linter.unusedSectionVars false
variable {α : Type} [Field α] [LinearOrder α] [IsStrictOrderedRing α]

theorem keyLe_iff (a b : Str × α) :
    keyLe a b = true ↔ (b.2 ≤ a.2 ∧ (a.2 = b.2 → lexLe a.1 b.1 = true)) := by
  unfold keyLe keyLt
  simp only [num_eq, num_neg, num_lt, neg_inj, neg_lt_neg_iff,
    Bool.not_eq_eq_eq_not, Bool.not_true]
  by_cases h : b.2 = a.2
  · simp only [h, decide_true, if_true, le_refl, true_and, forall_const]
    exact not_lexLt_iff a.1 b.1
  · have h' : ¬ a.2 = b.2 := fun e => h e.symm
    simp only [h, h', decide_false, Bool.false_eq_true, if_false, decide_eq_false_iff_not, not_lt,
      false_imp_iff, and_true]

theorem keyLe_total : ∀ a b : Str × α, keyLe a b = true ∨ keyLe b a = true := by
  intro a b
  rw [keyLe_iff, keyLe_iff]
  rcases lt_trichotomy a.2 b.2 with h | h | h
  · right
    exact ⟨le_of_lt h, fun e => absurd e.symm (ne_of_lt h)⟩
  · rcases lexLe_total a.1 b.1 with h' | h'
    · left; exact ⟨le_of_eq h.symm, fun _ => h'⟩
    · right; exact ⟨le_of_eq h, fun _ => h'⟩
  · left
    exact ⟨le_of_lt h, fun e => absurd e.symm (ne_of_lt h)⟩

theorem keyLe_trans :
    ∀ a b c : Str × α, keyLe a b = true → keyLe b c = true → keyLe a c = true := by
  intro a b c
  rw [keyLe_iff, keyLe_iff, keyLe_iff]
  rintro ⟨h1, h1'⟩ ⟨h2, h2'⟩
  refine ⟨le_trans h2 h1, fun e => ?_⟩
  have e1 : a.2 = b.2 := le_antisymm (e ▸ h2) h1
  have e2 : b.2 = c.2 := e1 ▸ e
  exact lexLe_trans (h1' e1) (h2' e2)

theorem keyLe_antisymm : ∀ a b : Str × α, keyLe a b = true → keyLe b a = true → a = b := by
  intro a b
  rw [keyLe_iff, keyLe_iff]
  rintro ⟨h1, h1'⟩ ⟨h2, h2'⟩
  have e : a.2 = b.2 := le_antisymm h2 h1
  exact Prod.ext (lexLe_antisymm (h1' e) (h2' e.symm)) e

theorem usedItems_perm (c : Cfg α) {l l' : List (Str × α)} (h : l.Perm l') :
    usedItems c l = usedItems c l' := by
  unfold usedItems eligible
  rw [isort_perm_invariant keyLe keyLe_total keyLe_trans (h.filter _)
    (fun a _ b _ => keyLe_antisymm a b)]

theorem obsPairs_perm (c : Cfg α) {l l' : List (Str × α)} (h : l.Perm l') :
    obsPairs c l = obsPairs c l' := by
  unfold obsPairs
  rw [usedItems_perm c h]

theorem mem_pySlice {β : Type} {k : Int} {l : List β} {x : β} (h : x ∈ pySlice k l) : x ∈ l := by
  unfold pySlice at h
  split at h <;> exact List.mem_of_mem_take h

theorem usedItems_sub (c : Cfg α) (l : List (Str × α)) :
    ∀ x ∈ usedItems c l, x ∈ l ∧ c.threshold ≤ x.2 := by
  intro x hx
  unfold usedItems eligible at hx
  have h1 := (mem_isort keyLe).mp (mem_pySlice hx)
  rw [List.mem_filter] at h1
  exact ⟨h1.1, by simpa using h1.2⟩

theorem usedItems_length_le (c : Cfg α) (l : List (Str × α)) :
    (usedItems c l).length ≤ (eligible c l).length ∧
    (0 ≤ c.topK → (usedItems c l).length ≤ c.topK.toNat) := by
  unfold usedItems pySlice
  constructor
  · split
    · rw [List.length_take, length_isort]; exact Nat.min_le_right _ _
    · rw [List.length_take, length_isort]; exact Nat.min_le_right _ _
  · intro h
    rw [if_pos h, List.length_take]
    exact Nat.min_le_left _ _

theorem pairs_length {β : Type} (l : List β) : (pairs l).length = l.length.choose 2 := by
  induction l with
  | nil => rfl
  | cons a t ih =>
    simp only [pairs, List.length_append, List.length_map, List.length_cons, ih]
    rw [Nat.choose_succ_succ, Nat.choose_one_right]

theorem obsPairs_length (c : Cfg α) (l : List (Str × α)) :
    (obsPairs c l).length = min c.pairCap.toNat ((usedItems c l).length.choose 2) := by
  unfold obsPairs
  rw [List.length_take, pairs_length, List.length_map]

theorem mem_pairs {β : Type} {l : List β} {p : β × β} : p ∈ pairs l → p.1 ∈ l ∧ p.2 ∈ l := by
  induction l with
  | nil => intro h; simp [pairs] at h
  | cons a t ih =>
    intro h
    simp only [pairs, List.mem_append, List.mem_map] at h
    rcases h with ⟨b, hb, rfl⟩ | h
    · exact ⟨List.mem_cons_self, List.mem_cons_of_mem _ hb⟩
    · exact ⟨List.mem_cons_of_mem _ (ih h).1, List.mem_cons_of_mem _ (ih h).2⟩

end

end Clem.Gel
