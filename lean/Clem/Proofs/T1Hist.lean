import Clem.Proofs.T1Cases

/-!
History invariant of the T1 model: every event in the log is justified by the history before it
(the spreading rule for relaxations, node-budget tests against the accumulator value of that moment,
pushes stem from the relaxation just made, pops stem from a seed or an earlier push), and the
accumulator equals the seed weight plus the logged contributions, added in log order.
-/

namespace Clem.T1
open Num

variable {α : Type} [Num α]
set_option linter.unusedSectionVars false
set_option linter.unusedSimpArgs false

/-- accumulator value of `v` determined by the event log (newest first): `0.0`, then `+ 1.0` for a
seeding of `v` and `+ contrib` for every relaxation into `v`, in chronological order. -/
def accOf : List (Ev α) → Nat → α
  | [], _ => zero
  | Ev.seed u :: r, v => if u = v then add (accOf r v) one else accOf r v
  | Ev.relax l :: r, v => if l.dst = v then add (accOf r v) l.contrib else accOf r v
  | Ev.pop _ _ :: r, v => accOf r v
  | Ev.visitedSkip _ :: r, v => accOf r v
  | Ev.layerStop _ :: r, v => accOf r v
  | Ev.nodeHitPop _ _ :: r, v => accOf r v
  | Ev.expand _ _ :: r, v => accOf r v
  | Ev.radiusSkip _ _ _ :: r, v => accOf r v
  | Ev.layerSkip _ _ _ :: r, v => accOf r v
  | Ev.epsSkip _ _ _ _ :: r, v => accOf r v
  | Ev.nodeHitPush _ _ :: r, v => accOf r v
  | Ev.dedupHit _ :: r, v => accOf r v
  | Ev.push _ _ _ :: r, v => accOf r v

/-- the most recent pop in a log (newest first): the node being expanded and the activation popped with it -/
def lastPop : List (Ev α) → Option (Nat × α)
  | [] => none
  | Ev.pop u w :: _ => some (u, w)
  | Ev.seed _ :: r => lastPop r
  | Ev.relax _ :: r => lastPop r
  | Ev.visitedSkip _ :: r => lastPop r
  | Ev.layerStop _ :: r => lastPop r
  | Ev.nodeHitPop _ _ :: r => lastPop r
  | Ev.expand _ _ :: r => lastPop r
  | Ev.radiusSkip _ _ _ :: r => lastPop r
  | Ev.layerSkip _ _ _ :: r => lastPop r
  | Ev.epsSkip _ _ _ _ :: r => lastPop r
  | Ev.nodeHitPush _ _ :: r => lastPop r
  | Ev.dedupHit _ :: r => lastPop r
  | Ev.push _ _ _ :: r => lastPop r

/-- The documented spreading rule for one logged relaxation. -/
def RuleOK (c : Cfg α) (g : Graph α) (l : LogE α) : Prop :=
  l.contrib = mul (mul (mul l.w l.weight) l.mult) l.decay ∧
  decayOf c l.d = some l.decay ∧
  l.mult = multOf c l.rel ∧
  (∃ e ∈ g.edges, e.src = l.src ∧ e.dst = l.dst ∧ e.weight = l.weight ∧ e.rel = l.rel) ∧
  l.d = l.dsrc + 1 ∧ (l.d : Int) ≤ c.radiusCap ∧ (l.d : Int) ≤ effLayers c ∧
  lt (abs l.contrib) c.eps = false

/-- where a queue item / a popped pair comes from -/
def Origin (seeds : List Nat) (u : Nat) (w : α) (evs : List (Ev α)) : Prop :=
  (w = one ∧ u ∈ seeds) ∨ ∃ a, Ev.push u w a ∈ evs

def EvOK (c : Cfg α) (g : Graph α) (seeds : List Nat) : Ev α → List (Ev α) → Prop
  | Ev.seed u, _ => u ∈ seeds
  | Ev.pop u w, rest => Origin seeds u w rest
  | Ev.relax l, rest =>
      RuleOK c g l ∧ l.accNew = add (accOf rest l.dst) l.contrib ∧ lastPop rest = some (l.src, l.w)
  | Ev.expand u a, rest => a = accOf rest u ∧ le c.nodeBudget (abs a) = false
  | Ev.nodeHitPop u a, rest => a = accOf rest u ∧ le c.nodeBudget (abs a) = true
  | Ev.push v x a, rest =>
      a = accOf rest v ∧ lt (abs a) c.nodeBudget = true ∧
      ∃ l r', rest = Ev.relax l :: r' ∧ l.dst = v ∧ l.contrib = x
  | Ev.nodeHitPush v a, rest =>
      a = accOf rest v ∧ lt (abs a) c.nodeBudget = false ∧
      ∃ l r', rest = Ev.relax l :: r' ∧ l.dst = v
  | Ev.epsSkip _ _ _ x, _ => lt (abs x) c.eps = true
  | Ev.radiusSkip _ _ d, _ => (d : Int) > c.radiusCap
  | Ev.layerSkip _ _ d, _ => (d : Int) > effLayers c
  | Ev.visitedSkip _, _ => True
  | Ev.layerStop _, _ => True
  | Ev.dedupHit _, _ => True

def EvsOK (c : Cfg α) (g : Graph α) (seeds : List Nat) : List (Ev α) → Prop
  | [] => True
  | e :: rest => EvOK c g seeds e rest ∧ EvsOK c g seeds rest

structure Hist (c : Cfg α) (g : Graph α) (seeds : List Nat) (st : St α) : Prop where
  evs : EvsOK c g seeds st.evs
  acc : ∀ v, accGet st.acc v = accOf st.evs v
  pq : ∀ it ∈ st.pq, it.k = neg (abs it.w) ∧ Origin seeds it.id it.w st.evs

theorem Origin_mono {seeds : List Nat} {u : Nat} {w : α} {evs : List (Ev α)} (e : Ev α)
    (h : Origin seeds u w evs) : Origin seeds u w (e :: evs) := by
  rcases h with h | ⟨a, h⟩
  · exact Or.inl h
  · exact Or.inr ⟨a, by simp [h]⟩

/-- events that do not change any accumulator -/
def NonContrib (e : Ev α) : Prop := ∀ r v, accOf (e :: r) v = accOf r v

theorem Hist_cons {c : Cfg α} {g : Graph α} {seeds : List Nat} {st st' : St α} (e : Ev α)
    (hevs : st'.evs = e :: st.evs) (hacc : st'.acc = st.acc) (hpq : ∀ it ∈ st'.pq, it ∈ st.pq)
    (hok : EvOK c g seeds e st.evs) (hnc : NonContrib e) (h : Hist c g seeds st) :
    Hist c g seeds st' := by
  refine ⟨?_, ?_, ?_⟩
  · rw [hevs]; exact ⟨hok, h.evs⟩
  · intro v; rw [hevs, hacc, hnc]; exact h.acc v
  · intro it hit
    rw [hevs]
    exact ⟨(h.pq it (hpq it hit)).1, Origin_mono e (h.pq it (hpq it hit)).2⟩

theorem Hist_same {c : Cfg α} {g : Graph α} {seeds : List Nat} {st st' : St α}
    (hevs : st'.evs = st.evs) (hacc : st'.acc = st.acc) (hpq : st'.pq = st.pq)
    (h : Hist c g seeds st) : Hist c g seeds st' := by
  refine ⟨?_, ?_, ?_⟩
  · rw [hevs]; exact h.evs
  · intro v; rw [hevs, hacc]; exact h.acc v
  · intro it hit; rw [hevs]; rw [hpq] at hit; exact h.pq it hit

theorem sameCore_evs {st st2 : St α} (h : sameCore st st2) : st2.evs = st.evs := by
  unfold sameCore at h; rw [h]
theorem sameCore_acc {st st2 : St α} (h : sameCore st st2) : st2.acc = st.acc := by
  unfold sameCore at h; rw [h]
theorem sameCore_pq {st st2 : St α} (h : sameCore st st2) : st2.pq = st.pq := by
  unfold sameCore at h; rw [h]
theorem sameCore_dist {st st2 : St α} (h : sameCore st st2) : st2.dist = st.dist := by
  unfold sameCore at h; rw [h]
theorem sameCore_stop {st st2 : St α} (h : sameCore st st2) : st2.stop = st.stop := by
  unfold sameCore at h; rw [h]

/-! ### seeding -/

theorem Hist_st0 (c : Cfg α) (g : Graph α) (seeds : List Nat) : Hist c g seeds (st0 c) := by
  refine ⟨?_, ?_, ?_⟩
  · simp [st0, EvsOK]
  · intro v; simp [st0, accGet, accOf, List.lookup]
  · intro it hit; simp [st0] at hit

theorem Hist_seedStep (c : Cfg α) (g : Graph α) (seeds : List Nat) (s : SeedSt α) (nid : Nat)
    (hn : nid ∈ seeds) (h : Hist c g seeds s.st) : Hist c g seeds (seedStep c s nid).st := by
  unfold seedStep
  dsimp only
  split
  · -- ring hit: queue unchanged
    refine ⟨?_, ?_, ?_⟩
    · exact ⟨hn, h.evs⟩
    · intro v
      show accGet (accAdd s.st.acc nid one) v = accOf (Ev.seed nid :: s.st.evs) v
      rw [accGet_accAdd, accOf]
      by_cases hv : v = nid
      · subst hv; simp [h.acc]
      · have : ¬ nid = v := fun e => hv e.symm
        simp [hv, this, h.acc]
    · intro it hit
      exact ⟨(h.pq it hit).1, Origin_mono _ (h.pq it hit).2⟩
  · refine ⟨?_, ?_, ?_⟩
    · exact ⟨hn, h.evs⟩
    · intro v
      show accGet (accAdd s.st.acc nid one) v = accOf (Ev.seed nid :: s.st.evs) v
      rw [accGet_accAdd, accOf]
      by_cases hv : v = nid
      · subst hv; simp [h.acc]
      · have : ¬ nid = v := fun e => hv e.symm
        simp [hv, this, h.acc]
    · intro it hit
      rcases mem_pushCap _ _ _ _ hit with h1 | h1
      · subst h1
        exact ⟨rfl, Or.inl ⟨rfl, hn⟩⟩
      · exact ⟨(h.pq it h1).1, Origin_mono _ (h.pq it h1).2⟩

theorem Hist_seedAll (c : Cfg α) (g : Graph α) (seeds : List Nat) :
    Hist c g seeds (seedAll c seeds) := by
  unfold seedAll
  have := seedFold_inv c seeds (fun s => Hist c g seeds s.st)
    (fun s nid hn h => Hist_seedStep c g seeds s nid hn h) seeds ⟨st0 c, none, none⟩
    (fun x hx => hx) (Hist_st0 c g seeds)
  exact Hist_same (st := (seeds.foldl (seedStep c) ⟨st0 c, none, none⟩).st) rfl rfl rfl this

/-! ### the pop loop -/

/-- inner invariant while the out-edges of the popped `(u, w)` are relaxed -/
def HistQ (c : Cfg α) (g : Graph α) (seeds : List Nat) (u : Nat) (w : α) (st : St α) : Prop :=
  Hist c g seeds st ∧ lastPop st.evs = some (u, w)

theorem Hist_pop (c : Cfg α) (g : Graph α) (seeds : List Nat) (st : St α) (it : Item α)
    (rest : List (Item α)) (h : Hist c g seeds st) (hp : popMin st.pq = some (it, rest)) :
    ((gate c (popped st it rest) it).2 = true →
        HistQ c g seeds it.id it.w (gate c (popped st it rest) it).1) ∧
    ((gate c (popped st it rest) it).2 = false → Hist c g seeds (gate c (popped st it rest) it).1) := by
  have hm := popMin_mem hp
  have hsp : Hist c g seeds (popped st it rest) :=
    Hist_cons (Ev.pop it.id it.w) rfl rfl (fun x hx => hm.2 x hx) (h.pq it hm.1).2
      (fun _ _ => rfl) h
  have hlp : lastPop (popped st it rest).evs = some (it.id, it.w) := rfl
  rcases gate_cases c (popped st it rest) it with ⟨_, hg⟩ | ⟨st2, hsc, _, _, hg⟩
  · rw [hg]
    refine ⟨fun hf => by simp at hf, fun _ => ?_⟩
    exact Hist_cons (Ev.visitedSkip it.id) rfl rfl (fun x hx => hx) trivial (fun _ _ => rfl) hsp
  · have h2 : Hist c g seeds st2 :=
      Hist_same (sameCore_evs hsc) (sameCore_acc hsc) (sameCore_pq hsc) hsp
    have hlp2 : lastPop st2.evs = some (it.id, it.w) := by rw [sameCore_evs hsc]; exact hlp
    rcases hg with hg | ⟨hb, hg⟩ | ⟨hb, hg⟩
    · rw [hg]
      refine ⟨fun hf => by simp at hf, fun _ => ?_⟩
      exact Hist_cons (Ev.layerStop it.id) rfl rfl (fun x hx => hx) trivial (fun _ _ => rfl) h2
    · rw [hg]
      refine ⟨fun hf => by simp at hf, fun _ => ?_⟩
      exact Hist_cons (Ev.nodeHitPop it.id (accGet st2.acc it.id)) rfl rfl (fun x hx => hx)
        ⟨h2.acc it.id, hb⟩ (fun _ _ => rfl) h2
    · rw [hg]
      refine ⟨fun _ => ⟨?_, ?_⟩, fun hf => by simp at hf⟩
      · exact Hist_cons (Ev.expand it.id (accGet st2.acc it.id)) rfl rfl (fun x hx => hx)
          ⟨h2.acc it.id, hb⟩ (fun _ _ => rfl) h2
      · exact hlp2

theorem Hist_capCheck (c : Cfg α) (g : Graph α) (seeds : List Nat) (st : St α)
    (h : Hist c g seeds st) : Hist c g seeds (capCheck c st) := by
  rcases capCheck_cases c st with h1 | h1 <;> rw [h1]
  · exact h
  · exact Hist_same (st := st) rfl rfl rfl h

theorem capCheck_evs (c : Cfg α) (st : St α) : (capCheck c st).evs = st.evs := by
  rcases capCheck_cases c st with h1 | h1 <;> rw [h1]

theorem Hist_pushOrHit (c : Cfg α) (g : Graph α) (seeds : List Nat) (st : St α) (v : Nat) (x : α)
    (l : LogE α) (r' : List (Ev α)) (hl : st.evs = Ev.relax l :: r') (hd : l.dst = v)
    (hx : l.contrib = x) (h : Hist c g seeds st) :
    Hist c g seeds (pushOrHit c st v x) ∧ lastPop (pushOrHit c st v x).evs = lastPop st.evs := by
  unfold pushOrHit
  split
  · rename_i hb
    rcases pushMain_cases c st ⟨neg (abs x), v, x⟩ (accGet st.acc v) with ⟨_, hp⟩ | ⟨_, hp⟩
    · rw [hp]
      exact ⟨Hist_cons (Ev.dedupHit v) rfl rfl (fun x hx => hx) trivial (fun _ _ => rfl) h, rfl⟩
    · rw [hp]
      refine ⟨⟨?_, ?_, ?_⟩, rfl⟩
      · exact ⟨⟨h.acc v, hb, l, r', hl, hd, hx⟩, h.evs⟩
      · intro v'; exact h.acc v'
      · intro it hit
        rcases mem_pushCap _ _ _ _ hit with h1 | h1
        · subst h1
          exact ⟨rfl, Or.inr ⟨accGet st.acc v, by simp⟩⟩
        · exact ⟨(h.pq it h1).1, Origin_mono _ (h.pq it h1).2⟩
  · rename_i hb
    have hb' : lt (abs (accGet st.acc v)) c.nodeBudget = false := by simpa using hb
    exact ⟨Hist_cons (Ev.nodeHitPush v (accGet st.acc v)) rfl rfl (fun x hx => hx)
      ⟨h.acc v, hb', l, r', hl, hd⟩ (fun _ _ => rfl) h, rfl⟩

theorem Hist_relaxed (c : Cfg α) (g : Graph α) (seeds : List Nat) (st : St α) (e : Edge α)
    (u : Nat) (w : α) (dec : α) (he : e ∈ g.edges) (hs : e.src = u)
    (hdec : decayOf c (distGet st.dist u + 1) = some dec)
    (h1 : ¬ ((distGet st.dist u + 1 : Nat) : Int) > c.radiusCap)
    (h2 : ¬ ((distGet st.dist u + 1 : Nat) : Int) > effLayers c)
    (h3 : lt (abs (mul (mul (mul w e.weight) (multOf c e.rel)) dec)) c.eps = false)
    (h : HistQ c g seeds u w st) :
    HistQ c g seeds u w (relaxed c st e u w (distGet st.dist u) (distGet st.dist u + 1) dec
      (mul (mul (mul w e.weight) (multOf c e.rel)) dec)) := by
  obtain ⟨hh, hlp⟩ := h
  refine ⟨⟨?_, ?_, ?_⟩, ?_⟩
  · refine ⟨⟨⟨rfl, hdec, rfl, ⟨e, he, hs, rfl, rfl, rfl⟩, rfl, Int.not_lt.mp h1, Int.not_lt.mp h2, h3⟩,
      ?_, hlp⟩, hh.evs⟩
    show accGet (accAdd st.acc e.dst _) e.dst = _
    rw [accGet_accAdd]; simp [hh.acc]
  · intro v
    show accGet (accAdd st.acc e.dst _) v = accOf (Ev.relax _ :: st.evs) v
    rw [accGet_accAdd, accOf]
    by_cases hv : v = e.dst
    · subst hv; simp [hh.acc]
    · have : ¬ e.dst = v := fun e' => hv e'.symm
      simp [hv, this, hh.acc]
  · intro it hit
    exact ⟨(hh.pq it hit).1, Origin_mono _ (hh.pq it hit).2⟩
  · exact hlp

theorem Hist_edge (c : Cfg α) (g : Graph α) (seeds : List Nat) (u : Nat) (w : α) (st : St α)
    (e : Edge α) (he : e ∈ g.edges) (hs : e.src = u) (h : HistQ c g seeds u w st) :
    HistQ c g seeds u w (relaxEdge c u w st e) := by
  rcases relaxEdge_cases c u w st e with ⟨_, hr⟩ | ⟨_, ⟨h1, hr⟩ | ⟨h1, hr⟩ | ⟨_, hr⟩ | ⟨dec, _, h3, hr⟩ |
      ⟨dec, hdec, h1, h2, h3, hr⟩⟩
  · rw [hr]
    exact ⟨Hist_same (st := st) rfl rfl rfl h.1, h.2⟩
  · rw [hr]
    exact ⟨Hist_cons (Ev.radiusSkip u e.dst _) rfl rfl (fun x hx => hx) h1 (fun _ _ => rfl) h.1, h.2⟩
  · rw [hr]
    exact ⟨Hist_cons (Ev.layerSkip u e.dst _) rfl rfl (fun x hx => hx) h1 (fun _ _ => rfl) h.1, h.2⟩
  · rw [hr]
    exact ⟨Hist_same (st := st) rfl rfl rfl h.1, h.2⟩
  · rw [hr]
    exact ⟨Hist_cons (Ev.epsSkip u e.dst _ _) rfl rfl (fun x hx => hx) h3 (fun _ _ => rfl) h.1, h.2⟩
  · rw [hr]
    unfold applyContrib
    have hrel := Hist_relaxed c g seeds st e u w dec he hs hdec h1 h2 h3 h
    have hpo := Hist_pushOrHit c g seeds _ e.dst _ _ st.evs rfl rfl rfl hrel.1
    refine ⟨Hist_capCheck c g seeds _ hpo.1, ?_⟩
    rw [capCheck_evs, hpo.2]
    exact hrel.2

/-- The history invariant holds in the final state of every graph run. -/
theorem Hist_final (c : Cfg α) (g : Graph α) (text : List Nat) :
    Hist c g (seedsOf g text) (finalSt c g text) := by
  unfold finalSt
  apply loop_inv c g (Hist c g (seedsOf g text)) (HistQ c g (seedsOf g text))
  · intro st it rest h _ hp
    exact Hist_pop c g _ st it rest h hp
  · intro u w st e he hs _ h
    exact Hist_edge c g _ u w st e he hs h
  · intro u w st h; exact h.1
  · -- seeding never sets `stop`
    have : ∀ (l : List Nat) (s : SeedSt α), s.st.stop = 0 → (l.foldl (seedStep c) s).st.stop = 0 := by
      intro l
      induction l with
      | nil => intro s h; simpa using h
      | cons a l ih =>
        intro s h
        simp only [List.foldl_cons]
        apply ih
        unfold seedStep
        dsimp only
        split <;> exact h
    exact this _ _ rfl
  · exact Hist_seedAll c g _

theorem EvsOK_mem {c : Cfg α} {g : Graph α} {seeds : List Nat} :
    ∀ {evs : List (Ev α)} {e : Ev α}, EvsOK c g seeds evs → e ∈ evs →
      ∃ pre rest, evs = pre ++ e :: rest ∧ EvOK c g seeds e rest
  | [], _, _, h => by simp at h
  | a :: r, e, hok, h => by
    rcases List.mem_cons.mp h with h | h
    · subst h; exact ⟨[], r, rfl, hok.1⟩
    · obtain ⟨pre, rest, h1, h2⟩ := EvsOK_mem hok.2 h
      exact ⟨a :: pre, rest, by simp [h1], h2⟩


end Clem.T1
