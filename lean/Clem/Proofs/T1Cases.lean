import Clem.Proofs.T1

/-! Case analyses of the atomic steps of the T1 model, done once. -/

namespace Clem.T1
open Num

variable {α : Type} [Num α]
set_option linter.unusedSectionVars false
set_option linter.unusedSimpArgs false

/-- `st2` differs from `st` at most in `layersProcessed`, `visited`, `visitedEv`. -/
def sameCore (st st2 : St α) : Prop :=
  st2 = { st with layersProcessed := st2.layersProcessed, visited := st2.visited,
                  visitedEv := st2.visitedEv }

theorem sameCore_refl (st : St α) : sameCore st st := rfl

theorem sameCore_visitedMark (c : Cfg α) (st : St α) (u : Nat) : sameCore st (visitedMark c st u) := by
  unfold visitedMark sameCore
  split
  · split
    · rfl
    · rfl
  · rfl

theorem gate_cases (c : Cfg α) (st : St α) (it : Item α) :
    (visitedHit st.visited it.id = true ∧
        gate c st it = ({ st with evs := Ev.visitedSkip it.id :: st.evs }, false)) ∨
    ∃ st2, sameCore st st2 ∧ st2.visited = (visitedMark c st it.id).visited ∧
      st2.visitedEv = (visitedMark c st it.id).visitedEv ∧
      (gate c st it = ({ st2 with evs := Ev.layerStop it.id :: st2.evs }, false) ∨
       (le c.nodeBudget (abs (accGet st2.acc it.id)) = true ∧
          gate c st it = ({ st2 with nodeHits := st2.nodeHits + 1
                                     evs := Ev.nodeHitPop it.id (accGet st2.acc it.id) :: st2.evs }, false)) ∨
       (le c.nodeBudget (abs (accGet st2.acc it.id)) = false ∧
          gate c st it = ({ st2 with evs := Ev.expand it.id (accGet st2.acc it.id) :: st2.evs }, true))) := by
  by_cases hv : visitedHit st.visited it.id = true
  · left
    refine ⟨hv, ?_⟩
    unfold gate
    simp [hv]
  · right
    have hsc := sameCore_visitedMark c st it.id
    generalize hst1 : visitedMark c st it.id = st1 at hsc
    by_cases hn : (decide (distGet st1.dist it.id > 0) &&
        decide (distGet st1.dist it.id > st1.layersProcessed)) = true
    · refine ⟨{ st1 with layersProcessed := distGet st1.dist it.id }, ?_, rfl, rfl, ?_⟩
      · unfold sameCore at hsc ⊢
        rw [hsc]
      · unfold gate
        simp only [hv, hst1, hn]
        by_cases hl : decide ((distGet st1.dist it.id : Int) > effLayers c) = true
        · left; simp [hl]
        · right
          by_cases hb : le c.nodeBudget (abs (accGet st1.acc it.id)) = true
          · left; simp [hl, hb]
          · right; simp [hl, hb]
    · refine ⟨st1, hsc, rfl, rfl, ?_⟩
      unfold gate
      simp only [hv, hst1, hn]
      right
      by_cases hb : le c.nodeBudget (abs (accGet st1.acc it.id)) = true
      · left; simp [hb]
      · right; simp [hb]

theorem relaxEdge_cases (c : Cfg α) (u : Nat) (w : α) (st : St α) (e : Edge α) :
    (capReached c st = true ∧ relaxEdge c u w st e = { st with stop := 1 }) ∨
    capReached c st = false ∧ (
    ((distGet st.dist u + 1 : Nat) : Int) > c.radiusCap ∧
      relaxEdge c u w st e = { st with radiusHits := st.radiusHits + 1
                                       evs := Ev.radiusSkip u e.dst (distGet st.dist u + 1) :: st.evs } ∨
    ((distGet st.dist u + 1 : Nat) : Int) > effLayers c ∧
      relaxEdge c u w st e = { st with layerHits := st.layerHits + 1
                                       evs := Ev.layerSkip u e.dst (distGet st.dist u + 1) :: st.evs } ∨
    (decayOf c (distGet st.dist u + 1) = none ∧ relaxEdge c u w st e = { st with stop := 2 }) ∨
    (∃ dec, decayOf c (distGet st.dist u + 1) = some dec ∧
      lt (abs (mul (mul (mul w e.weight) (multOf c e.rel)) dec)) c.eps = true ∧
      relaxEdge c u w st e = { st with evs := (Ev.epsSkip u e.dst (distGet st.dist u + 1) (mul (mul (mul w e.weight) (multOf c e.rel)) dec)) :: st.evs }) ∨
    (∃ dec, decayOf c (distGet st.dist u + 1) = some dec ∧
      ¬ ((distGet st.dist u + 1 : Nat) : Int) > c.radiusCap ∧
      ¬ ((distGet st.dist u + 1 : Nat) : Int) > effLayers c ∧
      lt (abs (mul (mul (mul w e.weight) (multOf c e.rel)) dec)) c.eps = false ∧
      relaxEdge c u w st e = applyContrib c st e u w (distGet st.dist u) (distGet st.dist u + 1) dec
          (mul (mul (mul w e.weight) (multOf c e.rel)) dec))) := by
  unfold relaxEdge
  dsimp only
  by_cases hcap : capReached c st = true
  · left; rw [if_pos hcap]; exact ⟨hcap, rfl⟩
  right
  rw [if_neg hcap]
  refine ⟨by simpa using hcap, ?_⟩
  by_cases h1 : ((distGet st.dist u + 1 : Nat) : Int) > c.radiusCap
  · left; rw [if_pos h1]; exact ⟨h1, rfl⟩
  · rw [if_neg h1]
    by_cases h2 : ((distGet st.dist u + 1 : Nat) : Int) > effLayers c
    · right; left; rw [if_pos h2]; exact ⟨h2, rfl⟩
    · rw [if_neg h2]
      right; right
      cases hd : decayOf c (distGet st.dist u + 1) with
      | none => left; exact ⟨rfl, rfl⟩
      | some dec =>
        right
        dsimp only
        by_cases h3 : lt (abs (mul (mul (mul w e.weight) (multOf c e.rel)) dec)) c.eps = true
        · left; rw [if_pos h3]; exact ⟨dec, rfl, h3, rfl⟩
        · right
          rw [if_neg h3]
          have h3' : lt (abs (mul (mul (mul w e.weight) (multOf c e.rel)) dec)) c.eps = false := by
            simpa using h3
          exact ⟨dec, rfl, h1, h2, h3', rfl⟩

/-- `pushMain` either records a dedupe hit or pushes (queue ⊆ old queue ∪ {item}). -/
theorem pushMain_cases (c : Cfg α) (st : St α) (it : Item α) (a : α) :
    (ringHit st.ring it.id = true ∧
      pushMain c st it a = { st with dedupHits := st.dedupHits + 1, evs := Ev.dedupHit it.id :: st.evs }) ∨
    (ringHit st.ring it.id = false ∧
      pushMain c st it a = { st with
        pq := (pushCap (effFrontier c) st.pq it).1
        frontierEv := st.frontierEv + (pushCap (effFrontier c) st.pq it).2.getD 0
        ring := ringAddIf c.dedupeWindow.toNat st.ring it.id
        evs := Ev.push it.id it.w a :: st.evs }) := by
  unfold pushMain
  by_cases h : ringHit st.ring it.id = true
  · left; simp [h]
  · right; simp [h]

theorem capCheck_cases (c : Cfg α) (st : St α) :
    capCheck c st = st ∨ capCheck c st = { st with stop := 1 } := by
  unfold capCheck
  split
  · left; rfl
  · split
    · right; rfl
    · left; rfl

end Clem.T1
