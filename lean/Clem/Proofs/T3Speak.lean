/-
Lemmas about the whitespace tokeniser of the dialogue model: `" ".join(toks)` of whitespace-free non-empty
tokens tokenises back to `toks` (so truncation really yields `max_tokens` tokens).
-/
import Clem.Model.T3

namespace Clem.T3

/-- a token as `str.split()` produces it: non-empty and free of whitespace -/
def IsTok (t : Str) : Prop := t ≠ [] ∧ ∀ c ∈ t, isSpace c = false

theorem tokAux_append_nospace (t : Str) (h : ∀ c ∈ t, isSpace c = false) (cur rest : Str) :
    tokAux cur (t ++ rest) = tokAux (cur ++ t) rest := by
  induction t generalizing cur with
  | nil => simp
  | cons c cs ih =>
    have hc : isSpace c = false := h c (by simp)
    have hcs : ∀ x ∈ cs, isSpace x = false := fun x hx => h x (by simp [hx])
    show tokAux cur (c :: (cs ++ rest)) = _
    rw [tokAux, if_neg (by simp [hc]), ih hcs]
    simp

theorem tokAux_isTok (s : Str) : ∀ cur : Str, (∀ c ∈ cur, isSpace c = false) → ∀ t ∈ tokAux cur s, IsTok t := by
  induction s with
  | nil =>
    intro cur hcur t ht
    unfold tokAux at ht
    split at ht
    · simp at ht
    · rename_i hne
      simp at ht; subst ht
      exact ⟨by intro h; simp [h] at hne, hcur⟩
  | cons c cs ih =>
    intro cur hcur t ht
    unfold tokAux at ht
    split at ht
    · split at ht
      · exact ih [] (by simp) t ht
      · rename_i hne
        simp only [List.mem_cons] at ht
        rcases ht with ht | ht
        · subst ht; exact ⟨by intro h; simp [h] at hne, hcur⟩
        · exact ih [] (by simp) t ht
    · rename_i hsp
      refine ih (cur ++ [c]) ?_ t ht
      intro x hx
      simp only [List.mem_append, List.mem_singleton] at hx
      rcases hx with hx | hx
      · exact hcur x hx
      · subst hx; simpa using hsp

theorem tokenize_isTok (s : Str) : ∀ t ∈ tokenize s, IsTok t := tokAux_isTok s [] (by simp)

theorem isSpace_32 : isSpace 32 = true := by decide

theorem tokenize_joinSp : ∀ ts : List Str, (∀ t ∈ ts, IsTok t) → tokenize (joinSp ts) = ts
  | [], _ => by simp [joinSp, tokenize, tokAux]
  | [t], h => by
    have ht := h t (by simp)
    have : tokenize t = tokAux [] (t ++ []) := by simp [tokenize]
    simp only [joinSp]
    rw [this, tokAux_append_nospace t ht.2]
    simp only [List.nil_append, tokAux]
    rw [if_neg (by simpa using ht.1)]
  | t :: u :: ts, h => by
    have ht := h t (by simp)
    have ih := tokenize_joinSp (u :: ts) (fun x hx => h x (by simp [hx]))
    simp only [joinSp]
    unfold tokenize
    rw [tokAux_append_nospace t ht.2]
    simp only [List.nil_append]
    rw [tokAux, if_pos isSpace_32, if_neg (by simpa using ht.1)]
    unfold tokenize at ih
    rw [ih]

end Clem.T3
