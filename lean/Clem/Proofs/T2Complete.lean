import Mathlib.Data.List.Nodup
import Clem.Proofs.T2

/-! Completeness lemmas for C11: nothing that qualifies is dropped while there is room
(retrieval and residual). -/

namespace Clem.T2
open Clem.Py

set_option linter.unusedSectionVars false

section
variable {α : Type} [Num α]

theorem addHits_subset {k : Int} {hits acc : List (Ep α)} {e : Ep α} (h : e ∈ acc) :
    e ∈ addHits k hits acc := by
  induction hits generalizing acc with
  | nil => simpa [addHits] using h
  | cons x xs ih =>
    unfold addHits
    split
    · exact ih h
    · split
      · exact List.mem_append_left _ h
      · exact ih (List.mem_append_left _ h)

theorem addHits_complete {k : Int} {hits acc : List (Ep α)}
    (hl : ((addHits k hits acc).length : Int) < k) :
    ∀ h ∈ hits, ∃ r ∈ addHits k hits acc, r.id = h.id := by
  induction hits generalizing acc with
  | nil => intro h hh; cases hh
  | cons x xs ih =>
    intro h hh
    unfold addHits at hl ⊢
    split at hl
    · rename_i hs
      rw [if_pos hs]
      rcases List.mem_cons.1 hh with rfl | hh
      · obtain ⟨r, hr, hid⟩ := List.any_eq_true.1 hs
        exact ⟨r, addHits_subset hr, by simpa using hid⟩
      · exact ih hl h hh
    · rename_i hs
      rw [if_neg hs]
      split at hl
      · rename_i h2
        simp only [List.length_append, List.length_cons, List.length_nil] at hl h2
        omega
      · rename_i h2
        rw [if_neg h2]
        rcases List.mem_cons.1 hh with rfl | hh
        · exact ⟨h, addHits_subset (List.mem_append_right _ List.mem_cons_self), rfl⟩
        · exact ih hl h hh

theorem walk_subset {k : Int} {search : Nat → List (Ep α)} {ts : List Nat} {acc : List (Ep α)}
    {seq : List Nat} {e : Ep α} (h : e ∈ acc) : e ∈ (walk k search ts acc seq).1 := by
  induction ts generalizing acc seq with
  | nil => simpa [walk] using h
  | cons t ts ih =>
    unfold walk
    split
    · simp only
      split
      · exact addHits_subset h
      · exact ih (addHits_subset h)
    · exact ih h

theorem walk_complete {k : Int} {search : Nat → List (Ep α)} {ts : List Nat} {acc : List (Ep α)}
    {seq : List Nat} (hl : ((walk k search ts acc seq).1.length : Int) < k) :
    ∀ t ∈ ts, t ≤ 2 → ∀ h ∈ search t, ∃ r ∈ (walk k search ts acc seq).1, r.id = h.id := by
  induction ts generalizing acc seq with
  | nil => intro t ht; cases ht
  | cons t0 ts ih =>
    intro t ht ht2 h hh
    unfold walk at hl ⊢
    split at hl
    · rename_i h0
      rw [if_pos h0]
      simp only at hl ⊢
      split at hl
      · simp only at hl; omega
      · rename_i h3
        rw [if_neg h3]
        rcases List.mem_cons.1 ht with rfl | ht
        · have : ((addHits k (search t) acc).length : Int) < k := by omega
          obtain ⟨r, hr, hid⟩ := addHits_complete this h hh
          exact ⟨r, walk_subset hr, hid⟩
        · exact ih hl t ht ht2 h hh
    · rename_i h0
      rw [if_neg h0]
      rcases List.mem_cons.1 ht with rfl | ht
      · exact absurd ht2 h0
      · exact ih hl t ht ht2 h hh

theorem pySlice_eq_of_short {β : Type} {k : Int} {l : List β} (hk : 0 ≤ k)
    (h : ((pySlice k l).length : Int) < k) : pySlice k l = l := by
  unfold pySlice at h ⊢
  simp only [hk, if_true, List.length_take] at h ⊢
  apply List.take_of_length_le
  omega

/-- an episode that is visible and meets tier `t`'s rule is in the tier's candidate pool, so if it
also passes the threshold it is ranked -/
theorem searchTier_complete {c : Cfg α} {t : Nat} {eps : List (Ep α)} {e : Ep α} (hk : 0 ≤ c.k)
    (hl : ((searchTier c t eps).length : Int) < c.k) (ht : t ≤ 2)
    (he : e ∈ eps) (hv : visible c.owner e = true) (hp : passes c.θ e = true)
    (hto : tierOk c eps e t = true) : ∃ h ∈ searchTier c t eps, h.id = e.id := by
  have hall : e ∈ filterOwner c.owner eps := by
    unfold filterOwner
    cases ho : c.owner with
    | none => exact he
    | some o =>
      rw [ho] at hv
      simp only [List.mem_filter]
      exact ⟨he, by simpa [visible] using hv⟩
  have hne : (filterOwner c.owner eps).isEmpty = false := by
    cases hh : filterOwner c.owner eps with
    | nil => rw [hh] at hall; cases hall
    | cons _ _ => rfl
  have key : ∀ pool : List (Ep α), e ∈ pool →
      ((rankByCosine c.k c.θ pool).length : Int) < c.k →
      ∃ h ∈ rankByCosine c.k c.θ pool, h.id = e.id := by
    intro pool hpool hlen
    unfold rankByCosine at hlen ⊢
    rw [pySlice_eq_of_short hk hlen]
    have hmem : e ∈ isort rankLe (pool.filter (passes c.θ)) := by
      rw [mem_isort, List.mem_filter]; exact ⟨hpool, hp⟩
    obtain ⟨h, hh, hid, _⟩ := dedupIdsAux_cover (R := fun _ _ => True) [] _
      (List.pairwise_of_forall (fun _ _ => trivial)) e hmem (by simp)
    exact ⟨h, hh, hid⟩
  unfold searchTier at hl ⊢
  simp only [hne, Bool.false_eq_true, if_false] at hl ⊢
  match t, ht with
  | 0, _ =>
    simp only at hl ⊢
    apply key _ _ hl
    unfold filterRecent
    split
    · exact hall
    · rename_i hd
      simp only [List.mem_filter]
      refine ⟨hall, ?_⟩
      simpa [tierOk, hd] using hto
  | 1, _ =>
    simp only at hl ⊢
    apply key _ _ hl
    unfold clusterPool
    simp only [List.mem_flatMap, mem_isort, List.mem_filter, beq_iff_eq]
    refine ⟨e.cluster, ?_, hall, rfl⟩
    simpa [tierOk] using hto
  | 2, _ =>
    simp only at hl ⊢
    apply key _ _ hl
    unfold filterQuarters
    split
    · exact hall
    · rename_i hq
      simp only [List.mem_filter]
      refine ⟨hall, ?_⟩
      simpa [tierOk, hq] using hto


/-! nodup of a tier's answer -/

theorem firstSeen_nodup (cs acc : List Str) (h : acc.Nodup) : (firstSeen cs acc).Nodup := by
  induction cs generalizing acc with
  | nil => simpa [firstSeen] using h
  | cons c cs ih =>
    unfold firstSeen
    split
    · exact ih acc h
    · rename_i hc
      apply ih
      rw [List.nodup_append]
      refine ⟨h, by simp, ?_⟩
      intro a ha b hb
      simp only [List.mem_singleton] at hb
      subst hb
      intro e; subst e
      exact hc (by simpa using ha)

theorem chosenClusters_nodup (cs : List (Str × α)) (m : Int) (eps : List (Ep α)) :
    (chosenClusters cs m eps).Nodup := by
  unfold chosenClusters
  have h1 : ((clusterScores cs eps).map (·.1)).Nodup := by
    unfold clusterScores
    rw [List.map_map]
    have : ((fun x : Str × α => x.1) ∘ fun c => (c, lookupScore cs c)) = id := rfl
    rw [this, List.map_id]
    exact (firstSeen_nodup _ [] List.nodup_nil).filter _
  have h2 : ((isort clusterKeyLe (clusterScores cs eps)).map (·.1)).Nodup :=
    (((isort_perm clusterKeyLe _).map _).nodup_iff).2 h1
  exact h2.sublist ((pySlice_prefix m _).sublist.map _)

theorem clusterPool_nodup {chosen : List Str} {eps : List (Ep α)} (hc : chosen.Nodup)
    (he : eps.Nodup) : (clusterPool chosen eps).Nodup := by
  unfold clusterPool
  rw [List.nodup_flatMap]
  constructor
  · intro c _; exact he.filter _
  · have hs : (isort lexLe chosen).Nodup := ((isort_perm lexLe chosen).nodup_iff).2 hc
    refine hs.imp ?_
    intro a b hab
    simp only [Function.onFun]
    intro x hx1 hx2
    simp only [List.mem_filter, beq_iff_eq] at hx1 hx2
    exact hab (hx1.2.symm.trans hx2.2)

theorem rankByCosine_nodup {k : Int} {θ : α} {pool : List (Ep α)} (h : pool.Nodup) :
    (rankByCosine k θ pool).Nodup := by
  unfold rankByCosine
  exact ((((isort_perm rankLe _).nodup_iff).2 (h.filter _)).sublist (dedupIds_sublist _)).sublist
    (pySlice_prefix k _).sublist

theorem filterOwner_nodup {o : Option Str} {eps : List (Ep α)} (h : eps.Nodup) :
    (filterOwner o eps).Nodup := by
  unfold filterOwner
  cases o with
  | none => exact h
  | some a => exact h.filter _

theorem searchTier_nodup (c : Cfg α) (t : Nat) {eps : List (Ep α)} (h : eps.Nodup) :
    (searchTier c t eps).Nodup := by
  have ha := filterOwner_nodup (o := c.owner) h
  unfold searchTier
  simp only
  split
  · exact List.nodup_nil
  · match t with
    | 0 =>
      apply rankByCosine_nodup
      unfold filterRecent
      split
      · exact ha
      · exact ha.filter _
    | 1 => exact rankByCosine_nodup (clusterPool_nodup (chosenClusters_nodup _ _ _) ha)
    | 2 =>
      apply rankByCosine_nodup
      unfold filterQuarters
      split
      · exact ha
      · exact ha.filter _
    | (n + 3) => exact List.nodup_nil

theorem ids_nodup_of_subset {eps l : List (Ep α)} (hn : (eps.map (·.id)).Nodup) (hl : l.Nodup)
    (hs : ∀ e ∈ l, e ∈ eps) : (l.map (·.id)).Nodup :=
  List.Nodup.map_on (fun x hx y hy hxy => List.inj_on_of_nodup_map hn (hs x hx) (hs y hy) hxy) hl

theorem searchTier_ids_nodup (c : Cfg α) (t : Nat) (eps : List (Ep α)) :
    ((searchTier c t eps).map (·.id)).Nodup := by
  unfold searchTier
  simp only
  split
  · exact List.nodup_nil
  · match t with
    | 0 => exact rankByCosine_ids_nodup _ _ _
    | 1 => exact rankByCosine_ids_nodup _ _ _
    | 2 => exact rankByCosine_ids_nodup _ _ _
    | (n + 3) => exact List.nodup_nil

/-- COMPLETENESS of retrieval (`k ≥ 1`; episode ids MAY repeat): when fewer than `k` hits are
returned, every episode that is visible, has a vector, meets the threshold and the rule of a
configured tier is represented by a returned hit with its id. -/
theorem retrieveCore_complete (c : Cfg α) (tiers : List Nat) (eps : List (Ep α)) (hk : 1 ≤ c.k)
    (hl : ((retrieveCore c tiers eps).1.length : Int) < c.k) :
    ∀ e ∈ eps, qualifies c tiers eps e = true →
      ∃ r ∈ (retrieveCore c tiers eps).1.map (·.1), r.id = e.id := by
  intro e he hq
  unfold retrieveCore at hl ⊢
  simp only at hl ⊢
  have hperm := rescore_map_fst c eps (walk c.k (fun t => searchTier c t eps) tiers [] []).1
  have hlen : ((walk c.k (fun t => searchTier c t eps) tiers [] []).1.length : Int) < c.k := by
    have := hperm.length_eq
    rw [List.length_map] at this
    omega
  simp only [qualifies, Bool.and_eq_true, List.any_eq_true, decide_eq_true_eq] at hq
  obtain ⟨⟨hv, hp⟩, t, ht, ht2, hto⟩ := hq
  have hwc := walk_complete hlen t ht ht2
  -- the tier's answer (distinct ids by construction) is shorter than k
  have hsn := searchTier_ids_nodup c t eps
  have hsub : (searchTier c t eps).map (·.id) ⊆
      (walk c.k (fun t => searchTier c t eps) tiers [] []).1.map (·.id) := by
    intro i hi
    obtain ⟨x, hx, rfl⟩ := List.mem_map.1 hi
    obtain ⟨r, hr, hid⟩ := hwc x hx
    exact List.mem_map.2 ⟨r, hr, hid⟩
  have hle := (List.subperm_of_subset hsn hsub).length_le
  rw [List.length_map, List.length_map] at hle
  have hshort : ((searchTier c t eps).length : Int) < c.k := by omega
  obtain ⟨h, hh, hid⟩ := searchTier_complete (by omega) hshort ht2 he hv hp hto
  obtain ⟨r, hr, hid2⟩ := hwc h hh
  exact ⟨r, hperm.mem_iff.2 hr, hid2.trans hid⟩

end

def HasKey (d : List (Str × Str)) (k : Str) : Prop := ∃ p ∈ d, p.1 = k

theorem dictSet_hasKey_self (d : List (Str × Str)) (k v : Str) : HasKey (dictSet d k v) k := by
  unfold dictSet
  split
  · rename_i h
    obtain ⟨p, hp, hk⟩ := List.any_eq_true.1 h
    refine ⟨(k, v), ?_, rfl⟩
    apply List.mem_map.2
    exact ⟨p, hp, by simp [hk]⟩
  · exact ⟨(k, v), by simp, rfl⟩

theorem dictSet_hasKey_mono {d : List (Str × Str)} {k v k' : Str} (h : HasKey d k') :
    HasKey (dictSet d k v) k' := by
  obtain ⟨p, hp, hk⟩ := h
  unfold dictSet
  split
  · by_cases hpk : p.1 == k
    · refine ⟨(k, v), List.mem_map.2 ⟨p, hp, by simp [hpk]⟩, ?_⟩
      rw [← hk]; exact (by simpa using hpk : p.1 = k).symm
    · exact ⟨p, List.mem_map.2 ⟨p, hp, by simp [hpk]⟩, hk⟩
  · exact ⟨p, List.mem_append_left _ hp, hk⟩

/-- generic: a fold whose steps never lose keys and whose step on `x` adds every key of `x` ends
with all keys -/
theorem foldl_hasKey {γ : Type} (f : List (Str × Str) → γ → List (Str × Str)) (keyOf : γ → Str → Prop)
    (mono : ∀ d x k, HasKey d k → HasKey (f d x) k)
    (adds : ∀ d x k, keyOf x k → HasKey (f d x) k) (l : List γ) (d : List (Str × Str)) :
    (∀ k, HasKey d k → HasKey (l.foldl f d) k) ∧
    (∀ x ∈ l, ∀ k, keyOf x k → HasKey (l.foldl f d) k) := by
  induction l generalizing d with
  | nil => exact ⟨fun k h => h, fun x hx => by cases hx⟩
  | cons y ys ih =>
    rw [List.foldl_cons]
    obtain ⟨i1, i2⟩ := ih (f d y)
    refine ⟨fun k h => i1 k (mono d y k h), ?_⟩
    intro x hx k hk
    rcases List.mem_cons.1 hx with rfl | hx
    · exact i1 k (adds d x k hk)
    · exact i2 x hx k hk

def nodeStep (d : List (Str × Str)) (n : GNode) : List (Str × Str) :=
  if n.label.isEmpty then d else dictSet d (lowerAscii n.label) n.id

def nodeKey (n : GNode) (k : Str) : Prop := n.label.isEmpty = false ∧ k = lowerAscii n.label

theorem nodeStep_mono (d : List (Str × Str)) (n : GNode) (k : Str) (h : HasKey d k) :
    HasKey (nodeStep d n) k := by
  unfold nodeStep
  split
  · exact h
  · exact dictSet_hasKey_mono h

theorem nodeStep_adds (d : List (Str × Str)) (n : GNode) (k : Str) (h : nodeKey n k) :
    HasKey (nodeStep d n) k := by
  obtain ⟨hl, rfl⟩ := h
  unfold nodeStep
  simp only [hl, Bool.false_eq_true, if_false]
  exact dictSet_hasKey_self _ _ _

theorem labelMap_complete (graphs : List (List GNode)) :
    ∀ g ∈ graphs, ∀ n ∈ g, n.label.isEmpty = false → HasKey (labelMap graphs) (lowerAscii n.label) := by
  intro g hg n hn hl
  have hlm : labelMap graphs = graphs.foldl (fun d g => (isort nodeLe g).foldl nodeStep d) [] := rfl
  rw [hlm]
  have inner := fun (g : List GNode) (d : List (Str × Str)) =>
    foldl_hasKey nodeStep nodeKey nodeStep_mono nodeStep_adds (isort nodeLe g) d
  have outer := foldl_hasKey (fun d g => (isort nodeLe g).foldl nodeStep d)
    (fun (g : List GNode) k => ∃ n ∈ g, nodeKey n k)
    (fun d g k h => (inner g d).1 k h)
    (fun d g k h => by
      obtain ⟨n, hn, hk⟩ := h
      exact (inner g d).2 n ((mem_isort nodeLe).2 hn) k hk) graphs []
  exact outer.2 g hg _ ⟨n, hn, hl, rfl⟩

/-! residual loops: completeness and distinctness -/

theorem resInner_subset {cap : Int} {tLow : Str} {rest : List (Str × Str)} {ch : List Str} {x : Str}
    (h : x ∈ ch) : x ∈ resInner cap tLow rest ch := by
  induction rest generalizing ch with
  | nil => simpa [resInner] using h
  | cons p ps ih =>
    unfold resInner
    split
    · split
      · exact List.mem_append_left _ h
      · exact ih (List.mem_append_left _ h)
    · exact ih h

theorem resInner_complete {cap : Int} {tLow : Str} {rest : List (Str × Str)} {ch : List Str}
    (hl : ((resInner cap tLow rest ch).length : Int) < cap) :
    ∀ p ∈ rest, p.1.isEmpty = false → isInfix p.1 tLow = true → p.2 ∈ resInner cap tLow rest ch := by
  induction rest generalizing ch with
  | nil => intro p hp; cases hp
  | cons q qs ih =>
    intro p hp h1 h2
    unfold resInner at hl ⊢
    split at hl
    · rename_i hc
      rw [if_pos hc]
      split at hl
      · rename_i h3
        simp only [List.length_append, List.length_cons, List.length_nil] at hl h3
        omega
      · rename_i h3
        rw [if_neg h3]
        rcases List.mem_cons.1 hp with rfl | hp
        · exact resInner_subset (List.mem_append_right _ List.mem_cons_self)
        · exact ih hl p hp h1 h2
    · rename_i hc
      rw [if_neg hc]
      rcases List.mem_cons.1 hp with rfl | hp
      · have : ch.contains p.2 = true := by
          by_contra hcc
          apply hc
          simp only [Bool.and_eq_true, Bool.not_eq_true']
          exact ⟨⟨by simpa using h1, h2⟩, by simpa using hcc⟩
        exact resInner_subset (by simpa using this)
      · exact ih hl p hp h1 h2

theorem resInner_nodup {cap : Int} {tLow : Str} {rest : List (Str × Str)} {ch : List Str}
    (hn : ch.Nodup) : (resInner cap tLow rest ch).Nodup := by
  induction rest generalizing ch with
  | nil => simpa [resInner] using hn
  | cons q qs ih =>
    unfold resInner
    have hnew : (!q.1.isEmpty && isInfix q.1 tLow && !ch.contains q.2) = true → (ch ++ [q.2]).Nodup := by
      intro hc
      simp only [Bool.and_eq_true, Bool.not_eq_true'] at hc
      rw [List.nodup_append]
      refine ⟨hn, by simp, ?_⟩
      intro a ha b hb
      simp only [List.mem_singleton] at hb
      subst hb
      intro e; subst e
      have := hc.2
      simp at this
      exact this ha
    split
    · rename_i hc
      split
      · exact hnew hc
      · exact ih (hnew hc)
    · exact ih hn

section
variable {α : Type} [Num α]

theorem resOuter_subset {cap : Int} {lm : List (Str × Str)} {es : List (Ep α)} {ch : List Str}
    {x : Str} (h : x ∈ ch) : x ∈ resOuter cap lm es ch := by
  induction es generalizing ch with
  | nil => simpa [resOuter] using h
  | cons e es ih =>
    unfold resOuter
    split
    · exact h
    · simp only
      split
      · exact resInner_subset h
      · exact ih (resInner_subset h)

theorem resOuter_nodup {cap : Int} {lm : List (Str × Str)} {es : List (Ep α)} {ch : List Str}
    (hn : ch.Nodup) : (resOuter cap lm es ch).Nodup := by
  induction es generalizing ch with
  | nil => simpa [resOuter] using hn
  | cons e es ih =>
    unfold resOuter
    split
    · exact hn
    · simp only
      split
      · exact resInner_nodup hn
      · exact ih (resInner_nodup hn)

theorem resOuter_complete {cap : Int} {lm : List (Str × Str)} {es : List (Ep α)} {ch : List Str}
    (hl : ((resOuter cap lm es ch).length : Int) < cap) :
    ∀ e ∈ es, ∀ p ∈ lm, p.1.isEmpty = false → isInfix p.1 (lowerAscii e.text) = true →
      p.2 ∈ resOuter cap lm es ch := by
  induction es generalizing ch with
  | nil => intro e he; cases he
  | cons e0 es ih =>
    intro e he p hp h1 h2
    unfold resOuter at hl ⊢
    split at hl
    · omega
    · rename_i h0
      rw [if_neg h0]
      simp only at hl ⊢
      split at hl
      · omega
      · rename_i h3
        rw [if_neg h3]
        rcases List.mem_cons.1 he with rfl | he
        · have hlt : ((resInner cap (lowerAscii e.text) lm ch).length : Int) < cap := by omega
          exact resOuter_subset (resInner_complete hlt p hp h1 h2)
        · exact ih hl e he p hp h1 h2

end

theorem dedup_of_nodup {l : List Str} (h : l.Nodup) : dedup l = l := by
  induction l with
  | nil => rfl
  | cons x xs ih =>
    rw [List.nodup_cons] at h
    unfold dedup
    simp [h.1, ih h.2]

theorem lowerAscii_isEmpty (s : Str) : (lowerAscii s).isEmpty = s.isEmpty := by
  cases s <;> rfl

/-- COMPLETENESS of the residual: fewer than `max cap 0` nudges ⇒ every labelled node of an active
graph whose lower-cased label occurs in a used hit is represented by a nudge for a node with the
same lower-cased label. -/
theorem residual_complete {α : Type} [Num α] (cap : Int) (graphs : List (List GNode))
    (used : List (Ep α)) (hl : ((residual cap graphs used).length : Int) < max cap 0) :
    ∀ g ∈ graphs, ∀ n ∈ g, n.label.isEmpty = false →
      (∃ e ∈ used, isInfix (lowerAscii n.label) (lowerAscii e.text) = true) →
      ∃ nid ∈ residual cap graphs used, ∃ g' ∈ graphs, ∃ n' ∈ g',
        n'.id = nid ∧ lowerAscii n'.label = lowerAscii n.label := by
  intro g hg n hn hlab ⟨e, he, hin⟩
  have hnd : (resOuter cap (labelMap graphs) used []).Nodup := resOuter_nodup List.nodup_nil
  unfold residual at hl ⊢
  rw [length_isort, dedup_of_nodup hnd] at hl
  have hlt : ((resOuter cap (labelMap graphs) used []).length : Int) < cap := by omega
  obtain ⟨p, hp, hk⟩ := labelMap_complete graphs g hg n hn hlab
  have hne : p.1.isEmpty = false := by rw [hk, lowerAscii_isEmpty]; exact hlab
  have hmem := resOuter_complete hlt e he p hp hne (by rw [hk]; exact hin)
  obtain ⟨g', hg', n', hn', h1, _, h3⟩ := labelMap_sound graphs p hp
  refine ⟨p.2, ?_, g', hg', n', hn', h1, ?_⟩
  · rw [mem_isort, mem_dedup]; exact hmem
  · rw [← h3, hk]

section
variable {α : Type} [Num α] [LinearOrder α] [NumOrd α]

/-- `rank k θ pool` is the best-`k` prefix of the distinct ids: a passing pool member is represented
by a returned copy of its id that sorts no later, or `k` entries sorting no later were returned. -/
theorem rankByCosine_topk {k : Int} {θ : α} {pool : List (Ep α)} {e : Ep α} (hk : 0 ≤ k)
    (he : e ∈ pool) (hp : passes θ e = true) :
    (∃ h ∈ rankByCosine k θ pool, h.id = e.id ∧ keyLe (rankKey h) (rankKey e) = true)
      ∨ (((rankByCosine k θ pool).length : Int) = k
        ∧ ∀ h ∈ rankByCosine k θ pool, keyLe (rankKey h) (rankKey e) = true) := by
  unfold rankByCosine
  set sorted := isort rankLe (pool.filter (passes θ)) with hs
  have hmem : e ∈ sorted := by rw [hs, mem_isort, List.mem_filter]; exact ⟨he, hp⟩
  have hpw : sorted.Pairwise (fun a b => keyLe (rankKey a) (rankKey b) = true) :=
    isort_key_pairwise rankKey _
  have hrefl : keyLe (rankKey e) (rankKey e) = true := by
    rcases keyLe_total (rankKey e) (rankKey e) with h | h <;> exact h
  obtain ⟨h, hh, hid, hle⟩ := dedupIdsAux_cover [] sorted hpw e hmem (by simp)
  have hle' : keyLe (rankKey h) (rankKey e) = true := by
    rcases hle with rfl | hle
    · exact hrefl
    · exact hle
  have hdpw : (dedupIds sorted).Pairwise (fun a b => keyLe (rankKey a) (rankKey b) = true) :=
    hpw.sublist (dedupIds_sublist _)
  unfold pySlice
  simp only [hk, if_true]
  have hsplit := List.take_append_drop k.toNat (dedupIds sorted)
  have hh' : h ∈ dedupIds sorted := hh
  rw [← hsplit] at hh'
  rcases List.mem_append.1 hh' with h1 | h1
  · left; exact ⟨h, h1, hid, hle'⟩
  · right
    constructor
    · rw [List.length_take]
      have : k.toNat < (dedupIds sorted).length := by
        by_contra hc
        rw [List.drop_of_length_le (by omega)] at h1
        cases h1
      omega
    · intro x hx
      rw [← hsplit] at hdpw
      exact keyLe_trans _ _ _ ((List.pairwise_append.1 hdpw).2.2 x hx h h1) hle'


/-- One tier's answer is the best-`k` prefix of what qualifies for that tier. -/
theorem searchTier_topk {c : Cfg α} {t : Nat} {eps : List (Ep α)} {e : Ep α} (hk : 0 ≤ c.k)
    (ht : t ≤ 2) (he : e ∈ eps) (hv : visible c.owner e = true) (hp : passes c.θ e = true)
    (hto : tierOk c eps e t = true) :
    (∃ h ∈ searchTier c t eps, h.id = e.id ∧ keyLe (rankKey h) (rankKey e) = true)
      ∨ (((searchTier c t eps).length : Int) = c.k
        ∧ ∀ h ∈ searchTier c t eps, keyLe (rankKey h) (rankKey e) = true) := by
  have hall : e ∈ filterOwner c.owner eps := by
    unfold filterOwner
    cases ho : c.owner with
    | none => exact he
    | some o =>
      rw [ho] at hv
      simp only [List.mem_filter]
      exact ⟨he, by simpa [visible] using hv⟩
  have hne : (filterOwner c.owner eps).isEmpty = false := by
    cases hh : filterOwner c.owner eps with
    | nil => rw [hh] at hall; cases hall
    | cons _ _ => rfl
  have key : ∀ pool : List (Ep α), e ∈ pool →
      (∃ h ∈ rankByCosine c.k c.θ pool, h.id = e.id ∧ keyLe (rankKey h) (rankKey e) = true)
        ∨ (((rankByCosine c.k c.θ pool).length : Int) = c.k
          ∧ ∀ h ∈ rankByCosine c.k c.θ pool, keyLe (rankKey h) (rankKey e) = true) :=
    fun pool hpool => rankByCosine_topk hk hpool hp
  unfold searchTier
  simp only [hne, Bool.false_eq_true, if_false]
  match t, ht with
  | 0, _ =>
    simp only
    apply key
    unfold filterRecent
    split
    · exact hall
    · rename_i hd
      simp only [List.mem_filter]
      exact ⟨hall, by simpa [tierOk, hd] using hto⟩
  | 1, _ =>
    simp only
    apply key
    unfold clusterPool
    simp only [List.mem_flatMap, mem_isort, List.mem_filter, beq_iff_eq]
    exact ⟨e.cluster, by simpa [tierOk] using hto, hall, rfl⟩
  | 2, _ =>
    simp only
    apply key
    unfold filterQuarters
    split
    · exact hall
    · rename_i hq
      simp only [List.mem_filter]
      exact ⟨hall, by simpa [tierOk, hq] using hto⟩

end

end Clem.T2
