/-
Helper lemmas for the delta codec (`Clem.Model.Delta`): the path codec, `_set_path` / `_del_path`
seen through `lookup`, membership characterisation of `_walk_diff`'s output.
-/
import Clem.Model.Delta
import Clem.Proofs.Json
import Clem.Proofs.Sort

namespace Clem.Delta
open Clem.Py Clem.Py.J

/-! ### path codec: `_split_path ∘ _join_path = id` -/

theorem splitPath_plain {c : Nat} (h1 : c ≠ BS) (h2 : c ≠ DOT) (r : Str) :
    splitPath (c :: r) = consHead c (splitPath r) := by
  cases r with
  | nil => simp [splitPath, h2, consHead]
  | cons d ds => simp [splitPath, h1, h2]

theorem splitPath_dot (r : Str) : splitPath (DOT :: r) = [] :: splitPath r := by
  cases r with
  | nil => simp [splitPath]
  | cons d ds => simp [splitPath, DOT, BS]

theorem splitPath_escaped {d : Nat} (h : d = BS ∨ d = DOT) (r : Str) :
    splitPath (BS :: d :: r) = consHead d (splitPath r) := by
  simp [splitPath, h]

theorem splitPath_ne_nil (s : Str) : splitPath s ≠ [] := by
  match s with
  | [] => simp [splitPath]
  | [c] => simp only [splitPath]; split <;> simp
  | c :: d :: ds =>
    simp only [splitPath]
    have h1 := splitPath_ne_nil ds
    have h2 := splitPath_ne_nil (d :: ds)
    split
    · cases h : splitPath ds <;> simp_all [consHead]
    · split
      · simp
      · cases h : splitPath (d :: ds) <;> simp_all [consHead]

def prependHead (s : Str) : List Str → List Str
  | [] => [s]
  | x :: xs => (s ++ x) :: xs

theorem consHead_prependHead (c : Nat) (s : Str) {l : List Str} (h : l ≠ []) :
    consHead c (prependHead s l) = prependHead (c :: s) l := by
  cases l with
  | nil => exact absurd rfl h
  | cons x xs => rfl

theorem splitPath_esc_append (s t : Str) :
    splitPath (esc s ++ t) = prependHead s (splitPath t) := by
  induction s with
  | nil =>
    have := splitPath_ne_nil t
    cases h : splitPath t with
    | nil => exact absurd h this
    | cons x xs => simp [esc, prependHead, h]
  | cons c cs ih =>
    by_cases hc : c = BS ∨ c = DOT
    · simp only [esc, if_pos hc, List.cons_append]
      rw [splitPath_escaped hc, ih, consHead_prependHead _ _ (splitPath_ne_nil t)]
    · simp only [esc, if_neg hc, List.cons_append]
      have h1 : c ≠ BS := fun e => hc (Or.inl e)
      have h2 : c ≠ DOT := fun e => hc (Or.inr e)
      rw [splitPath_plain h1 h2, ih, consHead_prependHead _ _ (splitPath_ne_nil t)]

/-- The path codec is lossless for every non-empty list of segments, whatever the segments contain
    (dots, backslashes, empty strings, any code point). -/
theorem splitPath_joinPath : ∀ (segs : List Str), segs ≠ [] → splitPath (joinPath segs) = segs
  | [], h => absurd rfl h
  | [s], _ => by
      have := splitPath_esc_append s []
      simpa [joinPath, splitPath, prependHead] using this
  | s :: t :: rest, _ => by
      have ih := splitPath_joinPath (t :: rest) (by simp)
      simp only [joinPath]
      rw [splitPath_esc_append, splitPath_dot, ih]
      simp [prependHead]

/-! ### `_set_path` / `_del_path` through `lookup` -/

def stepSet (rest : List Str) (v : J) (cur : Option J) : Option J :=
  match rest with
  | [] => some v
  | _ :: _ => some (.obj (setSegs rest v (asEntries cur)))

def stepDel (rest : List Str) (cur : Option J) : Option J :=
  match rest with
  | [] => none
  | _ :: _ =>
    match cur with
    | some (.obj ne) => some (.obj (delSegs rest ne))
    | x => x

theorem lookup_setSegs (k k' : Str) (rest : List Str) (v : J) (e : List (Str × J)) :
    lookup k (setSegs (k' :: rest) v e) = if k = k' then stepSet rest v (lookup k e) else lookup k e := by
  cases rest with
  | nil => simp only [setSegs, lookup_dset, stepSet]
  | cons k2 r =>
    simp only [setSegs, lookup_dset, stepSet]
    by_cases h : k = k' <;> simp [h]

theorem lookup_delSegs (k k' : Str) (rest : List Str) (e : List (Str × J)) :
    lookup k (delSegs (k' :: rest) e) = if k = k' then stepDel rest (lookup k e) else lookup k e := by
  cases rest with
  | nil => simp only [delSegs, lookup_derase, stepDel]
  | cons k2 r =>
    simp only [delSegs, stepDel]
    by_cases h : k = k'
    · subst h
      simp only [if_true]
      split <;> rename_i hl
      · simp [lookup_dset, hl]
      · cases hk : lookup k e with
        | none => rfl
        | some x =>
          cases x <;> simp_all
    · simp only [if_neg h]
      split
      · simp [lookup_dset, h]
      · rfl

/-! ### items as operations on relative segment paths -/

def Item.path : Item → Str
  | .add p _ => p
  | .mod p _ => p
  | .del p => p

/-- segments of the item's path below a prefix of length `d`. -/
def Item.segs (d : Nat) (it : Item) : List Str := (splitPath it.path).drop d

def applyItem (d : Nat) (it : Item) (o : List (Str × J)) : List (Str × J) :=
  match it with
  | .add _ v => setSegs (it.segs d) v o
  | .mod _ v => setSegs (it.segs d) v o
  | .del _ => delSegs (it.segs d) o

def applyItems (d : Nat) (ops : List Item) (o : List (Str × J)) : List (Str × J) :=
  ops.foldl (fun o it => applyItem d it o) o

def stepItem (d : Nat) (it : Item) (cur : Option J) : Option J :=
  match it with
  | .add _ v => stepSet (it.segs (d + 1)) v cur
  | .mod _ v => stepSet (it.segs (d + 1)) v cur
  | .del _ => stepDel (it.segs (d + 1)) cur

theorem segs_succ (d : Nat) (it : Item) {k : Str} {rest : List Str} (h : it.segs d = k :: rest) :
    it.segs (d + 1) = rest := by
  unfold Item.segs at h ⊢
  rw [← List.drop_drop, h]; rfl

theorem lookup_applyItem (d : Nat) (it : Item) (o : List (Str × J)) (k k' : Str) (rest : List Str)
    (h : it.segs d = k' :: rest) :
    lookup k (applyItem d it o) = if k = k' then stepItem d it (lookup k o) else lookup k o := by
  have hs := segs_succ d it h
  cases it <;> simp only [applyItem, stepItem, h, hs, lookup_setSegs, lookup_delSegs]

def headIs (d : Nat) (k : Str) (it : Item) : Bool := (it.segs d).head? == some k

theorem lookup_applyItems (d : Nat) (k : Str) (ops : List Item)
    (hne : ∀ it ∈ ops, it.segs d ≠ []) (o : List (Str × J)) :
    lookup k (applyItems d ops o) =
      (ops.filter (headIs d k)).foldl (fun c it => stepItem d it c) (lookup k o) := by
  induction ops generalizing o with
  | nil => rfl
  | cons it ops ih =>
    have h1 := hne it (by simp)
    cases hs : it.segs d with
    | nil => exact absurd hs h1
    | cons k' rest =>
      simp only [applyItems, List.foldl_cons] at ih ⊢
      rw [ih (fun x hx => hne x (List.mem_cons_of_mem _ hx)), lookup_applyItem d it o k k' rest hs]
      by_cases hk : k = k'
      · subst hk; simp [List.filter, headIs, hs]
      · have : headIs d k it = false := by
          simp [headIs, hs]; exact fun e => hk e.symm
        simp [List.filter, this, hk]

theorem foldl_const {α β : Type} (f : β → α → β) (r : β) :
    ∀ (l : List α) (c : β), l ≠ [] → (∀ x ∈ l, ∀ c, f c x = r) → l.foldl f c = r
  | [], _, h, _ => absurd rfl h
  | [x], c, _, hf => by simp [hf x (by simp) c]
  | x :: y :: l, c, _, hf => by
      rw [List.foldl_cons]
      exact foldl_const f r (y :: l) _ (by simp) (fun z hz => hf z (List.mem_cons_of_mem _ hz))

theorem foldl_nested (d : Nat) (S : List Item)
    (h : ∀ it ∈ S, it.segs (d + 1) ≠ []) (e : List (Str × J)) :
    S.foldl (fun c it => stepItem d it c) (some (.obj e)) = some (.obj (applyItems (d + 1) S e)) := by
  induction S generalizing e with
  | nil => rfl
  | cons it S ih =>
    have h1 := h it (by simp)
    simp only [List.foldl_cons, applyItems] at ih ⊢
    have : stepItem d it (some (.obj e)) = some (.obj (applyItem (d + 1) it e)) := by
      cases hs : it.segs (d + 1) with
      | nil => exact absurd hs h1
      | cons k r =>
        cases it <;> simp [stepItem, applyItem, hs, stepSet, stepDel, asEntries]
    rw [this]
    exact ih (fun x hx => h x (List.mem_cons_of_mem _ hx)) _

/-! ### what `_walk_diff` emits -/

theorem walkV_obj (path : List Str) (be ce : List (Str × J)) :
    walkV path (.obj be) (.obj ce) = walkO path be ce := by
  simp [walkV, walkO]

theorem walkV_leaf (path : List Str) (bv cv : J) (h : ¬ (isObj bv = true ∧ isObj cv = true)) :
    walkV path bv cv = if same bv cv then [] else [Item.mod (joinPath path) cv] := by
  cases bv <;> cases cv <;> simp_all [walkV, isObj]

theorem mem_levelItems (pre : List Str) (be ce : List (Str × J)) (it : Item) :
    it ∈ levelItems pre be ce ↔
      (∃ k, k ∈ keys be ∧ hasKey k ce = false ∧ it = .del (joinPath (pre ++ [k]))) ∨
      (∃ k v, (k, v) ∈ ce ∧ hasKey k be = false ∧ it = .add (joinPath (pre ++ [k])) v) := by
  simp only [levelItems, List.mem_append, List.mem_map, mem_isort, List.mem_filter,
    Bool.not_eq_true', Prod.exists]
  constructor
  · rintro (⟨k, ⟨hk, hc⟩, rfl⟩ | ⟨k, v, ⟨hm, hb⟩, rfl⟩)
    · exact Or.inl ⟨k, hk, hc, rfl⟩
    · exact Or.inr ⟨k, v, hm, hb, rfl⟩
  · rintro (⟨k, hk, hc, rfl⟩ | ⟨k, v, hm, hb, rfl⟩)
    · exact Or.inl ⟨k, ⟨hk, hc⟩, rfl⟩
    · exact Or.inr ⟨k, v, ⟨hm, hb⟩, rfl⟩

theorem mem_walkC (pre : List Str) (ce : List (Str × J)) (it : Item) :
    ∀ bs : List (Str × J), it ∈ walkC pre bs ce ↔
      ∃ k bv cv, (k, bv) ∈ bs ∧ lookup k ce = some cv ∧ it ∈ walkV (pre ++ [k]) bv cv
  | [] => by simp [walkC]
  | (k', bv') :: bs => by
      have ih := mem_walkC pre ce it bs
      simp only [walkC, List.mem_append, ih, List.mem_cons]
      constructor
      · rintro (h | ⟨k, bv, cv, hm, hl, hi⟩)
        · cases hl : lookup k' ce with
          | none => simp [hl] at h
          | some cv => simp only [hl] at h; exact ⟨k', bv', cv, Or.inl rfl, hl, h⟩
        · exact ⟨k, bv, cv, Or.inr hm, hl, hi⟩
      · rintro ⟨k, bv, cv, hm | hm, hl, hi⟩
        · cases hm; left; simp only [hl]; exact hi
        · exact Or.inr ⟨k, bv, cv, hm, hl, hi⟩

end Clem.Delta
