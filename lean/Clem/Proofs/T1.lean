import Clem.Model.T1
import Clem.Proofs.Sort

/-!
Helper lemmas for C12 (T1 propagation): generic induction principles over the pop loop / the edge
loop / the seeding fold, and the list-level facts about the accumulator, the distance map and the heap.
Everything is for an arbitrary carrier `[Num α]` (no algebraic laws), hence holds for `Float`.
-/

namespace Clem.T1
open Num

variable {α : Type} [Num α]
set_option linter.unusedSectionVars false
set_option linter.unusedSimpArgs false

/-! ## induction principles -/

theorem relaxAll_inv (c : Cfg α) (u : Nat) (w : α) (Q : St α → Prop) (S : Edge α → Prop)
    (hedge : ∀ st e, S e → st.stop = 0 → Q st → Q (relaxEdge c u w st e)) :
    ∀ (es : List (Edge α)) (st : St α), (∀ e ∈ es, S e) → st.stop = 0 → Q st →
      Q (relaxAll c u w st es) := by
  intro es
  induction es with
  | nil => intro st _ _ h; simpa [relaxAll] using h
  | cons e es ih =>
    intro st hS h0 hQ
    have h1 := hedge st e (hS e (by simp)) h0 hQ
    simp only [relaxAll]
    split
    · exact h1
    · rename_i hs
      have : (relaxEdge c u w st e).stop = 0 := by simpa using hs
      exact ih _ (fun e' he' => hS e' (by simp [he'])) this h1

theorem mem_outEdges {g : Graph α} {u : Nat} {e : Edge α} (h : e ∈ outEdges g u) :
    e ∈ g.edges ∧ e.src = u := by
  simp [outEdges] at h
  exact h

@[simp] theorem popped_stop (st : St α) (it : Item α) (rest : List (Item α)) :
    (popped st it rest).stop = st.stop := rfl

theorem visitedMark_stop (c : Cfg α) (st : St α) (u : Nat) : (visitedMark c st u).stop = st.stop := by
  unfold visitedMark
  split
  · split <;> rfl
  · rfl

theorem gate_stop (c : Cfg α) (st : St α) (it : Item α) : (gate c st it).1.stop = st.stop := by
  unfold gate
  simp only
  split
  · rfl
  · split
    · split <;> simp [visitedMark_stop]
    · split
      · split <;> simp [visitedMark_stop]
      · split <;> simp [visitedMark_stop]

theorem loop_inv (c : Cfg α) (g : Graph α) (P : St α → Prop) (Q : Nat → α → St α → Prop)
    (hpop : ∀ st it rest, P st → st.stop = 0 → popMin st.pq = some (it, rest) →
      ((gate c (popped st it rest) it).2 = true → Q it.id it.w (gate c (popped st it rest) it).1) ∧
      ((gate c (popped st it rest) it).2 = false → P (gate c (popped st it rest) it).1))
    (hedge : ∀ u w st e, e ∈ g.edges → e.src = u → st.stop = 0 → Q u w st → Q u w (relaxEdge c u w st e))
    (hdone : ∀ u w st, Q u w st → P st) :
    ∀ (fuel : Nat) (st : St α), st.stop = 0 → P st → P (loop c g fuel st) := by
  have hstep : ∀ st, st.stop = 0 → P st → P (popStep c g st) := by
    intro st h0 hP
    unfold popStep
    split
    · exact hP
    · rename_i r hr
      have hr' : popMin st.pq = some (r.1, r.2) := by simpa using hr
      have := hpop st r.1 r.2 hP h0 hr'
      simp only [afterPop]
      split
      · rename_i hb
        apply hdone r.1.id r.1.w
        apply relaxAll_inv c r.1.id r.1.w (Q r.1.id r.1.w) (fun e => e ∈ g.edges ∧ e.src = r.1.id)
        · intro st' e hS hs hQ
          exact hedge _ _ _ _ hS.1 hS.2 hs hQ
        · intro e he; exact mem_outEdges he
        · rw [gate_stop]; simpa using h0
        · exact this.1 hb
      · rename_i hb
        exact this.2 (by simpa using hb)
  intro fuel
  induction fuel with
  | zero => intro st _ h; simpa [loop] using h
  | succ n ih =>
    intro st h0 hP
    simp only [loop]
    split
    · exact hP
    · split
      · exact hstep st h0 hP
      · rename_i hs
        exact ih _ (by simpa using hs) (hstep st h0 hP)

theorem seedFold_inv (c : Cfg α) (seeds : List Nat) (PS : SeedSt α → Prop)
    (hstep : ∀ s nid, nid ∈ seeds → PS s → PS (seedStep c s nid)) :
    ∀ (l : List Nat) (s : SeedSt α), (∀ x ∈ l, x ∈ seeds) → PS s → PS (l.foldl (seedStep c) s) := by
  intro l
  induction l with
  | nil => intro s _ h; simpa using h
  | cons a l ih =>
    intro s hl h
    simp only [List.foldl_cons]
    exact ih _ (fun x hx => hl x (by simp [hx])) (hstep s a (hl a (by simp)) h)

/-! ## accumulator (`defaultdict(float)` as an insertion-ordered association list) -/

theorem accGet_accAdd (acc : List (Nat × α)) (v v' : Nat) (x : α) :
    accGet (accAdd acc v x) v' = if v' = v then add (accGet acc v) x else accGet acc v' := by
  induction acc with
  | nil =>
    by_cases h : v' = v
    · subst h; simp [accAdd, accGet, List.lookup]
    · have : (v' == v) = false := by simpa using h
      simp [accAdd, accGet, List.lookup, this, h]
  | cons p r ih =>
    obtain ⟨k, y⟩ := p
    simp only [accAdd]
    by_cases hk : k = v
    · subst hk
      by_cases h : v' = k
      · subst h; simp [accGet, List.lookup]
      · have : (v' == k) = false := by simpa using h
        simp [accGet, List.lookup, this, h]
    · simp only [hk, if_false]
      by_cases h : v' = k
      · subst h
        have hne : ¬ v' = v := hk
        simp [accGet, List.lookup, hne]
      · have h1 : (v' == k) = false := by simpa using h
        have := ih
        simp only [accGet] at this ⊢
        simp only [List.lookup, h1]
        by_cases hv : v' = v
        · subst hv
          have h2 : (v' == k) = false := h1
          simp [h2] at this ⊢
          simpa using this
        · simpa [hv] using this

theorem accAdd_keys (acc : List (Nat × α)) (v : Nat) (x : α) :
    (accAdd acc v x).map (·.1) =
      if v ∈ acc.map (·.1) then acc.map (·.1) else acc.map (·.1) ++ [v] := by
  induction acc with
  | nil => simp [accAdd]
  | cons p r ih =>
    obtain ⟨k, y⟩ := p
    simp only [accAdd]
    by_cases hk : k = v
    · subst hk; simp
    · simp only [hk, if_false, List.map_cons, ih]
      have : ¬ v = k := fun h => hk h.symm
      by_cases hm : v ∈ r.map (·.1)
      · simp [hm]
      · simp [hm, this]

theorem accAdd_nodup (acc : List (Nat × α)) (v : Nat) (x : α) (h : (acc.map (·.1)).Nodup) :
    ((accAdd acc v x).map (·.1)).Nodup := by
  rw [accAdd_keys]
  split
  · exact h
  · rename_i hm
    rw [List.nodup_append]
    refine ⟨h, by simp, ?_⟩
    intro a ha b hb
    simp at hb; subst hb
    intro hab; subst hab; exact hm ha

theorem mem_accAdd_keys (acc : List (Nat × α)) (v : Nat) (x : α) (k : Nat) :
    k ∈ (accAdd acc v x).map (·.1) ↔ k ∈ acc.map (·.1) ∨ k = v := by
  rw [accAdd_keys]
  split
  · rename_i hm
    constructor
    · intro h; exact Or.inl h
    · rintro (h | h)
      · exact h
      · subst h; exact hm
  · simp

/-! ## distance map -/

theorem lookup_distSet (l : List (Nat × Nat)) (v d v' : Nat) :
    (distSet l v d).lookup v' = if v' = v then some d else l.lookup v' := by
  induction l with
  | nil =>
    by_cases h : v' = v
    · subst h; simp [distSet, List.lookup]
    · have : (v' == v) = false := by simpa using h
      simp [distSet, List.lookup, this, h]
  | cons p r ih =>
    obtain ⟨k, y⟩ := p
    simp only [distSet]
    by_cases hk : k = v
    · subst hk
      by_cases h : v' = k
      · subst h; simp [List.lookup]
      · have : (v' == k) = false := by simpa using h
        simp [List.lookup, this, h]
    · simp only [hk, if_false]
      by_cases h : v' = k
      · subst h
        have hne : ¬ v' = v := hk
        simp [List.lookup, hne]
      · have h1 : (v' == k) = false := by simpa using h
        simp only [List.lookup, h1]
        exact ih

theorem lookup_distRelax_ne (l : List (Nat × Nat)) (v d v' : Nat) (h : v' ≠ v) :
    (distRelax l v d).lookup v' = l.lookup v' := by
  unfold distRelax
  split
  · rw [lookup_distSet]; simp [h]
  · split
    · rw [lookup_distSet]; simp [h]
    · rfl

theorem lookup_distRelax_self (l : List (Nat × Nat)) (v d : Nat) :
    (distRelax l v d).lookup v = some d ∨
      (∃ old, l.lookup v = some old ∧ (distRelax l v d).lookup v = some old) := by
  unfold distRelax
  split
  · left; rw [lookup_distSet]; simp
  · rename_i old ho
    split
    · left; rw [lookup_distSet]; simp
    · right; exact ⟨old, ho, ho⟩

theorem lookup_distRelax_isSome (l : List (Nat × Nat)) (v d v' : Nat)
    (h : (l.lookup v').isSome) : ((distRelax l v d).lookup v').isSome := by
  by_cases hv : v' = v
  · subst hv
    rcases lookup_distRelax_self l v' d with h1 | ⟨old, _, h1⟩ <;> simp [h1]
  · rw [lookup_distRelax_ne _ _ _ _ hv]; exact h

/-! ## heap -/

theorem popMinAux_mem (m : Item α) (l : List (Item α)) :
    ((popMinAux m l).1 = m ∨ (popMinAux m l).1 ∈ l) ∧
      ∀ x ∈ (popMinAux m l).2, x = m ∨ x ∈ l := by
  induction l generalizing m with
  | nil => simp [popMinAux]
  | cons a l ih =>
    simp only [popMinAux]
    split
    · have := ih a
      refine ⟨?_, ?_⟩
      · rcases this.1 with h | h
        · right; simp [h]
        · right; simp [h]
      · intro x hx
        simp at hx
        rcases hx with h | h
        · left; exact h
        · rcases this.2 x h with h' | h'
          · right; simp [h']
          · right; simp [h']
    · have := ih m
      refine ⟨?_, ?_⟩
      · rcases this.1 with h | h
        · left; exact h
        · right; simp [h]
      · intro x hx
        simp at hx
        rcases hx with h | h
        · right; simp [h]
        · rcases this.2 x h with h' | h'
          · left; exact h'
          · right; simp [h']

theorem popMin_mem {pq : List (Item α)} {it : Item α} {rest : List (Item α)}
    (h : popMin pq = some (it, rest)) : it ∈ pq ∧ ∀ x ∈ rest, x ∈ pq := by
  cases pq with
  | nil => simp [popMin] at h
  | cons a l =>
    simp only [popMin, Option.some.injEq] at h
    have := popMinAux_mem a l
    rw [h] at this
    simp only at this
    refine ⟨?_, ?_⟩
    · rcases this.1 with h1 | h1 <;> simp [h1]
    · intro x hx
      rcases this.2 x hx with h1 | h1 <;> simp [h1]

theorem mem_pushCap (fc : Option Int) (pq : List (Item α)) (it x : Item α)
    (h : x ∈ (pushCap fc pq it).1) : x = it ∨ x ∈ pq := by
  unfold pushCap at h
  split at h
  · simpa using h
  · split at h
    · have := List.mem_of_mem_take h
      rw [Clem.Py.mem_isort] at this
      simpa using this
    · simpa using h

end Clem.T1
