import Clem.Proofs.GelNum

/-!
Bounds lemmas for the GEL model at an ordered field: clamp, observed updates, decay,
and the invariant lifted over arbitrary operation histories.
-/
namespace Clem.Gel
open Clem.Py

set_option linter.unusedSectionVars false
variable {α : Type} [Field α] [LinearOrder α] [IsStrictOrderedRing α]

theorem clamp_bounds (x lo hi : α) (h : lo ≤ hi) : lo ≤ clamp x lo hi ∧ clamp x lo hi ≤ hi := by
  unfold clamp
  simp only [num_lt, decide_eq_true_eq]
  split_ifs with h1 h2
  · exact ⟨h, le_refl _⟩
  · exact ⟨le_refl _, h⟩
  · exact ⟨not_lt.mp h2, not_lt.mp h1⟩

theorem updW_bounds (c : Cfg α) (w : α) (h : c.cmin ≤ c.cmax) :
    c.cmin ≤ updW c w ∧ updW c w ≤ c.cmax := by
  unfold updW
  split_ifs <;> exact clamp_bounds _ _ _ h

theorem inB_iff (c : Cfg α) (w : α) : inB c w = true ↔ c.cmin ≤ w ∧ w ≤ c.cmax := by
  simp [inB]

/-- A weight in a clamp interval that contains 0 stays inside it when multiplied by a
factor in `[0, 1]`. -/
theorem decay_in_bounds {lo hi w f : α} (hlo : lo ≤ 0) (hhi : 0 ≤ hi) (hf0 : 0 ≤ f) (hf1 : f ≤ 1)
    (h1 : lo ≤ w) (h2 : w ≤ hi) : lo ≤ w * f ∧ w * f ≤ hi := by
  rcases le_total 0 w with hw | hw
  · have a : 0 ≤ w * f := mul_nonneg hw hf0
    have b : w * f ≤ w := mul_le_of_le_one_right hw hf1
    exact ⟨le_trans hlo a, le_trans b h2⟩
  · have a : w * f ≤ 0 := mul_nonpos_of_nonpos_of_nonneg hw hf0
    have b : w ≤ w * f := by
      have := mul_le_mul_of_nonpos_left hf1 hw
      simpa using this
    exact ⟨le_trans h1 b, le_trans a hhi⟩

theorem decay_abs_le {w f : α} (hf0 : 0 ≤ f) (hf1 : f ≤ 1) : |w * f| ≤ |w| := by
  rw [abs_mul, abs_of_nonneg hf0]
  exact mul_le_of_le_one_right (abs_nonneg w) hf1

/-- The law of `**` the model relies on (`pw` is Python's `0.5 ** x`). -/
def PowLaw (pw : α → α → α) : Prop := ∀ x : α, 0 ≤ x → 0 ≤ pw (1 / 2) x ∧ pw (1 / 2) x ≤ 1

theorem decayFactor_unit (c : Cfg α) (pw : α → α → α) (hpw : PowLaw pw) (dt : Int) :
    0 ≤ decayFactor c pw dt ∧ decayFactor c pw dt ≤ 1 := by
  unfold decayFactor
  simp only [num_le, num_zero, num_half, num_div, num_ofNat, decide_eq_true_eq]
  split_ifs with h
  · exact ⟨le_refl _, zero_le_one⟩
  · exact hpw _ (div_nonneg (Nat.cast_nonneg _) (le_of_lt (not_le.mp h)))

/-! ### `upsert` and predicates on all edges -/

theorem all_upsert {P : Edge α → Prop} (k : Str) (f : Edge α → Edge α) (d : Edge α)
    (hf : ∀ e, P e → P (f e)) (hd : P (f d)) :
    ∀ es : List (Edge α), (∀ e ∈ es, P e) → ∀ e ∈ upsert k f d es, P e := by
  intro es
  induction es with
  | nil =>
    intro _ e he
    simp only [upsert, List.mem_singleton] at he
    subst he; exact hd
  | cons a t ih =>
    intro h e he
    simp only [upsert] at he
    split at he
    · simp only [List.mem_cons] at he
      rcases he with rfl | he
      · exact hf a (h a (by simp))
      · exact h e (by simp [he])
    · simp only [List.mem_cons] at he
      rcases he with rfl | he
      · exact h _ (by simp)
      · exact ih (fun x hx => h x (by simp [hx])) e he

theorem all_foldl {β : Type} {P : Edge α → Prop} (g : List (Edge α) → β → List (Edge α))
    (hg : ∀ es b, (∀ e ∈ es, P e) → ∀ e ∈ g es b, P e) :
    ∀ (l : List β) (es : List (Edge α)), (∀ e ∈ es, P e) → ∀ e ∈ l.foldl g es, P e := by
  intro l
  induction l with
  | nil => intro es h; simpa using h
  | cons b t ih => intro es h; simp only [List.foldl_cons]; exact ih _ (hg es b h)

/-- "good" edges: in bounds, or (non-strict reading) a concept edge. -/
def Good (c : Cfg α) (strict : Bool) (e : Edge α) : Prop :=
  (strict = false ∧ e.concept = true) ∨ (c.cmin ≤ e.w ∧ e.w ≤ c.cmax)

theorem good_bump (c : Cfg α) (strict : Bool) (turn : Option Int) (h : c.cmin ≤ c.cmax)
    (e : Edge α) : Good c strict (bump c turn e) :=
  Or.inr (updW_bounds c e.w h)

theorem good_observeEdges (c : Cfg α) (strict : Bool) (turn : Option Int) (h : c.cmin ≤ c.cmax)
    (ps : List (Str × Str)) (es : List (Edge α)) (hes : ∀ e ∈ es, Good c strict e) :
    ∀ e ∈ observeEdges c turn es ps, Good c strict e := by
  unfold observeEdges
  apply all_foldl (obsStep c turn) _ ps es hes
  intro es p hes
  exact all_upsert _ _ _ (fun e _ => good_bump c strict turn h e) (good_bump c strict turn h _) es hes

theorem tickEdge_some {f floor : α} {turn : Option Int} {e e' : Edge α}
    (h : tickEdge f floor turn e = some e') :
    below f floor e = false ∧ e'.w = e.w * f ∧ e'.key = e.key ∧ e'.src = e.src ∧ e'.dst = e.dst ∧
      e'.concept = e.concept ∧ e'.coact = e.coact := by
  unfold tickEdge at h
  split at h
  · exact absurd h (by simp)
  · rename_i hb
    simp only [Option.some.injEq] at h
    subst h
    refine ⟨by simpa using hb, ?_, rfl, rfl, rfl, rfl, rfl⟩
    simp only [num_eq, num_mul, decide_eq_true_eq]
    split_ifs with he
    · exact he.symm
    · rfl

theorem good_tick (c : Cfg α) (strict : Bool) {f : α} (hlo : c.cmin ≤ 0) (hhi : 0 ≤ c.cmax)
    (hf0 : 0 ≤ f) (hf1 : f ≤ 1) (turn : Option Int) (es : List (Edge α))
    (hes : ∀ e ∈ es, Good c strict e) :
    ∀ e ∈ es.filterMap (tickEdge f c.floor turn), Good c strict e := by
  intro e' he'
  obtain ⟨e, he, hte⟩ := List.mem_filterMap.mp he'
  obtain ⟨_, hw, _, _, _, hc, _⟩ := tickEdge_some hte
  rcases hes e he with ⟨hs, hcon⟩ | ⟨h1, h2⟩
  · exact Or.inl ⟨hs, by rw [hc]; exact hcon⟩
  · right; rw [hw]; exact decay_in_bounds hlo hhi hf0 hf1 h1 h2

theorem good_attach (c : Cfg α) (strict : Bool) (p : Promo α)
    (hp : strict = false ∨ (c.cmin ≤ p.w ∧ p.w ≤ c.cmax)) (es : List (Edge α))
    (hes : ∀ e ∈ es, Good c strict e) :
    ∀ e ∈ p.members.foldl (attachStep p) es, Good c strict e := by
  apply all_foldl (attachStep p) _ p.members es hes
  intro es m hes
  have key : ∀ e : Edge α, Good c strict { e with concept := true, w := p.w } := by
    intro e
    rcases hp with hs | hb
    · exact Or.inl ⟨hs, rfl⟩
    · exact Or.inr hb
  exact all_upsert _ _ _ (fun e _ => key e) (key _) es hes

/-- Which operations the strict reading admits: promotions must attach inside the clamp. -/
def OpOk (c : Cfg α) (strict : Bool) : Op α → Prop
  | .promote p => strict = false ∨ (c.cmin ≤ p.w ∧ p.w ≤ c.cmax)
  | _ => True

theorem good_step (c : Cfg α) (strict : Bool) (pw : α → α → α) (hlo : c.cmin ≤ 0) (hhi : 0 ≤ c.cmax)
    (hpw : PowLaw pw) (s : State α) (op : Op α) (hop : OpOk c strict op)
    (hs : ∀ e ∈ edgesOf s, Good c strict e) :
    ∀ e ∈ edgesOf (step c pw s op), Good c strict e := by
  have hle : c.cmin ≤ c.cmax := le_trans hlo hhi
  cases op with
  | observe items turn =>
    simp only [step, observe]
    split
    · exact hs
    · exact good_observeEdges c strict turn hle _ _ hs
  | tick dt turn =>
    simp only [step, tick]
    split
    · exact hs
    · split
      · exact hs
      · obtain ⟨h0, h1⟩ := decayFactor_unit c pw hpw dt
        exact good_tick c strict hlo hhi h0 h1 turn _ hs
  | merge r =>
    simp only [step, applyMerge]
    split
    · exact hs
    · exact hs
  | split r =>
    simp only [step, applySplit]
    split
    · exact hs
    · exact hs
  | promote p =>
    simp only [step, applyPromotion]
    split
    · exact hs
    · exact good_attach c strict p hop _ hs

theorem good_run (c : Cfg α) (strict : Bool) (pw : α → α → α) (hlo : c.cmin ≤ 0) (hhi : 0 ≤ c.cmax)
    (hpw : PowLaw pw) (ops : List (Op α)) :
    ∀ (s : State α), (∀ op ∈ ops, OpOk c strict op) → (∀ e ∈ edgesOf s, Good c strict e) →
      ∀ e ∈ edgesOf (run c pw s ops), Good c strict e := by
  induction ops with
  | nil => intro s _ hs; simpa [run] using hs
  | cons op t ih =>
    intro s hops hs
    simp only [run, List.foldl_cons]
    exact ih _ (fun o ho => hops o (by simp [ho]))
      (good_step c strict pw hlo hhi hpw s op (hops op (by simp)) hs)

theorem boundedB_iff (c : Cfg α) (es : List (Edge α)) :
    boundedB c es = true ↔ ∀ e ∈ es, Good c true e := by
  simp [boundedB, Good, inB]

theorem boundedCoactB_iff (c : Cfg α) (es : List (Edge α)) :
    boundedCoactB c es = true ↔ ∀ e ∈ es, Good c false e := by
  simp [boundedCoactB, Good, inB]

end Clem.Gel
