/-
Core of the round-trip proof for the delta codec: every list of operations with the same members
as `_walk_diff base cur` — applied in ANY order — turns `base` into a document equal to `cur`.
Strong induction on the size of `base`.
-/
import Clem.Proofs.Delta

namespace Clem.Delta
open Clem.Py Clem.Py.J

theorem segs_of_split {it : Item} {pre X : List Str} (h : splitPath it.path = pre ++ X) :
    it.segs pre.length = X := by
  simp [Item.segs, h]

/-- every path emitted below `path` extends `path`. -/
theorem shape_walkV : ∀ (n : Nat) (bv cv : J) (path : List Str) (it : Item), path ≠ [] →
    size bv ≤ n → it ∈ walkV path bv cv → ∃ more, splitPath it.path = path ++ more := by
  intro n
  induction n with
  | zero => intro bv _ _ _ _ h; have := size_pos bv; omega
  | succ n ih =>
    intro bv cv path it hp hs hm
    by_cases hobj : isObj bv = true ∧ isObj cv = true
    · cases bv <;> simp [isObj] at hobj
      cases cv <;> simp at hobj
      rename_i be ce
      rw [walkV_obj, walkO, List.mem_append, mem_levelItems, mem_walkC] at hm
      rcases hm with (⟨k, _, _, rfl⟩ | ⟨k, v, _, _, rfl⟩) | ⟨k, bv', cv', hmem, _, hi⟩
      · exact ⟨[k], by simp [Item.path, splitPath_joinPath]⟩
      · exact ⟨[k], by simp [Item.path, splitPath_joinPath]⟩
      · have hsz := size_of_mem hmem
        simp only [size] at hs
        obtain ⟨more, hmore⟩ := ih bv' cv' (path ++ [k]) it (by simp) (by omega) hi
        exact ⟨k :: more, by simp [hmore]⟩
    · rw [walkV_leaf _ _ _ hobj] at hm
      split at hm
      · simp at hm
      · simp only [List.mem_singleton] at hm
        subst hm
        exact ⟨[], by simp [Item.path, splitPath_joinPath _ hp]⟩

/-- classification of the items emitted at one level by the first path segment below the prefix. -/
theorem walkO_head {pre : List Str} {be ce : List (Str × J)} {it : Item} (h : it ∈ walkO pre be ce) :
    (∃ k, k ∈ keys be ∧ hasKey k ce = false ∧ it = .del (joinPath (pre ++ [k])) ∧ it.segs pre.length = [k]) ∨
    (∃ k v, (k, v) ∈ ce ∧ hasKey k be = false ∧ it = .add (joinPath (pre ++ [k])) v ∧ it.segs pre.length = [k]) ∨
    (∃ k bv cv more, (k, bv) ∈ be ∧ lookup k ce = some cv ∧ it ∈ walkV (pre ++ [k]) bv cv ∧
      it.segs pre.length = k :: more) := by
  rw [walkO, List.mem_append, mem_levelItems, mem_walkC] at h
  rcases h with (⟨k, hk, hc, rfl⟩ | ⟨k, v, hm, hb, rfl⟩) | ⟨k, bv, cv, hmem, hl, hi⟩
  · exact Or.inl ⟨k, hk, hc, rfl, segs_of_split (by simp [Item.path, splitPath_joinPath])⟩
  · exact Or.inr (Or.inl ⟨k, v, hm, hb, rfl, segs_of_split (by simp [Item.path, splitPath_joinPath])⟩)
  · obtain ⟨more, hmore⟩ := shape_walkV (size bv) bv cv (pre ++ [k]) it (by simp) (Nat.le_refl _) hi
    exact Or.inr (Or.inr ⟨k, bv, cv, more, hmem, hl, hi,
      segs_of_split (by simpa using hmore)⟩)

def OptEquiv : Option J → Option J → Prop
  | none, none => True
  | some x, some y => Equiv x y
  | _, _ => False

theorem Equiv.obj_of_opt {a b : List (Str × J)} (h : ∀ k, OptEquiv (lookup k a) (lookup k b)) :
    Equiv (.obj a) (.obj b) := by
  refine .obj (fun k => ?_) (fun k x y hx hy => ?_)
  · have := h k
    cases ha : lookup k a <;> cases hb : lookup k b <;> simp_all [OptEquiv]
  · have := h k
    simpa [hx, hy, OptEquiv] using this

theorem headIs_iff {d : Nat} {k : Str} {it : Item} {k' : Str} {more : List Str}
    (h : it.segs d = k' :: more) : headIs d k it = true ↔ k' = k := by
  simp [headIs, h]

theorem core : ∀ (n : Nat) (be ce : List (Str × J)) (pre : List Str) (ops : List Item),
    sizeO be < n → wf (.obj be) = true → wf (.obj ce) = true →
    (∀ it, it ∈ ops ↔ it ∈ walkO pre be ce) →
    Equiv (.obj (applyItems pre.length ops be)) (.obj ce) := by
  intro n
  induction n with
  | zero => intro _ _ _ _ h; omega
  | succ n ih =>
    intro be ce pre ops hsz hwb hwc hops
    simp only [wf, Bool.and_eq_true] at hwb hwc
    have hne : ∀ it ∈ ops, it.segs pre.length ≠ [] := by
      intro it hi
      rcases walkO_head ((hops it).1 hi) with ⟨k, _, _, _, hs⟩ | ⟨k, v, _, _, _, hs⟩ | ⟨k, bv, cv, more, _, _, _, hs⟩ <;>
        simp [hs]
    apply Equiv.obj_of_opt
    intro k
    rw [lookup_applyItems pre.length k ops hne be]
    have memS : ∀ it, it ∈ ops.filter (headIs pre.length k) ↔
        it ∈ walkO pre be ce ∧ headIs pre.length k it = true := by
      intro it; rw [List.mem_filter, hops it]
    generalize ops.filter (headIs pre.length k) = S at memS
    cases hb : lookup k be with
    | none =>
      have hkb : hasKey k be = false := (hasKey_false_iff k be).2 hb
      cases hc : lookup k ce with
      | none =>
        have hkc : hasKey k ce = false := (hasKey_false_iff k ce).2 hc
        have : S = [] := by
          apply List.eq_nil_iff_forall_not_mem.2
          intro it hi
          obtain ⟨hw, hh⟩ := (memS it).1 hi
          rcases walkO_head hw with ⟨k', hk, _, _, hs⟩ | ⟨k', v, hm, _, _, hs⟩ | ⟨k', bv, cv, more, hm, _, _, hs⟩
          · have := (headIs_iff hs).1 hh; subst this
            rw [(hasKey_iff_mem_keys _ _).2 hk] at hkb; cases hkb
          · have := (headIs_iff hs).1 hh; subst this
            rw [hasKey_of_mem hm] at hkc; cases hkc
          · have := (headIs_iff hs).1 hh; subst this
            rw [hasKey_of_mem hm] at hkb; cases hkb
        subst this
        simp [OptEquiv]
      | some cv =>
        have hmem := mem_of_lookup hc
        have hres : S.foldl (fun c it => stepItem pre.length it c) none = some cv := by
          apply foldl_const
          · intro e
            have hin : Item.add (joinPath (pre ++ [k])) cv ∈ S := by
              rw [memS]
              have hw : Item.add (joinPath (pre ++ [k])) cv ∈ walkO pre be ce := by
                rw [walkO, List.mem_append, mem_levelItems]
                exact Or.inl (Or.inr ⟨k, cv, hmem, hkb, rfl⟩)
              refine ⟨hw, ?_⟩
              have hs : (Item.add (joinPath (pre ++ [k])) cv).segs pre.length = [k] :=
                segs_of_split (by simp [Item.path, splitPath_joinPath])
              exact (headIs_iff hs).2 rfl
            rw [e] at hin; cases hin
          · intro it hi c
            obtain ⟨hw, hh⟩ := (memS it).1 hi
            rcases walkO_head hw with ⟨k', hk, _, _, hs⟩ | ⟨k', v, hm, _, rfl, hs⟩ | ⟨k', bv, cv', more, hm, _, _, hs⟩
            · have := (headIs_iff hs).1 hh; subst this
              rw [(hasKey_iff_mem_keys _ _).2 hk] at hkb; cases hkb
            · have := (headIs_iff hs).1 hh; subst this
              have hv := lookup_of_mem_nodup hwc.1 hm
              rw [hc] at hv; cases hv
              simp [stepItem, segs_succ _ _ hs, stepSet]
            · have := (headIs_iff hs).1 hh; subst this
              rw [hasKey_of_mem hm] at hkb; cases hkb
        rw [hres]
        exact J.Equiv.refl cv
    | some bv =>
      have hmemb := mem_of_lookup hb
      have hkb : hasKey k be = true := hasKey_of_lookup hb
      cases hc : lookup k ce with
      | none =>
        have hkc : hasKey k ce = false := (hasKey_false_iff k ce).2 hc
        have hres : S.foldl (fun c it => stepItem pre.length it c) (some bv) = none := by
          apply foldl_const
          · intro e
            have hin : Item.del (joinPath (pre ++ [k])) ∈ S := by
              rw [memS]
              have hw : Item.del (joinPath (pre ++ [k])) ∈ walkO pre be ce := by
                rw [walkO, List.mem_append, mem_levelItems]
                exact Or.inl (Or.inl ⟨k, (hasKey_iff_mem_keys _ _).1 hkb, hkc, rfl⟩)
              refine ⟨hw, ?_⟩
              have hs : (Item.del (joinPath (pre ++ [k]))).segs pre.length = [k] :=
                segs_of_split (by simp [Item.path, splitPath_joinPath])
              exact (headIs_iff hs).2 rfl
            rw [e] at hin; cases hin
          · intro it hi c
            obtain ⟨hw, hh⟩ := (memS it).1 hi
            rcases walkO_head hw with ⟨k', hk, _, rfl, hs⟩ | ⟨k', v, hm, _, _, hs⟩ | ⟨k', bv', cv', more, hm, hl, _, hs⟩
            · simp [stepItem, segs_succ _ _ hs, stepDel]
            · have := (headIs_iff hs).1 hh; subst this
              rw [hasKey_of_mem hm] at hkc; cases hkc
            · have := (headIs_iff hs).1 hh; subst this
              rw [hc] at hl; cases hl
        rw [hres]
        simp [OptEquiv]
      | some cv =>
        have hkc : hasKey k ce = true := hasKey_of_lookup hc
        -- the items with first segment `k` are exactly those emitted for the pair (bv, cv)
        have hS : ∀ it, it ∈ S ↔ it ∈ walkV (pre ++ [k]) bv cv := by
          intro it
          rw [memS]
          constructor
          · rintro ⟨hw, hh⟩
            rcases walkO_head hw with ⟨k', hk, hkc', _, hs⟩ | ⟨k', v, hm, hkb', _, hs⟩ | ⟨k', bv', cv', more, hm, hl, hi, hs⟩
            · have := (headIs_iff hs).1 hh; subst this
              rw [hkc] at hkc'; cases hkc'
            · have := (headIs_iff hs).1 hh; subst this
              rw [hkb] at hkb'; cases hkb'
            · have := (headIs_iff hs).1 hh; subst this
              have hv := lookup_of_mem_nodup hwb.1 hm
              rw [hb] at hv; cases hv
              rw [hc] at hl; cases hl
              exact hi
          · intro hi
            have hw : it ∈ walkO pre be ce := by
              rw [walkO, List.mem_append, mem_walkC]
              exact Or.inr ⟨k, bv, cv, hmemb, hc, hi⟩
            obtain ⟨more, hmore⟩ := shape_walkV (size bv) bv cv (pre ++ [k]) it (by simp) (Nat.le_refl _) hi
            have hs : it.segs pre.length = k :: more := segs_of_split (by simpa using hmore)
            exact ⟨hw, (headIs_iff hs).2 rfl⟩
        by_cases hobj : isObj bv = true ∧ isObj cv = true
        · cases bv <;> simp [isObj] at hobj
          cases cv <;> simp at hobj
          rename_i b' c'
          simp only [walkV_obj] at hS
          have hlen : (pre ++ [k]).length = pre.length + 1 := by simp
          have hne' : ∀ it ∈ S, it.segs (pre.length + 1) ≠ [] := by
            intro it hi
            rcases walkO_head ((hS it).1 hi) with ⟨_, _, _, _, hs⟩ | ⟨_, _, _, _, _, hs⟩ | ⟨_, _, _, _, _, _, _, hs⟩ <;>
              (rw [hlen] at hs; simp [hs])
          rw [foldl_nested pre.length S hne' b']
          have hszb := size_of_mem hmemb
          simp only [size] at hszb
          have hwb' := wf_of_mem hwb.2 hmemb
          have hwc' := wf_of_mem hwc.2 (mem_of_lookup hc)
          have := ih b' c' (pre ++ [k]) S (by omega) hwb' hwc' hS
          rw [hlen] at this
          exact this
        · simp only [walkV_leaf _ _ _ hobj] at hS
          by_cases hsame : same bv cv = true
          · have : S = [] := by
              apply List.eq_nil_iff_forall_not_mem.2
              intro it hi
              have := (hS it).1 hi
              simp [hsame] at this
            subst this
            exact eqvG_sound false bv cv hsame
          · have hres : S.foldl (fun c it => stepItem pre.length it c) (some bv) = some cv := by
              apply foldl_const
              · intro e
                have hin : Item.mod (joinPath (pre ++ [k])) cv ∈ S := by
                  rw [hS]; simp [hsame]
                rw [e] at hin; cases hin
              · intro it hi c
                have := (hS it).1 hi
                simp only [hsame, Bool.false_eq_true, if_false, List.mem_singleton] at this
                subst this
                have hs : (Item.mod (joinPath (pre ++ [k])) cv).segs pre.length = [k] :=
                  segs_of_split (by simp [Item.path, splitPath_joinPath])
                simp [stepItem, segs_succ _ _ hs, stepSet]
            rw [hres]
            exact J.Equiv.refl cv

/-! ### glue: `apply_delta` as a list of operations; wire form -/

theorem mem_addsOf (l : List Item) (p : Str) (v : J) : (p, v) ∈ addsOf l ↔ Item.add p v ∈ l := by
  induction l with
  | nil => simp [addsOf]
  | cons it l ih => cases it <;> simp [addsOf, ih]

theorem mem_modsOf (l : List Item) (p : Str) (v : J) : (p, v) ∈ modsOf l ↔ Item.mod p v ∈ l := by
  induction l with
  | nil => simp [modsOf]
  | cons it l ih => cases it <;> simp [modsOf, ih]

theorem mem_delsOf (l : List Item) (p : Str) : p ∈ delsOf l ↔ Item.del p ∈ l := by
  induction l with
  | nil => simp [delsOf]
  | cons it l ih => cases it <;> simp [delsOf, ih]

/-- the operations `apply_delta` performs, in the order it performs them. -/
def opsOf (d : Delta) : List Item :=
  (isort keyLe d.adds).map (fun e => Item.add e.1 e.2) ++
  (isort keyLe d.mods).map (fun e => Item.mod e.1 e.2) ++
  (isort lexLe d.dels).map Item.del

theorem applyDelta_eq (base : J) (d : Delta) :
    applyDelta base d = applyItems 0 (opsOf d) (entries base) := by
  simp only [applyDelta, opsOf, applyItems, List.foldl_append, List.foldl_map]
  rfl

theorem wf_entries {a : J} (h : wf a = true) : wf (.obj (entries a)) = true := by
  cases a <;> first | exact h | rfl

theorem strsOf_map_str (l : List Str) : strsOf (l.map J.str) = l := by
  induction l with
  | nil => rfl
  | cons s l ih => simp [strsOf, ih]

theorem ofJ_toJ (d : Delta) : Delta.ofJ (orEmpty d.toJ) = d := by
  cases d with
  | mk a m dl =>
    simp [Delta.ofJ, Delta.toJ, orEmpty, truthy, entries, lookup, sADDS, sMODS, sDELS, asEntries,
      strsOf_map_str]

theorem wf_orEmpty {a : J} (h : wf a = true) : wf (orEmpty a) = true := by
  unfold orEmpty; split
  · exact h
  · rfl

end Clem.Delta
