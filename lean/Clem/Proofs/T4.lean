import Mathlib.Algebra.Order.Field.Basic
import Mathlib.Tactic.Linarith
import Mathlib.Tactic.FieldSimp
import Mathlib.Tactic.Ring
import Mathlib.Algebra.Order.BigOperators.Group.List
import Mathlib.Data.List.Perm.Subperm
import Clem.Proofs.NumField
import Clem.Proofs.Sort
import Clem.Model.T4

/-! Helper lemmas for the T4 meta-filter model (`Clem/Model/T4.lean`). -/
set_option linter.unusedSectionVars false
namespace Clem.T4
open Clem.Py

/-! ### `str` order on code-point lists -/

theorem lexLe_refl (a : Str) : lexLe a a = true := by
  induction a with
  | nil => rfl
  | cons x xs ih => simp [lexLe, ih]

theorem lexLe_total (a b : Str) : lexLe a b = true ∨ lexLe b a = true := by
  induction a generalizing b with
  | nil => left; simp [lexLe]
  | cons x xs ih =>
    cases b with
    | nil => right; simp [lexLe]
    | cons y ys =>
      simp only [lexLe]
      rcases Nat.lt_trichotomy x y with h | h | h
      · left; simp [h]
      · subst h; simpa using ih ys
      · right; simp [h]

theorem lexLe_trans (a b c : Str) : lexLe a b = true → lexLe b c = true → lexLe a c = true := by
  induction a generalizing b c with
  | nil => intros; simp [lexLe]
  | cons x xs ih =>
    cases b with
    | nil => simp [lexLe]
    | cons y ys =>
      cases c with
      | nil => simp [lexLe]
      | cons z zs =>
        simp only [lexLe]
        intro h1 h2
        split_ifs at h1 h2 ⊢ <;> first | rfl | omega | exact ih _ _ h1 h2

theorem lexLe_antisymm (a b : Str) : lexLe a b = true → lexLe b a = true → a = b := by
  induction a generalizing b with
  | nil => cases b <;> simp [lexLe]
  | cons x xs ih =>
    cases b with
    | nil => simp [lexLe]
    | cons y ys =>
      simp only [lexLe]
      intro h1 h2
      split_ifs at h1 h2 <;> try omega
      all_goals
        have : x = y := by omega
        subst this
        rw [ih ys h1 h2]

theorem lexLt_iff (a b : Str) : lexLt a b = true ↔ lexLe a b = true ∧ a ≠ b := by
  simp [lexLt]

theorem not_lexLt_iff (a b : Str) : lexLt b a = false ↔ lexLe a b = true := by
  constructor
  · intro h
    rcases lexLe_total a b with h1 | h1
    · exact h1
    · by_cases hab : b = a
      · subst hab; exact lexLe_refl _
      · have : lexLt b a = true := (lexLt_iff b a).2 ⟨h1, hab⟩
        simp [this] at h
  · intro h
    cases hlt : lexLt b a with
    | false => rfl
    | true =>
      obtain ⟨h1, h2⟩ := (lexLt_iff b a).1 hlt
      exact absurd (lexLe_antisymm _ _ h1 h).symm (by simpa [eq_comm] using h2)

theorem allPairs_iff {β : Type} (r : β → β → Bool) (l : List β) :
    allPairs r l = true ↔ l.Pairwise (fun a b => r a b = true) := by
  induction l with
  | nil => simp [allPairs]
  | cons a l ih => simp [allPairs, ih, List.all_eq_true]

/-! ### what the stages keep: target, provenance, key -/

variable {α : Type}

/-- everything of a delta except the number -/
def strip (d : Delta α) : Delta Unit := ⟨d.kind, d.id, d.attr, (), d.opIdx, d.idx⟩

@[simp] theorem ckey_strip (d : Delta α) : ckey (strip d) = ckey d := rfl
@[simp] theorem notBlocked_strip (b : List Nat) (d : Delta α) : notBlocked b (strip d) = notBlocked b d := rfl
@[simp] theorem ckey_merge [Num α] (e d : Delta α) : ckey (merge e d) = ckey e := rfl
@[simp] theorem strip_scaleBy [Num α] (s : α) (d : Delta α) : strip (scaleBy s d) = strip d := rfl
@[simp] theorem strip_clamp1 [Num α] (c : α) (d : Delta α) : strip (clamp1 c d) = strip d := by
  unfold clamp1; split <;> rfl

theorem map_strip_noveltyClamp [Num α] (l : List (Delta α)) (c : α) :
    (noveltyClamp l c).map strip = l.map strip := by
  simp [noveltyClamp, List.map_map, Function.comp_def]

theorem map_strip_l2Scale [Num α] (sqrt : α → α) (l : List (Delta α)) (c : α) :
    (l2Scale sqrt l c).map strip = l.map strip := by
  unfold l2Scale; split <;> simp [List.map_map, Function.comp_def]

theorem churnCap_subperm [Num α] (l : List (Delta α)) (k : Int) : (churnCap l k).Subperm l := by
  unfold churnCap; split
  · exact List.Subperm.refl _
  · exact (List.take_sublist _ _).subperm.trans (isort_perm _ _).subperm

theorem subperm_map {β γ : Type} (f : β → γ) {l₁ l₂ : List β} (h : l₁.Subperm l₂) :
    (l₁.map f).Subperm (l₂.map f) := by
  obtain ⟨l, hp, hs⟩ := h
  exact ⟨l.map f, hp.map f, hs.map f⟩

theorem approved_subperm_scaled [Num α] (sqrt : α → α) (inp : Input α) :
    (approved sqrt inp).Subperm (scaled sqrt inp) :=
  (isort_perm _ _).subperm.trans (churnCap_subperm _ _)

theorem approved_subperm [Num α] (sqrt : α → α) (inp : Input α) :
    ((approved sqrt inp).map strip).Subperm ((afterCd inp).map strip) := by
  have h2 := subperm_map strip (approved_subperm_scaled sqrt inp)
  simpa only [scaled, map_strip_l2Scale, clamped, map_strip_noveltyClamp] using h2

/-- every approved delta is, up to its number, one of the merged deltas that passed the cooldown filter -/
theorem approved_from_afterCd [Num α] (sqrt : α → α) (inp : Input α) {d : Delta α}
    (h : d ∈ approved sqrt inp) : ∃ e ∈ afterCd inp, strip e = strip d := by
  have := (approved_subperm sqrt inp).subset (List.mem_map_of_mem (f := strip) h)
  simpa using this

theorem map_ckey_eq_strip (l : List (Delta α)) : l.map ckey = (l.map strip).map ckey := by
  simp [List.map_map, Function.comp_def]

theorem nodup_keys_of_subperm {l₁ : List (Delta α)} {β : Type} {l₂ : List (Delta β)}
    (h : (l₁.map strip).Subperm (l₂.map strip)) (hn : (l₂.map ckey).Nodup) : (l₁.map ckey).Nodup := by
  rw [map_ckey_eq_strip] at hn ⊢
  obtain ⟨l, hp, hs⟩ := subperm_map ckey h
  exact (hp.nodup_iff).1 ((hs.nodup) hn)

/-! ### `_combine_by_ckey` -/

theorem keys_upd [Num α] (acc : List (Delta α)) (d : Delta α) :
    (upd acc d).map ckey = if ckey d ∈ acc.map ckey then acc.map ckey else acc.map ckey ++ [ckey d] := by
  induction acc with
  | nil => simp [upd]
  | cons e rest ih =>
    simp only [upd]
    by_cases h : ckey e = ckey d
    · simp [h]
    · have h' : ¬ ckey d = ckey e := fun x => h x.symm
      simp only [beq_iff_eq, h, if_false, List.map_cons, ih, List.mem_cons, h', false_or]
      split_ifs <;> simp

theorem mem_keys_upd [Num α] (acc : List (Delta α)) (d : Delta α) (k : Str) :
    k ∈ (upd acc d).map ckey ↔ k ∈ acc.map ckey ∨ k = ckey d := by
  rw [keys_upd]
  split_ifs with h
  · constructor
    · exact Or.inl
    · rintro (h1 | rfl)
      · exact h1
      · exact h
  · simp

theorem nodup_keys_upd [Num α] {acc : List (Delta α)} (d : Delta α) (h : (acc.map ckey).Nodup) :
    ((upd acc d).map ckey).Nodup := by
  rw [keys_upd]
  split_ifs with hm
  · exact h
  · rw [List.nodup_append]
    refine ⟨h, by simp, ?_⟩
    intro a ha b hb
    simp at hb; subst hb
    intro hab; subst hab
    exact hm ha

theorem nodup_keys_foldl [Num α] (ds : List (Delta α)) :
    ∀ acc : List (Delta α), (acc.map ckey).Nodup → ((ds.foldl upd acc).map ckey).Nodup := by
  induction ds with
  | nil => intro acc h; exact h
  | cons d ds ih => intro acc h; exact ih _ (nodup_keys_upd d h)

theorem mem_keys_foldl [Num α] (ds : List (Delta α)) (k : Str) :
    ∀ acc : List (Delta α), k ∈ (ds.foldl upd acc).map ckey ↔ k ∈ acc.map ckey ∨ k ∈ ds.map ckey := by
  induction ds with
  | nil => intro acc; simp
  | cons d ds ih =>
    intro acc
    simp only [List.foldl_cons, ih, mem_keys_upd, List.map_cons, List.mem_cons]
    tauto

/-- the contributions to one string key, in listing order -/
def grp (key : Str) (ds : List (Delta α)) : List (Delta α) := ds.filter (fun d => ckey d == key)

theorem ckey_foldl_merge [Num α] (l : List (Delta α)) : ∀ a : Delta α, ckey (l.foldl merge a) = ckey a := by
  induction l with
  | nil => intro a; rfl
  | cons x l ih => intro a; simp [List.foldl_cons, ih]

theorem mem_upd [Num α] {acc : List (Delta α)} {d a' : Delta α} (hn : (acc.map ckey).Nodup)
    (h : a' ∈ upd acc d) :
    (a' ∈ acc ∧ ckey a' ≠ ckey d) ∨ (∃ a ∈ acc, ckey a = ckey d ∧ a' = merge a d) ∨
      (ckey d ∉ acc.map ckey ∧ a' = d) := by
  induction acc with
  | nil => simp [upd] at h; right; right; simp [h]
  | cons e rest ih =>
    simp only [List.map_cons, List.nodup_cons] at hn
    by_cases hk : ckey e = ckey d
    · simp only [upd, hk, beq_self_eq_true, if_true, List.mem_cons] at h
      rcases h with rfl | h
      · right; left; exact ⟨e, by simp, hk, rfl⟩
      · left
        refine ⟨by simp [h], ?_⟩
        intro hc
        exact hn.1 (by rw [hk, ← hc]; exact List.mem_map_of_mem h)
    · simp only [upd, beq_iff_eq, hk, if_false, List.mem_cons] at h
      rcases h with rfl | h
      · left; exact ⟨by simp, hk⟩
      · rcases ih hn.2 h with ⟨h1, h2⟩ | ⟨a, ha, hka, rfl⟩ | ⟨hnot, rfl⟩
        · left; exact ⟨by simp [h1], h2⟩
        · right; left; exact ⟨a, by simp [ha], hka, rfl⟩
        · right; right
          refine ⟨?_, rfl⟩
          simp only [List.map_cons, List.mem_cons, not_or]
          exact ⟨fun x => hk x.symm, hnot⟩

theorem grp_cons_ne (key : Str) (d : Delta α) (ds : List (Delta α)) (h : ckey d ≠ key) :
    grp key (d :: ds) = grp key ds := by
  simp [grp, h]

theorem grp_cons_eq (key : Str) (d : Delta α) (ds : List (Delta α)) (h : ckey d = key) :
    grp key (d :: ds) = d :: grp key ds := by
  simp [grp, h]

theorem foldl_upd_spec [Num α] (ds : List (Delta α)) :
    ∀ acc : List (Delta α), (acc.map ckey).Nodup → ∀ e ∈ ds.foldl upd acc,
      (∃ a ∈ acc, e = (grp (ckey a) ds).foldl merge a) ∨
      (ckey e ∉ acc.map ckey ∧ ∃ d rest, grp (ckey e) ds = d :: rest ∧ e = rest.foldl merge d) := by
  induction ds with
  | nil => intro acc _ e he; left; exact ⟨e, he, rfl⟩
  | cons d ds ih =>
    intro acc hn e he
    simp only [List.foldl_cons] at he
    rcases ih (upd acc d) (nodup_keys_upd d hn) e he with ⟨a', ha', he2⟩ | ⟨hne, d1, rest, hg, he2⟩
    · rcases mem_upd hn ha' with ⟨h1, h2⟩ | ⟨a, ha, hk, rfl⟩ | ⟨hk, rfl⟩
      · left; refine ⟨a', h1, ?_⟩
        rw [grp_cons_ne _ _ _ (Ne.symm h2)]; exact he2
      · left; refine ⟨a, ha, ?_⟩
        rw [grp_cons_eq _ _ _ hk.symm, List.foldl_cons]; exact he2
      · right
        have hke : ckey e = ckey a' := by rw [he2, ckey_foldl_merge]
        refine ⟨by rw [hke]; exact hk, a', grp (ckey a') ds, ?_, he2⟩
        rw [hke, grp_cons_eq _ _ _ rfl]
    · right
      rw [mem_keys_upd, not_or] at hne
      refine ⟨hne.1, d1, rest, ?_, he2⟩
      rw [grp_cons_ne _ _ _ (Ne.symm hne.2)]; exact hg

theorem combineAcc_spec [Num α] (ds : List (Delta α)) {e : Delta α} (he : e ∈ combineAcc ds) :
    ∃ d rest, grp (ckey e) ds = d :: rest ∧ e = rest.foldl merge d := by
  rcases foldl_upd_spec ds [] (by simp) e he with ⟨a, ha, _⟩ | ⟨_, h⟩
  · simp at ha
  · exact h

theorem nodup_keys_combineAcc [Num α] (ds : List (Delta α)) : ((combineAcc ds).map ckey).Nodup :=
  nodup_keys_foldl ds [] (by simp)

theorem mem_keys_combineAcc [Num α] (ds : List (Delta α)) (k : Str) :
    k ∈ (combineAcc ds).map ckey ↔ k ∈ ds.map ckey := by
  simp [combineAcc, mem_keys_foldl]

@[simp] theorem ckey_canonEntry [Num α] (ds : List (Delta α)) (e : Delta α) :
    ckey (canonEntry ds e) = ckey e := rfl
@[simp] theorem strip_canonEntry [Num α] (ds : List (Delta α)) (e : Delta α) :
    strip (canonEntry ds e) = strip e := rfl

/-- the accumulator entries with their canonical sums, before the final sort by key -/
def combineC [Num α] (ds : List (Delta α)) : List (Delta α) := (combineAcc ds).map (canonEntry ds)

theorem combine_perm [Num α] (ds : List (Delta α)) : (combine ds).Perm (combineC ds) := isort_perm _ _

theorem keys_combineC [Num α] (ds : List (Delta α)) : (combineC ds).map ckey = (combineAcc ds).map ckey := by
  simp [combineC, List.map_map, Function.comp_def]

theorem nodup_keys_combineC [Num α] (ds : List (Delta α)) : ((combineC ds).map ckey).Nodup := by
  rw [keys_combineC]; exact nodup_keys_combineAcc ds

theorem nodup_keys_combine [Num α] (ds : List (Delta α)) : ((combine ds).map ckey).Nodup :=
  ((combine_perm ds).map ckey).nodup_iff.2 (nodup_keys_combineC ds)

theorem mem_combine [Num α] (ds : List (Delta α)) (e : Delta α) :
    e ∈ combine ds ↔ ∃ e₀ ∈ combineAcc ds, canonEntry ds e₀ = e := by
  rw [(combine_perm ds).mem_iff]; simp [combineC]

theorem nodup_keys_afterCd [Num α] (inp : Input α) : ((afterCd inp).map ckey).Nodup :=
  ((List.filter_sublist (l := combine inp.deltas)).map ckey).nodup (nodup_keys_combine _)

/-- closed form of the accumulator entry -/
theorem foldl_merge_fields [Num α] (rest : List (Delta α)) : ∀ d : Delta α,
    (rest.foldl merge d).kind = d.kind ∧ (rest.foldl merge d).id = d.id ∧ (rest.foldl merge d).attr = d.attr ∧
    (rest.foldl merge d).delta = rest.foldl (fun s x => Num.add s x.delta) d.delta ∧
    (rest.foldl merge d).opIdx = rest.foldl (fun m x => minOpt m x.opIdx) d.opIdx ∧
    (rest.foldl merge d).idx = rest.foldl (fun m x => minOpt m x.idx) d.idx := by
  induction rest with
  | nil => intro d; simp
  | cons x rest ih => intro d; simpa [merge] using ih (merge d x)

/-! ### arithmetic of the clamp and of the L2 scaling, at an ordered field -/

section OrderedField
variable {α : Type} [Field α] [LinearOrder α] [IsStrictOrderedRing α]

theorem sumSq_eq (l : List (Delta α)) : sumSq l = (l.map (fun d => d.delta * d.delta)).sum := by
  simp only [sumSq, num_add, num_mul, num_zero]
  have : ∀ a : α, l.foldl (fun s d => s + d.delta * d.delta) a
      = a + (l.map (fun d => d.delta * d.delta)).sum := by
    induction l with
    | nil => intro a; simp
    | cons x l ih => intro a; simp only [List.foldl_cons, List.map_cons, List.sum_cons, ih]; ring
  simpa using this 0

@[simp] theorem sumSq_nil : sumSq ([] : List (Delta α)) = 0 := by simp [sumSq_eq]
@[simp] theorem sumSq_cons (x : Delta α) (l : List (Delta α)) :
    sumSq (x :: l) = x.delta * x.delta + sumSq l := by simp [sumSq_eq]

theorem sumSq_nonneg (l : List (Delta α)) : 0 ≤ sumSq l := by
  induction l with
  | nil => simp
  | cons x l ih => rw [sumSq_cons]; have := mul_self_nonneg x.delta; linarith

theorem sumSq_perm {l l' : List (Delta α)} (h : l.Perm l') : sumSq l = sumSq l' := by
  rw [sumSq_eq, sumSq_eq]; exact (h.map _).sum_eq

theorem sumSq_take_le (l : List (Delta α)) : ∀ n : Nat, sumSq (l.take n) ≤ sumSq l := by
  induction l with
  | nil => intro n; simp
  | cons x l ih =>
    intro n
    cases n with
    | zero => simpa using sumSq_nonneg (x :: l)
    | succ n => simp only [List.take_succ_cons, sumSq_cons]; have := ih n; linarith

theorem sumSq_churnCap_le (l : List (Delta α)) (k : Int) : sumSq (churnCap l k) ≤ sumSq l := by
  unfold churnCap; split
  · exact le_refl _
  · exact (sumSq_take_le _ _).trans (le_of_eq (sumSq_perm (isort_perm _ _)))

theorem sumSq_map_scaleBy (s : α) (l : List (Delta α)) : sumSq (l.map (scaleBy s)) = s * s * sumSq l := by
  induction l with
  | nil => simp
  | cons x l ih => simp only [List.map_cons, sumSq_cons, ih, scaleBy, num_mul]; ring

theorem abs_clamp1 (c : α) (hc : 0 ≤ c) (d : Delta α) : |(clamp1 c d).delta| ≤ c := by
  unfold clamp1 isClamped
  simp only [num_lt, num_abs, num_zero, num_neg, decide_eq_true_eq]
  split_ifs with h1 h2
  · simp [abs_of_nonneg hc]
  · simp [abs_of_nonneg hc]
  · exact not_lt.1 h1

theorem abs_noveltyClamp (cap : α) (l : List (Delta α)) : ∀ d ∈ noveltyClamp l cap, |d.delta| ≤ |cap| := by
  intro d hd
  simp only [noveltyClamp, List.mem_map, num_abs] at hd
  obtain ⟨e, _, rfl⟩ := hd
  exact abs_clamp1 _ (abs_nonneg _) e

/-! #### `_l2_norm`: whichever path is taken, it is the non-negative root of the sum of squares -/

theorem maxAbs_fold_ge (l : List (Delta α)) : ∀ a : α,
    a ≤ l.foldl (fun m d => if m < |d.delta| then |d.delta| else m) a ∧
    ∀ d ∈ l, |d.delta| ≤ l.foldl (fun m d => if m < |d.delta| then |d.delta| else m) a := by
  induction l with
  | nil => intro a; simp
  | cons x l ih =>
    intro a
    simp only [List.foldl_cons, List.mem_cons, forall_eq_or_imp]
    split_ifs with h
    · obtain ⟨h1, h2⟩ := ih |x.delta|
      exact ⟨le_trans (le_of_lt h) h1, h1, h2⟩
    · obtain ⟨h1, h2⟩ := ih a
      exact ⟨h1, le_trans (not_lt.1 h) h1, h2⟩

theorem maxAbs_eq (l : List (Delta α)) :
    maxAbs l = l.foldl (fun m d => if m < |d.delta| then |d.delta| else m) 0 := by
  simp only [maxAbs, num_lt, num_abs, num_zero, decide_eq_true_eq]

theorem maxAbs_nonneg (l : List (Delta α)) : 0 ≤ maxAbs l := by
  rw [maxAbs_eq]; exact (maxAbs_fold_ge l 0).1

theorem abs_le_maxAbs (l : List (Delta α)) : ∀ d ∈ l, |d.delta| ≤ maxAbs l := by
  rw [maxAbs_eq]; exact (maxAbs_fold_ge l 0).2

theorem sumSq_eq_zero_of_maxAbs (l : List (Delta α)) (h : maxAbs l = 0) : sumSq l = 0 := by
  have hz : ∀ d ∈ l, d.delta = 0 := fun d hd =>
    abs_eq_zero.1 (le_antisymm (h ▸ abs_le_maxAbs l d hd) (abs_nonneg _))
  clear h
  induction l with
  | nil => simp
  | cons x l ih =>
    rw [sumSq_cons, hz x (by simp), ih (fun d hd => hz d (by simp [hd]))]; simp

theorem sumSqRel_eq (m : α) (l : List (Delta α)) : sumSqRel m l = sumSq l / (m * m) := by
  simp only [sumSqRel, num_add, num_mul, num_div, num_zero]
  have : ∀ a : α, l.foldl (fun t d => t + d.delta / m * (d.delta / m)) a = a + sumSq l / (m * m) := by
    induction l with
    | nil => intro a; simp
    | cons x l ih =>
      intro a
      simp only [List.foldl_cons, ih, sumSq_cons]
      by_cases hm : m = 0
      · subst hm; simp
      · field_simp
        ring
  simpa using this 0

theorem l2Norm_nonneg (sqrt : α → α) (hs0 : ∀ x, 0 ≤ sqrt x) (l : List (Delta α)) : 0 ≤ l2Norm sqrt l := by
  unfold l2Norm
  split
  · exact hs0 _
  · split
    · simp
    · simp only [num_mul]; exact mul_nonneg (maxAbs_nonneg l) (hs0 _)

/-- the norm `_l2_norm` returns squares to the exact sum of squares — on both of its paths -/
theorem l2Norm_sq (sqrt : α → α) (hs : ∀ x, 0 ≤ x → sqrt x * sqrt x = x) (l : List (Delta α)) :
    l2Norm sqrt l * l2Norm sqrt l = sumSq l := by
  unfold l2Norm
  split
  · exact hs _ (sumSq_nonneg l)
  · split
    · rename_i h
      simp only [num_beq, num_zero, decide_eq_true_eq] at h
      simp [sumSq_eq_zero_of_maxAbs l h]
    · rename_i h
      simp only [num_beq, num_zero, decide_eq_true_eq] at h
      have hm : maxAbs l * maxAbs l ≠ 0 := mul_ne_zero h h
      have ht : 0 ≤ sumSqRel (maxAbs l) l := by
        rw [sumSqRel_eq]; exact div_nonneg (sumSq_nonneg l) (mul_self_nonneg _)
      have := hs _ ht
      simp only [num_mul]
      calc maxAbs l * sqrt (sumSqRel (maxAbs l) l) * (maxAbs l * sqrt (sumSqRel (maxAbs l) l))
          = maxAbs l * maxAbs l * (sqrt (sumSqRel (maxAbs l) l) * sqrt (sumSqRel (maxAbs l) l)) := by ring
        _ = maxAbs l * maxAbs l * (sumSq l / (maxAbs l * maxAbs l)) := by rw [this, sumSqRel_eq]
        _ = sumSq l := by field_simp

/-- `norm == 0.0` only when every delta is `0` (exact arithmetic) -/
theorem l2Norm_eq_zero_iff (sqrt : α → α) (hs : ∀ x, 0 ≤ x → sqrt x * sqrt x = x) (l : List (Delta α)) :
    l2Norm sqrt l = 0 ↔ ∀ d ∈ l, d.delta = 0 := by
  have hsq := l2Norm_sq sqrt hs l
  constructor
  · intro h
    rw [h] at hsq
    have hS : sumSq l = 0 := by simpa using hsq.symm
    clear hsq h
    induction l with
    | nil => simp
    | cons x l ih =>
      rw [sumSq_cons] at hS
      have h1 := mul_self_nonneg x.delta
      have h2 := sumSq_nonneg l
      have hx : x.delta * x.delta = 0 := by linarith
      have hl : sumSq l = 0 := by linarith
      intro d hd
      rcases List.mem_cons.1 hd with rfl | hd
      · exact mul_self_eq_zero.1 hx
      · exact ih hl d hd
  · intro h
    have hS : sumSq l = 0 := by
      clear hsq
      induction l with
      | nil => simp
      | cons x l ih => rw [sumSq_cons, h x (by simp), ih (fun d hd => h d (by simp [hd]))]; simp
    rw [hS] at hsq
    exact mul_self_eq_zero.1 hsq

theorem l2Keeps_iff (sqrt : α → α) (l : List (Delta α)) (cap : α) :
    l2Keeps sqrt l cap = true ↔ l = [] ∨ l2Norm sqrt l ≤ cap ∨ l2Norm sqrt l = 0 := by
  simp [l2Keeps, or_assoc]

/-- uniform scaling never increases a magnitude (the factor is in `(0, 1)`) -/
theorem abs_l2Scale (sqrt : α → α) (l : List (Delta α)) (cap : α) (hc : 0 < cap) :
    ∀ d ∈ l2Scale sqrt l cap, ∃ e ∈ l, strip e = strip d ∧ |d.delta| ≤ |e.delta| := by
  intro d hd
  unfold l2Scale at hd
  split at hd
  · exact ⟨d, hd, rfl, le_refl _⟩
  · rename_i hk
    rw [l2Keeps_iff] at hk
    push Not at hk
    obtain ⟨_, hlt, _⟩ := hk
    simp only [List.mem_map] at hd
    obtain ⟨e, he, rfl⟩ := hd
    refine ⟨e, he, rfl, ?_⟩
    have hn : 0 < l2Norm sqrt l := lt_trans hc hlt
    have h0 : 0 ≤ cap / l2Norm sqrt l := le_of_lt (div_pos hc hn)
    have h1 : cap / l2Norm sqrt l ≤ 1 := le_of_lt ((div_lt_one hn).2 hlt)
    simp only [scaleBy, num_mul, num_div, abs_mul, abs_of_nonneg h0]
    exact mul_le_of_le_one_right (abs_nonneg _) h1

/-- after `_l2_scale` the sum of squares is at most `cap²` -/
theorem sumSq_l2Scale_le (sqrt : α → α) (hs0 : ∀ x, 0 ≤ sqrt x) (hs : ∀ x, 0 ≤ x → sqrt x * sqrt x = x)
    (l : List (Delta α)) (cap : α) (hc : 0 < cap) : sumSq (l2Scale sqrt l cap) ≤ cap * cap := by
  have hS := l2Norm_sq sqrt hs l
  have hN := l2Norm_nonneg sqrt hs0 l
  unfold l2Scale
  split
  · rename_i hk
    rw [l2Keeps_iff] at hk
    rcases hk with rfl | h | h
    · simpa using mul_self_nonneg cap
    · rw [← hS]; exact mul_self_le_mul_self hN h
    · rw [← hS, h]; simpa using mul_self_nonneg cap
  · rename_i hk
    rw [l2Keeps_iff] at hk
    push Not at hk
    obtain ⟨_, hlt, hne⟩ := hk
    rw [sumSq_map_scaleBy]
    simp only [num_div]
    apply le_of_eq
    rw [← hS]
    field_simp

theorem foldl_add_delta (rest : List (Delta α)) : ∀ a : α,
    rest.foldl (fun s x => Num.add s x.delta) a = a + (rest.map (·.delta)).sum := by
  induction rest with
  | nil => intro a; simp
  | cons x rest ih =>
    intro a
    rw [List.foldl_cons, ih]
    simp only [num_add, List.map_cons, List.sum_cons]; ring

/-! ### the churn ranking `(-|Δ|, ckey)` -/

theorem rankLt_iff (a b : Delta α) : rankLt a b = true ↔
    (-|a.delta| < -|b.delta|) ∨ (-|a.delta| = -|b.delta| ∧ lexLt (ckey a) (ckey b) = true) := by
  unfold rankLt
  simp only [num_beq, num_neg, num_abs, num_lt, decide_eq_true_eq]
  split_ifs with h
  · simp [h]
  · simp [h]

theorem rankLe_iff (a b : Delta α) : rankLe a b = true ↔
    (-|a.delta| < -|b.delta|) ∨ (-|a.delta| = -|b.delta| ∧ lexLe (ckey a) (ckey b) = true) := by
  have h : rankLe a b = true ↔ ¬ (rankLt b a = true) := by simp [rankLe]
  rw [h, rankLt_iff]
  rcases lt_trichotomy (-|a.delta|) (-|b.delta|) with h1 | h1 | h1
  · simp [h1, not_lt.2 (le_of_lt h1), ne_of_gt h1]
  · simp only [h1, lt_self_iff_false, true_and, false_or, Bool.not_eq_true]
    exact not_lexLt_iff _ _
  · simp [h1, not_lt.2 (le_of_lt h1), ne_of_gt h1]

theorem rankLe_total (a b : Delta α) : rankLe a b = true ∨ rankLe b a = true := by
  rw [rankLe_iff, rankLe_iff]
  rcases lt_trichotomy (-|a.delta|) (-|b.delta|) with h1 | h1 | h1
  · exact Or.inl (Or.inl h1)
  · rcases lexLe_total (ckey a) (ckey b) with h | h
    · exact Or.inl (Or.inr ⟨h1, h⟩)
    · exact Or.inr (Or.inr ⟨h1.symm, h⟩)
  · exact Or.inr (Or.inl h1)

theorem rankLe_trans (a b c : Delta α) : rankLe a b = true → rankLe b c = true → rankLe a c = true := by
  rw [rankLe_iff, rankLe_iff, rankLe_iff]
  rintro (h1 | ⟨h1, h1'⟩) (h2 | ⟨h2, h2'⟩)
  · exact Or.inl (lt_trans h1 h2)
  · exact Or.inl (h2 ▸ h1)
  · exact Or.inl (h1 ▸ h2)
  · exact Or.inr ⟨h1.trans h2, lexLe_trans _ _ _ h1' h2'⟩

theorem rankLt_of_rankLe (a c : Delta α) (h : rankLe a c = true) (hk : ckey a ≠ ckey c) : rankLt a c = true := by
  rw [rankLe_iff] at h
  rw [rankLt_iff]
  rcases h with h | ⟨h, h'⟩
  · exact Or.inl h
  · exact Or.inr ⟨h, (lexLt_iff _ _).2 ⟨h', hk⟩⟩

/-- keep top-K: every kept delta ranks strictly before every candidate that was dropped -/
theorem churnCap_topk (l : List (Delta α)) (k : Int) {a c : Delta α} (ha : a ∈ churnCap l k) (hc : c ∈ l)
    (hnc : ckey c ∉ (churnCap l k).map ckey) : rankLt a c = true := by
  unfold churnCap at ha hnc
  by_cases hlen : (l.length : Int) ≤ k
  · rw [if_pos hlen] at hnc
    exact absurd (List.mem_map_of_mem hc) hnc
  · rw [if_neg hlen] at ha hnc
    have hsorted := isort_pairwise rankLe rankLe_total rankLe_trans l
    rw [← List.take_append_drop (sliceLen l.length k) (isort rankLe l), List.pairwise_append] at hsorted
    have hc' : c ∈ isort rankLe l := (mem_isort _).2 hc
    rw [← List.take_append_drop (sliceLen l.length k) (isort rankLe l), List.mem_append] at hc'
    rcases hc' with hc' | hc'
    · exact absurd (List.mem_map_of_mem hc') hnc
    · refine rankLt_of_rankLe a c (hsorted.2.2 a ha c hc') ?_
      intro hk
      exact hnc (hk ▸ List.mem_map_of_mem ha)

end OrderedField

/-! ### cooldown blocking -/

theorem mem_blockedFrom (p : Str → Bool) (ops : List Str) : ∀ i j,
    j ∈ blockedFrom p i ops ↔ ∃ n kind, j = i + n ∧ ops[n]? = some kind ∧ p kind = true := by
  induction ops with
  | nil => intro i j; simp [blockedFrom]
  | cons k ks ih =>
    intro i j
    have key : j ∈ blockedFrom p i (k :: ks) ↔ (p k = true ∧ j = i) ∨ j ∈ blockedFrom p (i + 1) ks := by
      simp only [blockedFrom]; split_ifs with h <;> simp [h]
    rw [key, ih]
    constructor
    · rintro (⟨hp, rfl⟩ | ⟨n, kind, rfl, hn, hp⟩)
      · exact ⟨0, k, by simp, by simp, hp⟩
      · exact ⟨n + 1, kind, by omega, by simpa using hn, hp⟩
    · rintro ⟨n, kind, rfl, hn, hp⟩
      cases n with
      | zero => left; simp at hn; subst hn; exact ⟨hp, rfl⟩
      | succ n => right; exact ⟨n, kind, by omega, by simpa using hn, hp⟩

theorem blockedFrom_sorted (p : Str → Bool) (ops : List Str) : ∀ i, (blockedFrom p i ops).Pairwise (· < ·) := by
  induction ops with
  | nil => intro i; simp [blockedFrom]
  | cons k ks ih =>
    intro i
    simp only [blockedFrom]
    split_ifs
    · rw [List.pairwise_cons]
      refine ⟨?_, ih _⟩
      intro j hj
      obtain ⟨n, _, rfl, _⟩ := (mem_blockedFrom p ks (i + 1) j).1 hj
      omega
    · exact ih _

theorem notBlocked_iff (b : List Nat) (d : Delta α) :
    notBlocked b d = true ↔ ∀ j, d.opIdx = some j → ∀ i ∈ b, (i : Int) ≠ j := by
  unfold notBlocked
  cases h : d.opIdx with
  | none => simp
  | some j => simp

theorem opBlocked_iff (cds : List (Str × Int)) (last : List (Str × Option Int)) (turn : Int) (kind : Str) :
    opBlocked cds last turn kind = true ↔
      kind ≠ [] ∧ ∃ cd, lookup kind cds = some cd ∧ cd ≠ 0 ∧ ∃ lt, lookup kind last = some (some lt) ∧ turn - lt < cd := by
  unfold opBlocked
  by_cases hk : kind = []
  · simp [hk]
  · simp only [List.isEmpty_iff, hk, if_false, ne_eq, not_false_eq_true, true_and]
    cases h1 : lookup kind cds with
    | none => simp
    | some cd =>
      by_cases hcd : cd = 0
      · simp [hcd]
      · simp only [beq_iff_eq, hcd, if_false, Option.some.injEq, exists_eq_left', not_false_eq_true, true_and]
        cases h2 : lookup kind last with
        | none => simp
        | some v =>
          cases v with
          | none => simp
          | some lt => simp

end Clem.T4
