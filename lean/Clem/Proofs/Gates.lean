import Clem.Model.Gates

namespace Clem.Gates
open Clem.Py

theorem forced_sound (f : Nat) (c : Cfg) (x : Ext) (hf : c f = 0) :
    ∀ e pol, forced f pol e = true → eval c x e = pol := by
  intro e
  induction e with
  | leaf i =>
    intro pol h
    cases pol <;> simp [forced] at h
    subst h; simp [eval, hf]
  | gt i n =>
    intro pol h
    cases pol <;> simp [forced] at h <;> obtain ⟨h1, h2⟩ := h <;> subst h1 <;> simp [eval, hf] <;> omega
  | ext j => intro pol h; cases pol <;> simp [forced] at h
  | tt => intro pol h; cases pol <;> simp [forced] at h; rfl
  | ff => intro pol h; cases pol <;> simp [forced] at h; rfl
  | not e ih =>
    intro pol h
    have := ih (!pol) (by simpa [forced] using h)
    cases pol <;> simp [eval, this]
  | and a b iha ihb =>
    intro pol h
    cases pol with
    | false =>
      simp [forced] at h
      rcases h with h | h
      · simp [eval, iha false h]
      · simp [eval, ihb false h]
    | true =>
      simp [forced] at h
      simp [eval, iha true h.1, ihb true h.2]
  | or a b iha ihb =>
    intro pol h
    cases pol with
    | false =>
      simp [forced] at h
      simp [eval, iha false h.1, ihb false h.2]
    | true =>
      simp [forced] at h
      rcases h with h | h
      · simp [eval, iha true h]
      · simp [eval, ihb true h]

theorem forcedOff_sound (f : Nat) (c : Cfg) (x : Ext) (hf : c f = 0) :
    ∀ e, forcedOff f e = true → eval c x e = false :=
  fun e h => forced_sound f c x hf e false h

theorem eval_congr_not_mentions (S : List Nat) (c c' : Cfg) (x : Ext) (hag : agreeOutside S c c') :
    ∀ e, mentions S e = false → eval c x e = eval c' x e := by
  intro e
  induction e with
  | leaf i => intro h; simp [mentions] at h; simp [eval, hag i (by simpa using h)]
  | gt i n => intro h; simp [mentions] at h; simp [eval, hag i (by simpa using h)]
  | ext j => intro _; rfl
  | tt => intro _; rfl
  | ff => intro _; rfl
  | not e ih => intro h; simp [mentions] at h; simp [eval, ih (by simpa using h)]
  | and a b iha ihb =>
    intro h; simp [mentions] at h
    simp [eval, iha (by simpa using h.1), ihb (by simpa using h.2)]
  | or a b iha ihb =>
    intro h; simp [mentions] at h
    simp [eval, iha (by simpa using h.1), ihb (by simpa using h.2)]

theorem stable_sound (f : Nat) (S : List Nat) (c c' : Cfg) (x : Ext)
    (hf : c f = 0) (hf' : c' f = 0) (hag : agreeOutside S c c') :
    ∀ e, stable f S e = true → eval c x e = eval c' x e := by
  intro e
  have base : ∀ e, (forcedOff f e || !(mentions S e)) = true → eval c x e = eval c' x e := by
    intro e h
    rcases Bool.or_eq_true _ _ |>.mp h with h | h
    · rw [forcedOff_sound f c x hf e h, forcedOff_sound f c' x hf' e h]
    · exact eval_congr_not_mentions S c c' x hag e (by simpa using h)
  induction e with
  | leaf i => intro h; exact base _ (by simpa [stable] using h)
  | gt i n => intro h; exact base _ (by simpa [stable] using h)
  | ext j => intro _; rfl
  | tt => intro _; rfl
  | ff => intro _; rfl
  | not e ih => intro h; simp [stable] at h; simp [eval, ih h]
  | and a b iha ihb =>
    intro h
    simp only [stable, Bool.or_eq_true, Bool.and_eq_true] at h
    rcases h with h | h
    · rw [forcedOff_sound f c x hf _ h, forcedOff_sound f c' x hf' _ h]
    · simp [eval, iha h.1, ihb h.2]
  | or a b iha ihb =>
    intro h
    simp only [stable, Bool.and_eq_true] at h
    simp [eval, iha h.1, ihb h.2]

theorem map_congr_outside (S : List Nat) (c c' : Cfg) (hag : agreeOutside S c c') :
    ∀ rs : List Nat, rs.all (fun r => !(S.contains r)) = true → rs.map c = rs.map c' := by
  intro rs
  induction rs with
  | nil => intro _; rfl
  | cons r rs ih =>
    intro h
    simp only [List.all_cons, Bool.and_eq_true] at h
    simp only [List.map_cons]
    rw [hag r (by simpa using h.1), ih h.2]

theorem stepSite_inert {σ : Type} (W : World σ) (f : Nat) (S : List Nat) (c c' : Cfg)
    (hf : c f = 0) (hf' : c' f = 0) (hag : agreeOutside S c c') (s : Site)
    (hok : siteOK f S s = true) (st : σ × List Nat) :
    stepSite W c st s = stepSite W c' st s := by
  simp only [siteOK, Bool.and_eq_true, Bool.or_eq_true] at hok
  obtain ⟨hst, hrd⟩ := hok
  have hg := stable_sound f S c c' (W.ext st.1) hf hf' hag s.guard hst
  unfold stepSite
  rw [← hg]
  by_cases hev : eval c (W.ext st.1) s.guard = true
  · simp only [hev, if_true]
    rcases hrd with hfo | hrd
    · rw [forcedOff_sound f c (W.ext st.1) hf s.guard hfo] at hev; cases hev
    · rw [map_congr_outside S c c' hag s.reads hrd]
  · simp [hev]

theorem runSites_inert {σ : Type} (W : World σ) (f : Nat) (S : List Nat) (c c' : Cfg)
    (hf : c f = 0) (hf' : c' f = 0) (hag : agreeOutside S c c') :
    ∀ (tbl : List Site), tableOK f S tbl = true → ∀ st : σ × List Nat,
      runSites W c tbl st = runSites W c' tbl st := by
  intro tbl
  induction tbl with
  | nil => intro _ _; rfl
  | cons s tbl ih =>
    intro h st
    simp only [tableOK, List.all_cons, Bool.and_eq_true] at h
    simp only [runSites, List.foldl_cons]
    rw [stepSite_inert W f S c c' hf hf' hag s h.1 st]
    exact ih (by simpa [tableOK] using h.2) _

theorem runTurns_inert {σ ι : Type} (W : World σ) (feed : ι → σ → σ) (f : Nat) (S : List Nat) (c c' : Cfg)
    (hf : c f = 0) (hf' : c' f = 0) (hag : agreeOutside S c c') (tbl : List Site)
    (hok : tableOK f S tbl = true) :
    ∀ (inputs : List ι) (st : σ × List Nat),
      runTurns W feed c tbl inputs st = runTurns W feed c' tbl inputs st := by
  intro inputs
  induction inputs with
  | nil => intro _; rfl
  | cons i is ih =>
    intro st
    simp only [runTurns, List.foldl_cons]
    rw [runSites_inert W f S c c' hf hf' hag tbl hok]
    exact ih _

/-- Artefacts: a step keeps "no artefact of the gate emitted so far". -/
theorem stepSite_noart {σ : Type} (W : World σ) (f : Nat) (arts : List Nat) (c : Cfg) (hf : c f = 0)
    (s : Site) (hok : artOK f arts s = true) (st : σ × List Nat)
    (h : noArtifactB arts st.2 = true) : noArtifactB arts (stepSite W c st s).2 = true := by
  unfold stepSite
  by_cases hev : eval c (W.ext st.1) s.guard = true
  · simp only [hev, if_true]
    simp only [artOK, Bool.or_eq_true] at hok
    rcases hok with hfo | hem
    · rw [forcedOff_sound f c (W.ext st.1) hf s.guard hfo] at hev; cases hev
    · simp only [noArtifactB, List.all_append, Bool.and_eq_true] at h ⊢
      exact ⟨h, hem⟩
  · simpa [hev] using h

theorem runSites_noart {σ : Type} (W : World σ) (f : Nat) (arts : List Nat) (c : Cfg) (hf : c f = 0) :
    ∀ (tbl : List Site), artTableOK f arts tbl = true → ∀ st : σ × List Nat,
      noArtifactB arts st.2 = true → noArtifactB arts (runSites W c tbl st).2 = true := by
  intro tbl
  induction tbl with
  | nil => intro _ st h; simpa [runSites] using h
  | cons s tbl ih =>
    intro h st hst
    simp only [artTableOK, List.all_cons, Bool.and_eq_true] at h
    simp only [runSites, List.foldl_cons]
    exact ih (by simpa [artTableOK] using h.2) _ (stepSite_noart W f arts c hf s h.1 st hst)

theorem runTurns_noart {σ ι : Type} (W : World σ) (feed : ι → σ → σ) (f : Nat) (arts : List Nat) (c : Cfg)
    (hf : c f = 0) (tbl : List Site) (hok : artTableOK f arts tbl = true) :
    ∀ (inputs : List ι) (st : σ × List Nat),
      noArtifactB arts st.2 = true → noArtifactB arts (runTurns W feed c tbl inputs st).2 = true := by
  intro inputs
  induction inputs with
  | nil => intro st h; simpa [runTurns] using h
  | cons i is ih =>
    intro st h
    simp only [runTurns, List.foldl_cons]
    exact ih _ (runSites_noart W f arts c hf tbl hok (feed i st.1, st.2) h)

/-- Three-valued evaluation is sound for every completion of the unknown atoms. -/
theorem eval3_sound (c : Cfg) (x3 : Nat → Option Bool) (x : Ext)
    (href : ∀ j b, x3 j = some b → x j = b) :
    ∀ e b, eval3 c x3 e = some b → eval c x e = b := by
  intro e
  induction e with
  | leaf i => intro b h; simp [eval3] at h; simp [eval, h]
  | gt i n => intro b h; simp [eval3] at h; simp [eval, h]
  | ext j => intro b h; exact href j b h
  | tt => intro b h; simp [eval3] at h; simp [eval, h]
  | ff => intro b h; simp [eval3] at h; simp [eval, h]
  | not e ih =>
    intro b h
    simp only [eval3, Option.map_eq_some_iff] at h
    obtain ⟨b', hb', rfl⟩ := h
    simp [eval, ih b' hb']
  | and a b iha ihb =>
    intro r h
    simp only [eval3] at h
    cases ha : eval3 c x3 a with
    | none =>
      cases hb : eval3 c x3 b with
      | none => simp [ha, hb] at h
      | some vb =>
        cases vb with
        | false => simp [ha, hb] at h; subst h; simp [eval, ihb false hb]
        | true => simp [ha, hb] at h
    | some va =>
      cases va with
      | false => simp [ha] at h; subst h; simp [eval, iha false ha]
      | true =>
        cases hb : eval3 c x3 b with
        | none => simp [ha, hb] at h
        | some vb =>
          cases vb with
          | false => simp [ha, hb] at h; subst h; simp [eval, ihb false hb]
          | true => simp [ha, hb] at h; subst h; simp [eval, iha true ha, ihb true hb]
  | or a b iha ihb =>
    intro r h
    simp only [eval3] at h
    cases ha : eval3 c x3 a with
    | none =>
      cases hb : eval3 c x3 b with
      | none => simp [ha, hb] at h
      | some vb =>
        cases vb with
        | true => simp [ha, hb] at h; subst h; simp [eval, ihb true hb]
        | false => simp [ha, hb] at h
    | some va =>
      cases va with
      | true => simp [ha] at h; subst h; simp [eval, iha true ha]
      | false =>
        cases hb : eval3 c x3 b with
        | none => simp [ha, hb] at h
        | some vb =>
          cases vb with
          | true => simp [ha, hb] at h; subst h; simp [eval, ihb true hb]
          | false => simp [ha, hb] at h; subst h; simp [eval, iha false ha, ihb false hb]

end Clem.Gates
