/-
Helper lemmas about the `Turn` skeleton (fail-soft reasoning).  Core Lean only.
-/
import Clem.Model.Turn

namespace Clem.Turn

variable {α : Type}

theorem tryD_idleE {S g : Site → Bool} (hS : ∀ s, S s = true → g s = true) (s : Site) (d : α)
    (r : Except Exc α) : tryD g s d (idleE S s d r) = tryD g s d r := by
  cases r with
  | ok a => rfl
  | error x =>
    unfold idleE tryD
    cases hs : S s with
    | false => simp
    | true => simp [hS s hs]

theorem tryD_ok_of {g : Site → Bool} {s : Site} {d : α} {r : Except Exc α}
    (h : ∀ x, r = .error x → g s = true) : ∃ a, tryD g s d r = .ok a := by
  cases r with
  | ok a => exact ⟨a, rfl⟩
  | error x => exact ⟨d, by simp [tryD, h x rfl]⟩

theorem applyEach_idle {S g : Site → Bool} (hS : ∀ s, S s = true → g s = true)
    (one : Nat → Except Exc (Int × Int)) (ds : List Nat) :
    applyEach g (fun d => idleE S .storeOne (0, 0) (one d)) ds = applyEach g one ds := by
  induction ds with
  | nil => rfl
  | cons d ds ih => simp only [applyEach, tryD_idleE hS, ih]

theorem applyEach_ok {g : Site → Bool} {one : Nat → Except Exc (Int × Int)}
    (h : ∀ d x, one d = .error x → g .storeOne = true) (ds : List Nat) :
    ∃ r, applyEach g one ds = .ok r := by
  induction ds with
  | nil => exact ⟨_, rfl⟩
  | cons d ds ih =>
    obtain ⟨⟨a, cl⟩, h1⟩ := tryD_ok_of (g := g) (s := .storeOne) (d := ((0 : Int), (0 : Int))) (h d)
    obtain ⟨⟨a', cl', cs⟩, h2⟩ := ih
    exact ⟨(a + a', cl + cl', Site.storeOne :: cs), by simp only [applyEach, h1, h2]⟩

/-! ### the idle run is the same run -/

theorem speakPart_idle {S g : Site → Bool} (hS : ∀ s, S s = true → g s = true) (c : Cfg) (e : Env) (st : St)
    (p : Plan) : speakPart g c (idle S e) st p = speakPart g c e st p := by
  simp only [speakPart, idle, tryD_idleE hS]

theorem snapPart_idle {S g : Site → Bool} (hS : ∀ s, S s = true → g s = true) (c : Cfg) (e : Env) :
    snapPart g c (idle S e) = snapPart g c e := by
  simp only [snapPart, idle, tryD_idleE hS]

theorem reflPart_idle {S g : Site → Bool} (hS : ∀ s, S s = true → g s = true) (c : Cfg) (e : Env) (k : Core) :
    reflPart g c (idle S e) k = reflPart g c e k := by
  simp only [reflPart, idle, tryD_idleE hS]

theorem yieldCheck_idle (S : Site → Bool) (c : Cfg) (e : Env) (p : YPoint) (k : Core) (l : Line)
    (logs : List Rec) (calls : List Site) :
    yieldCheck c (idle S e) p k l logs calls = yieldCheck c e p k l logs calls := rfl

theorem applyFinish_idle {S g : Site → Bool} (hS : ∀ s, S s = true → g s = true) (c : Cfg) (e : Env) (k : Core)
    (a cl : Int) (inv : Nat) (st : St) (cs : List Site) :
    applyFinish g c (idle S e) k a cl inv st cs = applyFinish g c e k a cl inv st cs := by
  simp only [applyFinish, snapPart_idle hS, yieldCheck_idle]

theorem applyAfterStore_idle {S g : Site → Bool} (hS : ∀ s, S s = true → g s = true) (c : Cfg) (e : Env)
    (k : Core) (a cl : Int) (cs : List Site) :
    applyAfterStore g c (idle S e) k a cl cs = applyAfterStore g c e k a cl cs := by
  simp only [applyAfterStore, applyFinish_idle hS]
  rfl

theorem phases_idle {S g : Site → Bool} (hS : ∀ s, S s = true → g s = true) (c : Cfg) (e : Env) :
    phases g c (idle S e) = phases g c e := by
  have h1 : phBoot g (idle S e) = phBoot g e := by
    funext k; simp only [phBoot, idle, tryD_idleE hS]
  have h3 : phT1 c (idle S e) = phT1 c e := rfl
  have h4 : phT2 c (idle S e) = phT2 c e := rfl
  have h5 : phGelObserve g c (idle S e) = phGelObserve g c e := rfl
  have h6 : phT3 g c (idle S e) = phT3 g c e := by
    funext k
    simp only [phT3, speakPart_idle hS, yieldCheck_idle]
    simp only [idle, tryD_idleE hS]
  have h7 : phT4 c (idle S e) = phT4 c e := rfl
  have h8 : phGelTick g c (idle S e) = phGelTick g c e := rfl
  have h9 : phGelBlock g c (idle S e) = phGelBlock g c e := rfl
  have h10 : phApply g c (idle S e) = phApply g c e := by
    funext k
    simp only [phApply, applyFinish_idle hS, applyAfterStore_idle hS]
    simp only [idle, applyEach_idle hS]
  have h11 : phReflect g c (idle S e) = phReflect g c e := by
    funext k
    simp only [phReflect, reflPart_idle hS]
    simp only [idle, tryD_idleE hS]
  have h12 : phFinish g c (idle S e) = phFinish g c e := by
    funext k; simp only [phFinish, idle, tryD_idleE hS]
  simp only [phases, h1, h3, h4, h5, h6, h7, h8, h9, h10, h11, h12]

/-! ### completion -/

/-- every failure the script contains happens at a site that `g` protects -/
structure FailsOnlyAt (g : Site → Bool) (e : Env) : Prop where
  bootLoad : ∀ x, e.bootLoad = .error x → g .bootLoad = true
  t1 : ∀ st x, e.t1 st ≠ .error x
  t2 : ∀ st x, e.t2 st ≠ .error x
  gelObserve : ∀ x, e.gelObserve = .error x → g .gelObserve = true
  deliberate : ∀ st x, e.deliberate st ≠ .error x
  rag : ∀ st p x, e.rag st p ≠ .error x
  t3Trace : ∀ x, e.t3Trace = .error x → g .t3Trace = true
  adapterBuild : ∀ x, e.adapterBuild = .error x → g .adapterBuild = true
  speak : ∀ b p x, e.speak b p ≠ .error x
  dialogue : ∀ p x, e.dialogue p ≠ .error x
  t4 : ∀ st p u x, e.t4 st p u ≠ .error x
  gelTick : ∀ x, e.gelTick = .error x → g .gelTick = true
  mergeCand : ∀ x, e.mergeCand = .error x → g .gelMergeCand = true
  applyMerge : ∀ i x, e.applyMerge i = .error x → g .gelApplyMerge = true
  splitCand : ∀ x, e.splitCand = .error x → g .gelSplitCand = true
  applySplit : ∀ i x, e.applySplit i = .error x → g .gelApplySplit = true
  promote : ∀ x, e.promote = .error x → g .gelPromote = true
  applyPromo : ∀ i x, e.applyPromo i = .error x → g .gelApplyPromo = true
  storeBatch : ∀ ds x, e.storeBatch ds = .error x → g .storeBatch = true
  storeOne : ∀ d x, e.storeOne d = .error x → g .storeOne = true
  invalidate : ∀ i x, e.invalidate i = .error x → g .cacheInvalidate = true
  snapBody : ∀ x, e.snapBody = .error x → g .snapshotBody = true
  sidecar : ∀ x, e.sidecar = .error x → g .sidecarWrite = true
  reflectRun : ∀ x, e.reflectRun = some x → g .reflectRun = true
  reflect : ∀ x, e.reflect = .error x → g .reflectCompute = true
  reflectWrite : ∀ x, e.reflectWrite = .error x → g .reflectWrite = true
  reflectLog : ∀ x, e.reflectLog = .error x → g .reflectLog = true
  health : ∀ x, e.health = .error x → g .health = true

theorem ok_of_ne {r : Except Exc α} (h : ∀ x, r ≠ .error x) : ∃ a, r = .ok a := by
  cases r with
  | ok a => exact ⟨a, rfl⟩
  | error x => exact absurd rfl (h x)

theorem yieldCheck_ok (c : Cfg) (e : Env) (p : YPoint) (k : Core) (l : Line) (logs : List Rec)
    (calls : List Site) : ∃ em, yieldCheck c e p k l logs calls = .ok em := by
  unfold yieldCheck cont
  split
  · split <;> exact ⟨_, rfl⟩
  · exact ⟨_, rfl⟩

theorem chain_ok (fs : List Phase) (h : ∀ f ∈ fs, ∀ k, ∃ em, f k = .ok em) (k : Core) :
    ∃ em, chain fs k = .ok em := by
  induction fs generalizing k with
  | nil => exact ⟨_, rfl⟩
  | cons f fs ih =>
    obtain ⟨e1, h1⟩ := h f (List.mem_cons_self) k
    simp only [chain, h1]
    cases hd : e1.done with
    | some l => exact ⟨_, rfl⟩
    | none =>
      obtain ⟨e2, h2⟩ := ih (fun f' hf' => h f' (List.mem_cons_of_mem _ hf')) e1.core
      simp only [h2]
      exact ⟨_, rfl⟩

theorem applyLoop_fail (s : Site) (f : Nat → Except Exc Unit) (n i : Nat) (cs : List Site) (cs' : List Site)
    (s' : Site) (x : Exc) (h : applyLoop s f n i cs = (cs', some (s', x))) : s' = s ∧ ∃ j, f j = .error x := by
  induction n generalizing i cs with
  | zero => simp [applyLoop] at h
  | succ n ih =>
    unfold applyLoop at h
    cases hf : f i with
    | ok u => rw [hf] at h; exact ih _ _ h
    | error y =>
      rw [hf] at h
      simp only [Prod.mk.injEq, Option.some.injEq] at h
      obtain ⟨_, h2, h3⟩ := h
      exact ⟨h2.symm, i, by rw [hf, h3]⟩


section ok
variable {g : Site → Bool} {e : Env}

theorem phBoot_ok (h : FailsOnlyAt g e) (k : Core) : ∃ em, phBoot g e k = .ok em := by
  unfold phBoot cont
  split
  · exact ⟨_, rfl⟩
  · obtain ⟨a, ha⟩ := tryD_ok_of (g := g) (s := .bootLoad) (d := (none : Option Ver)) h.bootLoad
    simp only [ha]; exact ⟨_, rfl⟩

theorem phCacheInit_ok (c : Cfg) (k : Core) : ∃ em, phCacheInit c k = .ok em := by
  unfold phCacheInit cont
  split <;> exact ⟨_, rfl⟩

theorem phT1_ok (h : FailsOnlyAt g e) (c : Cfg) (k : Core) : ∃ em, phT1 c e k = .ok em := by
  obtain ⟨o, ho⟩ := ok_of_ne (h.t1 k.st)
  simp only [phT1, ho]
  exact yieldCheck_ok ..

theorem phT2_ok (h : FailsOnlyAt g e) (c : Cfg) (k : Core) : ∃ em, phT2 c e k = .ok em := by
  obtain ⟨o, ho⟩ := ok_of_ne (h.t2 k.st)
  unfold phT2
  simp only [ho]
  split
  · split <;> exact yieldCheck_ok ..
  · exact yieldCheck_ok ..

theorem phGelObserve_ok (h : FailsOnlyAt g e) (c : Cfg) (k : Core) : ∃ em, phGelObserve g c e k = .ok em := by
  unfold phGelObserve cont
  split
  · cases ho : e.gelObserve with
    | ok m => exact ⟨_, rfl⟩
    | error x => simp only [h.gelObserve x ho, if_true]; exact ⟨_, rfl⟩
  · exact ⟨_, rfl⟩

theorem speakPart_ok (h : FailsOnlyAt g e) (c : Cfg) (st : St) (p : Plan) :
    ∃ r, speakPart g c e st p = .ok r := by
  obtain ⟨u1, h1⟩ := ok_of_ne (h.dialogue p)
  obtain ⟨u2, h2⟩ := ok_of_ne (h.speak true p)
  obtain ⟨u3, h3⟩ := ok_of_ne (h.speak false p)
  obtain ⟨a, ha⟩ := tryD_ok_of (g := g) (s := .adapterBuild) (d := false) h.adapterBuild
  unfold speakPart
  simp only [h1, h2, h3, ha]
  split
  · exact ⟨_, rfl⟩
  · split
    · split
      · exact ⟨_, rfl⟩
      · cases a <;> exact ⟨_, rfl⟩
    · exact ⟨_, rfl⟩

theorem phT3_ok (h : FailsOnlyAt g e) (c : Cfg) (k : Core) : ∃ em, phT3 g c e k = .ok em := by
  unfold phT3
  split
  · obtain ⟨p0, hp0⟩ := ok_of_ne (h.deliberate k.st)
    simp only [hp0]
    obtain ⟨y, hy⟩ := yieldCheck_ok c e .T3 { k with plan := p0 } .empty [] [.deliberate]
    simp only [hy]
    cases hd : y.done with
    | some l => exact ⟨_, rfl⟩
    | none =>
      simp only []
      obtain ⟨p1, hp1⟩ : ∃ p1, (if (p0.wantsRetrieve && c.ragAllowed) = true then e.rag k.st p0 else .ok p0) = .ok p1 := by
        split
        · exact ok_of_ne (h.rag k.st p0)
        · exact ⟨_, rfl⟩
      simp only [hp1]
      obtain ⟨a, ha⟩ := tryD_ok_of (g := g) (s := .t3Trace) (d := ()) h.t3Trace
      simp only [ha]
      obtain ⟨⟨u, llm, fb, ad, cs⟩, hs⟩ := speakPart_ok h c k.st p1
      simp only [hs]
      exact ⟨_, rfl⟩
  · exact ⟨_, rfl⟩

theorem phT4_ok (h : FailsOnlyAt g e) (c : Cfg) (k : Core) : ∃ em, phT4 c e k = .ok em := by
  unfold phT4
  split
  · obtain ⟨o, ho⟩ := ok_of_ne (h.t4 k.st k.plan k.utter)
    simp only [ho]
    split
    · exact ⟨_, rfl⟩
    · exact yieldCheck_ok ..
  · exact ⟨_, rfl⟩

theorem phGelTick_ok (h : FailsOnlyAt g e) (c : Cfg) (k : Core) : ∃ em, phGelTick g c e k = .ok em := by
  unfold phGelTick cont
  split
  · cases ho : e.gelTick with
    | ok m => exact ⟨_, rfl⟩
    | error x => simp only [h.gelTick x ho, if_true]; exact ⟨_, rfl⟩
  · exact ⟨_, rfl⟩

theorem snapPart_ok (h : FailsOnlyAt g e) (c : Cfg) : ∃ r, snapPart g c e = .ok r := by
  obtain ⟨a, ha⟩ := tryD_ok_of (g := g) (s := .snapshotBody) (d := ()) h.snapBody
  obtain ⟨b, hb⟩ := tryD_ok_of (g := g) (s := .sidecarWrite) (d := ()) h.sidecar
  unfold snapPart
  simp only [ha, hb]
  split <;> exact ⟨_, rfl⟩

theorem applyFinish_ok (h : FailsOnlyAt g e) (c : Cfg) (k : Core) (a cl : Int) (inv : Nat) (st : St)
    (cs : List Site) : ∃ em, applyFinish g c e k a cl inv st cs = .ok em := by
  obtain ⟨⟨sn, cs'⟩, hs⟩ := snapPart_ok h c
  simp only [applyFinish, hs]
  exact yieldCheck_ok ..

theorem invalidateLoop_fail (inv : Nat → Except Exc Unit) (size n i acc : Nat) (cs : List Site)
    (r : Nat × List Site) (x : Exc) (hl : invalidateLoop inv size n i acc cs = (r.1, r.2, some x)) :
    ∃ j, inv j = .error x := by
  induction n generalizing i acc cs with
  | zero => simp [invalidateLoop] at hl
  | succ n ih =>
    unfold invalidateLoop at hl
    cases hf : inv i with
    | ok u => rw [hf] at hl; exact ih _ _ _ hl
    | error y =>
      rw [hf] at hl
      simp only [Prod.mk.injEq, Option.some.injEq] at hl
      exact ⟨i, by rw [hf, hl.2.2]⟩

theorem applyAfterStore_ok (h : FailsOnlyAt g e) (c : Cfg) (k : Core) (a cl : Int) (cs : List Site) :
    ∃ em, applyAfterStore g c e k a cl cs = .ok em := by
  unfold applyAfterStore
  split
  · split
    · exact applyFinish_ok h ..
    · rename_i inv cs' x hl
      obtain ⟨j, hj⟩ := invalidateLoop_fail e.invalidate _ _ _ _ _ (inv, cs') x hl
      simp only [h.invalidate j x hj, if_true]
      exact applyFinish_ok h ..
  · exact applyFinish_ok h ..

theorem phApply_ok (h : FailsOnlyAt g e) (c : Cfg) (k : Core) : ∃ em, phApply g c e k = .ok em := by
  unfold phApply
  split
  · split
    · exact applyFinish_ok h ..
    · exact applyFinish_ok h ..
    · split
      · exact applyAfterStore_ok h ..
      · rename_i x hx
        simp only [h.storeBatch _ x hx, if_true]
        obtain ⟨⟨a, cl, cs⟩, he⟩ := applyEach_ok (g := g) h.storeOne k.t4.approved
        simp only [he]
        exact applyAfterStore_ok h ..
  · exact ⟨_, rfl⟩

theorem reflPart_ok (h : FailsOnlyAt g e) (c : Cfg) (k : Core) : ∃ r, reflPart g c e k = .ok r := by
  unfold reflPart
  split
  · rename_i x hx
    simp only [h.reflectRun x hx, if_true]; exact ⟨_, rfl⟩
  · split
    · exact ⟨_, rfl⟩
    · split
      · obtain ⟨a, ha⟩ := tryD_ok_of (g := g) (s := .reflectCompute) (d := (⟨0, 0⟩ : ReflOut)) h.reflect
        simp only [ha]; exact ⟨_, rfl⟩
      · exact ⟨_, rfl⟩

theorem phReflect_ok (h : FailsOnlyAt g e) (c : Cfg) (k : Core) : ∃ em, phReflect g c e k = .ok em := by
  obtain ⟨⟨res, cs⟩, hr⟩ := reflPart_ok h c k
  simp only [phReflect, hr]
  cases res with
  | none => exact ⟨_, rfl⟩
  | some r =>
    simp only []
    obtain ⟨w, hw⟩ : ∃ w, (if 0 < r.entries then tryD g .reflectWrite 0 e.reflectWrite else .ok 0) = .ok w := by
      split
      · exact tryD_ok_of h.reflectWrite
      · exact ⟨_, rfl⟩
    simp only [hw]
    obtain ⟨a, ha⟩ := tryD_ok_of (g := g) (s := .reflectLog) (d := ()) h.reflectLog
    simp only [ha]
    exact ⟨_, rfl⟩

theorem phFinish_ok (h : FailsOnlyAt g e) (c : Cfg) (k : Core) : ∃ em, phFinish g c e k = .ok em := by
  obtain ⟨a, ha⟩ := tryD_ok_of (g := g) (s := .health) (d := ()) h.health
  simp only [phFinish, ha]
  exact ⟨_, rfl⟩

theorem gelPass_fail (on : Bool) (sc sa : Site) (cand : Except Exc Nat) (app : Nat → Except Exc Unit) (cap : Nat)
    (cs : List Site) (s : Site) (x : Exc) (hp : (gelPass on sc sa cand app cap cs).2.1 = some (s, x)) :
    (s = sc ∧ cand = .error x) ∨ (s = sa ∧ ∃ j, app j = .error x) := by
  unfold gelPass at hp
  split at hp
  · split at hp
    · simp only [Option.some.injEq, Prod.mk.injEq] at hp
      exact Or.inl ⟨hp.1.symm, by rw [hp.2]⟩
    · split at hp
      · rename_i cs' f hl
        simp only [Option.some.injEq] at hp
        subst hp
        exact Or.inr (applyLoop_fail _ _ _ _ _ _ _ _ hl)
      · cases hp
  · cases hp

theorem gelBody_fail (h : FailsOnlyAt g e) (c : Cfg) (cs : List Site) (s : Site) (x : Exc) (r : Option Rec)
    (hb : gelBody c e = (cs, some (s, x), r)) : g s = true := by
  unfold gelBody at hb
  split at hb
  · simp only [] at hb
    split at hb
    · rename_i f hf
      simp only [Prod.mk.injEq, Option.some.injEq] at hb
      obtain ⟨_, hff, _⟩ := hb
      subst hff
      rcases gelPass_fail _ _ _ _ _ _ _ _ _ hf with ⟨hs, hc⟩ | ⟨hs, j, hj⟩
      · subst hs; exact h.mergeCand _ hc
      · subst hs; exact h.applyMerge _ _ hj
    · split at hb
      · rename_i f hf
        simp only [Prod.mk.injEq, Option.some.injEq] at hb
        obtain ⟨_, hff, _⟩ := hb
        subst hff
        rcases gelPass_fail _ _ _ _ _ _ _ _ _ hf with ⟨hs, hc⟩ | ⟨hs, j, hj⟩
        · subst hs; exact h.splitCand _ hc
        · subst hs; exact h.applySplit _ _ hj
      · split at hb
        · rename_i f hf
          simp only [Prod.mk.injEq, Option.some.injEq] at hb
          obtain ⟨_, hff, _⟩ := hb
          subst hff
          rcases gelPass_fail _ _ _ _ _ _ _ _ _ hf with ⟨hs, hc⟩ | ⟨hs, j, hj⟩
          · subst hs; exact h.promote _ hc
          · subst hs; exact h.applyPromo _ _ hj
        · simp at hb
  · simp at hb

theorem gelBody_rec (c : Cfg) (e : Env) (cs : List Site) (r : Rec) (hb : gelBody c e = (cs, none, some r)) :
    r.stream = .gel := by
  unfold gelBody at hb
  split at hb
  · simp only [] at hb
    split at hb
    · simp at hb
    · split at hb
      · simp at hb
      · split at hb
        · simp at hb
        · simp only [Prod.mk.injEq, Option.some.injEq, true_and] at hb
          rw [← hb.2]
  · simp at hb

theorem phGelBlock_ok (h : FailsOnlyAt g e) (c : Cfg) (k : Core) : ∃ em, phGelBlock g c e k = .ok em := by
  unfold phGelBlock
  split
  · split
    · rename_i cs s x r hb
      simp only [gelBody_fail h c cs s x r hb, if_true]
      exact ⟨_, rfl⟩
    · exact ⟨_, rfl⟩
    · exact ⟨_, rfl⟩
  · exact ⟨_, rfl⟩

/-- whenever the GEL maintenance phase completes it changes neither the working set nor the canonical log,
and never ends the turn -/
theorem phGelBlock_inert (g : Site → Bool) (c : Cfg) (e : Env) (k : Core) (em : Emit)
    (h : phGelBlock g c e k = .ok em) : em.core = k ∧ canonLogs em.logs = [] ∧ em.done = none := by
  unfold phGelBlock at h
  split at h
  · split at h
    · split at h
      · simp only [cont, Except.ok.injEq] at h; subst h; exact ⟨rfl, rfl, rfl⟩
      · cases h
    · rename_i cs r hb
      simp only [cont, Except.ok.injEq] at h; subst h
      refine ⟨rfl, ?_, rfl⟩
      simp only [canonLogs, List.filter, gelBody_rec c e cs r hb, Stream.canonical]
    · simp only [cont, Except.ok.injEq] at h; subst h; exact ⟨rfl, rfl, rfl⟩
  · simp only [cont, Except.ok.injEq] at h; subst h; exact ⟨rfl, rfl, rfl⟩

end ok

end Clem.Turn
