import Clem.Model.Atomic

/-!
Helper lemmas for C08: the abstract directory, and the invariant `G` that every phase of the
`atomic_write_bytes` program preserves for *every* fault script.
-/
namespace Clem.Atomic

/-! ### directory lemmas -/

@[simp] theorem getF_delF_eq (d : Dir) (n : Name) : getF (delF d n) n = none := by
  induction d with
  | nil => rfl
  | cons h t ih =>
    obtain ⟨k, v⟩ := h
    by_cases hk : k = n <;> simp [delF, getF, hk, ih]

theorem getF_delF_ne (d : Dir) {n m : Name} (h : m ≠ n) : getF (delF d n) m = getF d m := by
  induction d with
  | nil => rfl
  | cons hd t ih =>
    obtain ⟨k, v⟩ := hd
    by_cases hk : k = n
    · subst hk
      have : k ≠ m := fun e => h e.symm
      simp [delF, getF, this, ih]
    · by_cases hm : k = m
      · subst hm; simp [delF, getF, hk]
      · simp [delF, getF, hk, hm, ih]

@[simp] theorem getF_setF_eq (d : Dir) (n : Name) (c : Bytes) : getF (setF d n c) n = some c := by
  simp [setF, getF]

theorem getF_setF_ne (d : Dir) {n m : Name} (c : Bytes) (h : m ≠ n) :
    getF (setF d n c) m = getF d m := by
  have : n ≠ m := fun e => h e.symm
  simp [setF, getF, this, getF_delF_ne d h]

@[simp] theorem getF_appendF_eq (d : Dir) (n : Name) (c : Bytes) :
    getF (appendF d n c) n = some ((getF d n).getD [] ++ c) := by
  simp [appendF]

theorem getF_appendF_ne (d : Dir) {n m : Name} (c : Bytes) (h : m ≠ n) :
    getF (appendF d n c) m = getF d m := by
  simp [appendF, getF_setF_ne d _ h]

theorem getF_renameF_dst (d : Dir) {src dst : Name} {c : Bytes} (h : getF d src = some c) :
    getF (renameF d src dst) dst = some c := by
  simp [renameF, h]

theorem getF_renameF_src (d : Dir) {src dst : Name} {c : Bytes} (h : getF d src = some c)
    (hne : src ≠ dst) : getF (renameF d src dst) src = none := by
  simp [renameF, h, getF_setF_ne _ _ hne]

theorem getF_renameF_other (d : Dir) {src dst m : Name} (h1 : m ≠ src) (h2 : m ≠ dst) :
    getF (renameF d src dst) m = getF d m := by
  unfold renameF
  split
  · rw [getF_setF_ne _ _ h2, getF_delF_ne _ h1]
  · rfl

theorem tmpName_ne (dest r : Name) : tmpName dest r ≠ dest := by
  intro h
  have := congrArg List.length h
  simp [tmpName] at this

/-! ### structure of results -/

@[simp] theorem pre_status (fs s o r) : (pre fs s o r).status = r.status := rfl
@[simp] theorem pre_fs (fs s o r) : (pre fs s o r).fs = r.fs := rfl
@[simp] theorem pre_hist (fs s o r) : (pre fs s o r).hist = fs :: r.hist := rfl
@[simp] theorem pre_trace (fs s o r) : (pre fs s o r).trace = (s, o) :: r.trace := rfl
@[simp] theorem fin_status (st fs) : (fin st fs).status = st := rfl
@[simp] theorem fin_fs (st fs) : (fin st fs).fs = fs := rfl
@[simp] theorem fin_hist (st fs) : (fin st fs).hist = [] := rfl
@[simp] theorem fin_trace (st fs) : (fin st fs).trace = [] := rfl

/-- case analysis principle for `step`. -/
theorem step_cases {P : Res → Prop} (fs : Dir) (s : Step) (σ : List Outcome)
    (kOk : List Outcome → Res) (kErr : Nat → List Outcome → Res)
    (hc : P (pre fs s .crash (fin .crashed fs)))
    (he : ∀ c, P (pre fs s (.err c) (kErr c σ.tail)))
    (ho : P (pre fs s .ok (kOk σ.tail))) : P (step fs s σ kOk kErr) := by
  unfold step
  split
  · exact hc
  · exact he _
  · exact ho

section Inv
variable (fs0 : Dir) (tmp dest : Name) (data : Bytes)

/-- differs from the initial directory at most at the temp name (destination untouched). -/
def A (d : Dir) : Prop := ∀ n, n ≠ tmp → getF d n = getF fs0 n

/-- after the rename: destination = complete new content, temp gone, rest untouched. -/
def B (d : Dir) : Prop :=
  (∀ n, n ≠ tmp → n ≠ dest → getF d n = getF fs0 n) ∧ getF d dest = some data ∧ getF d tmp = none

def Safe (d : Dir) : Prop := A fs0 tmp d ∨ B fs0 tmp dest data d

/-- the state matches the flag "a replace already succeeded". -/
def St (b : Bool) (d : Dir) : Prop := if b then B fs0 tmp dest data d else A fs0 tmp d

/-- The invariant of (sub)runs.  `b`: a `replace` step already succeeded before this sub-run;
`cw`: every `exists`/`unlink` step before this sub-run worked. -/
structure G (b cw : Bool) (r : Res) : Prop where
  hist : ∀ d ∈ r.hist, Safe fs0 tmp dest data d
  safe : Safe fs0 tmp dest data r.fs
  repl : (b = true ∨ (Step.replace, Outcome.ok) ∈ r.trace) → B fs0 tmp dest data r.fs
  norepl : b = false → (Step.replace, Outcome.ok) ∉ r.trace → A fs0 tmp r.fs
  ret : r.status = .returned → B fs0 tmp dest data r.fs
  rai : r.status = .raised → b = false ∧ A fs0 tmp r.fs
  clean : r.status = .raised → cw = true → cleanupWorked r.trace = true → getF r.fs tmp = none

variable {fs0 tmp dest data}

theorem St.safe {b : Bool} {d : Dir} (h : St fs0 tmp dest data b d) : Safe fs0 tmp dest data d := by
  cases b
  · exact Or.inl h
  · exact Or.inr h

theorem A.setF {d : Dir} (h : A fs0 tmp d) (c : Bytes) : A fs0 tmp (setF d tmp c) :=
  fun n hn => by rw [getF_setF_ne _ _ hn]; exact h n hn

theorem A.delF {d : Dir} (h : A fs0 tmp d) : A fs0 tmp (delF d tmp) :=
  fun n hn => by rw [getF_delF_ne _ hn]; exact h n hn

theorem A.appendF {d : Dir} (h : A fs0 tmp d) (c : Bytes) : A fs0 tmp (appendF d tmp c) :=
  fun n hn => by rw [getF_appendF_ne _ _ hn]; exact h n hn

theorem A.rename {d : Dir} (h : A fs0 tmp d) (ht : getF d tmp = some data) (hne : tmp ≠ dest) :
    B fs0 tmp dest data (renameF d tmp dest) :=
  ⟨fun n h1 h2 => by rw [getF_renameF_other _ h1 h2]; exact h n h1,
   getF_renameF_dst _ ht, getF_renameF_src _ ht hne⟩

theorem G.weaken {b cw : Bool} {r : Res} (h : G fs0 tmp dest data b cw r) :
    G fs0 tmp dest data b false r :=
  { h with clean := fun _ h2 => by cases h2 }

theorem G_fin_crashed {b cw : Bool} {fs : Dir} (h : St fs0 tmp dest data b fs) :
    G fs0 tmp dest data b cw (fin .crashed fs) := by
  refine ⟨by simp, h.safe, ?_, ?_, by simp, by simp, by simp⟩
  · intro hb
    rcases hb with hb | hb
    · subst hb; exact h
    · simp at hb
  · intro hb _; subst hb; exact h

theorem G_fin_returned {cw : Bool} {fs : Dir} (h : B fs0 tmp dest data fs) :
    G fs0 tmp dest data true cw (fin .returned fs) :=
  ⟨by simp, Or.inr h, fun _ => h, by simp, fun _ => h, by simp, by simp⟩

theorem G_fin_raised {cw : Bool} {fs : Dir} (h : A fs0 tmp fs) (ht : cw = true → getF fs tmp = none) :
    G fs0 tmp dest data false cw (fin .raised fs) :=
  ⟨by simp, Or.inl h, by simp, fun _ _ => h, by simp, fun _ => ⟨rfl, h⟩, fun _ hc _ => ht hc⟩

/-- prepend one executed step that is not a successful replace. -/
theorem G_pre {b cw cw' : Bool} {fs : Dir} {s : Step} {o : Outcome} {r : Res}
    (hs : St fs0 tmp dest data b fs) (hne : (s, o) ≠ (Step.replace, Outcome.ok))
    (hcw : cw = true → stepOk (s, o) = true → cw' = true)
    (h : G fs0 tmp dest data b cw' r) : G fs0 tmp dest data b cw (pre fs s o r) := by
  refine ⟨?_, h.safe, ?_, ?_, h.ret, h.rai, ?_⟩
  · intro d hd
    simp at hd
    rcases hd with rfl | hd
    · exact hs.safe
    · exact h.hist d hd
  · intro hb
    apply h.repl
    rcases hb with hb | hb
    · exact Or.inl hb
    · simp at hb
      rcases hb with hb | hb
      · exact absurd (by rw [hb.1, hb.2]) hne
      · exact Or.inr hb
  · intro hb hn
    apply h.norepl hb
    intro hm; apply hn; simp [hm]
  · intro hr hc hw
    simp [cleanupWorked] at hw
    apply h.clean hr (hcw hc hw.1)
    simpa [cleanupWorked] using hw.2

theorem G_pre_replace {cw : Bool} {fs : Dir} {r : Res}
    (hs : A fs0 tmp fs) (h : G fs0 tmp dest data true cw r) :
    G fs0 tmp dest data false cw (pre fs .replace .ok r) := by
  refine ⟨?_, h.safe, fun _ => h.repl (Or.inl rfl), ?_, h.ret, ?_, ?_⟩
  · intro d hd
    simp at hd
    rcases hd with rfl | hd
    · exact Or.inl hs
    · exact h.hist d hd
  · intro _ hn; simp at hn
  · intro hr; have := (h.rai hr).1; cases this
  · intro hr; have := (h.rai hr).1; cases this

/-- a `step` that is neither `replace` nor part of the cleanup path. -/
theorem G_step {b cw : Bool} {fs : Dir} {s : Step} {σ : List Outcome}
    {kOk : List Outcome → Res} {kErr : Nat → List Outcome → Res}
    (hs : St fs0 tmp dest data b fs) (hne : s ≠ .replace)
    (hok : ∀ σ', G fs0 tmp dest data b cw (kOk σ'))
    (herr : ∀ c σ', G fs0 tmp dest data b (cw && stepOk (s, .err c)) (kErr c σ')) :
    G fs0 tmp dest data b cw (step fs s σ kOk kErr) := by
  apply step_cases
  · exact G_pre hs (by simp) (fun h _ => h) (G_fin_crashed hs)
  · intro c
    exact G_pre hs (by simp) (fun h1 h2 => by simp [h1, h2]) (herr c _)
  · exact G_pre hs (by simp [hne]) (fun h _ => h) (hok _)

theorem G_stepBE {b cw : Bool} {fs : Dir} {s : Step} {σ : List Outcome} {k : List Outcome → Res}
    (hs : St fs0 tmp dest data b fs) (hne : s ≠ .replace) (hu : s ≠ .unlink) (he : s ≠ .exists)
    (hok : ∀ σ', G fs0 tmp dest data b cw (k σ')) :
    G fs0 tmp dest data b cw (stepBE fs s σ k) := by
  unfold stepBE
  apply G_step hs hne hok
  intro c σ'
  have : stepOk (s, Outcome.err c) = true := by
    cases s <;> simp_all [stepOk]
  simpa [this] using hok σ'


/-! ### the phases of `atomic_write_bytes` preserve `G` for every script -/

theorem cleanup_G {cw : Bool} {fs : Dir} (σ : List Outcome) (h : A fs0 tmp fs) :
    G fs0 tmp dest data false cw (cleanup tmp fs σ) := by
  unfold cleanup
  apply G_step (b := false) h (by simp)
  · intro σ1
    split
    · apply G_step (b := false) h (by simp)
      · intro _; exact G_fin_raised h.delF (fun _ => by simp)
      · intro c _; simp [stepOk]; exact G_fin_raised h (by simp)
    · rename_i hn
      exact G_fin_raised h (fun _ => by simpa using hn)
  · intro c _; simp [stepOk]; exact G_fin_raised h (by simp)

theorem closeThenCleanup_G {cw : Bool} {fs : Dir} (σ : List Outcome) (h : A fs0 tmp fs) :
    G fs0 tmp dest data false cw (closeThenCleanup tmp fs σ) := by
  unfold closeThenCleanup
  exact G_stepBE (b := false) h (by simp) (by simp) (by simp) (fun σ' => cleanup_G σ' h)

theorem dirSync_G {cw : Bool} {fs : Dir} (σ : List Outcome) (h : B fs0 tmp dest data fs) :
    G fs0 tmp dest data true cw (dirSync fs σ) := by
  unfold dirSync
  apply G_step (b := true) h (by simp)
  · intro σ1
    apply G_stepBE (b := true) h (by simp) (by simp) (by simp)
    intro σ2
    apply G_stepBE (b := true) h (by simp) (by simp) (by simp)
    intro _; exact G_fin_returned h
  · intro c _; simp [stepOk]; exact G_fin_returned h

theorem afterReplace_G {cw : Bool} {fs : Dir} (σ : List Outcome) (h : B fs0 tmp dest data fs) :
    G fs0 tmp dest data true cw (afterReplace fs σ) := by
  unfold afterReplace
  apply G_step (b := true) h (by simp)
  · intro σ1
    apply G_stepBE (b := true) h (by simp) (by simp) (by simp)
    intro σ2
    apply G_stepBE (b := true) h (by simp) (by simp) (by simp)
    intro σ3; exact dirSync_G σ3 h
  · intro c σ1; simp [stepOk]; exact dirSync_G σ1 h

theorem postLoop_G {cw : Bool} {fs : Dir} {last : Option Nat} (σ : List Outcome)
    (h : A fs0 tmp fs) (hl : last.isSome = true) :
    G fs0 tmp dest data false cw (postLoop (cleanup tmp) tmp last fs σ) := by
  unfold postLoop
  apply G_step (b := false) h (by simp)
  · intro σ1
    split
    · apply G_step (b := false) h (by simp)
      · intro σ2; exact cleanup_G σ2 h.delF
      · intro c σ2; simp [stepOk]; exact cleanup_G σ2 h
    · exact cleanup_G σ1 h
  · intro c σ1; simp [stepOk, hl]; exact cleanup_G σ1 h

theorem replaceLoop_G {cw : Bool} (hne : tmp ≠ dest) (n : Nat) :
    ∀ (last : Option Nat) (fs : Dir) (σ : List Outcome), A fs0 tmp fs → getF fs tmp = some data →
      (n = 0 → last.isSome = true) →
      G fs0 tmp dest data false cw (replaceLoop (cleanup tmp) tmp dest n last fs σ) := by
  induction n with
  | zero =>
    intro last fs σ h _ hl
    unfold replaceLoop
    exact postLoop_G σ h (hl rfl)
  | succ n ih =>
    intro last fs σ h ht _
    unfold replaceLoop
    split
    · exact G_pre (b := false) h (by simp) (fun h _ => h) (G_fin_crashed (b := false) h)
    · rename_i c _
      apply G_pre (b := false) h (by simp) (fun h _ => h)
      split
      · exact ih (some c) fs _ h ht (fun _ => rfl)
      · exact postLoop_G _ h rfl
    · simp only [ht, Option.isSome_some, if_true]
      exact G_pre_replace h (afterReplace_G _ (h.rename ht hne))

theorem atomicReplace_G {cw : Bool} (hne : tmp ≠ dest) {retries : Nat} (hr : 0 < retries)
    {fs : Dir} (σ : List Outcome) (h : A fs0 tmp fs) (ht : getF fs tmp = some data) :
    G fs0 tmp dest data false cw (atomicReplace (cleanup tmp) retries tmp dest fs σ) := by
  unfold atomicReplace
  apply G_step (b := false) h (by simp)
  · intro σ1; exact replaceLoop_G hne retries none fs σ1 h ht (fun h0 => by omega)
  · intro c σ1; simp [stepOk]; exact cleanup_G σ1 h

theorem permPhase_G {cw : Bool} {fs : Dir} (σ : List Outcome) {k : List Outcome → Res}
    (h : A fs0 tmp fs) (hk : ∀ σ', G fs0 tmp dest data false cw (k σ')) :
    G fs0 tmp dest data false cw (permPhase dest fs σ k) := by
  have hbe : ∀ σ', G fs0 tmp dest data false cw (stepBE fs .chmod σ' k) :=
    fun σ' => G_stepBE (b := false) h (by simp) (by simp) (by simp) hk
  unfold permPhase
  split
  · exact G_pre (b := false) h (by simp) (fun h _ => h) (G_fin_crashed (b := false) h)
  · exact G_pre (b := false) h (by simp) (fun h _ => h) (hbe _)
  · split
    · apply G_pre (b := false) h (by simp) (fun h _ => h)
      apply G_step (b := false) h (by simp) hk
      intro c σ2; simp [stepOk]; exact hbe σ2
    · exact G_pre (b := false) h (by simp) (fun h _ => h) (hbe _)

theorem syncPhase_G {cw : Bool} (hne : tmp ≠ dest) {retries : Nat} (hr : 0 < retries)
    {fs : Dir} (σ : List Outcome) (h : A fs0 tmp fs) (ht : getF fs tmp = some data) :
    G fs0 tmp dest data false cw (syncPhase retries tmp dest fs σ) := by
  unfold syncPhase
  apply G_step (b := false) h (by simp)
  · intro σ1
    apply G_step (b := false) h (by simp)
    · intro σ2
      apply G_step (b := false) h (by simp)
      · intro σ3
        exact permPhase_G σ3 h (fun σ' => atomicReplace_G hne hr σ' h ht)
      · intro c σ3; simp [stepOk]; exact cleanup_G σ3 h
    · intro c σ2; simp [stepOk]; exact closeThenCleanup_G σ2 h
  · intro c σ1; simp [stepOk]; exact closeThenCleanup_G σ1 h

theorem writeLoop_G {cw : Bool} (hne : tmp ≠ dest) {retries : Nat} (hr : 0 < retries)
    (σ : List Outcome) :
    ∀ (rem cur : Bytes) (fs : Dir), A fs0 tmp fs → getF fs tmp = some cur → cur ++ rem = data →
      G fs0 tmp dest data false cw (writeLoop (syncPhase retries tmp dest) tmp rem fs σ) := by
  induction σ with
  | nil =>
    intro rem cur fs h ht hd
    unfold writeLoop
    split
    · rename_i he
      have : rem = [] := by simpa using he
      subst this
      exact syncPhase_G hne hr _ h (by simpa [← hd] using ht)
    · apply G_pre (b := false) h (by simp) (fun h _ => h)
      exact syncPhase_G hne hr _ (h.appendF rem) (by simp [ht, hd])
  | cons o σ' ih =>
    intro rem cur fs h ht hd
    unfold writeLoop
    split
    · rename_i he
      have : rem = [] := by simpa using he
      subst this
      exact syncPhase_G hne hr _ h (by simpa [← hd] using ht)
    · split
      · exact G_pre (b := false) h (by simp) (fun h _ => h) (G_fin_crashed (b := false) h)
      · exact G_pre (b := false) h (by simp) (fun h _ => h) (closeThenCleanup_G _ h)
      · rename_i k
        split
        · exact G_pre (b := false) h (by simp) (fun h _ => h) (closeThenCleanup_G _ h)
        · apply G_pre (b := false) h (by simp) (fun h _ => h)
          apply ih _ (cur ++ rem.take (min k rem.length)) _ (h.appendF _) (by simp [ht])
          rw [List.append_assoc, List.take_append_drop]; exact hd
      · apply G_pre (b := false) h (by simp) (fun h _ => h)
        exact syncPhase_G hne hr _ (h.appendF rem) (by simp [ht, hd])

end Inv

/-- **Main invariant**: the repaired `atomic_write_bytes` satisfies `G` for every script
(`cw = true`, i.e. the temp-hygiene clause, needs the temp name to be fresh). -/
theorem awb_G (cw : Bool) (retries : Nat) (hr : 0 < retries) (dest r : Name) (data : Bytes) (fs0 : Dir)
    (σ : List Outcome) (hfresh : cw = true → getF fs0 (tmpName dest r) = none) :
    G fs0 (tmpName dest r) dest data false cw (awb true retries dest r data fs0 σ) := by
  have hne := tmpName_ne dest r
  have hA : A fs0 (tmpName dest r) fs0 := fun _ _ => rfl
  unfold awb
  apply G_step (b := false) hA (by simp)
  · intro σ1
    apply G_step (b := false) hA (by simp)
    · intro σ2
      apply G_step (b := false) (hA.setF []) (by simp)
      · intro σ3
        simp only [if_true]
        exact writeLoop_G hne hr σ3 data [] _ (hA.setF []) (by simp) (by simp)
      · intro c σ3; simp [stepOk]; exact cleanup_G σ3 (hA.setF [])
    · intro c _; simp [stepOk]; exact G_fin_raised hA hfresh
  · intro c _; simp [stepOk]; exact G_fin_raised hA hfresh

/-- names present in a directory. -/
def keys (d : Dir) : List Name := d.map Prod.fst

theorem mem_keys_iff (d : Dir) (n : Name) : n ∈ keys d ↔ getF d n ≠ none := by
  induction d with
  | nil => simp [keys, getF]
  | cons h t ih =>
    obtain ⟨k, v⟩ := h
    by_cases hk : k = n
    · subst hk; simp [keys, getF]
    · have : ¬ n = k := fun e => hk e.symm
      simp only [keys, List.map_cons, List.mem_cons, this, false_or, getF, hk, if_false]
      exact ih

/-- retry discipline of traces without replace steps. -/
theorem retryB_norep (n : Nat) (tr : List (Step × Outcome)) (h : ∀ e ∈ tr, e.1 ≠ Step.replace) :
    retryB n tr = true := by
  induction tr generalizing n with
  | nil => simp [retryB]
  | cons e t ih =>
    obtain ⟨s, o⟩ := e
    have hs : s ≠ Step.replace := h (s, o) (by simp)
    have ht : ∀ m, retryB m t = true := fun m => ih m (fun e he => h e (by simp [he]))
    unfold retryB
    split
    · rfl
    · rename_i heq; simp at heq; exact absurd heq.1.1 hs
    · rename_i heq; simp at heq; rw [← heq.2]; exact ht _

/-! ### retry loop: transient failures, non-retryable failures, attempt bound -/

/-- sub-runs that keep the directory, never raise and never attempt a replace. -/
def Keeps (fs : Dir) (r : Res) : Prop :=
  r.fs = fs ∧ r.status ≠ .raised ∧ (∀ e ∈ r.trace, e.1 ≠ Step.replace)

theorem Keeps_fin {fs : Dir} {st : Status} (h : st ≠ .raised) : Keeps fs (fin st fs) :=
  ⟨rfl, h, by simp⟩

theorem Keeps_pre {fs fs' : Dir} {s : Step} {o : Outcome} {r : Res} (hs : s ≠ .replace)
    (h : Keeps fs r) : Keeps fs (pre fs' s o r) :=
  ⟨h.1, h.2.1, by
    intro e he
    simp at he
    rcases he with rfl | he
    · exact hs
    · exact h.2.2 e he⟩

theorem Keeps_step {fs : Dir} {s : Step} {σ : List Outcome} {kOk : List Outcome → Res}
    {kErr : Nat → List Outcome → Res} (hs : s ≠ .replace)
    (hok : ∀ σ', Keeps fs (kOk σ')) (herr : ∀ c σ', Keeps fs (kErr c σ')) :
    Keeps fs (step fs s σ kOk kErr) := by
  apply step_cases
  · exact Keeps_pre hs (Keeps_fin (by simp))
  · intro c; exact Keeps_pre hs (herr c _)
  · exact Keeps_pre hs (hok _)

theorem dirSync_Keeps (fs : Dir) (σ : List Outcome) : Keeps fs (dirSync fs σ) := by
  unfold dirSync stepBE
  refine Keeps_step (by simp) (fun σ1 => Keeps_step (by simp) (fun σ2 => Keeps_step (by simp) ?_ ?_) ?_) ?_
  all_goals intros
  all_goals first
    | exact Keeps_fin (by simp)
    | exact Keeps_step (by simp) (fun _ => Keeps_fin (by simp)) (fun _ _ => Keeps_fin (by simp))

theorem afterReplace_Keeps (fs : Dir) (σ : List Outcome) : Keeps fs (afterReplace fs σ) := by
  unfold afterReplace stepBE
  refine Keeps_step (by simp) (fun σ1 => Keeps_step (by simp) (fun σ2 => Keeps_step (by simp) ?_ ?_) ?_) ?_
  all_goals intros
  all_goals first
    | exact dirSync_Keeps _ _
    | exact Keeps_step (by simp) (fun _ => dirSync_Keeps _ _) (fun _ _ => dirSync_Keeps _ _)

theorem afterReplace_nil (fs : Dir) : (afterReplace fs []).status = .returned := by
  simp [afterReplace, dirSync, step, stepBE, hd, pre, fin]

/-- number of `os.replace` attempts in a trace. -/
def attempts (tr : List (Step × Outcome)) : Nat := (tr.filter (fun e => e.1 = Step.replace)).length

theorem attempts_zero_of_norep {tr : List (Step × Outcome)} (h : ∀ e ∈ tr, e.1 ≠ Step.replace) :
    attempts tr = 0 := by
  unfold attempts
  rw [List.length_eq_zero_iff, List.filter_eq_nil_iff]
  intro e he; simpa using h e he

@[simp] theorem attempts_cons_replace (o : Outcome) (tr : List (Step × Outcome)) :
    attempts ((Step.replace, o) :: tr) = attempts tr + 1 := by
  simp [attempts]

/-- fewer than `n` transient failures then success: the rename happens, the call does not
raise, and exactly `errs.length + 1` attempts are made. -/
theorem replaceLoop_transient (kRaise : Dir → List Outcome → Res) (tmp dest : Name)
    (errs : List Nat) (hre : ∀ c ∈ errs, retryable c = true) :
    ∀ (n : Nat) (last : Option Nat) (fs : Dir) (rest : List Outcome) (c0 : Bytes),
      errs.length < n → getF fs tmp = some c0 →
      (replaceLoop kRaise tmp dest n last fs (errs.map Outcome.err ++ Outcome.ok :: rest)).fs
          = renameF fs tmp dest ∧
      (replaceLoop kRaise tmp dest n last fs (errs.map Outcome.err ++ Outcome.ok :: rest)).status
          ≠ .raised ∧
      (rest = [] →
        (replaceLoop kRaise tmp dest n last fs (errs.map Outcome.err ++ Outcome.ok :: rest)).status
          = .returned) ∧
      attempts (replaceLoop kRaise tmp dest n last fs (errs.map Outcome.err ++ Outcome.ok :: rest)).trace
          = errs.length + 1 := by
  induction errs with
  | nil =>
    intro n last fs rest c0 hn ht
    obtain ⟨m, rfl⟩ : ∃ m, n = m + 1 := ⟨n - 1, by simp at hn; omega⟩
    have hk := afterReplace_Keeps (renameF fs tmp dest) rest
    simp only [List.map_nil, List.nil_append, replaceLoop, hd, List.headD_cons, ht,
      Option.isSome_some, if_true, List.tail_cons, pre_fs, pre_status, pre_trace,
      attempts_cons_replace, List.length_nil]
    refine ⟨hk.1, hk.2.1, ?_, by rw [attempts_zero_of_norep hk.2.2]⟩
    intro hr; subst hr; exact afterReplace_nil _
  | cons c errs ih =>
    intro n last fs rest c0 hn ht
    obtain ⟨m, rfl⟩ : ∃ m, n = m + 1 := ⟨n - 1, by simp at hn; omega⟩
    have hc : retryable c = true := hre c (by simp)
    have := ih (fun c' h' => hre c' (by simp [h'])) m (some c) fs rest c0 (by simp at hn; omega) ht
    simp only [List.map_cons, List.cons_append, replaceLoop, hd, List.headD_cons, hc, if_true,
      List.tail_cons, pre_fs, pre_status, pre_trace, attempts_cons_replace, List.length_cons]
    refine ⟨this.1, this.2.1, this.2.2.1, by rw [this.2.2.2]⟩

/-- a non-retryable failure stops the loop at once: next comes the cleanup code. -/
theorem replaceLoop_nonretryable (kRaise : Dir → List Outcome → Res) (tmp dest : Name) (n : Nat)
    (last : Option Nat) (fs : Dir) (c : Nat) (rest : List Outcome) (h : retryable c = false) :
    replaceLoop kRaise tmp dest (n + 1) last fs (Outcome.err c :: rest)
      = pre fs .replace (.err c) (postLoop kRaise tmp (some c) fs rest) := by
  simp [replaceLoop, hd, h]

/-- no replace attempt in the trace. -/
def NoRep (r : Res) : Prop := ∀ e ∈ r.trace, e.1 ≠ Step.replace

theorem NoRep_fin (st : Status) (fs : Dir) : NoRep (fin st fs) := by simp [NoRep]

theorem NoRep_pre {fs : Dir} {s : Step} {o : Outcome} {r : Res} (hs : s ≠ .replace)
    (h : NoRep r) : NoRep (pre fs s o r) := by
  intro e he
  simp at he
  rcases he with rfl | he
  · exact hs
  · exact h e he

theorem NoRep_step {fs : Dir} {s : Step} {σ : List Outcome} {kOk : List Outcome → Res}
    {kErr : Nat → List Outcome → Res} (hs : s ≠ .replace)
    (hok : ∀ σ', NoRep (kOk σ')) (herr : ∀ c σ', NoRep (kErr c σ')) :
    NoRep (step fs s σ kOk kErr) := by
  apply step_cases
  · exact NoRep_pre hs (NoRep_fin _ _)
  · intro c; exact NoRep_pre hs (herr c _)
  · exact NoRep_pre hs (hok _)

theorem cleanup_norep (tmp : Name) (fs : Dir) (σ : List Outcome) : NoRep (cleanup tmp fs σ) := by
  unfold cleanup
  apply NoRep_step (by simp)
  · intro σ1
    split
    · exact NoRep_step (by simp) (fun _ => NoRep_fin _ _) (fun _ _ => NoRep_fin _ _)
    · exact NoRep_fin _ _
  · intro _ _; exact NoRep_fin _ _

theorem postLoop_cleanup_norep (tmp : Name) (last : Option Nat) (fs : Dir) (σ : List Outcome) :
    NoRep (postLoop (cleanup tmp) tmp last fs σ) := by
  unfold postLoop
  apply NoRep_step (by simp)
  · intro σ1
    split
    · apply NoRep_step (by simp)
      · intro σ2; split
        · exact cleanup_norep _ _ _
        · exact NoRep_fin _ _
      · intro _ σ2; exact cleanup_norep _ _ _
    · split
      · exact cleanup_norep _ _ _
      · exact NoRep_fin _ _
  · intro _ σ1; split
    · exact NoRep_fin _ _
    · exact cleanup_norep _ _ _

/-- for ANY script the loop makes at most `n` replace attempts. -/
theorem replaceLoop_attempts_le (tmp dest : Name) (n : Nat) :
    ∀ (last : Option Nat) (fs : Dir) (σ : List Outcome),
      attempts (replaceLoop (cleanup tmp) tmp dest n last fs σ).trace ≤ n := by
  induction n with
  | zero =>
    intro last fs σ
    unfold replaceLoop
    rw [attempts_zero_of_norep (postLoop_cleanup_norep tmp last fs σ)]
    exact Nat.le_refl 0
  | succ n ih =>
    intro last fs σ
    unfold replaceLoop
    split
    · simp [attempts]
    · rename_i c _
      split
      · simp only [pre_trace, attempts_cons_replace]; have := ih (some c) fs σ.tail; omega
      · simp only [pre_trace, attempts_cons_replace]
        rw [attempts_zero_of_norep (postLoop_cleanup_norep tmp _ fs _)]; omega
    · split
      · simp only [pre_trace, attempts_cons_replace]
        rw [attempts_zero_of_norep (afterReplace_Keeps _ _).2.2]; omega
      · simp only [pre_trace, attempts_cons_replace]
        rw [attempts_zero_of_norep (postLoop_cleanup_norep tmp _ fs _)]; omega

/-! ### retry discipline and attempt bound of the WHOLE call, for every script -/

/-- trace-level invariant: the retry discipline monitor holds and at most `n` attempts happen. -/
def RQ (n : Nat) (r : Res) : Prop := retryB n r.trace = true ∧ attempts r.trace ≤ n

theorem retryB_cons_ne (n : Nat) {s : Step} (o : Outcome) (tr : List (Step × Outcome))
    (hs : s ≠ Step.replace) : retryB n ((s, o) :: tr) = retryB n tr := by
  cases s <;> first | exact absurd rfl hs | rfl

theorem attempts_cons_ne {s : Step} (o : Outcome) (tr : List (Step × Outcome))
    (hs : s ≠ Step.replace) : attempts ((s, o) :: tr) = attempts tr := by
  simp [attempts, hs]

theorem RQ_of_NoRep (n : Nat) {r : Res} (h : NoRep r) : RQ n r :=
  ⟨retryB_norep n r.trace h, by rw [attempts_zero_of_norep h]; exact Nat.zero_le n⟩

theorem RQ_pre {n : Nat} {fs : Dir} {s : Step} {o : Outcome} {r : Res} (hs : s ≠ .replace)
    (h : RQ n r) : RQ n (pre fs s o r) := by
  unfold RQ
  rw [pre_trace, retryB_cons_ne n o _ hs, attempts_cons_ne o _ hs]
  exact h

theorem RQ_step {n : Nat} {fs : Dir} {s : Step} {σ : List Outcome} {kOk : List Outcome → Res}
    {kErr : Nat → List Outcome → Res} (hs : s ≠ .replace)
    (hok : ∀ σ', RQ n (kOk σ')) (herr : ∀ c σ', RQ n (kErr c σ')) :
    RQ n (step fs s σ kOk kErr) := by
  apply step_cases
  · exact RQ_pre hs (RQ_of_NoRep n (NoRep_fin _ _))
  · intro c; exact RQ_pre hs (herr c _)
  · exact RQ_pre hs (hok _)

theorem replaceLoop_head (tmp dest : Name) (n : Nat) (last : Option Nat) (fs : Dir)
    (σ : List Outcome) :
    ∃ o tr, (replaceLoop (cleanup tmp) tmp dest (n + 1) last fs σ).trace = (Step.replace, o) :: tr := by
  unfold replaceLoop
  split
  · exact ⟨_, _, rfl⟩
  · exact ⟨_, _, rfl⟩
  · split <;> exact ⟨_, _, rfl⟩

theorem retryB_replace_nonerr (n : Nat) (o : Outcome) (tr : List (Step × Outcome))
    (ho : ∀ c, o ≠ .err c) : retryB n ((Step.replace, o) :: tr) = retryB n tr := by
  cases o <;> first | exact absurd rfl (ho _) | rfl

theorem replaceLoop_retryB (tmp dest : Name) (n : Nat) :
    ∀ (last : Option Nat) (fs : Dir) (σ : List Outcome),
      retryB n (replaceLoop (cleanup tmp) tmp dest n last fs σ).trace = true := by
  induction n with
  | zero =>
    intro last fs σ
    unfold replaceLoop
    exact retryB_norep 0 _ (postLoop_cleanup_norep tmp last fs σ)
  | succ n ih =>
    intro last fs σ
    have hpost : ∀ m l σ', retryB m (postLoop (cleanup tmp) tmp l fs σ').trace = true :=
      fun m l σ' => retryB_norep m _ (postLoop_cleanup_norep tmp l fs σ')
    unfold replaceLoop
    split
    · simp [retryB]
    · rename_i c _
      split
      · rename_i hc
        -- transient failure: retried
        rw [pre_trace]
        cases n with
        | zero =>
          simp only [retryB, hc, Nat.lt_irrefl, decide_false, Bool.and_false, Nat.zero_add,
            Bool.false_eq_true, if_false, Nat.sub_self]
          exact ih _ _ _
        | succ m =>
          obtain ⟨o, tr, htr⟩ := replaceLoop_head tmp dest m (some c) fs σ.tail
          have := ih (some c) fs σ.tail
          rw [htr] at this ⊢
          simp only [retryB, hc, Bool.true_and, Nat.add_sub_cancel]
          have h1 : decide (1 < m + 1 + 1) = true := by simp
          simp only [h1, if_true]
          exact this
      · rename_i hc
        rw [pre_trace]
        have hc' : retryable c = false := by simpa using hc
        simp only [retryB, hc', Bool.false_and, Bool.false_eq_true, if_false, Nat.add_sub_cancel]
        exact hpost _ _ _
    · split
      · rw [pre_trace, retryB_replace_nonerr _ _ _ (by intro c; simp)]
        exact retryB_norep _ _ (afterReplace_Keeps _ _).2.2
      · rw [pre_trace]
        simp only [retryB]
        have : retryable 2 = false := by decide
        simp only [this, Bool.false_and, Bool.false_eq_true, if_false, Nat.add_sub_cancel]
        exact hpost _ _ _

theorem replaceLoop_RQ (tmp dest : Name) (n : Nat) (last : Option Nat) (fs : Dir) (σ : List Outcome) :
    RQ n (replaceLoop (cleanup tmp) tmp dest n last fs σ) :=
  ⟨replaceLoop_retryB tmp dest n last fs σ, replaceLoop_attempts_le tmp dest n last fs σ⟩

theorem cleanup_RQ (n : Nat) (tmp : Name) (fs : Dir) (σ : List Outcome) : RQ n (cleanup tmp fs σ) :=
  RQ_of_NoRep n (cleanup_norep tmp fs σ)

theorem closeThenCleanup_RQ (n : Nat) (tmp : Name) (fs : Dir) (σ : List Outcome) :
    RQ n (closeThenCleanup tmp fs σ) := by
  unfold closeThenCleanup stepBE
  exact RQ_step (by simp) (fun _ => cleanup_RQ n tmp fs _) (fun _ _ => cleanup_RQ n tmp fs _)

theorem atomicReplace_RQ (n : Nat) (tmp dest : Name) (fs : Dir) (σ : List Outcome) :
    RQ n (atomicReplace (cleanup tmp) n tmp dest fs σ) := by
  unfold atomicReplace
  exact RQ_step (by simp) (fun _ => replaceLoop_RQ tmp dest n none fs _) (fun _ _ => cleanup_RQ n tmp fs _)

theorem permPhase_RQ (n : Nat) (dest : Name) (fs : Dir) (σ : List Outcome) {k : List Outcome → Res}
    (hk : ∀ σ', RQ n (k σ')) : RQ n (permPhase dest fs σ k) := by
  have hbe : ∀ σ', RQ n (stepBE fs .chmod σ' k) := fun σ' => by
    unfold stepBE; exact RQ_step (by simp) hk (fun _ => hk)
  unfold permPhase
  split
  · exact RQ_pre (by simp) (RQ_of_NoRep n (NoRep_fin _ _))
  · exact RQ_pre (by simp) (hbe _)
  · split
    · exact RQ_pre (by simp) (RQ_step (by simp) hk (fun _ => hbe))
    · exact RQ_pre (by simp) (hbe _)

theorem syncPhase_RQ (n : Nat) (tmp dest : Name) (fs : Dir) (σ : List Outcome) :
    RQ n (syncPhase n tmp dest fs σ) := by
  unfold syncPhase
  refine RQ_step (by simp) (fun σ1 => RQ_step (by simp) (fun σ2 => RQ_step (by simp) ?_ ?_) ?_) ?_
  · intro σ3; exact permPhase_RQ n dest fs σ3 (fun σ' => atomicReplace_RQ n tmp dest fs σ')
  · intro _ σ3; exact cleanup_RQ n tmp fs σ3
  · intro _ σ2; exact closeThenCleanup_RQ n tmp fs σ2
  · intro _ σ1; exact closeThenCleanup_RQ n tmp fs σ1

theorem writeLoop_RQ (n : Nat) (tmp dest : Name) (σ : List Outcome) :
    ∀ (rem : Bytes) (fs : Dir), RQ n (writeLoop (syncPhase n tmp dest) tmp rem fs σ) := by
  induction σ with
  | nil =>
    intro rem fs
    unfold writeLoop
    split
    · exact syncPhase_RQ n tmp dest fs _
    · exact RQ_pre (by simp) (syncPhase_RQ n tmp dest _ _)
  | cons o σ' ih =>
    intro rem fs
    unfold writeLoop
    split
    · exact syncPhase_RQ n tmp dest fs _
    · split
      · exact RQ_pre (by simp) (RQ_of_NoRep n (NoRep_fin _ _))
      · exact RQ_pre (by simp) (closeThenCleanup_RQ n tmp fs _)
      · split
        · exact RQ_pre (by simp) (closeThenCleanup_RQ n tmp fs _)
        · exact RQ_pre (by simp) (ih _ _)
      · exact RQ_pre (by simp) (syncPhase_RQ n tmp dest _ _)

theorem awb_RQ (retries : Nat) (dest r : Name) (data : Bytes) (fs : Dir) (σ : List Outcome) :
    RQ retries (awb true retries dest r data fs σ) := by
  unfold awb
  refine RQ_step (by simp) (fun σ1 => RQ_step (by simp) (fun σ2 => RQ_step (by simp) ?_ ?_) ?_) ?_
  · intro σ3; simp only [if_true]; exact writeLoop_RQ retries _ dest σ3 data _
  · intro _ σ3; exact cleanup_RQ retries _ _ σ3
  · intro _ _; exact RQ_of_NoRep retries (NoRep_fin _ _)
  · intro _ _; exact RQ_of_NoRep retries (NoRep_fin _ _)

/-! ### stand-alone `atomic_replace` (any retry bound, 0 included) -/

/-- every observable directory of a run lies in `S`. -/
def AllIn (S : Dir → Prop) (r : Res) : Prop := (∀ d ∈ r.hist, S d) ∧ S r.fs

theorem AllIn_fin {S : Dir → Prop} {st : Status} {fs : Dir} (h : S fs) : AllIn S (fin st fs) :=
  ⟨by simp, h⟩

theorem AllIn_pre {S : Dir → Prop} {fs : Dir} {s : Step} {o : Outcome} {r : Res} (h : S fs)
    (hr : AllIn S r) : AllIn S (pre fs s o r) :=
  ⟨by intro d hd; simp at hd; rcases hd with rfl | hd; exact h; exact hr.1 d hd, hr.2⟩

theorem AllIn_step {S : Dir → Prop} {fs : Dir} {s : Step} {σ : List Outcome}
    {kOk : List Outcome → Res} {kErr : Nat → List Outcome → Res} (h : S fs)
    (hok : ∀ σ', AllIn S (kOk σ')) (herr : ∀ c σ', AllIn S (kErr c σ')) :
    AllIn S (step fs s σ kOk kErr) := by
  apply step_cases
  · exact AllIn_pre h (AllIn_fin h)
  · intro c; exact AllIn_pre h (herr c _)
  · exact AllIn_pre h (hok _)

theorem afterReplace_AllIn {S : Dir → Prop} {fs : Dir} (h : S fs) (σ : List Outcome) :
    AllIn S (afterReplace fs σ) := by
  have hd : ∀ σ', AllIn S (dirSync fs σ') := by
    intro σ'
    unfold dirSync stepBE
    refine AllIn_step h (fun σ1 => AllIn_step h (fun σ2 => AllIn_step h ?_ ?_) ?_) ?_
    all_goals intros
    all_goals first
      | exact AllIn_fin h
      | exact AllIn_step h (fun _ => AllIn_fin h) (fun _ _ => AllIn_fin h)
  unfold afterReplace stepBE
  refine AllIn_step h (fun σ1 => AllIn_step h (fun σ2 => AllIn_step h ?_ ?_) ?_) ?_
  all_goals intros
  all_goals first
    | exact hd _
    | exact AllIn_step h (fun _ => hd _) (fun _ _ => hd _)

/-- the three directories a stand-alone `atomic_replace(src, dst)` can ever produce. -/
def ReplStates (fs : Dir) (src dst : Name) (d : Dir) : Prop :=
  d = fs ∨ d = delF fs src ∨ d = renameF fs src dst

theorem postLoop_alone_AllIn (fs : Dir) (src dst : Name) (last : Option Nat) (σ : List Outcome) :
    AllIn (ReplStates fs src dst) (postLoop (fun fs _ => fin .raised fs) src last fs σ) := by
  have h0 : ReplStates fs src dst fs := Or.inl rfl
  have h1 : ReplStates fs src dst (delF fs src) := Or.inr (Or.inl rfl)
  unfold postLoop
  apply AllIn_step h0
  · intro σ1
    split
    · apply AllIn_step h0
      · intro σ2; split <;> exact AllIn_fin h1
      · intro _ _; exact AllIn_fin h0
    · split <;> exact AllIn_fin h0
  · intro c σ1; split <;> exact AllIn_fin h0

theorem replaceLoop_alone_AllIn (fs : Dir) (src dst : Name) (n : Nat) :
    ∀ (last : Option Nat) (σ : List Outcome),
      AllIn (ReplStates fs src dst) (replaceLoop (fun fs _ => fin .raised fs) src dst n last fs σ) := by
  have h0 : ReplStates fs src dst fs := Or.inl rfl
  induction n with
  | zero => intro last σ; unfold replaceLoop; exact postLoop_alone_AllIn fs src dst last σ
  | succ n ih =>
    intro last σ
    unfold replaceLoop
    split
    · exact AllIn_pre h0 (AllIn_fin h0)
    · apply AllIn_pre h0
      split
      · exact ih _ _
      · exact postLoop_alone_AllIn fs src dst _ _
    · split
      · exact AllIn_pre h0 (afterReplace_AllIn (Or.inr (Or.inr rfl)) _)
      · exact AllIn_pre h0 (postLoop_alone_AllIn fs src dst _ _)

theorem atomicReplaceAlone_AllIn (retries : Nat) (src dst : Name) (fs : Dir) (σ : List Outcome) :
    AllIn (ReplStates fs src dst) (atomicReplaceAlone retries src dst fs σ) := by
  unfold atomicReplaceAlone atomicReplace
  exact AllIn_step (Or.inl rfl) (fun σ1 => replaceLoop_alone_AllIn fs src dst retries none σ1)
    (fun _ _ => AllIn_fin (Or.inl rfl))

theorem ReplStates_dst {fs : Dir} {src dst : Name} (hne : src ≠ dst) {d : Dir}
    (h : ReplStates fs src dst d) : getF d dst = getF fs dst ∨ getF d dst = getF fs src := by
  rcases h with rfl | rfl | rfl
  · exact Or.inl rfl
  · exact Or.inl (getF_delF_ne _ (fun e => hne e.symm))
  · cases hs : getF fs src with
    | none => left; simp [renameF, hs]
    | some c => right; rw [getF_renameF_dst _ hs]

/-! ### sidecar names -/

theorem ne_append_meta (dest : Name) : dest ++ metaSuffix ≠ dest := by
  intro h
  have := congrArg List.length h
  simp [metaSuffix] at this

theorem ne_tmp_of_meta (dest r2 : Name) : dest ≠ tmpName (dest ++ metaSuffix) r2 := by
  intro h
  have := congrArg List.length h
  simp [tmpName, metaSuffix] at this

theorem meta_ne_tmp (dest r1 : Name) (h : r1 ≠ [109, 101, 116, 97]) :
    dest ++ metaSuffix ≠ tmpName dest r1 := by
  intro e
  simp [tmpName, metaSuffix] at e
  exact h e.symm

/-! ### shape of temp names -/

theorem lastSeg_append_dot (p r : Name) (hr : 46 ∉ r) : lastSeg (p ++ 46 :: r) = some r := by
  have hnone : lastSeg r = none := by
    induction r with
    | nil => rfl
    | cons c t ih =>
      have hc : c ≠ 46 := fun e => hr (by simp [e])
      have ht : 46 ∉ t := fun e => hr (by simp [e])
      simp [lastSeg, ih ht, hc]
  induction p with
  | nil => simp [lastSeg, hnone]
  | cons c t ih => simp [lastSeg, ih]

theorem lastSeg_suffix (p s b : Name) (h : lastSeg s = some b) : lastSeg (p ++ s) = some b := by
  induction p with
  | nil => simpa using h
  | cons c t ih => simp [lastSeg, ih]

theorem endsWithB_iff (n s : Name) (h : endsWithB n s = true) : ∃ p, n = p ++ s := by
  simp [endsWithB] at h
  refine ⟨n.take (n.length - s.length), ?_⟩
  have := List.take_append_drop (n.length - s.length) n
  rw [h.2] at this
  exact this.symm

/-- a name `dest.r` (r dot-free) can only end with a pattern whose last dot-segment is `r`. -/
theorem tmp_endsWith_lastSeg (dest r s b : Name) (hr : 46 ∉ r) (hs : lastSeg s = some b)
    (h : endsWithB (tmpName dest r) s = true) : b = r := by
  obtain ⟨p, hp⟩ := endsWithB_iff _ _ h
  have h1 := lastSeg_append_dot dest r hr
  have h2 := lastSeg_suffix p s b hs
  unfold tmpName at hp
  rw [hp, h2] at h1
  exact Option.some.inj h1

/-- decimal rendering of a generation number (`f"{path}.{k}"`). -/
def decFuel : Nat → Nat → List Nat
  | 0, _ => []
  | f + 1, k => if k < 10 then [48 + k] else decFuel f (k / 10) ++ [48 + k % 10]

def dec (k : Nat) : List Nat := decFuel (k + 1) k

theorem decFuel_nodot (f k : Nat) : 46 ∉ decFuel f k := by
  induction f generalizing k with
  | zero => simp [decFuel]
  | succ f ih =>
    unfold decFuel
    split
    · simp; omega
    · simp [ih]; omega

theorem decFuel_length (n : Nat) : ∀ f k, k < 10 ^ (n + 1) → (decFuel f k).length ≤ n + 1 := by
  induction n with
  | zero =>
    intro f k hk
    cases f with
    | zero => simp [decFuel]
    | succ f => simp at hk; simp [decFuel, hk]
  | succ n ih =>
    intro f k hk
    cases f with
    | zero => simp [decFuel]
    | succ f =>
      unfold decFuel
      split
      · simp
      · have : k / 10 < 10 ^ (n + 1) := by
          apply Nat.div_lt_of_lt_mul
          rw [Nat.pow_succ] at hk; omega
        have := ih f (k / 10) this
        simp; omega

end Clem.Atomic
