import Mathlib.Algebra.Order.Field.Basic
import Mathlib.Algebra.Order.Ring.Abs
import Mathlib.Tactic.Linarith
import Clem.Model.Gel

/-!
The ordered-field instance of the GEL number carrier: the model definitions of
`Clem/Model/Gel.lean` instantiated at any linearly ordered field `α` use the field's own
`+ - * / |·|` and its decidable order.  All C18 theorems are stated at this instance.
-/
namespace Clem.Gel
open Clem.Py

set_option linter.unusedSectionVars false
variable {α : Type} [Field α] [LinearOrder α] [IsStrictOrderedRing α]

instance fieldNumGel : NumGel α where
  zero := 0
  one := 1
  half := 1 / 2
  add := (· + ·)
  sub := (· - ·)
  mul := (· * ·)
  div := (· / ·)
  neg := fun x => -x
  abs := fun x => |x|
  ofNat := fun n => (n : α)
  lt := fun a b => decide (a < b)
  le := fun a b => decide (a ≤ b)
  eq := fun a b => decide (a = b)

@[simp] theorem num_zero : (NumGel.zero : α) = 0 := rfl
@[simp] theorem num_one : (NumGel.one : α) = 1 := rfl
@[simp] theorem num_half : (NumGel.half : α) = 1 / 2 := rfl
@[simp] theorem num_add (a b : α) : NumGel.add a b = a + b := rfl
@[simp] theorem num_sub (a b : α) : NumGel.sub a b = a - b := rfl
@[simp] theorem num_mul (a b : α) : NumGel.mul a b = a * b := rfl
@[simp] theorem num_div (a b : α) : NumGel.div a b = a / b := rfl
@[simp] theorem num_neg (a : α) : NumGel.neg a = -a := rfl
@[simp] theorem num_abs (a : α) : NumGel.abs a = |a| := rfl
@[simp] theorem num_ofNat (n : Nat) : (NumGel.ofNat n : α) = (n : α) := rfl
@[simp] theorem num_lt (a b : α) : NumGel.lt a b = decide (a < b) := rfl
@[simp] theorem num_le (a b : α) : NumGel.le a b = decide (a ≤ b) := rfl
@[simp] theorem num_eq (a b : α) : NumGel.eq a b = decide (a = b) := rfl

end Clem.Gel
