import Clem.Proofs.T1Count

/-! Relaxation cap and pop budget of the T1 model. -/

namespace Clem.T1
open Num

variable {α : Type} [Num α]
set_option linter.unusedSectionVars false
set_option linter.unusedSimpArgs false

/-! ## relaxation cap -/

def CapOK (c : Cfg α) (st : St α) : Prop :=
  ∀ r, c.relaxCap = some r → (st.props : Int) ≤ imax r 0

theorem CapOK_same {c : Cfg α} {st st' : St α} (hp : st'.props = st.props)
    (h : CapOK c st) : CapOK c st' := by
  intro r hr
  rw [hp]; exact h r hr

theorem pushOrHit_props (c : Cfg α) (st : St α) (v : Nat) (x : α) :
    (pushOrHit c st v x).props = st.props := by
  unfold pushOrHit
  split
  · rcases pushMain_cases c st ⟨neg (abs x), v, x⟩ (accGet st.acc v) with ⟨_, hp⟩ | ⟨_, hp⟩ <;> rw [hp]
  · rfl

theorem pushOrHit_stop (c : Cfg α) (st : St α) (v : Nat) (x : α) :
    (pushOrHit c st v x).stop = st.stop := by
  unfold pushOrHit
  split
  · rcases pushMain_cases c st ⟨neg (abs x), v, x⟩ (accGet st.acc v) with ⟨_, hp⟩ | ⟨_, hp⟩ <;> rw [hp]
  · rfl

theorem pushOrHit_pops (c : Cfg α) (st : St α) (v : Nat) (x : α) :
    (pushOrHit c st v x).pops = st.pops := by
  unfold pushOrHit
  split
  · rcases pushMain_cases c st ⟨neg (abs x), v, x⟩ (accGet st.acc v) with ⟨_, hp⟩ | ⟨_, hp⟩ <;> rw [hp]
  · rfl

theorem imax_ge_right (a b : Int) : b ≤ imax a b := by unfold imax; split <;> omega
theorem imax_ge_left (a b : Int) : a ≤ imax a b := by unfold imax; split <;> omega

theorem capCheck_props (c : Cfg α) (st : St α) : (capCheck c st).props = st.props := by
  rcases capCheck_cases c st with h1 | h1 <;> rw [h1]

/-- a relaxation is only made when the pre-check `propagations >= relax_cap` failed -/
theorem CapOK_applyContrib (c : Cfg α) (st : St α) (e : Edge α) (u : Nat) (w : α) (dsrc d : Nat)
    (dec x : α) (hcap : capReached c st = false) :
    CapOK c (applyContrib c st e u w dsrc d dec x) := by
  intro r hr
  have hp : (applyContrib c st e u w dsrc d dec x).props = st.props + 1 := by
    unfold applyContrib
    rw [capCheck_props, pushOrHit_props]; rfl
  rw [hp]
  unfold capReached at hcap
  rw [hr] at hcap
  simp only [ge_iff_le, decide_eq_false_iff_not, Int.not_le] at hcap
  have := imax_ge_left r 0
  push_cast
  omega

theorem CapOK_edge (c : Cfg α) (u : Nat) (w : α) (st : St α) (e : Edge α)
    (h : CapOK c st) : CapOK c (relaxEdge c u w st e) := by
  rcases relaxEdge_cases c u w st e with ⟨_, hr⟩ | ⟨hcap, ⟨_, hr⟩ | ⟨_, hr⟩ | ⟨_, hr⟩ | ⟨dec, _, _, hr⟩ |
      ⟨dec, _, _, _, _, hr⟩⟩ <;> rw [hr]
  · exact CapOK_same (st := st) rfl h
  · exact CapOK_same (st := st) rfl h
  · exact CapOK_same (st := st) rfl h
  · exact CapOK_same (st := st) rfl h
  · exact CapOK_same (st := st) rfl h
  · exact CapOK_applyContrib c st e u w _ _ dec _ hcap

theorem sc_props {st st2 : St α} (h : sameCore st st2) : st2.props = st.props := by
  unfold sameCore at h; rw [h]
theorem sc_stop {st st2 : St α} (h : sameCore st st2) : st2.stop = st.stop := by
  unfold sameCore at h; rw [h]
theorem sc_pops {st st2 : St α} (h : sameCore st st2) : st2.pops = st.pops := by
  unfold sameCore at h; rw [h]

theorem gate_props (c : Cfg α) (st : St α) (it : Item α) : (gate c st it).1.props = st.props := by
  rcases gate_cases c st it with ⟨_, hg⟩ | ⟨st2, hsc, _, _, hg⟩
  · rw [hg]
  · rcases hg with hg | ⟨_, hg⟩ | ⟨_, hg⟩ <;> rw [hg] <;> exact sc_props (st2 := st2) hsc

theorem gate_pops (c : Cfg α) (st : St α) (it : Item α) : (gate c st it).1.pops = st.pops := by
  rcases gate_cases c st it with ⟨_, hg⟩ | ⟨st2, hsc, _, _, hg⟩
  · rw [hg]
  · rcases hg with hg | ⟨_, hg⟩ | ⟨_, hg⟩ <;> rw [hg] <;> exact sc_pops (st2 := st2) hsc

theorem CapOK_seedAll (c : Cfg α) (seeds : List Nat) : CapOK c (seedAll c seeds) := by
  have hp : (seedAll c seeds).props = 0 := by
    have : ∀ (l : List Nat) (s : SeedSt α), s.st.props = 0 → (l.foldl (seedStep c) s).st.props = 0 := by
      intro l
      induction l with
      | nil => intro s h; simpa using h
      | cons a l ih =>
        intro s h
        simp only [List.foldl_cons]
        apply ih
        unfold seedStep
        dsimp only
        split <;> exact h
    exact this _ _ rfl
  intro r _
  rw [hp]
  have := imax_ge_right r 0
  simpa using this

theorem CapOK_final (c : Cfg α) (g : Graph α) (text : List Nat) : CapOK c (finalSt c g text) := by
  unfold finalSt
  apply loop_inv c g (CapOK c) (fun _ _ st => CapOK c st)
  · intro st it rest h _ _
    have : CapOK c (gate c (popped st it rest) it).1 :=
      CapOK_same (st := st) (by rw [gate_props]; rfl) h
    exact ⟨fun _ => this, fun _ => this⟩
  · intro u w st e _ _ _ h
    exact CapOK_edge c u w st e h
  · intro _ _ st h; exact h
  · exact Inert_final_stop_aux c _
  · exact CapOK_seedAll c _

/-! ## pop budget -/

theorem capCheck_pops (c : Cfg α) (st : St α) : (capCheck c st).pops = st.pops := by
  rcases capCheck_cases c st with h1 | h1 <;> rw [h1]

theorem relaxEdge_pops (c : Cfg α) (u : Nat) (w : α) (st : St α) (e : Edge α) :
    (relaxEdge c u w st e).pops = st.pops := by
  rcases relaxEdge_cases c u w st e with ⟨_, hr⟩ | ⟨_, ⟨_, hr⟩ | ⟨_, hr⟩ | ⟨_, hr⟩ | ⟨dec, _, _, hr⟩ |
      ⟨dec, _, _, _, _, hr⟩⟩ <;> rw [hr]
  unfold applyContrib
  rw [capCheck_pops, pushOrHit_pops]; rfl

theorem relaxAll_pops (c : Cfg α) (u : Nat) (w : α) (es : List (Edge α)) (st : St α) :
    (relaxAll c u w st es).pops = st.pops := by
  induction es generalizing st with
  | nil => rfl
  | cons e es ih =>
    simp only [relaxAll]
    split
    · exact relaxEdge_pops c u w st e
    · rw [ih]; exact relaxEdge_pops c u w st e

theorem popStep_pops_le (c : Cfg α) (g : Graph α) (st : St α) :
    (popStep c g st).pops ≤ st.pops + 1 := by
  unfold popStep
  split
  · omega
  · simp only [afterPop]
    split
    · rw [relaxAll_pops, gate_pops]; exact Nat.le_refl _
    · rw [gate_pops]; exact Nat.le_refl _

theorem loop_pops (c : Cfg α) (g : Graph α) (fuel : Nat) (st : St α) :
    (loop c g fuel st).pops ≤ st.pops + fuel := by
  induction fuel generalizing st with
  | zero => simp [loop]
  | succ n ih =>
    simp only [loop]
    split
    · omega
    · have h1 := popStep_pops_le c g st
      split
      · omega
      · have := ih (popStep c g st); omega

theorem seedAll_pops (c : Cfg α) (seeds : List Nat) : (seedAll c seeds).pops = 0 := by
  have : ∀ (l : List Nat) (s : SeedSt α), s.st.pops = 0 → (l.foldl (seedStep c) s).st.pops = 0 := by
    intro l
    induction l with
    | nil => intro s h; simpa using h
    | cons a l ih =>
      intro s h
      simp only [List.foldl_cons]
      apply ih
      unfold seedStep
      dsimp only
      split <;> exact h
  exact this _ _ rfl

theorem final_pops_le (c : Cfg α) (g : Graph α) (text : List Nat) :
    (finalSt c g text).pops ≤ (effQueue c).toNat := by
  unfold finalSt
  have := loop_pops c g (effQueue c).toNat (seedAll c (seedsOf g text))
  rw [seedAll_pops] at this
  omega

theorem imin_le_right (a b : Int) : imin a b ≤ b := by unfold imin; split <;> omega


theorem addGraph_nocache (c : Cfg α) (text : List Nat) (t : Tot α) (g : Graph α)
    (hc : c.cacheOn = false) (ht : t.err = false) :
    (addGraph c text t g).deltas = t.deltas ++ (oneGraph (leftCfg c t) g text).deltas.map (fun n => (g.gid, n)) ∧
    (addGraph c text t g).pops = t.pops + (oneGraph (leftCfg c t) g text).pops ∧
    (addGraph c text t g).props = t.props + (oneGraph (leftCfg c t) g text).props ∧
    (addGraph c text t g).err = (oneGraph (leftCfg c t) g text).err := by
  have hc' : (leftCfg c t).cacheOn = false := hc
  unfold addGraph
  simp [hc', ht]


theorem capCheck_pq_len (c : Cfg α) (st : St α) : (capCheck c st).pq.length = st.pq.length := by
  rcases capCheck_cases c st with h1 | h1 <;> rw [h1]

/-! ## frontier cap -/

def FrontOK (c : Cfg α) (st : St α) : Prop :=
  ∀ cap, effFrontier c = some cap → (st.pq.length : Int) ≤ imax cap 0

theorem popMinAux_length (m : Item α) (l : List (Item α)) : (popMinAux m l).2.length = l.length := by
  induction l generalizing m with
  | nil => rfl
  | cons a l ih =>
    simp only [popMinAux]
    split <;> simp [ih]

theorem popMin_length {pq : List (Item α)} {it : Item α} {rest : List (Item α)}
    (h : popMin pq = some (it, rest)) : rest.length + 1 = pq.length := by
  cases pq with
  | nil => simp [popMin] at h
  | cons a l =>
    simp only [popMin, Option.some.injEq] at h
    have := popMinAux_length a l
    rw [h] at this
    simp only at this
    simp [this]

theorem pushCap_length (cap : Int) (pq : List (Item α)) (it : Item α)
    (h : (pq.length : Int) ≤ imax cap 0) :
    ((pushCap (some cap) pq it).1.length : Int) ≤ imax cap 0 := by
  unfold pushCap
  dsimp only
  have h0 := imax_ge_left cap 0
  have h1 := imax_ge_right cap 0
  split
  · simp only [List.length_take, Clem.Py.length_isort, List.length_cons]
    have : ((min cap.toNat (pq.length + 1) : Nat) : Int) ≤ (cap.toNat : Int) := by
      exact_mod_cast Nat.min_le_left _ _
    have h2 : (cap.toNat : Int) ≤ imax cap 0 := by
      rw [Int.toNat_eq_max]; omega
    omega
  · rename_i hn
    simp only [List.length_cons]
    push_cast at hn ⊢
    omega

theorem FrontOK_pq {c : Cfg α} {st st' : St α} (h : st'.pq.length ≤ st.pq.length) (hf : FrontOK c st) :
    FrontOK c st' := by
  intro cap hc
  have := hf cap hc
  have : (st'.pq.length : Int) ≤ (st.pq.length : Int) := by exact_mod_cast h
  omega

theorem FrontOK_push {c : Cfg α} {st st' : St α} (it : Item α)
    (h : st'.pq = (pushCap (effFrontier c) st.pq it).1) (hf : FrontOK c st) : FrontOK c st' := by
  intro cap hc
  rw [h, hc]
  exact pushCap_length cap st.pq it (hf cap hc)

theorem FrontOK_pushOrHit (c : Cfg α) (st : St α) (v : Nat) (x : α) (hf : FrontOK c st) :
    FrontOK c (pushOrHit c st v x) := by
  unfold pushOrHit
  split
  · rcases pushMain_cases c st ⟨neg (abs x), v, x⟩ (accGet st.acc v) with ⟨_, hp⟩ | ⟨_, hp⟩ <;> rw [hp]
    · exact FrontOK_pq (st := st) (Nat.le_refl _) hf
    · exact FrontOK_push (st := st) _ rfl hf
  · exact FrontOK_pq (st := st) (Nat.le_refl _) hf

theorem FrontOK_edge (c : Cfg α) (u : Nat) (w : α) (st : St α) (e : Edge α) (hf : FrontOK c st) :
    FrontOK c (relaxEdge c u w st e) := by
  rcases relaxEdge_cases c u w st e with ⟨_, hr⟩ | ⟨_, ⟨_, hr⟩ | ⟨_, hr⟩ | ⟨_, hr⟩ | ⟨dec, _, _, hr⟩ |
      ⟨dec, _, _, _, _, hr⟩⟩ <;> rw [hr]
  · exact FrontOK_pq (st := st) (Nat.le_refl _) hf
  · exact FrontOK_pq (st := st) (Nat.le_refl _) hf
  · exact FrontOK_pq (st := st) (Nat.le_refl _) hf
  · exact FrontOK_pq (st := st) (Nat.le_refl _) hf
  · exact FrontOK_pq (st := st) (Nat.le_refl _) hf
  · unfold applyContrib
    have h1 : FrontOK c (relaxed c st e u w (distGet st.dist u) (distGet st.dist u + 1) dec
        (mul (mul (mul w e.weight) (multOf c e.rel)) dec)) :=
      FrontOK_pq (st := st) (Nat.le_refl _) hf
    have h2 := FrontOK_pushOrHit c _ e.dst (mul (mul (mul w e.weight) (multOf c e.rel)) dec) h1
    exact FrontOK_pq (by rw [capCheck_pq_len]) h2

theorem FrontOK_seedAll (c : Cfg α) (seeds : List Nat) : FrontOK c (seedAll c seeds) := by
  unfold seedAll
  have := seedFold_inv c seeds (fun s => FrontOK c s.st)
    (fun s nid _ h => by
      unfold seedStep
      dsimp only
      split
      · exact FrontOK_pq (st := s.st) (Nat.le_refl _) h
      · exact FrontOK_push (st := s.st) _ rfl h)
    seeds ⟨st0 c, none, none⟩ (fun x hx => hx)
    (by intro cap _; have := imax_ge_right cap 0; simpa [st0] using this)
  exact FrontOK_pq (st := (seeds.foldl (seedStep c) ⟨st0 c, none, none⟩).st) (Nat.le_refl _) this

theorem sc_pq {st st2 : St α} (h : sameCore st st2) : st2.pq = st.pq := by
  unfold sameCore at h; rw [h]

theorem gate_pq (c : Cfg α) (st : St α) (it : Item α) : (gate c st it).1.pq = st.pq := by
  rcases gate_cases c st it with ⟨_, hg⟩ | ⟨st2, hsc, _, _, hg⟩
  · rw [hg]
  · rcases hg with hg | ⟨_, hg⟩ | ⟨_, hg⟩ <;> rw [hg] <;> exact sc_pq (st2 := st2) hsc

theorem FrontOK_final (c : Cfg α) (g : Graph α) (text : List Nat) : FrontOK c (finalSt c g text) := by
  unfold finalSt
  apply loop_inv c g (FrontOK c) (fun _ _ st => FrontOK c st)
  · intro st it rest h _ hp
    have : FrontOK c (gate c (popped st it rest) it).1 := by
      apply FrontOK_pq (st := st) _ h
      rw [gate_pq]
      have := popMin_length hp
      show rest.length ≤ st.pq.length
      omega
    exact ⟨fun _ => this, fun _ => this⟩
  · intro u w st e _ _ _ h
    exact FrontOK_edge c u w st e h
  · intro _ _ st h; exact h
  · exact Inert_final_stop_aux c _
  · exact FrontOK_seedAll c _

end Clem.T1
