/-
Promotion / merge / split frame and idempotence lemmas for the GEL model (`Clem/Model/Gel.lean`).
Carrier-generic: none of the model definitions used here elaborates with a `NumGel α` argument
(Lean only includes the section instance where it is used), so no instance is assumed.
-/
import Clem.Model.Gel

namespace Clem.Gel
open Clem.Py

variable {α : Type}

/-! ### Generic `upsert` facts -/

section Upsert
variable {k : Str} {f : Edge α → Edge α} {d : Edge α} {es : List (Edge α)}

theorem upsert_keys (hf : ∀ e, (f e).key = e.key) (hd : d.key = k) :
    (upsert k f d es).map Edge.key =
      if k ∈ es.map Edge.key then es.map Edge.key else es.map Edge.key ++ [k] := by
  induction es with
  | nil => simp [upsert, hf, hd]
  | cons e es ih =>
    by_cases h : e.key = k
    · simp [upsert, h, hf]
    · have hb : (e.key == k) = false := by simpa using h
      have hk : ¬ k = e.key := fun h' => h h'.symm
      simp only [upsert, hb, Bool.false_eq_true, if_false, List.map_cons, ih, List.mem_cons, hk,
        false_or]
      split <;> simp

theorem upsert_length_ge (k : Str) (f : Edge α → Edge α) (d : Edge α) (es : List (Edge α)) :
    es.length ≤ (upsert k f d es).length := by
  induction es with
  | nil => simp [upsert]
  | cons e es ih =>
    simp only [upsert]
    split
    · simp
    · simp only [List.length_cons]; omega

theorem mem_upsert {e' : Edge α} :
    e' ∈ upsert k f d es → e' ∈ es ∨ (∃ e ∈ es, e.key = k ∧ e' = f e) ∨ e' = f d := by
  induction es with
  | nil => intro h; simp [upsert] at h; exact Or.inr (Or.inr h)
  | cons e es ih =>
    intro h
    by_cases hk : e.key = k
    · have hb : (e.key == k) = true := by simpa using hk
      simp only [upsert, hb, if_true, List.mem_cons] at h
      rcases h with h | h
      · exact Or.inr (Or.inl ⟨e, List.mem_cons_self, hk, h⟩)
      · exact Or.inl (List.mem_cons_of_mem _ h)
    · have hb : (e.key == k) = false := by simpa using hk
      simp only [upsert, hb, Bool.false_eq_true, if_false, List.mem_cons] at h
      rcases h with h | h
      · exact Or.inl (h ▸ List.mem_cons_self)
      · rcases ih h with h | ⟨e0, he0, hk0, h0⟩ | h
        · exact Or.inl (List.mem_cons_of_mem _ h)
        · exact Or.inr (Or.inl ⟨e0, List.mem_cons_of_mem _ he0, hk0, h0⟩)
        · exact Or.inr (Or.inr h)

theorem mem_upsert_of_ne {e : Edge α} (hf : ∀ e, (f e).key = e.key) (hd : d.key = k)
    (hne : e.key ≠ k) : e ∈ upsert k f d es ↔ e ∈ es := by
  induction es with
  | nil =>
    simp only [upsert, List.mem_singleton, List.not_mem_nil, iff_false]
    intro h; apply hne; rw [h, hf, hd]
  | cons e0 es ih =>
    by_cases hk : e0.key = k
    · have hb : (e0.key == k) = true := by simpa using hk
      simp only [upsert, hb, if_true, List.mem_cons]
      have h1 : ¬ e = f e0 := by intro h; apply hne; rw [h, hf, hk]
      have h2 : ¬ e = e0 := by intro h; apply hne; rw [h, hk]
      simp [h1, h2]
    · have hb : (e0.key == k) = false := by simpa using hk
      simp only [upsert, hb, Bool.false_eq_true, if_false, List.mem_cons, ih]

theorem findEdge_upsert_ne (hf : ∀ e, (f e).key = e.key) (hd : d.key = k) {k' : Str}
    (hne : k' ≠ k) : findEdge k' (upsert k f d es) = findEdge k' es := by
  induction es with
  | nil =>
    have : ¬ k = k' := fun h => hne h.symm
    simp [findEdge, upsert, hf, hd, this]
  | cons e es ih =>
    by_cases hk : e.key = k
    · have hb : (e.key == k) = true := by simpa using hk
      have : ¬ k = k' := fun h => hne h.symm
      simp [findEdge, upsert, hf, hk, this]
    · have hb : (e.key == k) = false := by simpa using hk
      simp only [findEdge] at ih
      simp only [findEdge, upsert, hb, Bool.false_eq_true, if_false, List.find?_cons, ih]

theorem findEdge_upsert_self (hf : ∀ e, (f e).key = e.key) (hd : d.key = k) :
    ∃ e, findEdge k (upsert k f d es) = some e ∧
      (e = f d ∨ ∃ e0, findEdge k es = some e0 ∧ e = f e0) := by
  induction es with
  | nil => exact ⟨f d, by simp [findEdge, upsert, hf, hd], Or.inl rfl⟩
  | cons e es ih =>
    by_cases hk : e.key = k
    · have hb : (e.key == k) = true := by simpa using hk
      exact ⟨f e, by simp [findEdge, upsert, hf, hk],
        Or.inr ⟨e, by simp [findEdge, hk], rfl⟩⟩
    · have hb : (e.key == k) = false := by simpa using hk
      obtain ⟨e1, h1, h2⟩ := ih
      refine ⟨e1, ?_, ?_⟩
      · simp only [findEdge] at h1
        simp only [findEdge, upsert, hb, Bool.false_eq_true, if_false, List.find?_cons, h1]
      · rcases h2 with h2 | ⟨e0, h0, h2⟩
        · exact Or.inl h2
        · refine Or.inr ⟨e0, ?_, h2⟩
          simp only [findEdge] at h0
          simp only [findEdge, List.find?_cons, hb, h0]

theorem upsert_fixed {e : Edge α} (h : findEdge k es = some e) (hfe : f e = e) :
    upsert k f d es = es := by
  induction es with
  | nil => simp [findEdge] at h
  | cons e0 es ih =>
    by_cases hk : e0.key = k
    · have hb : (e0.key == k) = true := by simpa using hk
      simp only [findEdge, List.find?_cons, hb, Option.some.injEq] at h
      subst h
      simp only [upsert, hb, if_true, hfe]
    · have hb : (e0.key == k) = false := by simpa using hk
      simp only [findEdge, List.find?_cons, hb] at h
      simp only [upsert, hb, Bool.false_eq_true, if_false, List.cons.injEq, true_and]
      exact ih h

end Upsert

/-! ### Promotion -/

/-- the pair edge of member `m` is present, is a concept edge and carries the attach weight. -/
def Attached (p : Promo α) (es : List (Edge α)) (m : Str) : Prop :=
  ∃ e, findEdge (edgeKey p.cid m).key es = some e ∧ e.concept = true ∧ e.w = p.w

theorem attachStep_attached_self (p : Promo α) (es : List (Edge α)) (m : Str) :
    Attached p (attachStep p es m) m := by
  obtain ⟨e, h1, h2⟩ := findEdge_upsert_self (k := (edgeKey p.cid m).key)
    (f := fun e : Edge α => { e with concept := true, w := p.w })
    (d := conceptEdge (edgeKey p.cid m) p.w) (es := es) (fun _ => rfl) rfl
  refine ⟨e, h1, ?_⟩
  rcases h2 with h2 | ⟨e0, _, h2⟩ <;> subst h2 <;> exact ⟨rfl, rfl⟩

theorem attachStep_attached_pres (p : Promo α) (es : List (Edge α)) (m m' : Str)
    (h : Attached p es m) : Attached p (attachStep p es m') m := by
  by_cases hk : (edgeKey p.cid m).key = (edgeKey p.cid m').key
  · have := attachStep_attached_self p es m'
    unfold Attached at this ⊢
    rw [hk]; exact this
  · have hne := findEdge_upsert_ne (k := (edgeKey p.cid m').key)
      (f := fun e : Edge α => { e with concept := true, w := p.w })
      (d := conceptEdge (edgeKey p.cid m') p.w) (es := es) (fun _ => rfl) rfl hk
    unfold Attached attachStep
    rw [hne]
    exact h

theorem attachStep_fixed (p : Promo α) (es : List (Edge α)) (m : Str)
    (h : Attached p es m) : attachStep p es m = es := by
  obtain ⟨e, h1, h2, h3⟩ := h
  refine upsert_fixed h1 ?_
  cases e
  simp_all

theorem attach_foldl_pres (p : Promo α) (ms : List Str) (es : List (Edge α)) (m : Str)
    (h : Attached p es m) : Attached p (ms.foldl (attachStep p) es) m := by
  induction ms generalizing es with
  | nil => exact h
  | cons a ms ih => exact ih _ (attachStep_attached_pres p es m a h)

theorem attach_foldl_attached (p : Promo α) (ms : List Str) (es : List (Edge α)) :
    ∀ m ∈ ms, Attached p (ms.foldl (attachStep p) es) m := by
  induction ms generalizing es with
  | nil => intro m hm; cases hm
  | cons a ms ih =>
    intro m hm
    rcases List.mem_cons.mp hm with rfl | hm
    · exact attach_foldl_pres p ms _ _ (attachStep_attached_self p es _)
    · exact ih _ m hm

theorem attach_foldl_fixed (p : Promo α) (ms : List Str) (es : List (Edge α))
    (h : ∀ m ∈ ms, Attached p es m) : ms.foldl (attachStep p) es = es := by
  induction ms with
  | nil => rfl
  | cons a ms ih =>
    rw [List.foldl_cons, attachStep_fixed p es a (h a List.mem_cons_self)]
    exact ih (fun m hm => h m (List.mem_cons_of_mem _ hm))

theorem attach_own_edges (p : Promo α) (es : List (Edge α)) :
    ∀ m ∈ p.members, ∃ e, findEdge (edgeKey p.cid m).key (p.members.foldl (attachStep p) es) = some e ∧
      e.concept = true ∧ e.w = p.w :=
  attach_foldl_attached p p.members es

theorem attach_foldl_idem (p : Promo α) (es : List (Edge α)) :
    p.members.foldl (attachStep p) (p.members.foldl (attachStep p) es) =
      p.members.foldl (attachStep p) es :=
  attach_foldl_fixed p p.members _ (attach_foldl_attached p p.members es)

theorem attach_foldl_mem_of_ne (p : Promo α) (ms : List Str) (es : List (Edge α)) (e : Edge α)
    (h : ∀ m ∈ ms, e.key ≠ (edgeKey p.cid m).key) :
    e ∈ ms.foldl (attachStep p) es ↔ e ∈ es := by
  induction ms generalizing es with
  | nil => exact Iff.rfl
  | cons a ms ih =>
    rw [List.foldl_cons, ih _ (fun m hm => h m (List.mem_cons_of_mem _ hm))]
    exact mem_upsert_of_ne (k := (edgeKey p.cid a).key)
      (f := fun e : Edge α => { e with concept := true, w := p.w })
      (d := conceptEdge (edgeKey p.cid a) p.w) (es := es) (fun _ => rfl) rfl
      (h a List.mem_cons_self)

theorem hasNode_append_self (ns : List Node) (id label : Str) :
    hasNode (ns ++ [⟨id, label⟩]) id = true := by
  simp [hasNode]

theorem ensure_some (g : Store α) : ensure (some g) = g := rfl

theorem applyPromotion_enabled (c : Cfg α) (s : State α) (p : Promo α) (hen : c.enabled = true) :
    applyPromotion c s p = some { ensure s with
      nodes := if hasNode (ensure s).nodes p.cid then (ensure s).nodes
               else (ensure s).nodes ++ [⟨p.cid, p.label⟩]
      conceptCount := if hasNode (ensure s).nodes p.cid then (ensure s).conceptCount
                      else (ensure s).conceptCount + 1
      edges := p.members.foldl (attachStep p) (ensure s).edges
      edgesCount := some (p.members.foldl (attachStep p) (ensure s).edges).length } := by
  simp [applyPromotion, hen]

theorem applyPromotion_idem (c : Cfg α) (s : State α) (p : Promo α) :
    applyPromotion c (applyPromotion c s p) p = applyPromotion c s p := by
  cases hen : c.enabled with
  | false => simp [applyPromotion, hen]
  | true =>
    rw [applyPromotion_enabled c s p hen, applyPromotion_enabled c _ p hen]
    cases hn : hasNode (ensure s).nodes p.cid with
    | true => simp [ensure_some, hn, attach_foldl_idem]
    | false => simp [ensure_some, attach_foldl_idem, hasNode_append_self]

theorem applyPromotion_frame (c : Cfg α) (s : State α) (p : Promo α) (hen : c.enabled = true) :
    ∃ g', applyPromotion c s p = some g' ∧ g'.merges = (ensure s).merges ∧
      g'.splits = (ensure s).splits ∧
      (g'.nodes = (ensure s).nodes ∨ g'.nodes = (ensure s).nodes ++ [⟨p.cid, p.label⟩]) ∧
      (∀ e, (∀ m ∈ p.members, e.key ≠ (edgeKey p.cid m).key) →
        (e ∈ g'.edges ↔ e ∈ (ensure s).edges)) := by
  refine ⟨_, applyPromotion_enabled c s p hen, rfl, rfl, ?_, ?_⟩
  · dsimp only
    split
    · exact Or.inl rfl
    · exact Or.inr rfl
  · intro e h
    exact attach_foldl_mem_of_ne p p.members _ e h

theorem applyMerge_frame (c : Cfg α) (s : State α) (r : MergeRec α) (hen : c.enabled = true) :
    ∃ g', applyMerge c s r = some g' ∧ g'.nodes = (ensure s).nodes ∧
      g'.edges = (ensure s).edges ∧ g'.splits = (ensure s).splits ∧
      g'.conceptCount = (ensure s).conceptCount ∧ g'.edgesCount = (ensure s).edgesCount ∧
      g'.merges = (ensure s).merges ++ [r] :=
  ⟨{ ensure s with merges := (ensure s).merges ++ [r] }, by simp [applyMerge, hen],
    rfl, rfl, rfl, rfl, rfl, rfl⟩

theorem applySplit_frame (c : Cfg α) (s : State α) (r : SplitRec) (hen : c.enabled = true) :
    ∃ g', applySplit c s r = some g' ∧ g'.nodes = (ensure s).nodes ∧
      g'.edges = (ensure s).edges ∧ g'.merges = (ensure s).merges ∧
      g'.conceptCount = (ensure s).conceptCount ∧ g'.edgesCount = (ensure s).edgesCount ∧
      g'.splits = (ensure s).splits ++ [r] :=
  ⟨{ ensure s with splits := (ensure s).splits ++ [r] }, by simp [applySplit, hen],
    rfl, rfl, rfl, rfl, rfl, rfl⟩

end Clem.Gel
