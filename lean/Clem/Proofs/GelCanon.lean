import Clem.Proofs.GelTick
import Clem.Proofs.GelKeys
import Clem.Proofs.GelPromo

/-! Canonical keys as an invariant of every operation. -/
namespace Clem.Gel
open Clem.Py

set_option linter.unusedSectionVars false
variable {α : Type} [Field α] [LinearOrder α] [IsStrictOrderedRing α]

def Canon (es : List (Edge α)) : Prop :=
  (∀ e ∈ es, edgeCanonB e = true) ∧ (es.map Edge.key).Nodup

theorem canonB_iff (es : List (Edge α)) : canonB es = true ↔ Canon es := by
  simp [canonB, Canon]

theorem edgeCanonB_congr {e e' : Edge α} (hk : e'.key = e.key) (hs : e'.src = e.src)
    (hd : e'.dst = e.dst) : edgeCanonB e' = edgeCanonB e := by
  simp [edgeCanonB, hk, hs, hd]

theorem canon_upsert {k : Str} {f : Edge α → Edge α} {d : Edge α} {es : List (Edge α)}
    (hf : ∀ e, (f e).key = e.key ∧ (f e).src = e.src ∧ (f e).dst = e.dst)
    (hdk : d.key = k) (hdc : edgeCanonB d = true) (h : Canon es) : Canon (upsert k f d es) := by
  refine ⟨?_, ?_⟩
  · apply all_upsert (P := fun e => edgeCanonB e = true) k f d _ _ es h.1
    · intro e he
      rw [edgeCanonB_congr (hf e).1 (hf e).2.1 (hf e).2.2]; exact he
    · show edgeCanonB (f d) = true
      rw [edgeCanonB_congr (hf d).1 (hf d).2.1 (hf d).2.2]; exact hdc
  · rw [upsert_keys (fun e => (hf e).1) hdk]
    split
    · exact h.2
    · rename_i hk
      rw [List.nodup_append]
      refine ⟨h.2, by simp, ?_⟩
      intro a ha b hb
      simp only [List.mem_singleton] at hb
      subst hb
      intro hab; subst hab; exact hk ha

theorem canon_foldl {β : Type} (g : List (Edge α) → β → List (Edge α))
    (hg : ∀ es b, Canon es → Canon (g es b)) :
    ∀ (l : List β) (es : List (Edge α)), Canon es → Canon (l.foldl g es) := by
  intro l
  induction l with
  | nil => intro es h; simpa using h
  | cons b t ih => intro es h; simp only [List.foldl_cons]; exact ih _ (hg es b h)

theorem edgeKey_edge_canon (a b : Str) (e : Edge α) (hk : e.key = (edgeKey a b).key)
    (hs : e.src = (edgeKey a b).src) (hd : e.dst = (edgeKey a b).dst) : edgeCanonB e = true := by
  obtain ⟨h1, h2, _⟩ := edgeKey_canon a b
  simp [edgeCanonB, hk, hs, hd, h1, h2]

theorem canon_observeEdges (c : Cfg α) (turn : Option Int) (ps : List (Str × Str))
    (es : List (Edge α)) (h : Canon es) : Canon (observeEdges c turn es ps) := by
  unfold observeEdges
  apply canon_foldl (obsStep c turn) _ ps es h
  intro es p hes
  exact canon_upsert (fun e => ⟨rfl, rfl, rfl⟩) rfl
    (edgeKey_edge_canon p.1 p.2 _ rfl rfl rfl) hes

theorem canon_attach (p : Promo α) (es : List (Edge α)) (h : Canon es) :
    Canon (p.members.foldl (attachStep p) es) := by
  apply canon_foldl (attachStep p) _ p.members es h
  intro es m hes
  exact canon_upsert (fun e => ⟨rfl, rfl, rfl⟩) rfl
    (edgeKey_edge_canon p.cid m _ rfl rfl rfl) hes

theorem canon_tick (f floor : α) (turn : Option Int) (es : List (Edge α)) (h : Canon es) :
    Canon (es.filterMap (tickEdge f floor turn)) := by
  refine ⟨?_, ?_⟩
  · intro e' he'
    obtain ⟨e, he, hte⟩ := List.mem_filterMap.mp he'
    obtain ⟨_, _, hk, hs, hd, _⟩ := tickEdge_some hte
    rw [edgeCanonB_congr hk hs hd]; exact h.1 e he
  · rw [← (tick_keys f floor turn es).1]
    exact List.Nodup.sublist (List.filter_sublist.map Edge.key) h.2

theorem canon_step (c : Cfg α) (pw : α → α → α) (s : State α) (op : Op α)
    (hs : Canon (edgesOf s)) : Canon (edgesOf (step c pw s op)) := by
  cases op with
  | observe items turn =>
    simp only [step, observe]
    split
    · exact hs
    · exact canon_observeEdges c turn _ _ hs
  | tick dt turn =>
    simp only [step, tick]
    split
    · exact hs
    · split
      · exact hs
      · exact canon_tick _ _ turn _ hs
  | merge r =>
    simp only [step, applyMerge]
    split <;> exact hs
  | split r =>
    simp only [step, applySplit]
    split <;> exact hs
  | promote p =>
    simp only [step, applyPromotion]
    split
    · exact hs
    · exact canon_attach p _ hs

theorem canon_run (c : Cfg α) (pw : α → α → α) (ops : List (Op α)) :
    ∀ (s : State α), canonB (edgesOf s) = true → canonB (edgesOf (run c pw s ops)) = true := by
  induction ops with
  | nil => intro s hs; simpa [run] using hs
  | cons op t ih =>
    intro s hs
    simp only [run, List.foldl_cons]
    apply ih
    rw [canonB_iff] at hs ⊢
    exact canon_step c pw s op hs

end Clem.Gel
