/-
Lemmas about the snapshot model (C06): insertion-ordered dictionaries, the per-weight pipeline,
sanitise / re-key invariants.  No Mathlib needed.
-/
import Clem.Model.Snap

namespace Clem.Snap
open Clem.Py.JV

/-! ## insertion-ordered dictionaries -/
section Assoc
variable {K V : Type} [DecidableEq K]

omit [DecidableEq K] in
theorem keys_append (l m : List (K × V)) : keys (l ++ m) = keys l ++ keys m := by
  simp [keys]

theorem ainsert_of_not_mem {k : K} {v : V} {l : List (K × V)} (h : k ∉ keys l) :
    ainsert k v l = l ++ [(k, v)] := by
  induction l with
  | nil => rfl
  | cons p r ih =>
    obtain ⟨k', v'⟩ := p
    simp only [keys, List.map_cons, List.mem_cons, not_or] at h
    have hne : ¬ k' = k := fun e => h.1 e.symm
    simp only [ainsert, hne, if_false, List.cons_append]
    rw [ih (by simpa [keys] using h.2)]

theorem keys_ainsert (k : K) (v : V) (l : List (K × V)) :
    keys (ainsert k v l) = if k ∈ keys l then keys l else keys l ++ [k] := by
  induction l with
  | nil => simp [ainsert, keys]
  | cons p r ih =>
    obtain ⟨k', v'⟩ := p
    by_cases e : k' = k
    · subst e; simp [ainsert, keys]
    · have e' : ¬ k = k' := fun h => e h.symm
      simp only [ainsert, e, if_false, keys, List.map_cons, List.mem_cons, e', false_or]
      simp only [keys] at ih
      rw [ih]; split <;> simp_all

theorem nodup_keys_ainsert {k : K} {v : V} {l : List (K × V)} (h : (keys l).Nodup) :
    (keys (ainsert k v l)).Nodup := by
  rw [keys_ainsert]
  split
  · exact h
  · rename_i hk
    exact List.nodup_append.mpr ⟨h, by simp, by
      intro a ha b hb; simp at hb; subst hb; intro e; subst e; exact hk ha⟩

theorem mem_ainsert {k : K} {v : V} {l : List (K × V)} {p : K × V} (h : p ∈ ainsert k v l) :
    p = (k, v) ∨ p ∈ l := by
  induction l with
  | nil => simp [ainsert] at h; exact Or.inl h
  | cons q r ih =>
    obtain ⟨k', v'⟩ := q
    by_cases e : k' = k
    · subst e
      simp only [ainsert, if_true, List.mem_cons] at h
      rcases h with h | h
      · exact Or.inl h
      · exact Or.inr (List.mem_cons_of_mem _ h)
    · simp only [ainsert, e, if_false, List.mem_cons] at h
      rcases h with h | h
      · exact Or.inr (by simp [h])
      · rcases ih h with h | h
        · exact Or.inl h
        · exact Or.inr (List.mem_cons_of_mem _ h)

/-- values after an insertion, seen through any function of the value -/
theorem map_snd_ainsert_mem {β : Type} (f : V → β) {k : K} {v : V} {l : List (K × V)} {x : β}
    (h : x ∈ (ainsert k v l).map (fun p => f p.2)) : x = f v ∨ x ∈ l.map (fun p => f p.2) := by
  simp only [List.mem_map] at h ⊢
  obtain ⟨p, hp, rfl⟩ := h
  rcases mem_ainsert hp with h | h
  · subst h; exact Or.inl rfl
  · exact Or.inr ⟨p, h, rfl⟩

theorem map_snd_ainsert_nodup {β : Type} (f : V → β) {k : K} {v : V} {l : List (K × V)}
    (hn : (l.map (fun p => f p.2)).Nodup) (hv : f v ∉ l.map (fun p => f p.2)) :
    ((ainsert k v l).map (fun p => f p.2)).Nodup := by
  induction l with
  | nil => simp [ainsert]
  | cons q r ih =>
    obtain ⟨k', v'⟩ := q
    simp only [List.map_cons, List.nodup_cons, List.mem_cons, not_or] at hn hv
    by_cases e : k' = k
    · subst e
      simp only [ainsert, if_true, List.map_cons, List.nodup_cons]
      exact ⟨hv.2, hn.2⟩
    · simp only [ainsert, e, if_false, List.map_cons, List.nodup_cons]
      refine ⟨?_, ih hn.2 hv.2⟩
      intro hm
      rcases map_snd_ainsert_mem f hm with h | h
      · exact hv.1 h.symm
      · exact hn.1 h

/-- Building a dict from pairs whose keys are already distinct is the identity. -/
theorem foldl_ainsert_nodup (l acc : List (K × V)) (h : (keys (acc ++ l)).Nodup) :
    l.foldl (fun a p => ainsert p.1 p.2 a) acc = acc ++ l := by
  induction l generalizing acc with
  | nil => simp
  | cons p t ih =>
    have hp : p.1 ∉ keys acc := by
      rw [keys_append] at h
      have := (List.nodup_append.mp h).2.2
      intro hm
      exact this _ hm _ (by simp [keys]) rfl
    simp only [List.foldl_cons]
    rw [ainsert_of_not_mem hp, ih]
    · simp
    · simpa using h

theorem ofPairs_of_nodup {l : List (K × V)} (h : (keys l).Nodup) : ofPairs l = l := by
  have := foldl_ainsert_nodup l [] (by simpa using h)
  simpa [ofPairs] using this

theorem nodup_keys_foldl_ainsert (l acc : List (K × V)) (h : (keys acc).Nodup) :
    (keys (l.foldl (fun a p => ainsert p.1 p.2 a) acc)).Nodup := by
  induction l generalizing acc with
  | nil => simpa
  | cons p t ih => exact ih _ (nodup_keys_ainsert h)

theorem nodup_keys_ofPairs (l : List (K × V)) : (keys (ofPairs l)).Nodup :=
  nodup_keys_foldl_ainsert l [] (by simp [keys])

/-- "first position, last value": a later assignment to an existing key keeps the key's
position and replaces the value. -/
theorem aget_ainsert_self (k : K) (v : V) (l : List (K × V)) : aget k (ainsert k v l) = some v := by
  induction l with
  | nil => simp [ainsert, aget]
  | cons p r ih =>
    obtain ⟨k', v'⟩ := p
    by_cases e : k' = k
    · simp [ainsert, aget, e]
    · simp [ainsert, aget, e, ih]

theorem aget_ainsert_other {k k' : K} (v : V) (l : List (K × V)) (h : k' ≠ k) :
    aget k' (ainsert k v l) = aget k' l := by
  induction l with
  | nil => simp [ainsert, aget, h.symm]
  | cons p r ih =>
    obtain ⟨k₁, v₁⟩ := p
    by_cases e : k₁ = k
    · subst e; simp [ainsert, aget, h.symm]
    · by_cases e' : k₁ = k'
      · subst e'; simp [ainsert, aget, e]
      · simp [ainsert, aget, e, e', ih]

theorem keys_ainsert_of_mem {k : K} (v : V) {l : List (K × V)} (h : k ∈ keys l) :
    keys (ainsert k v l) = keys l := by
  rw [keys_ainsert]; simp [h]

end Assoc

/-! ## the per-weight pipeline -/

/-- What the proofs assume of the float carrier and of `round(x, 6)` (all hold for IEEE doubles
with CPython's `round`; monitored on the real function by the harness, and proved for the
integer-grid carrier `Clem.Props.optOps` as non-vacuity). -/
structure WLaws {W : Type} (o : WOps W) (b : Bounds W) : Prop where
  lt_irrefl : ∀ a, o.lt a a = false
  lt_asymm : ∀ a c, o.lt a c = true → o.lt c a = false
  lo_lt_hi : o.lt b.wmin b.wmax = true
  fin_zero : o.fin o.zero = true
  round_zero : o.round o.zero = o.zero
  round_fin : ∀ x, o.fin x = true → o.fin (o.round x) = true
  round_idem : ∀ x, o.fin x = true → o.round (o.round x) = o.round x
  /-- `round` is constant from `x` up to (excluding) `round x` … -/
  round_const_up : ∀ x y, o.fin x = true → o.lt y x = false → o.lt y (o.round x) = true →
    o.fin y = true ∧ o.round y = o.round x
  /-- … and from `x` down to `round x`. -/
  round_const_dn : ∀ x y, o.fin x = true → o.lt x y = false → o.lt (o.round x) y = true →
    o.fin y = true ∧ o.round y = o.round x
  /-- `0 < lo ≤ x` and `|round x| < ε` give `|round6 lo| < ε` (monotone `round`, `abs`). -/
  prune_lo : ∀ x, o.lt o.zero b.wmin = true → o.fin x = true → o.lt x b.wmin = false →
    o.lt (o.abs (o.round x)) b.eps = true → o.lt (o.abs (round6 o b.wmin)) b.eps = true
  prune_hi : ∀ x, o.lt b.wmax o.zero = true → o.fin x = true → o.lt b.wmax x = false →
    o.lt (o.abs (o.round x)) b.eps = true → o.lt (o.abs (round6 o b.wmax)) b.eps = true

section Weight
variable {W : Type} {o : WOps W} {b : Bounds W}

/-- `x` lies between the bounds as far as `_clamp` can tell. -/
def InRange (o : WOps W) (b : Bounds W) (x : W) : Prop :=
  o.lt x b.wmin = false ∧ o.lt b.wmax x = false

theorem clamp_inRange (L : WLaws o b) (w : W) : InRange o b (clamp o w b.wmin b.wmax) := by
  unfold clamp InRange
  by_cases h1 : o.lt w b.wmin = true
  · simp only [h1, if_true]
    exact ⟨L.lt_irrefl _, L.lt_asymm _ _ L.lo_lt_hi⟩
  · by_cases h2 : o.lt b.wmax w = true
    · simp only [h1, h2, if_true, if_false]
      exact ⟨L.lt_asymm _ _ L.lo_lt_hi, L.lt_irrefl _⟩
    · simp only [h1, h2, if_false]
      exact ⟨by simpa using h1, by simpa using h2⟩

theorem clamp_of_inRange {x : W} (h : InRange o b x) : clamp o x b.wmin b.wmax = x := by
  unfold clamp; simp [h.1, h.2]

/-- the value handed to `_round6` -/
def pre (o : WOps W) (b : Bounds W) (w : W) : W :=
  if o.fin (clamp o w b.wmin b.wmax) then clamp o w b.wmin b.wmax else clamp o o.zero b.wmin b.wmax

theorem sw_eq (w : W) : sw o b w = prune o b.eps (round6 o (pre o b w)) := rfl

theorem pre_inRange (L : WLaws o b) (w : W) : InRange o b (pre o b w) := by
  unfold pre; split <;> exact clamp_inRange L _

theorem pre_of_inRange_fin {x : W} (h : InRange o b x) (hf : o.fin x = true) : pre o b x = x := by
  unfold pre; rw [clamp_of_inRange h]; simp [hf]

/-- `round6 ∘ pre` reproduces `round x` when applied to `round x`, for in-range finite `x`:
the "bounds with more than six decimals" case is where `round x` leaves the range and the
clamp brings it back to a bound that rounds to the same value. -/
theorem round6_pre_round (L : WLaws o b) {x : W} (h : InRange o b x) (hf : o.fin x = true) :
    round6 o (pre o b (o.round x)) = o.round x := by
  have hfr := L.round_fin x hf
  by_cases h1 : o.lt (o.round x) b.wmin = true
  · obtain ⟨hfl, hrl⟩ := L.round_const_dn x b.wmin hf h.1 h1
    have : pre o b (o.round x) = b.wmin := by unfold pre clamp; simp [h1, hfl]
    rw [this]; unfold round6; simp [hfl, hrl]
  · by_cases h2 : o.lt b.wmax (o.round x) = true
    · obtain ⟨hfh, hrh⟩ := L.round_const_up x b.wmax hf h.2 h2
      have : pre o b (o.round x) = b.wmax := by unfold pre clamp; simp [h1, h2, hfh]
      rw [this]; unfold round6; simp [hfh, hrh]
    · have : pre o b (o.round x) = o.round x := by unfold pre clamp; simp [h1, h2, hfr]
      rw [this]; unfold round6; simp [hfr, L.round_idem x hf]

theorem prune_zero (e : W) : prune o e o.zero = o.zero := by unfold prune; split <;> rfl

theorem pre_zero (w : W) (h : w = o.zero) : pre o b w = clamp o o.zero b.wmin b.wmax := by
  subst h; unfold pre; split <;> rfl

theorem round6_zero (L : WLaws o b) : round6 o o.zero = o.zero := by
  unfold round6; simp [L.fin_zero, L.round_zero]

/-- `sw 0.0 = 0.0` as soon as some finite in-range value is pruned. -/
theorem sw_zero_of_pruned (L : WLaws o b) {x : W} (hr : InRange o b x) (hf : o.fin x = true)
    (hl : o.lt (o.abs (o.round x)) b.eps = true) : sw o b o.zero = o.zero := by
  rw [sw_eq, pre_zero _ rfl]
  unfold clamp
  by_cases h1 : o.lt o.zero b.wmin = true
  · simp only [h1, if_true]
    unfold prune; simp [L.prune_lo x h1 hf hr.1 hl]
  · by_cases h2 : o.lt b.wmax o.zero = true
    · simp only [h1, h2, if_true, if_false]
      unfold prune; simp [L.prune_hi x h2 hf hr.2 hl]
    · simp only [h1, h2, Bool.false_eq_true, if_false]
      rw [round6_zero L]; exact prune_zero _

/-- **Per-weight idempotence** of clamp → (non-finite ↦ clamp 0) → round6 → ε-prune. -/
theorem sw_idem (L : WLaws o b) (w : W) : sw o b (sw o b w) = sw o b w := by
  have hr := pre_inRange L w
  by_cases hf : o.fin (pre o b w) = true
  · by_cases hl : o.lt (o.abs (o.round (pre o b w))) b.eps = true
    · have hsw : sw o b w = o.zero := by rw [sw_eq]; unfold prune round6; simp [hf, hl]
      rw [hsw]; exact sw_zero_of_pruned L hr hf hl
    · have hsw : sw o b w = o.round (pre o b w) := by rw [sw_eq]; unfold prune round6; simp [hf, hl]
      rw [hsw, sw_eq, round6_pre_round L hr hf]
      unfold prune; simp [hl]
  · -- nothing finite to round: the result is 0.0 and `clamp 0.0` is itself not finite
    have hsw : sw o b w = o.zero := by
      rw [sw_eq]
      have : round6 o (pre o b w) = o.zero := by unfold round6; simp [hf]
      rw [this]; exact prune_zero _
    have hp : pre o b w = clamp o o.zero b.wmin b.wmax := by
      unfold pre
      by_cases hc : o.fin (clamp o w b.wmin b.wmax) = true
      · exfalso; apply hf; unfold pre; simp [hc]
      · simp [hc]
    rw [hsw, sw_eq, pre_zero _ rfl, ← hp]
    have : round6 o (pre o b w) = o.zero := by unfold round6; simp [hf]
    rw [this]; exact prune_zero _

/-- NaN (incomparable, not finite) is mapped to `sw 0.0`-like value: `prune (round6 (clamp 0))`. -/
theorem sw_nan {w : W} (hnf : o.fin w = false) (h1 : o.lt w b.wmin = false)
    (h2 : o.lt b.wmax w = false) :
    sw o b w = prune o b.eps (round6 o (clamp o o.zero b.wmin b.wmax)) := by
  rw [sw_eq]; unfold pre
  have : clamp o w b.wmin b.wmax = w := by unfold clamp; simp [h1, h2]
  rw [this]; simp [hnf]

/-- in particular NaN ↦ 0.0 when 0.0 lies within the bounds -/
theorem sw_nan_zero (L : WLaws o b) {w : W} (hnf : o.fin w = false) (h1 : o.lt w b.wmin = false)
    (h2 : o.lt b.wmax w = false) (z1 : o.lt o.zero b.wmin = false) (z2 : o.lt b.wmax o.zero = false) :
    sw o b w = o.zero := by
  rw [sw_nan hnf h1 h2]
  have : clamp o o.zero b.wmin b.wmax = o.zero := by unfold clamp; simp [z1, z2]
  rw [this, round6_zero L]; exact prune_zero _

/-- anything above the upper bound (`+inf` included) behaves exactly like the bound itself -/
theorem sw_above {w : W} (h1 : o.lt w b.wmin = false) (h2 : o.lt b.wmax w = true)
    (hf : o.fin b.wmax = true) : sw o b w = prune o b.eps (o.round b.wmax) := by
  rw [sw_eq]; unfold pre
  have : clamp o w b.wmin b.wmax = b.wmax := by unfold clamp; simp [h1, h2]
  rw [this]; unfold round6; simp [hf]

theorem sw_below {w : W} (h1 : o.lt w b.wmin = true) (hf : o.fin b.wmin = true) :
    sw o b w = prune o b.eps (o.round b.wmin) := by
  rw [sw_eq]; unfold pre
  have : clamp o w b.wmin b.wmax = b.wmin := by unfold clamp; simp [h1]
  rw [this]; unfold round6; simp [hf]

/-- `_graph_bounds_from_cfg` always yields `wmin < wmax` -/
theorem mkBounds_lt (h : o.lt o.negOne o.one = true) (gmin tmin gmax tmax e : Option W) :
    o.lt (mkBounds o gmin tmin gmax tmax e).wmin (mkBounds o gmin tmin gmax tmax e).wmax = true := by
  unfold mkBounds
  by_cases hk : o.lt (gmin.getD (tmin.getD o.negOne)) (gmax.getD (tmax.getD o.one)) = true
  · simp [hk]
  · simp [hk, h]

end Weight

/-! ## sanitised records -/

/-- What the proofs assume of `str()/float()/int()`: they are the identity on values that
already have the target type. -/
structure CvLaws {W : Type} (cv : Cv W) : Prop where
  str_str : ∀ s, cv.pyStr (.str s) = s
  float_num : ∀ x, cv.pyFloat (.num x) = some x
  int_int : ∀ n, cv.pyInt (.int n) = some n

section Rec
variable {W : Type} {o : WOps W} {cv : Cv W} {b : Bounds W}
variable (s d r : Str) (w : W) (u a : J W) (x : List (Str × J W)) (df : J W)

theorem get_src : getD kSrc df (edgeRec s d r w u a ++ x) = .str s := rfl
theorem get_dst : getD kDst df (edgeRec s d r w u a ++ x) = .str d := rfl
theorem get_rel : getD kRel df (edgeRec s d r w u a ++ x) = .str r := rfl
theorem get_weight : getD kWeight df (edgeRec s d r w u a ++ x) = .num w := rfl
theorem get_upd : getD kUpdatedAt df (edgeRec s d r w u a ++ x) = u := rfl
theorem get_attrs : getD kAttrs df (edgeRec s d r w u a ++ x) = a := rfl
theorem aget_src : aget kSrc (edgeRec s d r w u a ++ x) = some (.str s) := rfl
theorem aget_dst : aget kDst (edgeRec s d r w u a ++ x) = some (.str d) := rfl
theorem ainsert_id (v : J W) :
    ainsert kId v (edgeRec s d r w u a) = edgeRec s d r w u a ++ [(kId, v)] := rfl

variable {s d r w u a x}

theorem edSrc_rec (C : CvLaws cv) : edSrc cv (edgeRec s d r w u a ++ x) = s := by
  unfold edSrc; rw [get_src]; exact C.str_str s
theorem edDst_rec (C : CvLaws cv) : edDst cv (edgeRec s d r w u a ++ x) = d := by
  unfold edDst; rw [get_dst]; exact C.str_str d
theorem edRel_rec (C : CvLaws cv) : edRel cv (edgeRec s d r w u a ++ x) = r := by
  unfold edRel; rw [get_rel]; exact C.str_str r

theorem recEnd_src (C : CvLaws cv) : recEnd cv kSrc (edgeRec s d r w u a ++ x) = s := by
  unfold recEnd; rw [aget_src]; exact C.str_str s
theorem recEnd_dst (C : CvLaws cv) : recEnd cv kDst (edgeRec s d r w u a ++ x) = d := by
  unfold recEnd; rw [aget_dst]; exact C.str_str d

/-- One loop iteration on an already sanitised record (with or without `id`). -/
theorem edgeStep_rec (C : CvLaws cv) (acc : List (Str × J W)) :
    edgeStep o cv b acc (.obj (edgeRec s d r w u a ++ x)) =
      some (ainsert (edgeId s d r) (.obj (edgeRec s d r (sw o b w) u a)) acc) := by
  unfold edgeStep
  simp only [get_weight, C.float_num, edSrc_rec C, edDst_rec C, edRel_rec C, get_upd, get_attrs]

end Rec

/-! ## the edge loop and the re-keying loop -/
section Loops
variable {W : Type} {o : WOps W} {cv : Cv W} {b : Bounds W}

/-- the key the sanitiser files a record under -/
def sanKey (cv : Cv W) : J W → Str
  | .obj kv => edgeId (edSrc cv kv) (edDst cv kv) (edRel cv kv)
  | _ => []

/-- the record the sanitiser stores -/
def sanVal (o : WOps W) (cv : Cv W) (b : Bounds W) : J W → J W
  | .obj kv => .obj (edgeRec (edSrc cv kv) (edDst cv kv) (edRel cv kv)
      (sw o b ((cv.pyFloat (getD kWeight (.num o.zero) kv)).getD o.zero))
      (getD kUpdatedAt .null kv) (getD kAttrs (.obj []) kv))
  | _ => .null

def sanE (o : WOps W) (cv : Cv W) (b : Bounds W) (v : J W) : Str × J W := (sanKey cv v, sanVal o cv b v)

/-- a dict-shaped edge whose weight converts -/
def Good (o : WOps W) (cv : Cv W) (v : J W) : Prop :=
  ∃ kv w0, v = .obj kv ∧ cv.pyFloat (getD kWeight (.num o.zero) kv) = some w0

theorem edgeStep_good {v : J W} (h : Good o cv v) (acc : List (Str × J W)) :
    edgeStep o cv b acc v = some (ainsert (sanKey cv v) (sanVal o cv b v) acc) := by
  obtain ⟨kv, w0, rfl, hw⟩ := h
  simp [edgeStep, hw, sanKey, sanVal]

theorem edgesLoop_good (items : List (J W)) (acc : List (Str × J W))
    (hg : ∀ v ∈ items, Good o cv v) (hn : (keys acc ++ items.map (sanKey cv)).Nodup) :
    edgesLoop o cv b items acc = acc ++ items.map (sanE o cv b) := by
  induction items generalizing acc with
  | nil => simp [edgesLoop]
  | cons v t ih =>
    have hv : sanKey cv v ∉ keys acc := by
      intro hm
      exact (List.nodup_append.mp hn).2.2 _ hm _ (by simp) rfl
    rw [edgesLoop, edgeStep_good (hg v (by simp)), ainsert_of_not_mem hv]
    simp only
    rw [ih _ (fun x hx => hg x (List.mem_cons_of_mem _ hx))]
    · simp [sanE]
    · simpa [keys_append, keys] using hn

/-- an entry as `_sanitize_gel_for_write` leaves it -/
def IsSanEntry (o : WOps W) (b : Bounds W) (p : Str × J W) : Prop :=
  ∃ s d r w u a, p = (edgeId s d r, .obj (edgeRec s d r w u a)) ∧ sw o b w = w

/-- an entry as the re-keying of `write_snapshot` / `load_latest_snapshot` leaves it -/
def IsCanonEntry (o : WOps W) (b : Bounds W) (p : Str × J W) : Prop :=
  ∃ s d r w u a, sw o b w = w ∧
    (((s.isEmpty || d.isEmpty) = true ∧ p = (edgeId s d r, .obj (edgeRec s d r w u a))) ∨
     ((s.isEmpty || d.isEmpty) = false ∧
        p = (arrowKey s d, .obj (edgeRec s d r w u a ++ [(kId, .str (arrowKey s d))]))))

def SanEdges (o : WOps W) (b : Bounds W) (es : List (Str × J W)) : Prop :=
  (keys es).Nodup ∧ ∀ p ∈ es, IsSanEntry o b p

def CanonEdges (o : WOps W) (cv : Cv W) (b : Bounds W) (es : List (Str × J W)) : Prop :=
  (keys es).Nodup ∧ (∀ p ∈ es, IsCanonEntry o b p) ∧ (es.map (fun p => sanKey cv p.2)).Nodup

theorem san_of_sanEntry (C : CvLaws cv) {p : Str × J W} (h : IsSanEntry o b p) :
    Good o cv p.2 ∧ sanE o cv b p.2 = p := by
  obtain ⟨s, d, r, w, u, a, rfl, hw⟩ := h
  have e := List.append_nil (edgeRec s d r w u a)
  refine ⟨⟨_, w, rfl, ?_⟩, ?_⟩
  · have := get_weight s d r w u a [] (.num o.zero); rw [e] at this; rw [this]; exact C.float_num w
  · have h1 := edSrc_rec (cv := cv) (s := s) (d := d) (r := r) (w := w) (u := u) (a := a) (x := []) C
    have h2 := edDst_rec (cv := cv) (s := s) (d := d) (r := r) (w := w) (u := u) (a := a) (x := []) C
    have h3 := edRel_rec (cv := cv) (s := s) (d := d) (r := r) (w := w) (u := u) (a := a) (x := []) C
    have h4 := get_weight s d r w u a [] (.num o.zero)
    have h5 := get_upd s d r w u a [] (.null)
    have h6 := get_attrs s d r w u a [] (.obj [])
    rw [e] at h1 h2 h3 h4 h5 h6
    simp only [sanE, sanKey, sanVal, h1, h2, h3, h4, h5, h6, C.float_num, Option.getD_some, hw]

/-- for a canonical entry the sanitiser recomputes the `__` key and drops the `id` -/
theorem san_of_canonEntry (C : CvLaws cv) {p : Str × J W} (h : IsCanonEntry o b p) :
    Good o cv p.2 ∧ ∃ s d r w u a, sw o b w = w ∧
      sanE o cv b p.2 = (edgeId s d r, .obj (edgeRec s d r w u a)) ∧
      (((s.isEmpty || d.isEmpty) = true ∧ p = (edgeId s d r, .obj (edgeRec s d r w u a))) ∨
       ((s.isEmpty || d.isEmpty) = false ∧
          p = (arrowKey s d, .obj (edgeRec s d r w u a ++ [(kId, .str (arrowKey s d))])))) := by
  obtain ⟨s, d, r, w, u, a, hw, hp⟩ := h
  have key : ∀ x : List (Str × J W),
      Good o cv (.obj (edgeRec s d r w u a ++ x)) ∧
      sanE o cv b (.obj (edgeRec s d r w u a ++ x)) = (edgeId s d r, .obj (edgeRec s d r w u a)) := by
    intro x
    refine ⟨⟨_, w, rfl, ?_⟩, ?_⟩
    · rw [get_weight]; exact C.float_num w
    · simp only [sanE, sanKey, sanVal, edSrc_rec C, edDst_rec C, edRel_rec C, get_weight, get_upd,
        get_attrs, C.float_num, Option.getD_some, hw]
  rcases hp with ⟨he, rfl⟩ | ⟨he, rfl⟩
  · have := key []
    rw [List.append_nil] at this
    exact ⟨this.1, s, d, r, w, u, a, hw, this.2, Or.inl ⟨he, rfl⟩⟩
  · have := key [(kId, .str (arrowKey s d))]
    exact ⟨this.1, s, d, r, w, u, a, hw, this.2, Or.inr ⟨he, rfl⟩⟩

/-- the edge loop only ever produces sanitised entries under distinct keys -/
theorem edgesLoop_san (hsw : ∀ w, sw o b (sw o b w) = sw o b w) (items : List (J W))
    (acc : List (Str × J W)) (h : SanEdges o b acc) : SanEdges o b (edgesLoop o cv b items acc) := by
  induction items generalizing acc with
  | nil => simpa [edgesLoop] using h
  | cons v t ih =>
    rw [edgesLoop]
    cases v with
    | obj kv =>
      simp only [edgeStep]
      cases hw : cv.pyFloat (getD kWeight (.num o.zero) kv) with
      | none => simpa using h
      | some w0 =>
        simp only
        apply ih
        refine ⟨nodup_keys_ainsert h.1, ?_⟩
        intro p hp
        rcases mem_ainsert hp with rfl | hp
        · exact ⟨_, _, _, _, _, _, rfl, hsw w0⟩
        · exact h.2 p hp
    | null => simpa [edgeStep] using ih acc h
    | bool _ => simpa [edgeStep] using ih acc h
    | int _ => simpa [edgeStep] using ih acc h
    | num _ => simpa [edgeStep] using ih acc h
    | str _ => simpa [edgeStep] using ih acc h
    | arr _ => simpa [edgeStep] using ih acc h

/-- **sanitising sanitised edges changes nothing** -/
theorem edgesLoop_fix (C : CvLaws cv) {es : List (Str × J W)} (h : SanEdges o b es) :
    edgesLoop o cv b (es.map Prod.snd) [] = es := by
  have hg : ∀ v ∈ es.map Prod.snd, Good o cv v := by
    intro v hv
    obtain ⟨p, hp, rfl⟩ := List.mem_map.mp hv
    exact (san_of_sanEntry C (h.2 p hp)).1
  have hk : (es.map Prod.snd).map (sanKey cv) = keys es := by
    simp only [List.map_map, keys]
    apply List.map_congr_left
    intro p hp
    have := (san_of_sanEntry (o := o) (b := b) C (h.2 p hp)).2
    simpa [sanE] using congrArg Prod.fst this
  rw [edgesLoop_good _ _ hg (by simpa [keys, hk] using h.1)]
  simp only [List.nil_append, List.map_map]
  conv => rhs; rw [← List.map_id es]
  apply List.map_congr_left
  intro p hp
  exact (san_of_sanEntry C (h.2 p hp)).2

/-- one re-keying step on a sanitised entry -/
theorem rekeyStep_san (C : CvLaws cv) (acc : List (Str × J W)) (s d r : Str) (w : W) (u a : J W) :
    rekeyStep cv acc (edgeId s d r, .obj (edgeRec s d r w u a)) =
      if (s.isEmpty || d.isEmpty) = true then ainsert (edgeId s d r) (.obj (edgeRec s d r w u a)) acc
      else ainsert (arrowKey s d) (.obj (edgeRec s d r w u a ++ [(kId, .str (arrowKey s d))])) acc := by
  have e := List.append_nil (edgeRec s d r w u a)
  have h1 := recEnd_src (cv := cv) (s := s) (d := d) (r := r) (w := w) (u := u) (a := a) (x := []) C
  have h2 := recEnd_dst (cv := cv) (s := s) (d := d) (r := r) (w := w) (u := u) (a := a) (x := []) C
  rw [e] at h1 h2
  simp only [rekeyStep, h1, h2, ainsert_id]

theorem rekey_canon_aux (C : CvLaws cv) (l acc : List (Str × J W))
    (ha : CanonEdges o cv b acc) (hl : ∀ p ∈ l, IsSanEntry o b p) (hn : (keys l).Nodup)
    (hd : ∀ q ∈ acc, sanKey cv q.2 ∉ keys l) :
    CanonEdges o cv b (l.foldl (rekeyStep cv) acc) := by
  induction l generalizing acc with
  | nil => simpa using ha
  | cons p t ih =>
    obtain ⟨s, d, r, w, u, a, rfl, hw⟩ := hl p (by simp)
    simp only [List.foldl_cons]
    simp only [keys, List.map_cons, List.nodup_cons] at hn
    apply ih
    · -- the new accumulator is canonical
      rw [rekeyStep_san C]
      have hfresh : edgeId s d r ∉ acc.map (fun q => sanKey cv q.2) := by
        intro hm
        obtain ⟨q, hq, he⟩ := List.mem_map.mp hm
        exact hd q hq (by simp [keys, he])
      split
      · rename_i he
        have hsk : sanKey cv (.obj (edgeRec s d r w u a)) = edgeId s d r := by
          have := (san_of_sanEntry (o := o) (b := b) (cv := cv) C ⟨s, d, r, w, u, a, rfl, hw⟩).2
          simpa [sanE] using congrArg Prod.fst this
        refine ⟨nodup_keys_ainsert ha.1, ?_, ?_⟩
        · intro q hq
          rcases mem_ainsert hq with rfl | hq
          · exact ⟨s, d, r, w, u, a, hw, Or.inl ⟨he, rfl⟩⟩
          · exact ha.2.1 q hq
        · exact map_snd_ainsert_nodup (sanKey cv) ha.2.2 (by rw [hsk]; exact hfresh)
      · rename_i he
        have he' : (s.isEmpty || d.isEmpty) = false := by simpa using he
        have hsk : sanKey cv (.obj (edgeRec s d r w u a ++ [(kId, .str (arrowKey s d))])) = edgeId s d r := by
          simp only [sanKey, edSrc_rec C, edDst_rec C, edRel_rec C]
        refine ⟨nodup_keys_ainsert ha.1, ?_, ?_⟩
        · intro q hq
          rcases mem_ainsert hq with rfl | hq
          · exact ⟨s, d, r, w, u, a, hw, Or.inr ⟨he', rfl⟩⟩
          · exact ha.2.1 q hq
        · exact map_snd_ainsert_nodup (sanKey cv) ha.2.2 (by rw [hsk]; exact hfresh)
    · exact fun q hq => hl q (List.mem_cons_of_mem _ hq)
    · exact hn.2
    · -- eids in the new accumulator stay away from the remaining keys
      intro q hq hm
      rw [rekeyStep_san C] at hq
      have hsk1 : sanKey cv (.obj (edgeRec s d r w u a)) = edgeId s d r := by
        have := (san_of_sanEntry (o := o) (b := b) (cv := cv) C ⟨s, d, r, w, u, a, rfl, hw⟩).2
        simpa [sanE] using congrArg Prod.fst this
      have hsk2 : sanKey cv (.obj (edgeRec s d r w u a ++ [(kId, .str (arrowKey s d))])) = edgeId s d r := by
        simp only [sanKey, edSrc_rec C, edDst_rec C, edRel_rec C]
      have hq' : sanKey cv q.2 = edgeId s d r ∨ q ∈ acc := by
        split at hq
        · rcases mem_ainsert hq with rfl | hq
          · exact Or.inl hsk1
          · exact Or.inr hq
        · rcases mem_ainsert hq with rfl | hq
          · exact Or.inl hsk2
          · exact Or.inr hq
      rcases hq' with h | h
      · rw [h] at hm; exact hn.1 (by simpa [keys] using hm)
      · exact hd q h (by simp only [keys, List.map_cons, List.mem_cons]; exact Or.inr (by simpa [keys] using hm))

/-- re-keying sanitised edges gives a canonical edge dictionary -/
theorem rekey_canon (C : CvLaws cv) {es : List (Str × J W)} (h : SanEdges o b es) :
    CanonEdges o cv b (rekey cv es) :=
  rekey_canon_aux C es [] ⟨by simp [keys], by simp, by simp⟩ h.2 h.1 (by simp)

theorem rekey_fix_aux (C : CvLaws cv) (l acc : List (Str × J W))
    (hl : ∀ p ∈ l, IsCanonEntry o b p) (hn : (keys (acc ++ l)).Nodup) :
    (l.map (fun p => sanE o cv b p.2)).foldl (rekeyStep cv) acc = acc ++ l := by
  induction l generalizing acc with
  | nil => simp
  | cons p t ih =>
    have hp : p.1 ∉ keys acc := by
      rw [keys_append] at hn
      intro hm
      exact (List.nodup_append.mp hn).2.2 _ hm _ (by simp [keys]) rfl
    obtain ⟨_, s, d, r, w, u, a, hw, hs, hc⟩ := san_of_canonEntry (cv := cv) C (hl p (by simp))
    simp only [List.map_cons, List.foldl_cons, hs]
    rw [rekeyStep_san C]
    have hstep : (if (s.isEmpty || d.isEmpty) = true then
          ainsert (edgeId s d r) (.obj (edgeRec s d r w u a)) acc
        else ainsert (arrowKey s d) (.obj (edgeRec s d r w u a ++ [(kId, .str (arrowKey s d))])) acc)
        = acc ++ [p] := by
      rcases hc with ⟨he, rfl⟩ | ⟨he, rfl⟩
      · simp only [he, if_true]; exact ainsert_of_not_mem hp
      · simp only [he, Bool.false_eq_true, if_false]; exact ainsert_of_not_mem hp
    rw [hstep, ih _ (fun q hq => hl q (List.mem_cons_of_mem _ hq))]
    · simp
    · simpa using hn

/-- **sanitise-then-re-key is the identity on a canonical edge dictionary** -/
theorem rekey_edgesLoop_fix (C : CvLaws cv) {es : List (Str × J W)} (h : CanonEdges o cv b es) :
    rekey cv (edgesLoop o cv b (es.map Prod.snd) []) = es ∧
    (edgesLoop o cv b (es.map Prod.snd) []).length = es.length := by
  have hg : ∀ v ∈ es.map Prod.snd, Good o cv v := by
    intro v hv
    obtain ⟨p, hp, rfl⟩ := List.mem_map.mp hv
    exact (san_of_canonEntry C (h.2.1 p hp)).1
  have hk : (es.map Prod.snd).map (sanKey cv) = es.map (fun p => sanKey cv p.2) := by
    simp [List.map_map, Function.comp_def]
  have hloop := edgesLoop_good (o := o) (cv := cv) (b := b) (es.map Prod.snd) [] hg
    (by simpa [keys, hk] using h.2.2)
  rw [hloop]
  constructor
  · simp only [List.nil_append, List.map_map, rekey]
    have := rekey_fix_aux (o := o) (cv := cv) (b := b) C es [] h.2.1 (by simpa using h.1)
    simpa [Function.comp_def] using this
  · simp

end Loops

/-! ## whole-graph level -/
section GelLevel
variable {W : Type} {o : WOps W} {cv : Cv W} {b : Bounds W}

theorem nodesLoop_nodup (xs : List (J W)) (acc : List (Str × J W)) (h : (keys acc).Nodup) :
    (keys (nodesLoop o cv xs acc)).Nodup := by
  induction xs generalizing acc with
  | nil => simpa [nodesLoop] using h
  | cons nd t ih =>
    cases nd with
    | obj kv =>
      simp only [nodesLoop]
      split
      · exact ih _ h
      · exact ih _ (nodup_keys_ainsert h)
    | null => simp only [nodesLoop]; split; exact h; exact ih _ h
    | bool _ => simp only [nodesLoop]; split; exact h; exact ih _ h
    | int _ => simp only [nodesLoop]; split; exact h; exact ih _ h
    | num _ => simp only [nodesLoop]; split; exact h; exact ih _ h
    | str _ => simp only [nodesLoop]; split; exact h; exact ih _ h
    | arr _ => simp only [nodesLoop]; split; exact h; exact ih _ h

theorem nodesOf_nodup (g : J W) : (keys (nodesOf o cv g)).Nodup := by
  unfold nodesOf
  split
  · exact nodup_keys_ofPairs _
  · exact nodesLoop_nodup _ _ (by simp [keys])
  · simp [keys]

theorem nodesOf_toJ {G : Gel W} (h : (keys G.nodes).Nodup) : nodesOf o cv G.toJ = G.nodes := by
  show ofPairs G.nodes = G.nodes
  exact ofPairs_of_nodup h

theorem edgeItems_toJ (G : Gel W) : edgeItems G.toJ = G.edges.map Prod.snd := rfl

theorem metaIn_toJ (G : Gel W) : metaIn o G.toJ = some G.mta := rfl

theorem listOr_of_aget {k : Str} {l : List (Str × J W)} {xs : List (J W)}
    (h : aget k l = some (.arr xs)) : listOr k l = .arr xs := by
  unfold listOr; rw [h]

theorem listOr_isArr (k : Str) (l : List (Str × J W)) : ∃ xs, listOr k l = .arr xs := by
  unfold listOr; split <;> exact ⟨_, rfl⟩

theorem metaOut_congr (mi mi' : List (Str × J W)) (m : Nat)
    (h1 : listOr kMerges mi' = listOr kMerges mi) (h2 : listOr kSplits mi' = listOr kSplits mi)
    (h3 : listOr kPromotions mi' = listOr kPromotions mi)
    (h4 : (cv.pyInt (getD kCnc (.int 0) mi')).getD 0 = (cv.pyInt (getD kCnc (.int 0) mi)).getD 0) :
    metaOut cv mi' m = metaOut cv mi m := by
  unfold metaOut; rw [h1, h2, h3, h4]

/-- the meta block is rebuilt identically from itself (only `edges_count` follows its argument) -/
theorem metaOut_metaOut (C : CvLaws cv) (mi : List (Str × J W)) (n m : Nat) :
    metaOut cv (metaOut cv mi n) m = metaOut cv mi m := by
  obtain ⟨x1, h1⟩ := listOr_isArr kMerges mi
  obtain ⟨x2, h2⟩ := listOr_isArr kSplits mi
  obtain ⟨x3, h3⟩ := listOr_isArr kPromotions mi
  apply metaOut_congr
  · unfold metaOut; rw [h1]; rfl
  · unfold metaOut; rw [h2]; rfl
  · unfold metaOut; rw [h3]; rfl
  · have : getD kCnc (.int 0) (metaOut cv mi n) = .int ((cv.pyInt (getD kCnc (.int 0) mi)).getD 0) := rfl
    rw [this, C.int_int]
    rfl

theorem rekeyW_metaOut (nodes es : List (Str × J W)) (mi : List (Str × J W)) (n : Nat) :
    rekeyW cv { nodes := nodes, edges := es, mta := metaOut cv mi n } =
      { nodes := nodes, edges := rekey cv es, mta := metaOut cv mi (rekey cv es).length } := rfl

theorem aget_lastUpdate_metaOut (mi : List (Str × J W)) (n : Nat) :
    aget kLastUpdate (metaOut cv mi n) = none := rfl

/-- shape of everything `write_snapshot` stores under `"gel"` (sanitised + re-keyed) -/
def CanonGel (o : WOps W) (cv : Cv W) (b : Bounds W) (G : Gel W) : Prop :=
  (keys G.nodes).Nodup ∧ CanonEdges o cv b G.edges ∧ ∃ mi, G.mta = metaOut cv mi G.edges.length

/-- shape of everything `_sanitize_gel_for_write` returns -/
def SanGel (o : WOps W) (cv : Cv W) (b : Bounds W) (S : Gel W) : Prop :=
  (keys S.nodes).Nodup ∧ SanEdges o b S.edges ∧ ∃ mi, S.mta = metaOut cv mi S.edges.length

theorem sanitizeW_san (hsw : ∀ w, sw o b (sw o b w) = sw o b w) {g : J W} {S : Gel W}
    (h : sanitizeW o cv b g = some S) : SanGel o cv b S := by
  unfold sanitizeW at h
  split at h
  · cases h
  · rename_i mi _
    cases h
    exact ⟨nodesOf_nodup g, edgesLoop_san hsw _ _ ⟨by simp [keys], by simp⟩, mi, rfl⟩

theorem canonW_canon (C : CvLaws cv) (hsw : ∀ w, sw o b (sw o b w) = sw o b w) {g : J W} {G : Gel W}
    (h : canonW o cv b g = some G) : CanonGel o cv b G := by
  unfold canonW at h
  cases hs : sanitizeW o cv b g with
  | none => rw [hs] at h; cases h
  | some S =>
    rw [hs] at h
    obtain ⟨hn, he, mi, hm⟩ := sanitizeW_san hsw hs
    have : S = { nodes := S.nodes, edges := S.edges, mta := metaOut cv mi S.edges.length } := by
      cases S; simp_all
    rw [this, Option.map_some, rekeyW_metaOut] at h
    cases h
    exact ⟨hn, rekey_canon C he, mi, rfl⟩

/-- **`_sanitize_gel_for_write` is idempotent** (on its own output, as a JSON value). -/
theorem sanitizeW_fix (C : CvLaws cv) {S : Gel W} (h : SanGel o cv b S) :
    sanitizeW o cv b S.toJ = some S := by
  obtain ⟨hn, he, mi, hm⟩ := h
  unfold sanitizeW
  rw [metaIn_toJ]
  simp only
  have e1 : edgesOf o cv b S.toJ = S.edges := by
    unfold edgesOf; rw [edgeItems_toJ]; exact edgesLoop_fix C he
  rw [e1, nodesOf_toJ hn, hm, metaOut_metaOut C]
  cases S; simp_all

/-- **`write_snapshot`'s gel section is a fixpoint of sanitise + re-key (write path)**. -/
theorem canonW_fix (C : CvLaws cv) {G : Gel W} (h : CanonGel o cv b G) :
    canonW o cv b G.toJ = some G := by
  obtain ⟨hn, he, mi, hm⟩ := h
  obtain ⟨hr, hl⟩ := rekey_edgesLoop_fix C he
  unfold canonW sanitizeW
  rw [metaIn_toJ]
  simp only [Option.map_some]
  have e1 : edgesOf o cv b G.toJ = edgesLoop o cv b (G.edges.map Prod.snd) [] := by
    unfold edgesOf; rw [edgeItems_toJ]
  rw [e1, nodesOf_toJ hn, hm, metaOut_metaOut C, rekeyW_metaOut, hr]
  cases G; simp_all

/-- … and of the load path: **loading what was written yields exactly what was written**. -/
theorem canonL_fix (C : CvLaws cv) {G : Gel W} (h : CanonGel o cv b G) :
    canonL o cv b G.toJ = some G := by
  obtain ⟨hn, he, mi, hm⟩ := h
  obtain ⟨nodes, edges, mta⟩ := G
  simp only at hn he hm
  subst hm
  obtain ⟨hr, hl⟩ := rekey_edgesLoop_fix C he
  have hs : sanitizeW o cv b (Gel.mk nodes edges (metaOut cv mi edges.length)).toJ = some (Gel.mk nodes
      (edgesLoop o cv b (edges.map Prod.snd) []) (metaOut cv mi edges.length)) := by
    unfold sanitizeW
    rw [metaIn_toJ]
    simp only
    have e1 : edgesOf o cv b (Gel.mk nodes edges (metaOut cv mi edges.length)).toJ
        = edgesLoop o cv b (edges.map Prod.snd) [] := by
      unfold edgesOf; rw [edgeItems_toJ]
    rw [e1, nodesOf_toJ hn, metaOut_metaOut C, hl]
  have hmeta : aget kMeta [(kNodes, J.obj nodes), (kEdges, .obj edges),
      (kMeta, .obj (metaOut cv mi edges.length))] = some (.obj (metaOut cv mi edges.length)) := rfl
  unfold canonL sanitizeL
  rw [hs]
  simp only [Gel.toJ, hmeta, aget_lastUpdate_metaOut, Option.map_some, rekeyL, hr]

end GelLevel

/-! ## store round trip -/
section StoreRT
variable {W : Type} {o : WOps W} {cv : Cv W} {b : Bounds W}

theorem importItem_weightItem (C : CvLaws cv) (a b' c : Str) (v : W) :
    (weightItem [a, b', c] v).bind (importItem o cv) = some ([a, b', c], v) := by
  simp only [weightItem, Option.bind_some, importItem]
  have h1 : getD kValue (.num o.zero) [(kTargetKind, J.str a), (kTargetId, .str b'), (kAttr, .str c),
      (kValue, .num v)] = .num v := rfl
  have h2 : getD kTargetKind (.str sNode) [(kTargetKind, J.str a), (kTargetId, .str b'), (kAttr, .str c),
      (kValue, J.num v)] = .str a := rfl
  have h3 : getD kTargetId (.str []) [(kTargetKind, J.str a), (kTargetId, .str b'), (kAttr, .str c),
      (kValue, J.num v)] = .str b' := rfl
  have h4 : getD kAttr (.str kWeight) [(kTargetKind, J.str a), (kTargetId, .str b'), (kAttr, .str c),
      (kValue, J.num v)] = .str c := rfl
  rw [h1, C.float_num, h2, h3, h4, C.str_str, C.str_str, C.str_str]

/-- importing the exported `.w` entries rebuilds the map, in order -/
theorem importLoop_export (C : CvLaws cv) (w acc : List (List Str × W))
    (h3 : ∀ p ∈ w, p.1.length = 3) (hn : (keys (acc ++ w)).Nodup) :
    importLoop o cv (w.filterMap (fun p => weightItem p.1 p.2)) acc = some (acc ++ w) := by
  induction w generalizing acc with
  | nil => simp [importLoop]
  | cons p t ih =>
    obtain ⟨k, v⟩ := p
    have hk := h3 (k, v) (by simp)
    match k, hk with
    | [a, b', c], _ =>
      have hp : [a, b', c] ∉ keys acc := by
        rw [keys_append] at hn
        intro hm
        exact (List.nodup_append.mp hn).2.2 _ hm _ (by simp [keys]) rfl
      have hi := importItem_weightItem (o := o) (cv := cv) C a b' c v
      simp only [weightItem, Option.bind_some] at hi
      have hfm : List.filterMap (fun p : List Str × W => weightItem p.1 p.2) (([a, b', c], v) :: t)
          = J.obj [(kTargetKind, J.str a), (kTargetId, .str b'), (kAttr, .str c), (kValue, .num v)]
            :: List.filterMap (fun p : List Str × W => weightItem p.1 p.2) t :=
        List.filterMap_cons_some rfl
      rw [hfm, importLoop, hi]
      simp only
      rw [ainsert_of_not_mem hp, ih _ (fun q hq => h3 q (List.mem_cons_of_mem _ hq))]
      · simp
      · simpa using hn

/-- Which (written store, fresh store) pairs round-trip. -/
inductive StoreOk : Store W → Store W → Prop
  | abs : StoreOk .absent .absent
  | oth : StoreOk .other .other
  | opq (st st0 : J W) : StoreOk (.opaque st) (.opaque st0)
  | wm (w w0 : List (List Str × W)) : (∀ p ∈ w, p.1.length = 3) → (keys w).Nodup →
      StoreOk (.wmap w) (.wmap w0)

/-- **store weights / opaque store state are restored exactly** -/
theorem loadStore_export (C : CvLaws cv) {s fresh : Store W} (h : StoreOk s fresh) :
    (loadStore o cv fresh (some (exportStore s))).1 = s := by
  cases h with
  | abs => rfl
  | oth => rfl
  | opq st st0 => rfl
  | wm w w0 h3 hn =>
    have := importLoop_export (o := o) (cv := cv) C w [] h3 (by simpa using hn)
    have ha : aget kWeights [(kWeights, J.arr (w.filterMap (fun p => weightItem p.1 p.2)))]
        = some (.arr (w.filterMap (fun p => weightItem p.1 p.2))) := rfl
    have hb : aget kState [(kWeights, J.arr (w.filterMap (fun p => weightItem p.1 p.2)))]
        = none := rfl
    simp only [loadStore, exportStore, importStore, ha, hb, this, List.nil_append]

end StoreRT

/-! ## discovery -/
section Pick

theorem firstMax_mem {α : Type} (key : α → Int) {l : List α} {a : α} (h : firstMax key l = some a) :
    a ∈ l := by
  induction l generalizing a with
  | nil => simp [firstMax] at h
  | cons x t ih =>
    simp only [firstMax] at h
    cases hm : firstMax key t with
    | none => rw [hm] at h; simp at h; simp [h]
    | some m =>
      rw [hm] at h
      simp only at h
      split at h
      · cases h; exact List.mem_cons_of_mem _ (ih hm)
      · cases h; simp

theorem firstMax_max {α : Type} (key : α → Int) {l : List α} {a : α} (h : firstMax key l = some a) :
    ∀ x ∈ l, key x ≤ key a := by
  induction l generalizing a with
  | nil => simp
  | cons y t ih =>
    simp only [firstMax] at h
    cases hm : firstMax key t with
    | none =>
      rw [hm] at h; simp at h; subst h
      have : t = [] := by
        cases t with
        | nil => rfl
        | cons z t' =>
          simp only [firstMax] at hm
          cases h2 : firstMax key t' <;> rw [h2] at hm <;> simp at hm
          split at hm <;> cases hm
      subst this; simp
    | some m =>
      rw [hm] at h
      simp only at h
      have hmx := ih hm
      split at h
      · cases h
        intro x hx
        rcases List.mem_cons.mp hx with rfl | hx
        · omega
        · exact hmx x hx
      · cases h
        intro x hx
        rcases List.mem_cons.mp hx with rfl | hx
        · omega
        · have := hmx x hx; omega

theorem firstMax_none {α : Type} (key : α → Int) {l : List α} (h : firstMax key l = none) : l = [] := by
  cases l with
  | nil => rfl
  | cons z t =>
    simp only [firstMax] at h
    cases h2 : firstMax key t <;> rw [h2] at h <;> simp at h
    split at h <;> cases h

theorem firstMax_some_of_ne_nil {α : Type} (key : α → Int) {l : List α} (h : l ≠ []) :
    ∃ a, firstMax key l = some a := by
  cases hm : firstMax key l with
  | none => exact absurd (firstMax_none key hm) h
  | some a => exact ⟨a, rfl⟩

def isJson (e : Ent) : Bool := endsWith e.name sDotJson
def numOf (e : Ent) : Int := (natOfDigits (stemOf e.name) : Int)

/-- classification of `pickLatest`'s result -/
theorem pickLatest_cases (l : List Ent) :
    (∃ e, pickLatest l = some e.name ∧ e ∈ l ∧ isJson e = true ∧ isNumbered e.name = true ∧
        ∀ x ∈ l, isJson x = true → isNumbered x.name = true → numOf x ≤ numOf e) ∨
    ((∀ x ∈ l, isJson x = true → isNumbered x.name = false) ∧
      ∃ e, pickLatest l = some e.name ∧ e ∈ l ∧ isJson e = true ∧ startsWith e.name sStatePfx = true ∧
        ∀ x ∈ l, isJson x = true → startsWith x.name sStatePfx = true → x.mtime ≤ e.mtime) ∨
    ((∀ x ∈ l, isJson x = true → isNumbered x.name = false) ∧
      (∀ x ∈ l, isJson x = true → startsWith x.name sStatePfx = false) ∧
      ∃ e, pickLatest l = some e.name ∧ e ∈ l ∧ isJson e = true ∧
        ∀ x ∈ l, isJson x = true → x.mtime ≤ e.mtime) ∨
    (pickLatest l = none ∧ ∀ x ∈ l, isJson x = false) := by
  unfold pickLatest
  simp only
  cases h1 : firstMax (fun e => (natOfDigits (stemOf e.name) : Int))
      ((l.filter (fun e => endsWith e.name sDotJson)).filter (fun e => isNumbered e.name)) with
  | some e =>
    left
    have hm := firstMax_mem _ h1
    have hx := firstMax_max _ h1
    simp only [List.mem_filter] at hm hx
    exact ⟨e, rfl, hm.1.1, hm.1.2, hm.2, fun x hxl hj hn => hx x ⟨⟨hxl, hj⟩, hn⟩⟩
  | none =>
    right
    have hnone := firstMax_none _ h1
    have hnn : ∀ x ∈ l, isJson x = true → isNumbered x.name = false := by
      intro x hx hj
      cases hq : isNumbered x.name with
      | false => rfl
      | true =>
        have : x ∈ (l.filter (fun e => endsWith e.name sDotJson)).filter (fun e => isNumbered e.name) := by
          simp only [List.mem_filter]; exact ⟨⟨hx, hj⟩, hq⟩
        rw [hnone] at this; simp at this
    cases h2 : firstMax Ent.mtime
        ((l.filter (fun e => endsWith e.name sDotJson)).filter (fun e => startsWith e.name sStatePfx)) with
    | some e =>
      left
      have hm := firstMax_mem _ h2
      have hx := firstMax_max _ h2
      simp only [List.mem_filter] at hm hx
      exact ⟨hnn, e, rfl, hm.1.1, hm.1.2, hm.2, fun x hxl hj hn => hx x ⟨⟨hxl, hj⟩, hn⟩⟩
    | none =>
      right
      have hnone2 := firstMax_none _ h2
      have hns : ∀ x ∈ l, isJson x = true → startsWith x.name sStatePfx = false := by
        intro x hx hj
        cases hq : startsWith x.name sStatePfx with
        | false => rfl
        | true =>
          have : x ∈ (l.filter (fun e => endsWith e.name sDotJson)).filter
              (fun e => startsWith e.name sStatePfx) := by
            simp only [List.mem_filter]; exact ⟨⟨hx, hj⟩, hq⟩
          rw [hnone2] at this; simp at this
      cases h3 : firstMax Ent.mtime (l.filter (fun e => endsWith e.name sDotJson)) with
      | some e =>
        left
        have hm := firstMax_mem _ h3
        have hx := firstMax_max _ h3
        simp only [List.mem_filter] at hm hx
        exact ⟨hnn, hns, e, rfl, hm.1, hm.2, fun x hxl hj => hx x ⟨hxl, hj⟩⟩
      | none =>
        right
        have hnone3 := firstMax_none _ h3
        refine ⟨rfl, ?_⟩
        intro x hx
        cases hq : isJson x with
        | false => rfl
        | true =>
          have : x ∈ l.filter (fun e => endsWith e.name sDotJson) := by
            simp only [List.mem_filter]; exact ⟨hx, hq⟩
          rw [hnone3] at this; simp at this

/-- a name ending in `.json` does not end in `.meta` -/
theorem not_meta_of_json {n : Str} (h : endsWith n sDotJson = true) : endsWith n sDotMeta = false := by
  unfold endsWith at h ⊢
  simp only [Bool.and_eq_true, decide_eq_true_eq, beq_iff_eq] at h
  have hl : sDotMeta.length = sDotJson.length := rfl
  rw [hl]
  cases hq : (decide (sDotJson.length ≤ n.length) && n.drop (n.length - sDotJson.length) == sDotMeta) with
  | false => rfl
  | true =>
    simp only [Bool.and_eq_true, decide_eq_true_eq, beq_iff_eq] at hq
    rw [h.2] at hq
    exact absurd hq.2 (by decide)

/-- … and is not an atomic-write temporary (`….XXXXXXXX` with no dot in the suffix) -/
theorem not_temp_of_json {n : Str} (h : endsWith n sDotJson = true) : isAtomicTemp n = false := by
  unfold endsWith at h
  simp only [Bool.and_eq_true, decide_eq_true_eq, beq_iff_eq] at h
  obtain ⟨hlen, hd⟩ := h
  have h5 : sDotJson.length = 5 := rfl
  rw [h5] at hlen hd
  unfold isAtomicTemp
  cases h9 : decide (9 ≤ n.length) with
  | false => simp
  | true =>
    simp only [decide_eq_true_eq] at h9
    have hdd : (n.drop (n.length - 8)).drop 3 = n.drop (n.length - 5) := by
      rw [List.drop_drop]; congr 1; omega
    have hmem : 46 ∈ n.drop (n.length - 8) := by
      apply List.mem_of_mem_drop (i := 3)
      rw [hdd, hd]; decide
    simp [hmem]

end Pick

/-! ## payload level -/
section Payload
variable {W : Type} {o : WOps W} {cv : Cv W} {b : Bounds W}

theorem payload_version (i : WriteIn W) :
    getD kVersionEtag .null (payloadKV o cv b i) = i.version := rfl
theorem payload_store (i : WriteIn W) :
    aget kStore (payloadKV o cv b i) = some (exportStore i.store) := rfl
theorem payload_snapGel (i : WriteIn W) :
    snapGelOf (payloadKV o cv b i) = (gelSection o cv b i).1.toJ := rfl
theorem orEmptyGel_toJ (G : Gel W) : orEmptyGel o G.toJ = G.toJ := rfl

theorem gelSection_of {i : WriteIn W} {G : Gel W} (h : canonW o cv b (graphState o i) = some G) :
    gelSection o cv b i = (G, true) := by unfold gelSection; rw [h]

theorem loadedGel_payload (L : WLaws o b) (C : CvLaws cv) {i : WriteIn W} {G : Gel W}
    (h : canonW o cv b (graphState o i) = some G) : loadedGel o cv b (payloadKV o cv b i) = G := by
  unfold loadedGel
  rw [payload_snapGel, gelSection_of h, orEmptyGel_toJ, canonL_fix C (canonW_canon C (sw_idem L) h)]

/-- the hypotheses under which a state round-trips byte for byte -/
structure Stable (o : WOps W) (cv : Cv W) (b : Bounds W) (fresh : Store W) (i : WriteIn W) : Prop where
  version_str : ∃ v, i.version = .str v
  gel_ok : ∃ G, canonW o cv b (graphState o i) = some G
  store_ok : StoreOk i.store fresh

/-- write → load into a fresh state → the state the next write sees -/
def reload (o : WOps W) (cv : Cv W) (b : Bounds W) (fresh : Store W) (i : WriteIn W) : WriteIn W :=
  match loadFrom o cv b (payloadOf o cv b i) fresh with
  | some l => rewriteIn i l
  | none => i

theorem graphState_toJ (i : WriteIn W) (G : Gel W) (h1 : i.graph = G.toJ) :
    graphState o i = G.toJ := by
  unfold graphState; rw [h1]; rfl

/-- `n` write → load-into-fresh-state rounds -/
def reloadN (o : WOps W) (cv : Cv W) (b : Bounds W) (fresh : Store W) : Nat → WriteIn W → WriteIn W
  | 0, i => i
  | n + 1, i => reload o cv b fresh (reloadN o cv b fresh n i)

end Payload

end Clem.Snap
