import Clem.Proofs.GelBounds

/-! The decay step satisfies its relational specification `tickSpecB`. -/
namespace Clem.Gel
open Clem.Py

set_option linter.unusedSectionVars false
variable {α : Type} [Field α] [LinearOrder α] [IsStrictOrderedRing α]

theorem tickEdge_none {f floor : α} {turn : Option Int} {e : Edge α}
    (h : below f floor e = true) : tickEdge f floor turn e = none := by
  simp [tickEdge, h]

theorem tickEdge_some' {f floor : α} (turn : Option Int) {e : Edge α}
    (h : below f floor e = false) : ∃ e', tickEdge f floor turn e = some e' := by
  simp [tickEdge, h]

/-- what the specification asks of a (kept edge, its image) pair -/
def tickPairOk (p : Edge α × Edge α) : Bool :=
  NumGel.le (NumGel.abs p.2.w) (NumGel.abs p.1.w) && p.1.src == p.2.src && p.1.dst == p.2.dst
    && p.1.concept == p.2.concept && p.1.coact == p.2.coact

theorem tick_walk (f floor : α) (hf0 : 0 ≤ f) (hf1 : f ≤ 1) (turn : Option Int) (es : List (Edge α)) :
    (es.filter (fun e => !(below f floor e))).map Edge.key
        = (es.filterMap (tickEdge f floor turn)).map Edge.key ∧
    ((es.filter (fun e => !(below f floor e))).zip (es.filterMap (tickEdge f floor turn))).all tickPairOk
        = true ∧
    (es.filter (below f floor)).length + (es.filterMap (tickEdge f floor turn)).length = es.length ∧
    (es.filter (tickChanged f floor)).length ≤ (es.filterMap (tickEdge f floor turn)).length := by
  induction es with
  | nil => simp
  | cons e t ih =>
    obtain ⟨ih1, ih2, ih3, ih4⟩ := ih
    cases hb : below f floor e with
    | true =>
      have hn := tickEdge_none (turn := turn) hb
      have hc : tickChanged f floor e = false := by simp [tickChanged, hb]
      simp only [List.filter_cons, hb, hn, hc, List.filterMap_cons, Bool.not_true]
      refine ⟨by simpa using ih1, by simpa using ih2, ?_, by simpa using ih4⟩
      simp only [if_true, List.length_cons]; omega
    | false =>
      obtain ⟨e', he'⟩ := tickEdge_some' turn hb
      obtain ⟨_, hw, hk, hsrc, hdst, hcon, hco⟩ := tickEdge_some he'
      simp only [List.filter_cons, hb, he', List.filterMap_cons, Bool.not_false, if_true,
        List.map_cons, List.zip_cons_cons, List.all_cons, List.length_cons]
      refine ⟨by rw [hk, ih1], ?_, ?_, ?_⟩
      · rw [ih2, Bool.and_true]
        simp only [tickPairOk, num_le, num_abs, hw, hsrc, hdst, hcon, hco, beq_self_eq_true,
          Bool.and_true, decide_eq_true_eq]
        exact decay_abs_le hf0 hf1
      · simp only [Bool.false_eq_true, if_false]; omega
      · split
        · simp only [List.length_cons]; omega
        · omega

theorem tickSpec_holds (f floor : α) (hf0 : 0 ≤ f) (hf1 : f ≤ 1) (turn : Option Int)
    (es : List (Edge α)) :
    tickSpecB f floor es (es.filterMap (tickEdge f floor turn))
      ⟨(es.filter (tickChanged f floor)).length, (es.filter (below f floor)).length⟩ = true := by
  obtain ⟨h1, h2, h3, h4⟩ := tick_walk f floor hf0 hf1 turn es
  unfold tickSpecB
  simp only [Bool.and_eq_true, beq_iff_eq, decide_eq_true_eq]
  refine ⟨⟨⟨h1, ?_⟩, h3⟩, h4⟩
  have : (fun p : Edge α × Edge α => NumGel.le (NumGel.abs p.2.w) (NumGel.abs p.1.w) && p.1.src == p.2.src
      && p.1.dst == p.2.dst && p.1.concept == p.2.concept && p.1.coact == p.2.coact) = tickPairOk := rfl
  rw [this]; exact h2

/-- keys of the survivors / accounting of the dropped edges (no assumption on the factor). -/
theorem tick_keys (f floor : α) (turn : Option Int) (es : List (Edge α)) :
    (es.filter (fun e => !(below f floor e))).map Edge.key
        = (es.filterMap (tickEdge f floor turn)).map Edge.key ∧
    (es.filter (below f floor)).length + (es.filterMap (tickEdge f floor turn)).length = es.length := by
  induction es with
  | nil => simp
  | cons e t ih =>
    obtain ⟨ih1, ih3⟩ := ih
    cases hb : below f floor e with
    | true =>
      have hn := tickEdge_none (turn := turn) hb
      simp only [List.filter_cons, hb, hn, List.filterMap_cons, Bool.not_true]
      refine ⟨by simpa using ih1, ?_⟩
      simp only [if_true, List.length_cons]; omega
    | false =>
      obtain ⟨e', he'⟩ := tickEdge_some' turn hb
      obtain ⟨_, _, hk, _⟩ := tickEdge_some he'
      simp only [List.filter_cons, hb, he', List.filterMap_cons, Bool.not_false, if_true,
        List.map_cons, List.length_cons]
      refine ⟨by rw [hk, ih1], ?_⟩
      simp only [Bool.false_eq_true, if_false]; omega

end Clem.Gel
