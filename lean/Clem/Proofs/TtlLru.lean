import Clem.Model.TtlLru

/-! Helper lemmas for the TTL LRU model (`_NamespaceCache`, `LRUCache`, `CacheManager`). -/
namespace Clem.TtlLru

/-- Namespace invariant: unique keys; within capacity (for a non-negative cap). -/
def Ns.Inv (s : Ns) : Prop :=
  (s.items.map Entry.key).Nodup ∧ (0 ≤ s.max → (s.items.length : Int) ≤ s.max)

/-- Manager invariant: distinct namespace ids; every namespace satisfies its invariant and
carries the manager's settings. -/
def Mgr.Inv (m : Mgr) : Prop :=
  (m.nss.map (·.1)).Nodup ∧ ∀ p ∈ m.nss, Ns.Inv p.2 ∧ p.2.max = m.max ∧ p.2.ttl = m.ttl

theorem without_keys_nodup {l : List Entry} (k : Nat) (h : (l.map Entry.key).Nodup) :
    ((without k l).map Entry.key).Nodup := by
  unfold without
  exact (List.Nodup.sublist (List.Sublist.map _ List.filter_sublist) h)

theorem not_mem_without (k : Nat) (l : List Entry) : k ∉ (without k l).map Entry.key := by
  simp [without]

theorem filter_keys_nodup {l : List Entry} (p : Entry → Bool) (h : (l.map Entry.key).Nodup) :
    ((l.filter p).map Entry.key).Nodup :=
  List.Nodup.sublist (List.Sublist.map _ List.filter_sublist) h

theorem length_without_le (k : Nat) (l : List Entry) : (without k l).length ≤ l.length :=
  List.length_filter_le _ _

theorem lookup_some {k : Nat} {l : List Entry} {e : Entry} (h : lookup k l = some e) :
    e ∈ l ∧ e.key = k := by
  unfold lookup at h
  exact ⟨List.mem_of_find?_eq_some h, by simpa using List.find?_some h⟩

theorem length_without_some {k : Nat} {l : List Entry} {e : Entry}
    (h : lookup k l = some e) : (without k l).length < l.length := by
  have ⟨hm, hk⟩ := lookup_some h
  unfold without
  apply List.length_filter_lt_length_iff_exists.mpr
  exact ⟨e, hm, by simp [hk]⟩

theorem lookup_none_without {k : Nat} {l : List Entry} (h : lookup k l = none) :
    without k l = l := by
  unfold lookup at h; unfold without
  rw [List.find?_eq_none] at h
  apply List.filter_eq_self.mpr
  intro a ha; have := h a ha; simpa using this

theorem lookup_without_self (k : Nat) (l : List Entry) : lookup k (without k l) = none := by
  unfold lookup without
  rw [List.find?_eq_none]
  intro x hx
  simp only [List.mem_filter] at hx
  simpa using hx.2

/-- Keys of `without k l ++ [new]` are unique when those of `l` are. -/
theorem nodup_reinsert {l : List Entry} (e : Entry) (h : (l.map Entry.key).Nodup) :
    ((without e.key l ++ [e]).map Entry.key).Nodup := by
  simp only [List.map_append, List.map_cons, List.map_nil]
  rw [List.nodup_append]
  refine ⟨without_keys_nodup _ h, by simp, ?_⟩
  intro a ha b hb
  simp at hb; subst hb
  intro hab; subst hab
  exact not_mem_without _ _ ha

/-- The eviction loop removes exactly the first `n` entries (oldest first), `n` being the
count it returns, and stops within a non-negative cap; a negative cap empties the list. -/
theorem evictOver_spec (m : Int) (l : List Entry) :
    (Ns.evictOver m l).1 = l.drop (Ns.evictOver m l).2 ∧
    (Ns.evictOver m l).2 ≤ l.length ∧
    (0 ≤ m → ((Ns.evictOver m l).1.length : Int) ≤ m) ∧
    (m < 0 → (Ns.evictOver m l).1 = []) := by
  induction l with
  | nil => simp [Ns.evictOver]
  | cons e es ih =>
    simp only [Ns.evictOver]
    split
    · obtain ⟨h1, h2, h3, h4⟩ := ih
      refine ⟨by simpa using h1, by simp; omega, h3, h4⟩
    · rename_i hc
      simp only [List.length_cons] at hc
      refine ⟨by simp, by simp, fun _ => by simp only [List.length_cons]; omega, fun hm => ?_⟩
      omega

/-- Nothing is evicted when the list fits. -/
theorem evictOver_fits (m : Int) (l : List Entry) (h : (l.length : Int) ≤ m) :
    Ns.evictOver m l = (l, 0) := by
  cases l with
  | nil => rfl
  | cons e es => simp only [Ns.evictOver]; rw [if_neg (by omega)]

/-- With a cap of at least one the last element always survives. -/
theorem evictOver_keeps_last (m : Int) (hm : 1 ≤ m) (p : List Entry) (x : Entry) :
    ∃ p', (Ns.evictOver m (p ++ [x])).1 = p' ++ [x] := by
  induction p with
  | nil =>
    refine ⟨[], ?_⟩
    simp only [List.nil_append, Ns.evictOver]
    rw [if_neg (by simp; omega)]
  | cons a p ih =>
    simp only [List.cons_append, Ns.evictOver]
    split
    · exact ih
    · exact ⟨a :: p, rfl⟩

/-! Manager plumbing -/

theorem find_store_self (n : Nat) (c : Ns) (l : List (Nat × Ns)) :
    Mgr.find n (Mgr.store n c l) = some c := by
  induction l with
  | nil => simp [Mgr.find, Mgr.store]
  | cons p ps ih =>
    simp only [Mgr.store]
    split
    · simp [Mgr.find]
    · rename_i h
      simp only [Mgr.find, List.find?_cons, h] at ih ⊢
      exact ih

theorem find_store_ne {a b : Nat} (h : a ≠ b) (c : Ns) (l : List (Nat × Ns)) :
    Mgr.find b (Mgr.store a c l) = Mgr.find b l := by
  induction l with
  | nil =>
    have : (a == b) = false := by simpa using h
    simp [Mgr.find, Mgr.store, this]
  | cons p ps ih =>
    simp only [Mgr.store]
    split
    · rename_i hp
      have hp' : p.1 = a := by simpa using hp
      have h1 : (a == b) = false := by simpa using h
      have h2 : (p.1 == b) = false := by rw [hp']; exact h1
      simp [Mgr.find, h1, h2]
    · simp only [Mgr.find, List.find?_cons] at ih ⊢
      cases hpb : (p.1 == b) with
      | true => simp
      | false => simpa using ih

theorem store_keys (n : Nat) (c : Ns) (l : List (Nat × Ns)) :
    (Mgr.store n c l).map (·.1) = if n ∈ l.map (·.1) then l.map (·.1) else l.map (·.1) ++ [n] := by
  induction l with
  | nil => simp [Mgr.store]
  | cons p ps ih =>
    simp only [Mgr.store]
    split
    · rename_i hp
      have hp' : p.1 = n := by simpa using hp
      simp [hp']
    · rename_i hp
      have hp' : ¬ p.1 = n := by simpa using hp
      have hp'' : ¬ n = p.1 := fun h => hp' h.symm
      simp only [List.map_cons, List.mem_cons, hp'', false_or]
      rw [ih]
      split <;> simp

theorem store_keys_nodup (n : Nat) (c : Ns) {l : List (Nat × Ns)} (h : (l.map (·.1)).Nodup) :
    ((Mgr.store n c l).map (·.1)).Nodup := by
  rw [store_keys]
  split
  · exact h
  · rename_i hn
    rw [List.nodup_append]
    refine ⟨h, by simp, ?_⟩
    intro a ha b hb
    simp at hb; subst hb
    intro hab; subst hab; exact hn ha

theorem mem_store {n : Nat} {c : Ns} {l : List (Nat × Ns)} {p : Nat × Ns}
    (h : p ∈ Mgr.store n c l) : p = (n, c) ∨ p ∈ l := by
  induction l with
  | nil => simp [Mgr.store] at h; exact Or.inl h
  | cons q qs ih =>
    simp only [Mgr.store] at h
    split at h
    · rcases List.mem_cons.mp h with h | h
      · exact Or.inl h
      · exact Or.inr (List.mem_cons_of_mem _ h)
    · rcases List.mem_cons.mp h with h | h
      · exact Or.inr (by simp [h])
      · rcases ih h with h | h
        · exact Or.inl h
        · exact Or.inr (List.mem_cons_of_mem _ h)

theorem find_some_mem {n : Nat} {l : List (Nat × Ns)} {c : Ns} (h : Mgr.find n l = some c) :
    (n, c) ∈ l := by
  unfold Mgr.find at h
  cases hf : l.find? (fun p => p.1 == n) with
  | none => simp [hf] at h
  | some p =>
    simp [hf] at h
    have hm := List.mem_of_find?_eq_some hf
    have hk : p.1 = n := by simpa using List.find?_some hf
    have : p = (n, c) := by cases p; simp_all
    rw [← this]; exact hm

theorem lru_step_max (c : Lru) (op : Op) : (c.step op).ns.max = c.ns.max := by
  cases op with
  | get now k =>
    simp only [Lru.step, Lru.get]; split <;> simp only [Ns.get] <;> split <;> (try split) <;> rfl
  | set now k v => simp only [Lru.step, Lru.set]; split <;> rfl
  | contains now k => simp only [Lru.step, Lru.contains, Ns.contains]; split <;> (try split) <;> rfl
  | items now => rfl
  | invalidate => rfl

theorem lru_run_max (c : Lru) (ops : List Op) : (Lru.run c ops).ns.max = c.ns.max := by
  induction ops generalizing c with
  | nil => rfl
  | cons op ops ih =>
    show (Lru.run (c.step op) ops).ns.max = _
    rw [ih, lru_step_max]

theorem ns_get_settings (s : Ns) (now : Int) (k : Nat) :
    (s.get now k).1.max = s.max ∧ (s.get now k).1.ttl = s.ttl := by
  unfold Ns.get; split
  · exact ⟨rfl, rfl⟩
  · split <;> exact ⟨rfl, rfl⟩

/-! ### "No completed put is lost" -/

/-- Specification of the visible values after a sequence of operations: every `set k v`
overrides the value of `k`; nothing else changes any value (no invalidation, TTL off). -/
def applySets (f : Nat → Option Nat) : List Op → Nat → Option Nat
  | [] => f
  | .set _ k v :: ops => applySets (fun x => if x = k then some v else f x) ops
  | _ :: ops => applySets f ops

/-- The value a namespace holds for `k`. -/
def Ns.valOf (s : Ns) (k : Nat) : Option Nat := (lookup k s.items).map (·.val)

theorem lookup_without_ne {k k' : Nat} (h : k ≠ k') (l : List Entry) :
    lookup k (without k' l) = lookup k l := by
  unfold lookup without
  induction l with
  | nil => rfl
  | cons e es ih =>
    by_cases he : e.key = k'
    · have h1 : (k' == k) = false := by simpa using fun h' => h h'.symm
      simp [he, h1, ih]
    · have h2 : (e.key != k') = true := by simpa using he
      simp only [List.filter_cons, h2, if_true, List.find?_cons]
      split
      · rfl
      · exact ih

theorem lookup_append_last_ne {k : Nat} (l : List Entry) (e : Entry) (h : e.key ≠ k) :
    lookup k (l ++ [e]) = lookup k l := by
  unfold lookup
  rw [List.find?_append]
  have : (e.key == k) = false := by simpa using h
  simp [this]

theorem lookup_append_last_self (l : List Entry) (e : Entry) (h : lookup e.key l = none) :
    lookup e.key (l ++ [e]) = some e := by
  unfold lookup at h ⊢
  rw [List.find?_append, h]
  simp

theorem expired_ttl0 (now ts : Int) : expired 0 now ts = false := by simp [expired]

/-- With TTL off a `get` never changes any stored value (it may only reorder). -/
theorem valOf_get_ttl0 (s : Ns) (h0 : s.ttl = 0) (now : Int) (k' k : Nat) :
    (s.get now k').1.valOf k = s.valOf k := by
  unfold Ns.get Ns.valOf
  cases he : lookup k' s.items with
  | none => rfl
  | some e =>
    simp only [h0, expired_ttl0, Bool.false_eq_true, if_false]
    have hk := (lookup_some he).2
    by_cases hkk : k = k'
    · subst hkk
      have := lookup_append_last_self (without e.key s.items) e (lookup_without_self _ _)
      rw [hk] at this
      rw [this, he]
    · rw [lookup_append_last_ne _ _ (by rw [hk]; exact fun h => hkk h.symm), lookup_without_ne hkk]

theorem subset_keys_without {K : List Nat} {l : List Entry} (k : Nat)
    (h : ∀ e ∈ l, e.key ∈ K) : ∀ e ∈ without k l, e.key ∈ K := by
  intro e he
  exact h e (List.mem_filter.mp he).1

/-- State invariant used below: TTL off, cap `max`, all keys within the key universe `K`. -/
def NoLossInv (max : Int) (K : List Nat) (c : Lru) : Prop :=
  Ns.Inv c.ns ∧ c.ns.ttl = 0 ∧ c.ns.max = max ∧ ∀ e ∈ c.ns.items, e.key ∈ K

end Clem.TtlLru
