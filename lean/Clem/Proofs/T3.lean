/-
Helper lemmas for the T3 planner model (`Clem/Model/T3.lean`): laws of a NaN-aware comparison carrier,
a lawful concrete carrier (`Option Int`, `none` = NaN) used for non-vacuity examples, and list lemmas about
`pyTake` / `capOps` / `withEdit`.
-/
import Mathlib.Tactic.Linarith
import Clem.Proofs.Sort
import Clem.Model.T3

namespace Clem.T3

/-- What the proofs need from Python float comparisons: NaN compares false with everything, on non-NaN values
`<` is the negation of `>=`, and `>=` is transitive.  (IEEE-754 doubles satisfy this; so does any linear order
extended by a NaN.) -/
class LawfulPyOrd (α : Type) [PyOrd α] where
  isNaN : α → Bool
  ge_nan_left : ∀ a b : α, isNaN a = true → PyOrd.ge a b = false
  ge_nan_right : ∀ a b : α, isNaN b = true → PyOrd.ge a b = false
  lt_nan_left : ∀ a b : α, isNaN a = true → PyOrd.lt a b = false
  lt_nan_right : ∀ a b : α, isNaN b = true → PyOrd.lt a b = false
  lt_eq_not_ge : ∀ a b : α, isNaN a = false → isNaN b = false → PyOrd.lt a b = !PyOrd.ge a b
  ge_trans : ∀ a b c : α, PyOrd.ge a b = true → PyOrd.ge b c = true → PyOrd.ge a c = true

/-- integers extended by a NaN (`none`) -/
instance : PyOrd (Option Int) where
  ge a b := match a, b with
    | some x, some y => decide (y ≤ x)
    | _, _ => false
  lt a b := match a, b with
    | some x, some y => decide (x < y)
    | _, _ => false
  abs a := a.map (fun x => (x.natAbs : Int))
  zero := some 0

instance : LawfulPyOrd (Option Int) where
  isNaN a := a.isNone
  ge_nan_left a b h := by cases a <;> cases b <;> simp_all [PyOrd.ge]
  ge_nan_right a b h := by cases a <;> cases b <;> simp_all [PyOrd.ge]
  lt_nan_left a b h := by cases a <;> cases b <;> simp_all [PyOrd.lt]
  lt_nan_right a b h := by cases a <;> cases b <;> simp_all [PyOrd.lt]
  lt_eq_not_ge a b ha hb := by
    cases a <;> cases b <;> simp_all [PyOrd.lt, PyOrd.ge]
    rename_i x y
    by_cases h : x < y
    · have : ¬ y ≤ x := by omega
      simp [h, this]
    · have : y ≤ x := by omega
      simp [h, this]
  ge_trans a b c h1 h2 := by
    cases a <;> cases b <;> cases c <;> simp_all [PyOrd.ge]
    omega

section laws
variable {α : Type} [PyOrd α] [LawfulPyOrd α]
open LawfulPyOrd

/-- `a < b` excludes `a >= b` -/
theorem lt_not_ge {a b : α} (h : PyOrd.lt a b = true) : PyOrd.ge a b = false := by
  cases ha : isNaN a
  · cases hb : isNaN b
    · have h2 := lt_eq_not_ge a b ha hb
      rw [h] at h2
      cases hg : PyOrd.ge a b
      · rfl
      · rw [hg] at h2; cases h2
    · rw [lt_nan_right a b hb] at h; cases h
  · rw [lt_nan_left a b ha] at h; cases h

theorem ge_not_nan_left {a b : α} (h : PyOrd.ge a b = true) : isNaN a = false := by
  cases ha : isNaN a
  · rfl
  · rw [ge_nan_left a b ha] at h; cases h

theorem ge_not_nan_right {a b : α} (h : PyOrd.ge a b = true) : isNaN b = false := by
  cases hb : isNaN b
  · rfl
  · rw [ge_nan_right a b hb] at h; cases h

theorem lt_not_nan_right {a b : α} (h : PyOrd.lt a b = true) : isNaN b = false := by
  cases hb : isNaN b
  · rfl
  · rw [lt_nan_right a b hb] at h; cases h

/-- `s' >= s` and `s' < t` give `s < t` -/
theorem lt_of_ge_of_lt {s s' t : α} (h : PyOrd.ge s' s = true) (hl : PyOrd.lt s' t = true) :
    PyOrd.lt s t = true := by
  have hs := ge_not_nan_right h
  have ht := lt_not_nan_right hl
  rw [lt_eq_not_ge s t hs ht]
  cases hg : PyOrd.ge s t
  · rfl
  · have := ge_trans s' s t h hg
    rw [lt_not_ge hl] at this; cases this

end laws

/-! ### list lemmas -/

theorem pyTake_eq_take {β : Type} (l : List β) (n : Int) : ∃ k, pyTake l n = l.take k := by
  unfold pyTake; split <;> exact ⟨_, rfl⟩

theorem capOps_eq_take (ops : List Op) (caps : Int) : ∃ k, capOps ops caps = ops.take k := by
  unfold capOps
  split
  · exact pyTake_eq_take _ _
  · exact ⟨ops.length, by simp⟩

theorem mem_capOps {ops : List Op} {caps : Int} {o : Op} (h : o ∈ capOps ops caps) : o ∈ ops := by
  obtain ⟨k, hk⟩ := capOps_eq_take ops caps
  rw [hk] at h
  exact List.mem_of_mem_take h

/-- the cap step enforces the cap whenever the cap is non-negative, or the list has at most one element -/
theorem capOps_length (ops : List Op) (caps : Int) (h : 0 ≤ caps ∨ ops.length ≤ 1) :
    ((capOps ops caps).length : Int) ≤ max 0 caps := by
  unfold capOps
  split
  · rename_i hlt
    unfold pyTake
    split
    · rename_i h0
      rw [List.length_take]
      omega
    · rename_i hneg
      rw [List.length_take]
      omega
  · omega

theorem capOps_of_le {ops : List Op} {caps : Int} (h : (ops.length : Int) ≤ caps) : capOps ops caps = ops := by
  unfold capOps
  rw [if_neg (by omega)]

section planner
variable {α : Type} [PyOrd α]

theorem withEdit_length_le (b : Bundle α) (caps : Int) (ops : List Op) :
    (withEdit b caps ops).length ≤ ops.length + 1 := by
  unfold withEdit
  simp only
  split <;> simp

theorem withEdit_prefix (b : Bundle α) (caps : Int) (ops : List Op) :
    withEdit b caps ops = ops ∨ ∃ ids c, withEdit b caps ops = ops ++ [Op.edit ids c] := by
  unfold withEdit
  simp only
  split
  · exact Or.inl rfl
  · exact Or.inr ⟨_, _, rfl⟩

theorem delibEdit_cases (b : Bundle α) (caps : Int) (ops : List Op) :
    delibEdit b caps ops = ops ∨
    (PyOrd.ge b.sMax b.tauLow = true ∧ (ops.length : Int) < caps ∧
      ∃ ids c, delibEdit b caps ops = ops ++ [Op.edit ids c]) := by
  unfold delibEdit
  split
  · rename_i h
    simp only [Bool.and_eq_true, decide_eq_true_eq] at h
    rcases withEdit_prefix b caps ops with h' | ⟨ids, c, h'⟩
    · exact Or.inl h'
    · exact Or.inr ⟨h.1, h.2, ids, c, h'⟩
  · exact Or.inl rfl

theorem delibRetrieve_cases (b : Bundle α) (caps : Int) (ops : List Op) :
    (delibRetrieve b caps ops = ops ∧ ¬ (PyOrd.lt b.sMax b.tauLow = true ∧ (ops.length : Int) < caps)) ∨
    (PyOrd.lt b.sMax b.tauLow = true ∧ (ops.length : Int) < caps ∧
      delibRetrieve b caps ops = ops ++ [retrieveOf b]) := by
  unfold delibRetrieve
  split
  · rename_i h
    simp only [Bool.and_eq_true, decide_eq_true_eq] at h
    exact Or.inr ⟨h.1, h.2, rfl⟩
  · rename_i h
    simp only [Bool.and_eq_true, decide_eq_true_eq] at h
    exact Or.inl ⟨rfl, h⟩

/-- shape of the op list before the cap step -/
theorem delib_pre_shape (b : Bundle α) (caps : Int) :
    let ops := delibRetrieve b caps (delibEdit b caps [speakOf b b.sMax])
    ∃ rest, ops = speakOf b b.sMax :: rest ∧ (caps ≤ 1 → rest = []) := by
  intro ops
  rcases delibEdit_cases b caps [speakOf b b.sMax] with h1 | ⟨_, hlt, ids, c, h1⟩
  · rcases delibRetrieve_cases b caps (delibEdit b caps [speakOf b b.sMax]) with ⟨h2, _⟩ | ⟨_, hlt2, h2⟩
    · refine ⟨[], ?_, fun _ => rfl⟩
      show delibRetrieve b caps (delibEdit b caps [speakOf b b.sMax]) = _
      rw [h2, h1]
    · refine ⟨[retrieveOf b], ?_, ?_⟩
      · show delibRetrieve b caps (delibEdit b caps [speakOf b b.sMax]) = _
        rw [h2, h1]; rfl
      · intro hc; rw [h1] at hlt2; simp at hlt2; omega
  · rcases delibRetrieve_cases b caps (delibEdit b caps [speakOf b b.sMax]) with ⟨h2, _⟩ | ⟨_, hlt2, h2⟩
    · refine ⟨[Op.edit ids c], ?_, ?_⟩
      · show delibRetrieve b caps (delibEdit b caps [speakOf b b.sMax]) = _
        rw [h2, h1]; rfl
      · intro hc; simp at hlt; omega
    · refine ⟨[Op.edit ids c, retrieveOf b], ?_, ?_⟩
      · show delibRetrieve b caps (delibEdit b caps [speakOf b b.sMax]) = _
        rw [h2, h1]; rfl
      · intro hc; simp at hlt; omega

theorem firstRR_none_iff (plan : List Op) : firstRR plan = none ↔ plan.any Op.isRetrieve = false := by
  induction plan with
  | nil => simp [firstRR]
  | cons o t ih =>
    cases o <;> simp [firstRR, Op.isRetrieve, ih]

theorem ragOnce_cases (b : Bundle α) (plan : List Op) (r : Owner × Int → List (Hit α)) (used : Bool) :
    (used = true ∧ ragOnce b plan r used = ⟨plan, [], false, true, b.sMax, []⟩) ∨
    (used = false ∧ firstRR plan = none ∧ ragOnce b plan r used = ⟨plan, [], false, false, b.sMax, []⟩) ∨
    (used = false ∧ ∃ rr, firstRR plan = some rr ∧
      ragOnce b plan r used = ragRefine b plan (normPayload rr) (r (normPayload rr))) := by
  cases used
  · cases h : firstRR plan with
    | none => right; left; simp [ragOnce, h]
    | some rr => right; right; exact ⟨rfl, rr, rfl, by simp [ragOnce, h]⟩
  · left; simp [ragOnce]

theorem replaceFirstSpeak_head (new : Op) (plan : List Op) (h : headIsSpeak plan = true) :
    plan = [] ∨ ∃ t, replaceFirstSpeak new plan = new :: t := by
  cases plan with
  | nil => left; rfl
  | cons o t =>
    right
    simp only [headIsSpeak] at h
    exact ⟨t, by simp [replaceFirstSpeak, h]⟩

end planner

end Clem.T3
