import Clem.Proofs.Sort
import Clem.Model.ParT2

/-! Helper lemmas for the T2 fan-out (C09): chunking, streaming top-k, the dedupe loop. -/
namespace Clem.ParT2

open Clem.Py

variable {ε X α : Type}

/-! ### chunks -/

theorem chunks_flatten (size : Nat) (hs : 1 ≤ size) :
    ∀ (fuel : Nat) (l : List ε), l.length ≤ fuel → (chunks size fuel l).flatten = l := by
  intro fuel
  induction fuel with
  | zero => intro l hl; have : l = [] := List.eq_nil_of_length_eq_zero (by omega); subst this; rfl
  | succ f ih =>
    intro l hl
    unfold chunks
    cases l with
    | nil => rfl
    | cons a t =>
      simp only [List.isEmpty_cons, Bool.false_eq_true, if_false, List.flatten_cons]
      rw [ih _ (by simp only [List.length_drop, List.length_cons] at *; omega)]
      exact List.take_append_drop size (a :: t)

theorem chunks_nonempty (size : Nat) (hs : 1 ≤ size) :
    ∀ (fuel : Nat) (l : List ε), ∀ c ∈ chunks size fuel l, c ≠ [] := by
  intro fuel
  induction fuel with
  | zero => intro l c hc; simp [chunks] at hc
  | succ f ih =>
    intro l c hc
    unfold chunks at hc
    cases l with
    | nil => simp at hc
    | cons a t =>
      simp only [List.isEmpty_cons, Bool.false_eq_true, if_false, List.mem_cons] at hc
      rcases hc with rfl | h
      · cases size with
        | zero => omega
        | succ s => simp
      · exact ih _ c h

theorem chunks_len_le (size : Nat) :
    ∀ (fuel : Nat) (l : List ε), ∀ c ∈ chunks size fuel l, c.length ≤ size := by
  intro fuel
  induction fuel with
  | zero => intro l c hc; simp [chunks] at hc
  | succ f ih =>
    intro l c hc
    unfold chunks at hc
    cases l with
    | nil => simp at hc
    | cons a t =>
      simp only [List.isEmpty_cons, Bool.false_eq_true, if_false, List.mem_cons] at hc
      rcases hc with rfl | h
      · simp [List.length_take]
      · exact ih _ c h

/-! ### streaming top-k -/

theorem take_orderedInsert (le : X → X → Bool) (a : X) :
    ∀ (k : Nat) (s : List X),
      (orderedInsert le a s).take k = (orderedInsert le a (s.take k)).take k := by
  intro k s
  induction s generalizing k with
  | nil => simp
  | cons b s ih =>
    cases k with
    | zero => simp
    | succ k =>
      cases hle : le a b with
      | true =>
        simp only [orderedInsert, List.take_succ_cons, hle, if_true]
        congr 1
        cases k with
        | zero => simp
        | succ k => simp [List.take_succ_cons, List.take_take]
      | false =>
        simp only [orderedInsert, List.take_succ_cons, hle, Bool.false_eq_true, if_false]
        congr 1
        exact ih k

/-- `topk` is a fold: one streaming insertion per element. -/
theorem topk_cons (le : X → X → Bool) (k : Nat) (x : X) (l : List X) :
    topk le k (x :: l) = (orderedInsert le x (topk le k l)).take k := by
  unfold topk
  show (orderedInsert le x (isort le l)).take k = _
  exact take_orderedInsert le x k _

theorem topk_append (le : X → X → Bool) (k : Nat) (a b : List X) :
    topk le k (a ++ b) = a.foldr (fun x acc => (orderedInsert le x acc).take k) (topk le k b) := by
  induction a with
  | nil => rfl
  | cons x a ih => rw [List.cons_append, topk_cons, ih]; rfl

section linear
variable (le : X → X → Bool)
  (total : ∀ a b, le a b = true ∨ le b a = true)
  (trans : ∀ a b c, le a b = true → le b c = true → le a c = true)
  (antisymm : ∀ a b, le a b = true → le b a = true → a = b)
include total trans antisymm

theorem topk_perm {l l' : List X} (k : Nat) (hp : l.Perm l') : topk le k l = topk le k l' := by
  unfold topk
  rw [isort_perm_invariant le total trans hp (fun a _ b _ => antisymm a b)]

theorem topk_idem (k : Nat) (l : List X) : topk le k (topk le k l) = topk le k l := by
  unfold topk
  have hs := isort_pairwise le total trans l
  have : ((isort le l).take k).Pairwise (fun x y => le x y = true) :=
    hs.sublist (List.take_sublist k _)
  rw [isort_of_pairwise le this, List.take_take, Nat.min_self]

/-- replacing a part by its own top-k does not change the top-k of the whole. -/
theorem topk_topk_append (k : Nat) (a b : List X) :
    topk le k (topk le k a ++ b) = topk le k (a ++ b) := by
  rw [topk_perm le total trans antisymm k (List.perm_append_comm (l₁ := topk le k a) (l₂ := b)),
      topk_perm le total trans antisymm k (List.perm_append_comm (l₁ := a) (l₂ := b)),
      topk_append, topk_append, topk_idem le total trans antisymm]

/-- congruence: only the top-k of the left part matters. -/
theorem topk_append_congr (k : Nat) {x y : List X} (s : List X)
    (h : topk le k x = topk le k y) : topk le k (s ++ x) = topk le k (s ++ y) := by
  rw [topk_append, topk_append, h]

theorem topk_flatten_map (k : Nat) (shards : List (List X)) :
    topk le k (shards.map (topk le k)).flatten = topk le k shards.flatten := by
  induction shards with
  | nil => rfl
  | cons s rest ih =>
    simp only [List.map_cons, List.flatten_cons]
    rw [topk_topk_append le total trans antisymm]
    exact topk_append_congr le total trans antisymm k s ih

end linear

/-! ### the dedupe loop on a duplicate-free bucket is `take` -/

theorem fill_nodup (k : Nat) :
    ∀ (l out : List (Hit α)) (seen : List (List Nat)),
      (∀ h ∈ l, h.id ∉ seen) → (l.map Hit.id).Nodup → out.length < k →
      (fill (k : Int) l out seen).1 = out ++ l.take (k - out.length) := by
  intro l
  induction l with
  | nil => intro out seen _ _ _; simp [fill]
  | cons h rest ih =>
    intro out seen hns hnd hlt
    have hh : seen.contains h.id = false := by
      have := hns h (by simp)
      simpa using this
    rw [List.map_cons, List.nodup_cons] at hnd
    simp only [fill, hh, Bool.false_eq_true, if_false]
    by_cases hk : (((out ++ [h]).length : Nat) : Int) ≥ (k : Int)
    · simp only [hk, if_true]
      have : k - out.length = 1 := by simp at hk; omega
      simp [this]
    · simp only [hk, if_false]
      have hlen : (out ++ [h]).length < k := by simp at hk ⊢; omega
      rw [ih (out ++ [h]) (h.id :: seen) ?_ hnd.2 hlen]
      · have : k - out.length = (k - (out ++ [h]).length) + 1 := by simp at hlen ⊢; omega
        rw [this, List.take_succ_cons]; simp
      · intro x hx hmem
        rcases List.mem_cons.mp hmem with e | e
        · exact hnd.1 (e ▸ List.mem_map_of_mem hx)
        · exact hns x (by simp [hx]) e

end Clem.ParT2

namespace Clem.ParT2

open Clem.Py

variable {X α : Type}

/-! ### sorting with two comparisons that agree on the elements at hand -/

theorem orderedInsert_congr (le le' : X → X → Bool) (a : X) (s : List X)
    (h : ∀ b ∈ s, le a b = le' a b) : orderedInsert le a s = orderedInsert le' a s := by
  induction s with
  | nil => rfl
  | cons b s ih =>
    simp only [orderedInsert, h b (by simp)]
    rw [ih (fun c hc => h c (by simp [hc]))]

theorem isort_congr (le le' : X → X → Bool) (l : List X)
    (h : ∀ a ∈ l, ∀ b ∈ l, le a b = le' a b) : isort le l = isort le' l := by
  induction l with
  | nil => rfl
  | cons a l ih =>
    show orderedInsert le a (isort le l) = orderedInsert le' a (isort le' l)
    rw [ih (fun x hx y hy => h x (by simp [hx]) y (by simp [hy]))]
    apply orderedInsert_congr
    intro b hb
    exact h a (by simp) b (by simp [(mem_isort le').mp hb])

/-! ### buckets and ids -/

theorem mem_topk (le : X → X → Bool) (k : Nat) (l : List X) {x : X} (h : x ∈ topk le k l) : x ∈ l :=
  (mem_isort le).mp (List.mem_of_mem_take h)

theorem mem_flatten_topk (le : X → X → Bool) (k : Nat) (shards : List (List X)) {x : X}
    (h : x ∈ (shards.map (topk le k)).flatten) : x ∈ shards.flatten := by
  simp only [List.mem_flatten, List.mem_map] at h ⊢
  obtain ⟨l, ⟨s, hs, rfl⟩, hx⟩ := h
  exact ⟨s, hs, mem_topk le k s hx⟩

theorem bucketOf_single (t : List Nat) (f : List (Hit α) → List (Hit α)) (shards : List (List (Hit α))) :
    bucketOf t (shards.map (fun sh => [(t, f sh)])) = (shards.map f).flatten := by
  induction shards with
  | nil => rfl
  | cons s rest ih =>
    unfold bucketOf at ih ⊢
    simp only [List.map_cons, List.flatMap_cons, List.flatten_cons, ih]
    simp [List.lookup]

theorem nodup_ids_topk (le : Hit α → Hit α → Bool) (k : Nat) (l : List (Hit α))
    (h : (l.map Hit.id).Nodup) : ((topk le k l).map Hit.id).Nodup := by
  have hp : ((isort le l).map Hit.id).Nodup := ((isort_perm le l).map Hit.id).nodup_iff.mpr h
  exact hp.sublist ((List.take_sublist k _).map Hit.id)

theorem nodup_ids_flatten_topk (le : Hit α → Hit α → Bool) (k : Nat) (shards : List (List (Hit α)))
    (h : (shards.flatten.map Hit.id).Nodup) :
    (((shards.map (topk le k)).flatten).map Hit.id).Nodup := by
  induction shards with
  | nil => simp
  | cons s rest ih =>
    simp only [List.flatten_cons, List.map_append, List.map_cons] at h ⊢
    rw [List.nodup_append] at h ⊢
    obtain ⟨h1, h2, h3⟩ := h
    refine ⟨nodup_ids_topk le k s h1, ih h2, ?_⟩
    intro a ha b hb
    obtain ⟨x, hx, rfl⟩ := List.mem_map.mp ha
    obtain ⟨y, hy, rfl⟩ := List.mem_map.mp hb
    exact h3 _ (List.mem_map_of_mem (mem_topk le k s hx)) _
      (List.mem_map_of_mem (mem_flatten_topk le k rest hy))

end Clem.ParT2
