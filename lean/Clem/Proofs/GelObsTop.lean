import Clem.Proofs.GelObsSpec

/-! The hand-off clause `obsTopB`: records an observation writes sit under keys of pairs of the
top-`k` items by score (among ALL listed items). -/
namespace Clem.Gel
open Clem.Py

set_option linter.unusedSectionVars false
variable {α : Type} [Field α] [LinearOrder α] [IsStrictOrderedRing α]

theorem obsPairs_usedKeys (c : Cfg α) (items : List (Str × α)) :
    ∀ p ∈ obsPairs c items, (edgeKey p.1 p.2).key ∈ usedKeys c items := by
  intro p hp
  unfold obsPairs at hp
  have hp' := List.mem_of_mem_take hp
  unfold usedKeys
  rw [List.mem_flatMap]
  exact ⟨p, hp', by simp⟩

def TopOk (c : Cfg α) (items : List (Str × α)) (pre : List (Edge α)) (e : Edge α) : Prop :=
  findEdge e.key pre = some e ∨ e.key ∈ usedKeys c items

theorem topOk_obsStep (c : Cfg α) (items : List (Str × α)) (pre : List (Edge α))
    (turn : Option Int) (es : List (Edge α)) (p : Str × Str)
    (hp : (edgeKey p.1 p.2).key ∈ usedKeys c items)
    (hes : ∀ e ∈ es, TopOk c items pre e) : ∀ e ∈ obsStep c turn es p, TopOk c items pre e := by
  intro e he
  unfold obsStep at he
  rcases mem_upsert he with h | ⟨e0, _, hk, rfl⟩ | rfl
  · exact hes e h
  · refine Or.inr ?_
    rw [bump_key, hk]; exact hp
  · exact Or.inr hp

theorem topOk_observeEdges (c : Cfg α) (items : List (Str × α)) (pre : List (Edge α))
    (turn : Option Int) (ps : List (Str × Str))
    (hps : ∀ p ∈ ps, (edgeKey p.1 p.2).key ∈ usedKeys c items) (es : List (Edge α))
    (hes : ∀ e ∈ es, TopOk c items pre e) :
    ∀ e ∈ observeEdges c turn es ps, TopOk c items pre e := by
  unfold observeEdges
  induction ps generalizing es with
  | nil => exact hes
  | cons p t ih =>
    simp only [List.foldl_cons]
    exact ih (fun q hq => hps q (List.mem_cons_of_mem _ hq)) _
      (topOk_obsStep c items pre turn es p (hps p List.mem_cons_self) hes)

theorem obsTop_holds (same : Edge α → Edge α → Bool) (hsame : ∀ a b, same a b = true ↔ a = b)
    (c : Cfg α) (s : State α) (items : List (Str × α)) (turn : Option Int)
    (hnd : ((edgesOf s).map Edge.key).Nodup) :
    obsTopB same c items (edgesOf s) (edgesOf (observe c s items turn).1) = true := by
  have hpre : ∀ e ∈ edgesOf s, findEdge e.key (edgesOf s) = some e :=
    fun e he => findEdge_self_of_nodup hnd he
  have hall : ∀ e ∈ edgesOf (observe c s items turn).1, TopOk c items (edgesOf s) e := by
    unfold observe
    split
    · intro e he; exact Or.inl (hpre e he)
    · exact topOk_observeEdges c items (edgesOf s) turn (obsPairs c items)
        (obsPairs_usedKeys c items) (edgesOf s) (fun e he => Or.inl (hpre e he))
  unfold obsTopB
  simp only [List.all_eq_true, List.mem_filter]
  rintro e ⟨he, hq⟩
  simp only [Bool.not_eq_true'] at hq
  rcases hall e he with h | h
  · have := (unchanged_iff same hsame (edgesOf s) e).mpr h
    exact Bool.noConfusion (this.symm.trans hq)
  · simpa using h

end Clem.Gel
