/-
C17 — lemmas tying the exact scheduler model (`Clem.Model.Sched`) to the abstract
scheduling relation (`Clem.Proofs.SchedAbs`).  Core Lean only.
-/
import Clem.Model.Sched
import Clem.Proofs.SchedAbs
import Clem.Proofs.Sort

namespace Clem.Sched

open Clem.Sched.Abs

/-! ### `str` order -/

theorem ltA_iff (a b : Agent) : ltA a b = true ↔ a < b := by
  induction a generalizing b with
  | nil => cases b <;> simp [ltA]
  | cons x xs ih =>
    cases b with
    | nil => simp [ltA]
    | cons y ys =>
      simp only [ltA, List.cons_lt_cons_iff]
      split
      · simp_all
      · split
        · simp_all; omega
        · have : x = y := by omega
          simp_all

theorem ltA_irrefl (a : Agent) : ltA a a = false := by
  cases h : ltA a a with
  | false => rfl
  | true => exact absurd ((ltA_iff a a).1 h) (List.lt_irrefl a)

theorem ltA_trans {a b c : Agent} (h1 : ltA a b = true) (h2 : ltA b c = true) : ltA a c = true :=
  (ltA_iff a c).2 (List.lt_trans ((ltA_iff a b).1 h1) ((ltA_iff b c).1 h2))

theorem ltA_asymm {a b : Agent} (h1 : ltA a b = true) : ltA b a = false := by
  cases h : ltA b a with
  | false => rfl
  | true => exact absurd ((ltA_iff b a).1 h) (List.lt_asymm ((ltA_iff a b).1 h1))

/-- `min(best :: l)` is an element and nothing is below it. -/
theorem pyMinAux_spec (best : Agent) (l : List Agent) :
    (pyMinAux best l = best ∨ ltA (pyMinAux best l) best = true) ∧
    (pyMinAux best l = best ∨ pyMinAux best l ∈ l) ∧
    ∀ b ∈ l, ltA b (pyMinAux best l) = false := by
  induction l generalizing best with
  | nil => simp [pyMinAux]
  | cons x t ih =>
    simp only [pyMinAux]
    by_cases hx : ltA x best = true
    · rw [if_pos hx]
      obtain ⟨h1, h2, h3⟩ := ih x
      refine ⟨?_, ?_, ?_⟩
      · rcases h1 with h | h
        · right; rw [h]; exact hx
        · right; exact ltA_trans h hx
      · rcases h2 with h | h
        · right; rw [h]; exact List.mem_cons_self
        · right; exact List.mem_cons_of_mem _ h
      · intro b hb
        cases hb with
        | head =>
          rcases h1 with h | h
          · rw [h]; exact ltA_irrefl x
          · exact ltA_asymm h
        | tail _ hb => exact h3 b hb
    · rw [if_neg hx]
      obtain ⟨h1, h2, h3⟩ := ih best
      refine ⟨h1, ?_, ?_⟩
      · rcases h2 with h | h
        · left; exact h
        · right; exact List.mem_cons_of_mem _ h
      · intro b hb
        cases hb with
        | head =>
          rcases h1 with h | h
          · rw [h]; simpa using hx
          · cases hxr : ltA x (pyMinAux best t) with
            | false => rfl
            | true => exact absurd (ltA_trans hxr h) hx
        | tail _ hb => exact h3 b hb

theorem pyMin_mem {q : List Agent} (h : q ≠ []) : pyMin q ∈ q := by
  cases q with
  | nil => exact absurd rfl h
  | cons a t =>
    rcases (pyMinAux_spec a t).2.1 with e | e
    · simp [pyMin, e]
    · simp [pyMin, e]

theorem pyMin_least {q : List Agent} (b : Agent) (hb : b ∈ q) : ltA b (pyMin q) = false := by
  cases q with
  | nil => cases hb
  | cons a t =>
    obtain ⟨h1, _, h3⟩ := pyMinAux_spec a t
    cases hb with
    | head =>
      rcases h1 with h | h
      · simp only [pyMin]; rw [h]; exact ltA_irrefl _
      · exact ltA_asymm h
    | tail _ hb => exact h3 b hb

theorem isLeastB_pyMin {q : List Agent} (h : q ≠ []) : isLeastB q (pyMin q) = true := by
  simp only [isLeastB, Bool.and_eq_true, List.contains_iff_mem, List.all_eq_true, Bool.not_eq_true']
  exact ⟨pyMin_mem h, fun b hb => pyMin_least b hb⟩

/-! ### dict lemmas -/

theorem dGetD_dSet (d : Dict) (a b : Agent) (v dflt : Int) (h : dHas d a = true) :
    dGetD (dSet d a v) b dflt = if b = a then v else dGetD d b dflt := by
  induction d with
  | nil => simp [dHas] at h
  | cons p t ih =>
    obtain ⟨k, w⟩ := p
    by_cases hk : k = a
    · subst hk
      simp only [dSet, if_true, dGetD]
      by_cases hb : b = k
      · subst hb; simp
      · have : ¬ k = b := fun e => hb e.symm
        simp [hb, this]
    · have ht : dHas t a = true := by simpa [dHas, hk] using h
      simp only [dSet, if_neg hk, dGetD]
      by_cases hkb : k = b
      · subst hkb
        have : ¬ k = a := hk
        simp [this]
      · simp only [if_neg hkb]; exact ih ht

theorem dHas_dSet (d : Dict) (a b : Agent) (v : Int) : dHas d b = true → dHas (dSet d a v) b = true := by
  induction d with
  | nil => simp [dHas]
  | cons p t ih =>
    obtain ⟨k, w⟩ := p
    intro h
    by_cases hk : k = a
    · simpa [dSet, hk, dHas] using h
    · by_cases hkb : k = b
      · subst hkb; simp [dSet, hk, dHas]
      · simp only [dSet, if_neg hk, dHas, if_neg hkb] at h ⊢
        exact ih h

theorem mem_dSet (d : Dict) (a : Agent) (v : Int) (p : Agent × Int) (hp : p ∈ dSet d a v) :
    p ∈ d ∨ p.2 = v := by
  induction d with
  | nil => simp [dSet] at hp; right; simp [hp]
  | cons e t ih =>
    obtain ⟨k, w⟩ := e
    by_cases hk : k = a
    · simp only [dSet, if_pos hk, List.mem_cons] at hp
      rcases hp with h | h
      · right; simp [h]
      · left; exact List.mem_cons_of_mem _ h
    · simp only [dSet, if_neg hk, List.mem_cons] at hp
      rcases hp with h | h
      · left; simp [h]
      · rcases ih h with h' | h'
        · left; exact List.mem_cons_of_mem _ h'
        · right; exact h'

theorem dGetD_zero (d : Dict) (a : Agent) : dGetD (d.map (fun p => (p.1, (0 : Int)))) a 0 = 0 := by
  induction d with
  | nil => rfl
  | cons p t ih =>
    simp only [List.map, dGetD]
    split
    · rfl
    · exact ih

theorem dHas_zero (d : Dict) (a : Agent) : dHas (d.map (fun p => (p.1, (0 : Int)))) a = dHas d a := by
  induction d with
  | nil => rfl
  | cons p t ih => simp only [List.map, dHas, ih]

theorem dGetD_nonneg (d : Dict) (a : Agent) (h : ∀ p ∈ d, 0 ≤ p.2) : 0 ≤ dGetD d a 0 := by
  induction d with
  | nil => simp [dGetD]
  | cons p t ih =>
    obtain ⟨k, w⟩ := p
    simp only [dGetD]
    split
    · exact h (k, w) List.mem_cons_self
    · exact ih (fun p hp => h p (List.mem_cons_of_mem _ hp))

theorem dGetD_mem (d : Dict) (a : Agent) (h : dHas d a = true) : (a, dGetD d a 0) ∈ d := by
  induction d with
  | nil => simp [dHas] at h
  | cons p t ih =>
    obtain ⟨k, w⟩ := p
    by_cases hk : k = a
    · subst hk; simp [dGetD]
    · have ht : dHas t a = true := by simpa [dHas, hk] using h
      simp only [dGetD, if_neg hk]
      exact List.mem_cons_of_mem _ (ih ht)

theorem dHas_filter_ne (d : Dict) (a b : Agent) (hab : a ≠ b) (h : dHas d a = true) :
    dHas (d.filter (fun p => !(p.1 == b))) a = true := by
  induction d with
  | nil => simp [dHas] at h
  | cons p d ih =>
    obtain ⟨k, w⟩ := p
    by_cases hka : k = a
    · subst hka
      have : (k == b) = false := by simpa using hab
      simp [this, dHas]
    · have hd : dHas d a = true := by simpa [dHas, hka] using h
      rw [List.filter_cons]
      split
      · simp only [dHas, if_neg hka]; exact ih hd
      · exact ih hd

theorem dictOfKeys_has (v : Int) (l : List Agent) (a : Agent) (h : a ∈ l) :
    dHas (dictOfKeys v l) a = true := by
  induction l with
  | nil => cases h
  | cons b t ih =>
    simp only [dictOfKeys, dHas]
    by_cases hb : b = a
    · simp [hb]
    · have hat : a ∈ t := by
        cases h with
        | head => exact absurd rfl hb
        | tail _ h => exact h
      simp only [if_neg hb]
      exact dHas_filter_ne _ a b (fun e => hb e.symm) (ih hat)

theorem dictOfKeys_val (v : Int) (l : List Agent) (p : Agent × Int) (h : p ∈ dictOfKeys v l) : p.2 = v := by
  induction l with
  | nil => simp [dictOfKeys] at h
  | cons b t ih =>
    simp only [dictOfKeys, List.mem_cons, List.mem_filter] at h
    rcases h with h | h
    · simp [h]
    · exact ih h.1

/-! ### `Next_refines_Pick` -/

theorem fqLoop_mem (s : State) (now aging : Int) (l : List Agent) (best : Option Agent) (bt : Int)
    (b : Agent) (h : fqLoop s now aging l best bt = some b) : b ∈ l ∨ best = some b := by
  induction l generalizing best bt with
  | nil => right; simpa [fqLoop] using h
  | cons a t ih =>
    simp only [fqLoop] at h
    split at h
    · rcases ih _ _ h with h' | h'
      · left; exact List.mem_cons_of_mem _ h'
      · left; simp at h'; simp [h']
    · rcases ih _ _ h with h' | h'
      · left; exact List.mem_cons_of_mem _ h'
      · right; exact h'

theorem orFirst_mem (best : Option Agent) (e : Agent) (l : List Agent)
    (h : ∀ b, best = some b → b ∈ l) (he : e ∈ l) : orFirst best e ∈ l := by
  unfold orFirst
  split
  · exact h _ rfl
  · exact he

theorem anyElig_false_of_eligible_nil {s : State} {m : Int} (h : eligible s m = []) : anyElig s m = false := by
  simp only [eligible, List.filter_eq_nil_iff] at h
  simp only [anyElig, List.any_eq_false]
  exact h

theorem anyElig_true_of_mem {s : State} {m : Int} {a : Agent} (h : a ∈ eligible s m) : anyElig s m = true := by
  simp only [eligible, List.mem_filter] at h
  simp only [anyElig, List.any_eq_true]
  exact ⟨a, h.1, h.2⟩

/-- the chosen agent in the non-reset branch is one of the eligible ones -/
theorem nextTurn_mem_eligible (fq : Bool) (aging m now : Int) (s : State) (e : Agent) (es : List Agent)
    (hq : s.queue ≠ []) (he : eligible s m = e :: es) :
    (nextTurn fq aging m now s).1 ∈ eligible s m ∧ (nextTurn fq aging m now s).2 ≠ .resetConsec := by
  unfold nextTurn
  cases hqq : s.queue with
  | nil => exact absurd hqq hq
  | cons q0 qs =>
    simp only [he]
    cases fq with
    | false => simp
    | true =>
      simp only [if_true]
      refine ⟨?_, by simp⟩
      apply orFirst_mem
      · intro b hb
        rcases fqLoop_mem _ _ _ _ _ _ _ hb with h | h
        · exact h
        · cases h
      · exact List.mem_cons_self

/-- **the exact `next_turn` refines the specification relation** (both policies, any clock,
any `aging_ms`, any allowance, any queue order, any dict contents). -/
theorem nextTurn_pick (fq : Bool) (aging m now : Int) (s : State) (hq : s.queue ≠ []) :
    pickB s m (nextTurn fq aging m now s).1 (nextTurn fq aging m now s).2 = true := by
  cases he : eligible s m with
  | nil =>
    have h0 := anyElig_false_of_eligible_nil he
    have : nextTurn fq aging m now s = (pyMin s.queue, .resetConsec) := by
      unfold nextTurn
      cases hqq : s.queue with
      | nil => exact absurd hqq hq
      | cons q0 qs => simp only [he]
    simp [pickB, h0, this]
  | cons e es =>
    obtain ⟨h1, h2⟩ := nextTurn_mem_eligible fq aging m now s e es hq he
    have h0 := anyElig_true_of_mem h1
    simp only [eligible, List.mem_filter] at h1
    simp only [pickB, h0, if_true, Bool.and_eq_true, List.contains_iff_mem, Bool.not_eq_true',
      beq_eq_false_iff_ne, ne_eq]
    exact ⟨⟨h1.1, h1.2⟩, h2⟩

/-! ### the relational history over `pickB`, and its abstraction -/

/-- One specification-level step: a queued state, any `(a, r)` allowed by `Pick`, the real
bookkeeping `onYield` with any clock, then any permutation of the queue (rotation). -/
def PStep (m : Int) (s : State) (a : Agent) (s' : State) : Prop :=
  s.queue ≠ [] ∧ ∃ r now q', pickB s m a r = true ∧ q'.Perm s.queue ∧
    s' = { onYield s a now (r == .resetConsec) with queue := q' }

inductive PRun (m : Int) : State → List Agent → State → Prop
  | nil {s : State} : PRun m s [] s
  | cons {s s' s'' : State} {a : Agent} {tr : List Agent} :
      PStep m s a s' → PRun m s' tr s'' → PRun m s (a :: tr) s''

/-- invariant of reachable states relative to the fixed agent set `q` -/
structure Inv (q : List Agent) (m : Int) (s : State) : Prop where
  perm : s.queue.Perm q
  keys : ∀ a ∈ s.queue, dHas s.consec a = true
  lo : ∀ p ∈ s.consec, 0 ≤ p.2
  hi : ∀ p ∈ s.consec, p.2 ≤ m

def cOf (s : State) : Agent → Nat := fun a => (dGetD s.consec a 0).toNat

theorem pstep_abs {q : List Agent} {mn : Nat} {s s' : State} {a : Agent}
    (hI : Inv q (mn : Int) s) (hs : PStep (mn : Int) s a s') :
    AStep q mn (cOf s) a (cOf s') ∧ Inv q (mn : Int) s' := by
  obtain ⟨hq, r, now, q', hp, hperm, rfl⟩ := hs
  unfold pickB at hp
  by_cases hany : anyElig s (mn : Int) = true
  · rw [if_pos hany] at hp
    simp only [Bool.and_eq_true, List.contains_iff_mem, Bool.not_eq_true', beq_eq_false_iff_ne,
      ne_eq] at hp
    obtain ⟨⟨hmem, hel⟩, hr⟩ := hp
    have hrb : (r == Reason.resetConsec) = false := by simpa using hr
    have hkey := hI.keys a hmem
    have hlt : dGetD s.consec a 0 < (mn : Int) := by simpa [eligB] using hel
    have hge : 0 ≤ dGetD s.consec a 0 := dGetD_nonneg _ _ hI.lo
    have hcons : (onYield s a now false).consec = dSet s.consec a (dGetD s.consec a 0 + 1) := by
      simp [onYield, hkey]
    constructor
    · have haq : a ∈ q := hI.perm.mem_iff.1 hmem
      have e : cOf { onYield s a now (r == Reason.resetConsec) with queue := q' }
          = upd (cOf s) a (cOf s a + 1) := by
        funext b
        simp only [cOf, hrb, hcons, upd]
        rw [dGetD_dSet _ _ _ _ _ hkey]
        split
        · omega
        · rfl
      rw [e]
      exact AStep.norm haq (by simp only [cOf]; omega)
    · rw [hrb]
      refine ⟨hperm.trans hI.perm, ?_, ?_, ?_⟩
      · intro b hb
        have hb' : b ∈ s.queue := hperm.mem_iff.1 hb
        show dHas (onYield s a now false).consec b = true
        rw [hcons]; exact dHas_dSet _ _ _ _ (hI.keys b hb')
      · intro p hp
        have hp' : p ∈ (onYield s a now false).consec := hp
        rw [hcons] at hp'
        rcases mem_dSet _ _ _ _ hp' with h | h
        · exact hI.lo p h
        · omega
      · intro p hp
        have hp' : p ∈ (onYield s a now false).consec := hp
        rw [hcons] at hp'
        rcases mem_dSet _ _ _ _ hp' with h | h
        · exact hI.hi p h
        · omega
  · have hany' : anyElig s (mn : Int) = false := by simpa using hany
    rw [hany'] at hp
    simp only [Bool.false_eq_true, if_false, Bool.and_eq_true, beq_iff_eq] at hp
    obtain ⟨ha, hr⟩ := hp
    subst hr
    have hcons : (onYield s a now true).consec = s.consec.map (fun p => (p.1, (0 : Int))) := by
      simp [onYield]
    have hall : ∀ b ∈ q, mn ≤ cOf s b := by
      intro b hb
      have hbq : b ∈ s.queue := hI.perm.mem_iff.2 hb
      simp only [anyElig, List.any_eq_false] at hany'
      have := hany' b hbq
      simp only [eligB, decide_eq_true_eq] at this
      simp only [cOf]; omega
    constructor
    · have e : cOf { onYield s a now (Reason.resetConsec == Reason.resetConsec) with queue := q' }
          = fun _ => 0 := by
        funext b
        simp only [cOf, beq_self_eq_true, hcons, dGetD_zero]
        rfl
      rw [e]
      refine AStep.reset hall ?_
      rw [ha]; exact hI.perm.mem_iff.1 (pyMin_mem hq)
    · simp only [beq_self_eq_true]
      refine ⟨hperm.trans hI.perm, ?_, ?_, ?_⟩
      · intro b hb
        have hb' : b ∈ s.queue := hperm.mem_iff.1 hb
        show dHas (onYield s a now true).consec b = true
        rw [hcons, dHas_zero]; exact hI.keys b hb'
      · intro p hp
        have hp' : p ∈ (onYield s a now true).consec := hp
        rw [hcons] at hp'
        simp only [List.mem_map] at hp'
        obtain ⟨_, _, rfl⟩ := hp'
        simp
      · intro p hp
        have hp' : p ∈ (onYield s a now true).consec := hp
        rw [hcons] at hp'
        simp only [List.mem_map] at hp'
        obtain ⟨_, _, rfl⟩ := hp'
        simp

theorem prun_abs {q : List Agent} {mn : Nat} {s s' : State} {tr : List Agent}
    (hI : Inv q (mn : Int) s) (hr : PRun (mn : Int) s tr s') :
    ARun q mn (cOf s) tr (cOf s') ∧ Inv q (mn : Int) s' := by
  induction hr with
  | nil => exact ⟨.nil, hI⟩
  | cons hs _ ih =>
    obtain ⟨h1, h2⟩ := pstep_abs hI hs
    obtain ⟨h3, h4⟩ := ih h2
    exact ⟨.cons h1 h3, h4⟩

/-! ### the executable history is a relational history -/

theorem rotate_perm (q : List Agent) (a : Agent) : (rotate q a).Perm q := by
  unfold rotate
  split
  · rename_i h
    have hm : a ∈ q := List.contains_iff_mem.1 h
    exact (List.perm_append_comm.trans (List.perm_cons_erase hm).symm)
  · exact List.Perm.refl _

@[simp] theorem onYield_queue (s : State) (a : Agent) (now : Int) (r : Bool) :
    (onYield s a now r).queue = s.queue := by
  unfold onYield; cases r <;> simp

theorem stepT_pstep (m : Int) (s : State) (t : Tick) (hq : s.queue ≠ []) :
    PStep m s (stepT m s t).2.1 (stepT m s t).1 := by
  refine ⟨hq, (nextTurn t.fq t.aging m t.nowPick s).2, t.nowYield, (stepT m s t).1.queue,
    nextTurn_pick _ _ _ _ _ hq, ?_, ?_⟩
  · simp only [stepT]
    split
    · exact (rotate_perm _ _).trans (by rw [onYield_queue])
    · rw [onYield_queue]
  · simp only [stepT]
    split <;> rfl

theorem stepT_queue_ne (m : Int) (s : State) (t : Tick) (hq : s.queue ≠ []) : (stepT m s t).1.queue ≠ [] := by
  obtain ⟨_, r, now, q', _, hperm, e⟩ := stepT_pstep m s t hq
  rw [e]
  intro h
  have h' : q' = [] := h
  rw [h'] at hperm
  exact hq (List.Perm.eq_nil hperm.symm)

theorem simulate_prun (m : Int) (s : State) (ts : List Tick) (hq : s.queue ≠ []) :
    PRun m s (simulate m s ts).1 (simulate m s ts).2 := by
  induction ts generalizing s with
  | nil => exact .nil
  | cons t ts ih =>
    simp only [simulate]
    exact .cons (stepT_pstep m s t hq) (ih _ (stepT_queue_ne m s t hq))

/-! ### the initial state satisfies the invariant -/

theorem init_inv (ids : List Agent) (now : Int) (m : Int) (hm : 0 ≤ m) :
    Inv (initState ids now).queue m (initState ids now) := by
  refine ⟨List.Perm.refl _, ?_, ?_, ?_⟩
  · intro a ha
    exact dictOfKeys_has 0 _ a ha
  · intro p hp
    have := dictOfKeys_val 0 _ p hp
    omega
  · intro p hp
    have := dictOfKeys_val 0 _ p hp
    omega

theorem init_queue_perm (ids : List Agent) (now : Int) : (initState ids now).queue.Perm ids :=
  Clem.Py.isort_perm _ ids

/-! ### `maxGap` really is the longest wait -/

theorem maxGapAux_le (x : Agent) (B : Nat) (l : List Agent) (cur best : Nat) (hb : best ≤ B)
    (hw : ∀ pre w post, l = pre ++ w ++ post → x ∉ w → w.length ≤ B)
    (hp : ∀ w post, l = w ++ post → x ∉ w → cur + w.length ≤ B) :
    maxGapAux x l cur best ≤ B := by
  induction l generalizing cur best with
  | nil =>
    have := hp [] [] rfl (by simp)
    simp only [maxGapAux]; simp at this; omega
  | cons a t ih =>
    have hcur : cur ≤ B := by
      have := hp [] (a :: t) rfl (by simp)
      simpa using this
    simp only [maxGapAux]
    split
    · apply ih
      · omega
      · intro pre w post e hx
        exact hw (a :: pre) w post (by simp [e]) hx
      · intro w post e hx
        have := hw [a] w post (by simp [e]) hx
        omega
    · rename_i hax
      apply ih
      · exact hb
      · intro pre w post e hx
        exact hw (a :: pre) w post (by simp [e]) hx
      · intro w post e hx
        have hx' : x ∉ a :: w := by
          intro h
          cases h with
          | head => exact hax rfl
          | tail _ h => exact hx h
        have := hp (a :: w) post (by simp [e]) hx'
        simp at this; omega

theorem maxGap_le (x : Agent) (B : Nat) (l : List Agent)
    (hw : ∀ pre w post, l = pre ++ w ++ post → x ∉ w → w.length ≤ B) : maxGap x l ≤ B := by
  apply maxGapAux_le x B l 0 0 (Nat.zero_le _) hw
  intro w post e hx
  have := hw [] w post (by simp [e]) hx
  omega

end Clem.Sched
