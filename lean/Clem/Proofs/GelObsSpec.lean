import Clem.Proofs.GelCanon
import Mathlib.Data.Nat.Choose.Basic
import Mathlib.Data.List.Perm.Basic

/-! One observation satisfies its relational specification `obsSpecB`. -/
namespace Clem.Gel
open Clem.Py
set_option linter.unusedSectionVars false
variable {α : Type} [Field α] [LinearOrder α] [IsStrictOrderedRing α]

/-! ### 1. counters -/

theorem obs_counters (c : Cfg α) (items : List (Str × α)) :
    (c.topK < 0 ∨ ((usedItems c items).length : Int) ≤ c.topK) ∧
    (usedItems c items).length ≤ (eligible c items).length ∧
    ((obsPairs c items).length : Int) ≤ max 0 c.pairCap ∧
    (obsPairs c items).length ≤ (usedItems c items).length * ((usedItems c items).length - 1) / 2 := by
  obtain ⟨h1, h2⟩ := usedItems_length_le c items
  have h3 := obsPairs_length c items
  refine ⟨?_, h1, ?_, ?_⟩
  · by_cases h : 0 ≤ c.topK
    · right; have := h2 h; omega
    · left; omega
  · rw [h3]; omega
  · rw [h3, ← Nat.choose_two_right]; exact Nat.min_le_right _ _

/-! ### 2. old keys survive -/

theorem bump_key (c : Cfg α) (turn : Option Int) (e : Edge α) : (bump c turn e).key = e.key := rfl

theorem findEdge_obsStep_isSome (c : Cfg α) (turn : Option Int) (es : List (Edge α))
    (p : Str × Str) (k : Str) (h : (findEdge k es).isSome = true) :
    (findEdge k (obsStep c turn es p)).isSome = true := by
  unfold obsStep
  by_cases hk : k = (edgeKey p.1 p.2).key
  · obtain ⟨e, he, _⟩ := findEdge_upsert_self (k := (edgeKey p.1 p.2).key) (f := bump c turn)
      (d := newEdge (edgeKey p.1 p.2)) (es := es) (bump_key c turn) rfl
    rw [hk, he]; rfl
  · rw [findEdge_upsert_ne (k := (edgeKey p.1 p.2).key) (f := bump c turn)
      (d := newEdge (edgeKey p.1 p.2)) (es := es) (bump_key c turn) rfl hk]; exact h

theorem findEdge_observeEdges_isSome (c : Cfg α) (turn : Option Int) (ps : List (Str × Str))
    (es : List (Edge α)) (k : Str) (h : (findEdge k es).isSome = true) :
    (findEdge k (observeEdges c turn es ps)).isSome = true := by
  unfold observeEdges
  induction ps generalizing es with
  | nil => exact h
  | cons p t ih => exact ih _ (findEdge_obsStep_isSome c turn es p k h)

/-! ### 3. lookup under unique keys -/

theorem findEdge_self_of_nodup {es : List (Edge α)} {e : Edge α}
    (hnd : (es.map Edge.key).Nodup) (he : e ∈ es) : findEdge e.key es = some e := by
  induction es with
  | nil => cases he
  | cons a t ih =>
    simp only [List.map_cons, List.nodup_cons] at hnd
    rcases List.mem_cons.mp he with rfl | he
    · simp [findEdge]
    · have hne : ¬ a.key = e.key := by
        intro h; exact hnd.1 (h ▸ List.mem_map_of_mem he)
      have hb : (a.key == e.key) = false := by simpa using hne
      have := ih hnd.2 he
      simp only [findEdge] at this
      simp only [findEdge, List.find?_cons, hb, this]

theorem findEdge_some_mem {es : List (Edge α)} {k : Str} {e : Edge α}
    (h : findEdge k es = some e) : e ∈ es ∧ e.key = k := by
  unfold findEdge at h
  exact ⟨List.mem_of_find?_eq_some h, by simpa using List.find?_some h⟩

/-! ### 4. observed pair keys are eligible keys -/

theorem pairs_sublist {β : Type} {l₁ l₂ : List β} (h : l₁.Sublist l₂) :
    ∀ p ∈ pairs l₁, p ∈ pairs l₂ := by
  induction h with
  | slnil => intro p hp; exact hp
  | cons a _ ih =>
    intro p hp
    simp only [pairs, List.mem_append]
    exact Or.inr (ih p hp)
  | cons_cons a hs ih =>
    intro p hp
    simp only [pairs, List.mem_append, List.mem_map] at hp ⊢
    rcases hp with ⟨b, hb, rfl⟩ | hp
    · exact Or.inl ⟨b, hs.subset hb, rfl⟩
    · exact Or.inr (ih p hp)

theorem pairs_perm {β : Type} {l l' : List β} (h : l.Perm l') :
    ∀ p ∈ pairs l, p ∈ pairs l' ∨ p.swap ∈ pairs l' := by
  induction h with
  | nil => intro p hp; exact Or.inl hp
  | cons x hp ih =>
    intro p hm
    simp only [pairs, List.mem_append, List.mem_map] at hm ⊢
    rcases hm with ⟨b, hb, rfl⟩ | hm
    · exact Or.inl (Or.inl ⟨b, hp.subset hb, rfl⟩)
    · rcases ih p hm with h | h
      · exact Or.inl (Or.inr h)
      · exact Or.inr (Or.inr h)
  | swap x y l =>
    intro p hm
    simp only [pairs, List.mem_append, List.mem_map, List.mem_cons] at hm ⊢
    rcases hm with ⟨b, rfl | hb, rfl⟩ | ⟨b, hb, rfl⟩ | hm
    · exact Or.inr (Or.inl ⟨y, Or.inl rfl, rfl⟩)
    · exact Or.inl (Or.inr (Or.inl ⟨b, hb, rfl⟩))
    · exact Or.inl (Or.inl ⟨b, Or.inr hb, rfl⟩)
    · exact Or.inl (Or.inr (Or.inr hm))
  | trans _ _ ih₁ ih₂ =>
    intro p hm
    rcases ih₁ p hm with h | h
    · exact ih₂ p h
    · rcases ih₂ _ h with h' | h'
      · exact Or.inr h'
      · exact Or.inl (by simpa using h')

theorem pySlice_sublist {β : Type} (k : Int) (l : List β) : (pySlice k l).Sublist l := by
  unfold pySlice
  split <;> exact List.take_sublist _ _

theorem obsPairs_eligibleKeys (c : Cfg α) (items : List (Str × α)) :
    ∀ p ∈ obsPairs c items, (edgeKey p.1 p.2).key ∈ eligibleKeys c items := by
  intro p hp
  unfold obsPairs at hp
  have h1 := List.mem_of_mem_take hp
  have hsub : ((usedItems c items).map Prod.fst).Sublist
      ((isort keyLe (eligible c items)).map Prod.fst) :=
    (pySlice_sublist _ _).map _
  have h2 := pairs_sublist hsub p h1
  have hperm : ((isort keyLe (eligible c items)).map Prod.fst).Perm
      ((eligible c items).map Prod.fst) := (isort_perm keyLe _).map _
  unfold eligibleKeys
  rw [List.mem_flatMap]
  rcases pairs_perm hperm p h2 with h | h
  · exact ⟨p, h, by simp⟩
  · exact ⟨p.swap, h, by simp⟩

/-! ### 5. what a new or changed record looks like -/

/-- unchanged from `pre`, or sitting under an eligible key and (when the clamp is non-empty)
in bounds. -/
def ObsOk (c : Cfg α) (items : List (Str × α)) (pre : List (Edge α)) (e : Edge α) : Prop :=
  findEdge e.key pre = some e ∨
    (e.key ∈ eligibleKeys c items ∧ (c.cmin ≤ c.cmax → c.cmin ≤ e.w ∧ e.w ≤ c.cmax))

theorem obsOk_obsStep (c : Cfg α) (items : List (Str × α)) (pre : List (Edge α))
    (turn : Option Int) (es : List (Edge α)) (p : Str × Str)
    (hp : (edgeKey p.1 p.2).key ∈ eligibleKeys c items)
    (hes : ∀ e ∈ es, ObsOk c items pre e) : ∀ e ∈ obsStep c turn es p, ObsOk c items pre e := by
  intro e he
  unfold obsStep at he
  rcases mem_upsert he with h | ⟨e0, _, hk, rfl⟩ | rfl
  · exact hes e h
  · refine Or.inr ⟨?_, fun h => updW_bounds c e0.w h⟩
    rw [bump_key, hk]; exact hp
  · exact Or.inr ⟨hp, fun h => updW_bounds c _ h⟩

theorem obsOk_observeEdges (c : Cfg α) (items : List (Str × α)) (pre : List (Edge α))
    (turn : Option Int) (ps : List (Str × Str))
    (hps : ∀ p ∈ ps, (edgeKey p.1 p.2).key ∈ eligibleKeys c items) (es : List (Edge α))
    (hes : ∀ e ∈ es, ObsOk c items pre e) :
    ∀ e ∈ observeEdges c turn es ps, ObsOk c items pre e := by
  unfold observeEdges
  induction ps generalizing es with
  | nil => exact hes
  | cons p t ih =>
    simp only [List.foldl_cons]
    exact ih (fun q hq => hps q (List.mem_cons_of_mem _ hq)) _
      (obsOk_obsStep c items pre turn es p (hps p List.mem_cons_self) hes)

/-! ### 6. counting -/

theorem filter_upsert_length_le (q : Edge α → Bool) (k : Str) (f : Edge α → Edge α) (d : Edge α)
    (es : List (Edge α)) :
    ((upsert k f d es).filter q).length ≤ (es.filter q).length + 1 := by
  induction es with
  | nil =>
    exact List.length_filter_le q [f d]
  | cons e es ih =>
    simp only [upsert]
    split
    · simp only [List.filter_cons]
      split <;> split <;> (try simp only [List.length_cons]) <;> omega
    · simp only [List.filter_cons]
      split <;> (try simp only [List.length_cons]) <;> omega

theorem filter_observeEdges_length_le (q : Edge α → Bool) (c : Cfg α) (turn : Option Int)
    (ps : List (Str × Str)) (es : List (Edge α)) :
    ((observeEdges c turn es ps).filter q).length ≤ (es.filter q).length + ps.length := by
  unfold observeEdges
  induction ps generalizing es with
  | nil => simp
  | cons p t ih =>
    simp only [List.foldl_cons, List.length_cons]
    have h1 := ih (obsStep c turn es p)
    have h2 : ((obsStep c turn es p).filter q).length ≤ (es.filter q).length + 1 :=
      filter_upsert_length_le q _ _ _ es
    omega

/-! ### assembly -/

theorem unchanged_iff (same : Edge α → Edge α → Bool) (hsame : ∀ a b, same a b = true ↔ a = b)
    (pre : List (Edge α)) (e : Edge α) :
    (match findEdge e.key pre with | some e0 => same e0 e | none => false) = true ↔
      findEdge e.key pre = some e := by
  cases findEdge e.key pre with
  | none => simp
  | some e0 => simp [hsame]

theorem obsSpec_core (same : Edge α → Edge α → Bool) (hsame : ∀ a b, same a b = true ↔ a = b)
    (c : Cfg α) (items : List (Str × α)) (turn : Option Int) (pre : List (Edge α))
    (hnd : (pre.map Edge.key).Nodup) :
    obsSpecB same c items pre (observeEdges c turn pre (obsPairs c items))
      ⟨items.length, (usedItems c items).length, (obsPairs c items).length⟩ = true := by
  obtain ⟨c1, c2, c4, c5⟩ := obs_counters c items
  have hpre : ∀ e ∈ pre, findEdge e.key pre = some e := fun e he => findEdge_self_of_nodup hnd he
  have hok := obsOk_observeEdges c items pre turn (obsPairs c items)
    (obsPairs_eligibleKeys c items) pre (fun e he => Or.inl (hpre e he))
  have hz : ∀ q : Edge α → Bool, (∀ e ∈ pre, q e = false) → (pre.filter q).length = 0 := by
    intro q hq
    rw [List.length_eq_zero_iff, List.filter_eq_nil_iff]
    intro e he
    rw [hq e he]; simp
  unfold obsSpecB
  simp only [Bool.and_eq_true, Bool.or_eq_true, decide_eq_true_eq, List.all_eq_true,
    List.mem_filter]
  refine ⟨⟨⟨⟨⟨⟨⟨c1, c2⟩, trivial⟩, c4⟩, c5⟩, ?_⟩, ?_⟩, ?_⟩
  · intro e he
    apply findEdge_observeEdges_isSome
    rw [hpre e he]; rfl
  · rintro e ⟨he, hq⟩
    simp only [Bool.not_eq_true'] at hq
    have hq' : ¬ findEdge e.key pre = some e := by
      intro h
      have := (unchanged_iff same hsame pre e).mpr h
      exact Bool.noConfusion (this.symm.trans hq)
    rcases hok e he with h | ⟨h1, h2⟩
    · exact absurd h hq'
    · refine ⟨by simpa using h1, ?_⟩
      by_cases hle : c.cmin ≤ c.cmax
      · right; rw [inB_iff]; exact h2 hle
      · left; simpa using hle
  · refine le_trans (filter_observeEdges_length_le _ c turn _ pre) (le_of_eq ?_)
    rw [hz, Nat.zero_add]
    intro e he
    have := (unchanged_iff same hsame pre e).mpr (hpre e he)
    exact congrArg not this

theorem obsSpec_holds (same : Edge α → Edge α → Bool) (hsame : ∀ a b, same a b = true ↔ a = b)
    (c : Cfg α) (s : State α) (items : List (Str × α)) (turn : Option Int)
    (hen : c.enabled = true) (hnd : ((edgesOf s).map Edge.key).Nodup) :
    obsSpecB same c items (edgesOf s) (edgesOf (observe c s items turn).1)
      (observe c s items turn).2 = true := by
  have h : observe c s items turn =
      (some { ensure s with edges := observeEdges c turn (ensure s).edges (obsPairs c items) },
       ⟨items.length, (usedItems c items).length, (obsPairs c items).length⟩) := by
    simp [observe, hen]
  rw [h]
  exact obsSpec_core same hsame c items turn (edgesOf s) hnd

end Clem.Gel
