import Clem.Proofs.T4
import Mathlib.Data.List.Perm.Basic
import Mathlib.Data.List.Nodup

/-! Order-independence of `_combine_by_ckey` under exact arithmetic and injective string keys. -/
set_option linter.unusedSectionVars false

namespace Clem.T4
open Clem.Py

instance : RightCommutative minOpt where
  right_comm a b c := by
    cases a <;> cases b <;> cases c <;> simp only [minOpt] <;> try rfl
    all_goals (congr 1; split_ifs <;> omega)

theorem minOpt_none_left (x : Option Int) : minOpt none x = x := by cases x <;> rfl

variable {α : Type}

theorem delta_ext {a b : Delta α} (h1 : a.kind = b.kind) (h2 : a.id = b.id) (h3 : a.attr = b.attr)
    (h4 : a.delta = b.delta) (h5 : a.opIdx = b.opIdx) (h6 : a.idx = b.idx) : a = b := by
  cases a; cases b; simp_all

/-- Same string key ⇒ same target: no two distinct targets share `f"{kind}:{id}:{attr}"`. -/
def CkeyInjective (ds : List (Delta α)) : Prop :=
  ∀ a ∈ ds, ∀ b ∈ ds, ckey a = ckey b → a.kind = b.kind ∧ a.id = b.id ∧ a.attr = b.attr

section OrderedField
variable [Field α] [LinearOrder α] [IsStrictOrderedRing α]

/-- the merged entry as a function of the whole group `g` and its first element `d` -/
def aggOf (g : List (Delta α)) (d : Delta α) : Delta α :=
  ⟨d.kind, d.id, d.attr, (g.map (·.delta)).sum, (g.map (·.opIdx)).foldl minOpt none,
   (g.map (·.idx)).foldl minOpt none⟩

theorem foldl_merge_eq_aggOf (rest : List (Delta α)) (d : Delta α) :
    rest.foldl merge d = aggOf (d :: rest) d := by
  obtain ⟨h1, h2, h3, h4, h5, h6⟩ := foldl_merge_fields rest d
  refine delta_ext h1 h2 h3 ?_ ?_ ?_
  · rw [h4, foldl_add_delta]; simp [aggOf]
  · rw [h5]; simp [aggOf, List.foldl_map, minOpt_none_left]
  · rw [h6]; simp [aggOf, List.foldl_map, minOpt_none_left]

theorem aggOf_perm {g g' : List (Delta α)} (hp : g.Perm g') {d d' : Delta α}
    (hk : d.kind = d'.kind) (hi : d.id = d'.id) (ha : d.attr = d'.attr) : aggOf g d = aggOf g' d' := by
  refine delta_ext hk hi ha ?_ ?_ ?_
  · exact (hp.map _).sum_eq
  · exact (hp.map _).foldl_eq none
  · exact (hp.map _).foldl_eq none

theorem combineAcc_mem_of_perm {ds ds' : List (Delta α)} (hp : ds.Perm ds') (hinj : CkeyInjective ds)
    {e : Delta α} (he : e ∈ combineAcc ds) : e ∈ combineAcc ds' := by
  obtain ⟨d, rest, hg, rfl⟩ := combineAcc_spec ds he
  have hke : ckey (rest.foldl merge d) = ckey d := ckey_foldl_merge _ _
  rw [hke] at hg
  have hd : d ∈ ds := (List.mem_filter.1 (by rw [grp] at hg; rw [hg]; simp : d ∈ ds.filter _)).1
  have hk' : ckey d ∈ (combineAcc ds').map ckey :=
    (mem_keys_combineAcc ds' _).2 (List.mem_map_of_mem (hp.subset hd))
  obtain ⟨e', he', hke'⟩ := List.mem_map.1 hk'
  obtain ⟨d', rest', hg', he'eq⟩ := combineAcc_spec ds' he'
  rw [hke'] at hg'
  have hd'g : d' ∈ grp (ckey d) ds' := by rw [hg']; simp
  have hd' : d' ∈ ds' := (List.mem_filter.1 hd'g).1
  have hkd' : ckey d' = ckey d := by simpa [grp] using (List.mem_filter.1 hd'g).2
  obtain ⟨t1, t2, t3⟩ := hinj d' (hp.symm.subset hd') d hd hkd'
  have hgp : (d' :: rest').Perm (d :: rest) := by
    rw [← hg, ← hg']; exact (hp.filter _).symm
  have : e' = rest.foldl merge d := by
    rw [he'eq, foldl_merge_eq_aggOf, foldl_merge_eq_aggOf]
    exact aggOf_perm hgp t1 t2 t3
  rw [← this]; exact he'

theorem CkeyInjective.perm {ds ds' : List (Delta α)} (hp : ds.Perm ds') (h : CkeyInjective ds) :
    CkeyInjective ds' :=
  fun a ha b hb => h a (hp.symm.subset ha) b (hp.symm.subset hb)

theorem combineAcc_perm {ds ds' : List (Delta α)} (hp : ds.Perm ds') (hinj : CkeyInjective ds) :
    (combineAcc ds).Perm (combineAcc ds') := by
  rw [List.perm_ext_iff_of_nodup (List.Nodup.of_map _ (nodup_keys_combineAcc ds))
    (List.Nodup.of_map _ (nodup_keys_combineAcc ds'))]
  intro e
  exact ⟨combineAcc_mem_of_perm hp hinj, combineAcc_mem_of_perm hp.symm (hinj.perm hp)⟩

/-- `_combine_by_ckey` does not depend on the listing order (exact arithmetic, injective keys). -/
theorem combine_perm_invariant {ds ds' : List (Delta α)} (hp : ds.Perm ds') (hinj : CkeyInjective ds) :
    combine ds = combine ds' := by
  unfold combine
  refine isort_perm_invariant ckeyLe (fun a b => lexLe_total _ _) (fun a b c => lexLe_trans _ _ _)
    (combineAcc_perm hp hinj) ?_
  intro a ha b hb h1 h2
  exact List.inj_on_of_nodup_map (nodup_keys_combineAcc ds) ha hb (lexLe_antisymm _ _ h1 h2)

end OrderedField
end Clem.T4
