import Clem.Proofs.T4
import Mathlib.Data.List.Perm.Basic
import Mathlib.Data.List.Nodup

/-!
Order-independence of `_combine_by_ckey` (repaired: contributions summed in sorted order).
Needs NO arithmetic law: only that the carrier's `≤` (the one `sorted` uses) is a total order on the
values at hand — true of IEEE floats without NaN (up to the sign of zero) — and injective string keys.
-/
set_option linter.unusedSectionVars false

namespace Clem.T4
open Clem.Py

instance : RightCommutative minOpt where
  right_comm a b c := by
    cases a <;> cases b <;> cases c <;> simp only [minOpt] <;> try rfl
    all_goals (congr 1; split_ifs <;> omega)

theorem minOpt_none_left (x : Option Int) : minOpt none x = x := by cases x <;> rfl

variable {α : Type}

theorem delta_ext {a b : Delta α} (h1 : a.kind = b.kind) (h2 : a.id = b.id) (h3 : a.attr = b.attr)
    (h4 : a.delta = b.delta) (h5 : a.opIdx = b.opIdx) (h6 : a.idx = b.idx) : a = b := by
  cases a; cases b; simp_all

/-- Same string key ⇒ same target: no two distinct targets share `f"{kind}:{id}:{attr}"`. -/
def CkeyInjective (ds : List (Delta α)) : Prop :=
  ∀ a ∈ ds, ∀ b ∈ ds, ckey a = ckey b → a.kind = b.kind ∧ a.id = b.id ∧ a.attr = b.attr

/-! ### the repaired `_canonical_key` is injective in the target -/

theorem enc_sep_inj : ∀ (x y r r' : Str), enc x ++ 0 :: r = enc y ++ 0 :: r' → x = y ∧ r = r' := by
  intro x
  induction x with
  | nil =>
    intro y r r' h
    cases y with
    | nil => simpa [enc] using h
    | cons c ys => simp [enc] at h
  | cons c xs ih =>
    intro y r r' h
    cases y with
    | nil => simp [enc] at h
    | cons c' ys =>
      simp only [enc, List.map_cons, List.cons_append, List.cons.injEq, Nat.add_right_cancel_iff] at h
      obtain ⟨h1, h2⟩ := ih ys r r' (by simpa [enc] using h.2)
      exact ⟨by rw [h.1, h1], h2⟩

theorem enc_inj {x y : Str} (h : enc x = enc y) : x = y := by
  have : Function.Injective (fun n : Nat => n + 1) := fun a b hab => Nat.add_right_cancel hab
  exact List.map_injective_iff.2 this h

/-- distinct targets never share a key (`C03:t4:order.ckey-collision`, fixed) -/
theorem ckey_inj {a b : Delta α} (h : ckey a = ckey b) :
    a.kind = b.kind ∧ a.id = b.id ∧ a.attr = b.attr := by
  unfold ckey at h
  obtain ⟨_, h1⟩ := enc_sep_inj _ _ _ _ h
  obtain ⟨hk, h2⟩ := enc_sep_inj _ _ _ _ h1
  obtain ⟨hi, h3⟩ := enc_sep_inj _ _ _ _ h2
  exact ⟨hk, hi, enc_inj h3⟩

theorem ckeyInjective_all (ds : List (Delta α)) : CkeyInjective ds :=
  fun _ _ _ _ h => ckey_inj h

/-- The carrier's `≤` is a total order (what `sorted` needs for a canonical result).  Holds at every
ordered field; at `Float` it holds on NaN-free values up to the sign of zero. -/
structure LeTotalOrder (α : Type) [Num α] : Prop where
  total : ∀ a b : α, Num.le a b = true ∨ Num.le b a = true
  trans : ∀ a b c : α, Num.le a b = true → Num.le b c = true → Num.le a c = true
  antisymm : ∀ a b : α, Num.le a b = true → Num.le b a = true → a = b

section AnyCarrier
variable [Num α]

theorem sumSorted_perm (ho : LeTotalOrder α) {vs vs' : List α} (hp : vs.Perm vs') :
    sumSorted vs = sumSorted vs' := by
  unfold sumSorted
  rw [isort_perm_invariant Num.le ho.total ho.trans hp (fun a _ b _ => ho.antisymm a b)]

/-- the merged entry as a function of the whole group `g` and its first element `d` -/
def aggC (g : List (Delta α)) (d : Delta α) : Delta α :=
  ⟨d.kind, d.id, d.attr, sumSorted (g.map (·.delta)), (g.map (·.opIdx)).foldl minOpt none,
   (g.map (·.idx)).foldl minOpt none⟩

theorem canonEntry_eq_aggC (ds : List (Delta α)) (rest : List (Delta α)) (d : Delta α)
    (hg : grp (ckey d) ds = d :: rest) : canonEntry ds (rest.foldl merge d) = aggC (d :: rest) d := by
  obtain ⟨h1, h2, h3, _, h5, h6⟩ := foldl_merge_fields rest d
  refine delta_ext h1 h2 h3 ?_ ?_ ?_
  · show sumSorted (contribs (ckey (rest.foldl merge d)) ds) = _
    rw [ckey_foldl_merge, contribs]
    have : ds.filter (fun x => ckey x == ckey d) = d :: rest := hg
    rw [this]; rfl
  · show (rest.foldl merge d).opIdx = _
    rw [h5]; simp [aggC, List.foldl_map, minOpt_none_left]
  · show (rest.foldl merge d).idx = _
    rw [h6]; simp [aggC, List.foldl_map, minOpt_none_left]

theorem aggC_perm (ho : LeTotalOrder α) {g g' : List (Delta α)} (hp : g.Perm g') {d d' : Delta α}
    (hk : d.kind = d'.kind) (hi : d.id = d'.id) (ha : d.attr = d'.attr) : aggC g d = aggC g' d' := by
  refine delta_ext hk hi ha ?_ ?_ ?_
  · exact sumSorted_perm ho (hp.map _)
  · exact (hp.map _).foldl_eq none
  · exact (hp.map _).foldl_eq none

theorem combineC_mem_of_perm (ho : LeTotalOrder α) {ds ds' : List (Delta α)} (hp : ds.Perm ds')
    (hinj : CkeyInjective ds) {e : Delta α} (he : e ∈ combineC ds) : e ∈ combineC ds' := by
  obtain ⟨e₀, he₀, rfl⟩ := List.mem_map.1 he
  obtain ⟨d, rest, hg, rfl⟩ := combineAcc_spec ds he₀
  have hke : ckey (rest.foldl merge d) = ckey d := ckey_foldl_merge _ _
  rw [hke] at hg
  have hd : d ∈ ds := (List.mem_filter.1 (by rw [grp] at hg; rw [hg]; simp : d ∈ ds.filter _)).1
  have hk' : ckey d ∈ (combineAcc ds').map ckey :=
    (mem_keys_combineAcc ds' _).2 (List.mem_map_of_mem (hp.subset hd))
  obtain ⟨e', he', hke'⟩ := List.mem_map.1 hk'
  obtain ⟨d', rest', hg', he'eq⟩ := combineAcc_spec ds' he'
  rw [hke'] at hg'
  have hd'g : d' ∈ grp (ckey d) ds' := by rw [hg']; simp
  have hd' : d' ∈ ds' := (List.mem_filter.1 hd'g).1
  have hkd' : ckey d' = ckey d := by simpa [grp] using (List.mem_filter.1 hd'g).2
  obtain ⟨t1, t2, t3⟩ := hinj d' (hp.symm.subset hd') d hd hkd'
  have hgp : (d' :: rest').Perm (d :: rest) := by
    rw [← hg, ← hg']; exact (hp.filter _).symm
  have hg'' : grp (ckey d') ds' = d' :: rest' := by rw [hkd']; exact hg'
  have : canonEntry ds' e' = canonEntry ds (rest.foldl merge d) := by
    rw [he'eq, canonEntry_eq_aggC ds' rest' d' hg'', canonEntry_eq_aggC ds rest d hg]
    exact aggC_perm ho hgp t1 t2 t3
  rw [← this]; exact List.mem_map_of_mem he'

theorem CkeyInjective.perm {ds ds' : List (Delta α)} (hp : ds.Perm ds') (h : CkeyInjective ds) :
    CkeyInjective ds' :=
  fun a ha b hb => h a (hp.symm.subset ha) b (hp.symm.subset hb)

theorem combineC_perm (ho : LeTotalOrder α) {ds ds' : List (Delta α)} (hp : ds.Perm ds')
    (hinj : CkeyInjective ds) : (combineC ds).Perm (combineC ds') := by
  rw [List.perm_ext_iff_of_nodup (List.Nodup.of_map _ (nodup_keys_combineC ds))
    (List.Nodup.of_map _ (nodup_keys_combineC ds'))]
  intro e
  exact ⟨combineC_mem_of_perm ho hp hinj, combineC_mem_of_perm ho hp.symm (hinj.perm hp)⟩

/-- `_combine_by_ckey` does not depend on the listing order: injective keys + a totally ordered
carrier; no associativity, no exact arithmetic. -/
theorem combine_perm_invariant (ho : LeTotalOrder α) {ds ds' : List (Delta α)} (hp : ds.Perm ds')
    (hinj : CkeyInjective ds) : combine ds = combine ds' := by
  show isort ckeyLe (combineC ds) = isort ckeyLe (combineC ds')
  refine isort_perm_invariant ckeyLe (fun a b => lexLe_total _ _) (fun a b c => lexLe_trans _ _ _)
    (combineC_perm ho hp hinj) ?_
  intro a ha b hb h1 h2
  exact List.inj_on_of_nodup_map (nodup_keys_combineC ds) ha hb (lexLe_antisymm _ _ h1 h2)

end AnyCarrier

/-- every ordered field is a totally ordered carrier -/
theorem leTotalOrder_field [Field α] [LinearOrder α] : LeTotalOrder α where
  total a b := by simpa using le_total a b
  trans a b c := by simpa using @le_trans α _ a b c
  antisymm a b := by simpa using @le_antisymm α _ a b

end Clem.T4
