import Mathlib.Algebra.Order.Field.Basic
import Mathlib.Tactic.Linarith
import Clem.Py.Num

/-!
`Num α` at an ordered field: the instance under which models written against `Clem.Py.Num`
are proved about, and the `simp` set (`num_simp`) that turns `Num.add a b` into `a + b`,
`Num.lt a b = true` into `a < b`, ….  Reusable by every package with a `Num`-generic model.
-/
namespace Clem.Py

variable {α : Type} [Field α] [LinearOrder α]

instance fieldNum : Num α where
  zero := 0
  one := 1
  add a b := a + b
  sub a b := a - b
  mul a b := a * b
  div a b := a / b
  neg a := -a
  abs a := |a|
  lt a b := decide (a < b)
  le a b := decide (a ≤ b)
  beq a b := decide (a = b)

@[simp] theorem num_zero : (Num.zero : α) = 0 := rfl
@[simp] theorem num_one : (Num.one : α) = 1 := rfl
@[simp] theorem num_add (a b : α) : Num.add a b = a + b := rfl
@[simp] theorem num_sub (a b : α) : Num.sub a b = a - b := rfl
@[simp] theorem num_mul (a b : α) : Num.mul a b = a * b := rfl
@[simp] theorem num_div (a b : α) : Num.div a b = a / b := rfl
@[simp] theorem num_neg (a : α) : Num.neg a = -a := rfl
@[simp] theorem num_abs (a : α) : Num.abs a = |a| := rfl
@[simp] theorem num_lt (a b : α) : Num.lt a b = decide (a < b) := rfl
@[simp] theorem num_le (a b : α) : Num.le a b = decide (a ≤ b) := rfl
@[simp] theorem num_beq (a b : α) : Num.beq a b = decide (a = b) := rfl

end Clem.Py
