import Mathlib.Data.List.Sort
import Mathlib.Order.Defs.LinearOrder
import Mathlib.Data.Int.Order.Basic
import Clem.Proofs.Sort
import Clem.Model.T2
import Clem.Model.T2Mon

/-! Helper lemmas for C11 (T2 retrieval): order infrastructure, index filters, tier walk. -/

namespace Clem.T2

open Clem.Py

/-! ### Strings: `lexLe` is a linear order on code-point lists -/

theorem lexLe_refl (a : Str) : lexLe a a = true := by
  induction a with
  | nil => rfl
  | cons x xs ih => simp [lexLe, ih]

theorem lexLe_total (a b : Str) : lexLe a b = true ∨ lexLe b a = true := by
  induction a generalizing b with
  | nil => left; rfl
  | cons x xs ih =>
    cases b with
    | nil => right; rfl
    | cons y ys =>
      simp only [lexLe]
      rcases Nat.lt_trichotomy x y with h | h | h
      · left; simp [h]
      · subst h; simp [ih ys]
      · right; simp [h]

theorem lexLe_antisymm (a b : Str) : lexLe a b = true → lexLe b a = true → a = b := by
  induction a generalizing b with
  | nil => cases b <;> simp [lexLe]
  | cons x xs ih =>
    cases b with
    | nil => simp [lexLe]
    | cons y ys =>
      simp only [lexLe]
      intro h1 h2
      rcases Nat.lt_trichotomy x y with h | h | h
      · have : ¬ y < x := by omega
        simp [h, this] at h2
      · subst h
        simp at h1 h2
        rw [ih ys h1 h2]
      · have : ¬ x < y := by omega
        simp [h, this] at h1

theorem lexLe_trans (a b c : Str) : lexLe a b = true → lexLe b c = true → lexLe a c = true := by
  induction a generalizing b c with
  | nil => intros; rfl
  | cons x xs ih =>
    cases b with
    | nil => simp [lexLe]
    | cons y ys =>
      cases c with
      | nil => simp [lexLe]
      | cons z zs =>
        simp only [lexLe]
        intro h1 h2
        by_cases hxy : x < y
        · by_cases hyz : y < z
          · have : x < z := by omega
            simp [this]
          · by_cases hzy : z < y
            · simp [hyz, hzy] at h2
            · have : y = z := by omega
              subst this; simp [hxy]
        · by_cases hyx : y < x
          · simp [hxy, hyx] at h1
          · have hxy' : x = y := by omega
            subst hxy'
            simp at h1
            by_cases hxz : x < z
            · simp [hxz]
            · by_cases hzx : z < x
              · simp [hxz, hzx] at h2
              · simp [hxz, hzx] at h2 ⊢
                exact ih ys zs h1 h2

theorem lexLt_iff (a b : Str) : lexLt a b = true ↔ lexLe a b = true ∧ a ≠ b := by
  simp [lexLt]

/-- `¬ (b < a)` is `a ≤ b`. -/
theorem not_lexLt_iff (a b : Str) : lexLt b a = false ↔ lexLe a b = true := by
  constructor
  · intro h
    rcases lexLe_total a b with h1 | h1
    · exact h1
    · by_cases hab : b = a
      · subst hab; exact lexLe_refl _
      · have : lexLt b a = true := (lexLt_iff b a).2 ⟨h1, hab⟩
        rw [h] at this; cases this
  · intro h
    by_contra hc
    have hc' : lexLt b a = true := by simpa using hc
    obtain ⟨h1, h2⟩ := (lexLt_iff b a).1 hc'
    exact h2 (lexLe_antisymm b a h1 h)

/-! ### Carriers whose Boolean comparisons are a linear order -/

/-- The only thing the theorems need from the carrier: `<`, `<=`, `==` of the model agree with a
linear order.  Arithmetic is uninterpreted (rounding is irrelevant to scope / caps / order /
permutation facts); the one thing excluded is NaN. -/
class NumOrd (α : Type) [Num α] [LinearOrder α] : Prop where
  lt_iff : ∀ a b : α, Num.lt a b = true ↔ a < b
  le_iff : ∀ a b : α, Num.le a b = true ↔ a ≤ b
  beq_iff : ∀ a b : α, Num.beq a b = true ↔ a = b

section
variable {α : Type} [Num α] [LinearOrder α] [NumOrd α]

theorem keyLe_iff (a b : α × Str) :
    keyLe a b = true ↔ a.1 < b.1 ∨ (a.1 = b.1 ∧ lexLe a.2 b.2 = true) := by
  unfold keyLe keyLt
  by_cases h : b.1 = a.1
  · have hb : Num.beq b.1 a.1 = true := (NumOrd.beq_iff _ _).2 h
    simp only [hb, if_true, Bool.not_eq_true', not_lexLt_iff]
    constructor
    · intro hl; right; exact ⟨h.symm, hl⟩
    · rintro (hl | ⟨_, hl⟩)
      · exact absurd h.symm (ne_of_lt hl)
      · exact hl
  · have hb : Num.beq b.1 a.1 = false := by
      cases hq : Num.beq b.1 a.1
      · rfl
      · exact absurd ((NumOrd.beq_iff _ _).1 hq) h
    simp only [hb, Bool.false_eq_true, if_false, Bool.not_eq_true']
    constructor
    · intro hl
      left
      have : ¬ b.1 < a.1 := by
        intro hlt
        rw [(NumOrd.lt_iff _ _).2 hlt] at hl; cases hl
      exact lt_of_le_of_ne (not_lt.1 this) (fun e => h e.symm)
    · rintro (hl | ⟨he, _⟩)
      · cases hq : Num.lt b.1 a.1
        · rfl
        · exact absurd ((NumOrd.lt_iff _ _).1 hq) (not_lt.2 (le_of_lt hl))
      · exact absurd he.symm h

theorem keyLe_total (a b : α × Str) : keyLe a b = true ∨ keyLe b a = true := by
  rw [keyLe_iff, keyLe_iff]
  rcases lt_trichotomy a.1 b.1 with h | h | h
  · left; left; exact h
  · rcases lexLe_total a.2 b.2 with hl | hl
    · left; right; exact ⟨h, hl⟩
    · right; right; exact ⟨h.symm, hl⟩
  · right; left; exact h

theorem keyLe_trans (a b c : α × Str) :
    keyLe a b = true → keyLe b c = true → keyLe a c = true := by
  rw [keyLe_iff, keyLe_iff, keyLe_iff]
  rintro (h1 | ⟨h1, l1⟩) (h2 | ⟨h2, l2⟩)
  · left; exact lt_trans h1 h2
  · left; rw [← h2]; exact h1
  · left; rw [h1]; exact h2
  · right; exact ⟨h1.trans h2, lexLe_trans _ _ _ l1 l2⟩

/-- Sorting by a `keyLe`-key gives a `Pairwise`-sorted list. -/
theorem isort_key_pairwise {β : Type} (key : β → α × Str) (l : List β) :
    (isort (fun a b => keyLe (key a) (key b)) l).Pairwise
      (fun a b => keyLe (key a) (key b) = true) :=
  isort_pairwise _ (fun a b => keyLe_total (key a) (key b))
    (fun a b c => keyLe_trans (key a) (key b) (key c)) l

end

/-! ### `pySlice` -/

theorem pySlice_prefix {β : Type} (k : Int) (l : List β) : pySlice k l <+: l := by
  unfold pySlice
  split <;> exact List.take_prefix _ _

theorem mem_of_mem_pySlice {β : Type} {k : Int} {l : List β} {x : β} (h : x ∈ pySlice k l) :
    x ∈ l := (pySlice_prefix k l).subset h

theorem pySlice_length_le {β : Type} (k : Int) (l : List β) (hk : 0 ≤ k) :
    ((pySlice k l).length : Int) ≤ k := by
  unfold pySlice
  simp only [hk, if_true, List.length_take]
  omega

theorem pySlice_pairwise {β : Type} {r : β → β → Prop} (k : Int) {l : List β}
    (h : l.Pairwise r) : (pySlice k l).Pairwise r :=
  h.sublist (pySlice_prefix k l).sublist

/-! ### Index level -/

set_option linter.unusedSectionVars false

section
variable {α : Type} [Num α]

theorem mem_filterOwner {o : Option Str} {eps : List (Ep α)} {e : Ep α}
    (h : e ∈ filterOwner o eps) :
    e ∈ eps ∧ visible o e = true := by
  unfold filterOwner at h
  cases o with
  | none => exact ⟨h, rfl⟩
  | some a =>
    simp only [List.mem_filter] at h
    exact ⟨h.1, h.2⟩

/-! `dedupIds`: the first copy of every id, in order -/

theorem dedupIdsAux_sublist (seen : List Str) (l : List (Ep α)) : (dedupIdsAux seen l).Sublist l := by
  induction l generalizing seen with
  | nil => simp [dedupIdsAux]
  | cons x t ih =>
    unfold dedupIdsAux
    split
    · exact (ih seen).cons _
    · exact (ih _).cons_cons _

theorem dedupIds_sublist (l : List (Ep α)) : (dedupIds l).Sublist l := dedupIdsAux_sublist [] l

/-- the kept ids are pairwise distinct and none of them was already seen -/
theorem dedupIdsAux_ids (seen : List Str) (l : List (Ep α)) :
    ((dedupIdsAux seen l).map (·.id)).Nodup ∧ ∀ h ∈ dedupIdsAux seen l, h.id ∉ seen := by
  induction l generalizing seen with
  | nil => simp [dedupIdsAux]
  | cons x t ih =>
    unfold dedupIdsAux
    split
    · exact ih seen
    · rename_i hx
      obtain ⟨h1, h2⟩ := ih (x.id :: seen)
      have hx' : x.id ∉ seen := by simpa using hx
      constructor
      · rw [List.map_cons, List.nodup_cons]
        refine ⟨?_, h1⟩
        intro hm
        obtain ⟨y, hy, hid⟩ := List.mem_map.1 hm
        exact h2 y hy (by rw [hid]; exact List.mem_cons_self)
      · intro h hh
        rcases List.mem_cons.1 hh with rfl | hh
        · exact hx'
        · exact fun hc => h2 h hh (List.mem_cons_of_mem _ hc)

theorem dedupIds_ids_nodup (l : List (Ep α)) : ((dedupIds l).map (·.id)).Nodup :=
  (dedupIdsAux_ids [] l).1

/-- coverage: on a list sorted by `R`, every element whose id is not yet seen is represented by a
kept copy of its id that is the element itself or `R`-precedes it -/
theorem dedupIdsAux_cover {R : Ep α → Ep α → Prop} (seen : List Str) (l : List (Ep α))
    (hs : l.Pairwise R) :
    ∀ e ∈ l, e.id ∉ seen → ∃ h ∈ dedupIdsAux seen l, h.id = e.id ∧ (h = e ∨ R h e) := by
  induction l generalizing seen with
  | nil => intro e he; cases he
  | cons x t ih =>
    rw [List.pairwise_cons] at hs
    intro e he hne
    unfold dedupIdsAux
    split
    · rename_i hx
      rcases List.mem_cons.1 he with rfl | he
      · exact absurd (by simpa using hx) hne
      · exact ih seen hs.2 e he hne
    · rcases List.mem_cons.1 he with rfl | he
      · exact ⟨e, List.mem_cons_self, rfl, Or.inl rfl⟩
      · by_cases hid : e.id = x.id
        · exact ⟨x, List.mem_cons_self, hid.symm, Or.inr (hs.1 e he)⟩
        · have hne' : e.id ∉ x.id :: seen := by
            intro hc
            rcases List.mem_cons.1 hc with h | h
            · exact hid h
            · exact hne h
          obtain ⟨h, hh, h1, h2⟩ := ih (x.id :: seen) hs.2 e he hne'
          exact ⟨h, List.mem_cons_of_mem _ hh, h1, h2⟩

theorem mem_rankByCosine {k : Int} {θ : α} {eps : List (Ep α)} {e : Ep α}
    (h : e ∈ rankByCosine k θ eps) : e ∈ eps ∧ passes θ e = true := by
  unfold rankByCosine at h
  have := (dedupIds_sublist _).subset (mem_of_mem_pySlice h)
  rw [mem_isort] at this
  simpa [List.mem_filter] using this

/-- a tier's answer never repeats an episode id -/
theorem rankByCosine_ids_nodup (k : Int) (θ : α) (eps : List (Ep α)) :
    ((rankByCosine k θ eps).map (·.id)).Nodup := by
  unfold rankByCosine
  exact (dedupIds_ids_nodup _).sublist ((pySlice_prefix k _).sublist.map _)

theorem rankByCosine_length {k : Int} (θ : α) (eps : List (Ep α)) (hk : 0 ≤ k) :
    ((rankByCosine k θ eps).length : Int) ≤ k := pySlice_length_le _ _ hk

theorem mem_clusterPool {chosen : List Str} {eps : List (Ep α)} {e : Ep α}
    (h : e ∈ clusterPool chosen eps) : e ∈ eps ∧ e.cluster ∈ chosen := by
  unfold clusterPool at h
  simp only [List.mem_flatMap, mem_isort, List.mem_filter, beq_iff_eq] at h
  obtain ⟨c, hc, he, hcl⟩ := h
  exact ⟨he, hcl ▸ hc⟩

theorem chosenClusters_length (cs : List (Str × α)) (m : Int) (eps : List (Ep α)) (hm : 0 ≤ m) :
    ((chosenClusters cs m eps).length : Int) ≤ m := by
  unfold chosenClusters
  rw [List.length_map]
  exact pySlice_length_le _ _ hm

/-- Everything `_search_with_episodes` returns: an index episode, visible to the query owner,
with a vector, cosine ≥ θ, satisfying the tier's rule. -/
theorem mem_searchTier {c : Cfg α} {t : Nat} {eps : List (Ep α)} {e : Ep α}
    (h : e ∈ searchTier c t eps) :
    e ∈ eps ∧ visible c.owner e = true
      ∧ passes c.θ e = true ∧ tierOk c eps e t = true := by
  unfold searchTier at h
  simp only at h
  split at h
  · cases h
  · match t with
    | 0 =>
      simp only at h
      obtain ⟨h1, h2⟩ := mem_rankByCosine h
      unfold filterRecent at h1
      by_cases hd : c.days ≤ 0
      · simp only [hd, if_true] at h1
        obtain ⟨h3, h4⟩ := mem_filterOwner h1
        exact ⟨h3, h4, h2, by simp [tierOk, hd]⟩
      · simp only [hd, if_false, List.mem_filter] at h1
        obtain ⟨h3, h4⟩ := mem_filterOwner h1.1
        exact ⟨h3, h4, h2, by simp [tierOk, h1.2]⟩
    | 1 =>
      simp only at h
      obtain ⟨h1, h2⟩ := mem_rankByCosine h
      obtain ⟨h3, h4⟩ := mem_clusterPool h1
      obtain ⟨h5, h6⟩ := mem_filterOwner h3
      refine ⟨h5, h6, h2, ?_⟩
      simp only [tierOk, List.contains_iff_mem]
      exact h4
    | 2 =>
      simp only at h
      obtain ⟨h1, h2⟩ := mem_rankByCosine h
      unfold filterQuarters at h1
      by_cases hq : c.quarters.isEmpty = true
      · simp only [hq, if_true] at h1
        obtain ⟨h3, h4⟩ := mem_filterOwner h1
        exact ⟨h3, h4, h2, by simp [tierOk, hq]⟩
      · simp only [hq, Bool.false_eq_true, if_false, List.mem_filter] at h1
        obtain ⟨h3, h4⟩ := mem_filterOwner h1.1
        refine ⟨h3, h4, h2, ?_⟩
        simp only [tierOk, Bool.or_eq_true]
        right; exact h1.2
    | (n + 3) => simp at h

/-! ### Tier walk -/

theorem addHits_mem {k : Int} {hits acc : List (Ep α)} {e : Ep α}
    (h : e ∈ addHits k hits acc) : e ∈ acc ∨ e ∈ hits := by
  induction hits generalizing acc with
  | nil => left; simpa [addHits] using h
  | cons x xs ih =>
    unfold addHits at h
    split at h
    · rcases ih h with h | h
      · left; exact h
      · right; exact List.mem_cons_of_mem _ h
    · split at h
      · simp only [List.mem_append, List.mem_singleton] at h
        rcases h with h | h
        · left; exact h
        · right; rw [h]; exact List.mem_cons_self
      · rcases ih h with h | h
        · simp only [List.mem_append, List.mem_singleton] at h
          rcases h with h | h
          · left; exact h
          · right; rw [h]; exact List.mem_cons_self
        · right; exact List.mem_cons_of_mem _ h

theorem nodup_ids_append {acc : List (Ep α)} {x : Ep α}
    (hn : (acc.map (·.id)).Nodup) (hx : acc.any (fun r => r.id == x.id) = false) :
    ((acc ++ [x]).map (·.id)).Nodup := by
  rw [List.map_append, List.nodup_append]
  refine ⟨hn, by simp, ?_⟩
  intro a ha b hb
  simp only [List.map_cons, List.map_nil, List.mem_singleton] at hb
  subst hb
  intro hab
  subst hab
  obtain ⟨r, hr, hid⟩ := List.mem_map.1 ha
  have : acc.any (fun r => r.id == x.id) = true := List.any_eq_true.2 ⟨r, hr, by simp [hid]⟩
  rw [hx] at this; cases this

theorem addHits_nodup {k : Int} {hits acc : List (Ep α)}
    (hn : (acc.map (·.id)).Nodup) : ((addHits k hits acc).map (·.id)).Nodup := by
  induction hits generalizing acc with
  | nil => simpa [addHits] using hn
  | cons x xs ih =>
    unfold addHits
    split
    · exact ih hn
    · rename_i hx
      have hx' : acc.any (fun r => r.id == x.id) = false := by simpa using hx
      split
      · exact nodup_ids_append hn hx'
      · exact ih (nodup_ids_append hn hx')

theorem addHits_length {k : Int} {hits acc : List (Ep α)}
    (hl : (acc.length : Int) < k) : ((addHits k hits acc).length : Int) ≤ k := by
  induction hits generalizing acc with
  | nil => simp only [addHits]; omega
  | cons x xs ih =>
    unfold addHits
    split
    · exact ih hl
    · split
      · rename_i h2
        simp only [List.length_append, List.length_cons, List.length_nil] at h2 ⊢
        omega
      · rename_i h2
        apply ih
        omega

theorem walk_mem {k : Int} {search : Nat → List (Ep α)} {ts : List Nat} {acc : List (Ep α)}
    {seq : List Nat} {e : Ep α} (h : e ∈ (walk k search ts acc seq).1) :
    e ∈ acc ∨ ∃ t ∈ ts, t ≤ 2 ∧ e ∈ search t := by
  induction ts generalizing acc seq with
  | nil => left; simpa [walk] using h
  | cons t ts ih =>
    unfold walk at h
    split at h
    · rename_i ht
      simp only at h
      split at h
      · rcases addHits_mem h with h | h
        · left; exact h
        · right; exact ⟨t, List.mem_cons_self, ht, h⟩
      · rcases ih h with h | ⟨t', ht', h2, h3⟩
        · rcases addHits_mem h with h | h
          · left; exact h
          · right; exact ⟨t, List.mem_cons_self, ht, h⟩
        · right; exact ⟨t', List.mem_cons_of_mem _ ht', h2, h3⟩
    · rcases ih h with h | ⟨t', ht', h2, h3⟩
      · left; exact h
      · right; exact ⟨t', List.mem_cons_of_mem _ ht', h2, h3⟩

theorem walk_nodup {k : Int} {search : Nat → List (Ep α)} {ts : List Nat} {acc : List (Ep α)}
    {seq : List Nat} (hn : (acc.map (·.id)).Nodup) :
    ((walk k search ts acc seq).1.map (·.id)).Nodup := by
  induction ts generalizing acc seq with
  | nil => simpa [walk] using hn
  | cons t ts ih =>
    unfold walk
    split
    · simp only
      split
      · exact addHits_nodup hn
      · exact ih (addHits_nodup hn)
    · exact ih hn

theorem walk_length {k : Int} {search : Nat → List (Ep α)} {ts : List Nat} {acc : List (Ep α)}
    {seq : List Nat} (hl : (acc.length : Int) < k) :
    ((walk k search ts acc seq).1.length : Int) ≤ k := by
  induction ts generalizing acc seq with
  | nil => simp only [walk]; omega
  | cons t ts ih =>
    unfold walk
    split
    · simp only
      split
      · exact addHits_length hl
      · rename_i h2
        apply ih
        omega
    · exact ih hl


/-! ### Rescoring -/

theorem rescore_map_fst (c : Cfg α) (eps l : List (Ep α)) :
    ((rescore c eps l).map (·.1)).Perm l := by
  unfold rescore
  have h := (isort_perm combLe (l.map (fun h => (h, combined c eps h.id h.cos)))).map (·.1)
  simpa [List.map_map, Function.comp_def] using h

theorem rescore_snd {c : Cfg α} {eps l : List (Ep α)} {p : Ep α × α} (h : p ∈ rescore c eps l) :
    p.1 ∈ l ∧ p.2 = combined c eps p.1.id p.1.cos := by
  unfold rescore at h
  rw [mem_isort] at h
  obtain ⟨x, hx, rfl⟩ := List.mem_map.1 h
  exact ⟨hx, rfl⟩

/-! ### `id_to_ref` rebuilding -/

theorem epById_of_mem {l : List (Ep α)} (hn : (l.map (·.id)).Nodup) {e : Ep α} (he : e ∈ l) :
    epById l e.id = some e := by
  unfold epById
  have hex : (l.reverse.find? (fun x => x.id == e.id)).isSome = true := by
    rw [List.find?_isSome]
    exact ⟨e, List.mem_reverse.2 he, by simp⟩
  obtain ⟨x, hx⟩ := Option.isSome_iff_exists.1 hex
  rw [hx]
  have hxm : x ∈ l := List.mem_reverse.1 (List.mem_of_find?_eq_some hx)
  have hxid : x.id = e.id := by simpa using List.find?_some hx
  have := List.inj_on_of_nodup_map hn hxm he hxid
  rw [this]

/-- If the ids of `items` are a permutation of the ids of `retrieved` (ids distinct), rebuilding
through the id→ref map yields a permutation of `retrieved`. -/
theorem rebuild_perm {retrieved : List (Ep α)} {items : List (FItem α)}
    (hn : (retrieved.map (·.id)).Nodup)
    (hp : (items.map (·.ref.id)).Perm (retrieved.map (·.id))) :
    (rebuild retrieved items).Perm retrieved := by
  have h1 : rebuild retrieved items = (items.map (·.ref.id)).filterMap (epById retrieved) := by
    unfold rebuild
    rw [List.filterMap_map]; rfl
  rw [h1]
  refine (hp.filterMap _).trans ?_
  rw [List.filterMap_map]
  have : List.filterMap (epById retrieved ∘ fun x => x.id) retrieved
      = List.filterMap some retrieved := by
    apply List.filterMap_congr
    intro e he
    exact epById_of_mem hn he
  rw [this, List.filterMap_some]

theorem orKeep_perm {β : Type} {new old : List β} (h : new.Perm old) : (orKeep new old).Perm old := by
  unfold orKeep
  split
  · exact List.Perm.refl _
  · exact h

theorem itemsForFusion_ids (l : List (Ep α)) :
    (itemsForFusion l).map (·.ref.id) = l.map (·.id) := by
  unfold itemsForFusion
  rw [List.map_map]
  have : ((fun x : FItem α => x.ref.id) ∘
      fun p : Ep α × Nat => (⟨p.1, Num.ofInt ((l.length : Int) - (p.2 : Int)), none⟩ : FItem α))
      = (fun p : Ep α × Nat => p.1.id) := rfl
  rw [this]
  have h2 : (fun p : Ep α × Nat => p.1.id) = (fun e : Ep α => e.id) ∘ Prod.fst := rfl
  rw [h2, ← List.map_map, List.zipIdx_map_fst]

/-! ### Fusion -/

theorem fuse_ids (q : QCfg α) (items : List (FItem α)) :
    ((fuse q items).map (·.ref.id)).Perm (items.map (·.ref.id)) := by
  unfold fuse
  split
  · exact List.Perm.refl _
  · simp only
    refine ((isort_perm fusedLe _).map _).trans ?_
    rw [List.map_map]
    exact List.Perm.refl _

/-! ### MMR -/

theorem pickBest_mem (lam : α) (sel : List (MItem α)) (first : MItem α) (rem : List (MItem α)) :
    pickBest lam sel first rem = first ∨ pickBest lam sel first rem ∈ rem := by
  unfold pickBest
  generalize hf : (fun (acc : MItem α × Option α) x =>
    let s := mmrScore lam sel x
    match acc.2 with
    | none => (x, some s)
    | some bv =>
      if Num.lt bv s || (Num.beq s bv && lexLt x.item.ref.id acc.1.item.ref.id) then (x, some s)
      else acc) = f
  have key : ∀ (rem : List (MItem α)) (acc : MItem α × Option α),
      (rem.foldl f acc).1 = acc.1 ∨ (rem.foldl f acc).1 ∈ rem := by
    intro rem
    induction rem with
    | nil => intro acc; left; rfl
    | cons x xs ih =>
      intro acc
      rw [List.foldl_cons]
      rcases ih (f acc x) with h | h
      · have hfx : (f acc x).1 = acc.1 ∨ (f acc x).1 = x := by
          subst hf
          simp only
          split
          · right; rfl
          · split
            · right; rfl
            · left; rfl
        rcases hfx with h2 | h2
        · left; rw [h, h2]
        · right; rw [h, h2]; exact List.mem_cons_self
      · right; exact List.mem_cons_of_mem _ h
  exact key rem (first, none)

theorem removeFirst_ids {b : MItem α} {rem : List (MItem α)} (hb : b ∈ rem) :
    (b.item.ref.id :: (removeFirst b.item.ref.id rem).map (·.item.ref.id)).Perm
      (rem.map (·.item.ref.id)) := by
  induction rem with
  | nil => cases hb
  | cons x xs ih =>
    unfold removeFirst
    split
    · rename_i hx
      have : x.item.ref.id = b.item.ref.id := by simpa using hx
      rw [List.map_cons, this]
    · rename_i hx
      have hne : b ≠ x := by
        intro e; subst e; simp at hx
      have hb' : b ∈ xs := by
        rcases List.mem_cons.1 hb with h | h
        · exact absurd h hne
        · exact h
      rw [List.map_cons, List.map_cons]
      exact (List.Perm.swap _ _ _).trans ((ih hb').cons _)

theorem mmrLoop_ids (lam : α) (n : Nat) (sel rem : List (MItem α)) :
    (((mmrLoop lam n sel rem).1 ++ (mmrLoop lam n sel rem).2).map (·.item.ref.id)).Perm
      ((sel ++ rem).map (·.item.ref.id)) := by
  induction n generalizing sel rem with
  | zero => exact List.Perm.refl _
  | succ n ih =>
    unfold mmrLoop
    cases rem with
    | nil => exact List.Perm.refl _
    | cons r rs =>
      simp only
      refine (ih _ _).trans ?_
      have hb : pickBest lam sel r (r :: rs) ∈ r :: rs := by
        rcases pickBest_mem lam sel r (r :: rs) with h | h
        · rw [h]; exact List.mem_cons_self
        · exact h
      have := removeFirst_ids hb
      simp only [List.map_append, List.map_cons, List.map_nil, List.append_assoc,
        List.singleton_append]
      exact this.append_left _

theorem mmrApply_ids (q : QCfg α) (items : List (FItem α)) :
    ((mmrApply q items).map (·.ref.id)).Perm (items.map (·.ref.id)) := by
  unfold mmrApply
  simp only
  generalize clampLam q = lam
  generalize mmrFuel q (toMItems items).length = n
  have h := mmrLoop_ids lam n [] (isort mLe (toMItems items))
  rw [List.map_map]
  refine h.trans ?_
  rw [List.nil_append]
  refine ((isort_perm mLe _).map _).trans ?_
  unfold toMItems
  rw [List.map_map]
  exact List.Perm.refl _

theorem maybeMmr_ids (q : QCfg α) (items : List (FItem α)) :
    ((maybeMmr q items).map (·.ref.id)).Perm (items.map (·.ref.id)) := by
  unfold maybeMmr
  split
  · exact List.Perm.refl _
  · exact mmrApply_ids q items

/-! ### The fusion / MMR block and its fallback -/

theorem fusionBlock_perm (q : QCfg α) {retrieved : List (Ep α)}
    (hn : (retrieved.map (·.id)).Nodup) : (fusionBlock q retrieved).1.Perm retrieved := by
  unfold fusionBlock
  have hf : ((fuse q (itemsForFusion retrieved)).map (·.ref.id)).Perm (retrieved.map (·.id)) := by
    have := fuse_ids q (itemsForFusion retrieved)
    rwa [itemsForFusion_ids] at this
  have h1 : (orKeep (rebuild retrieved (fuse q (itemsForFusion retrieved))) retrieved).Perm retrieved :=
    orKeep_perm (rebuild_perm hn hf)
  split
  · exact List.Perm.refl _
  · split
    · exact List.Perm.refl _
    · simp only
      split
      · exact h1
      · split
        · exact h1
        · simp only
          refine (orKeep_perm (rebuild_perm ?_ ?_)).trans h1
          · exact ((h1.map _).nodup_iff).2 hn
          · exact ((maybeMmr_ids q _).trans hf).trans (h1.map _).symm

theorem mmrFallback_perm (q : QCfg α) (f : Bool) {retrieved : List (Ep α)}
    (hn : (retrieved.map (·.id)).Nodup) : (mmrFallback q f retrieved).Perm retrieved := by
  unfold mmrFallback
  split
  · exact List.Perm.refl _
  · split
    · exact List.Perm.refl _
    · apply orKeep_perm
      apply rebuild_perm hn
      have := maybeMmr_ids q (itemsForFusion retrieved)
      rwa [itemsForFusion_ids] at this

/-! ### Hybrid -/

theorem hybridReorder_perm (work : List (Ep α)) (scores : List α)
    (hl : scores.length = work.length) : (hybridReorder work scores).Perm work := by
  unfold hybridReorder
  cases work with
  | nil => simp
  | cons x rest =>
    cases scores with
    | nil => simp at hl
    | cons s srest =>
      simp only
      refine List.Perm.cons _ ?_
      refine ((isort_perm hybLe _).map _).trans ?_
      have : (rest.zip srest).map (·.1) = rest := by
        apply List.map_fst_zip
        simp only [List.length_cons] at hl
        omega
      rw [this]

theorem hybridReorder_head (work : List (Ep α)) (scores : List α) :
    (hybridReorder work scores).head? = work.head? := by
  unfold hybridReorder
  cases work with
  | nil => simp
  | cons x rest => cases scores <;> simp

/-- `rerank_with_gel`: a permutation that keeps position 0 and everything beyond `k_max`. -/
theorem hybrid_spec (h : HCfg α) (items : List (Ep α)) (o : HOut (Ep α))
    (ho : hybrid h items = .ok o) :
    o.items.Perm items ∧ o.items.head? = items.head?
      ∧ o.items.drop (min (items.length : Int) h.kMax).toNat
          = items.drop (min (items.length : Int) h.kMax).toNat := by
  unfold hybrid at ho
  split at ho
  · cases ho
  · split at ho
    · cases ho; exact ⟨List.Perm.refl _, rfl, rfl⟩
    · split at ho
      · cases ho; exact ⟨List.Perm.refl _, rfl, rfl⟩
      · simp only at ho
        split at ho
        · cases ho; exact ⟨List.Perm.refl _, rfl, rfl⟩
        · split at ho
          · cases ho; exact ⟨List.Perm.refl _, rfl, rfl⟩
          · rename_i hk _
            cases ho
            simp only
            set kc := (min (items.length : Int) h.kMax).toNat with hkc
            have hlen : ((hybridScores h (items.take kc) (min (items.length : Int) h.kMax)).map (·.1)).length
                = (items.take kc).length := by
              unfold hybridScores
              simp
            have hp := hybridReorder_perm (items.take kc) _ hlen
            have hkc2 : 2 ≤ kc ∧ kc ≤ items.length := by omega
            refine ⟨?_, ?_, ?_⟩
            · have := hp.append_right (items.drop kc)
              rwa [List.take_append_drop] at this
            · rw [List.head?_append, hybridReorder_head]
              cases hi : items with
              | nil => simp
              | cons a as =>
                have : 0 < kc := by omega
                cases hkk : kc with
                | zero => omega
                | succ m => simp
            · have hl2 : (hybridReorder (items.take kc)
                  ((hybridScores h (items.take kc) (min (items.length : Int) h.kMax)).map (·.1))).length = kc := by
                rw [hp.length_eq, List.length_take]; omega
              rw [List.drop_append_of_le_length (by omega), List.drop_of_length_le (by omega)]
              simp

/-! ### `apply_quality` -/

theorem applyQuality_perm (h : HCfg α) (q : QCfg α) {retrieved : List (Ep α)}
    (hn : (retrieved.map (·.id)).Nodup) : (applyQuality h q retrieved).items.Perm retrieved := by
  unfold applyQuality
  simp only
  have h0 : ∀ r0 : HOut (Ep α), r0.items.Perm retrieved →
      (if (fusionBlock q r0.items).2.1 = true then (fusionBlock q r0.items).1
        else mmrFallback q (if (fusionBlock q r0.items).2.2 = true then q.failMmr2 else q.failMmr1)
          (fusionBlock q r0.items).1).Perm retrieved := by
    intro r0 hr0
    have hn0 : (r0.items.map (·.id)).Nodup := ((hr0.map _).nodup_iff).2 hn
    have hfb := fusionBlock_perm q hn0
    split
    · exact hfb.trans hr0
    · have hn1 : ((fusionBlock q r0.items).1.map (·.id)).Nodup := ((hfb.map _).nodup_iff).2 hn0
      exact ((mmrFallback_perm q _ hn1).trans hfb).trans hr0
  apply h0
  split
  · split
    · rename_i o ho
      exact (hybrid_spec h retrieved o ho).1
    · exact List.Perm.refl _
  · exact List.Perm.refl _

/-! ### Residual -/

theorem foldl_inv {β γ : Type} (P : β → Prop) (f : β → γ → β) (l : List γ) (b : β) (hb : P b)
    (hf : ∀ b x, x ∈ l → P b → P (f b x)) : P (l.foldl f b) := by
  induction l generalizing b with
  | nil => exact hb
  | cons x xs ih =>
    rw [List.foldl_cons]
    apply ih
    · exact hf b x List.mem_cons_self hb
    · intro b y hy hP; exact hf b y (List.mem_cons_of_mem _ hy) hP

theorem dictSet_mem {d : List (Str × Str)} {k v : Str} {p : Str × Str} (h : p ∈ dictSet d k v) :
    p ∈ d ∨ p = (k, v) := by
  unfold dictSet at h
  split at h
  · obtain ⟨p0, hp0, rfl⟩ := List.mem_map.1 h
    split
    · right; rfl
    · left; exact hp0
  · rcases List.mem_append.1 h with h | h
    · left; exact h
    · right; simpa using h

/-- Every entry of the label map is `(lower(label n), n.id)` for a labelled node `n` of an active graph. -/
def LmOk (graphs : List (List GNode)) (d : List (Str × Str)) : Prop :=
  ∀ p ∈ d, ∃ g ∈ graphs, ∃ n ∈ g,
    n.id = p.2 ∧ n.label.isEmpty = false ∧ p.1 = lowerAscii n.label

theorem labelMap_sound (graphs : List (List GNode)) : LmOk graphs (labelMap graphs) := by
  unfold labelMap
  apply foldl_inv (P := LmOk graphs)
  · intro p hp; cases hp
  · intro d g hg hd
    apply foldl_inv (P := LmOk graphs)
    · exact hd
    · intro d' n hn hd'
      have hn' : n ∈ g := (mem_isort nodeLe).1 hn
      split
      · exact hd'
      · rename_i hl
        intro p hp
        rcases dictSet_mem hp with h | h
        · exact hd' p h
        · subst h
          exact ⟨g, hg, n, hn', rfl, by simpa using hl, rfl⟩

theorem resInner_mem {cap : Int} {tLow : Str} {rest : List (Str × Str)} {ch : List Str} {nid : Str}
    (h : nid ∈ resInner cap tLow rest ch) :
    nid ∈ ch ∨ ∃ p ∈ rest, p.2 = nid ∧ p.1.isEmpty = false ∧ isInfix p.1 tLow = true := by
  induction rest generalizing ch with
  | nil => left; simpa [resInner] using h
  | cons p ps ih =>
    unfold resInner at h
    split at h
    · rename_i hc
      simp only [Bool.and_eq_true, Bool.not_eq_true'] at hc
      have hnew : ∀ x, x ∈ ch ++ [p.2] → x ∈ ch ∨ ∃ p' ∈ p :: ps, p'.2 = x ∧ p'.1.isEmpty = false
          ∧ isInfix p'.1 tLow = true := by
        intro x hx
        rcases List.mem_append.1 hx with hx | hx
        · left; exact hx
        · right
          refine ⟨p, List.mem_cons_self, ?_, hc.1.1, hc.1.2⟩
          exact (List.mem_singleton.1 hx).symm
      split at h
      · exact hnew _ h
      · rcases ih h with h | ⟨p', hp', h2⟩
        · exact hnew _ h
        · right; exact ⟨p', List.mem_cons_of_mem _ hp', h2⟩
    · rcases ih h with h | ⟨p', hp', h2⟩
      · left; exact h
      · right; exact ⟨p', List.mem_cons_of_mem _ hp', h2⟩

theorem resInner_length {cap : Int} {tLow : Str} {rest : List (Str × Str)} {ch : List Str}
    (hl : (ch.length : Int) < cap) : ((resInner cap tLow rest ch).length : Int) ≤ cap := by
  induction rest generalizing ch with
  | nil => simp only [resInner]; omega
  | cons p ps ih =>
    unfold resInner
    split
    · split
      · simp only [List.length_append, List.length_cons, List.length_nil]; omega
      · rename_i h2
        exact ih (by omega)
    · exact ih hl

section
variable {α : Type} [Num α]

theorem resOuter_mem {cap : Int} {lm : List (Str × Str)} {es : List (Ep α)} {ch : List Str}
    {nid : Str} (h : nid ∈ resOuter cap lm es ch) :
    nid ∈ ch ∨ ∃ e ∈ es, ∃ p ∈ lm, p.2 = nid ∧ p.1.isEmpty = false
      ∧ isInfix p.1 (lowerAscii e.text) = true := by
  induction es generalizing ch with
  | nil => left; simpa [resOuter] using h
  | cons e es ih =>
    unfold resOuter at h
    split at h
    · left; exact h
    · simp only at h
      have hin : ∀ x, x ∈ resInner cap (lowerAscii e.text) lm ch →
          x ∈ ch ∨ ∃ e' ∈ e :: es, ∃ p ∈ lm, p.2 = x ∧ p.1.isEmpty = false
            ∧ isInfix p.1 (lowerAscii e'.text) = true := by
        intro x hx
        rcases resInner_mem hx with hx | ⟨p, hp, h2⟩
        · left; exact hx
        · right; exact ⟨e, List.mem_cons_self, p, hp, h2⟩
      split at h
      · exact hin _ h
      · rcases ih h with h | ⟨e', he', h2⟩
        · exact hin _ h
        · right; exact ⟨e', List.mem_cons_of_mem _ he', h2⟩

theorem resOuter_length {cap : Int} {lm : List (Str × Str)} {es : List (Ep α)} {ch : List Str}
    (hl : (ch.length : Int) ≤ max cap 0) : ((resOuter cap lm es ch).length : Int) ≤ max cap 0 := by
  induction es generalizing ch with
  | nil => simpa [resOuter] using hl
  | cons e es ih =>
    unfold resOuter
    split
    · exact hl
    · rename_i h1
      simp only
      have := resInner_length (cap := cap) (tLow := lowerAscii e.text) (rest := lm) (ch := ch) (by omega)
      split
      · omega
      · apply ih; omega

end

theorem mem_dedup {l : List Str} {x : Str} : x ∈ dedup l ↔ x ∈ l := by
  induction l with
  | nil => simp [dedup]
  | cons y ys ih =>
    unfold dedup
    split
    · rename_i hc
      rw [ih]
      constructor
      · intro h; exact List.mem_cons_of_mem _ h
      · intro h
        rcases List.mem_cons.1 h with h | h
        · subst h; simpa using hc
        · exact h
    · simp [ih]

theorem nodup_dedup (l : List Str) : (dedup l).Nodup := by
  induction l with
  | nil => simp [dedup]
  | cons y ys ih =>
    unfold dedup
    split
    · exact ih
    · rename_i hc
      refine List.nodup_cons.2 ⟨?_, ih⟩
      rw [mem_dedup]
      simpa using hc

theorem dedup_length (l : List Str) : (dedup l).length ≤ l.length := by
  induction l with
  | nil => simp [dedup]
  | cons y ys ih =>
    unfold dedup
    split
    · simp only [List.length_cons]; omega
    · simp only [List.length_cons]; omega

theorem sorted_nodup_strict {l : List Str} (hs : l.Pairwise (fun a b => lexLe a b = true))
    (hn : l.Nodup) : l.Pairwise (fun a b => lexLt a b = true) := by
  have := hs.and hn
  exact this.imp (fun h => (lexLt_iff _ _).2 h)

end

/-! ### Boolean reflection for the monitors -/

theorem pairwiseB_iff {β : Type} (r : β → β → Bool) (l : List β) :
    pairwiseB r l = true ↔ l.Pairwise (fun a b => r a b = true) := by
  induction l with
  | nil => simp [pairwiseB]
  | cons x xs ih => simp [pairwiseB, List.pairwise_cons, List.all_eq_true, ih]

theorem nodupB_iff (l : List Str) : nodupB l = true ↔ l.Nodup := by
  unfold nodupB
  rw [pairwiseB_iff]
  unfold List.Nodup
  constructor <;> intro h <;> exact h.imp (by intro a b; simp)

theorem usedHits_map {β γ : Type} (f : β → γ) (t2k : Option Int) (l : List β) :
    usedHits t2k (l.map f) = (usedHits t2k l).map f := by
  unfold usedHits
  cases t2k with
  | none => rfl
  | some k => simp [List.map_take]


/-! ### A concrete lawful carrier (non-vacuity of `NumOrd`) -/

instance : Num Int where
  zero := 0
  one := 1
  add := (· + ·)
  sub := (· - ·)
  mul := (· * ·)
  div := (· / ·)
  neg := fun x => -x
  abs := fun x => if x < 0 then -x else x
  lt := fun a b => decide (a < b)
  le := fun a b => decide (a ≤ b)
  beq := fun a b => decide (a = b)
  ofInt := id

instance : NumOrd Int where
  lt_iff := by intro a b; simp [Num.lt]
  le_iff := by intro a b; simp [Num.le]
  beq_iff := by intro a b; simp [Num.beq]


end Clem.T2
