import Clem.Proofs.T1Cases

/-!
Counter / budget invariants of the T1 model: counters equal event counts; the relaxation cap; the pop
budget; and the inertness of the perf dedupe ring and visited set as the code is written
(`if ring:` / `if visited_lru:` test `__len__` of containers that start empty).
-/

namespace Clem.T1
open Num

variable {α : Type} [Num α]
set_option linter.unusedSectionVars false
set_option linter.unusedSimpArgs false

def Ev.isPop : Ev α → Bool
  | .pop _ _ => true
  | _ => false
def Ev.isRelax : Ev α → Bool
  | .relax _ => true
  | _ => false
def Ev.isRadius : Ev α → Bool
  | .radiusSkip _ _ _ => true
  | _ => false
def Ev.isLayer : Ev α → Bool
  | .layerSkip _ _ _ => true
  | _ => false
def Ev.isNodeHit : Ev α → Bool
  | .nodeHitPop _ _ => true
  | .nodeHitPush _ _ => true
  | _ => false
def Ev.isDedup : Ev α → Bool
  | .dedupHit _ => true
  | _ => false
def Ev.isVisitedSkip : Ev α → Bool
  | .visitedSkip _ => true
  | _ => false

/-! ## inertness of ring / visited -/

structure Inert (st : St α) : Prop where
  ring : st.ring = none ∨ st.ring = some []
  visited : st.visited = none ∨ st.visited = some []
  dedup : st.dedupHits = 0
  visEv : st.visitedEv = 0
  noDedupEv : st.evs.countP Ev.isDedup = 0
  noVisitedEv : st.evs.countP Ev.isVisitedSkip = 0

theorem ringHit_inert {r : Option (List Nat)} (h : r = none ∨ r = some []) (x : Nat) :
    ringHit r x = false := by
  rcases h with h | h <;> subst h <;> simp [ringHit]

theorem ringAddIf_inert {r : Option (List Nat)} (h : r = none ∨ r = some []) (k x : Nat) :
    ringAddIf k r x = r := by
  rcases h with h | h <;> subst h <;> simp [ringAddIf]

theorem visitedHit_inert {r : Option (List Nat)} (h : r = none ∨ r = some []) (x : Nat) :
    visitedHit r x = false := by
  rcases h with h | h <;> subst h <;> simp [visitedHit]

theorem visitedMark_inert (c : Cfg α) (st : St α) (u : Nat)
    (h : st.visited = none ∨ st.visited = some []) : visitedMark c st u = st := by
  unfold visitedMark
  rcases h with h | h <;> simp [h]

theorem Inert_st0 (c : Cfg α) : Inert (st0 c) := by
  refine ⟨?_, ?_, rfl, rfl, rfl, rfl⟩
  · simp only [st0]; split <;> simp
  · simp only [st0]; split <;> simp

/-- seeding keeps the containers empty and never sets the local dedupe counter -/
theorem Inert_seedStep (c : Cfg α) (s : SeedSt α) (nid : Nat)
    (h : Inert s.st ∧ s.localDedup = none) :
    Inert (seedStep c s nid).st ∧ (seedStep c s nid).localDedup = none := by
  obtain ⟨hi, hl⟩ := h
  unfold seedStep
  dsimp only
  rw [ringHit_inert hi.ring]
  simp only [Bool.false_eq_true, if_false]
  refine ⟨⟨?_, hi.visited, hi.dedup, hi.visEv, ?_, ?_⟩, hl⟩
  · show ringAddIf _ s.st.ring nid = none ∨ ringAddIf _ s.st.ring nid = some []
    rw [ringAddIf_inert hi.ring]; exact hi.ring
  · show List.countP Ev.isDedup (Ev.seed nid :: s.st.evs) = 0
    simp [List.countP_cons, Ev.isDedup, hi.noDedupEv]
  · show List.countP Ev.isVisitedSkip (Ev.seed nid :: s.st.evs) = 0
    simp [List.countP_cons, Ev.isVisitedSkip, hi.noVisitedEv]

theorem Inert_seedAll (c : Cfg α) (seeds : List Nat) : Inert (seedAll c seeds) := by
  unfold seedAll
  have := seedFold_inv c seeds (fun s => Inert s.st ∧ s.localDedup = none)
    (fun s nid _ h => Inert_seedStep c s nid h) seeds ⟨st0 c, none, none⟩
    (fun x hx => hx) ⟨Inert_st0 c, rfl⟩
  obtain ⟨hi, hl⟩ := this
  dsimp only
  refine ⟨hi.ring, hi.visited, ?_, hi.visEv, hi.noDedupEv, hi.noVisitedEv⟩
  show Option.getD _ 0 = 0
  rw [hl]; rfl

/-- an update that keeps ring/visited/their counters and conses a non-dedupe, non-visited-skip event -/
theorem Inert_cons {st st' : St α} (e : Ev α) (hr : st'.ring = st.ring) (hv : st'.visited = st.visited)
    (hd : st'.dedupHits = st.dedupHits) (hve : st'.visitedEv = st.visitedEv)
    (hevs : st'.evs = e :: st.evs) (he : Ev.isDedup e = false) (he' : Ev.isVisitedSkip e = false)
    (h : Inert st) : Inert st' := by
  refine ⟨by rw [hr]; exact h.ring, by rw [hv]; exact h.visited, by rw [hd]; exact h.dedup,
    by rw [hve]; exact h.visEv, ?_, ?_⟩
  · rw [hevs]; simp [List.countP_cons, he, h.noDedupEv]
  · rw [hevs]; simp [List.countP_cons, he', h.noVisitedEv]

theorem Inert_same {st st' : St α} (hr : st'.ring = st.ring) (hv : st'.visited = st.visited)
    (hd : st'.dedupHits = st.dedupHits) (hve : st'.visitedEv = st.visitedEv)
    (hevs : st'.evs = st.evs) (h : Inert st) : Inert st' := by
  refine ⟨by rw [hr]; exact h.ring, by rw [hv]; exact h.visited, by rw [hd]; exact h.dedup,
    by rw [hve]; exact h.visEv, by rw [hevs]; exact h.noDedupEv, by rw [hevs]; exact h.noVisitedEv⟩

theorem sc_ring {st st2 : St α} (h : sameCore st st2) : st2.ring = st.ring := by
  unfold sameCore at h; rw [h]
theorem sc_dedup {st st2 : St α} (h : sameCore st st2) : st2.dedupHits = st.dedupHits := by
  unfold sameCore at h; rw [h]
theorem sc_evs {st st2 : St α} (h : sameCore st st2) : st2.evs = st.evs := by
  unfold sameCore at h; rw [h]

theorem Inert_pop (c : Cfg α) (st : St α) (it : Item α) (rest : List (Item α)) (h : Inert st) :
    Inert (gate c (popped st it rest) it).1 := by
  have hsp : Inert (popped st it rest) :=
    Inert_cons (st := st) (Ev.pop it.id it.w) rfl rfl rfl rfl rfl rfl rfl h
  rcases gate_cases c (popped st it rest) it with ⟨hv, _⟩ | ⟨st2, hsc, hv2, hve2, hg⟩
  · rw [visitedHit_inert hsp.visited] at hv; simp at hv
  · rw [visitedMark_inert c _ _ hsp.visited] at hv2 hve2
    have h2 : Inert st2 := Inert_same (sc_ring hsc) hv2 (sc_dedup hsc) hve2 (sc_evs hsc) hsp
    rcases hg with hg | ⟨_, hg⟩ | ⟨_, hg⟩ <;> rw [hg]
    · exact Inert_cons (st := st2) (Ev.layerStop it.id) rfl rfl rfl rfl rfl rfl rfl h2
    · exact Inert_cons (st := st2) (Ev.nodeHitPop it.id _) rfl rfl rfl rfl rfl rfl rfl h2
    · exact Inert_cons (st := st2) (Ev.expand it.id _) rfl rfl rfl rfl rfl rfl rfl h2

theorem Inert_capCheck (c : Cfg α) (st : St α) (h : Inert st) : Inert (capCheck c st) := by
  rcases capCheck_cases c st with h1 | h1 <;> rw [h1]
  · exact h
  · exact Inert_same (st := st) rfl rfl rfl rfl rfl h

theorem Inert_pushOrHit (c : Cfg α) (st : St α) (v : Nat) (x : α) (h : Inert st) :
    Inert (pushOrHit c st v x) := by
  unfold pushOrHit
  split
  · rcases pushMain_cases c st ⟨neg (abs x), v, x⟩ (accGet st.acc v) with ⟨hh, _⟩ | ⟨_, hp⟩
    · rw [ringHit_inert h.ring] at hh; simp at hh
    · rw [hp]
      refine Inert_cons (st := st) (Ev.push v x _) ?_ rfl rfl rfl rfl rfl rfl h
      show ringAddIf _ st.ring v = st.ring
      exact ringAddIf_inert h.ring _ _
  · exact Inert_cons (st := st) (Ev.nodeHitPush v _) rfl rfl rfl rfl rfl rfl rfl h

theorem Inert_edge (c : Cfg α) (u : Nat) (w : α) (st : St α) (e : Edge α) (h : Inert st) :
    Inert (relaxEdge c u w st e) := by
  rcases relaxEdge_cases c u w st e with ⟨_, hr⟩ | ⟨_, ⟨_, hr⟩ | ⟨_, hr⟩ | ⟨_, hr⟩ | ⟨dec, _, _, hr⟩ |
      ⟨dec, _, _, _, _, hr⟩⟩ <;> rw [hr]
  · exact Inert_same (st := st) rfl rfl rfl rfl rfl h
  · exact Inert_cons (st := st) (Ev.radiusSkip u e.dst _) rfl rfl rfl rfl rfl rfl rfl h
  · exact Inert_cons (st := st) (Ev.layerSkip u e.dst _) rfl rfl rfl rfl rfl rfl rfl h
  · exact Inert_same (st := st) rfl rfl rfl rfl rfl h
  · exact Inert_cons (st := st) (Ev.epsSkip u e.dst _ _) rfl rfl rfl rfl rfl rfl rfl h
  · unfold applyContrib
    apply Inert_capCheck
    apply Inert_pushOrHit
    exact Inert_cons (st := st) (Ev.relax _) rfl rfl rfl rfl rfl rfl rfl h

theorem Inert_final_stop_aux (c : Cfg α) (seeds : List Nat) : (seedAll c seeds).stop = 0 := by
  have : ∀ (l : List Nat) (s : SeedSt α), s.st.stop = 0 → (l.foldl (seedStep c) s).st.stop = 0 := by
    intro l
    induction l with
    | nil => intro s h; simpa using h
    | cons a l ih =>
      intro s h
      simp only [List.foldl_cons]
      apply ih
      unfold seedStep
      dsimp only
      split <;> exact h
  exact this _ _ rfl

theorem Inert_final (c : Cfg α) (g : Graph α) (text : List Nat) : Inert (finalSt c g text) := by
  unfold finalSt
  apply loop_inv c g Inert (fun _ _ st => Inert st)
  · intro st it rest h _ _
    exact ⟨fun _ => Inert_pop c st it rest h, fun _ => Inert_pop c st it rest h⟩
  · intro u w st e _ _ _ h
    exact Inert_edge c u w st e h
  · intro _ _ st h; exact h
  · -- seeding never sets `stop`
    have : ∀ (l : List Nat) (s : SeedSt α), s.st.stop = 0 → (l.foldl (seedStep c) s).st.stop = 0 := by
      intro l
      induction l with
      | nil => intro s h; simpa using h
      | cons a l ih =>
        intro s h
        simp only [List.foldl_cons]
        apply ih
        unfold seedStep
        dsimp only
        split <;> exact h
    exact this _ _ rfl
  · exact Inert_seedAll c _

/-! ## counters = event counts -/

structure Counts (st : St α) : Prop where
  pops : st.pops = st.evs.countP Ev.isPop
  props : st.props = st.evs.countP Ev.isRelax
  radius : st.radiusHits = st.evs.countP Ev.isRadius
  layer : st.layerHits = st.evs.countP Ev.isLayer
  node : st.nodeHits = st.evs.countP Ev.isNodeHit

theorem Counts_cons {st st' : St α} (e : Ev α) (hevs : st'.evs = e :: st.evs)
    (h1 : st'.pops = st.pops + (if Ev.isPop e then 1 else 0))
    (h2 : st'.props = st.props + (if Ev.isRelax e then 1 else 0))
    (h3 : st'.radiusHits = st.radiusHits + (if Ev.isRadius e then 1 else 0))
    (h4 : st'.layerHits = st.layerHits + (if Ev.isLayer e then 1 else 0))
    (h5 : st'.nodeHits = st.nodeHits + (if Ev.isNodeHit e then 1 else 0))
    (h : Counts st) : Counts st' := by
  refine ⟨?_, ?_, ?_, ?_, ?_⟩
  · rw [h1, hevs, List.countP_cons, h.pops]
  · rw [h2, hevs, List.countP_cons, h.props]
  · rw [h3, hevs, List.countP_cons, h.radius]
  · rw [h4, hevs, List.countP_cons, h.layer]
  · rw [h5, hevs, List.countP_cons, h.node]

theorem Counts_same {st st' : St α} (hevs : st'.evs = st.evs) (h1 : st'.pops = st.pops)
    (h2 : st'.props = st.props) (h3 : st'.radiusHits = st.radiusHits)
    (h4 : st'.layerHits = st.layerHits) (h5 : st'.nodeHits = st.nodeHits)
    (h : Counts st) : Counts st' := by
  refine ⟨?_, ?_, ?_, ?_, ?_⟩
  · rw [h1, hevs]; exact h.pops
  · rw [h2, hevs]; exact h.props
  · rw [h3, hevs]; exact h.radius
  · rw [h4, hevs]; exact h.layer
  · rw [h5, hevs]; exact h.node

theorem Counts_sameCore {st st2 : St α} (hsc : sameCore st st2) (h : Counts st) : Counts st2 := by
  unfold sameCore at hsc
  rw [hsc]
  exact Counts_same (st := st) rfl rfl rfl rfl rfl rfl h

theorem Counts_st0 (c : Cfg α) : Counts (st0 c) := ⟨rfl, rfl, rfl, rfl, rfl⟩

theorem Counts_seedStep (c : Cfg α) (s : SeedSt α) (nid : Nat) (h : Counts s.st) :
    Counts (seedStep c s nid).st := by
  unfold seedStep
  dsimp only
  split
  · exact Counts_cons (st := s.st) (Ev.seed nid) rfl rfl rfl rfl rfl rfl h
  · exact Counts_cons (st := s.st) (Ev.seed nid) rfl rfl rfl rfl rfl rfl h

theorem Counts_seedAll (c : Cfg α) (seeds : List Nat) : Counts (seedAll c seeds) := by
  unfold seedAll
  have := seedFold_inv c seeds (fun s => Counts s.st)
    (fun s nid _ h => Counts_seedStep c s nid h) seeds ⟨st0 c, none, none⟩
    (fun x hx => hx) (Counts_st0 c)
  exact Counts_same (st := (seeds.foldl (seedStep c) ⟨st0 c, none, none⟩).st) rfl rfl rfl rfl rfl rfl this

theorem Counts_pop (c : Cfg α) (st : St α) (it : Item α) (rest : List (Item α)) (h : Counts st) :
    Counts (gate c (popped st it rest) it).1 := by
  have hsp : Counts (popped st it rest) :=
    Counts_cons (st := st) (Ev.pop it.id it.w) rfl rfl rfl rfl rfl rfl h
  rcases gate_cases c (popped st it rest) it with ⟨_, hg⟩ | ⟨st2, hsc, _, _, hg⟩
  · rw [hg]
    exact Counts_cons (st := popped st it rest) (Ev.visitedSkip it.id) rfl rfl rfl rfl rfl rfl hsp
  · have h2 := Counts_sameCore hsc hsp
    rcases hg with hg | ⟨_, hg⟩ | ⟨_, hg⟩ <;> rw [hg]
    · exact Counts_cons (st := st2) (Ev.layerStop it.id) rfl rfl rfl rfl rfl rfl h2
    · exact Counts_cons (st := st2) (Ev.nodeHitPop it.id _) rfl rfl rfl rfl rfl rfl h2
    · exact Counts_cons (st := st2) (Ev.expand it.id _) rfl rfl rfl rfl rfl rfl h2

theorem Counts_capCheck (c : Cfg α) (st : St α) (h : Counts st) : Counts (capCheck c st) := by
  rcases capCheck_cases c st with h1 | h1 <;> rw [h1]
  · exact h
  · exact Counts_same (st := st) rfl rfl rfl rfl rfl rfl h

theorem Counts_pushOrHit (c : Cfg α) (st : St α) (v : Nat) (x : α) (h : Counts st) :
    Counts (pushOrHit c st v x) := by
  unfold pushOrHit
  split
  · rcases pushMain_cases c st ⟨neg (abs x), v, x⟩ (accGet st.acc v) with ⟨_, hp⟩ | ⟨_, hp⟩ <;> rw [hp]
    · exact Counts_cons (st := st) (Ev.dedupHit v) rfl rfl rfl rfl rfl rfl h
    · exact Counts_cons (st := st) (Ev.push v x _) rfl rfl rfl rfl rfl rfl h
  · exact Counts_cons (st := st) (Ev.nodeHitPush v _) rfl rfl rfl rfl rfl rfl h

theorem Counts_edge (c : Cfg α) (u : Nat) (w : α) (st : St α) (e : Edge α) (h : Counts st) :
    Counts (relaxEdge c u w st e) := by
  rcases relaxEdge_cases c u w st e with ⟨_, hr⟩ | ⟨_, ⟨_, hr⟩ | ⟨_, hr⟩ | ⟨_, hr⟩ | ⟨dec, _, _, hr⟩ |
      ⟨dec, _, _, _, _, hr⟩⟩ <;> rw [hr]
  · exact Counts_same (st := st) rfl rfl rfl rfl rfl rfl h
  · exact Counts_cons (st := st) (Ev.radiusSkip u e.dst _) rfl rfl rfl rfl rfl rfl h
  · exact Counts_cons (st := st) (Ev.layerSkip u e.dst _) rfl rfl rfl rfl rfl rfl h
  · exact Counts_same (st := st) rfl rfl rfl rfl rfl rfl h
  · exact Counts_cons (st := st) (Ev.epsSkip u e.dst _ _) rfl rfl rfl rfl rfl rfl h
  · unfold applyContrib
    apply Counts_capCheck
    apply Counts_pushOrHit
    exact Counts_cons (st := st) (Ev.relax _) rfl rfl rfl rfl rfl rfl h

theorem Counts_final (c : Cfg α) (g : Graph α) (text : List Nat) : Counts (finalSt c g text) := by
  unfold finalSt
  apply loop_inv c g Counts (fun _ _ st => Counts st)
  · intro st it rest h _ _
    exact ⟨fun _ => Counts_pop c st it rest h, fun _ => Counts_pop c st it rest h⟩
  · intro u w st e _ _ _ h
    exact Counts_edge c u w st e h
  · intro _ _ st h; exact h
  · exact (Inert_final_stop_aux c _)
  · exact Counts_seedAll c _

end Clem.T1
