import Clem.Model.Valid
import Clem.Proofs.Sort

/-!
Helper lemmas for C14: soundness/exactness of the syntactic guard checker, coercion ranges,
order lemmas for `lexLe`, permutation invariance of `_suggest_key` over `sorted(allowed)`,
`split("\n")`/`"\n".join` round trip.
-/

namespace Clem.Valid
open Clem.Py

/-! ### guards vs documented ranges -/

theorem entails_sound (co : Co) (g : Gd) (d : Doc) (v : Num)
    (h : entails co g d = true) (hr : co.range v = true) (hg : g.eval v = false) :
    d.holds v = true := by
  unfold entails at h
  split at h
  · rfl
  · simp only [Bool.and_eq_true, beq_iff_eq] at h
    obtain ⟨⟨⟨rfl, rfl⟩, rfl⟩, rfl⟩ := h
    simpa [Gd.eval, Doc.holds] using hg
  · simp only [beq_iff_eq] at h; subst h
    simpa [Gd.eval, Doc.holds] using hg
  · simp only [beq_iff_eq] at h; subst h
    simpa [Gd.eval, Doc.holds] using hg
  · simp only [beq_iff_eq] at h; subst h
    simpa [Gd.eval, Doc.holds] using hg
  · simp only [Bool.and_eq_true, beq_iff_eq] at h
    obtain ⟨rfl, rfl⟩ := h
    cases v <;> simp_all [Co.range, Gd.eval, Doc.holds, Num.ltC, Num.geC]
  · simp only [Bool.and_eq_true, beq_iff_eq] at h
    obtain ⟨rfl, rfl⟩ := h
    cases v <;> simp_all [Co.range, Gd.eval, Doc.holds, Num.leC, Num.gtC]
  · cases h

theorem exact_sound (g : Gd) (d : Doc) (v : Num)
    (h : exact g d = true) (hd : d.isNone = false) (hg : g.eval v = true) :
    d.holds v = false := by
  unfold exact at h
  split at h
  · simp [Doc.isNone] at hd
  · simp only [Bool.and_eq_true, beq_iff_eq] at h
    obtain ⟨⟨⟨rfl, rfl⟩, rfl⟩, rfl⟩ := h
    simp only [Gd.eval, Doc.holds, Bool.not_eq_true'] at hg ⊢; exact hg
  · simp only [beq_iff_eq] at h; subst h
    simp only [Gd.eval, Doc.holds, Bool.not_eq_true'] at hg ⊢; exact hg
  · simp only [beq_iff_eq] at h; subst h
    simp only [Gd.eval, Doc.holds, Bool.not_eq_true'] at hg ⊢; exact hg
  · simp only [beq_iff_eq] at h; subst h
    simp only [Gd.eval, Doc.holds, Bool.not_eq_true'] at hg ⊢; exact hg
  · simp only [beq_iff_eq] at h; subst h
    cases v <;> simp_all [Gd.eval, Doc.holds, Num.ltC, Num.geC]
  · simp only [beq_iff_eq] at h; subst h
    cases v <;> simp_all [Gd.eval, Doc.holds, Num.leC, Num.gtC]
    rcases hg with h | ⟨h1, h2⟩
    · exact ⟨by omega, fun h' => by omega⟩
    · exact ⟨by omega, fun _ => h2⟩
  · cases h

/-! ### coercions land in their range -/

theorem coerceInt_range (v : Option J) (d : Int) : Co.int.range (coerceInt v d) = true := by
  unfold coerceInt; split <;> rfl

theorem toFloat_range (n : Num) : Co.float.range n.toFloat = true := by
  cases n <;> rfl

theorem coerceFloat_range (v : Option J) (d : Int) : Co.float.range (coerceFloat v d) = true := by
  cases v with
  | none => rfl
  | some j =>
    cases j with
    | null => rfl
    | bool b => rfl
    | num n =>
      cases n with
      | int i => simp only [coerceFloat]; split <;> rfl
      | flt fl fr => rfl
      | nan => rfl
      | pinf => rfl
      | ninf => rfl
    | str s l i f =>
      cases f with
      | none => rfl
      | some n => exact toFloat_range n
    | list xs => rfl
    | dict kvs => rfl

theorem coerce_range (c : Co) (v : Option J) (d : Int) : c.range (coerce c v d) = true := by
  cases c
  · exact coerceInt_range _ _
  · exact coerceFloat_range _ _

theorem NE_eval_range (e : Env) (c : Co) (n : NE) (h : n.allCo c = true) : c.range (n.eval e) = true := by
  induction n with
  | co c' v d =>
    simp only [NE.allCo, beq_iff_eq] at h; subst h
    exact coerce_range _ _ _
  | ite cnd a b iha ihb =>
    simp only [NE.allCo, Bool.and_eq_true] at h
    simp only [NE.eval]
    split
    · exact iha h.1
    · exact ihb h.2

/-! ### `lexLe` is a total order on code-point lists -/

theorem lexLe_total (a b : List Nat) : lexLe a b = true ∨ lexLe b a = true := by
  induction a generalizing b with
  | nil => left; rfl
  | cons x xs ih =>
    cases b with
    | nil => right; rfl
    | cons y ys =>
      simp only [lexLe]
      by_cases h1 : x < y
      · simp [h1]
      · by_cases h2 : y < x
        · simp [h2]
        · simp only [h1, h2, if_false]
          exact ih ys

theorem lexLe_antisymm (a b : List Nat) (h1 : lexLe a b = true) (h2 : lexLe b a = true) : a = b := by
  induction a generalizing b with
  | nil => cases b with
    | nil => rfl
    | cons y ys => simp [lexLe] at h2
  | cons x xs ih =>
    cases b with
    | nil => simp [lexLe] at h1
    | cons y ys =>
      simp only [lexLe] at h1 h2
      by_cases hxy : x < y
      · have : ¬ y < x := by omega
        simp [hxy, this] at h2
      · by_cases hyx : y < x
        · simp [hxy, hyx] at h1
        · simp only [hxy, hyx, if_false] at h1 h2
          have : x = y := by omega
          subst this
          rw [ih ys h1 h2]

theorem lexLe_trans (a b c : List Nat) (h1 : lexLe a b = true) (h2 : lexLe b c = true) : lexLe a c = true := by
  induction a generalizing b c with
  | nil => rfl
  | cons x xs ih =>
    cases b with
    | nil => simp [lexLe] at h1
    | cons y ys =>
      cases c with
      | nil => simp [lexLe] at h2
      | cons z zs =>
        simp only [lexLe] at h1 h2 ⊢
        by_cases hxy : x < y
        · by_cases hyz : y < z
          · have : x < z := by omega
            simp [this]
          · by_cases hzy : z < y
            · simp [hyz, hzy] at h2
            · have : x < z := by omega
              simp [this]
        · by_cases hyx : y < x
          · simp [hxy, hyx] at h1
          · simp only [hxy, hyx, if_false] at h1
            have hxy' : x = y := by omega
            subst hxy'
            by_cases hxz : x < z
            · simp [hxz]
            · by_cases hzx : z < x
              · simp [hxz, hzx] at h2
              · simp only [hxz, hzx, if_false] at h2 ⊢
                exact ih ys zs h1 h2

/-- `_suggest_key` over `sorted(allowed)` does not depend on the iteration order of the set. -/
theorem suggestKey_perm (bad : Str) {σ τ : List Str} (h : σ.Perm τ) : suggestKey bad σ = suggestKey bad τ := by
  unfold suggestKey
  rw [isort_perm_invariant lexLe lexLe_total lexLe_trans h (fun a _ b _ => lexLe_antisymm a b)]

theorem contains_perm {σ τ : List Str} (h : σ.Perm τ) (s : Str) : σ.contains s = τ.contains s := by
  rw [Bool.eq_iff_iff]
  simp only [List.contains_iff_mem]
  exact h.mem_iff

/-! ### `"\n".join` / `split("\n")` -/

theorem splitNl_ne_nil (s : Str) : splitNl s ≠ [] := by
  cases s with
  | nil => simp [splitNl]
  | cons c r =>
    simp only [splitNl]
    split
    · simp
    · split <;> simp

theorem joinNl_cons_cons (c : Nat) (h : Str) (t : List Str) : joinNl ((c :: h) :: t) = c :: joinNl (h :: t) := by
  cases t <;> simp [joinNl]

theorem joinNl_splitNl (s : Str) : joinNl (splitNl s) = s := by
  induction s with
  | nil => rfl
  | cons c r ih =>
    simp only [splitNl]
    split
    · rename_i hc
      subst hc
      have hne := splitNl_ne_nil r
      cases hs : splitNl r with
      | nil => exact absurd hs hne
      | cons h t =>
        rw [hs] at ih
        simp only [joinNl, List.nil_append]
        rw [ih]
    · split
      · rename_i hs; exact absurd hs (splitNl_ne_nil r)
      · rename_i h t hs
        rw [hs] at ih
        rw [joinNl_cons_cons, ih]

/-! ### inputs whose keys are all strings -/

theorem strKeysKV_lookup {kvs : List (K × J)} (h : strKeysKV kvs = true) {k : K} {v : J}
    (hl : lookupK k kvs = some v) : v.strKeys = true := by
  induction kvs with
  | nil => simp [lookupK] at hl
  | cons kv r ih =>
    simp only [strKeysKV, Bool.and_eq_true] at h
    simp only [lookupK] at hl
    split at hl
    · cases hl; exact h.1.2
    · exact ih h.2 hl

theorem strKeysKV_ensureDict {v : J} (h : v.strKeys = true) : strKeysKV (ensureDict v) = true := by
  cases v <;> simp_all [ensureDict, J.strKeys, strKeysKV]

theorem strKeysKV_walk {kvs : List (K × J)} (h : strKeysKV kvs = true) (p : List Str) :
    strKeysKV (walk kvs p) = true := by
  induction p generalizing kvs with
  | nil => exact h
  | cons s r ih =>
    simp only [walk]
    split
    · rename_i v hv
      exact ih (strKeysKV_ensureDict (strKeysKV_lookup h hv))
    · rfl

theorem strKeysKV_no_other {kvs : List (K × J)} (h : strKeysKV kvs = true) :
    kvs.any (fun kv => match kv.1 with
      | .other _ => true
      | .str _ => false) = false := by
  induction kvs with
  | nil => rfl
  | cons kv r ih =>
    simp only [strKeysKV, Bool.and_eq_true] at h
    simp only [List.any_cons, Bool.or_eq_false_iff]
    refine ⟨?_, ih h.2⟩
    cases hk : kv.1 with
    | str s => rfl
    | other o => rw [hk] at h; simp [K.isStr] at h

theorem strKeysKV_setK {kvs : List (K × J)} (h : strKeysKV kvs = true) {k : K} {v : J}
    (hk : k.isStr = true) (hv : v.strKeys = true) : strKeysKV (setK k v kvs) = true := by
  induction kvs with
  | nil => simp [setK, strKeysKV, hk, hv]
  | cons kv r ih =>
    simp only [strKeysKV, Bool.and_eq_true] at h
    simp only [setK]
    split
    · simp [strKeysKV, hk, hv, h.2]
    · simp [strKeysKV, h.1.1, h.1.2, ih h.2]

theorem strKeysKV_append {a b : List (K × J)} (ha : strKeysKV a = true) (hb : strKeysKV b = true) :
    strKeysKV (a ++ b) = true := by
  induction a with
  | nil => exact hb
  | cons kv r ih =>
    simp only [strKeysKV, Bool.and_eq_true] at ha
    simp [strKeysKV, ha.1.1, ha.1.2, ih ha.2]

theorem strKeysKV_cfgIn {cfg : J} (h : cfg.strKeys = true) (ver : Str) : strKeysKV (cfgIn cfg ver) = true := by
  have h0 := strKeysKV_ensureDict h
  unfold cfgIn
  simp only
  split
  · exact strKeysKV_setK h0 rfl rfl
  · exact strKeysKV_append h0 (by simp [strKeysKV, K.isStr, J.strKeys])
  · exact h0

theorem mem_unkRules {u : UnkRule} {rs : List Rule} (h : Rule.unk u ∈ rs) : u ∈ unkRules rs := by
  induction rs with
  | nil => cases h
  | cons r t ih =>
    cases r with
    | unk u' =>
      simp only [unkRules, List.mem_cons]
      rcases List.mem_cons.mp h with h | h
      · left; cases h; rfl
      · right; exact ih h
    | num n =>
      simp only [unkRules]
      rcases List.mem_cons.mp h with h | h
      · cases h
      · exact ih h
    | enum n =>
      simp only [unkRules]
      rcases List.mem_cons.mp h with h | h
      · cases h
      · exact ih h


end Clem.Valid
