/-
Helper lemmas for the sanitiser model (`Clem/Model/Sanitize.lean`): the validator's stages never produce the
`raised` outcome, and what an accepted outcome of each stage implies.
-/
import Clem.Model.Sanitize

namespace Clem.Sanitize
open Clem.Gen.T3Consts
open Clem.T3 (Str strip)

theorem hasKey_lookup (k : Str) : ∀ kvs : List (Str × J), hasKey k kvs = true → ∃ v, kvs.lookup k = some v
  | [], h => by simp [hasKey] at h
  | (k', v) :: t, h => by
    by_cases hk : k = k'
    · subst hk; exact ⟨v, by simp [List.lookup]⟩
    · have hk' : (k == k') = false := by simpa using hk
      have ht : hasKey k t = true := by
        simp only [hasKey, List.any_cons, Bool.or_eq_true] at h
        rcases h with h | h
        · simp at h; exact absurd h.symm hk
        · exact h
      obtain ⟨w, hw⟩ := hasKey_lookup k t ht
      exact ⟨w, by simp [List.lookup, hk', hw]⟩

theorem checkReflection_ne_raised (items : List J) (r : Str) (refl : Option J) :
    checkReflection items r refl ≠ .raised := by
  unfold checkReflection
  split
  · simp
  · split <;> simp

theorem checkRationale_ne_raised (items : List J) (refl : Option J) (rat : J) :
    checkRationale items refl rat ≠ .raised := by
  unfold checkRationale
  split
  · split
    · simp
    · exact checkReflection_ne_raised _ _ _
  · simp

theorem checkPlan_ne_raised (rat : J) (refl : Option J) (plan : J) : checkPlan rat refl plan ≠ .raised := by
  unfold checkPlan
  split
  · split
    · simp
    · split
      · simp
      · exact checkRationale_ne_raised _ _ _
  · simp

theorem required_present {kvs : List (Str × J)}
    (h : requiredKeys.find? (fun k => !hasKey k kvs) = none) :
    hasKey kPlan kvs = true ∧ hasKey kRationale kvs = true := by
  have hk : requiredKeys = [kPlan, kRationale] := by decide
  rw [hk] at h
  simp only [List.find?_cons] at h
  cases h1 : hasKey kPlan kvs <;> cases h2 : hasKey kRationale kvs <;> simp [h1, h2] at h ⊢

theorem validate_ne_raised (j : J) : validate j ≠ .raised := by
  cases j with
  | obj kvs =>
    simp only [validate, validateObj]
    split
    · simp
    · rename_i hreq
      split
      · simp
      · obtain ⟨h1, h2⟩ := required_present hreq
        obtain ⟨p, hp⟩ := hasKey_lookup _ _ h1
        obtain ⟨q, hq⟩ := hasKey_lookup _ _ h2
        rw [hp, hq]
        exact checkPlan_ne_raised _ _ _
  | _ => simp [validate]

theorem itemBad_false {x : J} (h : itemBad x = false) :
    ∃ s, x = .str s ∧ 0 < (strip s).length ∧ s.length ≤ PLAN_ITEM_MAX_LEN := by
  cases x with
  | str s =>
    refine ⟨s, rfl, ?_⟩
    simp only [itemBad, Bool.or_eq_false_iff, beq_eq_false_iff_ne, decide_eq_false_iff_not] at h
    omega
  | _ => simp [itemBad] at h

/-- what the statement calls "within the documented limits", as a proposition about the parsed value -/
def WithinLimits (j : J) (a : Accepted) : Prop :=
  ∃ kvs items r, j = .obj kvs ∧ (∀ kv ∈ kvs, kv.1 ∈ allowedKeys) ∧
    kvs.lookup kPlan = some (.arr items) ∧ items.length ≤ PLAN_MAX_ITEMS ∧
    (∀ x ∈ items, ∃ s, x = .str s ∧ 0 < (strip s).length ∧ s.length ≤ PLAN_ITEM_MAX_LEN) ∧
    kvs.lookup kRationale = some (.str r) ∧ 0 < r.length ∧ r.length ≤ RATIONALE_MAX_LEN ∧
    (kvs.lookup kReflection = none ∧ a.reflection = false ∨
      ∃ v, kvs.lookup kReflection = some v ∧ coerceBool v = some a.reflection) ∧
    a.plan = items.map strOf ∧ a.rationale = r

theorem checkReflection_ok {items : List J} {r : Str} {refl : Option J} {a : Accepted}
    (h : checkReflection items r refl = .ok a) :
    (refl = none ∧ a.reflection = false ∨ ∃ v, refl = some v ∧ coerceBool v = some a.reflection) ∧
    a.plan = items.map strOf ∧ a.rationale = r := by
  unfold checkReflection at h
  split at h
  · injection h with h; subst h; exact ⟨Or.inl ⟨rfl, rfl⟩, rfl, rfl⟩
  · rename_i v
    split at h
    · rename_i bv hb
      injection h with h; subst h
      exact ⟨Or.inr ⟨v, rfl, hb⟩, rfl, rfl⟩
    · cases h

theorem checkRationale_ok {items : List J} {refl : Option J} {rat : J} {a : Accepted}
    (h : checkRationale items refl rat = .ok a) :
    ∃ r, rat = .str r ∧ 0 < r.length ∧ r.length ≤ RATIONALE_MAX_LEN ∧ checkReflection items r refl = .ok a := by
  unfold checkRationale at h
  split at h
  · rename_i r
    split at h
    · cases h
    · rename_i hc
      simp only [Bool.or_eq_true, beq_iff_eq, decide_eq_true_eq, not_or] at hc
      exact ⟨r, rfl, by omega, by omega, h⟩
  · cases h

theorem checkPlan_ok {rat : J} {refl : Option J} {plan : J} {a : Accepted}
    (h : checkPlan rat refl plan = .ok a) :
    ∃ items, plan = .arr items ∧ items.length ≤ PLAN_MAX_ITEMS ∧ items.any itemBad = false ∧
      checkRationale items refl rat = .ok a := by
  unfold checkPlan at h
  split at h
  · rename_i items
    split at h
    · cases h
    · rename_i hlen
      split at h
      · cases h
      · rename_i hbad
        exact ⟨items, rfl, by omega, by simpa using hbad, h⟩
  · cases h

theorem lookup_hasKey (k : Str) : ∀ (kvs : List (Str × J)) (v : J), kvs.lookup k = some v → hasKey k kvs = true
  | [], _, h => by simp [List.lookup] at h
  | (k', w) :: t, v, h => by
    by_cases hk : k = k'
    · subst hk; simp [hasKey]
    · have hk' : (k == k') = false := by simpa using hk
      simp only [List.lookup, hk'] at h
      have := lookup_hasKey k t v h
      simp only [hasKey, List.any_cons, Bool.or_eq_true] at this ⊢
      exact Or.inr this

theorem itemWithin_not_bad {x : J} (h : itemWithin x = true) : itemBad x = false := by
  cases x with
  | str s =>
    simp only [itemWithin, Bool.and_eq_true, decide_eq_true_eq] at h
    simp only [itemBad, Bool.or_eq_false_iff, beq_eq_false_iff_ne, decide_eq_false_iff_not]
    have : s.length ≠ 0 := by
      intro h0
      have : s = [] := List.eq_nil_of_length_eq_zero h0
      subst this
      simp [strip, Clem.T3.rstrip, Clem.T3.lstrip] at h
    omega
  | _ => simp [itemWithin] at h

end Clem.Sanitize

namespace Clem.Sanitize
open Clem.T3 (Str strip lstrip rstrip isSpace)

theorem strip_length_le (s : Str) : (strip s).length ≤ s.length := by
  unfold strip rstrip lstrip
  have h1 := (List.dropWhile_sublist isSpace (l := s)).length_le
  have h2 := (List.dropWhile_sublist isSpace (l := (s.dropWhile isSpace).reverse)).length_le
  simp only [List.length_reverse] at h2 ⊢
  omega

/-- the fence-stripped candidate is never longer than the raw text -/
theorem stripFences_length_le (t : Str) : (stripFences t).1.length ≤ t.length := by
  have hs := strip_length_le t
  unfold stripFences
  simp only
  split
  · split
    · exact hs
    · rename_i i _
      simp only
      split
      · exact hs
      · have := strip_length_le (((strip t).take ((strip t).length - 3)).drop (i + 1))
        simp only [List.length_drop, List.length_take] at this
        omega
  · exact hs

end Clem.Sanitize
