import Clem.Proofs.T1
import Mathlib.Data.List.Infix

/-! Output (`deltasOf`) and seeding (`matchKeywords`, `collectLabels`) of the T1 model. -/

namespace Clem.T1
open Num

variable {α : Type} [Num α]
set_option linter.unusedSectionVars false
set_option linter.unusedSimpArgs false

/-! ## output -/

theorem sorted_keys_lt (acc : List (Nat × α)) (hnd : (acc.map (·.1)).Nodup) :
    (Clem.Py.isort idLe acc).Pairwise (fun a b => a.1 < b.1) := by
  have hs : (Clem.Py.isort idLe acc).Pairwise (fun a b => idLe a b = true) :=
    Clem.Py.isort_pairwise idLe
      (fun a b => by simp only [idLe, decide_eq_true_eq]; exact Nat.le_total a.1 b.1)
      (fun a b c h1 h2 => by simp only [idLe, decide_eq_true_eq] at *; exact Nat.le_trans h1 h2) acc
  have hnd' : ((Clem.Py.isort idLe acc).map (·.1)).Nodup :=
    ((Clem.Py.isort_perm idLe acc).map _).nodup_iff.mpr hnd
  have hne : (Clem.Py.isort idLe acc).Pairwise (fun a b => a.1 ≠ b.1) := by
    have := hnd'
    unfold List.Nodup at this
    exact List.pairwise_map.mp this
  refine (hs.and hne).imp ?_
  intro a b h
  obtain ⟨h1, h2⟩ := h
  simp only [idLe, decide_eq_true_eq] at h1
  omega

theorem deltasOf_pairwise (c : Cfg α) (acc : List (Nat × α)) (hnd : (acc.map (·.1)).Nodup) :
    (deltasOf c acc).Pairwise (· < ·) := by
  unfold deltasOf
  rw [List.pairwise_map]
  exact (sorted_keys_lt acc hnd).filter _

theorem mem_deltasOf (c : Cfg α) (acc : List (Nat × α)) (id : Nat) :
    id ∈ deltasOf c acc ↔ ∃ x, (id, x) ∈ acc ∧ lt (abs x) c.eps = false := by
  unfold deltasOf
  simp only [List.mem_map, List.mem_filter, Clem.Py.mem_isort, Bool.not_eq_true', Prod.exists]
  constructor
  · rintro ⟨a, b, ⟨hm, hl⟩, rfl⟩
    exact ⟨b, hm, hl⟩
  · rintro ⟨x, hm, hl⟩
    exact ⟨id, x, ⟨hm, hl⟩, rfl⟩

theorem strictAsc_of_pairwise : ∀ (l : List Nat), l.Pairwise (· < ·) → strictAsc l = true
  | [], _ => rfl
  | [_], _ => rfl
  | a :: b :: r, h => by
    rw [List.pairwise_cons] at h
    simp only [strictAsc, Bool.and_eq_true, decide_eq_true_eq]
    exact ⟨h.1 b (by simp), strictAsc_of_pairwise (b :: r) h.2⟩

theorem pairwise_of_strictAsc : ∀ (l : List Nat), strictAsc l = true → l.Pairwise (· < ·)
  | [], _ => List.Pairwise.nil
  | [_], _ => by simp
  | a :: b :: r, h => by
    simp only [strictAsc, Bool.and_eq_true, decide_eq_true_eq] at h
    have ih := pairwise_of_strictAsc (b :: r) h.2
    rw [List.pairwise_cons]
    refine ⟨?_, ih⟩
    intro x hx
    rw [List.pairwise_cons] at ih
    rcases List.mem_cons.mp hx with hx | hx
    · subst hx; exact h.1
    · exact Nat.lt_trans h.1 (ih.1 x hx)

theorem outputOk_deltasOf (c : Cfg α) (acc : List (Nat × α)) (hnd : (acc.map (·.1)).Nodup) :
    outputOk c acc (deltasOf c acc) = true := by
  unfold outputOk
  simp only [Bool.and_eq_true]
  refine ⟨⟨strictAsc_of_pairwise _ (deltasOf_pairwise c acc hnd), ?_⟩, ?_⟩
  · rw [List.all_eq_true]
    intro id hid
    obtain ⟨x, hm, hl⟩ := (mem_deltasOf c acc id).mp hid
    rw [List.any_eq_true]
    exact ⟨(id, x), hm, by simp [hl]⟩
  · rw [List.all_eq_true]
    intro kv hkv
    cases hl : lt (abs kv.2) c.eps with
    | true => simp
    | false =>
      simp only [Bool.false_or, List.contains_iff_mem]
      exact (mem_deltasOf c acc kv.1).mpr ⟨kv.2, hkv, hl⟩

/-! ## seeding -/

theorem isPrefixB_iff : ∀ (p t : List Nat), isPrefixB p t = true ↔ p <+: t
  | [], t => by simp [isPrefixB]
  | _ :: _, [] => by simp [isPrefixB]
  | a :: as, b :: bs => by
    simp only [isPrefixB, Bool.and_eq_true, beq_iff_eq, List.cons_prefix_cons]
    rw [isPrefixB_iff as bs]

theorem isInfixB_iff (p : List Nat) : ∀ (t : List Nat), isInfixB p t = true ↔ p <:+: t
  | [] => by
    simp only [isInfixB, isPrefixB_iff]
    simp
  | b :: bs => by
    simp only [isInfixB, Bool.or_eq_true, isPrefixB_iff, isInfixB_iff p bs]
    rw [List.infix_cons_iff]

theorem kwMatch_iff (text kw : List Nat) :
    kwMatch text kw = true ↔ kw ≠ [] ∧ lower kw <:+: lower text := by
  unfold kwMatch
  simp only [Bool.and_eq_true, Bool.not_eq_true', isInfixB_iff]
  constructor
  · rintro ⟨h1, h2⟩
    exact ⟨by intro h; subst h; simp at h1, h2⟩
  · rintro ⟨h1, h2⟩
    refine ⟨?_, h2⟩
    cases kw with
    | nil => exact absurd rfl h1
    | cons _ _ => rfl

theorem mem_seedInsert (s : List Nat) (n x : Nat) : x ∈ seedInsert s n ↔ x ∈ s ∨ x = n := by
  unfold seedInsert
  split
  · rename_i h
    have : n ∈ s := by simpa using h
    constructor
    · intro hx; exact Or.inl hx
    · rintro (hx | hx)
      · exact hx
      · subst hx; exact this
  · simp

theorem nodup_seedInsert (s : List Nat) (n : Nat) (h : s.Nodup) : (seedInsert s n).Nodup := by
  unfold seedInsert
  split
  · exact h
  · rename_i hn
    have hn' : n ∉ s := by simpa using hn
    rw [List.nodup_append]
    refine ⟨h, by simp, ?_⟩
    intro a ha b hb
    simp at hb; subst hb
    intro hab; subst hab; exact hn' ha

theorem mem_foldl_seeds (text : List Nat) (l : List (Nat × List Nat)) (s : List Nat) (x : Nat) :
    x ∈ l.foldl (fun s p => if kwMatch text p.2 then seedInsert s p.1 else s) s ↔
      x ∈ s ∨ ∃ kw, (x, kw) ∈ l ∧ kwMatch text kw = true := by
  induction l generalizing s with
  | nil => simp
  | cons p l ih =>
    simp only [List.foldl_cons]
    rw [ih]
    obtain ⟨n, kw⟩ := p
    by_cases hm : kwMatch text kw = true
    · simp only [hm, if_true, mem_seedInsert]
      constructor
      · rintro ((h | h) | ⟨kw', h1, h2⟩)
        · exact Or.inl h
        · subst h; exact Or.inr ⟨kw, by simp, hm⟩
        · exact Or.inr ⟨kw', by simp [h1], h2⟩
      · rintro (h | ⟨kw', h1, h2⟩)
        · exact Or.inl (Or.inl h)
        · simp only [List.mem_cons, Prod.mk.injEq] at h1
          rcases h1 with ⟨h3, _⟩ | h1
          · exact Or.inl (Or.inr h3)
          · exact Or.inr ⟨kw', h1, h2⟩
    · simp only [hm, Bool.false_eq_true, if_false]
      constructor
      · rintro (h | ⟨kw', h1, h2⟩)
        · exact Or.inl h
        · exact Or.inr ⟨kw', by simp [h1], h2⟩
      · rintro (h | ⟨kw', h1, h2⟩)
        · exact Or.inl h
        · simp only [List.mem_cons, Prod.mk.injEq] at h1
          rcases h1 with ⟨_, h4⟩ | h1
          · subst h4; exact absurd h2 hm
          · exact Or.inr ⟨kw', h1, h2⟩

theorem nodup_foldl_seeds (text : List Nat) (l : List (Nat × List Nat)) (s : List Nat)
    (h : s.Nodup) :
    (l.foldl (fun s p => if kwMatch text p.2 then seedInsert s p.1 else s) s).Nodup := by
  induction l generalizing s with
  | nil => simpa using h
  | cons p l ih =>
    simp only [List.foldl_cons]
    apply ih
    split
    · exact nodup_seedInsert _ _ h
    · exact h

theorem mem_matchKeywords (text : List Nat) (labels : List (Nat × List Nat)) (x : Nat) :
    x ∈ matchKeywords text labels ↔ ∃ kw, (x, kw) ∈ labels ∧ kwMatch text kw = true := by
  unfold matchKeywords
  rw [mem_foldl_seeds]
  simp [Clem.Py.mem_isort]

theorem nodup_matchKeywords (text : List Nat) (labels : List (Nat × List Nat)) :
    (matchKeywords text labels).Nodup := by
  unfold matchKeywords
  exact nodup_foldl_seeds _ _ _ List.nodup_nil

theorem mem_collectLabels (g : Graph α) (nid : Nat) (kw : List Nat) :
    (nid, kw) ∈ collectLabels g ↔
      ∃ n ∈ g.nodes, n.id = nid ∧ kw ≠ [] ∧ (kw = n.label ∨ kw ∈ n.tags) := by
  unfold collectLabels nodeLabels
  simp only [List.mem_flatMap, List.mem_append, List.mem_map, List.mem_filter]
  constructor
  · rintro ⟨n, hn, h | ⟨t, ⟨ht, hne⟩, heq⟩⟩
    · split at h
      · simp at h
      · rename_i hl
        simp only [List.mem_singleton, Prod.mk.injEq] at h
        obtain ⟨h1, h2⟩ := h
        refine ⟨n, hn, h1.symm, ?_, Or.inl h2⟩
        subst h2; intro he; rw [he] at hl; simp at hl
    · simp only [Prod.mk.injEq] at heq
      obtain ⟨h1, h2⟩ := heq
      subst h2
      refine ⟨n, hn, h1, ?_, Or.inr ht⟩
      intro he; subst he; simp at hne
  · rintro ⟨n, hn, hid, hne, h | h⟩
    · refine ⟨n, hn, Or.inl ?_⟩
      have : n.label.isEmpty = false := by
        cases hl : n.label with
        | nil => rw [hl] at h; exact absurd h hne
        | cons _ _ => rfl
      simp [this, hid, h]
    · refine ⟨n, hn, Or.inr ⟨kw, ⟨h, ?_⟩, by simp [hid]⟩⟩
      cases kw with
      | nil => exact absurd rfl hne
      | cons _ _ => rfl

end Clem.T1
