import Clem.Model.CacheKeys
import Clem.Proofs.KeySuff
import Clem.Proofs.TtlLru

/-! Helper lemmas for C05: the TTL LRU (with its clock) and the switched-off cache are cache
semantics; `runOps` is `runCached`; string lemmas for `q_text`. -/
namespace Clem.CacheKeys
open Clem.KeySuff Clem.TtlLru

/-! ### `runOps` (driver) = `runCached` (theorems) -/

theorem stepOps_eq {σ K V X : Type} (C : CacheSem σ K V) (key : X → K) (f : X → V) (s : σ) (e : Ev X) :
    stepOps (CacheOps.ofSem C) key f s e = stepCached C key f s e := by
  cases e <;> rfl

theorem runOps_eq {σ K V X : Type} (C : CacheSem σ K V) (key : X → K) (f : X → V) (es : List (Ev X)) (s : σ) :
    runOps (CacheOps.ofSem C) key f s es = runCached C key f s es := by
  induction es generalizing s with
  | nil => rfl
  | cons e es ih => simp only [runOps, runCached, stepOps_eq, ih]

/-! ### TTL LRU -/

def TtlHolds (s : TtlState) (k v : Nat) : Prop := ∃ e ∈ s.ns.items, e.key = k ∧ e.val = v

theorem mem_without' {k : Nat} {l : List Entry} {e : Entry} (h : e ∈ without k l) : e ∈ l :=
  (List.mem_filter.mp h).1

theorem ttl_get_hit (s : TtlState) (k v : Nat) (h : (ttlGet s k).2 = some v) : TtlHolds s k v := by
  simp only [ttlGet, Ns.get] at h
  split at h
  · simp at h
  · rename_i e he
    obtain ⟨hm, hk⟩ := lookup_some he
    split at h
    · simp at h
    · simp only [Option.some.injEq] at h
      exact ⟨e, hm, hk, h⟩

theorem ttl_get_mono (s : TtlState) (k k' v' : Nat) (h : TtlHolds (ttlGet s k).1 k' v') : TtlHolds s k' v' := by
  obtain ⟨e', hm, hk, hv⟩ := h
  simp only [ttlGet, Ns.get] at hm
  split at hm
  · exact ⟨e', hm, hk, hv⟩
  · rename_i e he
    split at hm
    · exact ⟨e', mem_without' hm, hk, hv⟩
    · simp only [List.mem_append, List.mem_singleton] at hm
      rcases hm with hm | rfl
      · exact ⟨e', mem_without' hm, hk, hv⟩
      · exact ⟨e', (lookup_some he).1, hk, hv⟩

theorem ttl_put_mono (s : TtlState) (k v k' v' : Nat) (h : TtlHolds (ttlPut s k v) k' v') :
    TtlHolds s k' v' ∨ (k' = k ∧ v' = v) := by
  obtain ⟨e', hm, hk, hv⟩ := h
  simp only [ttlPut, Ns.set] at hm
  have hspec := (evictOver_spec s.ns.max (without k s.ns.items ++ [⟨k, s.now, v⟩])).1
  rw [hspec] at hm
  have hm' := List.mem_of_mem_drop hm
  simp only [List.mem_append, List.mem_singleton] at hm'
  rcases hm' with hm' | rfl
  · exact Or.inl ⟨e', mem_without' hm', hk, hv⟩
  · exact Or.inr ⟨hk.symm, hv.symm⟩

theorem ttl_other_mono (s : TtlState) (t k' v' : Nat) (h : TtlHolds (ttlOther s t) k' v') : TtlHolds s k' v' := by
  unfold ttlOther at h
  split at h
  · obtain ⟨e, hm, _⟩ := h
    simp [Ns.invalidate] at hm
  · split at h <;> exact h

/-- `_NamespaceCache` / `LRUCache` / a `CacheManager` namespace (any cap, any TTL, any clock behaviour,
invalidation at any time) is a cache semantics. -/
def ttlSem : CacheSem TtlState Nat Nat where
  get := ttlGet
  put := ttlPut
  other := ttlOther
  holds := TtlHolds
  get_hit := ttl_get_hit
  get_mono := ttl_get_mono
  put_mono := ttl_put_mono
  other_mono := ttl_other_mono

theorem ttlOps_eq : ttlOps = CacheOps.ofSem ttlSem := rfl

theorem bytesOps_eq (cost : Nat → Nat → Int) : bytesOps cost = CacheOps.ofSem (Clem.LruBytes.cacheSem cost) := rfl

/-- A cache that is switched off. -/
def offSem : CacheSem Unit Nat Nat where
  get := fun s _ => (s, none)
  put := fun s _ _ => s
  other := fun s _ => s
  holds := fun _ _ _ => False
  get_hit := by intro s k v h; simp at h
  get_mono := by intro s k k' v' h; exact h
  put_mono := by intro s k v k' v' h; exact Or.inl h
  other_mono := by intro s t k' v' h; exact h

theorem offOps_eq : offOps = CacheOps.ofSem offSem := rfl

/-! ### a cache that hands out detached copies is a cache semantics even when callers edit their results -/

def AHolds (s : AState) (k : Nat) (v : List Nat) : Prop := (k, v) ∈ s.store

theorem aFind_some {s : AState} {k : Nat} {p : Nat × List Nat} (h : aFind s k = some p) : p ∈ s.store ∧ p.1 = k := by
  unfold aFind at h
  exact ⟨List.mem_of_find?_eq_some h, by simpa using List.find?_some h⟩

def copySem : CacheSem AState Nat (List Nat) where
  get := aGet
  put := aPut
  other := aEditCopy
  holds := AHolds
  get_hit := by
    intro s k v h
    unfold aGet at h
    split at h
    · rename_i p hp
      obtain ⟨hm, hk⟩ := aFind_some hp
      simp only [Option.some.injEq] at h
      show (k, v) ∈ s.store
      rw [← hk, ← h]; exact hm
    · simp at h
  get_mono := by
    intro s k k' v' h
    unfold aGet at h
    split at h <;> exact h
  put_mono := by
    intro s k v k' v' h
    simp only [AHolds, aPut, List.mem_cons, List.mem_filter] at h
    rcases h with h | h
    · exact Or.inr (by simpa using h)
    · exact Or.inl h.1
  other_mono := by intro s t k' v' h; exact h

theorem copyOps_eq : copyOps = CacheOps.ofSem copySem := rfl

/-! ### hits come from an input with the same key -/

/-- In a `Good` state a hit for `key x` was computed by `f` from some `x'` with the same key. -/
theorem hit_has_witness {σ K V X : Type} (C : CacheSem σ K V) (key : X → K) (f : X → V) (s : σ)
    (hg : Good C key f s) (x : X) (v : V) (h : (C.get s (key x)).2 = some v) :
    ∃ x', key x' = key x ∧ f x' = v :=
  hg _ _ (C.get_hit s (key x) v h)

/-- `Good` is preserved along a whole run. -/
theorem good_run {σ K V X : Type} (C : CacheSem σ K V) (key : X → K) (f : X → V) :
    ∀ (es : List (Ev X)) (s : σ), Good C key f s →
      Good C key f (es.foldl (fun st e => (stepCached C key f st e).1) s) := by
  intro es
  induction es with
  | nil => intro s h; exact h
  | cons e es ih => intro s h; exact ih _ (good_step C key f s e h)

end Clem.CacheKeys
