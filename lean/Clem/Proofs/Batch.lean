import Clem.Model.Batch
import Clem.Proofs.Sort
import Clem.Proofs.LogStager
import Clem.Proofs.LogJson

/-! Helper lemmas for C10 (batch driver): selection invariants, the staging loop (a step raises
iff the record alone exceeds the limit; append), commit loop = pure commit, sequential loop =
pure commit under the dry-run contract, per-file contents. -/

namespace Clem.Batch
open Clem.LogStager Clem.LogJson Clem.Py

/-! ### C16 facts restated (same proofs as `C16_normalize_idempotent`, `C16_stager_perfile_order`,
`C16_batch_arrivals_monotone`; restated here so that this package depends on the C16 model and
helper lemmas only, not on C16's table theorems about parts of the source C10 does not model) -/

theorem normalize_true' (name : Str) (r : Rec) :
    normalize true name r =
      if name = nReflection then setIf kMs .flt0 r
      else if Gen.Logs.identityLogsIo.contains name then
        (if name = nTurn then normTurn (normBase r) else normBase r)
      else r := by
  simp [normalize]

theorem normalize_idempotent (ci : Bool) (name : Str) (r : Rec) :
    normalize ci name (normalize ci name r) = normalize ci name r := by
  cases ci with
  | false => rfl
  | true =>
    simp only [normalize_true']
    by_cases h1 : name = nReflection
    · simp only [h1, if_true]; exact setIf_setIf_same kMs _ _ r
    · simp only [h1, if_false]
      by_cases h2 : Gen.Logs.identityLogsIo.contains name = true
      · simp only [h2, if_true]
        by_cases h3 : name = nTurn
        · simp only [h3, if_true]
          rw [normTurn_normBase (normTurn (normBase r)), normTurn_idem,
            ← normTurn_normBase, normBase_idem]
        · simp only [h3, if_false]; exact normBase_idem r
      · simp only [h2]; rfl

theorem stager_perfile_order (ci : Bool) (limit : Int) (as : List Arrival) (w : List SRec)
    (h : runBatch ci limit as = (w, true)) (hm : monoPerFileB as = true) (p : Str) :
    fileSeq p w = fileSeq p (mkRecs ci 0 as) := by
  unfold runBatch at h
  by_cases hr : (loopRun ci ⟨Stager.new limit, []⟩ as).2 = true
  · simp only [hr, if_true] at h
    have hw := (Prod.mk.inj h).1
    have hp : (fileSeq p ((Stager.new limit).buf ++ mkRecs ci (Stager.new limit).seq as)).Pairwise keyLt := by
      simpa [Stager.new] using fileSeq_pairwise_of_mono ci p as 0 hm
    have inv := loopRun_file ci p as ⟨Stager.new limit, []⟩ hr hp
    rw [← hw, fileSeq_append]
    have e : fileSeq p (drain (loopRun ci ⟨Stager.new limit, []⟩ as).1.st).2
        = fileSeq p (loopRun ci ⟨Stager.new limit, []⟩ as).1.st.buf :=
      filter_isort_of_strict _ _ inv.2
    rw [e, inv.1]
    simp [Stager.new, fileSeq]
  · simp only [hr] at h
    simp at h

theorem arrivals_monotone (t sl : Int) (as : List Arrival)
    (h : ∀ a ∈ as, a.turn = t ∧ a.slice = sl) : monoPerFileB as = true := by
  induction as with
  | nil => rfl
  | cons a as ih =>
    simp only [monoPerFileB, Bool.and_eq_true, List.all_eq_true]
    refine ⟨fun b hb => ?_, ih (fun x hx => h x (List.mem_cons_of_mem _ hx))⟩
    have ha := h a List.mem_cons_self
    have hb' := h b (List.mem_cons_of_mem _ hb)
    simp [tsLe, ha.1, ha.2, hb'.1, hb'.2]

/-! ### selection -/

/-- graph sets of `a` and `b` are disjoint. -/
def Disj (gs : Str → List Str) (a b : Str) : Prop := ∀ g ∈ gs a, g ∉ gs b

theorem disjointB_iff (used g : List Str) : disjointB used g = true ↔ ∀ x ∈ g, x ∉ used := by
  simp [disjointB]

theorem disjointB_false (used g : List Str) (h : disjointB used g = false) : ∃ x ∈ g, x ∈ used := by
  by_contra hc
  have : disjointB used g = true := (disjointB_iff used g).mpr (fun x hx hu => hc ⟨x, hx, hu⟩)
  rw [h] at this; cases this

/-- `used` is exactly the union of the picked agents' graph sets. -/
def UsedOf (gs : Str → List Str) (picked used : List Str) : Prop :=
  ∀ g, g ∈ used ↔ ∃ b ∈ picked, g ∈ gs b

theorem usedOf_snoc {gs : Str → List Str} {picked used : List Str} (a : Str)
    (h : UsedOf gs picked used) : UsedOf gs (picked ++ [a]) (used ++ gs a) := by
  intro g
  simp only [List.mem_append, List.mem_singleton, h g]
  constructor
  · rintro (⟨b, hb, hg⟩ | hg)
    · exact ⟨b, Or.inl hb, hg⟩
    · exact ⟨a, Or.inr rfl, hg⟩
  · rintro ⟨b, hb | hb, hg⟩
    · exact Or.inl ⟨b, hb, hg⟩
    · subst hb; exact Or.inr hg

/-- the result extends `picked` by a subsequence of the remaining ids. -/
theorem selectGo_prefix (gs : Str → List Str) (limit : Nat) : ∀ (as picked used : List Str),
    ∃ rest, selectGo gs limit as picked used = picked ++ rest ∧ rest.Sublist as
  | [], picked, used => ⟨[], by simp [selectGo], List.Sublist.refl _⟩
  | a :: as, picked, used => by
    unfold selectGo
    by_cases h1 : picked.length ≥ limit
    · rw [if_pos h1]; exact ⟨[], by simp, List.nil_sublist _⟩
    · rw [if_neg h1]
      by_cases h2 : disjointB used (gs a) = true
      · rw [if_pos h2]
        obtain ⟨rest, e, s⟩ := selectGo_prefix gs limit as (picked ++ [a]) (used ++ gs a)
        exact ⟨a :: rest, by rw [e]; simp, s.cons_cons a⟩
      · rw [if_neg h2]
        obtain ⟨rest, e, s⟩ := selectGo_prefix gs limit as picked used
        exact ⟨rest, e, s.cons a⟩

theorem selectGo_length (gs : Str → List Str) (limit : Nat) : ∀ (as picked used : List Str),
    picked.length ≤ limit → (selectGo gs limit as picked used).length ≤ limit
  | [], picked, used, h => by simpa [selectGo] using h
  | a :: as, picked, used, h => by
    unfold selectGo
    by_cases h1 : picked.length ≥ limit
    · rw [if_pos h1]; exact h
    · rw [if_neg h1]
      by_cases h2 : disjointB used (gs a) = true
      · rw [if_pos h2]
        exact selectGo_length gs limit as _ _ (by simp; omega)
      · rw [if_neg h2]
        exact selectGo_length gs limit as _ _ h

theorem selectGo_disjoint (gs : Str → List Str) (limit : Nat) : ∀ (as picked used : List Str),
    UsedOf gs picked used → picked.Pairwise (Disj gs) →
    (selectGo gs limit as picked used).Pairwise (Disj gs)
  | [], picked, used, _, hp => by simpa [selectGo] using hp
  | a :: as, picked, used, hu, hp => by
    unfold selectGo
    by_cases h1 : picked.length ≥ limit
    · rw [if_pos h1]; exact hp
    · rw [if_neg h1]
      by_cases h2 : disjointB used (gs a) = true
      · rw [if_pos h2]
        refine selectGo_disjoint gs limit as _ _ (usedOf_snoc a hu) ?_
        rw [List.pairwise_append]
        refine ⟨hp, List.pairwise_singleton _ _, ?_⟩
        intro b hb c hc
        rw [List.mem_singleton] at hc
        subst hc
        intro g hg hga
        exact (disjointB_iff used (gs c)).mp h2 g hga ((hu g).mpr ⟨b, hb, hg⟩)
      · rw [if_neg h2]
        exact selectGo_disjoint gs limit as _ _ hu hp

/-- greedy-maximal: every remaining id is picked, or the batch is full, or it overlaps a picked one. -/
theorem selectGo_maximal (gs : Str → List Str) (limit : Nat) : ∀ (as picked used : List Str),
    UsedOf gs picked used → picked.length ≤ limit →
    ∀ a ∈ as, a ∈ selectGo gs limit as picked used ∨
      (selectGo gs limit as picked used).length = limit ∨
      ∃ b ∈ selectGo gs limit as picked used, disjointB (gs b) (gs a) = false
  | [], _, _, _, _ => by simp
  | x :: as, picked, used, hu, hl => by
    intro a ha
    unfold selectGo
    by_cases h1 : picked.length ≥ limit
    · rw [if_pos h1]; exact Or.inr (Or.inl (by omega))
    · rw [if_neg h1]
      by_cases h2 : disjointB used (gs x) = true
      · rw [if_pos h2]
        rcases List.mem_cons.mp ha with rfl | ha'
        · obtain ⟨rest, e, _⟩ := selectGo_prefix gs limit as (picked ++ [a]) (used ++ gs a)
          exact Or.inl (by rw [e]; simp)
        · exact selectGo_maximal gs limit as _ _ (usedOf_snoc x hu) (by simp; omega) a ha'
      · rw [if_neg h2]
        rcases List.mem_cons.mp ha with rfl | ha'
        · obtain ⟨rest, e, _⟩ := selectGo_prefix gs limit as picked used
          have hf : disjointB used (gs a) = false := by
            cases hd : disjointB used (gs a) with
            | true => exact absurd hd h2
            | false => rfl
          obtain ⟨g, hg, hgu⟩ := disjointB_false _ _ hf
          obtain ⟨b, hb, hgb⟩ := (hu g).mp hgu
          refine Or.inr (Or.inr ⟨b, by rw [e]; exact List.mem_append_left _ hb, ?_⟩)
          cases hd : disjointB (gs b) (gs a) with
          | false => rfl
          | true => exact absurd hgb ((disjointB_iff _ _).mp hd g hg)
        · exact selectGo_maximal gs limit as _ _ hu hl a ha'

/-- pairwise-disjoint ids that fit the worker limit are all picked, in order. -/
theorem selectGo_all (gs : Str → List Str) (limit : Nat) : ∀ (as picked used : List Str),
    UsedOf gs picked used → (picked ++ as).Pairwise (Disj gs) → picked.length + as.length ≤ limit →
    selectGo gs limit as picked used = picked ++ as
  | [], picked, used, _, _, _ => by simp [selectGo]
  | a :: as, picked, used, hu, hp, hl => by
    unfold selectGo
    have h1 : ¬ picked.length ≥ limit := by simp at hl; omega
    rw [if_neg h1]
    have h2 : disjointB used (gs a) = true := by
      rw [disjointB_iff]
      intro g hg hgu
      obtain ⟨b, hb, hgb⟩ := (hu g).mp hgu
      have := (List.pairwise_append.mp hp).2.2 b hb a List.mem_cons_self
      exact this g hgb hg
    rw [if_pos h2]
    rw [selectGo_all gs limit as _ _ (usedOf_snoc a hu) (by simpa using hp) (by simp at hl ⊢; omega)]
    simp

theorem usedOf_nil (gs : Str → List Str) : UsedOf gs [] [] := by intro g; simp

/-- filtering a duplicate-free list by membership in one of its subsequences gives the subsequence. -/
theorem filter_contains_sublist : ∀ {s l : List Str}, s.Sublist l → l.Nodup →
    l.filter (fun x => s.contains x) = s
  | _, _, .slnil, _ => rfl
  | s, _, @List.Sublist.cons _ _ l a h, hn => by
    rw [List.nodup_cons] at hn
    have : s.contains a = false := by
      cases hc : s.contains a with
      | false => rfl
      | true => exact absurd (h.subset (by simpa using hc)) hn.1
    rw [List.filter_cons, this]
    exact filter_contains_sublist h hn.2
  | _, _, @List.Sublist.cons_cons _ s l a h, hn => by
    rw [List.nodup_cons] at hn
    rw [List.filter_cons]
    have e : l.filter (fun x => (a :: s).contains x) = l.filter (fun x => s.contains x) := by
      apply List.filter_congr
      intro x hx
      have : x ≠ a := fun h => hn.1 (h ▸ hx)
      simp [this]
    have ha : (a :: s).contains a = true := by simp
    rw [ha, e, filter_contains_sublist h hn.2]
    rfl

/-! ### the staging loop -/

def estA (ci : Bool) (a : Arrival) : Nat := estimate (normalize ci (basename a.path) a.payload)

theorem stage_isSome (ci : Bool) (s : Stager) (path : Str) (k : Key) (pl : Rec) :
    (stage ci s path k pl).isSome = true ↔
      ¬ (((s.bytes + estimate (normalize ci (basename path) pl) : Nat) : Int) > s.limit) := by
  simp only [stage]
  split <;> simp_all

/-- a step of the loop raises exactly when the record alone does not fit the limit. -/
theorem loopStep_ok_iff (ci : Bool) (l : Loop) (a : Arrival) :
    (loopStep ci l a).2 = true ↔ ((estA ci a : Nat) : Int) ≤ l.st.limit := by
  unfold loopStep estA
  cases h1 : stage ci (keyFor l.st a).1 a.path (keyFor l.st a).2 a.payload with
  | some s2 =>
    have h := (stage_isSome ci (keyFor l.st a).1 a.path (keyFor l.st a).2 a.payload).mp (by rw [h1]; rfl)
    simp only [keyFor] at h
    simp only [h1]
    refine ⟨fun _ => ?_, fun _ => trivial⟩
    push_cast at h
    omega
  | none =>
    simp only [h1]
    cases h2 : stage ci (drain (keyFor l.st a).1).1 a.path (keyFor l.st a).2 a.payload with
    | some s3 =>
      have h := (stage_isSome ci (drain (keyFor l.st a).1).1 a.path (keyFor l.st a).2 a.payload).mp
        (by rw [h2]; rfl)
      simp only [keyFor, drain] at h
      refine ⟨fun _ => ?_, fun _ => rfl⟩
      push_cast at h
      omega
    | none =>
      have h := (stage_isSome ci (drain (keyFor l.st a).1).1 a.path (keyFor l.st a).2 a.payload).not.mp
        (by rw [h2]; simp)
      simp only [keyFor, drain] at h
      refine ⟨fun hc => (by cases hc), fun hc => ?_⟩
      push_cast at h
      omega

theorem stage_limit {ci : Bool} {s s' : Stager} {path : Str} {k : Key} {pl : Rec}
    (h : stage ci s path k pl = some s') : s'.limit = s.limit := (stage_some h).2.2.1

theorem loopStep_limit (ci : Bool) (l : Loop) (a : Arrival) :
    (loopStep ci l a).1.st.limit = l.st.limit := by
  unfold loopStep
  cases h1 : stage ci (keyFor l.st a).1 a.path (keyFor l.st a).2 a.payload with
  | some s2 => simp only [h1]; rw [stage_limit h1]; rfl
  | none =>
    simp only [h1]
    cases h2 : stage ci (drain (keyFor l.st a).1).1 a.path (keyFor l.st a).2 a.payload with
    | some s3 => rw [stage_limit h2]; rfl
    | none => rfl

theorem loopRun_limit (ci : Bool) : ∀ (as : List Arrival) (l : Loop),
    (loopRun ci l as).1.st.limit = l.st.limit
  | [], _ => rfl
  | a :: as, l => by
    unfold loopRun
    by_cases h : (loopStep ci l a).2 = true
    · simp only [h, if_true]; rw [loopRun_limit ci as, loopStep_limit]
    · simp only [h]; exact loopStep_limit ci l a

/-- the loop finishes iff every record alone fits the limit. -/
theorem loopRun_ok_iff (ci : Bool) : ∀ (as : List Arrival) (l : Loop),
    (loopRun ci l as).2 = true ↔ ∀ a ∈ as, ((estA ci a : Nat) : Int) ≤ l.st.limit
  | [], _ => by simp [loopRun]
  | a :: as, l => by
    unfold loopRun
    by_cases h : (loopStep ci l a).2 = true
    · simp only [h, if_true]
      rw [loopRun_ok_iff ci as, loopStep_limit]
      have := (loopStep_ok_iff ci l a).mp h
      simp [this]
    · simp only [h]
      have := (loopStep_ok_iff ci l a).not.mp h
      simp only [Bool.false_eq_true, if_false, false_iff]
      intro hc
      exact this (hc a List.mem_cons_self)

theorem loopRun_cons (ci : Bool) (l : Loop) (a : Arrival) (as : List Arrival) :
    loopRun ci l (a :: as) =
      if (loopStep ci l a).2 then loopRun ci (loopStep ci l a).1 as else ((loopStep ci l a).1, false) := rfl

theorem loopRun_append (ci : Bool) : ∀ (as bs : List Arrival) (l : Loop),
    loopRun ci l (as ++ bs) =
      if (loopRun ci l as).2 then loopRun ci (loopRun ci l as).1 bs else loopRun ci l as
  | [], bs, l => by simp [loopRun]
  | a :: as, bs, l => by
    rw [List.cons_append, loopRun_cons, loopRun_cons]
    by_cases h : (loopStep ci l a).2 = true
    · simp only [h, if_true]; exact loopRun_append ci as bs _
    · simp [h]

/-! ### pure commit -/

structure Pure (σ : Type) where
  state : σ
  lines : List (Str × Int)
  arrs : List Arrival

/-- the commit phase without the stager: fold `apply` over the buffers, collect the apply
records and the result lines. -/
def commitPure {σ D : Type} (apply : σ → D → σ × ApplyOut) : σ → List (Buffer D) → Pure σ
  | s, [] => ⟨s, [], []⟩
  | s, b :: bs =>
    let r := apply s b.deltas
    let c := commitPure apply r.1 bs
    ⟨c.state, b.line :: c.lines, applyArrival b r.2 :: c.arrs⟩

theorem commitLoop_pure {σ D : Type} (ci : Bool) (apply : σ → D → σ × ApplyOut) :
    ∀ (bs : List (Buffer D)) (l : Loop) (s : σ),
    (commitLoop ci apply l s bs).ok = (loopRun ci l (commitPure apply s bs).arrs).2 ∧
    (commitLoop ci apply l s bs).loop = (loopRun ci l (commitPure apply s bs).arrs).1 ∧
    ((commitLoop ci apply l s bs).ok = true →
      (commitLoop ci apply l s bs).state = (commitPure apply s bs).state ∧
      (commitLoop ci apply l s bs).lines = (commitPure apply s bs).lines)
  | [], l, s => by simp [commitLoop, commitPure, loopRun]
  | b :: bs, l, s => by
    simp only [commitLoop, commitPure]
    unfold loopRun
    by_cases h : (loopStep ci l (applyArrival b (apply s b.deltas).2)).2 = true
    · simp only [h, if_true]
      have ih := commitLoop_pure ci apply bs (loopStep ci l (applyArrival b (apply s b.deltas).2)).1
        (apply s b.deltas).1
      refine ⟨ih.1, ih.2.1, fun hok => ?_⟩
      have := ih.2.2 hok
      exact ⟨this.1, by rw [this.2]⟩
    · simp only [h]
      simp

/-! ### per-file contents -/

def arrLine (ci : Bool) (a : Arrival) : Line := (a.path, normalize ci (basename a.path) a.payload)

theorem fileOf_append (p : Str) (a b : List Line) : fileOf p (a ++ b) = fileOf p a ++ fileOf p b := by
  simp [fileOf, List.filter_append]

theorem fileOf_cons (p : Str) (x : Line) (w : List Line) :
    fileOf p (x :: w) = if x.1 == p then x.2 :: fileOf p w else fileOf p w := by
  simp only [fileOf, List.filter_cons]
  split <;> rfl

theorem fileSeq_cons (p : Str) (r : SRec) (w : List SRec) :
    fileSeq p (r :: w) = if r.path == p then r :: fileSeq p w else fileSeq p w := by
  simp only [fileSeq, List.filter_cons]

theorem fileOf_lineOf_mkRecs (ci : Bool) (p : Str) : ∀ (as : List Arrival) (n : Nat),
    fileOf p ((fileSeq p (mkRecs ci n as)).map (lineOf ci)) = fileOf p (as.map (arrLine ci))
  | [], _ => rfl
  | a :: as, n => by
    rw [mkRecs_cons, fileSeq_cons, List.map_cons, fileOf_cons]
    have ih := fileOf_lineOf_mkRecs ci p as (n + 1)
    have e1 : (recOf ci n a).path = a.path := rfl
    have e2 : (arrLine ci a).1 = a.path := rfl
    rw [e1, e2]
    by_cases h : (a.path == p) = true
    · simp only [h, if_true, List.map_cons]
      rw [fileOf_cons]
      have e3 : (lineOf ci (recOf ci n a)).1 = a.path := rfl
      rw [e3]
      simp only [h, if_true]
      rw [ih]
      congr 1
      simp only [lineOf, recOf, arrLine]
      exact normalize_idempotent ci _ _
    · simp only [h]
      exact ih

theorem fileOf_map_lineOf (ci : Bool) (p : Str) (w : List SRec) :
    fileOf p (w.map (lineOf ci)) = fileOf p ((fileSeq p w).map (lineOf ci)) := by
  induction w with
  | nil => rfl
  | cons r w ih =>
    rw [List.map_cons, fileOf_cons, fileSeq_cons]
    have e : (lineOf ci r).1 = r.path := rfl
    rw [e]
    by_cases h : (r.path == p) = true
    · simp only [h, if_true, List.map_cons]
      rw [fileOf_cons, e]
      simp only [h, if_true]
      rw [ih]
    · simp only [h]
      exact ih

/-- Per-file content of a finished staged run under key-monotone arrivals: the file's arrival
sequence (normalised once), whatever the limit. -/
theorem fileOf_runBatch (ci : Bool) (limit : Int) (as : List Arrival) (w : List SRec)
    (h : runBatch ci limit as = (w, true)) (hm : monoPerFileB as = true) (p : Str) :
    fileOf p (w.map (lineOf ci)) = fileOf p (as.map (arrLine ci)) := by
  rw [fileOf_map_lineOf, stager_perfile_order ci limit as w h hm p,
    fileOf_lineOf_mkRecs]

theorem runBatch_ok_iff (ci : Bool) (limit : Int) (as : List Arrival) :
    (runBatch ci limit as).2 = true ↔ ∀ a ∈ as, ((estA ci a : Nat) : Int) ≤ limit := by
  unfold runBatch
  by_cases hr : (loopRun ci ⟨Stager.new limit, []⟩ as).2 = true
  · simp only [hr, if_true]
    exact (loopRun_ok_iff ci as _).mp hr |> fun h => by simpa [Stager.new] using h
  · simp only [hr]
    have := (loopRun_ok_iff ci as ⟨Stager.new limit, []⟩).not.mp hr
    simpa [Stager.new] using this

/-! ### sequential loop = pure commit under the dry-run contract -/

/-- The dry-run contract with independence (`proj s g` = the part of the state that belongs to
graph `g`): the turn reads only its agent's graphs, its approved deltas change only its agent's
graphs, the dry run emits no `apply.jsonl` record, and every buffer carries the batch's
`(turn_id, slice_idx)` (`_clone_ctx_for_agent` copies both from the batch ctx). -/
structure Contract {σ D C : Type} (P : Params σ D) (gs : Str → List Str) (proj : σ → Str → C)
    (T S : Int) : Prop where
  reads_own : ∀ s s' a t, (∀ g ∈ gs a, proj s g = proj s' g) → P.compute s a t = P.compute s' a t
  writes_own : ∀ s s' a t g, g ∉ gs a → proj (P.apply s (P.compute s' a t).deltas).1 g = proj s g
  no_apply_log : ∀ s a t l, l ∈ (P.compute s a t).logs → l.1 ≠ applyPath
  key_const : ∀ s a t, (P.compute s a t).turn = T ∧ (P.compute s a t).slice = S

theorem fileOf_nil_of_ne (p : Str) (w : List Line) (h : ∀ x ∈ w, x.1 ≠ p) : fileOf p w = [] := by
  induction w with
  | nil => rfl
  | cons x w ih =>
    rw [fileOf_cons]
    have : (x.1 == p) = false := by simpa using h x List.mem_cons_self
    simp only [this]
    exact ih (fun y hy => h y (List.mem_cons_of_mem _ hy))

theorem logArrivals_cons {D : Type} (b : Buffer D) (bs : List (Buffer D)) :
    logArrivals (b :: bs) =
      b.logs.map (fun l => (⟨l.1, b.turn, b.slice, l.2⟩ : Arrival)) ++ logArrivals bs := by
  simp [logArrivals]

theorem logArrivals_mem {D : Type} (bs : List (Buffer D)) (a : Arrival) (h : a ∈ logArrivals bs) :
    ∃ b ∈ bs, ∃ l ∈ b.logs, a = ⟨l.1, b.turn, b.slice, l.2⟩ := by
  simp only [logArrivals, List.mem_flatMap, List.mem_map] at h
  obtain ⟨b, hb, l, hl, e⟩ := h
  exact ⟨b, hb, l, hl, e.symm⟩

theorem logs_lines (ci : Bool) {D : Type} (b : Buffer D) :
    (b.logs.map (fun l => (⟨l.1, b.turn, b.slice, l.2⟩ : Arrival))).map (arrLine ci)
      = b.logs.map (seqLine ci) := by
  rw [List.map_map]; rfl

theorem seq_eq_pure {σ D C : Type} (ci : Bool) (P : Params σ D) (gs : Str → List Str)
    (proj : σ → Str → C) (T S : Int) (hc : Contract P gs proj T S) (s0 : σ) :
    ∀ (ts : List (Str × Str)) (s : σ),
    (ts.map (·.1)).Pairwise (Disj gs) → (∀ t ∈ ts, ∀ g ∈ gs t.1, proj s g = proj s0 g) →
    (seqRun ci P s ts).state
        = (commitPure P.apply s (ts.map (fun t => P.compute s0 t.1 t.2))).state ∧
    (seqRun ci P s ts).lines
        = (commitPure P.apply s (ts.map (fun t => P.compute s0 t.1 t.2))).lines ∧
    ∀ p, fileOf p (seqRun ci P s ts).written
        = fileOf p ((logArrivals (ts.map (fun t => P.compute s0 t.1 t.2))).map (arrLine ci)) ++
          fileOf p ((commitPure P.apply s (ts.map (fun t => P.compute s0 t.1 t.2))).arrs.map (arrLine ci))
  | [], s, _, _ => by simp [seqRun, commitPure, logArrivals, fileOf]
  | t :: ts, s, hp, ha => by
    have hcomp : P.compute s t.1 t.2 = P.compute s0 t.1 t.2 :=
      hc.reads_own s s0 t.1 t.2 (ha t List.mem_cons_self)
    rw [List.map_cons, List.pairwise_cons] at hp
    have hagree : ∀ u ∈ ts, ∀ g ∈ gs u.1,
        proj (P.apply s (P.compute s0 t.1 t.2).deltas).1 g = proj s0 g := by
      intro u hu g hg
      have hnot : g ∉ gs t.1 := fun hgt => hp.1 u.1 (List.mem_map_of_mem hu) g hgt hg
      rw [hc.writes_own s s0 t.1 t.2 g hnot]
      exact ha u (List.mem_cons_of_mem _ hu) g hg
    have ih := seq_eq_pure ci P gs proj T S hc s0 ts (P.apply s (P.compute s0 t.1 t.2).deltas).1
      hp.2 hagree
    simp only [seqRun, List.map_cons, commitPure, hcomp]
    refine ⟨ih.1, by rw [ih.2.1], fun p => ?_⟩
    rw [fileOf_append, fileOf_append, ih.2.2 p, logArrivals_cons, List.map_append, fileOf_append,
      logs_lines]
    have eA : arrLine ci (applyArrival (P.compute s0 t.1 t.2)
        (P.apply s (P.compute s0 t.1 t.2).deltas).2) =
        seqLine ci (applyPath, applyRec (P.compute s0 t.1 t.2)
          (P.apply s (P.compute s0 t.1 t.2).deltas).2) := rfl
    have eN : fileOf p ([] : List Line) = [] := rfl
    rw [eA]
    simp only [fileOf_cons, eN]
    have e1 : (seqLine ci (applyPath, applyRec (P.compute s0 t.1 t.2)
          (P.apply s (P.compute s0 t.1 t.2).deltas).2)).1 = applyPath := rfl
    rw [e1]
    by_cases hpath : (applyPath == p) = true
    · have hp' : applyPath = p := by simpa using hpath
      have z1 : fileOf p ((P.compute s0 t.1 t.2).logs.map (seqLine ci)) = [] := by
        apply fileOf_nil_of_ne
        intro x hx
        obtain ⟨l, hl, rfl⟩ := List.mem_map.mp hx
        rw [← hp']
        exact hc.no_apply_log s0 t.1 t.2 l hl
      have z2 : fileOf p ((logArrivals (ts.map (fun t => P.compute s0 t.1 t.2))).map (arrLine ci)) = [] := by
        apply fileOf_nil_of_ne
        intro x hx
        obtain ⟨a, ha', rfl⟩ := List.mem_map.mp hx
        obtain ⟨b, hb, l, hl, rfl⟩ := logArrivals_mem _ a ha'
        obtain ⟨u, _, rfl⟩ := List.mem_map.mp hb
        rw [← hp']
        exact hc.no_apply_log s0 u.1 u.2 l hl
      simp only [hpath, if_true, z1, z2, List.nil_append, List.cons_append]
    · simp only [hpath, List.append_assoc]
      simp

theorem isort_bufLe_const {D : Type} (T S : Int) (bs : List (Buffer D))
    (h : ∀ b ∈ bs, b.turn = T ∧ b.slice = S) : sortBuffers bs = bs := by
  apply isort_of_pairwise
  induction bs with
  | nil => exact List.Pairwise.nil
  | cons b bs ih =>
    refine List.Pairwise.cons (fun c hc => ?_) (ih (fun x hx => h x (List.mem_cons_of_mem _ hx)))
    have hb := h b List.mem_cons_self
    have hc' := h c (List.mem_cons_of_mem _ hc)
    simp [bufLe, hb.1, hb.2, hc'.1, hc'.2]

theorem commitPure_arrs_key {σ D : Type} (apply : σ → D → σ × ApplyOut) (T S : Int) :
    ∀ (bs : List (Buffer D)), (∀ b ∈ bs, b.turn = T ∧ b.slice = S) →
    ∀ (s : σ) (a : Arrival), a ∈ (commitPure apply s bs).arrs → a.turn = T ∧ a.slice = S
  | [], _, _, a, h => by simp [commitPure] at h
  | b :: bs, hk, s, a, h => by
    simp only [commitPure, List.mem_cons] at h
    rcases h with rfl | h
    · exact hk b List.mem_cons_self
    · exact commitPure_arrs_key apply T S bs (fun x hx => hk x (List.mem_cons_of_mem _ hx)) _ a h

/-! ### the parallel path in pure form -/

/-- all staging requests of a batch: captured logs of the buffers in collection order, then one
apply record per buffer in commit order. -/
def allArrivals {σ D : Type} (P : Params σ D) (s0 : σ) (bufs : List (Buffer D)) : List Arrival :=
  logArrivals bufs ++ (commitPure P.apply s0 (sortBuffers bufs)).arrs

def bufsOf {σ D : Type} (P : Params σ D) (gs : Str → List Str) (mw : Int) (s0 : σ)
    (tasks : List (Str × Str)) : List (Buffer D) :=
  (computed gs mw tasks).map (fun t => P.compute s0 t.1 t.2)

theorem runPar_ok_iff {σ D : Type} (ci : Bool) (limit : Int) (P : Params σ D) (gs : Str → List Str)
    (mw : Int) (s0 : σ) (tasks : List (Str × Str)) :
    (runPar ci limit P gs mw s0 tasks).ok = true ↔
      ∀ a ∈ allArrivals P s0 (bufsOf P gs mw s0 tasks), ((estA ci a : Nat) : Int) ≤ limit := by
  have key : (runPar ci limit P gs mw s0 tasks).ok =
      (loopRun ci ⟨Stager.new limit, []⟩ (allArrivals P s0 (bufsOf P gs mw s0 tasks))).2 := by
    unfold runPar allArrivals bufsOf
    rw [loopRun_append]
    by_cases h1 : (loopRun ci ⟨Stager.new limit, []⟩
        (logArrivals ((computed gs mw tasks).map (fun t => P.compute s0 t.1 t.2)))).2 = true
    · simp only [h1, if_true]
      have cp := commitLoop_pure ci P.apply
        (sortBuffers ((computed gs mw tasks).map (fun t => P.compute s0 t.1 t.2)))
        (loopRun ci ⟨Stager.new limit, []⟩
          (logArrivals ((computed gs mw tasks).map (fun t => P.compute s0 t.1 t.2)))).1 s0
      rw [← cp.1]
      split <;> simp_all
    · simp only [h1]
      simpa using h1
  rw [key, loopRun_ok_iff]
  rfl

/-- when nothing raises, the parallel path is: pure commit for state and results, and the
C16 staged run of all arrivals for what reaches the writer. -/
theorem runPar_pure {σ D : Type} (ci : Bool) (limit : Int) (P : Params σ D) (gs : Str → List Str)
    (mw : Int) (s0 : σ) (tasks : List (Str × Str))
    (hok : (runPar ci limit P gs mw s0 tasks).ok = true) :
    (runBatch ci limit (allArrivals P s0 (bufsOf P gs mw s0 tasks))).2 = true ∧
    (runPar ci limit P gs mw s0 tasks).state
      = (commitPure P.apply s0 (sortBuffers (bufsOf P gs mw s0 tasks))).state ∧
    (runPar ci limit P gs mw s0 tasks).lines
      = (commitPure P.apply s0 (sortBuffers (bufsOf P gs mw s0 tasks))).lines ∧
    (runPar ci limit P gs mw s0 tasks).written
      = (runBatch ci limit (allArrivals P s0 (bufsOf P gs mw s0 tasks))).1.map (lineOf ci) := by
  have hall := (runPar_ok_iff ci limit P gs mw s0 tasks).mp hok
  have hrb : (runBatch ci limit (allArrivals P s0 (bufsOf P gs mw s0 tasks))).2 = true :=
    (runBatch_ok_iff ci limit _).mpr hall
  refine ⟨hrb, ?_⟩
  have hlr : (loopRun ci ⟨Stager.new limit, []⟩ (allArrivals P s0 (bufsOf P gs mw s0 tasks))).2 = true :=
    (loopRun_ok_iff ci _ _).mpr hall
  unfold runBatch
  simp only [hlr, if_true]
  unfold allArrivals bufsOf at hlr ⊢
  rw [loopRun_append] at hlr ⊢
  unfold runPar at hok ⊢
  by_cases h1 : (loopRun ci ⟨Stager.new limit, []⟩
      (logArrivals ((computed gs mw tasks).map (fun t => P.compute s0 t.1 t.2)))).2 = true
  · simp only [h1, if_true] at hlr hok ⊢
    have cp := commitLoop_pure ci P.apply
      (sortBuffers ((computed gs mw tasks).map (fun t => P.compute s0 t.1 t.2)))
      (loopRun ci ⟨Stager.new limit, []⟩
        (logArrivals ((computed gs mw tasks).map (fun t => P.compute s0 t.1 t.2)))).1 s0
    have hcok := cp.1.trans hlr
    have hst := cp.2.2 hcok
    simp only [hcok, if_true]
    exact ⟨hst.1, hst.2, by rw [cp.2.1]⟩
  · simp only [h1] at hok
    simp at hok

/-! ### the scripted world satisfies the contract -/

theorem lookup_setG_ne (g g' : Str) (inc : Int) (h : g ≠ g') : ∀ l : List (Str × Int),
    (setG g' inc l).lookup g = l.lookup g
  | [] => by
    simp only [setG, List.lookup]
    have : (g == g') = false := by simpa using h
    simp [this]
  | e :: l => by
    simp only [setG]
    by_cases he : (e.1 == g') = true
    · simp only [he, if_true]
      have e1 : e.1 = g' := by simpa using he
      have : (g == e.1) = false := by rw [e1]; simpa using h
      simp [List.lookup, this]
    · simp only [he]
      cases hge : g == e.1 with
      | true => simp [List.lookup, hge]
      | false => simp [List.lookup, hge, lookup_setG_ne g g' inc h l]

theorem lookup_applyDeltas (g : Str) : ∀ (ds : List (Str × Int)) (gr : List (Str × Int)),
    (∀ d ∈ ds, d.1 ≠ g) → (applyDeltas gr ds).lookup g = gr.lookup g
  | [], _, _ => rfl
  | d :: ds, gr, h => by
    simp only [applyDeltas, List.foldl_cons]
    have ih := lookup_applyDeltas g ds (setG d.1 d.2 gr) (fun x hx => h x (List.mem_cons_of_mem _ hx))
    simp only [applyDeltas] at ih
    rw [ih, lookup_setG_ne g d.1 d.2 (fun e => h d List.mem_cons_self e.symm)]

theorem readVal_congr (w w' : World) : ∀ (reads : List Str) (acc : Int),
    (∀ g ∈ reads, w.graphs.lookup g = w'.graphs.lookup g) →
    reads.foldl (fun acc g => acc + ((w.graphs.lookup g).getD 0)) acc
      = reads.foldl (fun acc g => acc + ((w'.graphs.lookup g).getD 0)) acc
  | [], _, _ => rfl
  | g :: rs, acc, h => by
    simp only [List.foldl_cons]
    rw [h g List.mem_cons_self]
    exact readVal_congr w w' rs _ (fun x hx => h x (List.mem_cons_of_mem _ hx))

theorem lookup_mem {κ β : Type} [BEq κ] [LawfulBEq κ] (k : κ) (v : β) : ∀ l : List (κ × β),
    l.lookup k = some v → (k, v) ∈ l
  | [], h => by cases h
  | e :: l, h => by
    obtain ⟨k', v'⟩ := e
    simp only [List.lookup] at h
    cases hk : k == k' with
    | true =>
      simp only [hk] at h
      have e1 : k = k' := by simpa using hk
      cases h; subst e1
      exact List.mem_cons_self
    | false =>
      simp only [hk] at h
      exact List.mem_cons_of_mem _ (lookup_mem k v l h)

/-- the script the world runs for task `(a, t)` obeys the contract clauses when the table does. -/
theorem script_ok (gs : Str → List Str) (T S : Int) (scripts : List ((Str × Str) × Script))
    (h : scriptsOkB gs T S scripts = true) (a t : Str) :
    let sc := (scripts.lookup (a, t)).getD (emptyScript T S)
    (∀ g ∈ sc.reads, g ∈ gs a) ∧ (∀ d ∈ sc.deltas, d.1 ∈ gs a) ∧
    (∀ l ∈ sc.logs, l.1 ≠ applyPath) ∧ sc.turn = T ∧ sc.slice = S := by
  cases hl : scripts.lookup (a, t) with
  | none => simp [emptyScript]
  | some sc =>
    have hm := lookup_mem (a, t) sc scripts hl
    simp only [scriptsOkB, List.all_eq_true, Bool.and_eq_true, decide_eq_true_eq] at h
    have := h _ hm
    simp only [Option.getD_some]
    refine ⟨fun g hg => by simpa using this.1.1.1.1 g hg, fun d hd => by simpa using this.1.1.1.2 d hd,
      fun l hl' => by simpa using this.1.1.2 l hl', this.1.2, this.2⟩

/-! ### monitors = the Prop-level statements -/

theorem disjointB_symm_iff (gs : Str → List Str) (a b : Str) :
    disjointB (gs a) (gs b) = true ↔ Disj gs a b := by
  rw [disjointB_iff]
  constructor
  · intro h g hga hgb; exact h g hgb hga
  · intro h x hxb hxa; exact h x hxa hxb

theorem pairwiseDisjointB_iff (gs : Str → List Str) : ∀ l : List Str,
    pairwiseDisjointB gs l = true ↔ l.Pairwise (Disj gs)
  | [] => by simp [pairwiseDisjointB]
  | a :: as => by
    simp only [pairwiseDisjointB, Bool.and_eq_true, List.all_eq_true, List.pairwise_cons,
      pairwiseDisjointB_iff gs as, disjointB_symm_iff]

theorem sublistB_of_sublist : ∀ (bs as : List Str), as.Sublist bs → sublistB as bs = true
  | [], as, h => by
    have : as = [] := List.sublist_nil.mp h
    subst this; rfl
  | b :: bs, [], _ => by simp [sublistB]
  | b :: bs, a :: as, h => by
    simp only [sublistB]
    by_cases hab : (a == b) = true
    · simp only [hab, if_true]
      have e : a = b := by simpa using hab
      subst e
      exact sublistB_of_sublist bs as (List.cons_sublist_cons.mp h)
    · simp only [hab]
      have e : a ≠ b := by simpa using hab
      cases h with
      | cons _ h' => exact sublistB_of_sublist bs (a :: as) h'
      | cons_cons _ h' => exact absurd rfl e

theorem seqRun_ok {σ D : Type} (ci : Bool) (P : Params σ D) : ∀ (ts : List (Str × Str)) (s : σ),
    (seqRun ci P s ts).ok = true
  | [], _ => rfl
  | _ :: _, _ => rfl


end Clem.Batch
