import Clem.Model.Refl

/-!
Helper lemmas for C19 (reflection): splitting / joining on whitespace, the token bound of
`_truncate_tokens`, and the shape of normalised text.
-/

namespace Clem.Refl

/-! ### `splitBy` -/

theorem consHead_ne_nil (c : Nat) (l : List Str) : consHead c l ≠ [] := by
  cases l <;> simp [consHead]

theorem splitBy_ne_nil (p : Nat → Bool) (s : Str) : splitBy p s ≠ [] := by
  cases s with
  | nil => simp [splitBy]
  | cons c cs =>
    simp only [splitBy]
    split
    · simp
    · exact consHead_ne_nil _ _

/-- Every piece consists of characters of the input that are not separators. -/
theorem splitBy_mem (p : Nat → Bool) (s : Str) :
    ∀ w ∈ splitBy p s, ∀ c ∈ w, c ∈ s ∧ p c = false := by
  induction s with
  | nil => intro w hw c hc; simp [splitBy] at hw; subst hw; simp at hc
  | cons a cs ih =>
    intro w hw c hc
    simp only [splitBy] at hw
    split at hw
    · rcases List.mem_cons.mp hw with h | h
      · subst h; simp at hc
      · have := ih w h c hc
        exact ⟨List.mem_cons_of_mem _ this.1, this.2⟩
    · rename_i hpa
      generalize hL : splitBy p cs = L at hw ih
      cases L with
      | nil =>
        simp [consHead] at hw; subst hw
        simp at hc; subst hc
        exact ⟨by simp, by simpa using hpa⟩
      | cons w0 ws =>
        simp only [consHead] at hw
        rcases List.mem_cons.mp hw with h | h
        · subst h
          rcases List.mem_cons.mp hc with h2 | h2
          · subst h2; exact ⟨by simp, by simpa using hpa⟩
          · have := ih w0 (by simp) c h2
            exact ⟨List.mem_cons_of_mem _ this.1, this.2⟩
        · have := ih w (List.mem_cons_of_mem _ h) c hc
          exact ⟨List.mem_cons_of_mem _ this.1, this.2⟩

theorem splitBy_append_sep (p : Nat → Bool) (a : Str) (x : Nat) (rest : Str)
    (ha : ∀ c ∈ a, p c = false) (hx : p x = true) :
    splitBy p (a ++ x :: rest) = a :: splitBy p rest := by
  induction a with
  | nil => simp [splitBy, hx]
  | cons c a ih =>
    have hc : p c = false := ha c (by simp)
    have := ih (fun d hd => ha d (List.mem_cons_of_mem _ hd))
    simp [splitBy, hc, this, consHead]

theorem splitBy_free (p : Nat → Bool) (a : Str) (ha : ∀ c ∈ a, p c = false) :
    splitBy p a = [a] := by
  induction a with
  | nil => simp [splitBy]
  | cons c a ih =>
    have hc : p c = false := ha c (by simp)
    have := ih (fun d hd => ha d (List.mem_cons_of_mem _ hd))
    simp [splitBy, hc, this, consHead]

theorem isWs_32 : isWs 32 = true := by decide

/-- `" ".join(ps).split()` gives `ps` back when the pieces are whitespace-free (before dropping empties). -/
theorem splitBy_joinSp (ps : List Str) (hne : ps ≠ [])
    (hfree : ∀ w ∈ ps, ∀ c ∈ w, isWs c = false) : splitBy isWs (joinSp ps) = ps := by
  induction ps with
  | nil => exact absurd rfl hne
  | cons a r ih =>
    cases r with
    | nil =>
      simp only [joinSp]
      exact splitBy_free _ _ (hfree a (by simp))
    | cons b r =>
      simp only [joinSp]
      rw [splitBy_append_sep isWs a 32 _ (hfree a (by simp)) isWs_32]
      rw [ih (by simp) (fun w hw => hfree w (List.mem_cons_of_mem _ hw))]

theorem tokenCount_joinSp_le (ps : List Str) (hfree : ∀ w ∈ ps, ∀ c ∈ w, isWs c = false) :
    tokenCount (joinSp ps) ≤ ps.length := by
  cases ps with
  | nil => simp [tokenCount, wsSplit, joinSp, splitBy, nonEmpty]
  | cons a r =>
    unfold tokenCount wsSplit
    rw [splitBy_joinSp (a :: r) (by simp) hfree]
    exact List.length_filter_le _ _

/-- Exactly the non-empty pieces are the tokens. -/
theorem wsSplit_joinSp (ps : List Str) (hne : ps ≠ [])
    (hfree : ∀ w ∈ ps, ∀ c ∈ w, isWs c = false) : wsSplit (joinSp ps) = ps.filter nonEmpty := by
  unfold wsSplit
  rw [splitBy_joinSp ps hne hfree]

/-! ### text whose only whitespace is the single space -/

/-- The only whitespace characters of `s` are spaces (true of everything `_normalize` and the fixture
adapter's clipping produce). -/
def OnlySp (s : Str) : Prop := ∀ c ∈ s, isWs c = true → c = 32

theorem spSplit_wsfree (s : Str) (h : OnlySp s) : ∀ w ∈ spSplit s, ∀ c ∈ w, isWs c = false := by
  intro w hw c hc
  have := splitBy_mem isSp s w hw c hc
  cases hws : isWs c with
  | false => rfl
  | true =>
    have h32 := h c this.1 hws
    have := this.2
    subst h32
    simp [isSp] at this

theorem truncateTokens_eq (text : Str) (n : Int) :
    truncateTokens text n =
      if n ≤ 0 || text.isEmpty then [] else joinSp ((spSplit text).take n.toNat) := by
  unfold truncateTokens
  split
  · rfl
  · simp only
    split
    · rename_i h; rw [List.take_of_length_le h]
    · rfl

/-- **Token bound of `_truncate_tokens`** on text whose only whitespace is the single space. -/
theorem tokenCount_truncate_le (text : Str) (n : Int) (h : OnlySp text) :
    tokenCount (truncateTokens text n) ≤ (max 0 n).toNat := by
  rw [truncateTokens_eq]
  split
  · simp [tokenCount, wsSplit, splitBy, nonEmpty]
  · rename_i hn
    have hfree : ∀ w ∈ (spSplit text).take n.toNat, ∀ c ∈ w, isWs c = false :=
      fun w hw => spSplit_wsfree text h w (List.mem_of_mem_take hw)
    have h1 := tokenCount_joinSp_le _ hfree
    have h2 : ((spSplit text).take n.toNat).length ≤ n.toNat := by
      rw [List.length_take]; omega
    have h3 : n.toNat ≤ (max 0 n).toNat := by omega
    omega

theorem joinSp_mem (ps : List Str) : ∀ c ∈ joinSp ps, c = 32 ∨ ∃ w ∈ ps, c ∈ w := by
  induction ps with
  | nil => intro c hc; simp [joinSp] at hc
  | cons a r ih =>
    cases r with
    | nil => intro c hc; simp only [joinSp] at hc; exact Or.inr ⟨a, by simp, hc⟩
    | cons b r =>
      intro c hc
      simp only [joinSp, List.mem_append, List.mem_cons] at hc
      rcases hc with h | h | h
      · exact Or.inr ⟨a, by simp, h⟩
      · exact Or.inl h
      · rcases ih c h with h' | ⟨w, hw, hcw⟩
        · exact Or.inl h'
        · exact Or.inr ⟨w, List.mem_cons_of_mem _ hw, hcw⟩

theorem wsSplit_wsfree (s : Str) : ∀ w ∈ wsSplit s, ∀ c ∈ w, isWs c = false := by
  intro w hw c hc
  unfold wsSplit at hw
  exact (splitBy_mem isWs s w (List.mem_filter.mp hw).1 c hc).2

/-- Joining whitespace-free tokens with single spaces gives `OnlySp` text. -/
theorem joinSp_onlySp (ps : List Str) (hfree : ∀ w ∈ ps, ∀ c ∈ w, isWs c = false) :
    OnlySp (joinSp ps) := by
  intro c hc hws
  rcases joinSp_mem ps c hc with h | ⟨w, hw, hcw⟩
  · exact h
  · rw [hfree w hw c hcw] at hws; cases hws

/-- Joining `OnlySp` pieces with single spaces gives `OnlySp` text. -/
theorem joinSp_onlySp' (ps : List Str) (h : ∀ w ∈ ps, OnlySp w) : OnlySp (joinSp ps) := by
  intro c hc hws
  rcases joinSp_mem ps c hc with h' | ⟨w, hw, hcw⟩
  · exact h'
  · exact h w hw c hcw hws

/-! ### `_WS_RE.sub(" ", t).strip()` as written is `" ".join(t.split())` -/

def AllWs (l : Str) : Prop := ∀ c ∈ l, isWs c = true

theorem dropWhile_allWs_append (a b : Str) (h : AllWs a) : (a ++ b).dropWhile isWs = b.dropWhile isWs := by
  induction a with
  | nil => rfl
  | cons x a ih =>
    have hx : isWs x = true := h x (by simp)
    simp only [List.cons_append, List.dropWhile_cons, hx, if_true]
    exact ih (fun c hc => h c (List.mem_cons_of_mem _ hc))

/-- `core` is empty, or starts and ends with a non-whitespace character. -/
def Tight (core : Str) : Prop :=
  core = [] ∨ (∃ x r, core = x :: r ∧ isWs x = false) ∧ (∃ y r, core.reverse = y :: r ∧ isWs y = false)

theorem dropWhile_allWs (a : Str) (h : AllWs a) : a.dropWhile isWs = [] := by
  have := dropWhile_allWs_append a [] h
  simpa using this

theorem strip_sandwich (pre core post : Str) (hpre : AllWs pre) (hpost : AllWs post) (hc : Tight core) :
    strip (pre ++ core ++ post) = core := by
  unfold strip
  rw [List.append_assoc, dropWhile_allWs_append _ _ hpre]
  rcases hc with rfl | ⟨⟨x, r, hx, hxw⟩, ⟨y, r', hy, hyw⟩⟩
  · simp only [List.nil_append]
    rw [dropWhile_allWs _ hpost]; rfl
  · have h1 : (core ++ post).dropWhile isWs = core ++ post := by
      rw [hx]; simp [hxw]
    rw [h1, List.reverse_append]
    have hpr : AllWs post.reverse := fun c hc => hpost c (List.mem_reverse.mp hc)
    rw [dropWhile_allWs_append _ _ hpr, hy]
    simp only [List.dropWhile_cons, hyw]
    rw [← hy]; simp


def startsWs : Str → Bool
  | [] => false
  | c :: _ => isWs c

theorem wsSplit_cons_ws (c : Nat) (cs : Str) (h : isWs c = true) : wsSplit (c :: cs) = wsSplit cs := by
  simp [wsSplit, splitBy, h, nonEmpty]

theorem wsSplit_cons_sep (c : Nat) (cs : Str) (h : isWs c = false) (hs : cs = [] ∨ startsWs cs = true) :
    wsSplit (c :: cs) = [c] :: wsSplit cs := by
  rcases hs with rfl | hs
  · simp [wsSplit, splitBy, h, nonEmpty, consHead]
  · cases cs with
    | nil => simp [startsWs] at hs
    | cons d ds =>
      simp only [startsWs] at hs
      simp [wsSplit, splitBy, h, hs, nonEmpty, consHead]

theorem wsSplit_cons_word (c d : Nat) (ds : Str) (h : isWs c = false) (hd : isWs d = false) :
    ∃ w rest, wsSplit (d :: ds) = w :: rest ∧ wsSplit (c :: d :: ds) = (c :: w) :: rest := by
  cases hsp : splitBy isWs ds with
  | nil => exact absurd hsp (splitBy_ne_nil _ _)
  | cons w0 ws0 =>
    refine ⟨d :: w0, ws0.filter nonEmpty, ?_, ?_⟩
    · simp [wsSplit, splitBy, hd, hsp, consHead, nonEmpty]
    · simp [wsSplit, splitBy, h, hd, hsp, consHead, nonEmpty]

theorem joinSp_cons_head (c : Nat) (w : Str) (rest : List Str) :
    joinSp ((c :: w) :: rest) = c :: joinSp (w :: rest) := by
  cases rest <;> simp [joinSp]

theorem joinSp_single_cons (c : Nat) (ps : List Str) (h : ps ≠ []) :
    joinSp ([c] :: ps) = c :: 32 :: joinSp ps := by
  cases ps with
  | nil => exact absurd rfl h
  | cons a r => simp [joinSp]

/-- Shape of `_WS_RE.sub(" ", t)`: the tokens of `t` joined by single spaces, with whitespace-only
padding on both sides. -/
theorem subRunsWs_shape (t : Str) : ∀ b : Bool, ∃ pre post, AllWs pre ∧ AllWs post ∧
    subRuns isWs b t = pre ++ joinSp (wsSplit t) ++ post ∧
    (wsSplit t ≠ [] → pre = if (b = false ∧ startsWs t = true) then [32] else []) := by
  induction t with
  | nil =>
    intro b
    exact ⟨[], [], by simp [AllWs], by simp [AllWs], by simp [subRuns, wsSplit, splitBy, nonEmpty, joinSp],
      by simp [wsSplit, splitBy, nonEmpty]⟩
  | cons c cs ih =>
    intro b
    cases hc : isWs c with
    | true =>
      obtain ⟨pre', post', h1, h2, h3, h4⟩ := ih true
      rw [wsSplit_cons_ws c cs hc]
      cases b with
      | true =>
        refine ⟨pre', post', h1, h2, ?_, ?_⟩
        · simp [subRuns, hc, h3]
        · intro hne; have := h4 hne; simpa using this
      | false =>
        refine ⟨32 :: pre', post', ?_, h2, ?_, ?_⟩
        · intro x hx
          rcases List.mem_cons.mp hx with rfl | hx
          · exact isWs_32
          · exact h1 x hx
        · simp [subRuns, hc, h3]
        · intro hne; have := h4 hne; simp at this; simp [startsWs, hc, this]
    | false =>
      obtain ⟨pre', post', h1, h2, h3, h4⟩ := ih false
      have hcol : subRuns isWs b (c :: cs) = c :: subRuns isWs false cs := by simp [subRuns, hc]
      by_cases hW : wsSplit cs = []
      · -- the rest is whitespace only
        have hsep : cs = [] ∨ startsWs cs = true := by
          cases cs with
          | nil => exact Or.inl rfl
          | cons d ds =>
            right
            cases hd : isWs d with
            | true => simp [startsWs, hd]
            | false =>
              obtain ⟨w, rest, hw, _⟩ := wsSplit_cons_word c d ds hc hd
              rw [hw] at hW; cases hW
        refine ⟨[], pre' ++ post', by simp [AllWs], ?_, ?_, ?_⟩
        · intro x hx
          rcases List.mem_append.mp hx with hx | hx
          · exact h1 x hx
          · exact h2 x hx
        · rw [hcol, h3, wsSplit_cons_sep c cs hc hsep, hW]; simp [joinSp]
        · intro _; simp [startsWs, hc]
      · have hpre := h4 hW
        cases hs : startsWs cs with
        | true =>
          refine ⟨[], post', by simp [AllWs], h2, ?_, ?_⟩
          · rw [hcol, h3, wsSplit_cons_sep c cs hc (Or.inr hs), joinSp_single_cons c _ hW, hpre]
            simp [hs]
          · intro _; simp [startsWs, hc]
        | false =>
          cases cs with
          | nil => simp [wsSplit, splitBy, nonEmpty] at hW
          | cons d ds =>
            have hd : isWs d = false := by simpa [startsWs] using hs
            obtain ⟨w, rest, hw, hw'⟩ := wsSplit_cons_word c d ds hc hd
            refine ⟨[], post', by simp [AllWs], h2, ?_, ?_⟩
            · rw [hcol, h3, hw', hw, joinSp_cons_head, hpre]
              simp [hs]
            · intro _; simp [startsWs, hc]

theorem wsSplit_nonEmpty (s : Str) : ∀ w ∈ wsSplit s, w ≠ [] := by
  intro w hw
  unfold wsSplit at hw
  have := (List.mem_filter.mp hw).2
  intro h; subst h; simp [nonEmpty] at this

theorem tight_joinSp (ps : List Str) (hne : ∀ w ∈ ps, w ≠ [])
    (hfree : ∀ w ∈ ps, ∀ c ∈ w, isWs c = false) : Tight (joinSp ps) := by
  cases ps with
  | nil => left; rfl
  | cons a r =>
    right
    constructor
    · cases ha : a with
      | nil => exact absurd ha (hne a (by simp))
      | cons x xs =>
        have hx : isWs x = false := hfree a (by simp) x (by simp [ha])
        cases r with
        | nil => exact ⟨x, xs, by simp [joinSp], hx⟩
        | cons b r => exact ⟨x, xs ++ 32 :: joinSp (b :: r), by simp [joinSp], hx⟩
    · induction r generalizing a with
      | nil =>
        simp only [joinSp]
        cases hr : a.reverse with
        | nil => simp at hr; exact absurd hr (hne a (by simp))
        | cons y ys =>
          refine ⟨y, ys, rfl, hfree a (by simp) y ?_⟩
          have : y ∈ a.reverse := by rw [hr]; simp
          exact List.mem_reverse.mp this
      | cons b r ih =>
        obtain ⟨y, ys, hy, hyw⟩ := ih b (fun w hw => hne w (List.mem_cons_of_mem _ hw))
          (fun w hw => hfree w (List.mem_cons_of_mem _ hw))
        refine ⟨y, ys ++ 32 :: a.reverse, ?_, hyw⟩
        simp only [joinSp, List.reverse_append, List.reverse_cons, hy]
        simp

/-- **`_WS_RE.sub(" ", t).strip()` as written equals `" ".join(t.split())`.** -/
theorem normWs_eq (t : Str) : normWs t = joinSp (wsSplit t) := by
  obtain ⟨pre, post, h1, h2, h3, _⟩ := subRunsWs_shape t false
  unfold normWs reSubWs
  rw [h3]
  exact strip_sandwich pre _ post h1 h2 (tight_joinSp _ (wsSplit_nonEmpty t) (wsSplit_wsfree t))


theorem normWs_onlySp (t : Str) : OnlySp (normWs t) := by
  rw [normWs_eq]; exact joinSp_onlySp _ (wsSplit_wsfree t)

theorem normalize_onlySp (kp : Bool) (t : Str) : OnlySp (normalize kp t) := by
  unfold normalize
  split
  · intro c hc; simp at hc
  · split <;> exact normWs_onlySp _

theorem ruleRaw_onlySp (utter : Str) (snips : List Str) : OnlySp (ruleRaw utter snips) := by
  unfold ruleRaw
  apply joinSp_onlySp'
  intro w hw
  have hw' := (List.mem_filter.mp hw).1
  rcases List.mem_cons.mp hw' with h | h
  · subst h; exact normalize_onlySp _ _
  · rcases List.mem_map.mp h with ⟨s, _, hs⟩
    subst hs; exact normalize_onlySp _ _

theorem adapterClip_onlySp (raw : Str) (m : Int) : OnlySp (adapterClip raw m) := by
  unfold adapterClip
  split
  · intro c hc; simp at hc
  · exact joinSp_onlySp _ (fun w hw => wsSplit_wsfree raw w (List.mem_of_mem_take hw))

/-- `_normalize` is idempotent on the whitespace level: its output has exactly its tokens. -/
theorem tokenCount_normWs (t : Str) : tokenCount (normWs t) = tokenCount t := by
  rw [normWs_eq]
  by_cases h : wsSplit t = []
  · unfold tokenCount
    rw [h]; simp [joinSp, wsSplit, splitBy, nonEmpty]
  · unfold tokenCount
    rw [wsSplit_joinSp _ h (wsSplit_wsfree t)]
    congr 1
    apply List.filter_eq_self.mpr
    intro w hw
    unfold wsSplit at hw
    exact (List.mem_filter.mp hw).2

end Clem.Refl
