import Clem.Proofs.Sort
import Clem.Model.LogStager

/-! Helper lemmas for the stager: the sort key is a total preorder, drains are sorted
permutations, and filtering a stable sort of an already strictly ordered sub-sequence. -/
namespace Clem.LogStager
open Clem.Py Clem.LogJson

theorem lexLe_total : ∀ a b : List Nat, lexLe a b = true ∨ lexLe b a = true
  | [], _ => Or.inl (by simp [lexLe])
  | _ :: _, [] => Or.inr (by simp [lexLe])
  | x :: xs, y :: ys => by
    have ih := lexLe_total xs ys
    simp only [lexLe]
    by_cases h1 : x < y
    · simp [h1]
    · by_cases h2 : y < x
      · simp [h2]
      · simpa [h1, h2] using ih

theorem lexLe_trans : ∀ a b c : List Nat, lexLe a b = true → lexLe b c = true → lexLe a c = true
  | [], _, _, _, _ => by simp [lexLe]
  | _ :: _, [], _, h, _ => by simp [lexLe] at h
  | _ :: _, _ :: _, [], _, h => by simp [lexLe] at h
  | x :: xs, y :: ys, z :: zs, h1, h2 => by
    have ih := lexLe_trans xs ys zs
    simp only [lexLe] at h1 h2 ⊢
    by_cases a1 : x < y
    · by_cases a2 : y < z
      · have : x < z := by omega
        simp [this]
      · by_cases a3 : z < y
        · simp [a2, a3] at h2
        · have : x < z := by omega
          simp [this]
    · by_cases a1' : y < x
      · simp [a1, a1'] at h1
      · simp only [a1, a1', if_false] at h1
        have hxy : x = y := by omega
        subst hxy
        by_cases a2 : x < z
        · simp [a2]
        · by_cases a3 : z < x
          · simp [a2, a3] at h2
          · simp only [a2, a3, if_false] at h2 ⊢
            exact ih h1 h2

theorem lexLe_antisymm : ∀ a b : List Nat, lexLe a b = true → lexLe b a = true → a = b
  | [], [], _, _ => rfl
  | [], _ :: _, _, h => by simp [lexLe] at h
  | _ :: _, [], h, _ => by simp [lexLe] at h
  | x :: xs, y :: ys, h1, h2 => by
    simp only [lexLe] at h1 h2
    by_cases a1 : x < y
    · have : ¬ y < x := by omega
      simp [a1, this] at h2
    · by_cases a2 : y < x
      · simp [a1, a2] at h1
      · simp only [a1, a2, if_false] at h1 h2
        have : x = y := by omega
        subst this
        rw [lexLe_antisymm xs ys h1 h2]

theorem layerI_trans (x y z : Int) (r1 r2 r3 : Bool)
    (h1 : (if x < y then true else if y < x then false else r1) = true)
    (h2 : (if y < z then true else if z < y then false else r2) = true)
    (h3 : x = y → y = z → r1 = true → r2 = true → r3 = true) :
    (if x < z then true else if z < x then false else r3) = true := by
  by_cases a1 : x < y <;> by_cases a2 : y < x <;> by_cases a3 : y < z <;> by_cases a4 : z < y <;>
    simp only [a1, a2, a3, a4, if_true, if_false] at h1 h2 <;>
    first
      | (exact absurd h1 (by decide))
      | (exact absurd h2 (by decide))
      | (have : x < z := by omega
         simp [this])
      | (have e1 : x = y := by omega
         have e2 : y = z := by omega
         have n1 : ¬ x < z := by omega
         have n2 : ¬ z < x := by omega
         simp only [n1, n2, if_false]
         exact h3 e1 e2 h1 h2)

theorem layerN_trans (x y z : Nat) (r1 r2 r3 : Bool)
    (h1 : (if x < y then true else if y < x then false else r1) = true)
    (h2 : (if y < z then true else if z < y then false else r2) = true)
    (h3 : x = y → y = z → r1 = true → r2 = true → r3 = true) :
    (if x < z then true else if z < x then false else r3) = true := by
  by_cases a1 : x < y <;> by_cases a2 : y < x <;> by_cases a3 : y < z <;> by_cases a4 : z < y <;>
    simp only [a1, a2, a3, a4, if_true, if_false] at h1 h2 <;>
    first
      | (exact absurd h1 (by decide))
      | (exact absurd h2 (by decide))
      | (have : x < z := by omega
         simp [this])
      | (have e1 : x = y := by omega
         have e2 : y = z := by omega
         have n1 : ¬ x < z := by omega
         have n2 : ¬ z < x := by omega
         simp only [n1, n2, if_false]
         exact h3 e1 e2 h1 h2)

theorem keyLe_total (a b : SRec) : keyLe a b = true ∨ keyLe b a = true := by
  have := lexLe_total a.path b.path
  unfold keyLe
  grind

theorem keyLe_trans (a b c : SRec) : keyLe a b = true → keyLe b c = true → keyLe a c = true := by
  unfold keyLe
  intro h1 h2
  refine layerI_trans _ _ _ _ _ _ h1 h2 (fun _ _ h1 h2 => ?_)
  refine layerN_trans _ _ _ _ _ _ h1 h2 (fun _ _ h1 h2 => ?_)
  refine layerI_trans _ _ _ _ _ _ h1 h2 (fun _ _ h1 h2 => ?_)
  refine layerN_trans _ _ _ _ _ _ h1 h2 (fun _ _ h1 h2 => ?_)
  exact lexLe_trans _ _ _ h1 h2

/-- strictly earlier in the drain order. -/
def keyLt (a b : SRec) : Prop := keyLe a b = true ∧ keyLe b a = false

theorem isort_keyLe_pairwise (l : List SRec) :
    (isort keyLe l).Pairwise (fun x y => keyLe x y = true) :=
  isort_pairwise keyLe keyLe_total keyLe_trans l

/-- A stable sort does not reorder a sub-sequence (selected by `q`) that already is strictly
ordered: the selected records come out in their original order. -/
theorem filter_isort_of_strict (q : SRec → Bool) (l : List SRec)
    (h : (l.filter q).Pairwise keyLt) : (isort keyLe l).filter q = l.filter q := by
  have h1 : ((isort keyLe l).filter q).Pairwise (fun x y => keyLe x y = true) :=
    (isort_keyLe_pairwise l).filter q
  have h2 : (l.filter q).Pairwise (fun x y => keyLe x y = true) := h.imp (fun hxy => hxy.1)
  have hp : ((isort keyLe l).filter q).Perm (l.filter q) := (isort_perm keyLe l).filter q
  have hS : ∀ x ∈ l.filter q, ∀ y ∈ l.filter q, keyLe x y = true → keyLe y x = true → x = y := by
    have hP : (l.filter q).Pairwise (fun x y => keyLe x y = true → keyLe y x = true → x = y) :=
      h.imp (fun hxy _ h2 => by rw [hxy.2] at h2; cases h2)
    have hF : (l.filter q).Pairwise (flip fun x y => keyLe x y = true → keyLe y x = true → x = y) :=
      h.imp (fun hxy h1 _ => by rw [hxy.2] at h1; cases h1)
    exact List.Pairwise.forall_of_forall_of_flip (fun x _ _ _ => rfl) hP hF
  apply List.Perm.eq_of_pairwise _ h1 h2 hp
  intro a b ha hb hab hba
  exact hS a (hp.mem_iff.mp ha) b hb hab hba

theorem fileSeq_append (p : Str) (a b : List SRec) :
    fileSeq p (a ++ b) = fileSeq p a ++ fileSeq p b := by
  simp [fileSeq, List.filter_append]

/-- the record `loopStep` hands to `stage` for arrival `a` when the counter is `n`. -/
def recOf (ci : Bool) (n : Nat) (a : Arrival) : SRec :=
  ⟨a.path, ⟨a.turn, stageOrdOf (basename a.path), a.slice, n + 1⟩,
    normalize ci (basename a.path) a.payload, estimate (normalize ci (basename a.path) a.payload)⟩

theorem mkRecs_cons (ci : Bool) (n : Nat) (a : Arrival) (as : List Arrival) :
    mkRecs ci n (a :: as) = recOf ci n a :: mkRecs ci (n + 1) as := rfl

theorem stage_some {ci : Bool} {s s' : Stager} {path : Str} {k : Key} {pl : Rec}
    (h : stage ci s path k pl = some s') :
    s'.buf = s.buf ++ [⟨path, k, normalize ci (basename path) pl,
                        estimate (normalize ci (basename path) pl)⟩] ∧
    s'.seq = s.seq ∧ s'.limit = s.limit ∧
    s'.bytes = s.bytes + estimate (normalize ci (basename path) pl) ∧
    (s'.bytes : Int) ≤ s'.limit := by
  simp only [stage] at h
  by_cases c : ((s.bytes + estimate (normalize ci (basename path) pl) : Nat) : Int) > s.limit
  · rw [if_pos c] at h; cases h
  · rw [if_neg c] at h
    cases h
    exact ⟨rfl, rfl, rfl, rfl, by simpa using c⟩

/-- What one successful iteration of the driver loop does: either the record joins the buffer,
or the buffer is flushed in key order and the record starts a new one. -/
theorem loopStep_ok (ci : Bool) (l : Loop) (a : Arrival) (h : (loopStep ci l a).2 = true) :
    (loopStep ci l a).1.st.seq = l.st.seq + 1 ∧
    (((loopStep ci l a).1.written = l.written ∧
        (loopStep ci l a).1.st.buf = l.st.buf ++ [recOf ci l.st.seq a]) ∨
     ((loopStep ci l a).1.written = l.written ++ isort keyLe l.st.buf ∧
        (loopStep ci l a).1.st.buf = [recOf ci l.st.seq a])) := by
  unfold loopStep at h ⊢
  cases h1 : stage ci (keyFor l.st a).1 a.path (keyFor l.st a).2 a.payload with
  | some s2 =>
    have f := stage_some h1
    simp only [h1]
    exact ⟨by rw [f.2.1]; rfl, Or.inl ⟨trivial, by rw [f.1]; rfl⟩⟩
  | none =>
    simp only [h1] at h ⊢
    cases h2 : stage ci (drain (keyFor l.st a).1).1 a.path (keyFor l.st a).2 a.payload with
    | some s3 =>
      have f := stage_some h2
      exact ⟨by rw [f.2.1]; rfl, Or.inr ⟨rfl, by rw [f.1]; rfl⟩⟩
    | none =>
      simp only [h2] at h
      cases h

/-- Invariant of the loop for one file `p`: if the records of `p` (buffered + still to come)
are strictly ordered, what has been written to `p` plus what is buffered for `p` is exactly the
arrival sequence for `p`. -/
theorem loopRun_file (ci : Bool) (p : Str) : ∀ (as : List Arrival) (l : Loop),
    (loopRun ci l as).2 = true →
    (fileSeq p (l.st.buf ++ mkRecs ci l.st.seq as)).Pairwise keyLt →
    fileSeq p (loopRun ci l as).1.written ++ fileSeq p (loopRun ci l as).1.st.buf
      = fileSeq p l.written ++ fileSeq p l.st.buf ++ fileSeq p (mkRecs ci l.st.seq as) ∧
    (fileSeq p (loopRun ci l as).1.st.buf).Pairwise keyLt
  | [], l, _, hp => by
    simp only [loopRun, mkRecs, List.append_nil] at hp ⊢
    exact ⟨by simp [fileSeq], hp⟩
  | a :: as, l, hok, hp => by
    simp only [loopRun] at hok ⊢
    by_cases hs : (loopStep ci l a).2 = true
    · simp only [hs, if_true] at hok ⊢
      obtain ⟨hseq, hcase⟩ := loopStep_ok ci l a hs
      rw [mkRecs_cons] at hp
      rcases hcase with ⟨hw, hb⟩ | ⟨hw, hb⟩
      · have hp' : (fileSeq p ((loopStep ci l a).1.st.buf ++
            mkRecs ci (loopStep ci l a).1.st.seq as)).Pairwise keyLt := by
          rw [hb, hseq, List.append_assoc]; exact hp
        have ih := loopRun_file ci p as (loopStep ci l a).1 hok hp'
        refine ⟨?_, ih.2⟩
        rw [ih.1, hw, hb, hseq]
        rw [mkRecs_cons, ← List.singleton_append (l := mkRecs ci (l.st.seq + 1) as)]
        simp only [fileSeq_append, List.append_assoc]
      · have hsub : (fileSeq p ([recOf ci l.st.seq a] ++ mkRecs ci (l.st.seq + 1) as)).Pairwise keyLt := by
          rw [fileSeq_append] at hp
          exact (List.pairwise_append.mp hp).2.1
        have hbuf : (fileSeq p l.st.buf).Pairwise keyLt := by
          rw [fileSeq_append] at hp
          exact (List.pairwise_append.mp hp).1
        have hp' : (fileSeq p ((loopStep ci l a).1.st.buf ++
            mkRecs ci (loopStep ci l a).1.st.seq as)).Pairwise keyLt := by
          rw [hb, hseq]; exact hsub
        have ih := loopRun_file ci p as (loopStep ci l a).1 hok hp'
        refine ⟨?_, ih.2⟩
        rw [ih.1, hw, hb, hseq]
        have e : fileSeq p (isort keyLe l.st.buf) = fileSeq p l.st.buf :=
          filter_isort_of_strict _ _ hbuf
        rw [mkRecs_cons, ← List.singleton_append (l := mkRecs ci (l.st.seq + 1) as)]
        simp only [fileSeq_append, e, List.append_assoc]
    · simp only [hs] at hok
      simp at hok

/-- Nothing is lost or duplicated by the loop (as long as no retry raised): written + buffered is
a permutation of everything handed to `stage`. -/
theorem loopRun_perm (ci : Bool) : ∀ (as : List Arrival) (l : Loop),
    (loopRun ci l as).2 = true →
    ((loopRun ci l as).1.written ++ (loopRun ci l as).1.st.buf).Perm
      (l.written ++ l.st.buf ++ mkRecs ci l.st.seq as)
  | [], l, _ => by simp [loopRun, mkRecs]
  | a :: as, l, hok => by
    simp only [loopRun] at hok ⊢
    by_cases hs : (loopStep ci l a).2 = true
    · simp only [hs, if_true] at hok ⊢
      obtain ⟨hseq, hcase⟩ := loopStep_ok ci l a hs
      have ih := loopRun_perm ci as (loopStep ci l a).1 hok
      refine ih.trans ?_
      rw [mkRecs_cons, hseq]
      rcases hcase with ⟨hw, hb⟩ | ⟨hw, hb⟩
      · rw [hw, hb]; simp
      · rw [hw, hb]
        have := isort_perm keyLe l.st.buf
        simp only [List.append_assoc, List.singleton_append]
        exact List.Perm.append_left _ (List.Perm.append_right _ this)
    · simp only [hs] at hok
      simp at hok

theorem mem_mkRecs (ci : Bool) : ∀ (as : List Arrival) (n : Nat) (y : SRec), y ∈ mkRecs ci n as →
    ∃ b ∈ as, y.path = b.path ∧ y.key.turn = b.turn ∧ y.key.slice = b.slice ∧
      y.key.ord = stageOrdOf (basename b.path) ∧ n < y.key.seq
  | [], _, _, h => by simp [mkRecs] at h
  | a :: as, n, y, h => by
    rw [mkRecs_cons, List.mem_cons] at h
    rcases h with rfl | h
    · exact ⟨a, List.mem_cons_self, rfl, rfl, rfl, rfl, Nat.lt_succ_self n⟩
    · obtain ⟨b, hb, h1, h2, h3, h4, h5⟩ := mem_mkRecs ci as (n + 1) y h
      exact ⟨b, List.mem_cons_of_mem _ hb, h1, h2, h3, h4, by omega⟩

theorem keyLt_of (x y : SRec)
    (ht : (if x.key.turn < y.key.turn then true else if y.key.turn < x.key.turn then false
            else decide (x.key.slice ≤ y.key.slice)) = true)
    (ho : x.key.ord = y.key.ord) (hs : x.key.seq < y.key.seq) : keyLt x y := by
  unfold keyLt keyLe
  by_cases a1 : x.key.turn < y.key.turn
  · have : ¬ y.key.turn < x.key.turn := by omega
    simp [a1, this]
  · by_cases a2 : y.key.turn < x.key.turn
    · simp [a1, a2] at ht
    · simp only [a1, a2, if_false, decide_eq_true_eq] at ht
      have o1 : ¬ x.key.ord < y.key.ord := by omega
      have o2 : ¬ y.key.ord < x.key.ord := by omega
      have q2 : ¬ y.key.seq < x.key.seq := by omega
      by_cases a3 : x.key.slice < y.key.slice
      · have : ¬ y.key.slice < x.key.slice := by omega
        simp [a1, a2, o1, o2, a3, this]
      · have a4 : ¬ y.key.slice < x.key.slice := by omega
        simp [a1, a2, o1, o2, a3, a4, hs, q2]

/-- key-monotone arrivals per file ⇒ the staged records of each file are strictly ordered. -/
theorem mkRecs_pairwise (ci : Bool) : ∀ (as : List Arrival) (n : Nat), monoPerFileB as = true →
    (mkRecs ci n as).Pairwise (fun x y => x.path = y.path → keyLt x y)
  | [], _, _ => by simp [mkRecs]
  | a :: as, n, h => by
    simp only [monoPerFileB, Bool.and_eq_true, List.all_eq_true] at h
    rw [mkRecs_cons, List.pairwise_cons]
    refine ⟨fun y hy hpath => ?_, mkRecs_pairwise ci as (n + 1) h.2⟩
    obtain ⟨b, hb, h1, h2, h3, h4, h5⟩ := mem_mkRecs ci as (n + 1) y hy
    have hab : a.path = b.path := by
      have : (recOf ci n a).path = a.path := rfl
      rw [← this, hpath, h1]
    have ht := h.1 b hb
    simp only [hab, beq_self_eq_true, Bool.not_true, Bool.false_or] at ht
    apply keyLt_of
    · simp only [tsLe] at ht
      rw [h2, h3]; exact ht
    · rw [h4, ← hab]; rfl
    · show n + 1 < y.key.seq
      exact h5

theorem fileSeq_pairwise_of_mono (ci : Bool) (p : Str) (as : List Arrival) (n : Nat)
    (h : monoPerFileB as = true) : (fileSeq p (mkRecs ci n as)).Pairwise keyLt := by
  have h1 := (mkRecs_pairwise ci as n h).filter (fun r => r.path == p)
  refine List.Pairwise.imp_of_mem ?_ h1
  intro x y hx hy hxy
  have ex : x.path = p := by simpa using (List.mem_filter.mp hx).2
  have ey : y.path = p := by simpa using (List.mem_filter.mp hy).2
  exact hxy (ex.trans ey.symm)

/-- Structure of what the loop writes, for ANY arrivals and limit: the written sequence is a
concatenation of key-sorted flushes whose underlying chunks, together with the current buffer,
partition the arrival sequence in arrival order. -/
theorem loopRun_chunks (ci : Bool) : ∀ (as : List Arrival) (l : Loop),
    (loopRun ci l as).2 = true →
    ∃ chunks : List (List SRec),
      (loopRun ci l as).1.written = l.written ++ (chunks.map (isort keyLe)).flatten ∧
      chunks.flatten ++ (loopRun ci l as).1.st.buf = l.st.buf ++ mkRecs ci l.st.seq as
  | [], l, _ => ⟨[], by simp [loopRun, mkRecs]⟩
  | a :: as, l, hok => by
    simp only [loopRun] at hok ⊢
    by_cases hs : (loopStep ci l a).2 = true
    · simp only [hs, if_true] at hok ⊢
      obtain ⟨hseq, hcase⟩ := loopStep_ok ci l a hs
      obtain ⟨chunks, h1, h2⟩ := loopRun_chunks ci as (loopStep ci l a).1 hok
      rw [mkRecs_cons]
      rcases hcase with ⟨hw, hb⟩ | ⟨hw, hb⟩
      · refine ⟨chunks, by rw [h1, hw], ?_⟩
        rw [h2, hb, hseq]; simp
      · refine ⟨l.st.buf :: chunks, ?_, ?_⟩
        · rw [h1, hw]; simp
        · rw [List.flatten_cons, List.append_assoc, h2, hb, hseq]; simp
    · simp only [hs] at hok
      simp at hok

end Clem.LogStager
