import Clem.Proofs.T1Hist

/-!
The rule monitor `traceRuleOk` (evaluated by the driver on the heap trace of the REAL run) holds on the
heap trace of every model run — so the Boolean the driver evaluates on the implementation is a
consequence of the proved history invariant.  Needs only reflexivity of the carrier's representation
equality `eqb` (bit equality for `Float`).
-/

namespace Clem.T1
open Num

variable {α : Type} [Num α]
set_option linter.unusedSectionVars false
set_option linter.unusedSimpArgs false

def curAfter (s : Option (Nat × α)) : List (Bool × Nat × α) → Option (Nat × α)
  | [] => s
  | (true, u, w) :: r => curAfter (some (u, w)) r
  | (false, _, _) :: r => curAfter s r

theorem curAfter_append (s : Option (Nat × α)) (l m : List (Bool × Nat × α)) :
    curAfter s (l ++ m) = curAfter (curAfter s l) m := by
  induction l generalizing s with
  | nil => rfl
  | cons a l ih =>
    obtain ⟨b, u, w⟩ := a
    cases b <;> simp [curAfter, ih]

theorem traceRuleOk_append (c : Cfg α) (g : Graph α) (s : Option (Nat × α))
    (l m : List (Bool × Nat × α)) :
    traceRuleOk c g s (l ++ m) = (traceRuleOk c g s l && traceRuleOk c g (curAfter s l) m) := by
  induction l generalizing s with
  | nil => simp [traceRuleOk, curAfter]
  | cons a l ih =>
    obtain ⟨b, u, w⟩ := a
    cases b
    · cases s with
      | none => simp [traceRuleOk, curAfter, ih]
      | some p =>
        obtain ⟨pu, pw⟩ := p
        simp [traceRuleOk, curAfter, ih, Bool.and_assoc]
    · simp [traceRuleOk, curAfter, ih]

theorem curAfter_heapTrace (evs : List (Ev α)) :
    curAfter none (heapTraceOf evs) = lastPop evs := by
  unfold heapTraceOf
  induction evs with
  | nil => rfl
  | cons e r ih =>
    rw [List.reverse_cons, List.filterMap_append, curAfter_append, ih]
    cases e <;> rfl

theorem pushRuleOk_of_rule (hrefl : ∀ a : α, eqb a a = true) (c : Cfg α) (g : Graph α) (l : LogE α)
    (h : RuleOK c g l) : pushRuleOk c g l.src l.w l.dst l.contrib = true := by
  obtain ⟨hc, hdec, hm, ⟨e, he, hs, hd, hw, hr⟩, hdd, hrad, hlay, heps⟩ := h
  unfold pushRuleOk
  simp only [Bool.and_eq_true, Bool.not_eq_true', List.any_eq_true]
  refine ⟨heps, e, ?_, ?_, ?_⟩
  · simp [outEdges, he, hs]
  · simp [hd]
  · refine ⟨l.dsrc, ?_, ?_⟩
    · rw [List.mem_range]
      rw [hdd] at hrad hlay
      unfold imin
      split <;> omega
    · rw [← hdd, hdec]
      simp only
      rw [hw, hr, ← hm, ← hc]
      exact hrefl _

theorem traceRuleOk_model (hrefl : ∀ a : α, eqb a a = true) (c : Cfg α) (g : Graph α)
    (seeds : List Nat) :
    ∀ (evs : List (Ev α)), EvsOK c g seeds evs → traceRuleOk c g none (heapTraceOf evs) = true := by
  intro evs
  induction evs with
  | nil => intro _; rfl
  | cons e r ih =>
    intro hok
    have ihr := ih hok.2
    have hcur := curAfter_heapTrace r
    unfold heapTraceOf at ihr hcur ⊢
    rw [List.reverse_cons, List.filterMap_append, traceRuleOk_append, ihr, hcur]
    simp only [Bool.true_and]
    cases e with
    | pop u w => rfl
    | push v x a =>
      obtain ⟨_, _, l, r', hr, hd, hx⟩ := hok.1
      have hrel : EvOK c g seeds (Ev.relax l) r' := by
        have := hok.2
        rw [hr] at this
        exact this.1
      have hlp : lastPop r = some (l.src, l.w) := by
        rw [hr]; simp only [lastPop]; exact hrel.2.2
      rw [hlp]
      simp only [List.filterMap_cons, projEv, List.filterMap_nil, traceRuleOk, Bool.and_true]
      rw [← hd, ← hx]
      exact pushRuleOk_of_rule hrefl c g l hrel.1
    | seed _ => rfl
    | visitedSkip _ => rfl
    | layerStop _ => rfl
    | nodeHitPop _ _ => rfl
    | expand _ _ => rfl
    | radiusSkip _ _ _ => rfl
    | layerSkip _ _ _ => rfl
    | epsSkip _ _ _ _ => rfl
    | relax _ => rfl
    | nodeHitPush _ _ => rfl
    | dedupHit _ => rfl

end Clem.T1
