/-
Model of `clematis/engine/util/snapshot_delta.py` (path-based delta codec, with the proposed
repair `proposed_fixes/C07_delta_paths_and_strict_leaves.diff` applied: path segments are escaped,
`""` is a path, leaves are compared by type and value) and of the file-level logic of
`write_snapshot_auto` / `read_snapshot` / the delta branch of `load_latest_snapshot`
(`clematis/engine/snapshot.py`).

Conventions: strings are code-point lists; a Python dict is an association list (`Clem.Py.J`).
Iteration order of the three loops of `_walk_diff` only influences the insertion order of the
`_adds` / `_mods` dicts, which no consumer can observe (`apply_delta` iterates `sorted(keys)`, files
are written with `sort_keys=True`, Python `==` ignores it): the first two loops are modelled in
sorted order as written, the third one runs over `base` in insertion order.  `_dels` is sorted.
-/
import Clem.Py.Json
import Clem.Py.Sort

namespace Clem.Delta
open Clem.Py Clem.Py.J

def DOT : Nat := 46
def BS : Nat := 92

/-- `p.replace("\\", "\\\\").replace(".", "\\.")` -/
def esc : Str → Str
  | [] => []
  | c :: cs => if c = BS ∨ c = DOT then BS :: c :: esc cs else c :: esc cs

/-- `_join_path`: `".".join(esc(p) for p in parts)` -/
def joinPath : List Str → Str
  | [] => []
  | [s] => esc s
  | s :: t :: rest => esc s ++ DOT :: joinPath (t :: rest)

def consHead (c : Nat) : List Str → List Str
  | [] => [[c]]
  | s :: ss => (c :: s) :: ss

/-- `_split_path`: the `while` loop with its buffer, written as a right-to-left recursion.
    Always returns at least one segment (`""` ↦ `[""]`). -/
def splitPath : Str → List Str
  | [] => [[]]
  | [c] => if c = DOT then [[], []] else [[c]]
  | c :: d :: ds =>
      if c = BS ∧ (d = BS ∨ d = DOT) then consHead d (splitPath ds)
      else if c = DOT then [] :: splitPath (d :: ds)
      else consHead c (splitPath (d :: ds))

/-- `_same_value`: strict JSON equality (NaN differs from itself, as `nan == nan` is False). -/
abbrev same (a b : J) : Bool := eqvG false a b

/-- one entry of the three containers `adds` / `mods` / `dels` of `_walk_diff`. -/
inductive Item
  | add (p : Str) (v : J)
  | mod (p : Str) (v : J)
  | del (p : Str)
  deriving Repr

def keyLe (a b : Str × J) : Bool := lexLe a.1 b.1

/-- first two loops of `_walk_diff` at one level: deletions then additions, sorted by key. -/
def levelItems (pre : List Str) (be ce : List (Str × J)) : List Item :=
  (isort lexLe ((keys be).filter (fun k => !hasKey k ce))).map
      (fun k => Item.del (joinPath (pre ++ [k])))
  ++ (isort keyLe (ce.filter (fun e => !hasKey e.1 be))).map
      (fun e => Item.add (joinPath (pre ++ [e.1])) e.2)

mutual
/-- third loop of `_walk_diff` (keys in both), over the remaining entries of `base`. -/
def walkC (pre : List Str) : List (Str × J) → List (Str × J) → List Item
  | [], _ => []
  | (k, bv) :: bs, ce =>
      (match lookup k ce with
       | none => []
       | some cv => walkV (pre ++ [k]) bv cv) ++ walkC pre bs ce
/-- body of the third loop for one key whose path is `path`. -/
def walkV (path : List Str) : J → J → List Item
  | .obj be, .obj ce => levelItems path be ce ++ walkC path be ce
  | bv, cv => if same bv cv then [] else [Item.mod (joinPath path) cv]
end

/-- `_walk_diff(base, curr, prefix)` on dict entries. -/
def walkO (pre : List Str) (be ce : List (Str × J)) : List Item :=
  levelItems pre be ce ++ walkC pre be ce

structure Delta where
  adds : List (Str × J)
  mods : List (Str × J)
  dels : List Str
  deriving Repr

def addsOf : List Item → List (Str × J)
  | [] => []
  | .add p v :: l => (p, v) :: addsOf l
  | _ :: l => addsOf l
def modsOf : List Item → List (Str × J)
  | [] => []
  | .mod p v :: l => (p, v) :: modsOf l
  | _ :: l => modsOf l
def delsOf : List Item → List Str
  | [] => []
  | .del p :: l => p :: delsOf l
  | _ :: l => delsOf l

/-- `compute_delta(base, curr)`; `x or {}` and the `_is_mapping` guards turn every non-dict into `{}`. -/
def computeDelta (base cur : J) : Delta :=
  let l := walkO [] (entries base) (entries cur)
  ⟨addsOf l, modsOf l, isort lexLe (delsOf l)⟩

def asEntries : Option J → List (Str × J)
  | some (.obj es) => es
  | _ => []

/-- `_set_path` on already split keys. -/
def setSegs : List Str → J → List (Str × J) → List (Str × J)
  | [], _, e => e
  | [k], v, e => dset k v e
  | k :: k2 :: rest, v, e => dset k (.obj (setSegs (k2 :: rest) v (asEntries (lookup k e)))) e

/-- `_del_path` on already split keys. -/
def delSegs : List Str → List (Str × J) → List (Str × J)
  | [], e => e
  | [k], e => derase k e
  | k :: k2 :: rest, e =>
      match lookup k e with
      | some (.obj ne) => dset k (.obj (delSegs (k2 :: rest) ne)) e
      | _ => e

def setPath (p : Str) (v : J) (e : List (Str × J)) := setSegs (splitPath p) v e
def delPath (p : Str) (e : List (Str × J)) := delSegs (splitPath p) e

/-- `apply_delta(base, delta)` for a dict (or falsy) base. -/
def applyDelta (base : J) (d : Delta) : List (Str × J) :=
  let o0 := entries base
  let o1 := (isort keyLe d.adds).foldl (fun o e => setPath e.1 e.2 o) o0
  let o2 := (isort keyLe d.mods).foldl (fun o e => setPath e.1 e.2 o) o1
  (isort lexLe d.dels).foldl (fun o p => delPath p o) o2

/-! ### wire form of a delta (`{"_adds":…, "_mods":…, "_dels":[…]}`) -/

def sADDS : Str := [95, 97, 100, 100, 115]
def sMODS : Str := [95, 109, 111, 100, 115]
def sDELS : Str := [95, 100, 101, 108, 115]

def Delta.toJ (d : Delta) : J :=
  .obj [(sADDS, .obj d.adds), (sMODS, .obj d.mods), (sDELS, .arr (d.dels.map .str))]

def strsOf : List J → List Str
  | [] => []
  | .str s :: xs => s :: strsOf xs
  | _ :: xs => strsOf xs

/-- `delta.get("_adds", {}) or {}` etc. (absent / null / empty are all empty). -/
def Delta.ofJ (j : J) : Delta :=
  let es := entries j
  ⟨asEntries (lookup sADDS es), asEntries (lookup sMODS es),
   match lookup sDELS es with
   | some (.arr xs) => strsOf xs
   | _ => []⟩

/-! ### file level: `write_snapshot_auto` / `read_snapshot` over an abstract directory

A directory maps a file stem (`snapshot-<etag>.full` / `snapshot-<etag>.delta`, resolved by
`_find_snapshot_file`) to: missing, unreadable (parse error ⇒ the Python raises), or a parsed
`(header, payload)`.  `json.loads ∘ json.dumps = id` is assumed (trusted base). -/

inductive FileSt
  | missing
  | corrupt
  | ok (deltaOf : Option Str) (isDelta : Bool) (payload : J)
  deriving Repr

inductive Stem
  | full (etag : Str)
  | delta (etag : Str)
  deriving DecidableEq, Repr

abbrev Dir := Stem → FileSt

def Dir.put (d : Dir) (s : Stem) (f : FileSt) : Dir := fun t => if t = s then f else d t

inductive Mode | full | delta
  deriving DecidableEq, Repr

/-- `x or {}` -/
def orEmpty (j : J) : J := if truthy j then j else .obj []

/-- `write_snapshot_auto(dir, etag_from, etag_to, payload, delta_mode)`:
    `none` = the call raised (unreadable baseline). -/
def writeAuto (d : Dir) (etagFrom : Option Str) (etagTo : Str) (payload : J) (deltaMode : Bool) :
    Option (Dir × Mode) :=
  let fullW := some (d.put (.full etagTo) (.ok none false payload), Mode.full)
  match deltaMode, etagFrom with
  | true, some ef =>
      if ef.isEmpty then fullW else
      match d (.full ef) with
      | .missing => fullW
      | .corrupt => none
      | .ok _ _ bp =>
          some (d.put (.delta etagTo)
            (.ok (some ef) true (computeDelta (orEmpty bp) payload).toJ), Mode.delta)
  | _, _ => fullW

inductive ReadRes
  | raised
  | payload (p : J)
  deriving Repr

def readFull (d : Dir) (etag : Str) : ReadRes :=
  match d (.full etag) with
  | .missing => .payload (.obj [])
  | .corrupt => .raised
  | .ok _ _ p => .payload (orEmpty p)

/-- `read_snapshot(root, etag_to=…)` (the etag branch; `baseline_dir` = `root`). -/
def readSnapshot (d : Dir) (etagTo : Str) : ReadRes :=
  match d (.delta etagTo) with
  | .corrupt => .raised
  | .missing => readFull d etagTo
  | .ok deltaOf _ dp =>
      match deltaOf with
      | none => readFull d etagTo
      | some ef =>
          if ef.isEmpty then readFull d etagTo else
          match d (.full ef) with
          | .missing => readFull d etagTo
          | .corrupt => .raised
          | .ok _ _ bp => .payload (.obj (applyDelta (orEmpty bp) (Delta.ofJ (orEmpty dp))))

/-- `read_snapshot(path=…)` on the file of stem `s` (a delta file written by `write_snapshot_auto`
    carries `etag_to` = the etag of its stem). -/
def readPath (d : Dir) (s : Stem) : ReadRes :=
  match d s with
  | .missing => .raised
  | .corrupt => .raised
  | .ok deltaOf isDelta p =>
      if isDelta then
        match (match deltaOf with | some ef => d (.full ef) | none => .missing) with
        | .ok _ _ bp => .payload (.obj (applyDelta (orEmpty bp) (Delta.ofJ (orEmpty p))))
        | .corrupt => .raised
        | .missing =>
            match s with
            | .delta et => readFull d et
            | .full et => readFull d et
      else .payload (orEmpty p)

/-- what the delta branch of `load_latest_snapshot` (with
    `proposed_fixes/C07_load_latest_missing_baseline.diff`) hands to the loader when the picked
    file is the delta file of `et`. -/
inductive LoadSrc
  | reconstructed (p : J)
  | sibling (p : J)
  | notLoaded
  deriving Repr

def loadLatestDelta (d : Dir) (et : Str) : LoadSrc :=
  match d (.delta et) with
  | .ok (some ef) true dp =>
      (match d (.full ef) with
       | .ok _ _ bp => .reconstructed (.obj (applyDelta (orEmpty bp) (Delta.ofJ (orEmpty dp))))
       | .corrupt => .notLoaded
       | .missing =>
           if et.isEmpty then .notLoaded else
           match d (.full et) with
           | .ok _ _ p => .sibling p
           | _ => .notLoaded)
  | _ => .notLoaded

end Clem.Delta
