/-
Model of `clematis/engine/policy/sanitize.py`: `_strip_triple_fences`, `parse_and_validate`, `_coerce_bool`.

`json.loads` is an oracle `parse : Str → Option J` (`none` ⇔ it raises); whether the call sits inside
`try … except Exception` is read from the regenerated table (`Gen.T3Consts.jsonLoadsGuarded`), so the model has
a `raised` outcome that the totality theorem must exclude.  All limits and key/word tuples come from
`Clem.Gen.T3Consts` (regenerated from the source on every check).  Strings are code-point lists; `len` is the
number of code points; `.lower()` is ASCII lower-casing (the harness checks on every run that no non-ASCII
code point lower-cases into a letter of the accepted words).
-/
import Clem.Model.T3
import Clem.Gen.T3Consts

namespace Clem.Sanitize

open Clem.T3 (Str strip isSpace startsWith)
open Clem.Gen.T3Consts

/-- a parsed JSON value as `json.loads` returns it (dict keys are unique strings; floats carry no payload:
the validator only looks at the type). -/
inductive J
  | null
  | bool (b : Bool)
  | int (i : Int)
  | float
  | str (s : Str)
  | arr (l : List J)
  | obj (kvs : List (Str × J))
deriving Repr, Inhabited

inductive Reason
  | nonString | rawTooLarge | badFence | blockTooLarge | nonJson | notObject
  | missingKey (k : Str) | unknownKey (k : Str) | planNotArray | planTooLong | planItem | rationale | reflection
deriving DecidableEq, Repr

structure Accepted where
  plan : List Str
  rationale : Str
  reflection : Bool
deriving DecidableEq, Repr

inductive Res
  | ok (a : Accepted)
  | rejected (r : Reason)
  | raised
deriving DecidableEq, Repr

def kPlan : Str := [112, 108, 97, 110]
def kRationale : Str := [114, 97, 116, 105, 111, 110, 97, 108, 101]
def kReflection : Str := [114, 101, 102, 108, 101, 99, 116, 105, 111, 110]

def lowerAscii (s : Str) : Str := s.map (fun c => if 65 ≤ c ∧ c ≤ 90 then c + 32 else c)

def endsWith (s p : Str) : Bool := startsWith s.reverse p.reverse

/-- `s.find("\n")` -/
def findNl : Str → Option Nat
  | [] => none
  | c :: cs => if c == 10 then some 0 else (findNl cs).map (· + 1)

def fence : Str := [96, 96, 96]

/-- `_strip_triple_fences(s)` → `(candidate, lang)` -/
def stripFences (s0 : Str) : Str × Option Str :=
  let s := strip s0
  if startsWith s fence && endsWith s fence then
    match findNl s with
    | none => (s, none)
    | some i =>
      let lang := lowerAscii (strip ((s.take i).drop 3))
      let body := strip ((s.take (s.length - 3)).drop (i + 1))
      (if body.isEmpty then s else body, some lang)
  else (s, none)

/-- `lang not in (None, "", "json", "jsonc")` negated -/
def langOk : Option Str → Bool
  | none => fenceLangNoneAllowed
  | some l => fenceLangs.contains l

def hasKey (k : Str) (kvs : List (Str × J)) : Bool := kvs.any (fun kv => kv.1 == k)

/-- a plan item is rejected when it is not a string, empty, blank, or too long -/
def itemBad : J → Bool
  | .str x => x.length == 0 || (strip x).length == 0 || decide (x.length > PLAN_ITEM_MAX_LEN)
  | _ => true

def strOf : J → Str
  | .str s => s
  | _ => []

/-- `_coerce_bool(v)` (`none` ⇔ `(False, None)`) -/
def coerceBool : J → Option Bool
  | .bool b => some b
  | .int i => if i == 0 then some false else if i == 1 then some true else none
  | .str v =>
    let s := lowerAscii (strip v)
    if trueWords.contains s then some true else if falseWords.contains s then some false else none
  | _ => none

def checkReflection (items : List J) (r : Str) : Option J → Res
  | none => .ok ⟨items.map strOf, r, false⟩
  | some v =>
    match coerceBool v with
    | some b => .ok ⟨items.map strOf, r, b⟩
    | none => .rejected .reflection

def checkRationale (items : List J) (refl : Option J) : J → Res
  | .str r =>
    if r.length == 0 || decide (r.length > RATIONALE_MAX_LEN) then .rejected .rationale
    else checkReflection items r refl
  | _ => .rejected .rationale

def checkPlan (rat : J) (refl : Option J) : J → Res
  | .arr items =>
    if items.length > PLAN_MAX_ITEMS then .rejected .planTooLong
    else if items.any itemBad then .rejected .planItem
    else checkRationale items refl rat
  | _ => .rejected .planNotArray

def validateObj (kvs : List (Str × J)) : Res :=
  match requiredKeys.find? (fun k => !hasKey k kvs) with
  | some k => .rejected (.missingKey k)
  | none =>
    match kvs.find? (fun kv => !allowedKeys.contains kv.1) with
    | some kv => .rejected (.unknownKey kv.1)
    | none =>
      match kvs.lookup kPlan, kvs.lookup kRationale with
      | some plan, some rat => checkPlan rat (kvs.lookup kReflection) plan
      | _, _ => .raised  -- `obj["plan"]` / `obj["rationale"]` would be a KeyError

/-- the post-parse validator -/
def validate : J → Res
  | .obj kvs => validateObj kvs
  | _ => .rejected .notObject

/-- outcome of a failing `json.loads`: a rejection when the call is guarded, otherwise the exception escapes -/
def onParseError : Res := if jsonLoadsGuarded then .rejected .nonJson else .raised

/-- `parse_and_validate(text, schema)`; `text = none` ⇔ not a `str`. -/
def parseAndValidate (parse : Str → Option J) : Option Str → Res
  | none => .rejected .nonString
  | some t =>
    if t.length > MAX_RAW_LEN then .rejected .rawTooLarge
    else
      let r := stripFences t
      if !langOk r.2 then .rejected .badFence
      else if r.1.length > MAX_RAW_LEN then .rejected .blockTooLarge
      else match parse r.1 with
        | none => onParseError
        | some j => validate j

/-! ### monitors -/

def itemWithin : J → Bool
  | .str x => decide (0 < (strip x).length) && decide (x.length ≤ PLAN_ITEM_MAX_LEN)
  | _ => false

def boolLike (v : J) : Bool := (coerceBool v).isSome

/-- what the statement allows to be accepted: a single JSON object with only the documented keys, both
required keys, and every field within the documented limits. -/
def acceptable : J → Bool
  | .obj kvs =>
    kvs.all (fun kv => allowedKeys.contains kv.1) &&
    (match kvs.lookup kPlan with
     | some (.arr items) => decide (items.length ≤ PLAN_MAX_ITEMS) && items.all itemWithin
     | _ => false) &&
    (match kvs.lookup kRationale with
     | some (.str r) => decide (0 < r.length) && decide (r.length ≤ RATIONALE_MAX_LEN)
     | _ => false) &&
    (match kvs.lookup kReflection with
     | none => true
     | some v => boolLike v)
  | _ => false

/-- the normalised object returned on acceptance is itself within the limits -/
def acceptedWithin (a : Accepted) : Bool :=
  decide (a.plan.length ≤ PLAN_MAX_ITEMS) &&
  a.plan.all (fun x => decide (0 < (strip x).length) && decide (x.length ≤ PLAN_ITEM_MAX_LEN)) &&
  decide (0 < a.rationale.length) && decide (a.rationale.length ≤ RATIONALE_MAX_LEN)

end Clem.Sanitize
