/-
`Quality` — control skeleton of `clematis/engine/stages/t2/quality.py:apply_quality`
(hybrid rerank → fusion (+MMR) → MMR fallback → shadow trace), every layer a parameter returning `Except`,
every `try/except` as written (after proposed fix `C20_mmr_failure_keeps_fusion`: MMR inside the fusion
block has its own `try`, so a failing MMR keeps the fused order AND `q_fusion_used`; before the fix the flag and
the fusion metrics were dropped while the fused order stayed — see corpus/C20).  Items are ids (`Nat`), assumed distinct.  Import-free apart from the
generated guard table.
-/
import Clem.Gen.FailSoft

namespace Clem.Quality
open Clem.Gen.FailSoft

abbrev Exc := Nat

inductive QSite where
  | rerank | fuse | mmr | mmrFallback | cfgSnap | trace
  deriving DecidableEq, Repr

def QSite.callee : QSite → Callee
  | .rerank => .rerank_with_gel
  | .fuse => .quality_fuse
  | .mmr => .quality_mmr
  | .mmrFallback => .quality_mmr_fallback
  | .cfgSnap => .quality_cfg_snapshot
  | .trace => .emit_quality_trace

/-- guard status in the CURRENT source -/
def qGuardOf (s : QSite) : Bool := guardedAll .apply_quality s.callee

def allQSites : List QSite := [.rerank, .fuse, .mmr, .mmrFallback, .cfgSnap, .trace]

structure QCfg where
  hybridOn : Bool      -- t2.hybrid.enabled
  qualityOn : Bool     -- t2.quality.enabled
  mmrOn : Bool         -- t2.quality.mmr.enabled
  traceGate : Bool     -- perf.enabled ∧ perf.metrics.report_memory ∧ quality.shadow ∧ ¬quality.enabled
  deriving DecidableEq, Repr

structure QEnv where
  rerank : List Nat → Except Exc (List Nat × Bool)
  fuse : List Nat → Except Exc (List Nat)
  mmr : List Nat → Except Exc (List Nat)
  mmrFallback : List Nat → Except Exc (List Nat)
  cfgSnap : Except Exc Unit
  trace : Except Exc Unit

structure QOut where
  retrieved : List Nat
  hybridUsed : Bool
  fusionUsed : Bool
  mmrUsed : Bool
  mmrN : Nat
  deriving DecidableEq, Repr

/-- `[id_to_ref[i] for i in ids if i in id_to_ref]` -/
def pick (ids : List Nat) (refs : List Nat) : List Nat := ids.filter (fun i => refs.contains i)

def orElse (l d : List Nat) : List Nat := if l.isEmpty then d else l

/-- layer 1: hybrid rerank -/
def hybridStep (g : QSite → Bool) (c : QCfg) (e : QEnv) (r : List Nat) : Except Exc (List Nat × Bool) :=
  if c.hybridOn then
    match e.rerank r with
    | .ok p => .ok p
    | .error x => if g .rerank then .ok (r, false) else .error x
  else .ok (r, false)

/-- layer 2: the fusion/MMR `try` block: (retrieved, fusionUsed, mmrUsed, mmrN) -/
def fusionStep (g : QSite → Bool) (c : QCfg) (e : QEnv) (r : List Nat) : Except Exc (List Nat × Bool × Bool × Nat) :=
  if c.qualityOn then
    match e.fuse r with
    | .error x => if g .fuse then .ok (r, false, false, 0) else .error x
    | .ok fused =>
      let newOrder := pick fused r
      let r2 := orElse newOrder r
      let fu := !newOrder.isEmpty
      if c.mmrOn then
        match e.mmr fused with
        | .error x => if g .mmr then .ok (r2, fu, false, 0) else .error x   -- inner `try`: fusion result kept
        | .ok mm =>
          let mo := pick mm r2
          .ok (orElse mo r2, fu, true, mo.length)
      else .ok (r2, fu, false, 0)
  else .ok (r, false, false, 0)

/-- layer 3: MMR fallback (runs whenever MMR did not run in layer 2 and `mmr.enabled`) -/
def fallbackStep (g : QSite → Bool) (c : QCfg) (e : QEnv) (r : List Nat) (mmrUsed : Bool) (n : Nat) :
    Except Exc (List Nat × Bool × Nat) :=
  if !mmrUsed && c.mmrOn then
    match e.mmrFallback r with
    | .error x => if g .mmrFallback then .ok (r, mmrUsed, n) else .error x
    | .ok mm =>
      let mo := pick mm r
      .ok (orElse mo r, true, mo.length)
  else .ok (r, mmrUsed, n)

/-- layer 4: shadow trace (one `try` around config snapshot + emit) -/
def traceStep (g : QSite → Bool) (c : QCfg) (e : QEnv) : Except Exc Unit :=
  if c.traceGate then
    match e.cfgSnap with
    | .error x => if g .cfgSnap then .ok () else .error x
    | .ok _ =>
      match e.trace with
      | .error x => if g .trace then .ok () else .error x
      | .ok _ => .ok ()
  else .ok ()

def applyQuality (g : QSite → Bool) (c : QCfg) (e : QEnv) (r : List Nat) : Except Exc QOut :=
  match hybridStep g c e r with
  | .error x => .error x
  | .ok (r1, hu) =>
    match fusionStep g c e r1 with
    | .error x => .error x
    | .ok (r2, fu, mu, n) =>
      match fallbackStep g c e r2 mu n with
      | .error x => .error x
      | .ok (r3, mu', n') =>
        match traceStep g c e with
        | .error x => .error x
        | .ok _ => .ok ⟨r3, hu, fu, mu', n'⟩

/-- `r` is the successful outcome `o` (decidable form, for monitors and examples) -/
def okIs (r : Except Exc QOut) (o : QOut) : Bool :=
  match r with
  | .ok o' => decide (o' = o)
  | .error _ => false

end Clem.Quality
