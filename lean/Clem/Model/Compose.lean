/-
COMPOSITION of the stage models into one executable model of a whole turn, tied to the real
`clematis/engine/orchestrator/core.py:Orchestrator.run_turn` (property C01: a turn is a FUNCTION of
(world, config, turn list, logical clock); strengthens C03/C04/C11/C12/C13).

    T1 (Clem.T1.t1) → query build (stages/t2/state.py:gather_changed_labels + t2/core.py) →
    T2 (Clem.T2.t2, cosine / centroid scores are oracle tables keyed by the query text) →
    numpy statistics of the t2 record (sim_stats / score_stats) →
    plan bundle (stages/t3/bundle.py) → T3 deliberate (Clem.T3.deliberate) → planner hook
    (`clematis.engine.orchestrator.t3_deliberate`) → rag_once (Clem.T3.ragOnce; the second retrieval is a
    second full T2 call) → speak (default template) + `_sanitize_utterance` strip →
    plan → T4 input (`_get_plan_ops`, `_get_plan_deltas`, `_get_turn`, `_get_last_turn_map`) →
    T4 (Clem.T4.t4) → apply_changes (Clem.Apply.apply) on the store double → final line.

Import-free (apart from the stage models) and generic in the number carrier `α`: the driver executes it at
`Float`; the theorems of `Clem/Props/C01/Compose.lean` are about exactly these definitions.

GLUE FACTS of the code as written (all mirrored here, all exercised by `harness/lib/compose_comp.py`):
* T1's `graph_deltas` carry only `{"op","id"}` — the graph they came from is forgotten; `gather_changed_labels`
  looks every touched id up in EVERY active graph (a node id shared by two graphs contributes both labels).
* `extract_t1_touched_nodes` therefore sees no `delta` / `label` keys: every touched node enters the bundle with
  `delta = 0.0` and `label = id`; `labels_from_t1` is always `[]`.
* `_policy_thresholds` reads `bundle["cfg"]["t3"]["policy"]`.  On the pinned tree `cfg_snapshot` never filled it, so
  a real turn planned with the constants 0.8 / 0.4 / 0.10 whatever `t3.policy` of the (validated, shipped) config
  said — a failing input of the `link.plan` / `c13.plan` monitors, repaired by
  `proposed_fixes/C13_cfg_snapshot_passes_policy.diff`.  The model follows the REPAIRED code: `Cfg.tauHigh / tauLow /
  epsEdit` are the configured values (defaults when absent).  With the default `epsilon_edit = 0.10` the stock planner
  never emits an `EditGraph` op (|0.0| ≥ 0.10 is false); with `epsilon_edit ≤ 0` it lists every touched node.
* `t4_filter` reads `plan.deltas`; nothing in the engine ever fills it (`ProposedDelta` is only constructed inside
  `t4.py`): with the stock planner T4 always receives `[]`.  Deltas only arrive through the orchestrator's planner
  hook `t3_deliberate`; they are an INPUT of the turn here (`TurnIn.hookDeltas`, with `hookOps` appended ops).
* `rag_once` rebuilds the `Plan` without `deltas`: a refined plan loses the hook's deltas.
* `_retrieve_fn` ignores the payload's owner / k: the second retrieval is `t2_semantic(ctx, state, q, t1)` with
  `q = payload.query or input_text` (and T2 appends the T1 labels to it again).
* `apply_changes` always addresses graph `"g:surface"`; the version is bumped whatever the store did.

CACHES (all three may be ON): the T1 result cache across turns (`State.t1c`, key (graph, sorted seeds)), the
orchestrator's CacheManager around T2 (`State.orch`, key (version, input text, ctx-digest: `OrchCtx`), `cache_bust_mode` on-apply), and
the process-global T2 stage cache (transparent here, see `t2Stage`).  No TTL expiry / eviction inside a history.

GEL (graph.enabled): `observe_retrieval` on ALL hits T2 returned (after T2, skipped in a dry run), the decay tick
and the merge/split/promotion block inside `if t4_enabled:` after T4 and BEFORE Apply (`Clem.Gel`, C18's model;
`merge_candidates` / `split_candidates` are oracles as in C18), the store is `State.gel`.

REFLECTION TAIL (t3.allow_reflection + `state["_planner_reflection_flag"]`): C19's `Clem.Refl.tail` (repaired tail,
fresh ctx per turn, rule-based backend, no faults, logical clock) on the turn's utterance and the texts of the T2
hits (fallback: `ctx.turn_artifacts["t2_snippets"]` of the LAST `t2_semantic` call); the written episodes become
state (`State.mem`) and are visible to later retrievals under the owner literal `"agent"`.

SNAPSHOTS / BOOT / RESTART (`snapBody`, `bootOf`, `restartHist`: C06's `Clem.Snap`), SEVERAL AGENTS ON ONE STATE
(`runTurnsMA`), and THE LOG STREAM (`Clem/Model/ComposeLog.lean`: every record of every stream, emission order, key
order, `normalize_for_identity`).

REFINEMENT (`Props/C01/ComposeRefine.lean`): every stage output of `runTurn` IS the stand-alone stage model of its
package on the input the glue builds (`C01_compose_refines_stages`), so the theorems of C03 / C04 / C06 / C11 / C12 /
C13 / C17 / C18 / C19 hold for every turn of every history.  C15: the turn-level cache (an association list here)
REFINES `Clem.TtlLru.Ns` (`Props/C01/ComposeCacheRefine.lean`: same hits, same values, same contents after `get` /
`set`, as long as the looked-up entry is not expired and an insert finds room) — the "no expiry / no eviction"
assumption made precise.  NOT literally reused: C09's parallel fan-out models (`Clem.ParT1/ParT2`: a pure per-graph
parameter and natural-number counters; the composed worlds keep `perf.parallel` off) and C15's byte-bounded stage
caches (`LruBytes`: the T1 result cache is a list, the T2 stage cache is transparent).

WHAT IS INSIDE, WHAT IS A PARAMETER, WHAT IS NOT COVERED (status after step 9)

| part of `run_turn`                          | status                                                                  |
|---------------------------------------------|-------------------------------------------------------------------------|
| T1 propagation, budgets, result cache       | inside (`Clem.T1`)                                                      |
| query build (label bleed across graphs)     | inside                                                                  |
| T2 tiers / ranking / hybrid / fusion / MMR  | inside (`Clem.T2`); PARAMETERS (oracles measured on the real run):      |
|                                             | cosines, centroid cosines, BM25 scores, MMR token sets, ts parsing,     |
|                                             | quarter / cluster ids                                                   |
| numpy statistics of the t2 record           | inside (`npSum` / `npMax`: pairwise summation modelled)                 |
| plan bundle, `deliberate`, thresholds       | inside (`Clem.T3`); the planner hook's ops / deltas are turn INPUTS     |
| `rag_once` (second full T2 call)            | inside                                                                  |
| `speak`: default template, token budget     | inside (`Clem.T3.speak`); NOT covered: custom templates, style prefix,  |
|                                             | LLM backend, the rewrite rules of `_sanitize_utterance` (only `.strip`) |
| T4 filter                                   | inside (`Clem.T4`); `sqrt` and the literal 0.999999 are carrier ops     |
| `apply_changes`                             | inside (`Clem.Apply`) on the rig's store double (clamp to [-1, 1]);     |
|                                             | NOT covered here: store faults, snapshot write faults (C04 / C08)       |
| version bump, cache bust on apply           | inside (`Props/C01/ComposeCache.lean`)                                  |
| caches (T1 result, orchestrator turn-level) | inside as association lists; PARAMETER: no TTL expiry, no eviction      |
|                                             | within a history; the process-global T2 stage cache is transparent      |
| GEL observe / tick / merge-split-promotion  | inside (`Clem.Gel`); merge / split candidates are oracles               |
| scheduler slice budgets, yield decision     | inside (`Clem.Sched`) with the LOGICAL clock (measured elapsed = 0);    |
|                                             | NOT covered: next-agent pick / fairness across many agents (C17's own   |
|                                             | model), `pick_reason`, the driver-captured scheduler event              |
| reflection tail, memory index growth        | inside; sha256 episode ids and embeddings are oracles                   |
| snapshot body, boot hook, process restart   | inside (`Clem.Snap`); NOT covered: which of several `state_*.json` a    |
|                                             | boot picks (mtime), delta / compressed snapshots, `.meta` sidecar       |
| several agents on one state                 | inside (`runTurnsMA`); the turn-level cache key digests the agent       |
|                                             | (fix `C05_turn_key_context`): no sharing between agents, cache on or off|
| LOG RECORDS of t1 t2 gel scheduler t3       | inside since step 8 (`ComposeLog.lean`): payloads, key order, emission  |
| t3_plan t3_dialogue t4 apply t3_reflection  | order, CI normalisation; PARAMETER: the measured `ms*` values (`Clock`) |
| health turn                                 | and the printed constants (`LogEnv`); NOT covered: `t3_filter.jsonl`,   |
|                                             | quality / perf trace streams                                            |
| identity-log PATH below `append_jsonl`      | NOT covered (LogMux staging, rotation, framing: C16 / C20 models); the  |
|                                             | harness reads the lines `_append_jsonl_unbuffered` wrote                |
| perf / metrics gate, node `attrs.tags`,     | NOT covered (kept off)                                                  |
| `t3.enabled` env gate, wall-clock `now`     |                                                                         |
| a changing world (graphs / config)          | NOT covered: fixed during a history — `State` is what a history carries |
-/
import Clem.Model.T1
import Clem.Model.T2
import Clem.Model.T3
import Clem.Model.T4
import Clem.Model.Apply
import Clem.Model.Gel
import Clem.Model.Sched
import Clem.Model.Refl
import Clem.Model.Snap

namespace Clem.Compose

abbrev Str := List Nat

/-! ## world, configuration, turn input, oracles -/

structure CNode where
  id : Str
  /-- `[]` = `None` / empty (both falsy) -/
  label : Str
deriving Repr, DecidableEq, Inhabited

structure CEdge (α : Type) where
  src : Str
  dst : Str
  weight : α
  rel : Nat

/-- one active graph: nodes in `g.nodes.values()` order, edges in `g.edges.values()` order -/
structure CGraph (α : Type) where
  gid : Str
  nodes : List CNode
  edges : List (CEdge α)

/-- What does not change during a history (v1): the active graphs, the memory index (`cos` of each
episode is a placeholder, overwritten per query by the oracle), `state.meta.cooldowns`. -/
structure World (α : Type) where
  graphs : List (CGraph α)
  eps : List (Clem.T2.Ep α)
  last : List (Str × Option Int)
  agent : Str
  /-- `state["_planner_reflection_flag"]` (the stock planner's `Plan.reflection` is always false) -/
  reflFlag : Bool := false

/-- the `hybrid` block of the t2 metrics (`apply_quality` keeps the keys `rerank_with_gel` reported): absent,
`{"k_considered"}` (slice of one), or the full block with `k_reordered` and the effective `anchor_top_m` -/
inductive HInfo where
  | absent
  | kc (k : Int)
  | full (k : Int) (reordered : Nat) (anchorM : Int)
deriving DecidableEq, Repr, Inhabited

structure Cfg (α : Type) where
  t1 : Clem.T1.Cfg α
  /-- `str(t2.owner_scope).lower()` code (1 agent, 2 world, else any) — what T2 reads -/
  scope : Nat
  /-- `str(t2.owner_scope)` as the T3 bundle / `deliberate` see it (exact, case-sensitive match) -/
  ownerRaw : Clem.T3.Owner
  k : Int
  θ : α
  days : Int
  topM : Int
  tiers : List Nat
  alpha : α
  beta : α
  gamma : α
  residualCap : Int
  t3Enabled : Bool
  maxOps : Int
  tokens : Int
  maxRagLoops : Int
  tauHigh : α
  tauLow : α
  epsEdit : α
  t4Enabled : Bool
  capL2 : α
  capNov : α
  churn : Int
  cooldowns : List (Str × Int)
  every : Int
  sqrt : α → α
  thr : α
  /-- clamp range of the store double -/
  wmin : α
  wmax : α
  /-- `t2.cache.enabled` (process-global T2 stage cache; only echoed in the t2 record, see `t2Stage`) -/
  t2CacheOn : Bool
  /-- `t4.cache.enabled`: the orchestrator's CacheManager, namespace `t2:semantic`, key `(version, text)` -/
  orchCacheOn : Bool
  /-- `t4.cache_bust_mode == "on-apply"` -/
  bust : Bool
  /-- resolved `graph.*` settings (GEL; `gel.enabled` = `graph.enabled`) and Python's `**` for the decay factor -/
  gel : Clem.Gel.Cfg α
  pw : α → α → α
  /-- `graph.merge/split/promotion.enabled` and their `cap_per_turn` -/
  doMerge : Bool
  doSplit : Bool
  doPromo : Bool
  capMerge : Int
  capSplit : Int
  capPromo : Int
  /-- `t2.hybrid.*` (the `edges` field is ignored: the reranker reads the GEL store of the state) and
  `t2.quality.*` (the `lex` field is ignored: BM25 scores are an oracle per query) -/
  hyb : Clem.T2.HCfg α
  qual : Clem.T2.QCfg α
  /-- C06's float operations (`round(x, 6)` …), `str()/float()/int()` and the GEL clamp bounds / prune epsilon the
  snapshot writer and loader use (`_graph_bounds_from_cfg`) -/
  wops : Clem.Snap.WOps α
  cv : Clem.Snap.Cv α
  snapB : Clem.Snap.Bounds α
  /-- `t3.allow_reflection`, `t3.reflection.*`, `scheduler.budgets.ops_reflection / time_ms_reflection` (C19's `Cfg`) -/
  refl : Clem.Refl.Cfg
  /-- `scheduler.enabled`: `none` = off; `some b` = the slice budgets `_derive_budgets` produces (C17's `Budgets`) -/
  sched : Option Clem.Sched.Budgets

/-- Oracle answers for one query text: cosine of every episode (by position in `World.eps`) and the
centroid cosine per cluster id. -/
structure QOracle (α : Type) where
  q : Str
  cos : List α
  cscore : List (Str × α)
  /-- BM25 score per candidate id for this query (`quality_ops._bm25_scores`, oracle as in C11) -/
  lex : List (Str × α) := []

structure Oracles (α : Type) where
  queries : List (QOracle α)
  /-- `ctx.now` parsed to microseconds (the parse is an oracle of C11 as well) -/
  nowUs : Int
  /-- what `gel.merge_candidates` / `gel.split_candidates` answered this turn (oracles, as in C18) -/
  merges : List (Clem.Gel.MergeRec α)
  splits : List Clem.Gel.SplitRec
  /-- the episodes `write_reflection_entries` has added to the memory index before this turn, as C11 sees them (id =
  the sha256-based `_episode_id`, cluster, quarter, token set: functions of text / ts the model does not compute);
  aligned with `State.mem`; the cosine lists of `queries` run over the initial episodes followed by these -/
  memEps : List (Clem.T2.Ep α) := []

structure TurnIn (α : Type) where
  text : Str
  turnId : Int
  dryRun : Bool
  /-- `ctx.input_text or ctx.text or ""` (the rig's ctx has neither: `[]`) -/
  ctxText : Str
  /-- planner hook `t3_deliberate`: `none` = not installed (stock `deliberate`) -/
  hook : Bool
  hookOps : List Clem.T3.Op
  hookDeltas : List (Clem.T4.Delta α)
  /-- `int(getattr(ctx, "slice_idx", 0) or 0)` (the rig builds a fresh ctx per turn: 0) -/
  sliceIdxPrev : Int := 0
  /-- `ctx.agent_id` of this turn when the history alternates agents on one state (`none`: the world's agent) -/
  agent : Option Str := none

/-- What `_t2_turn_key_context` digests into the key of the orchestrator's turn-level T2 cache — as far as it can VARY
inside a history of the model's world (`ctx.now`, `cfg.t2`, `cfg.perf`, `k_surface`, the etags of the active graphs and
the slice cap `t2_k` are constant there): the turn's agent, the ids of T1's deltas, `index_version()` of the memory
index (reflection writes move it without moving `version_etag`), and — with hybrid reranking on — the GEL edges
(`none`: hybrid off; `some none`: `state.graph` does not exist yet). -/
structure OrchCtx (α : Type) where
  agent : Str
  ids : List Str
  indexVer : Nat
  gel : Option (Option (List (Clem.Gel.Edge α)))

/-- `key = (version_etag, str(input_text), ctx-digest)` -/
abbrev OrchKey (α : Type) := (Clem.Apply.Ver × Str) × OrchCtx α

/-- `repr` of two edge records agree (weights by Python `==`) -/
def edgeSame {α : Type} [Clem.Py.NumGel α] (a b : Clem.Gel.Edge α) : Bool :=
  a.key == b.key && a.src == b.src && a.dst == b.dst && Clem.Py.NumGel.eq a.w b.w && a.concept == b.concept &&
  a.coact == b.coact && decide (a.lst = b.lst)

/-- `sorted(edges.items())` agree: the same records, in whatever order the dict holds them -/
def edgesSame {α : Type} [Clem.Py.NumGel α] (a b : List (Clem.Gel.Edge α)) : Bool :=
  a.length == b.length && a.all (fun x => b.any (edgeSame x)) && b.all (fun x => a.any (edgeSame x))

def gelKeySame {α : Type} [Clem.Py.NumGel α] : Option (Option (List (Clem.Gel.Edge α))) →
    Option (Option (List (Clem.Gel.Edge α))) → Bool
  | none, none => true
  | some none, some none => true
  | some (some a), some (some b) => edgesSame a b
  | _, _ => false

/-- two keys digest to the same cache key -/
def okeyEq {α : Type} [Clem.Py.NumGel α] (a b : OrchKey α) : Bool :=
  a.1 == b.1 && a.2.agent == b.2.agent && a.2.ids == b.2.ids && a.2.indexVer == b.2.indexVer &&
  gelKeySame a.2.gel b.2.gel

/-- What a history carries from turn to turn: the store's weight map, the version counter, and (caches ON) the
process-global T1 result cache — keyed by (graph, sorted seed ids); the rest of the real key (etag, config) is
constant in a history — and the orchestrator's T2 cache keyed by (version, input text).  Assumptions: no TTL
expiry and no capacity eviction within a history (defaults 300 s / 600 s / 512 entries vs. ≤ 4 turns). -/
structure State (α : Type) where
  w : List ((Str × Str × Str) × α)
  ver : Clem.Apply.Ver
  t1c : List ((Nat × List Nat) × Clem.T1.GRes α)
  orch : List (OrchKey α × Clem.T2.Out α)
  /-- the `hybrid` block of the metrics of each cached T2 result (same keys, same order as `orch`) -/
  orchH : List (OrchKey α × HInfo) := []
  /-- `state.graph`, the GEL store (`none`: the key does not exist yet) -/
  gel : Clem.Gel.State α
  /-- number of reflection episodes `write_reflection_entries` has added to the memory index so far.  Nothing in
  the model reads it: the harness keeps them invisible to retrieval (owner = the agent, `owner_scope = world`) -/
  memN : Nat := 0
  /-- `state.graph`'s containers carry the schema tag "v1.1" (created by the boot hook / a load) rather than "v1" -/
  gelV11 : Bool := false
  /-- body of this agent's snapshot file (last write wins); `none`: nothing written yet -/
  lastSnap : Option (Clem.Py.JV.J α) := none
  /-- the reflection entries written to the memory index so far, in write order (`memN` = its length when the
  history starts with `mem = []`): they ARE visible to later retrievals, under the owner `"agent"` -/
  mem : List Clem.Refl.Written := []

/-! ## glue 1: world → T1 graphs (string ids ranked under code-point order) -/

def dedupAdj : List Str → List Str
  | [] => []
  | [a] => [a]
  | a :: b :: r => if a == b then dedupAdj (b :: r) else a :: dedupAdj (b :: r)

/-- `sorted(set(xs))` for strings -/
def sortedSet (xs : List Str) : List Str := dedupAdj (Clem.Py.isort Clem.Py.lexLe xs)

def idsOf {α : Type} (g : CGraph α) : List Str :=
  g.nodes.map (·.id) ++ g.edges.flatMap (fun e => [e.src, e.dst])

def rankTable {α : Type} (gs : List (CGraph α)) : List Str := sortedSet (gs.flatMap idsOf)

def rankOf (tbl : List Str) (s : Str) : Nat := tbl.idxOf s

def unrank (tbl : List Str) (n : Nat) : Str := tbl.getD n []

def toT1Graph {α : Type} (tbl : List Str) (i : Nat) (g : CGraph α) : Clem.T1.Graph α :=
  { gid := i
    nodes := g.nodes.map (fun n => ⟨rankOf tbl n.id, n.label, []⟩)
    edges := g.edges.map (fun e => ⟨rankOf tbl e.src, rankOf tbl e.dst, e.weight, e.rel⟩) }

def t1Graphs {α : Type} (w : World α) : List (Clem.T1.Graph α) :=
  (w.graphs.zipIdx).map (fun p => toT1Graph (rankTable w.graphs) p.2 p.1)

/-- ids of `t1.graph_deltas`, in list order (graph by graph, ascending id inside a graph) -/
def deltaIds {α : Type} (w : World α) (t : Clem.T1.Tot α) : List Str :=
  t.deltas.map (fun p => unrank (rankTable w.graphs) p.2)

/-! ## glue 1b: the T1 result cache across turns (`t1.cache.enabled`) -/

def natLe (a b : Nat) : Bool := decide (a ≤ b)

/-- `tuple(sorted(seeds.keys()))` (ids are ranks, so the order is the string order) -/
def seedKey {α : Type} (g : Clem.T1.Graph α) (text : Str) : List Nat :=
  Clem.Py.isort natLe (Clem.T1.seedsOf g text)

/-- the cached results that this call's keys hit, presented to `Clem.T1.addGraph` (which looks up by graph) -/
def t1Pre {α : Type} (cache : List ((Nat × List Nat) × Clem.T1.GRes α)) (gs : List (Clem.T1.Graph α))
    (text : Str) : List (Nat × Clem.T1.GRes α) :=
  gs.flatMap (fun g => (cache.filter (fun e => e.1 == (g.gid, seedKey g text))).map (fun e => (g.gid, e.2)))

/-- `t1_propagate` with the process cache `cache` (`Clem.T1.t1` when the cache is empty or off) -/
def t1Run {α : Type} [Clem.T1.Num α] (c : Clem.T1.Cfg α) (gs : List (Clem.T1.Graph α)) (text : Str)
    (cache : List ((Nat × List Nat) × Clem.T1.GRes α)) : Clem.T1.Tot α :=
  gs.foldl (Clem.T1.addGraph c text) { Clem.T1.tot0 with cache := if c.cacheOn then t1Pre cache gs text else [] }

/-- entries `cache.put` stored during the call: every freshly computed graph with seeds -/
def t1Puts {α : Type} (gs : List (Clem.T1.Graph α)) (text : Str) (t : Clem.T1.Tot α) :
    List ((Nat × List Nat) × Clem.T1.GRes α) :=
  (gs.zip t.per).filterMap (fun p =>
    if !p.2.cached && !p.2.seeds.isEmpty && !p.2.err then some ((p.1.gid, seedKey p.1 text), p.2) else none)

/-! ## glue 2: T1 result → T2 query text -/

def nodeGet {α : Type} (g : CGraph α) (nid : Str) : Option CNode := g.nodes.find? (fun n => n.id == nid)

def dedupFirst : List Str → List Str → List Str
  | [], acc => acc
  | x :: xs, acc => if acc.contains x then dedupFirst xs acc else dedupFirst xs (acc ++ [x])

/-- `gather_changed_labels(state, t1)` -/
def changedLabels {α : Type} (gs : List (CGraph α)) (ids : List Str) : List Str :=
  dedupFirst (gs.flatMap (fun g => (sortedSet ids).filterMap (fun nid =>
    match nodeGet g nid with
    | some n => if n.label.isEmpty then none else some n.label
    | none => none))) []

/-- `" ".join(xs)` -/
def joinWith (sep : Str) : List Str → Str
  | [] => []
  | [t] => t
  | t :: u :: ts => t ++ sep ++ joinWith sep (u :: ts)

/-- `q_text = (text or "").strip(); if labels: q_text = (q_text + " " + " ".join(sorted(labels))).strip()` -/
def queryText (text : Str) (labels : List Str) : Str :=
  if labels.isEmpty then Clem.T3.strip text
  else Clem.T3.strip (Clem.T3.strip text ++ [32] ++ joinWith [32] (Clem.Py.isort Clem.Py.lexLe labels))

/-! ## glue 3: T2 call with the oracle of that query; numpy statistics of the record -/

def lookupQ {α : Type} (o : Oracles α) (q : Str) : Option (QOracle α) := o.queries.find? (fun x => x.q == q)

def withCos {α : Type} [Clem.T2.Num α] : List (Clem.T2.Ep α) → List α → List (Clem.T2.Ep α)
  | [], _ => []
  | e :: es, [] => { e with cos := Clem.T2.Num.zero } :: withCos es []
  | e :: es, c :: cs => { e with cos := c } :: withCos es cs

def t2Cfg {α : Type} (w : World α) (c : Cfg α) (o : Oracles α) (qo : QOracle α) : Clem.T2.Cfg α :=
  { scope := c.scope, agent := some w.agent, k := c.k, θ := c.θ, days := c.days, topM := c.topM,
    nowUs := o.nowUs, quarters := [], cscore := qo.cscore, alpha := c.alpha, beta := c.beta, gamma := c.gamma }

def gnodes {α : Type} (w : World α) : List (List Clem.T2.GNode) :=
  w.graphs.map (fun g => g.nodes.map (fun n => ⟨n.id, n.label⟩))

/-- `ctx.slice_budgets["t2_k"]` (scheduler on and the budget configured) -/
def t2K {α : Type} (c : Cfg α) : Option Int :=
  match c.sched with
  | some b => b.t2K
  | none => none

/-- the edges `rerank_with_gel` reads: `state.graph["edges"]`, i.e. the GEL store of the state -/
def gelEdges {α : Type} (g : Clem.Gel.State α) : List (Clem.T2.GEdge α) :=
  (Clem.Gel.ensure g).edges.map (fun e => ⟨e.src, e.dst, e.w⟩)

def hybOf {α : Type} (c : Cfg α) (g : Clem.Gel.State α) : Clem.T2.HCfg α := { c.hyb with edges := gelEdges g, fail := false }
def qualOf {α : Type} (c : Cfg α) (qo : QOracle α) : Clem.T2.QCfg α :=
  { c.qual with lex := qo.lex, failFuse := false, failMmr1 := false, failMmr2 := false }

/-- the `hybrid` metrics block for the items handed to `rerank_with_gel` (exit paths as in `Clem.T2.hybrid`) -/
def hybridInfo {α : Type} [Clem.T2.Num α] (h : Clem.T2.HCfg α) (items : List (Clem.T2.Ep α)) : HInfo :=
  if !h.enabled then .absent
  else if !h.useGraph || h.edges.isEmpty || items.isEmpty then .absent
  else
    let kc : Int := min (items.length : Int) h.kMax
    if kc ≤ 1 then .kc kc
    else
      let work := items.take kc.toNat
      let sc := Clem.T2.hybridScores h work kc
      let m : Int := max 1 (min h.anchorTopM kc)
      if !(sc.any (·.2)) then .full kc 0 m
      else .full kc ((work.zip (Clem.T2.hybridReorder work (sc.map (·.1)))).filter (fun p => p.1.id != p.2.id)).length m

/-- one `t2_semantic(ctx, state, text, t1)` call (rerank layers as configured, GEL edges `g` of the state at the
time of the call); `none` = the oracle has no entry for the query text the glue computed. -/
def sAgentLit : Str := [97, 103, 101, 110, 116]

/-- a written reflection entry as the memory index holds it: `owner = "agent"` (the literal — not the agent's id),
the summary text, a vector iff the writer embedded it; id / ts / cluster / quarter / tokens from the oracle -/
def memEp {α : Type} (wr : Clem.Refl.Written) (oe : Clem.T2.Ep α) : Clem.T2.Ep α :=
  { oe with owner := .str sAgentLit, text := wr.text, hasVec := wr.vec }

/-- the memory index at the start of a turn: the initial episodes, then every entry written so far, in write order
(`InMemoryIndex.add` appends; nothing is ever removed) -/
def epsAt {α : Type} (w : World α) (mem : List Clem.Refl.Written) (o : Oracles α) : List (Clem.T2.Ep α) :=
  w.eps ++ List.zipWith memEp mem o.memEps

/-- the oracle does not describe the entries the model says were written (count or texts differ) -/
def memMiss {α : Type} (mem : List Clem.Refl.Written) (o : Oracles α) : Bool :=
  mem.map (·.text) != o.memEps.map (·.text)

def t2Call {α : Type} [Clem.T2.Num α] (w : World α) (c : Cfg α) (o : Oracles α) (g : Clem.Gel.State α) (q : Str)
    (mem : List Clem.Refl.Written := []) : Option (Clem.T2.Out α) :=
  match lookupQ o q with
  | none => none
  | some qo =>
    some (Clem.T2.t2 (t2Cfg w c o qo) c.tiers (withCos (epsAt w mem o) qo.cos) (hybOf c g) (qualOf c qo) (t2K c) c.residualCap
      (gnodes w))

/-- numpy's pairwise summation as `np.mean` / `np.add.reduce` run it on a contiguous float64 vector
(n < 8: left fold from `0.0`; 8 ≤ n: eight running lanes, combined as a balanced tree, then the rest). -/
def lanesAdd {α : Type} [Clem.T2.Num α] : List α → List α → List α
  | r :: rs, x :: xs => Clem.T2.Num.add r x :: lanesAdd rs xs
  | rs, [] => rs
  | [], _ => []

def npLanes {α : Type} [Clem.T2.Num α] : Nat → List α → List α → List α × List α
  | 0, lanes, rest => (lanes, rest)
  | fuel + 1, lanes, rest =>
    if rest.length < 8 then (lanes, rest) else npLanes fuel (lanesAdd lanes (rest.take 8)) (rest.drop 8)

def npSum {α : Type} [Clem.T2.Num α] (xs : List α) : α :=
  if xs.length < 8 then xs.foldl Clem.T2.Num.add Clem.T2.Num.zero
  else
    let r := npLanes xs.length (xs.take 8) (xs.drop 8)
    let l := fun (i : Nat) => r.1.getD i Clem.T2.Num.zero
    let a := Clem.T2.Num.add
    r.2.foldl a (a (a (a (l 0) (l 1)) (a (l 2) (l 3))) (a (a (l 4) (l 5)) (a (l 6) (l 7))))

/-- `float(np.mean(xs)) if xs else 0.0` -/
def npMean {α : Type} [Clem.T2.Num α] (xs : List α) : α :=
  if xs.isEmpty then Clem.T2.Num.zero else Clem.T2.Num.div (npSum xs) (Clem.T2.Num.ofInt xs.length)

/-- `float(np.max(xs)) if xs else 0.0` (on ties the later element is returned) -/
def npMax {α : Type} [Clem.T2.Num α] : List α → α
  | [] => Clem.T2.Num.zero
  | x :: xs => xs.foldl (fun cur y => if Clem.T2.Num.lt y cur then cur else y) x

/-- `sim_stats["max"]`: over the scores of `retrieved` (after the rerank layers) -/
def simMax {α : Type} [Clem.T2.Num α] (o : Clem.T2.Out α) : α := npMax (o.retrieved.map (·.cos))
def simMean {α : Type} [Clem.T2.Num α] (o : Clem.T2.Out α) : α := npMean (o.retrieved.map (·.cos))
/-- `score_stats`: over the combined scores in final-sort order -/
def scoreMax {α : Type} [Clem.T2.Num α] (o : Clem.T2.Out α) : α := npMax (o.pre.map (·.2))
def scoreMean {α : Type} [Clem.T2.Num α] (o : Clem.T2.Out α) : α := npMean (o.pre.map (·.2))

/-! ## glue 4: T1 / T2 results → plan bundle -/

/-- `extract_t1_touched_nodes(t1, cap=32)`: no `delta` / `label` keys in T1's deltas. -/
def touchedNodes {α : Type} [Clem.T3.PyOrd α] (ids : List Str) : List (Clem.T3.Node α) :=
  (Clem.Py.isort Clem.Py.lexLe ((Clem.Py.isort Clem.Py.lexLe (ids.filter (fun i => !i.isEmpty))).take 32)).map
    (fun i => ⟨i, some i, some Clem.T3.PyOrd.zero⟩)

/-- `bundle["slice_caps"]["t3_ops"]` -/
def sliceV {α : Type} (c : Cfg α) : Clem.T3.SliceV :=
  match c.sched with
  | some b => (match b.t3Ops with | some v => .int v | none => .missing)
  | none => .missing

/-- T1's configuration as the stage sees it: `ctx.slice_budgets` t1_iters / t1_pops when the scheduler is on -/
def t1Cfg {α : Type} (c : Cfg α) : Clem.T1.Cfg α :=
  match c.sched with
  | some b => { c.t1 with sliceIters := b.t1Iters, slicePops := b.t1Pops }
  | none => c.t1

def mkBundle {α : Type} [Clem.T3.PyOrd α] (c : Cfg α) (ids : List Str) (sMax : α) : Clem.T3.Bundle α :=
  { baseOps := c.maxOps, slice := sliceV c, tokens := c.tokens, tauHigh := c.tauHigh, tauLow := c.tauLow,
    epsEdit := c.epsEdit, sMax := sMax, labelsT1 := [], nodes := touchedNodes ids, owner := c.ownerRaw,
    kRetrieval := c.k }

/-! ## glue 5: planner (+ hook), one-shot RAG -/

structure PlanSt (α : Type) where
  ops : List Clem.T3.Op
  deltas : List (Clem.T4.Delta α)

/-- `plan = delib_fn(ctx, state, bundle)` when the hook is installed, else `deliberate(bundle)`; the hook of
the harness is `deliberate(bundle)` with `hookOps` appended and `plan.deltas = hookDeltas`. -/
def planOf {α : Type} [Clem.T3.PyOrd α] (t : TurnIn α) (b : Clem.T3.Bundle α) : PlanSt α :=
  if t.hook then ⟨Clem.T3.deliberate b ++ t.hookOps, t.hookDeltas⟩ else ⟨Clem.T3.deliberate b, []⟩

/-- `_retrieve_fn(payload)`: `q = str(payload.get("query") or input_text)`, a full T2 call, hits with a
non-empty id (scores through `float(score or 0.0)` inside `Clem.T3.sortHits`). -/
def ragQuery {α : Type} (t : TurnIn α) : Str := if t.ctxText.isEmpty then t.text else t.ctxText

def hitsOf {α : Type} (o : Clem.T2.Out α) : List (Clem.T3.Hit α) :=
  (o.retrieved.filter (fun e => !e.id.isEmpty)).map (fun e => ⟨e.id, e.cos⟩)

structure RagSt (α : Type) where
  plan : PlanSt α
  ragUsed : Bool
  calls : Nat
  /-- the oracle had no entry for the second query -/
  miss : Bool
  retrievedIds : List Str
  /-- the texts of the hits of the second `t2_semantic` call, in order (`none`: no second call) — what it leaves in
  `ctx.turn_artifacts["t2_snippets"]` is `artsOf` of these -/
  texts2 : Option (List Str) := none

/-- `ctx.turn_artifacts["t2_snippets"]` as a `t2_semantic` call leaves it: the non-empty texts of
`retrieved[:topk_snippets]` -/
def artsOf (texts : List Str) (k : Int) : List Str :=
  (Clem.Refl.pyTake k texts).filter Clem.Refl.nonEmpty

def ragStep {α : Type} [Clem.T2.Num α] [Clem.T3.PyOrd α] (w : World α) (c : Cfg α) (o : Oracles α)
    (t : TurnIn α) (labels : List Str) (b : Clem.T3.Bundle α) (p : PlanSt α)
    (g : Clem.Gel.State α := none) (mem : List Clem.Refl.Written := []) : RagSt α :=
  if p.ops.any Clem.T3.Op.isRetrieve && decide (1 ≤ c.maxRagLoops) then
    let q2 := queryText (ragQuery t) labels
    let r2 := t2Call w c o g q2 mem
    let r := Clem.T3.ragOnce b p.ops (fun _ => match r2 with | some x => hitsOf x | none => []) false
    -- `rag_once` rebuilds the Plan without `deltas` when it refines
    ⟨⟨r.ops, if r.ragUsed then [] else p.deltas⟩, r.ragUsed, r.calls.length, r2.isNone && r.ragUsed, r.retrievedIds,
     if r.calls.isEmpty then none else some (match r2 with | some x => x.retrieved.map (·.text) | none => [])⟩
  else ⟨p, false, 0, false, [], none⟩

/-! ## glue 6: dialogue (default template, no style prefix) -/

def intentStr : Clem.T3.Intent → Str
  | .summary => [115, 117, 109, 109, 97, 114, 121]
  | .assertion => [97, 115, 115, 101, 114, 116, 105, 111, 110]
  | .ack => [97, 99, 107]
  | .question => [113, 117, 101, 115, 116, 105, 111, 110]

def firstSpeak : List Clem.T3.Op → Option (Clem.T3.Intent × List Str × Int)
  | [] => none
  | .speak i ls m :: _ => some (i, ls, m)
  | _ :: r => firstSpeak r

/-- `"{style_prefix}| summary: {labels}. next: {intent}".format(...)` (the default template of
`_resolve_dialogue_template`; the rig's ctx has no style prefix) with `labels = ", ".join(sorted(set(labels)))` -/
def speakCore (ops : List Clem.T3.Op) : Str :=
  let sp := firstSpeak ops
  let labels := match sp with | some (_, ls, _) => sortedSet ls | none => []
  let intent := match sp with | some (i, _, _) => intentStr i | none => intentStr .ack
  [124, 32, 115, 117, 109, 109, 97, 114, 121, 58, 32] ++ joinWith [44, 32] labels ++
    [46, 32, 110, 101, 120, 116, 58, 32] ++ intent

def opTok (ops : List Clem.T3.Op) : Option Clem.T3.TokV :=
  match firstSpeak ops with
  | some (_, _, m) => some (if m == 0 then .falsy else .int m)
  | none => none

/-- `speak(dialog_bundle, plan)` then `_sanitize_utterance` (only its `.strip()`; the vocabulary of the
harness never triggers a filter rule) -/
def utterOf {α : Type} (c : Cfg α) (ops : List Clem.T3.Op) : Str :=
  let u := (Clem.T3.speak (speakCore ops) true [] (opTok ops) (some c.tokens)).text
  if u.isEmpty then u else Clem.T3.strip u

/-! ## glue 7: plan → T4 input -/

def opKind : Clem.T3.Op → Str
  | .speak .. => [83, 112, 101, 97, 107]
  | .edit .. => [69, 100, 105, 116, 71, 114, 97, 112, 104]
  | .retrieve .. => [82, 101, 113, 117, 101, 115, 116, 82, 101, 116, 114, 105, 101, 118, 101]
  | .other => []

def t4Input {α : Type} (w : World α) (c : Cfg α) (t : TurnIn α) (p : PlanSt α) : Clem.T4.Input α :=
  { deltas := p.deltas, ops := p.ops.map opKind, cooldowns := c.cooldowns, last := w.last,
    turns := [some t.turnId], capL2 := c.capL2, capNov := c.capNov, k := c.churn }

/-! ## glue 8: approved list → store double → apply_changes -/

def keyOf {α : Type} (d : Clem.T4.Delta α) : Str × Str × Str := (d.kind, d.id, d.attr)

def wGet {α : Type} [Clem.Py.Num α] (w : List ((Str × Str × Str) × α)) (k : Str × Str × Str) : α :=
  match w.find? (fun p => p.1 == k) with
  | some p => p.2
  | none => Clem.Py.Num.zero

def wSet {α : Type} (w : List ((Str × Str × Str) × α)) (k : Str × Str × Str) (v : α) :
    List ((Str × Str × Str) × α) :=
  if w.any (fun p => p.1 == k) then w.map (fun p => if p.1 == k then (k, v) else p) else w ++ [(k, v)]

structure StoreAcc (α : Type) where
  w : List ((Str × Str × Str) × α)
  edits : Nat
  clamps : Nat

/-- one iteration of the rig store's `apply_deltas` loop:
`prop = old + delta; cl = max(wmin, min(wmax, prop)); clamps += cl != prop; if cl != old: w[k] = cl; edits += 1` -/
def storeStep {α : Type} [Clem.Py.Num α] (c : Cfg α) (a : StoreAcc α) (d : Clem.T4.Delta α) : StoreAcc α :=
  let old := wGet a.w (keyOf d)
  let prop := Clem.Py.Num.add old d.delta
  let m := if Clem.Py.Num.lt prop c.wmax then prop else c.wmax
  let cl := if Clem.Py.Num.lt c.wmin m then m else c.wmin
  let a1 : StoreAcc α := if Clem.Py.Num.beq cl prop then a else { a with clamps := a.clamps + 1 }
  if Clem.Py.Num.beq cl old then a1 else { a1 with w := wSet a1.w (keyOf d) cl, edits := a1.edits + 1 }

/-- the store double: one all-or-nothing batch (it never raises in v1) -/
def storeBatch {α : Type} [Clem.Py.Num α] (c : Cfg α) (w : List ((Str × Str × Str) × α))
    (ds : List (Clem.T4.Delta α)) : StoreAcc α :=
  ds.foldl (storeStep c) ⟨w, 0, 0⟩

def applyIn {α : Type} [Clem.Py.Num α] (c : Cfg α) (s : State α) (t : TurnIn α)
    (approved : List (Clem.T4.Delta α)) (orchSize : Nat := 0) : Clem.Apply.In :=
  let b := storeBatch c s.w approved
  { store := .fn, ver := s.ver, turn := some t.turnId, every := c.every, bust := c.bust, namespaces := none,
    cm := if c.orchCacheOn then some [(0, orchSize)] else none, cmFault := none, snapFault := false,
    deltas := List.range approved.length, script := [.ret (.ok b.edits) (.ok b.clamps)] }

/-- the batches the store received, as delta lists -/
def callsOf {α : Type} (approved : List (Clem.T4.Delta α)) (calls : List (List Nat)) :
    List (List (Clem.T4.Delta α)) :=
  calls.map (fun b => b.filterMap (fun i => approved[i]?))


/-! ## glue 9: snapshots and boot (C06's `Clem.Snap` payload model)

On cadence turns `apply_changes` calls `write_snapshot(ctx, state, version_etag, applied, approved)`: the body is
C06's `payloadOf` of the turn id, agent, new version, applied count, serialised approved deltas, the store's weight
map AFTER the batch and `state.graph` (the GEL store after tick / maintenance; sanitised, rounded and re-keyed by the
payload model).  A fresh process boots once, before its first turn (`load_latest_snapshot`): `state.graph` /
`state.gel` become empty v1.1 containers, and if the snapshot directory holds a body, version, store weights and the
GEL section are restored from it (C06's `loadFrom`).  NOT carried by a snapshot: the T1 / T2 caches, the memory
index, `state.meta` (cooldown history). -/
section snap
open Clem.Py.JV

/-- `"last_seen_turn"` -/
def kLst : Str := [108, 97, 115, 116, 95, 115, 101, 101, 110, 95, 116, 117, 114, 110]
/-- `"label"` -/
def kLabel : Str := [108, 97, 98, 101, 108]
/-- `"kind"` -/
def kKind : Str := [107, 105, 110, 100]
/-- `"concept"` -/
def sConcept : Str := [99, 111, 110, 99, 101, 112, 116]
/-- `"size"` -/
def kSize : Str := [115, 105, 122, 101]
/-- `"avg_w"` -/
def kAvgW : Str := [97, 118, 103, 95, 119]
/-- `"diameter"` -/
def kDiameter : Str := [100, 105, 97, 109, 101, 116, 101, 114]
/-- `"signature"` -/
def kSignature : Str := [115, 105, 103, 110, 97, 116, 117, 114, 101]
/-- `"original"` -/
def kOriginal : Str := [111, 114, 105, 103, 105, 110, 97, 108]
/-- `"parts"` -/
def kParts : Str := [112, 97, 114, 116, 115]
/-- `"removed_edges"` -/
def kRemovedEdges : Str := [114, 101, 109, 111, 118, 101, 100, 95, 101, 100, 103, 101, 115]
/-- `"orig_edges"` -/
def kOrigEdges : Str := [111, 114, 105, 103, 95, 101, 100, 103, 101, 115]
/-- `"delta"` -/
def kDelta : Str := [100, 101, 108, 116, 97]
/-- `"op_idx"` -/
def kOpIdx : Str := [111, 112, 95, 105, 100, 120]
/-- `"idx"` -/
def kIdx : Str := [105, 100, 120]
/-- `"coact"` -/
def kCoactN : Str := [99, 111, 97, 99, 116]

variable {α : Type}

def attrsJ (e : Clem.Gel.Edge α) : J α :=
  .obj ((match e.coact with | some n => [(kCoactN, .int n)] | none => []) ++
        (match e.lst with | .absent => [] | .null => [(kLst, .null)] | .at t => [(kLst, .int t)]))

/-- one record of `state.graph["edges"]` as gel.py keeps it -/
def edgeJ (e : Clem.Gel.Edge α) : Str × J α :=
  (e.key, .obj [(Clem.Snap.kId, .str e.key), (Clem.Snap.kSrc, .str e.src), (Clem.Snap.kDst, .str e.dst),
                (Clem.Snap.kWeight, .num e.w), (Clem.Snap.kRel, .str (if e.concept then sConcept else Clem.Snap.sCoact)),
                (Clem.Snap.kUpdatedAt, .null), (Clem.Snap.kAttrs, attrsJ e)])

def nodeJ (n : Clem.Gel.Node) : Str × J α :=
  (n.id, .obj [(Clem.Snap.kId, .str n.id), (kLabel, .str n.label), (Clem.Snap.kAttrs, .obj [(kKind, .str sConcept)])])

def mergeJ (r : Clem.Gel.MergeRec α) : J α :=
  .obj [(Clem.Snap.kNodes, .arr (r.nodes.map .str)), (kSize, .int r.size), (kAvgW, .num r.avgW),
        (kDiameter, .int r.diameter), (kSignature, .str r.sig)]

def splitJ (r : Clem.Gel.SplitRec) : J α :=
  .obj [(kOriginal, .arr (r.original.map .str)), (kParts, .arr (r.parts.map (fun p => .arr (p.map .str)))),
        (kRemovedEdges, .int r.removed), (kOrigEdges, .int r.orig), (kSignature, .str r.sig)]

/-- `state.graph` as a JSON-shaped value (`v11`: the containers were created by the boot hook / a load, schema tag
"v1.1"; else by `_ensure_graph_store`, tag "v1") -/
def gelJ (g : Clem.Gel.Store α) (v11 : Bool) : J α :=
  .obj [(Clem.Snap.kNodes, .obj (g.nodes.map nodeJ)), (Clem.Snap.kEdges, .obj (g.edges.map edgeJ)),
        (Clem.Snap.kMeta, .obj ([(Clem.Snap.kSchema, .str (if v11 then Clem.Snap.sV11 else Clem.Snap.sV1)),
          (Clem.Snap.kMerges, .arr (g.merges.map mergeJ)), (Clem.Snap.kSplits, .arr (g.splits.map splitJ)),
          (Clem.Snap.kPromotions, .arr []), (Clem.Snap.kCnc, .int g.conceptCount)] ++
          (match g.edgesCount with | some n => [(Clem.Snap.kEdgesCount, .int n)] | none => [])))]

def gelStateJ (g : Clem.Gel.State α) (v11 : Bool) : J α :=
  match g with
  | none => .null
  | some st => gelJ st v11

/-- `_serialize_deltas(approved)` -/
def deltaJ (d : Clem.T4.Delta α) : J α :=
  .obj [(Clem.Snap.kTargetKind, .str d.kind), (Clem.Snap.kTargetId, .str d.id), (Clem.Snap.kAttr, .str d.attr),
        (kDelta, .num d.delta), (kOpIdx, match d.opIdx with | some i => .int i | none => .null),
        (kIdx, match d.idx with | some i => .int i | none => .null)]

def wToStore (w : List ((Str × Str × Str) × α)) : Clem.Snap.Store α :=
  .wmap (w.map (fun p => ([p.1.1, p.1.2.1, p.1.2.2], p.2)))

def wOfStore (m : List (List Str × α)) : List ((Str × Str × Str) × α) :=
  m.filterMap (fun p => match p.1 with | [a, b, c] => some ((a, b, c), p.2) | _ => none)

/-! ### boot: J → GEL store -/

def strOfJ : J α → Str
  | .str s => s
  | _ => []

def strsOfJ : J α → List Str
  | .arr xs => xs.map strOfJ
  | _ => []

def intOfJ : J α → Int
  | .int n => n
  | _ => 0

def edgeOfJ (zero : α) (p : Str × J α) : Option (Clem.Gel.Edge α) :=
  match p.2 with
  | .obj kv =>
    let attrs : List (Str × J α) := match aget Clem.Snap.kAttrs kv with | some (.obj a) => a | _ => []
    some { key := p.1, src := strOfJ (getD Clem.Snap.kSrc (.str []) kv), dst := strOfJ (getD Clem.Snap.kDst (.str []) kv),
           w := (match aget Clem.Snap.kWeight kv with | some (.num x) => x | _ => zero),
           concept := strOfJ (getD Clem.Snap.kRel (.str []) kv) == sConcept,
           coact := (match aget kCoactN attrs with | some (.int n) => some n.toNat | _ => none),
           lst := (match aget kLst attrs with | none => .absent | some (.int t) => .at t | some _ => .null) }
  | _ => none

def nodeOfJ (p : Str × J α) : Option Clem.Gel.Node :=
  match p.2 with
  | .obj kv => some ⟨p.1, strOfJ (getD kLabel (.str []) kv)⟩
  | _ => none

def mergeOfJ (zero : α) : J α → Option (Clem.Gel.MergeRec α)
  | .obj kv => some ⟨strsOfJ (getD Clem.Snap.kNodes (.arr []) kv), intOfJ (getD kSize (.int 0) kv),
                     (match aget kAvgW kv with | some (.num x) => x | _ => zero), intOfJ (getD kDiameter (.int 0) kv),
                     strOfJ (getD kSignature (.str []) kv)⟩
  | _ => none

def splitOfJ : J α → Option Clem.Gel.SplitRec
  | .obj kv => some ⟨strsOfJ (getD kOriginal (.arr []) kv),
                     (match getD kParts (.arr []) kv with | .arr ps => ps.map strsOfJ | _ => []),
                     intOfJ (getD kRemovedEdges (.int 0) kv), intOfJ (getD kOrigEdges (.int 0) kv),
                     strOfJ (getD kSignature (.str []) kv)⟩
  | _ => none

def listOfJ : J α → List (J α)
  | .arr xs => xs
  | _ => []

/-- the GEL store gel.py sees after `load_latest_snapshot` put the sanitised section on the state -/
def storeOfGel (zero : α) (g : Clem.Snap.Gel α) : Clem.Gel.Store α :=
  { nodes := g.nodes.filterMap nodeOfJ, edges := g.edges.filterMap (edgeOfJ zero),
    merges := (listOfJ (getD Clem.Snap.kMerges (.arr []) g.mta)).filterMap (mergeOfJ zero),
    splits := (listOfJ (getD Clem.Snap.kSplits (.arr []) g.mta)).filterMap splitOfJ,
    conceptCount := (intOfJ (getD Clem.Snap.kCnc (.int 0) g.mta)).toNat,
    edgesCount := (match aget Clem.Snap.kEdgesCount g.mta with | some (.int n) => some n.toNat | _ => none) }

/-- `{"nodes": {}, "edges": {}, "meta": dict(empty_meta)}` -/
def bootEmptyStore : Clem.Gel.Store α := ⟨[], [], [], [], 0, some 0⟩

def isDigitsS (s : Str) : Bool := !s.isEmpty && s.all (fun ch => decide (48 ≤ ch) && decide (ch ≤ 57))

/-- `state.version_etag = str(ver)` as `_bump_version_etag` will read it (`int(current)`) -/
def verOfStr (s : Str) : Clem.Apply.Ver :=
  if isDigitsS s then .num (s.foldl (fun n ch => 10 * n + ((ch - 48 : Nat) : Int)) 0)
  else match s with
    | 45 :: r => if isDigitsS r then .num (-(r.foldl (fun n ch => 10 * n + ((ch - 48 : Nat) : Int)) 0)) else .junk
    | _ => .junk

end snap

/-! ## the turn -/

structure TurnOut (α : Type) where
  t1 : Clem.T1.Tot α
  touched : List Str
  labels : List Str
  qText : Str
  /-- the oracle had no entry for a query the glue computed (the harness reports it as a mismatch) -/
  oracleMiss : Bool
  t2 : Clem.T2.Out α
  /-- the orchestrator's cache served the T2 result; entries in the cache when the t2 record is written -/
  orchHit : Bool
  orchSize : Nat
  simMax : α
  simMean : α
  scoreMax : α
  scoreMean : α
  bundle : Clem.T3.Bundle α
  t3Ran : Bool
  planOps0 : List Clem.T3.Op
  requestedRetrieve : Bool
  ragUsed : Bool
  ragIds : List Str
  ops : List Clem.T3.Op
  deltas : List (Clem.T4.Delta α)
  utter : Str
  t2Calls : Nat
  t4in : Option (Clem.T4.Input α)
  t4 : Option (Clem.T4.Result α)
  apply : Option Clem.Apply.Out
  storeCalls : List (List (Clem.T4.Delta α))
  line : Str
  /-- GEL: was observe / tick / the maintenance block run, their metrics, and the candidate counts -/
  gelObs : Option Clem.Gel.ObsOut
  gelTick : Option Clem.Gel.TickOut
  gelMaint : Option (Nat × Nat × Nat × Nat × Nat)
  /-- the `hybrid` block of the t2 record -/
  hinfo : HInfo
  /-- the reflection tail: reached / `reflect` called / entries handed to the index / telemetry record -/
  refl : Clem.Refl.TurnOut
  /-- the snapshot body written this turn -/
  snapBody : Option (Clem.Py.JV.J α)
  /-- scheduler: the boundary the turn returned at and why (`none`: ran to the end); did the T2 stage run -/
  yielded : Option (Clem.Sched.Stage × Clem.Sched.YReason)
  t2Ran : Bool
  state : State α

def emptyT2 {α : Type} (c : Cfg α) : Clem.T2.Out α := ⟨[], [], c.tiers, [], [], false⟩

/-- `_final_line = utter if utter else (str(input_text or "")).strip() or "…"` -/
def finalLine (utter text : Str) : Str :=
  if !utter.isEmpty then utter else if !(Clem.T3.strip text).isEmpty then Clem.T3.strip text else [8230]

section stages
variable {α : Type} [Clem.T1.Num α] [Clem.T2.Num α] [Clem.T3.PyOrd α] [Clem.Py.Num α] [Clem.Py.NumGel α]
variable (w : World α) (c : Cfg α) (s : State α) (t : TurnIn α) (o : Oracles α)

/-- T1 on the turn's text (with the process cache of the state) -/
def t1Of : Clem.T1.Tot α := t1Run (t1Cfg c) (t1Graphs w) t.text s.t1c
def idsOfTurn : List Str := deltaIds w (t1Of w c s t)
def labelsOf : List Str := changedLabels w.graphs (idsOfTurn w c s t)
def qOf : Str := queryText t.text (labelsOf w c s t)

structure T2St (α : Type) where
  out : Clem.T2.Out α
  /-- served by the orchestrator's cache: `t2_semantic` was not called -/
  hit : Bool
  oracleMiss : Bool
  /-- `cm.stats["size"]` when the t2 record is written -/
  size : Nat
  orch : List (OrchKey α × Clem.T2.Out α)
  /-- the `hybrid` block of the result's metrics (cached with it) -/
  hinfo : HInfo := .absent
  orchH : List (OrchKey α × HInfo) := []

/-- the key of this turn's lookup in the orchestrator's T2 cache (fix `C05_turn_key_context`) -/
def orchKey : OrchKey α :=
  ((s.ver, t.text),
   { agent := w.agent, ids := idsOfTurn w c s t, indexVer := s.mem.length,
     gel := if c.hyb.enabled then some (s.gel.map (·.edges)) else none })

/-- the T2 section of `run_turn`: `key = (version, str(input_text), ctx-digest)`, `cm.get` / `t2_semantic` + `cm.set`.
(The process-global T2 STAGE cache, `t2.cache.enabled`, is keyed by the query text and everything else the stage
reads — since the fixes `C05_t2_key_*` also the label map, the hybrid settings with the GEL edges, and the identity
and version of the memory index; in a history of the model's world a hit returns what the stage would compute again,
so it has no state here — it only changes the constants `cache_enabled / cache_used / cache_misses` of the t2
record.) -/
def t2Stage : T2St α :=
  let fresh := t2Call w c o s.gel (qOf w c s t) s.mem
  let out := fresh.getD (emptyT2 c)
  let hi := if fresh.isSome then hybridInfo (hybOf c s.gel) (out.pre.map (·.1)) else .absent
  if c.orchCacheOn then
    match s.orch.find? (fun e => okeyEq e.1 (orchKey w c s t)) with
    | some e => ⟨e.2, true, false, s.orch.length, s.orch,
                 ((s.orchH.find? (fun e => okeyEq e.1 (orchKey w c s t))).map (·.2)).getD .absent, s.orchH⟩
    | none => ⟨out, false, fresh.isNone, s.orch.length + 1, s.orch ++ [(orchKey w c s t, out)], hi,
               s.orchH ++ [(orchKey w c s t, hi)]⟩
  else ⟨out, false, fresh.isNone, 0, s.orch, hi, s.orchH⟩

/-- the T2 result the rest of the turn sees -/
def t2Of : Clem.T2.Out α := (t2Stage w c s t o).out
def bundleOf : Clem.T3.Bundle α := mkBundle c (idsOfTurn w c s t) (simMax (t2Of w c s t o))
/-- T3 is gated and skipped in the dry-run compute phase -/
def t3On : Bool := c.t3Enabled && !t.dryRun
def plan0Of : PlanSt α := if t3On c t then planOf t (bundleOf w c s t o) else ⟨[], []⟩

/-! ### scheduler (scheduler.enabled): the yield decision at the stage boundaries

`_should_yield` is consulted after T1, T2, the T3 plan (inside the T3 block), T4 and Apply (the last two only when
T4 runs and the turn is not a dry run — the dry run returns before the T4 boundary) with that boundary's counters.
LOGICAL clock: the measured elapsed time is taken as 0 ms (the harness configures huge `wall_ms` / `quantum_ms`;
wall-clock dependence of the decision is C01's known finding `wallclock:scheduler-yield`). -/

def consT1 : Clem.Sched.Consumed :=
  ⟨some 0, some (t1Of w c s t).iters, some ((t1Of w c s t).pops : Int), none, none⟩
def consT2 : Clem.Sched.Consumed := ⟨some 0, none, none, some ((t2Of w c s t o).used.length : Int), none⟩
def consT3 : Clem.Sched.Consumed := ⟨some 0, none, none, none, some ((plan0Of w c s t o).ops.length : Int)⟩
def consMs : Clem.Sched.Consumed := ⟨some 0, none, none, none, none⟩

def boundaries : List (Clem.Sched.Stage × Clem.Sched.Consumed) :=
  [(.T1, consT1 w c s t), (.T2, consT2 w c s t o)] ++
  (if t3On c t then [(.T3, consT3 w c s t o)] else []) ++
  (if c.t4Enabled && !t.dryRun then [(.T4, consMs), (.Apply, consMs)] else [])

/-- the first boundary whose decision fires, with the reason (`none`: scheduler off, or no boundary fires) -/
def yieldOf : Option (Clem.Sched.Stage × Clem.Sched.YReason) :=
  match c.sched with
  | none => none
  | some b => Clem.Sched.firstYield b (boundaries w c s t o)

def stageRank : Clem.Sched.Stage → Nat
  | .T1 => 0 | .T2 => 1 | .T3 => 2 | .T4 => 3 | .Apply => 4

/-- rank of the boundary the turn returns at (5 = it runs to the end) -/
def yr : Nat := match yieldOf w c s t o with | none => 5 | some p => stageRank p.1

/-- the part of the turn after boundary number `k` is executed -/
def reach (k : Nat) : Bool := decide (k < yr w c s t o)

/-! ### GEL (graph.enabled): observe on ALL hits T2 returned, tick + maintenance before Apply -/

/-- `items = t2.retrieved` through `_as_id_score`: `(str(id), float(score))` of every hit, in T2's order -/
def gelItems : List (Str × α) := (t2Of w c s t o).retrieved.map (fun e => (e.id, e.cos))

def gelObsOn : Bool := c.gel.enabled && !t.dryRun && reach w c s t o 1

/-- `if graph_enabled and not _dry_run: gel_observe(ctx, state, items, turn=int(turn_id), agent=…)` (after the T2
boundary) -/
def gelObsOps : List (Clem.Gel.Op α) :=
  if gelObsOn w c s t o then [.observe (gelItems w c s t o) (some t.turnId)] else []

/-- the decay tick sits inside `if t4_enabled:` after T4, the dry-run return and the T4 boundary, BEFORE Apply -/
def gelTickOn : Bool := c.gel.enabled && c.t4Enabled && !t.dryRun && reach w c s t o 3

def gelMaintOn : Bool := gelTickOn w c s t o && (c.doMerge || c.doSplit || c.doPromo)

def gelMerges : List (Clem.Gel.MergeRec α) := if c.doMerge then o.merges else []
def gelSplits : List Clem.Gel.SplitRec := if c.doSplit then o.splits else []
/-- `promos = gel_promote_clusters(ctx, state, merges if do_merge else [])` -/
def gelPromos : List (Clem.Gel.Promo α) :=
  if c.doPromo then Clem.Gel.promoteClusters c.gel ((gelMerges c o).map (·.nodes)) else []

/-- `for m in merges[:cap_m]: apply_merge`, `for s in splits[:cap_s]: apply_split`, `for p in promos[:cap_p]: apply_promotion` -/
def gelMaintOps : List (Clem.Gel.Op α) :=
  if gelMaintOn w c s t o then
    (Clem.Gel.pySlice c.capMerge (gelMerges c o)).map Clem.Gel.Op.merge ++
    (Clem.Gel.pySlice c.capSplit (gelSplits c o)).map Clem.Gel.Op.split ++
    (Clem.Gel.pySlice c.capPromo (gelPromos c o)).map Clem.Gel.Op.promote
  else []

def gelTickOps : List (Clem.Gel.Op α) := if gelTickOn w c s t o then [.tick 1 (some t.turnId)] else []

/-- everything the turn does to the GEL store, in order -/
def gelOps : List (Clem.Gel.Op α) := gelObsOps w c s t o ++ gelTickOps w c s t o ++ gelMaintOps w c s t o

def gelAfterObs : Clem.Gel.State α := Clem.Gel.run c.gel c.pw s.gel (gelObsOps w c s t o)
def gelNext : Clem.Gel.State α := Clem.Gel.run c.gel c.pw s.gel (gelOps w c s t o)

/-- metrics of the observe / tick calls (for the gel log stream) -/
def gelObsOut : Clem.Gel.ObsOut := (Clem.Gel.observe c.gel s.gel (gelItems w c s t o) (some t.turnId)).2
def gelTickOut : Clem.Gel.TickOut := (Clem.Gel.tick c.gel c.pw (gelAfterObs w c s t o) 1 (some t.turnId)).2

def ragOf : RagSt α :=
  if t3On c t then ragStep w c o t (labelsOf w c s t) (bundleOf w c s t o) (plan0Of w c s t o) (gelAfterObs w c s t o) s.mem
  else ⟨plan0Of w c s t o, false, 0, false, [], none⟩
/-- the plan that reaches speak and T4 -/
def planFinal : PlanSt α := (ragOf w c s t o).plan
def t4InOf : Clem.T4.Input α := t4Input w c t (planFinal w c s t o)
def t4Of : Clem.T4.Result α := Clem.T4.t4 c.sqrt c.thr (t4InOf w c s t o)
/-- the static gates of T4 → Apply: kill switch off, not a dry run -/
def committed : Bool := c.t4Enabled && !t.dryRun
/-- T4's approved list is handed to Apply: the gates are open and the turn did not yield at or before the T4 boundary -/
def commits : Bool := committed c t && reach w c s t o 3
def applyOf : Clem.Apply.Out :=
  Clem.Apply.apply (applyIn c s t (t4Of w c s t o).approved (t2Stage w c s t o).size)
/-- the T1 process cache after the turn -/
def t1cNext : List ((Nat × List Nat) × Clem.T1.GRes α) :=
  if c.t1.cacheOn then s.t1c ++ t1Puts (t1Graphs w) t.text (t1Of w c s t) else s.t1c
/-- the orchestrator cache after the turn: untouched when the turn yields after T1, emptied by a committed apply in
`on-apply` mode -/
def orchNext : List (OrchKey α × Clem.T2.Out α) :=
  if !reach w c s t o 0 then s.orch
  else if commits w c s t o && c.bust && c.orchCacheOn then [] else (t2Stage w c s t o).orch
def utterOfTurn : Str := if t3On c t && reach w c s t o 2 then utterOf c (planFinal w c s t o).ops else []

/-! ### reflection tail (t3.allow_reflection): C19's `Clem.Refl.tail` on the turn's utterance and retrieved texts -/

def digitsAux : Nat → Nat → List Nat → List Nat
  | 0, _, acc => acc
  | fuel + 1, n, acc => if n < 10 then (48 + n) :: acc else digitsAux fuel (n / 10) ((48 + n % 10) :: acc)

/-- `str(int)` -/
def decStr (i : Int) : Str := if i < 0 then 45 :: digitsAux 24 i.natAbs [] else digitsAux 24 i.toNat []

/-- what `_run_reflection_if_enabled(ctx, state, plan, utter, t2)` and the write / telemetry steps see -/
def reflIn : Clem.Refl.TurnIn :=
  { agent := w.agent, turn := decStr t.turnId, nowMs := some 0, isoPreset := none, dry := t.dryRun, t4on := c.t4Enabled,
    planFlag := false, stateFlag := w.reflFlag, cfg := c.refl, utter := utterOfTurn w c s t o,
    items := (t2Of w c s t o).retrieved.map (·.text)
    -- the LAST `t2_semantic` call of the turn wrote the artifacts: `rag_once`'s second retrieval if it happened, else
    -- the stage's own call; a result served by the orchestrator's cache writes none (the rig's ctx is fresh per turn)
    arts := match (ragOf w c s t o).texts2 with
      | some a => artsOf a c.refl.topk
      | none => if (t2Stage w c s t o).hit then [] else artsOf ((t2Of w c s t o).retrieved.map (·.text)) c.refl.topk }

/-- no fault, rule-based backend, logical clock (elapsed 0) -/
def reflOrc : Clem.Refl.Oracles := ⟨.real, .missing, 0, false, false, false, [], false⟩

/-- the reflection tail sits after T4/Apply (or the kill-switch bypass): a yielded turn returns before it -/
def reflOut : Clem.Refl.TurnOut :=
  if (yieldOf w c s t o).isSome then Clem.Refl.notReached
  else (Clem.Refl.tail true Clem.Refl.CtxSt.fresh (reflIn w c s t o) reflOrc).2

/-! ### snapshot written by Apply on cadence turns -/

def snapIn : Clem.Snap.WriteIn α :=
  { turn := .int t.turnId, agent := .str w.agent, version := .str (decStr (applyOf w c s t o).version),
    applied := (applyOf w c s t o).applied, deltas := .arr ((t4Of w c s t o).approved.map deltaJ),
    store := wToStore (storeBatch c s.w (t4Of w c s t o).approved).w,
    graph := gelStateJ (gelNext w c s t o) s.gelV11, gel := gelStateJ (gelNext w c s t o) s.gelV11 }

/-- the JSON body of `state_<agent>.json` this turn writes (`none`: no snapshot this turn) -/
def snapBody : Option (Clem.Py.JV.J α) :=
  if commits w c s t o && (applyOf w c s t o).snap.isSome then
    some (Clem.Snap.payloadOf c.wops c.cv c.snapB (snapIn w c s t o))
  else none

def nextState : State α :=
  { w := if commits w c s t o then (storeBatch c s.w (t4Of w c s t o).approved).w else s.w
    ver := if commits w c s t o then .num (applyOf w c s t o).version else s.ver
    t1c := t1cNext w c s t, orch := orchNext w c s t o
    orchH := if !reach w c s t o 0 then s.orchH
             else if commits w c s t o && c.bust && c.orchCacheOn then [] else (t2Stage w c s t o).orchH
    gel := gelNext w c s t o
    memN := s.memN + (reflOut w c s t o).written.length
    gelV11 := s.gelV11
    lastSnap := match snapBody w c s t o with | some b => some b | none => s.lastSnap
    mem := s.mem ++ (reflOut w c s t o).written }

def runTurn : TurnOut α :=
  let r2 := t2Of w c s t o
  let full := reach w c s t o 2
  { t1 := t1Of w c s t, touched := idsOfTurn w c s t, labels := labelsOf w c s t, qText := qOf w c s t
    oracleMiss := reach w c s t o 0 &&
      ((t2Stage w c s t o).oracleMiss || (full && (ragOf w c s t o).miss) || memMiss s.mem o), t2 := r2
    orchHit := reach w c s t o 0 && (t2Stage w c s t o).hit, orchSize := (t2Stage w c s t o).size
    simMax := simMax r2, simMean := simMean r2, scoreMax := scoreMax r2, scoreMean := scoreMean r2
    bundle := bundleOf w c s t o, t3Ran := t3On c t && full, planOps0 := (plan0Of w c s t o).ops
    requestedRetrieve := t3On c t && full && (plan0Of w c s t o).ops.any Clem.T3.Op.isRetrieve
    ragUsed := full && (ragOf w c s t o).ragUsed, ragIds := (ragOf w c s t o).retrievedIds
    ops := if full then (planFinal w c s t o).ops else []
    deltas := (planFinal w c s t o).deltas, utter := utterOfTurn w c s t o
    t2Calls := (if reach w c s t o 0 && !(t2Stage w c s t o).hit then 1 else 0) +
               (if full then (ragOf w c s t o).calls else 0)
    t4in := if c.t4Enabled && full then some (t4InOf w c s t o) else none
    t4 := if c.t4Enabled && full then some (t4Of w c s t o) else none
    apply := if commits w c s t o then some (applyOf w c s t o) else none
    storeCalls := if commits w c s t o then callsOf (t4Of w c s t o).approved (applyOf w c s t o).calls else []
    line := if (yieldOf w c s t o).isSome || (t.dryRun && c.t4Enabled) then utterOfTurn w c s t o
            else finalLine (utterOfTurn w c s t o) t.text
    gelObs := if gelObsOn w c s t o then some (gelObsOut w c s t o) else none
    gelTick := if gelTickOn w c s t o then some (gelTickOut w c s t o) else none
    gelMaint := if gelMaintOn w c s t o then
        some ((gelMerges c o).length, (Clem.Gel.pySlice c.capMerge (gelMerges c o)).length,
              (gelSplits c o).length, (Clem.Gel.pySlice c.capSplit (gelSplits c o)).length,
              (Clem.Gel.pySlice c.capPromo (gelPromos c o)).length)
      else none
    hinfo := (t2Stage w c s t o).hinfo
    refl := reflOut w c s t o
    snapBody := snapBody w c s t o
    yielded := yieldOf w c s t o
    t2Ran := reach w c s t o 0
    state := nextState w c s t o }

end stages

/-! ## process start: the boot hook (`load_latest_snapshot`), once, before the first turn of a fresh state -/

/-- `body`: what the snapshot directory holds for the boot hook (`none`: no snapshot).  The graph containers are
(re)created in any case; a readable body restores version, store weights and the GEL section. -/
def bootOf {α : Type} (c : Cfg α) (s : State α) (body : Option (Clem.Py.JV.J α)) : State α :=
  let base : State α := { s with gel := some bootEmptyStore, gelV11 := true, lastSnap := body }
  match body with
  | none => base
  | some d =>
    match Clem.Snap.loadFrom c.wops c.cv c.snapB d (wToStore s.w) with
    | none => base
    | some l =>
      { base with
        ver := (match l.version with | some v => verOfStr v | none => s.ver)
        w := (match l.store with | .wmap m => wOfStore m | _ => s.w)
        gel := some (storeOfGel c.wops.zero l.graph) }

/-! ## histories -/

structure Hist (α : Type) where
  outs : List (TurnOut α)
  state : State α

def stepHist {α : Type} [Clem.T1.Num α] [Clem.T2.Num α] [Clem.T3.PyOrd α] [Clem.Py.Num α] [Clem.Py.NumGel α]
    (w : World α) (c : Cfg α) (h : Hist α) (t : TurnIn α × Oracles α) : Hist α :=
  let o := runTurn w c h.state t.1 t.2
  ⟨h.outs ++ [o], o.state⟩

/-- the turn list folded over the state; the outputs of all turns in order and the final state -/
def runTurns {α : Type} [Clem.T1.Num α] [Clem.T2.Num α] [Clem.T3.PyOrd α] [Clem.Py.Num α] [Clem.Py.NumGel α]
    (w : World α) (c : Cfg α) (s : State α) (ts : List (TurnIn α × Oracles α)) : Hist α :=
  ts.foldl (stepHist w c) ⟨[], s⟩

/-! ## several agents on one state -/

/-- the world as this turn's ctx sees it: same graphs, memory, meta; the turn's own agent id.  Everything an agent id
reaches — T2's owner scope, the reflection entry ids, the snapshot's `agent` field (and file name), every record —
reads it from here; the state (store, version, caches, GEL, memory index) is shared by all agents of the history. -/
def wFor {α : Type} (w : World α) (t : TurnIn α) : World α :=
  match t.agent with
  | some a => { w with agent := a }
  | none => w

def stepHistMA {α : Type} [Clem.T1.Num α] [Clem.T2.Num α] [Clem.T3.PyOrd α] [Clem.Py.Num α] [Clem.Py.NumGel α]
    (w : World α) (c : Cfg α) (h : Hist α) (t : TurnIn α × Oracles α) : Hist α :=
  let o := runTurn (wFor w t.1) c h.state t.1 t.2
  ⟨h.outs ++ [o], o.state⟩

/-- a history whose turns may come from different agents (`TurnIn.agent`), all on ONE state -/
def runTurnsMA {α : Type} [Clem.T1.Num α] [Clem.T2.Num α] [Clem.T3.PyOrd α] [Clem.Py.Num α] [Clem.Py.NumGel α]
    (w : World α) (c : Cfg α) (s : State α) (ts : List (TurnIn α × Oracles α)) : Hist α :=
  ts.foldl (stepHistMA w c) ⟨[], s⟩

/-- a process boundary after `k` turns: the first process runs `ts.take k` from `s0`; a FRESH process (state `sF`,
nothing carried but the snapshot directory) boots from the body the first one left behind and runs the rest -/
def restartHist {α : Type} [Clem.T1.Num α] [Clem.T2.Num α] [Clem.T3.PyOrd α] [Clem.Py.Num α] [Clem.Py.NumGel α]
    (w : World α) (c : Cfg α) (s0 sF : State α) (k : Nat) (ts : List (TurnIn α × Oracles α)) : Hist α :=
  let h1 := runTurns w c s0 (ts.take k)
  let h2 := runTurns w c (bootOf c sF h1.state.lastSnap) (ts.drop k)
  ⟨h1.outs ++ h2.outs, h2.state⟩

/-! ## link monitors (evaluated by the driver on what the REAL turn handed from stage to stage) -/

/-- the text the real T2 embedded is the glue's query text for the real T1 deltas -/
def monQuery {α : Type} (w : World α) (text : Str) (realDeltaIds : List Str) (realQ : Str) : Bool :=
  realQ == queryText text (changedLabels w.graphs realDeltaIds)

/-- the real bundle's touched nodes / s_max / caps are the glue's for the real T1 / T2 results -/
def monBundleNodes {α : Type} [Clem.T3.PyOrd α] (realDeltaIds : List Str) (realNodeIds : List Str) : Bool :=
  -- as a multiset: the order of `touched_nodes` is not observable downstream (both consumers sort)
  Clem.Py.isort Clem.Py.lexLe realNodeIds == (touchedNodes (α := α) realDeltaIds).map (·.id)

/-- the deltas the real T1 returned are the T1 model's for THIS turn's text over the active graphs (the result
cache never changes them) -/
def monT1 {α : Type} [Clem.T1.Num α] (w : World α) (c : Cfg α) (text : Str) (realDeltaIds : List Str) : Bool :=
  realDeltaIds == deltaIds w (Clem.T1.t1 (t1Cfg c) (t1Graphs w) text)

/-- what reached the store is exactly the approved list, once (C04 on the real hand-off) -/
def monHandoff (approvedKeys : List Str) (calls : List (List Str)) : Bool :=
  calls == [approvedKeys]

end Clem.Compose
