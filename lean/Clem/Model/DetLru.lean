/-
Models of the deterministic containers:

* `clematis/engine/util/lru_det.py:DeterministicLRUSet` and the identical
  `clematis/engine/util/ring.py:DeterministicLRU` (FIFO-on-first-insert bounded set) → `LSet`;
* `clematis/engine/util/lru_det.py:DeterministicLRU` (LRU map with `update_on_get` /
  `update_on_put` flags, `pop_lru`, eviction callback) → `LMap`;
* `clematis/engine/util/ring.py:DedupeRing` (FIFO window + reference counts) → `Ring`.

Import-free and executable; `Clem/Props/C15/DetLru.lean` proves the theorems about exactly
these definitions, the driver runs them against the real classes.

Representation.  `LSet` / `LMap`: the Python objects keep a deque of keys (oldest/LRU →
newest/MRU) next to a dict; the deque holds every dict key exactly once (checked on the
implementation after every operation by the harness), so the state is the list of entries in
deque order.  `Ring`: the deque and the refcount dict genuinely differ (`discard` lowers a
count without touching the deque), so both are modelled; the refcount dict (which only ever
holds positive counts) is a *bag* of keys: `ref.count x` is `self._ref.get(x, 0)`, lowering a
count by one (dropping the key at zero) is `List.erase`.

Capacities arrive as `Int` and are clamped like the code (`max(0, int(cap))`).
-/
namespace Clem.DetLru

/-- Pop from the front while the length exceeds `cap`: (survivors, evicted in order). -/
def evictFront {α : Type} (cap : Nat) : List α → List α × List α
  | [] => ([], [])
  | a :: as =>
    if cap < (a :: as).length then
      let r := evictFront cap as
      (r.1, a :: r.2)
    else (a :: as, [])

/-! ### DeterministicLRUSet -/

structure LSet where
  cap : Nat
  q : List Nat
deriving Repr, DecidableEq, Inhabited

namespace LSet

def init (cap : Int) : LSet := ⟨cap.toNat, []⟩

def contains (s : LSet) (x : Nat) : Bool := decide (0 < s.cap) && s.q.contains x

/-- `add`: returns `true` iff an eviction occurred. -/
def add (s : LSet) (x : Nat) : LSet × Bool :=
  if s.cap = 0 then (s, false)
  else if s.q.contains x then (s, false)
  else
    let r := evictFront s.cap (s.q ++ [x])
    ({ s with q := r.1 }, !r.2.isEmpty)

def clear (s : LSet) : LSet := { s with q := [] }

def size (s : LSet) : Nat := s.q.length

inductive Op where
  | add (x : Nat)
  | clear
deriving Repr, DecidableEq

def step (s : LSet) : Op → LSet
  | .add x => (s.add x).1
  | .clear => s.clear

def run (s : LSet) (ops : List Op) : LSet := ops.foldl step s

def invB (s : LSet) : Bool :=
  decide s.q.Nodup && decide (s.q.length ≤ s.cap)

end LSet

/-! ### DeterministicLRU (map) -/

structure LMap where
  cap : Nat
  uog : Bool            -- update_on_get
  uop : Bool            -- update_on_put
  items : List (Nat × Nat)
deriving Repr, DecidableEq, Inhabited

namespace LMap

def init (cap : Int) (uog uop : Bool) : LMap := ⟨cap.toNat, uog, uop, []⟩

def lookup (k : Nat) (l : List (Nat × Nat)) : Option Nat := (l.find? (fun e => e.1 == k)).map (·.2)

def without (k : Nat) (l : List (Nat × Nat)) : List (Nat × Nat) := l.filter (fun e => e.1 != k)

/-- `self._map[key] = value` for a present key: position (deque) unchanged. -/
def replace (k v : Nat) (l : List (Nat × Nat)) : List (Nat × Nat) :=
  l.map (fun e => if e.1 == k then (k, v) else e)

def contains (s : LMap) (k : Nat) : Bool := decide (0 < s.cap) && (lookup k s.items).isSome

def len (s : LMap) : Nat := if 0 < s.cap then s.items.length else 0

def get (s : LMap) (k : Nat) : LMap × Option Nat :=
  if s.cap = 0 then (s, none)
  else match lookup k s.items with
    | none => (s, none)
    | some v =>
      if s.uog then ({ s with items := without k s.items ++ [(k, v)] }, some v)
      else (s, some v)

/-- `put`: new state, the entries handed to `on_evict` (in order); the method returns the
last of them (or `None`). -/
def put (s : LMap) (k v : Nat) : LMap × List (Nat × Nat) :=
  if s.cap = 0 then (s, [])
  else match lookup k s.items with
    | some _ =>
      if s.uop then ({ s with items := without k s.items ++ [(k, v)] }, [])
      else ({ s with items := replace k v s.items }, [])
    | none =>
      let r := evictFront s.cap (s.items ++ [(k, v)])
      ({ s with items := r.1 }, r.2)

def popLru (s : LMap) : LMap × Option (Nat × Nat) :=
  if s.cap = 0 then (s, none)
  else match s.items with
    | [] => (s, none)
    | e :: es => ({ s with items := es }, some e)

def clear (s : LMap) : LMap := { s with items := [] }

/-- `items()`: LRU → MRU; empty when disabled. -/
def itemsOf (s : LMap) : List (Nat × Nat) := if 0 < s.cap then s.items else []

inductive Op where
  | get (k : Nat)
  | put (k v : Nat)
  | popLru
  | clear
deriving Repr, DecidableEq

def step (s : LMap) : Op → LMap
  | .get k => (s.get k).1
  | .put k v => (s.put k v).1
  | .popLru => s.popLru.1
  | .clear => s.clear

def run (s : LMap) (ops : List Op) : LMap := ops.foldl step s

def invB (s : LMap) : Bool :=
  decide ((s.items.map (·.1)).Nodup) && decide (s.items.length ≤ s.cap)

end LMap

/-! ### DedupeRing -/

structure Ring where
  k : Nat
  q : List Nat
  ref : List Nat      -- bag: `ref.count x` = `self._ref.get(x, 0)`
deriving Repr, DecidableEq, Inhabited

namespace Ring

def init (k : Int) : Ring := ⟨k.toNat, [], []⟩

def contains (s : Ring) (x : Nat) : Bool := decide (0 < s.k) && decide (0 < s.ref.count x)

/-- `while self.k and len(self._q) >= self.k`: pop the oldest, lower its count. -/
def evict (k : Nat) : List Nat → List Nat → List Nat × List Nat
  | [], ref => ([], ref)
  | old :: q, ref =>
    if k ≤ (old :: q).length then evict k q (ref.erase old) else (old :: q, ref)

def add (s : Ring) (x : Nat) : Ring :=
  if s.k = 0 then s
  else
    let r := evict s.k s.q s.ref
    { s with q := r.1 ++ [x], ref := x :: r.2 }

def extend (s : Ring) (xs : List Nat) : Ring := xs.foldl add s

/-- `discard`: lower the count by one if positive; the deque is not touched. -/
def discard (s : Ring) (x : Nat) : Ring :=
  if s.k = 0 then s else { s with ref := s.ref.erase x }

def clear (s : Ring) : Ring := { s with q := [], ref := [] }

inductive Op where
  | add (x : Nat)
  | discard (x : Nat)
  | clear
deriving Repr, DecidableEq

def step (s : Ring) : Op → Ring
  | .add x => s.add x
  | .discard x => s.discard x
  | .clear => s.clear

def run (s : Ring) (ops : List Op) : Ring := ops.foldl step s

def Op.isDiscard : Op → Bool
  | .discard _ => true
  | _ => false

/-- Monitor: window bound and "refcounts never over-count the window" on the keys present. -/
def invB (s : Ring) : Bool :=
  (decide (s.q.length ≤ s.k)) && s.ref.all (fun x => decide (s.ref.count x ≤ s.q.count x))

end Ring

end Clem.DetLru
