/-
IEEE-double instance of the snapshot model's float carrier, with a bit-exact `round(x, 6)`.

CPython computes `round(x, 6)` as: correctly rounded (half-even on the *exact* binary value)
decimal with 6 fractional digits (`_Py_dg_dtoa` mode 3), then correctly rounded back to a double
(`_Py_dg_strtod`).  Both steps are reproduced with exact natural-number arithmetic.
Import-free (executed by the driver; the theorems never look inside — they assume the laws in
`Clem.Snap.WLaws`, which the harness also monitors on the real `round`).
-/
import Clem.Model.Snap

namespace Clem.SnapFloat
open Clem.Snap Clem.Py.JV

/-- nearest-even double to `n / d` (`d > 0`), via a quotient with ≥ 56 significant bits whose
lowest bit is made sticky. Results here are `0` or `≥ 1e-6`, so `scaleB` is exact. -/
def divToFloat (n d : Nat) : Float :=
  if n == 0 then 0.0 else
  let k : Int := 56 - (n.log2 : Int) + (d.log2 : Int)
  let num := if k ≥ 0 then n <<< k.toNat else n
  let den := if k ≥ 0 then d else d <<< (-k).toNat
  let q := num / den
  let q' := if num % den == 0 then q else q ||| 1
  (q'.toUInt64.toFloat).scaleB (-k)

/-- Python `round(x, 6)` for a finite double `x`. -/
def pyRound6 (x : Float) : Float :=
  let bits := x.toBits
  let neg := (bits >>> 63) == 1
  let e := ((bits >>> 52) &&& 0x7FF).toNat
  let m := (bits &&& 0xFFFFFFFFFFFFF).toNat
  if e ≥ 1075 then x else
  let mant := if e == 0 then m else m + 4503599627370496
  let sh := if e == 0 then 1074 else 1075 - e
  let num := mant * 1000000
  let d := 1 <<< sh
  let q := num / d
  let r := num % d
  let n := if 2 * r > d then q + 1 else if 2 * r == d then (if q % 2 == 0 then q else q + 1) else q
  let v := divToFloat n 1000000
  if neg then -v else v

def fops : WOps Float :=
  { lt := fun a b => decide (a < b), fin := Float.isFinite, round := pyRound6, abs := Float.abs,
    zero := 0.0, one := 1.0, negOne := -1.0, isZero := fun x => x == 0.0 }

def lowerAscii (c : Nat) : Nat := if 65 ≤ c && c ≤ 90 then c + 32 else c

def isDigitC (c : Nat) : Bool := 48 ≤ c && c ≤ 57

/-- unsigned plain decimal `digits[.digits]` / `.digits` / `digits.`, correctly rounded -/
def parseDec (s : Str) : Option Float :=
  let ip := s.takeWhile isDigitC
  let rest := s.dropWhile isDigitC
  let fp : Option Str := match rest with
    | [] => some []
    | 46 :: r => if r.all isDigitC then some r else none
    | _ => none
  match fp with
  | none => none
  | some f =>
    if ip.isEmpty && f.isEmpty then none
    else some (divToFloat (natOfDigits (ip ++ f)) (10 ^ f.length))

/-- `float(s)` for the string shapes the harness generates: optional sign, then a plain decimal or
`nan` / `inf` / `infinity` (any case).  Exponents, underscores and surrounding blanks are outside
the generated domain (`none` = ValueError, which is also what every non-numeric string gives). -/
def pyFloatStr (s : Str) : Option Float :=
  let neg := match s with
    | 45 :: _ => true
    | _ => false
  let body := match s with
    | 45 :: r => r
    | 43 :: r => r
    | _ => s
  let low := body.map lowerAscii
  let v : Option Float :=
    if low == [110, 97, 110] then some (Float.ofBits 0x7FF8000000000000)
    else if low == [105, 110, 102] || low == [105, 110, 102, 105, 110, 105, 116, 121] then
      some (Float.ofBits 0x7FF0000000000000)
    else parseDec body
  v.map (fun x => if neg then -x else x)

def digitsOf (n : Nat) : Str := (Nat.toDigits 10 n).map Char.toNat

def intStr (n : Int) : Str := if n < 0 then 45 :: digitsOf n.natAbs else digitsOf n.natAbs

/-- `str() / float() / int()` on the value shapes the harness generates.  `str` of a float /
list / dict and `float()/int()` of numeric strings are outside the generated domain (`?`/`none`). -/
def fcv : Cv Float :=
  { pyStr := fun
      | .null => [78, 111, 110, 101]
      | .bool true => [84, 114, 117, 101]
      | .bool false => [70, 97, 108, 115, 101]
      | .int n => intStr n
      | .str s => s
      | _ => [63]
    pyFloat := fun
      | .num x => some x
      | .int n => some (Float.ofInt n)
      | .bool b => some (if b then 1.0 else 0.0)
      | .str t => pyFloatStr t
      | _ => none
    pyInt := fun
      | .int n => some n
      | .bool b => some (if b then 1 else 0)
      | .num x => if x.isFinite then some (x.toInt64.toInt) else none
      | _ => none }

def weq (a b : Float) : Bool := a.toBits == b.toBits

end Clem.SnapFloat
