/-
C16 — `LogStager`, `default_key_for`, `STAGE_ORD` (clematis/engine/util/io_logging.py) and the
drain-flush-retry loop of the batch driver (clematis/engine/orchestrator/parallel.py,
`_run_agents_parallel_batch`).  Mirrors the code as written: the sequence number is taken
*before* staging (also when staging fails), the retry after a back-pressure flush may raise
again (then the exception leaves the loop), `byte_limit` may be ≤ 0.
-/
import Clem.Py.Sort
import Clem.Gen.Logs
import Clem.Model.LogJson

namespace Clem.LogStager
open Clem.LogJson

structure Key where
  turn : Int
  ord : Nat
  slice : Int
  seq : Nat
  deriving DecidableEq, Repr

structure SRec where
  path : Str
  key : Key
  payload : Rec
  est : Nat
  deriving DecidableEq, Repr

/-- `os.path.basename` (POSIX): everything after the last `/` (47). -/
def basename (p : Str) : Str :=
  p.foldl (fun acc c => if c = 47 then [] else acc ++ [c]) []

/-- `STAGE_ORD.get(name, 99)`. -/
def stageOrdOf (name : Str) : Nat :=
  match Gen.Logs.stageOrd.lookup name with
  | some n => n
  | none => Gen.Logs.stageOrdDefault

/-- tuple comparison `(turn, ord, slice, seq, path) ≤ (…)` as used by `sorted(key=…)`. -/
def keyLe (a b : SRec) : Bool :=
  if a.key.turn < b.key.turn then true else if b.key.turn < a.key.turn then false
  else if a.key.ord < b.key.ord then true else if b.key.ord < a.key.ord then false
  else if a.key.slice < b.key.slice then true else if b.key.slice < a.key.slice then false
  else if a.key.seq < b.key.seq then true else if b.key.seq < a.key.seq then false
  else Clem.Py.lexLe a.path b.path

structure Stager where
  buf : List SRec
  seq : Nat
  bytes : Nat
  limit : Int
  deriving Repr

def Stager.new (limit : Int) : Stager := ⟨[], 0, 0, limit⟩

/-- `LogStager.stage`; `none` = raises `RuntimeError("LOG_STAGING_BACKPRESSURE")`. -/
def stage (ci : Bool) (s : Stager) (path : Str) (key : Key) (payload : Rec) : Option Stager :=
  let pn := normalize ci (basename path) payload
  let est := estimate pn
  if ((s.bytes + est : Nat) : Int) > s.limit then none
  else some { s with buf := s.buf ++ [⟨path, key, pn, est⟩], bytes := s.bytes + est }

/-- `LogStager.drain_sorted`: (emptied stager, records in key order). -/
def drain (s : Stager) : Stager × List SRec :=
  ({ s with buf := [], bytes := 0 }, Clem.Py.isort keyLe s.buf)

/-- one staged write request of the driver. -/
structure Arrival where
  path : Str
  turn : Int
  slice : Int
  payload : Rec
  deriving DecidableEq, Repr

/-- `default_key_for` (takes the next sequence number). -/
def keyFor (s : Stager) (a : Arrival) : Stager × Key :=
  ({ s with seq := s.seq + 1 }, ⟨a.turn, stageOrdOf (basename a.path), a.slice, s.seq + 1⟩)

/-- state of the driver loop: the stager and everything flushed to the writer so far. -/
structure Loop where
  st : Stager
  written : List SRec
  deriving Repr

/-- loop body: key, `stage`, on back-pressure drain + flush + retry once.
`none` = the retry raised as well (the exception leaves `_run_agents_parallel_batch`;
what was flushed before stays written, the record and everything after it is not). -/
def loopStep (ci : Bool) (l : Loop) (a : Arrival) : Loop × Bool :=
  let kf := keyFor l.st a
  match stage ci kf.1 a.path kf.2 a.payload with
  | some s2 => (⟨s2, l.written⟩, true)
  | none =>
    let d := drain kf.1
    match stage ci d.1 a.path kf.2 a.payload with
    | some s3 => (⟨s3, l.written ++ d.2⟩, true)
    | none => (⟨d.1, l.written ++ d.2⟩, false)

/-- the arrivals loop; stops at the first arrival whose retry raises. -/
def loopRun (ci : Bool) : Loop → List Arrival → Loop × Bool
  | l, [] => (l, true)
  | l, a :: as =>
    let r := loopStep ci l a
    if r.2 then loopRun ci r.1 as else (r.1, false)

/-- whole batch: fresh stager, all arrivals, final drain + flush (only when nothing raised). -/
def runBatch (ci : Bool) (limit : Int) (as : List Arrival) : List SRec × Bool :=
  let r := loopRun ci ⟨Stager.new limit, []⟩ as
  if r.2 then (r.1.written ++ (drain r.1.st).2, true) else (r.1.written, false)

/-- what ends up in file `p`, in write order. -/
def fileSeq (p : Str) (w : List SRec) : List SRec := w.filter (fun r => r.path == p)

/-- the records the loop hands to `stage`, in arrival order, with their keys
(`seq0` = sequence counter before the first). -/
def mkRecs (ci : Bool) : Nat → List Arrival → List SRec
  | _, [] => []
  | seq0, a :: as =>
    let pn := normalize ci (basename a.path) a.payload
    ⟨a.path, ⟨a.turn, stageOrdOf (basename a.path), a.slice, seq0 + 1⟩, pn, estimate pn⟩
      :: mkRecs ci (seq0 + 1) as

/-- arrivals are key-monotone per file: a later arrival for the same file never has a smaller
`(turn, slice)` (the sequence number grows by construction). -/
def tsLe (a b : Arrival) : Bool :=
  if a.turn < b.turn then true else if b.turn < a.turn then false else a.slice ≤ b.slice

def monoPerFileB : List Arrival → Bool
  | [] => true
  | a :: as => as.all (fun b => !(a.path == b.path) || tsLe a b) && monoPerFileB as

/-- Monitors on sequences of written records. -/
def sortedB : List SRec → Bool
  | [] => true
  | a :: l => l.all (fun b => keyLe a b) && sortedB l

end Clem.LogStager
