/-
C17 — scheduler core (`clematis/engine/scheduler.py`) and the orchestrator's yield
decision (`clematis/engine/orchestrator/core.py:_should_yield,_derive_budgets`),
modelled as written.  Import-free (linked into `clemdrv`).

Agent ids are Python `str`; here `List Nat` (code points).  `<` on `str` is the
lexicographic order on code points (`ltA`).  Dicts are association lists with unique
keys in insertion order.  Clock values and counters are Python `int` → `Int`.
-/
import Clem.Py.Sort

namespace Clem.Sched

abbrev Agent := List Nat

/-- Python `a < b` on `str` (lexicographic on code points). -/
def ltA : Agent → Agent → Bool
  | [], [] => false
  | [], _ :: _ => true
  | _ :: _, [] => false
  | x :: xs, y :: ys => if x < y then true else if y < x then false else ltA xs ys

abbrev Dict := List (Agent × Int)

def dHas : Dict → Agent → Bool
  | [], _ => false
  | (k, _) :: t, a => if k = a then true else dHas t a

/-- `d.get(a, dflt)` -/
def dGetD : Dict → Agent → Int → Int
  | [], _, dflt => dflt
  | (k, v) :: t, a, dflt => if k = a then v else dGetD t a dflt

/-- `d[a] = v` for a key that is present (in place); appends otherwise. -/
def dSet : Dict → Agent → Int → Dict
  | [], a, v => [(a, v)]
  | (k, w) :: t, a, v => if k = a then (k, v) :: t else (k, w) :: dSet t a v

structure State where
  queue : List Agent
  lastRan : Dict
  consec : Dict
  deriving DecidableEq, Repr

inductive Reason | roundRobin | agingBoost | resetConsec
  deriving DecidableEq, Repr

/-- `{a: v for a in q}` : first occurrence fixes the position, value is the same. -/
def dictOfKeys (v : Int) : List Agent → Dict
  | [] => []
  | a :: t => let r := dictOfKeys v t
              (a, v) :: r.filter (fun p => !(p.1 == a))

/-- `init_scheduler_state(agent_ids, now_ms)` (`sorted` = stable insertion sort on `str` order). -/
def initState (ids : List Agent) (now : Int) : State :=
  let q := Clem.Py.isort (fun a b => !(ltA b a)) ids
  { queue := q, lastRan := dictOfKeys now q, consec := dictOfKeys 0 q }

/-- `consec_turns.get(a, 0) < mct` -/
def eligB (s : State) (mct : Int) (a : Agent) : Bool := decide (dGetD s.consec a 0 < mct)

def eligible (s : State) (mct : Int) : List Agent := s.queue.filter (eligB s mct)

/-- Python `min(a :: l)`: first minimal element. -/
def pyMinAux : Agent → List Agent → Agent
  | best, [] => best
  | best, x :: t => if ltA x best then pyMinAux x t else pyMinAux best t

def pyMin : List Agent → Agent
  | [] => []
  | a :: t => pyMinAux a t

/-- aging tier of `a` as computed inside `next_turn` (floor division; both operands are
non-negative where the division happens, so `Int./` is Python's `//`). -/
def tier (s : State) (now aging : Int) (a : Agent) : Int :=
  let idle := now - dGetD s.lastRan a 0
  let idle := if idle < 0 then 0 else idle
  if aging > 0 then idle / aging else 0

def better (t bt : Int) (a : Agent) (best : Option Agent) : Bool :=
  decide (t > bt) || (decide (t = bt) && (match best with | none => true | some b => ltA a b))

/-- the fair-queue loop over the eligible list; `(best_agent, best_tier)`. -/
def fqLoop (s : State) (now aging : Int) : List Agent → Option Agent → Int → Option Agent
  | [], best, _ => best
  | a :: rest, best, bt =>
    if better (tier s now aging a) bt a best then fqLoop s now aging rest (some a) (tier s now aging a)
    else fqLoop s now aging rest best bt

/-- `best_agent or eligible[0]` (the empty string is falsy). -/
def orFirst (best : Option Agent) (first : Agent) : Agent :=
  match best with
  | some (c :: cs) => c :: cs
  | _ => first

/-- `next_turn` with `fq := (policy == "fair_queue")`, `aging`, `mct` already converted by `int()`. -/
def nextTurn (fq : Bool) (aging mct now : Int) (s : State) : Agent × Reason :=
  match s.queue with
  | [] => ([], if fq then .agingBoost else .roundRobin)
  | _ :: _ =>
    match eligible s mct with
    | [] => (pyMin s.queue, .resetConsec)
    | e :: es =>
      if fq then (orFirst (fqLoop s now aging (e :: es) none (-1)) e, .agingBoost)
      else (e, .roundRobin)

/-- `on_yield(ctx, sched, agent_id, …, reset)` with `now = ctx.now_ms()`. -/
def onYield (s : State) (a : Agent) (now : Int) (reset : Bool) : State :=
  let lr := if dHas s.lastRan a then dSet s.lastRan a now else s.lastRan
  if reset then { s with lastRan := lr, consec := s.consec.map (fun p => (p.1, 0)) }
  else { s with lastRan := lr,
                consec := if dHas s.consec a then dSet s.consec a (dGetD s.consec a 0 + 1) else s.consec }

/-! ### Configuration values passed through `int(...)` -/

inductive CfgVal | absent | int (i : Int) | bad
  deriving DecidableEq, Repr

/-- `int(cfg.get(key, dflt))` ; `bad` = a value on which `int()` raises. -/
def cfgInt (v : CfgVal) (dflt : Int) : Except Unit Int :=
  match v with
  | .absent => pure dflt
  | .int i => pure i
  | .bad => throw ()

def nextTurnCfg (fq : Bool) (aging mct : CfgVal) (now : Int) (s : State) : Except Unit (Agent × Reason) := do
  let ag ← cfgInt aging 200
  let m ← cfgInt mct 1000000000
  pure (nextTurn fq ag m now s)

/-! ### Spec relation `Pick` (decidable form) -/

def anyElig (s : State) (mct : Int) : Bool := s.queue.any (eligB s mct)

/-- "the chosen agent is a queued agent that has not used up its allowance, unless all have,
in which case the lexicographically first agent is chosen and the reason is RESET". -/
def pickB (s : State) (mct : Int) (a : Agent) (r : Reason) : Bool :=
  if anyElig s mct then s.queue.contains a && eligB s mct a && !(r == .resetConsec)
  else (a == pyMin s.queue) && (r == .resetConsec)

/-- `a` is a least element of `q` for the `str` order and belongs to it. -/
def isLeastB (q : List Agent) (a : Agent) : Bool := q.contains a && q.all (fun b => !(ltA b a))

/-! ### One scheduling step and executable histories -/

/-- optional queue rotation: the demo's `q.remove(agent); q.append(agent)`. -/
def rotate (q : List Agent) (a : Agent) : List Agent :=
  if q.contains a then q.erase a ++ [a] else q

structure Tick where
  nowPick : Int
  nowYield : Int
  fq : Bool
  aging : Int
  rot : Bool
  deriving DecidableEq, Repr

def stepT (mct : Int) (s : State) (t : Tick) : State × Agent × Reason :=
  let p := nextTurn t.fq t.aging mct t.nowPick s
  let s1 := onYield s p.1 t.nowYield (p.2 == .resetConsec)
  let s2 := if t.rot then { s1 with queue := rotate s1.queue p.1 } else s1
  (s2, p.1, p.2)

/-- run a history; returns the trace of selected agents and the final state -/
def simulate (mct : Int) : State → List Tick → List Agent × State
  | s, [] => ([], s)
  | s, t :: ts =>
    let r := stepT mct s t
    let rest := simulate mct r.1 ts
    (r.2.1 :: rest.1, rest.2)

/-- longest run of consecutive entries `≠ x` in a trace (waiting time of `x`). -/
def maxGapAux (x : Agent) : List Agent → Nat → Nat → Nat
  | [], cur, best => max cur best
  | a :: t, cur, best => if a = x then maxGapAux x t 0 (max cur best) else maxGapAux x t (cur + 1) best

def maxGap (x : Agent) (tr : List Agent) : Nat := maxGapAux x tr 0 0

def bound (n : Nat) (m : Nat) : Nat := 2 * (n - 1) * m + 1

/-- monitor: every queued agent's longest wait in `tr` is within the bound -/
def gapsOkB (q : List Agent) (m : Nat) (tr : List Agent) : Bool :=
  q.all (fun x => decide (maxGap x tr ≤ bound q.length m))

/-- counters stay within `[0, m]` and every queued agent has a counter -/
def consecOkB (s : State) (m : Int) : Bool :=
  s.queue.all (fun a => dHas s.consec a) && s.consec.all (fun p => decide (0 ≤ p.2) && decide (p.2 ≤ m))

/-! ### Yield decision (`_should_yield`, `_derive_budgets`) -/

inductive YReason | wall | t1Iters | t1Pops | t2K | t3Ops | quantum
  deriving DecidableEq, Repr

/-- `budgets` as produced by `_derive_budgets`: a key is either missing or an `int`. -/
structure Budgets where
  wall : Option Int
  t1Iters : Option Int
  t1Pops : Option Int
  t2K : Option Int
  t3Ops : Option Int
  quantum : Option Int
  deriving DecidableEq, Repr

structure Consumed where
  ms : Option Int
  t1Iters : Option Int
  t1Pops : Option Int
  t2K : Option Int
  t3Ops : Option Int
  deriving DecidableEq, Repr

/-- `budgets.get(k) is not None and consumed.get(k) == budgets.get(k)` -/
def hitEq (b c : Option Int) : Bool :=
  match b with
  | none => false
  | some bv => (match c with | some cv => decide (cv = bv) | none => false)

def elapsed (c : Consumed) : Int := c.ms.getD 0

def wallHit (b : Budgets) (c : Consumed) : Bool :=
  match b.wall with
  | some w => decide (elapsed c ≥ w)
  | none => false

def shouldYield (b : Budgets) (c : Consumed) : Option YReason :=
  if wallHit b c then some .wall
  else if hitEq b.t1Iters c.t1Iters then some .t1Iters
  else if hitEq b.t1Pops c.t1Pops then some .t1Pops
  else if hitEq b.t2K c.t2K then some .t2K
  else if hitEq b.t3Ops c.t3Ops then some .t3Ops
  else if decide (elapsed c ≥ b.quantum.getD 20) then some .quantum
  else none

def quantumHit (b : Budgets) (c : Consumed) : Bool := decide (elapsed c ≥ b.quantum.getD 20)

/-- The documented precedence, stated independently of `shouldYield`:
wall-clock over stage budgets (in the order T1 iters, T1 pops, T2 k, T3 ops) over quantum. -/
def yieldSpecB (b : Budgets) (c : Consumed) (r : Option YReason) : Bool :=
  let w := wallHit b c
  let h1 := hitEq b.t1Iters c.t1Iters
  let h2 := hitEq b.t1Pops c.t1Pops
  let h3 := hitEq b.t2K c.t2K
  let h4 := hitEq b.t3Ops c.t3Ops
  match r with
  | some .wall => w
  | some .t1Iters => !w && h1
  | some .t1Pops => !w && !h1 && h2
  | some .t2K => !w && !h1 && !h2 && h3
  | some .t3Ops => !w && !h1 && !h2 && !h3 && h4
  | some .quantum => !w && !h1 && !h2 && !h3 && !h4 && quantumHit b c
  | none => !w && !h1 && !h2 && !h3 && !h4 && !quantumHit b c

/-- `_derive_budgets`: per key `None`/missing is skipped, else `int(v)`; quantum defaults to 20. -/
def budgetKey (v : CfgVal) : Except Unit (Option Int) :=
  match v with
  | .absent => pure none
  | .int i => pure (some i)
  | .bad => throw ()

def deriveBudgets (t1Pops t1Iters t2K t3Ops wall quantum : CfgVal) : Except Unit Budgets := do
  let a ← budgetKey t1Pops
  let b ← budgetKey t1Iters
  let c ← budgetKey t2K
  let d ← budgetKey t3Ops
  let e ← budgetKey wall
  let q ← cfgInt quantum 20
  pure { wall := e, t1Iters := b, t1Pops := a, t2K := c, t3Ops := d, quantum := some q }

/-! ### Skeleton of `run_turn`'s yield behaviour: the decision is consulted once after each of the
five stages, in order, with that boundary's counters; the first non-`None` answer ends the turn. -/

inductive Stage | T1 | T2 | T3 | T4 | Apply
  deriving DecidableEq, Repr

def firstYield (b : Budgets) : List (Stage × Consumed) → Option (Stage × YReason)
  | [] => none
  | p :: rest =>
    match shouldYield b p.2 with
    | some r => some (p.1, r)
    | none => firstYield b rest

/-- Stage-side clamps as written: `min(base, int(slice))` when a slice budget is present. -/
def clampCap (base : Int) (slice : Option Int) : Int :=
  match slice with
  | none => base
  | some v => if v < base then v else base

end Clem.Sched
