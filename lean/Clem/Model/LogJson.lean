/-
C16 — record values and `normalize_for_identity` (clematis/engine/util/io_logging.py).

A record is a Python `dict` with string keys: an association list in insertion order
(`Rec`).  `normalize_for_identity` only ever looks at a value through four Python
operations: truthiness (`if yielded:`), `int(v)` (may raise), `isinstance(v, dict)` +
`v.keys()`, and (in `LogStager.stage`) `len(str(v))`.  Untouched values are therefore
*opaque tokens* carrying the answers of those four operations (oracles computed by
CPython, named in the trusted base); the values that normalisation itself writes are
explicit constructors, so that re-normalising is computed by the model, not by an oracle.
Import-free apart from the generated table.
-/
import Clem.Gen.Logs

namespace Clem.LogJson

abbrev Str := List Nat

inductive V where
  /-- `0.0` written by normalisation -/
  | flt0
  /-- `True` written by normalisation -/
  | tru
  /-- result of `int(...)` -/
  | int (n : Int)
  /-- `{k: 0.0 for k in keys}` -/
  | zeros (keys : List Str)
  /-- any other Python value: identity token + oracle answers
      (`bool(v)`, `int(v)` or raise, `list(v.keys())` when a dict, `len(str(v))`) -/
  | opq (id : Nat) (truthy : Bool) (asInt : Option Int) (dkeys : Option (List Str)) (slen : Nat)
  deriving DecidableEq, Repr

abbrev Rec := List (Str × V)

/-- number of decimal digits (structural fuel so that `decide` reduces it). -/
def ndig : Nat → Nat → Nat
  | 0, _ => 1
  | f + 1, n => if n < 10 then 1 else 1 + ndig f (n / 10)

def intStrLen (n : Int) : Nat :=
  if n < 0 then 1 + ndig n.natAbs n.natAbs else ndig n.natAbs n.natAbs

/-- `len(str({k: 0.0, …}))` for keys whose `repr` is `'k'` (printable, no quote/backslash). -/
def zerosStrLen : List Str → Nat
  | [] => 2
  | k :: ks => 2 + (k.length + 7) + (ks.foldl (fun a k' => a + 2 + (k'.length + 7)) 0)

def V.truthy : V → Bool
  | .flt0 => false
  | .tru => true
  | .int n => n != 0
  | .zeros ks => !ks.isEmpty
  | .opq _ t _ _ _ => t

/-- `int(v)`; `none` = raises (swallowed by `except Exception: pass`). -/
def V.asInt : V → Option Int
  | .flt0 => some 0
  | .tru => some 1
  | .int n => some n
  | .zeros _ => none
  | .opq _ _ a _ _ => a

/-- `isinstance(v, dict)` and its keys. -/
def V.dkeys : V → Option (List Str)
  | .zeros ks => some ks
  | .opq _ _ _ d _ => d
  | _ => none

/-- `len(str(v))`. -/
def V.slen : V → Nat
  | .flt0 => 3
  | .tru => 4
  | .int n => intStrLen n
  | .zeros ks => zerosStrLen ks
  | .opq _ _ _ _ l => l

/-! ### dict operations used by the function -/

/-- `if k in out: out[k] = v` (assignment to an existing key keeps its position). -/
def setIf (k : Str) (v : V) (r : Rec) : Rec :=
  r.map (fun e => if e.1 = k then (e.1, v) else e)

/-- `out.pop(k, None)`. -/
def pop (k : Str) (r : Rec) : Rec := r.filter (fun e => !(e.1 == k))

def get (k : Str) (r : Rec) : Option V := r.lookup k

/-! ### field and stream names (code points) -/
def kMs : Str := [109, 115]
def kNow : Str := [110, 111, 119]
def kDur : Str := [100, 117, 114, 97, 116, 105, 111, 110, 115, 95, 109, 115]
def kYielded : Str := [121, 105, 101, 108, 100, 101, 100]
def kSlice : Str := [115, 108, 105, 99, 101, 95, 105, 100, 120]
def nTurn : Str := [116, 117, 114, 110, 46, 106, 115, 111, 110, 108]
def nReflection : Str :=
  [116, 51, 95, 114, 101, 102, 108, 101, 99, 116, 105, 111, 110, 46, 106, 115, 111, 110, 108]

/-- `os.environ.get("CI", "").lower() == "true"` for an ASCII value of the variable. -/
def lowerAscii (s : Str) : Str := s.map (fun c => if 65 ≤ c ∧ c ≤ 90 then c + 32 else c)
def ciOn (env : Str) : Bool := lowerAscii env == [116, 114, 117, 101]

/-- the `durations_ms` step. -/
def normDur (r : Rec) : Rec :=
  match (get kDur r).bind V.dkeys with
  | some ks => setIf kDur (.zeros ks) r
  | none => r

/-- `out["slice_idx"] = int(out["slice_idx"])` under `try/except Exception: pass`. -/
def coerceSlice (r : Rec) : Rec :=
  match (get kSlice r).bind V.asInt with
  | some n => setIf kSlice (.int n) r
  | none => r

def yieldedTruthy (r : Rec) : Bool :=
  match get kYielded r with
  | some v => v.truthy
  | none => false

/-- the `turn.jsonl` tail of the identity branch. -/
def normTurn (r : Rec) : Rec :=
  let r1 := normDur r
  if yieldedTruthy r1 then setIf kYielded .tru (coerceSlice r1)
  else pop kYielded (pop kSlice r1)

/-- the common identity-log step: zero `ms`, drop `now`. -/
def normBase (r : Rec) : Rec := pop kNow (setIf kMs .flt0 r)

/-- `normalize_for_identity(name, rec)` with `ci = (CI == "true")`. -/
def normalize (ci : Bool) (name : Str) (r : Rec) : Rec :=
  if !ci then r
  else if name = nReflection then setIf kMs .flt0 r
  else if Gen.Logs.identityLogsIo.contains name then
    (if name = nTurn then normTurn (normBase r) else normBase r)
  else r

/-- the fields normalisation may touch on stream `name` (the property's "volatile fields"). -/
def volatile (name : Str) : List Str :=
  if name = nReflection then [kMs]
  else if Gen.Logs.identityLogsIo.contains name then
    (if name = nTurn then [kMs, kNow, kDur, kYielded, kSlice] else [kMs, kNow])
  else []

/-- the sub-record of non-volatile fields (values and order). -/
def stable (name : Str) (r : Rec) : Rec := r.filter (fun e => !(volatile name).contains e.1)

def keys (r : Rec) : List Str := r.map (·.1)

/-- Monitor: `out` is an admissible normalisation of `inp` as far as the property speaks:
non-volatile fields untouched (values, order); on identity streams `ms`, if kept, is `0.0`
and `now` is gone; when CI is off nothing changes. -/
def normOkB (ci : Bool) (name : Str) (inp out : Rec) : Bool :=
  (stable name inp == stable name out) &&
  (if !ci then inp == out else true) &&
  (if ci && (volatile name).contains kMs then
     (out.all (fun e => !(e.1 == kMs) || e.2 == .flt0)) && ((keys out).contains kMs == (keys inp).contains kMs)
   else true) &&
  (if ci && (volatile name).contains kNow then !(keys out).contains kNow else true)

/-- `est` of `LogStager.stage`: `sum(len(str(k)) + len(str(v))) + 2` over the normalised payload. -/
def estimate (r : Rec) : Nat := r.foldl (fun a e => a + (e.1.length + e.2.slen)) 0 + 2

end Clem.LogJson
